/- TRANSLATED by harness/trans_c15.py (harness/py2lean2.py) from the SOURCE TEXT of every labelling function the
   live menpo.landmark module exports (menpo/landmark/labels/**) on every run of `./check C15`; do not edit.
   The body of each function — its `np.arange` / `np.array` / `np.hstack` index tables, its connectivity calls, its
   mapping, which points go to which constructor — as a function of the input points.  GenProps/C15SrcLab.lean proves
   each equal, on EVERY input, to `Labeller.apply` of the table PROBED from the live function. -/
import MenpoModel.Generated.C15Src

set_option linter.unusedVariables false
set_option maxRecDepth 4096

namespace MenpoModel.C15.SrcLab
open MenpoModel.C15 MenpoModel.C15.Src MenpoModel.C15.SrcGen

def h_build_upper_eyelid : Except Err (List Int × List (Int × Int)) :=
  let topindices0 := (arange (0) (7))
  let middleindices0 := (arange (12) (17))
  let uppereyelidindices0 := (topindices0 ++ middleindices0)
  let uppereyelidconnectivity0 := (List.zip topindices0 (List.drop 1 topindices0))
  let uppereyelidconnectivity1 := (uppereyelidconnectivity0 ++ [((0), (12))])
  let uppereyelidconnectivity0 := (uppereyelidconnectivity1 ++ (List.zip middleindices0 (List.drop 1 middleindices0)))
  let uppereyelidconnectivity1 := (uppereyelidconnectivity0 ++ [((16), (6))])
  .ok ((uppereyelidindices0, uppereyelidconnectivity1))

def car_streetscene_20_to_car_streetscene_view_0_8 {α : Type} (pcloud : List α) : Except Err (Obj α × ODict (List Int)) :=
  let nexpectedpoints0 := (20)
  (Except.bind (validated (validate_input pcloud nexpectedpoints0) pcloud) fun pcloud0 =>
    let frontindices0 := [(0), (1), (3), (2)]
    let bonnetindices0 := [(2), (3), (5), (4)]
    let windshieldindices0 := [(4), (5), (7), (6)]
    (Except.bind (connectivity_from_array frontindices0 true) fun frontconnectivity0 =>
      (Except.bind (connectivity_from_array bonnetindices0 true) fun bonnetconnectivity0 =>
        (Except.bind (connectivity_from_array windshieldindices0 true) fun windshieldconnectivity0 =>
          let allconnectivity0 := (List.flatten [frontconnectivity0, bonnetconnectivity0, windshieldconnectivity0])
          let mapping0 := ODict.empty
          let mapping1 := (ODict.set mapping0 "front" frontindices0)
          let mapping0 := (ODict.set mapping1 "bonnet" bonnetindices0)
          let mapping1 := (ODict.set mapping0 "windshield" windshieldindices0)
          let ind0 := (arange 0 (8))
          (Except.bind (takePts (HasPoints.points pcloud0) ind0) fun tmp0 =>
          (Except.bind (lgraphObj (init_from_indices_mapping tmp0 (Adj.edgeList allconnectivity0) mapping1 true)) fun newpcloud0 =>
            .ok ((newpcloud0, mapping1))))))))

def car_streetscene_20_to_car_streetscene_view_1_14 {α : Type} (pcloud : List α) : Except Err (Obj α × ODict (List Int)) :=
  let nexpectedpoints0 := (20)
  (Except.bind (validated (validate_input pcloud nexpectedpoints0) pcloud) fun pcloud0 =>
    let frontindices0 := [(0), (1), (3), (2)]
    let bonnetindices0 := [(2), (3), (5), (4)]
    let windshieldindices0 := [(4), (5), (7), (6)]
    let leftsideindices0 := [(0), (2), (4), (6), (8), (9), (10), (11), (13), (12)]
    (Except.bind (connectivity_from_array frontindices0 true) fun frontconnectivity0 =>
      (Except.bind (connectivity_from_array bonnetindices0 true) fun bonnetconnectivity0 =>
        (Except.bind (connectivity_from_array windshieldindices0 true) fun windshieldconnectivity0 =>
          (Except.bind (connectivity_from_array leftsideindices0 true) fun leftsideconnectivity0 =>
            let allconnectivity0 := (List.flatten [frontconnectivity0, bonnetconnectivity0, windshieldconnectivity0, leftsideconnectivity0])
            let mapping0 := ODict.empty
            let mapping1 := (ODict.set mapping0 "front" frontindices0)
            let mapping0 := (ODict.set mapping1 "bonnet" bonnetindices0)
            let mapping1 := (ODict.set mapping0 "windshield" windshieldindices0)
            let mapping0 := (ODict.set mapping1 "left_side" leftsideindices0)
            let ind0 := ((arange 0 (9)) ++ [(10), (12), (14), (16), (18)])
            (Except.bind (takePts (HasPoints.points pcloud0) ind0) fun tmp0 =>
            (Except.bind (lgraphObj (init_from_indices_mapping tmp0 (Adj.edgeList allconnectivity0) mapping0 true)) fun newpcloud0 =>
              .ok ((newpcloud0, mapping0)))))))))

def car_streetscene_20_to_car_streetscene_view_2_10 {α : Type} (pcloud : List α) : Except Err (Obj α × ODict (List Int)) :=
  let nexpectedpoints0 := (20)
  (Except.bind (validated (validate_input pcloud nexpectedpoints0) pcloud) fun pcloud0 =>
    let leftsideindices0 := [(0), (1), (2), (3), (4), (5), (6), (7), (9), (8)]
    (Except.bind (connectivity_from_array leftsideindices0 true) fun leftsideconnectivity0 =>
      let allconnectivity0 := leftsideconnectivity0
      let mapping0 := ODict.empty
      let mapping1 := (ODict.set mapping0 "left_side" leftsideindices0)
      let ind0 := [(0), (2), (4), (6), (8), (10), (12), (14), (16), (18)]
      (Except.bind (takePts (HasPoints.points pcloud0) ind0) fun tmp0 =>
      (Except.bind (lgraphObj (init_from_indices_mapping tmp0 (Adj.edgeList allconnectivity0) mapping1 true)) fun newpcloud0 =>
        .ok ((newpcloud0, mapping1))))))

def car_streetscene_20_to_car_streetscene_view_3_14 {α : Type} (pcloud : List α) : Except Err (Obj α × ODict (List Int)) :=
  let nexpectedpoints0 := (20)
  (Except.bind (validated (validate_input pcloud nexpectedpoints0) pcloud) fun pcloud0 =>
    let leftsideindices0 := [(0), (1), (2), (3), (4), (6), (8), (10), (13), (12)]
    let rearwindshieldindices0 := [(4), (5), (7), (6)]
    let trunkindices0 := [(6), (7), (9), (8)]
    let rearindices0 := [(8), (9), (11), (10)]
    (Except.bind (connectivity_from_array leftsideindices0 true) fun leftsideconnectivity0 =>
      (Except.bind (connectivity_from_array rearwindshieldindices0 true) fun rearwindshieldconnectivity0 =>
        (Except.bind (connectivity_from_array trunkindices0 true) fun trunkconnectivity0 =>
          (Except.bind (connectivity_from_array rearindices0 true) fun rearconnectivity0 =>
            let allconnectivity0 := (List.flatten [leftsideconnectivity0, rearwindshieldconnectivity0, trunkconnectivity0, rearconnectivity0])
            let mapping0 := ODict.empty
            let mapping1 := (ODict.set mapping0 "left_side" leftsideindices0)
            let mapping0 := (ODict.set mapping1 "rear_windshield" rearwindshieldindices0)
            let mapping1 := (ODict.set mapping0 "trunk" trunkindices0)
            let mapping0 := (ODict.set mapping1 "rear" rearindices0)
            let ind0 := [(0), (2), (4), (6), (8), (9), (10), (11), (12), (13), (14), (15), (16), (18)]
            (Except.bind (takePts (HasPoints.points pcloud0) ind0) fun tmp0 =>
            (Except.bind (lgraphObj (init_from_indices_mapping tmp0 (Adj.edgeList allconnectivity0) mapping0 true)) fun newpcloud0 =>
              .ok ((newpcloud0, mapping0)))))))))

def car_streetscene_20_to_car_streetscene_view_4_14 {α : Type} (pcloud : List α) : Except Err (Obj α × ODict (List Int)) :=
  let nexpectedpoints0 := (20)
  (Except.bind (validated (validate_input pcloud nexpectedpoints0) pcloud) fun pcloud0 =>
    let frontindices0 := [(0), (1), (3), (2)]
    let bonnetindices0 := [(2), (3), (5), (4)]
    let windshieldindices0 := [(4), (5), (7), (6)]
    let rightsideindices0 := [(8), (9), (10), (11), (13), (12), (1), (3), (5), (7)]
    (Except.bind (connectivity_from_array frontindices0 true) fun frontconnectivity0 =>
      (Except.bind (connectivity_from_array bonnetindices0 true) fun bonnetconnectivity0 =>
        (Except.bind (connectivity_from_array windshieldindices0 true) fun windshieldconnectivity0 =>
          (Except.bind (connectivity_from_array rightsideindices0 true) fun rightsideconnectivity0 =>
            let allconnectivity0 := (List.flatten [frontconnectivity0, bonnetconnectivity0, windshieldconnectivity0, rightsideconnectivity0])
            let mapping0 := ODict.empty
            let mapping1 := (ODict.set mapping0 "front" frontindices0)
            let mapping0 := (ODict.set mapping1 "bonnet" bonnetindices0)
            let mapping1 := (ODict.set mapping0 "windshield" windshieldindices0)
            let mapping0 := (ODict.set mapping1 "right_side" rightsideindices0)
            let ind0 := ((arange 0 (8)) ++ [(9), (11), (13), (15), (17), (19)])
            (Except.bind (takePts (HasPoints.points pcloud0) ind0) fun tmp0 =>
            (Except.bind (lgraphObj (init_from_indices_mapping tmp0 (Adj.edgeList allconnectivity0) mapping0 true)) fun newpcloud0 =>
              .ok ((newpcloud0, mapping0)))))))))

def car_streetscene_20_to_car_streetscene_view_5_10 {α : Type} (pcloud : List α) : Except Err (Obj α × ODict (List Int)) :=
  let nexpectedpoints0 := (20)
  (Except.bind (validated (validate_input pcloud nexpectedpoints0) pcloud) fun pcloud0 =>
    let rightsideindices0 := [(0), (1), (2), (3), (4), (5), (6), (7), (9), (8)]
    (Except.bind (connectivity_from_array rightsideindices0 true) fun rightsideconnectivity0 =>
      let allconnectivity0 := rightsideconnectivity0
      let mapping0 := ODict.empty
      let mapping1 := (ODict.set mapping0 "right_side" rightsideindices0)
      let ind0 := [(1), (3), (5), (7), (9), (11), (13), (15), (17), (19)]
      (Except.bind (takePts (HasPoints.points pcloud0) ind0) fun tmp0 =>
      (Except.bind (lgraphObj (init_from_indices_mapping tmp0 (Adj.edgeList allconnectivity0) mapping1 true)) fun newpcloud0 =>
        .ok ((newpcloud0, mapping1))))))

def car_streetscene_20_to_car_streetscene_view_6_14 {α : Type} (pcloud : List α) : Except Err (Obj α × ODict (List Int)) :=
  let nexpectedpoints0 := (20)
  (Except.bind (validated (validate_input pcloud nexpectedpoints0) pcloud) fun pcloud0 =>
    let rightsideindices0 := [(0), (1), (2), (3), (5), (7), (9), (11), (13), (12)]
    let rearwindshieldindices0 := [(4), (5), (7), (6)]
    let trunkindices0 := [(6), (7), (9), (8)]
    let rearindices0 := [(8), (9), (11), (10)]
    (Except.bind (connectivity_from_array rightsideindices0 true) fun rightsideconnectivity0 =>
      (Except.bind (connectivity_from_array rearwindshieldindices0 true) fun rearwindshieldconnectivity0 =>
        (Except.bind (connectivity_from_array trunkindices0 true) fun trunkconnectivity0 =>
          (Except.bind (connectivity_from_array rearindices0 true) fun rearconnectivity0 =>
            let allconnectivity0 := (List.flatten [rightsideconnectivity0, rearwindshieldconnectivity0, trunkconnectivity0, rearconnectivity0])
            let mapping0 := ODict.empty
            let mapping1 := (ODict.set mapping0 "right_side" rightsideindices0)
            let mapping0 := (ODict.set mapping1 "rear_windshield" rearwindshieldindices0)
            let mapping1 := (ODict.set mapping0 "trunk" trunkindices0)
            let mapping0 := (ODict.set mapping1 "rear" rearindices0)
            let ind0 := [(1), (3), (5), (7), (8), (9), (10), (11), (12), (13), (14), (15), (17), (19)]
            (Except.bind (takePts (HasPoints.points pcloud0) ind0) fun tmp0 =>
            (Except.bind (lgraphObj (init_from_indices_mapping tmp0 (Adj.edgeList allconnectivity0) mapping0 true)) fun newpcloud0 =>
              .ok ((newpcloud0, mapping0)))))))))

def car_streetscene_20_to_car_streetscene_view_7_8 {α : Type} (pcloud : List α) : Except Err (Obj α × ODict (List Int)) :=
  let nexpectedpoints0 := (20)
  (Except.bind (validated (validate_input pcloud nexpectedpoints0) pcloud) fun pcloud0 =>
    let rearwindshieldindices0 := [(0), (1), (3), (2)]
    let trunkindices0 := [(2), (3), (5), (4)]
    let rearindices0 := [(4), (5), (7), (6)]
    (Except.bind (connectivity_from_array rearwindshieldindices0 true) fun rearwindshieldconnectivity0 =>
      (Except.bind (connectivity_from_array trunkindices0 true) fun trunkconnectivity0 =>
        (Except.bind (connectivity_from_array rearindices0 true) fun rearconnectivity0 =>
          let allconnectivity0 := (List.flatten [rearwindshieldconnectivity0, trunkconnectivity0, rearconnectivity0])
          let mapping0 := ODict.empty
          let mapping1 := (ODict.set mapping0 "rear_windshield" rearwindshieldindices0)
          let mapping0 := (ODict.set mapping1 "trunk" trunkindices0)
          let mapping1 := (ODict.set mapping0 "rear" rearindices0)
          let ind0 := (arange (8) (16))
          (Except.bind (takePts (HasPoints.points pcloud0) ind0) fun tmp0 =>
          (Except.bind (lgraphObj (init_from_indices_mapping tmp0 (Adj.edgeList allconnectivity0) mapping1 true)) fun newpcloud0 =>
            .ok ((newpcloud0, mapping1))))))))

def eye_ibug_close_17_to_eye_ibug_close_17 {α : Type} (pcloud : List α) : Except Err (Obj α × ODict (List Int)) :=
  let nexpectedpoints0 := (17)
  (Except.bind (validated (validate_input pcloud nexpectedpoints0) pcloud) fun pcloud0 =>
    (Except.bind h_build_upper_eyelid fun tmp0 =>
      let p0 := tmp0
      let upperindices0 := p0.1
      let upperconnectivity0 := p0.2
      let middleindices0 := (arange (12) (17))
      let bottomindices0 := (arange (6) (12))
      let lowerindices0 := (bottomindices0 ++ [(0)] ++ middleindices0)
      let lowerconnectivity0 := (List.zip bottomindices0 (List.drop 1 bottomindices0))
      let lowerconnectivity1 := (lowerconnectivity0 ++ [((0), (12))])
      let lowerconnectivity0 := (lowerconnectivity1 ++ (List.zip middleindices0 (List.drop 1 middleindices0)))
      let lowerconnectivity1 := (lowerconnectivity0 ++ [((11), (0))])
      let allconnectivity0 := (upperconnectivity0 ++ lowerconnectivity1)
      let mapping0 := ODict.empty
      let mapping1 := (ODict.set mapping0 "upper_eyelid" upperindices0)
      let mapping0 := (ODict.set mapping1 "lower_eyelid" lowerindices0)
      (Except.bind (lgraphObj (init_from_indices_mapping (HasPoints.points pcloud0) (Adj.edgeList allconnectivity0) mapping0 true)) fun newpcloud0 =>
        .ok ((newpcloud0, mapping0)))))

def eye_ibug_close_17_to_eye_ibug_close_17_trimesh {α : Type} (pcloud : List α) : Except Err (Obj α × ODict (List Int)) :=
  let nexpectedpoints0 := (17)
  (Except.bind (validated (validate_input pcloud nexpectedpoints0) pcloud) fun pcloud0 =>
    let trilist0 := [[(10), (11), (13)], [(3), (13), (2)], [(4), (14), (3)], [(15), (5), (16)], [(12), (11), (0)], [(13), (14), (10)], [(13), (12), (2)], [(14), (13), (3)], [(0), (1), (12)], [(2), (12), (1)], [(13), (11), (12)], [(9), (10), (14)], [(15), (9), (14)], [(7), (8), (15)], [(5), (6), (16)], [(15), (14), (4)], [(7), (15), (16)], [(8), (9), (15)], [(15), (4), (5)], [(16), (6), (7)]]
    let newpcloud0 := (triMesh (HasPoints.points pcloud0) trilist0)
    let mapping0 := ODict.empty
    let mapping1 := (ODict.set mapping0 "tri" (arange 0 (List.length (HasPoints.points newpcloud0))))
    .ok ((newpcloud0, mapping1)))

def eye_ibug_open_38_to_eye_ibug_open_38 {α : Type} (pcloud : List α) : Except Err (Obj α × ODict (List Int)) :=
  let nexpectedpoints0 := (38)
  (Except.bind (validated (validate_input pcloud nexpectedpoints0) pcloud) fun pcloud0 =>
    (Except.bind h_build_upper_eyelid fun tmp0 =>
      let p0 := tmp0
      let upperelindices0 := p0.1
      let upperelconnectivity0 := p0.2
      let irisrange0 := ((22), (30))
      let pupilrange0 := ((30), (38))
      let scleratop0 := (arange (12) (17))
      let sclerabottom0 := (arange (17) (22))
      let scleraindices0 := ([(0)] ++ scleratop0 ++ [(6)] ++ sclerabottom0)
      let lowereltop0 := (arange (17) (22))
      let lowerelbottom0 := (arange (7) (12))
      let lowerelindices0 := ([(6)] ++ lowereltop0 ++ [(0)] ++ lowerelbottom0)
      (Except.bind (connectivity_from_range irisrange0 true) fun irisconnectivity0 =>
        (Except.bind (connectivity_from_range pupilrange0 true) fun pupilconnectivity0 =>
          let scleraconnectivity0 := (List.zip scleratop0 (List.drop 1 scleratop0))
          let scleraconnectivity1 := (scleraconnectivity0 ++ [((0), (21))])
          let scleraconnectivity0 := (scleraconnectivity1 ++ (List.zip sclerabottom0 (List.drop 1 sclerabottom0)))
          let scleraconnectivity1 := (scleraconnectivity0 ++ [((6), (17))])
          let lowerelconnectivity0 := (List.zip lowereltop0 (List.drop 1 lowereltop0))
          let lowerelconnectivity1 := (lowerelconnectivity0 ++ [((6), (7))])
          let lowerelconnectivity0 := (lowerelconnectivity1 ++ (List.zip lowerelbottom0 (List.drop 1 lowerelbottom0)))
          let lowerelconnectivity1 := (lowerelconnectivity0 ++ [((11), (0))])
          let allconnectivity0 := ((((upperelconnectivity0 ++ lowerelconnectivity1) ++ irisconnectivity0) ++ pupilconnectivity0) ++ scleraconnectivity1)
          let mapping0 := ODict.empty
          let mapping1 := (ODict.set mapping0 "upper_eyelid" upperelindices0)
          let mapping0 := (ODict.set mapping1 "lower_eyelid" lowerelindices0)
          let mapping1 := (ODict.set mapping0 "pupil" (arange pupilrange0.1 pupilrange0.2))
          let mapping0 := (ODict.set mapping1 "iris" (arange irisrange0.1 irisrange0.2))
          let mapping1 := (ODict.set mapping0 "sclera" scleraindices0)
          (Except.bind (lgraphObj (init_from_indices_mapping (HasPoints.points pcloud0) (Adj.edgeList allconnectivity0) mapping1 true)) fun newpcloud0 =>
            .ok ((newpcloud0, mapping1)))))))

def eye_ibug_open_38_to_eye_ibug_open_38_trimesh {α : Type} (pcloud : List α) : Except Err (Obj α × ODict (List Int)) :=
  let nexpectedpoints0 := (38)
  (Except.bind (validated (validate_input pcloud nexpectedpoints0) pcloud) fun pcloud0 =>
    let trilist0 := [[(29), (36), (28)], [(22), (13), (23)], [(12), (1), (2)], [(29), (30), (37)], [(13), (3), (14)], [(13), (12), (2)], [(19), (8), (9)], [(25), (33), (24)], [(36), (37), (33)], [(24), (32), (31)], [(33), (37), (31)], [(35), (34), (27)], [(35), (36), (33)], [(3), (13), (2)], [(14), (24), (23)], [(33), (32), (24)], [(15), (25), (14)], [(25), (26), (34)], [(22), (30), (29)], [(31), (37), (30)], [(24), (31), (23)], [(32), (33), (31)], [(22), (12), (13)], [(0), (1), (12)], [(14), (23), (13)], [(31), (30), (23)], [(28), (19), (20)], [(21), (11), (0)], [(12), (21), (0)], [(20), (11), (21)], [(20), (10), (11)], [(21), (29), (20)], [(21), (12), (22)], [(30), (22), (23)], [(29), (21), (22)], [(27), (19), (28)], [(29), (37), (36)], [(29), (28), (20)], [(36), (35), (28)], [(20), (19), (10)], [(10), (19), (9)], [(28), (35), (27)], [(19), (19), (8)], [(17), (16), (6)], [(18), (7), (8)], [(25), (34), (33)], [(18), (27), (17)], [(18), (19), (27)], [(18), (17), (7)], [(27), (26), (17)], [(17), (6), (7)], [(14), (25), (24)], [(34), (35), (33)], [(17), (26), (16)], [(27), (34), (26)], [(3), (15), (14)], [(15), (26), (25)], [(4), (15), (3)], [(16), (26), (15)], [(16), (4), (5)], [(16), (15), (4)], [(16), (5), (6)], [(8), (18), (19)]]
    let newpcloud0 := (triMesh (HasPoints.points pcloud0) trilist0)
    let mapping0 := ODict.empty
    let mapping1 := (ODict.set mapping0 "tri" (arange 0 (List.length (HasPoints.points newpcloud0))))
    .ok ((newpcloud0, mapping1)))

def face_bu3dfe_83_to_face_bu3dfe_83 {α : Type} (pcloud : List α) : Except Err (Obj α × ODict (List Int)) :=
  let nexpectedpoints0 := (83)
  (Except.bind (validated (validate_input pcloud nexpectedpoints0) pcloud) fun pcloud0 =>
    let reyeindices0 := (arange (0) (8))
    let leyeindices0 := (arange (8) (16))
    let rbrowindices0 := (arange (16) (26))
    let lbrowindices0 := (arange (26) (36))
    let rnoseindices0 := (arange (36) (39))
    let lnoseindices0 := (arange (39) (42))
    let nostrilindices0 := (arange (42) (48))
    let outermouthindices0 := (arange (48) (60))
    let innermouthindices0 := (arange (60) (68))
    let jawindices0 := (arange (68) (83))
    (Except.bind (connectivity_from_array reyeindices0 true) fun reyeconnectivity0 =>
      (Except.bind (connectivity_from_array leyeindices0 true) fun leyeconnectivity0 =>
        (Except.bind (connectivity_from_array rbrowindices0 true) fun rbrowconnectivity0 =>
          (Except.bind (connectivity_from_array lbrowindices0 true) fun lbrowconnectivity0 =>
            (Except.bind (connectivity_from_array rnoseindices0 false) fun rnoseconnectivity0 =>
              (Except.bind (connectivity_from_array nostrilindices0 false) fun nostrilconnectivity0 =>
                (Except.bind (connectivity_from_array lnoseindices0 false) fun lnoseconnectivity0 =>
                  (Except.bind (connectivity_from_array outermouthindices0 true) fun outermouthconnectivity0 =>
                    (Except.bind (connectivity_from_array innermouthindices0 true) fun innermouthconnectivity0 =>
                      (Except.bind (connectivity_from_array jawindices0 false) fun jawconnectivity0 =>
                        let allconnectivity0 := (List.flatten [reyeconnectivity0, leyeconnectivity0, rbrowconnectivity0, lbrowconnectivity0, rnoseconnectivity0, nostrilconnectivity0, lnoseconnectivity0, outermouthconnectivity0, innermouthconnectivity0, jawconnectivity0])
                        let mapping0 := ODict.empty
                        let mapping1 := (ODict.set mapping0 "right_eye" reyeindices0)
                        let mapping0 := (ODict.set mapping1 "left_eye" leyeindices0)
                        let mapping1 := (ODict.set mapping0 "right_eyebrow" rbrowindices0)
                        let mapping0 := (ODict.set mapping1 "left_eyebrow" lbrowindices0)
                        let mapping1 := (ODict.set mapping0 "right_nose" rnoseindices0)
                        let mapping0 := (ODict.set mapping1 "left_nose" lnoseindices0)
                        let mapping1 := (ODict.set mapping0 "nostrils" nostrilindices0)
                        let mapping0 := (ODict.set mapping1 "outer_mouth" outermouthindices0)
                        let mapping1 := (ODict.set mapping0 "inner_mouth" innermouthindices0)
                        let mapping0 := (ODict.set mapping1 "jaw" jawindices0)
                        (Except.bind (lgraphObj (init_from_indices_mapping (HasPoints.points pcloud0) (Adj.edgeList allconnectivity0) mapping0 true)) fun newpcloud0 =>
                          .ok ((newpcloud0, mapping0))))))))))))))

def face_ibug_49_to_face_ibug_49 {α : Type} (pcloud : List α) : Except Err (Obj α × ODict (List Int)) :=
  let nexpectedpoints0 := (49)
  (Except.bind (validated (validate_input pcloud nexpectedpoints0) pcloud) fun pcloud0 =>
    let lbrowindices0 := (arange (0) (5))
    let rbrowindices0 := (arange (5) (10))
    let uppernoseindices0 := (arange (10) (14))
    let lowernoseindices0 := (arange (14) (19))
    let leyeindices0 := (arange (19) (25))
    let reyeindices0 := (arange (25) (31))
    let outermouthindices0 := (arange (31) (43))
    let innermouthindices0 := ([(31)] ++ (arange (43) (46)) ++ [(37)] ++ (arange (46) (49)))
    (Except.bind (connectivity_from_array lbrowindices0 false) fun lbrowconnectivity0 =>
      (Except.bind (connectivity_from_array rbrowindices0 false) fun rbrowconnectivity0 =>
        (Except.bind (connectivity_from_array uppernoseindices0 false) fun tmp0 =>
        (Except.bind (connectivity_from_array lowernoseindices0 false) fun tmp1 =>
        let noseconnectivity0 := (List.flatten [tmp0, tmp1])
        (Except.bind (connectivity_from_array leyeindices0 true) fun leyeconnectivity0 =>
          (Except.bind (connectivity_from_array reyeindices0 true) fun reyeconnectivity0 =>
            (Except.bind (connectivity_from_array outermouthindices0 true) fun tmp2 =>
            (Except.bind (connectivity_from_array innermouthindices0 true) fun tmp3 =>
            let mouthconnectivity0 := (List.flatten [tmp2, tmp3])
            let allconnectivity0 := (List.flatten [lbrowconnectivity0, rbrowconnectivity0, noseconnectivity0, leyeconnectivity0, reyeconnectivity0, mouthconnectivity0])
            let mapping0 := ODict.empty
            let mapping1 := (ODict.set mapping0 "left_eyebrow" lbrowindices0)
            let mapping0 := (ODict.set mapping1 "right_eyebrow" rbrowindices0)
            let mapping1 := (ODict.set mapping0 "nose" (uppernoseindices0 ++ lowernoseindices0))
            let mapping0 := (ODict.set mapping1 "left_eye" leyeindices0)
            let mapping1 := (ODict.set mapping0 "right_eye" reyeindices0)
            let mapping0 := (ODict.set mapping1 "mouth" (outermouthindices0 ++ innermouthindices0))
            (Except.bind (lgraphObj (init_from_indices_mapping (HasPoints.points pcloud0) (Adj.edgeList allconnectivity0) mapping0 true)) fun newpcloud0 =>
              .ok ((newpcloud0, mapping0))))))))))))

def face_ibug_68_to_face_ibug_68 {α : Type} (pcloud : List α) : Except Err (Obj α × ODict (List Int)) :=
  let nexpectedpoints0 := (68)
  (Except.bind (validated (validate_input pcloud nexpectedpoints0) pcloud) fun pcloud0 =>
    let jawindices0 := (arange (0) (17))
    let lbrowindices0 := (arange (17) (22))
    let rbrowindices0 := (arange (22) (27))
    let uppernoseindices0 := (arange (27) (31))
    let lowernoseindices0 := (arange (31) (36))
    let leyeindices0 := (arange (36) (42))
    let reyeindices0 := (arange (42) (48))
    let outermouthindices0 := (arange (48) (60))
    let innermouthindices0 := (arange (60) (68))
    (Except.bind (connectivity_from_array jawindices0 false) fun jawconnectivity0 =>
      (Except.bind (connectivity_from_array lbrowindices0 false) fun lbrowconnectivity0 =>
        (Except.bind (connectivity_from_array rbrowindices0 false) fun rbrowconnectivity0 =>
          (Except.bind (connectivity_from_array uppernoseindices0 false) fun tmp0 =>
          (Except.bind (connectivity_from_array lowernoseindices0 false) fun tmp1 =>
          let noseconnectivity0 := (List.flatten [tmp0, tmp1])
          (Except.bind (connectivity_from_array leyeindices0 true) fun leyeconnectivity0 =>
            (Except.bind (connectivity_from_array reyeindices0 true) fun reyeconnectivity0 =>
              (Except.bind (connectivity_from_array outermouthindices0 true) fun tmp2 =>
              (Except.bind (connectivity_from_array innermouthindices0 true) fun tmp3 =>
              let mouthconnectivity0 := (List.flatten [tmp2, tmp3])
              let allconnectivity0 := (List.flatten [jawconnectivity0, lbrowconnectivity0, rbrowconnectivity0, noseconnectivity0, leyeconnectivity0, reyeconnectivity0, mouthconnectivity0])
              let mapping0 := ODict.empty
              let mapping1 := (ODict.set mapping0 "jaw" jawindices0)
              let mapping0 := (ODict.set mapping1 "left_eyebrow" lbrowindices0)
              let mapping1 := (ODict.set mapping0 "right_eyebrow" rbrowindices0)
              let mapping0 := (ODict.set mapping1 "nose" (uppernoseindices0 ++ lowernoseindices0))
              let mapping1 := (ODict.set mapping0 "left_eye" leyeindices0)
              let mapping0 := (ODict.set mapping1 "right_eye" reyeindices0)
              let mapping1 := (ODict.set mapping0 "mouth" (outermouthindices0 ++ innermouthindices0))
              (Except.bind (lgraphObj (init_from_indices_mapping (HasPoints.points pcloud0) (Adj.edgeList allconnectivity0) mapping1 true)) fun newpcloud0 =>
                .ok ((newpcloud0, mapping1)))))))))))))

def face_ibug_68_mirrored_to_face_ibug_68 {α : Type} (pcloud : List α) : Except Err (Obj α × ODict (List Int)) :=
  (Except.bind (callWithMapping (@face_ibug_68_to_face_ibug_68 _) pcloud) fun tmp0 =>
    let p0 := tmp0
    let newpcloud0 := p0.1
    let oldmap0 := p0.2
    (Except.bind (ODict.get oldmap0 "jaw") fun tmp1 =>
    (Except.bind (ODict.get oldmap0 "right_eyebrow") fun tmp2 =>
    (Except.bind (ODict.get oldmap0 "left_eyebrow") fun tmp3 =>
    (Except.bind (ODict.get oldmap0 "nose") fun tmp4 =>
    (Except.bind (ODict.get oldmap0 "nose") fun tmp5 =>
    (Except.bind (ODict.get oldmap0 "right_eye") fun tmp6 =>
    (Except.bind (ODict.get oldmap0 "left_eye") fun tmp7 =>
    (Except.bind (ODict.get oldmap0 "mouth") fun tmp8 =>
    (Except.bind (ODict.get oldmap0 "mouth") fun tmp9 =>
    let lmsmap0 := ((List.reverse tmp1) ++ (List.reverse tmp2) ++ (List.reverse tmp3) ++ (List.take (4) tmp4) ++ (List.reverse (List.drop (4) tmp5)) ++ (npRoll (List.reverse tmp6) (4)) ++ (npRoll (List.reverse tmp7) (4)) ++ (npRoll (List.reverse (List.take (12) tmp8)) (7)) ++ (npRoll (List.reverse (List.drop (12) tmp9)) (5)))
    (Except.bind (takePts (HasPoints.points pcloud) lmsmap0) fun tmp10 =>
    (Except.bind (objFromVector newpcloud0 tmp10) fun tmp11 =>
    .ok ((tmp11, oldmap0))))))))))))))

def face_ibug_68_to_face_ibug_49 {α : Type} (pcloud : List α) : Except Err (Obj α × ODict (List Int)) :=
  let nexpectedpoints0 := (68)
  (Except.bind (validated (validate_input pcloud nexpectedpoints0) pcloud) fun pcloud0 =>
    let lbrowindices0 := (arange (0) (5))
    let rbrowindices0 := (arange (5) (10))
    let uppernoseindices0 := (arange (10) (14))
    let lowernoseindices0 := (arange (14) (19))
    let leyeindices0 := (arange (19) (25))
    let reyeindices0 := (arange (25) (31))
    let outermouthindices0 := (arange (31) (43))
    let innermouthindices0 := ([(31)] ++ (arange (43) (46)) ++ [(37)] ++ (arange (46) (49)))
    (Except.bind (connectivity_from_array lbrowindices0 false) fun lbrowconnectivity0 =>
      (Except.bind (connectivity_from_array rbrowindices0 false) fun rbrowconnectivity0 =>
        (Except.bind (connectivity_from_array uppernoseindices0 false) fun tmp0 =>
        (Except.bind (connectivity_from_array lowernoseindices0 false) fun tmp1 =>
        let noseconnectivity0 := (List.flatten [tmp0, tmp1])
        (Except.bind (connectivity_from_array leyeindices0 true) fun leyeconnectivity0 =>
          (Except.bind (connectivity_from_array reyeindices0 true) fun reyeconnectivity0 =>
            (Except.bind (connectivity_from_array outermouthindices0 true) fun tmp2 =>
            (Except.bind (connectivity_from_array innermouthindices0 true) fun tmp3 =>
            let mouthconnectivity0 := (List.flatten [tmp2, tmp3])
            let allconnectivity0 := (List.flatten [lbrowconnectivity0, rbrowconnectivity0, noseconnectivity0, leyeconnectivity0, reyeconnectivity0, mouthconnectivity0])
            let mapping0 := ODict.empty
            let mapping1 := (ODict.set mapping0 "left_eyebrow" lbrowindices0)
            let mapping0 := (ODict.set mapping1 "right_eyebrow" rbrowindices0)
            let mapping1 := (ODict.set mapping0 "nose" (uppernoseindices0 ++ lowernoseindices0))
            let mapping0 := (ODict.set mapping1 "left_eye" leyeindices0)
            let mapping1 := (ODict.set mapping0 "right_eye" reyeindices0)
            let mapping0 := (ODict.set mapping1 "mouth" (outermouthindices0 ++ innermouthindices0))
            let ind0 := ((arange (17) (60)) ++ (arange (61) (64)) ++ (arange (65) (68)))
            (Except.bind (takePts (HasPoints.points pcloud0) ind0) fun tmp4 =>
            (Except.bind (lgraphObj (init_from_indices_mapping tmp4 (Adj.edgeList allconnectivity0) mapping0 true)) fun newpcloud0 =>
              .ok ((newpcloud0, mapping0)))))))))))))

def face_ibug_68_to_face_ibug_49_trimesh {α : Type} (pcloud : List α) : Except Err (Obj α × ODict (List Int)) :=
  (Except.bind (callPlain (@face_ibug_68_to_face_ibug_49 _) pcloud) fun newpcloud0 =>
    let trilist0 := [[(47), (29), (28)], [(44), (43), (23)], [(38), (20), (21)], [(47), (28), (42)], [(40), (41), (37)], [(51), (62), (61)], [(37), (19), (20)], [(28), (40), (39)], [(38), (21), (39)], [(36), (1), (0)], [(48), (59), (4)], [(49), (60), (48)], [(13), (53), (14)], [(60), (51), (61)], [(51), (51), (62)], [(52), (51), (33)], [(49), (50), (60)], [(57), (7), (8)], [(64), (56), (57)], [(35), (30), (29)], [(52), (62), (53)], [(53), (52), (35)], [(37), (36), (17)], [(18), (37), (17)], [(37), (38), (40)], [(38), (37), (20)], [(19), (37), (18)], [(38), (39), (40)], [(28), (29), (40)], [(41), (36), (37)], [(27), (39), (21)], [(41), (31), (1)], [(30), (32), (31)], [(33), (51), (50)], [(33), (30), (34)], [(31), (40), (29)], [(36), (0), (17)], [(31), (2), (1)], [(31), (41), (40)], [(1), (36), (41)], [(31), (49), (2)], [(2), (49), (3)], [(3), (49), (48)], [(31), (32), (50)], [(62), (53), (54)], [(48), (4), (3)], [(59), (5), (4)], [(58), (65), (64)], [(5), (59), (58)], [(58), (59), (65)], [(7), (6), (58)], [(64), (57), (58)], [(13), (54), (53)], [(7), (58), (57)], [(6), (5), (58)], [(63), (55), (54)], [(65), (59), (48)], [(31), (50), (49)], [(32), (33), (50)], [(30), (33), (32)], [(34), (52), (33)], [(35), (52), (34)], [(48), (60), (65)], [(64), (63), (56)], [(60), (65), (61)], [(65), (64), (61)], [(57), (56), (9)], [(8), (57), (9)], [(64), (63), (61)], [(9), (56), (10)], [(10), (56), (11)], [(11), (56), (55)], [(11), (55), (12)], [(56), (63), (55)], [(51), (52), (62)], [(55), (54), (12)], [(63), (54), (62)], [(61), (62), (63)], [(12), (54), (13)], [(45), (46), (44)], [(35), (34), (30)], [(14), (53), (35)], [(15), (46), (45)], [(27), (28), (39)], [(27), (42), (28)], [(35), (29), (47)], [(30), (31), (29)], [(15), (35), (46)], [(15), (14), (35)], [(43), (22), (23)], [(27), (21), (22)], [(24), (44), (23)], [(44), (47), (43)], [(43), (47), (42)], [(46), (35), (47)], [(26), (45), (44)], [(46), (47), (44)], [(25), (44), (24)], [(25), (26), (44)], [(16), (15), (45)], [(16), (45), (26)], [(22), (42), (43)], [(50), (60), (51)], [(27), (22), (42)]]
    let newpcloud1 := (triMesh (HasPoints.points newpcloud0) trilist0)
    let mapping0 := ODict.empty
    let mapping1 := (ODict.set mapping0 "tri" (arange 0 (List.length (HasPoints.points newpcloud1))))
    .ok ((newpcloud1, mapping1)))

def face_ibug_68_to_face_ibug_51 {α : Type} (pcloud : List α) : Except Err (Obj α × ODict (List Int)) :=
  let nexpectedpoints0 := (68)
  (Except.bind (validated (validate_input pcloud nexpectedpoints0) pcloud) fun pcloud0 =>
    let lbrowindices0 := (arange (0) (5))
    let rbrowindices0 := (arange (5) (10))
    let uppernoseindices0 := (arange (10) (14))
    let lowernoseindices0 := (arange (14) (19))
    let leyeindices0 := (arange (19) (25))
    let reyeindices0 := (arange (25) (31))
    let outermouthindices0 := (arange (31) (43))
    let innermouthindices0 := (arange (43) (51))
    (Except.bind (connectivity_from_array lbrowindices0 false) fun lbrowconnectivity0 =>
      (Except.bind (connectivity_from_array rbrowindices0 false) fun rbrowconnectivity0 =>
        (Except.bind (connectivity_from_array uppernoseindices0 false) fun tmp0 =>
        (Except.bind (connectivity_from_array lowernoseindices0 false) fun tmp1 =>
        let noseconnectivity0 := (List.flatten [tmp0, tmp1])
        (Except.bind (connectivity_from_array leyeindices0 true) fun leyeconnectivity0 =>
          (Except.bind (connectivity_from_array reyeindices0 true) fun reyeconnectivity0 =>
            (Except.bind (connectivity_from_array outermouthindices0 true) fun tmp2 =>
            (Except.bind (connectivity_from_array innermouthindices0 true) fun tmp3 =>
            let mouthconnectivity0 := (List.flatten [tmp2, tmp3])
            let allconnectivity0 := (List.flatten [lbrowconnectivity0, rbrowconnectivity0, noseconnectivity0, leyeconnectivity0, reyeconnectivity0, mouthconnectivity0])
            let mapping0 := ODict.empty
            let mapping1 := (ODict.set mapping0 "left_eyebrow" lbrowindices0)
            let mapping0 := (ODict.set mapping1 "right_eyebrow" rbrowindices0)
            let mapping1 := (ODict.set mapping0 "nose" (uppernoseindices0 ++ lowernoseindices0))
            let mapping0 := (ODict.set mapping1 "left_eye" leyeindices0)
            let mapping1 := (ODict.set mapping0 "right_eye" reyeindices0)
            let mapping0 := (ODict.set mapping1 "mouth" (outermouthindices0 ++ innermouthindices0))
            let ind0 := (arange (17) (68))
            (Except.bind (takePts (HasPoints.points pcloud0) ind0) fun tmp4 =>
            (Except.bind (lgraphObj (init_from_indices_mapping tmp4 (Adj.edgeList allconnectivity0) mapping0 true)) fun newpcloud0 =>
              .ok ((newpcloud0, mapping0)))))))))))))

def face_ibug_68_to_face_ibug_51_trimesh {α : Type} (pcloud : List α) : Except Err (Obj α × ODict (List Int)) :=
  (Except.bind (callPlain (@face_ibug_68_to_face_ibug_51 _) pcloud) fun newpcloud0 =>
    let trilist0 := [[(30), (12), (11)], [(27), (26), (6)], [(21), (3), (4)], [(30), (11), (25)], [(32), (44), (43)], [(23), (24), (20)], [(20), (2), (3)], [(11), (23), (22)], [(21), (4), (22)], [(32), (43), (31)], [(50), (42), (43)], [(44), (34), (45)], [(35), (34), (16)], [(44), (50), (43)], [(35), (46), (34)], [(49), (39), (40)], [(18), (13), (12)], [(36), (35), (18)], [(20), (19), (0)], [(1), (20), (0)], [(20), (21), (23)], [(21), (20), (3)], [(2), (20), (1)], [(21), (22), (23)], [(11), (12), (23)], [(24), (19), (20)], [(10), (22), (4)], [(13), (15), (14)], [(16), (34), (33)], [(16), (13), (17)], [(14), (23), (12)], [(14), (24), (23)], [(43), (42), (31)], [(14), (15), (33)], [(41), (50), (49)], [(41), (42), (50)], [(49), (40), (41)], [(33), (44), (32)], [(45), (50), (44)], [(14), (33), (32)], [(15), (16), (33)], [(13), (16), (15)], [(17), (35), (16)], [(18), (35), (17)], [(36), (46), (35)], [(45), (46), (48)], [(45), (34), (46)], [(49), (48), (39)], [(46), (36), (47)], [(45), (49), (50)], [(45), (48), (49)], [(48), (46), (47)], [(39), (48), (38)], [(38), (47), (37)], [(38), (48), (47)], [(47), (36), (37)], [(28), (29), (27)], [(18), (17), (13)], [(10), (11), (22)], [(10), (25), (11)], [(18), (12), (30)], [(13), (14), (12)], [(26), (5), (6)], [(10), (4), (5)], [(7), (27), (6)], [(27), (30), (26)], [(26), (30), (25)], [(29), (18), (30)], [(9), (28), (27)], [(29), (30), (27)], [(8), (27), (7)], [(8), (9), (27)], [(5), (25), (26)], [(33), (34), (44)], [(10), (5), (25)]]
    let newpcloud1 := (triMesh (HasPoints.points newpcloud0) trilist0)
    let mapping0 := ODict.empty
    let mapping1 := (ODict.set mapping0 "tri" (arange 0 (List.length (HasPoints.points newpcloud1))))
    .ok ((newpcloud1, mapping1)))

def face_ibug_68_to_face_ibug_65 {α : Type} (pcloud : List α) : Except Err (Obj α × ODict (List Int)) :=
  (Except.bind (callWithMapping (@face_ibug_68_to_face_ibug_68 _) pcloud) fun tmp0 =>
    let p0 := tmp0
    let newpcloud0 := p0.1
    let mapping0 := p0.2
    let edges0 := (dropLastN (8) (objEdges newpcloud0))
    (Except.bind (connectivity_from_range ((60), (65)) true) fun tmp1 =>
    let edges1 := (List.flatten [edges0, tmp1])
    let outermouthindices0 := (arange (48) (60))
    let innermouthindices0 := (arange (60) (65))
    let mapping1 := (ODict.set mapping0 "mouth" (outermouthindices0 ++ innermouthindices0))
    (Except.bind (lgraphObj (init_from_indices_mapping (dropLastN (3) (HasPoints.points newpcloud0)) (Adj.edgeList edges1) mapping1 true)) fun newpcloud1 =>
      .ok ((newpcloud1, mapping1)))))

def face_ibug_68_to_face_ibug_66 {α : Type} (pcloud : List α) : Except Err (Obj α × ODict (List Int)) :=
  let nexpectedpoints0 := (68)
  (Except.bind (validated (validate_input pcloud nexpectedpoints0) pcloud) fun pcloud0 =>
    let jawindices0 := (arange (0) (17))
    let lbrowindices0 := (arange (17) (22))
    let rbrowindices0 := (arange (22) (27))
    let uppernoseindices0 := (arange (27) (31))
    let lowernoseindices0 := (arange (31) (36))
    let leyeindices0 := (arange (36) (42))
    let reyeindices0 := (arange (42) (48))
    let outermouthindices0 := (arange (48) (60))
    let innermouthindices0 := ([(48)] ++ (arange (60) (63)) ++ [(54)] ++ (arange (63) (66)))
    (Except.bind (connectivity_from_array jawindices0 false) fun jawconnectivity0 =>
      (Except.bind (connectivity_from_array lbrowindices0 false) fun lbrowconnectivity0 =>
        (Except.bind (connectivity_from_array rbrowindices0 false) fun rbrowconnectivity0 =>
          (Except.bind (connectivity_from_array uppernoseindices0 false) fun tmp0 =>
          (Except.bind (connectivity_from_array lowernoseindices0 false) fun tmp1 =>
          let noseconnectivity0 := (List.flatten [tmp0, tmp1])
          (Except.bind (connectivity_from_array leyeindices0 true) fun leyeconnectivity0 =>
            (Except.bind (connectivity_from_array reyeindices0 true) fun reyeconnectivity0 =>
              (Except.bind (connectivity_from_array outermouthindices0 true) fun tmp2 =>
              (Except.bind (connectivity_from_array innermouthindices0 true) fun tmp3 =>
              let mouthconnectivity0 := (List.flatten [tmp2, tmp3])
              let allconnectivity0 := (List.flatten [jawconnectivity0, lbrowconnectivity0, rbrowconnectivity0, noseconnectivity0, leyeconnectivity0, reyeconnectivity0, mouthconnectivity0])
              let mapping0 := ODict.empty
              let mapping1 := (ODict.set mapping0 "jaw" jawindices0)
              let mapping0 := (ODict.set mapping1 "left_eyebrow" lbrowindices0)
              let mapping1 := (ODict.set mapping0 "right_eyebrow" rbrowindices0)
              let mapping0 := (ODict.set mapping1 "nose" (uppernoseindices0 ++ lowernoseindices0))
              let mapping1 := (ODict.set mapping0 "left_eye" leyeindices0)
              let mapping0 := (ODict.set mapping1 "right_eye" reyeindices0)
              let mapping1 := (ODict.set mapping0 "mouth" (outermouthindices0 ++ innermouthindices0))
              let ind0 := ((arange 0 (60)) ++ (arange (61) (64)) ++ (arange (65) (68)))
              (Except.bind (takePts (HasPoints.points pcloud0) ind0) fun tmp4 =>
              (Except.bind (lgraphObj (init_from_indices_mapping tmp4 (Adj.edgeList allconnectivity0) mapping1 true)) fun newpcloud0 =>
                .ok ((newpcloud0, mapping1))))))))))))))

def face_ibug_68_to_face_ibug_66_trimesh {α : Type} (pcloud : List α) : Except Err (Obj α × ODict (List Int)) :=
  (Except.bind (callPlain (@face_ibug_68_to_face_ibug_66 _) pcloud) fun newpcloud0 =>
    let trilist0 := [[(47), (29), (28)], [(44), (43), (23)], [(38), (20), (21)], [(47), (28), (42)], [(40), (41), (37)], [(51), (62), (61)], [(37), (19), (20)], [(28), (40), (39)], [(38), (21), (39)], [(36), (1), (0)], [(48), (59), (4)], [(49), (60), (48)], [(13), (53), (14)], [(60), (51), (61)], [(51), (51), (62)], [(52), (51), (33)], [(49), (50), (60)], [(57), (7), (8)], [(64), (56), (57)], [(35), (30), (29)], [(52), (62), (53)], [(53), (52), (35)], [(37), (36), (17)], [(18), (37), (17)], [(37), (38), (40)], [(38), (37), (20)], [(19), (37), (18)], [(38), (39), (40)], [(28), (29), (40)], [(41), (36), (37)], [(27), (39), (21)], [(41), (31), (1)], [(30), (32), (31)], [(33), (51), (50)], [(33), (30), (34)], [(31), (40), (29)], [(36), (0), (17)], [(31), (2), (1)], [(31), (41), (40)], [(1), (36), (41)], [(31), (49), (2)], [(2), (49), (3)], [(3), (49), (48)], [(31), (32), (50)], [(62), (53), (54)], [(48), (4), (3)], [(59), (5), (4)], [(58), (65), (64)], [(5), (59), (58)], [(58), (59), (65)], [(7), (6), (58)], [(64), (57), (58)], [(13), (54), (53)], [(7), (58), (57)], [(6), (5), (58)], [(63), (55), (54)], [(65), (59), (48)], [(31), (50), (49)], [(32), (33), (50)], [(30), (33), (32)], [(34), (52), (33)], [(35), (52), (34)], [(48), (60), (65)], [(64), (63), (56)], [(60), (65), (61)], [(65), (64), (61)], [(57), (56), (9)], [(8), (57), (9)], [(64), (63), (61)], [(9), (56), (10)], [(10), (56), (11)], [(11), (56), (55)], [(11), (55), (12)], [(56), (63), (55)], [(51), (52), (62)], [(55), (54), (12)], [(63), (54), (62)], [(61), (62), (63)], [(12), (54), (13)], [(45), (46), (44)], [(35), (34), (30)], [(14), (53), (35)], [(15), (46), (45)], [(27), (28), (39)], [(27), (42), (28)], [(35), (29), (47)], [(30), (31), (29)], [(15), (35), (46)], [(15), (14), (35)], [(43), (22), (23)], [(27), (21), (22)], [(24), (44), (23)], [(44), (47), (43)], [(43), (47), (42)], [(46), (35), (47)], [(26), (45), (44)], [(46), (47), (44)], [(25), (44), (24)], [(25), (26), (44)], [(16), (15), (45)], [(16), (45), (26)], [(22), (42), (43)], [(50), (60), (51)], [(27), (22), (42)]]
    let newpcloud1 := (triMesh (HasPoints.points newpcloud0) trilist0)
    let mapping0 := ODict.empty
    let mapping1 := (ODict.set mapping0 "tri" (arange 0 (List.length (HasPoints.points newpcloud1))))
    .ok ((newpcloud1, mapping1)))

def face_ibug_68_to_face_ibug_68_trimesh {α : Type} (pcloud : List α) : Except Err (Obj α × ODict (List Int)) :=
  let nexpectedpoints0 := (68)
  (Except.bind (validated (validate_input pcloud nexpectedpoints0) pcloud) fun pcloud0 =>
    let trilist0 := [[(47), (29), (28)], [(44), (43), (23)], [(38), (20), (21)], [(47), (28), (42)], [(49), (61), (60)], [(40), (41), (37)], [(37), (19), (20)], [(28), (40), (39)], [(38), (21), (39)], [(36), (1), (0)], [(48), (59), (4)], [(49), (60), (48)], [(67), (59), (60)], [(13), (53), (14)], [(61), (51), (62)], [(57), (8), (7)], [(52), (51), (33)], [(61), (67), (60)], [(52), (63), (51)], [(66), (56), (57)], [(35), (30), (29)], [(53), (52), (35)], [(37), (36), (17)], [(18), (37), (17)], [(37), (38), (40)], [(38), (37), (20)], [(19), (37), (18)], [(38), (39), (40)], [(28), (29), (40)], [(41), (36), (37)], [(27), (39), (21)], [(41), (31), (1)], [(30), (32), (31)], [(33), (51), (50)], [(33), (30), (34)], [(31), (40), (29)], [(36), (0), (17)], [(31), (2), (1)], [(31), (41), (40)], [(1), (36), (41)], [(31), (49), (2)], [(2), (49), (3)], [(60), (59), (48)], [(3), (49), (48)], [(31), (32), (50)], [(48), (4), (3)], [(59), (5), (4)], [(58), (67), (66)], [(5), (59), (58)], [(58), (59), (67)], [(7), (6), (58)], [(66), (57), (58)], [(13), (54), (53)], [(7), (58), (57)], [(6), (5), (58)], [(50), (61), (49)], [(62), (67), (61)], [(31), (50), (49)], [(32), (33), (50)], [(30), (33), (32)], [(34), (52), (33)], [(35), (52), (34)], [(53), (63), (52)], [(62), (63), (65)], [(62), (51), (63)], [(66), (65), (56)], [(63), (53), (64)], [(62), (66), (67)], [(62), (65), (66)], [(57), (56), (9)], [(65), (63), (64)], [(8), (57), (9)], [(9), (56), (10)], [(10), (56), (11)], [(11), (56), (55)], [(11), (55), (12)], [(56), (65), (55)], [(55), (64), (54)], [(55), (65), (64)], [(55), (54), (12)], [(64), (53), (54)], [(12), (54), (13)], [(45), (46), (44)], [(35), (34), (30)], [(14), (53), (35)], [(15), (46), (45)], [(27), (28), (39)], [(27), (42), (28)], [(35), (29), (47)], [(30), (31), (29)], [(15), (35), (46)], [(15), (14), (35)], [(43), (22), (23)], [(27), (21), (22)], [(24), (44), (23)], [(44), (47), (43)], [(43), (47), (42)], [(46), (35), (47)], [(26), (45), (44)], [(46), (47), (44)], [(25), (44), (24)], [(25), (26), (44)], [(16), (15), (45)], [(16), (45), (26)], [(22), (42), (43)], [(50), (51), (61)], [(27), (22), (42)]]
    let newpcloud0 := (triMesh (HasPoints.points pcloud0) trilist0)
    let mapping0 := ODict.empty
    let mapping1 := (ODict.set mapping0 "tri" (arange 0 (List.length (HasPoints.points newpcloud0))))
    .ok ((newpcloud0, mapping1)))

def face_imm_58_to_face_imm_58 {α : Type} (pcloud : List α) : Except Err (Obj α × ODict (List Int)) :=
  let nexpectedpoints0 := (58)
  (Except.bind (validated (validate_input pcloud nexpectedpoints0) pcloud) fun pcloud0 =>
    let labels0 := (ODict.ofPairs [("jaw", ((0), (13), false)), ("left_eye", ((13), (21), true)), ("right_eye", ((21), (29), true)), ("left _eyebrow", ((29), (34), false)), ("right_eyebrow", ((34), (39), false)), ("mouth", ((39), (47), true)), ("nose", ((47), (58), false))])
    (rangesObj (pcloud_and_lgroup_from_ranges pcloud0 labels0)))

def face_lfpw_29_to_face_lfpw_29 {α : Type} (pcloud : List α) : Except Err (Obj α × ODict (List Int)) :=
  let nexpectedpoints0 := (29)
  (Except.bind (validated (validate_input pcloud nexpectedpoints0) pcloud) fun pcloud0 =>
    let chinindices0 := [(28)]
    let outerleyeindices0 := [(8), (12), (10), (13)]
    let pupilleyeindices0 := [(16)]
    let outerreyeindices0 := [(11), (14), (9), (15)]
    let pupilreyeindices0 := [(17)]
    let lbrowindices0 := [(0), (4), (2), (5)]
    let rbrowindices0 := [(3), (6), (1), (7)]
    let outermouthindices0 := [(22), (24), (23), (27)]
    let innermouthindices0 := [(22), (25), (23), (26)]
    let noseindices0 := [(18), (20), (19), (21)]
    (Except.bind (connectivity_from_array chinindices0 true) fun chinconnectivity0 =>
      (Except.bind (connectivity_from_array outerleyeindices0 true) fun leyeconnectivity0 =>
        (Except.bind (connectivity_from_array outerreyeindices0 true) fun reyeconnectivity0 =>
          (Except.bind (connectivity_from_array lbrowindices0 true) fun lbrowconnectivity0 =>
            (Except.bind (connectivity_from_array rbrowindices0 true) fun rbrowconnectivity0 =>
              (Except.bind (connectivity_from_array outermouthindices0 true) fun tmp0 =>
              (Except.bind (connectivity_from_array innermouthindices0 true) fun tmp1 =>
              let mouthconnectivity0 := (List.flatten [tmp0, tmp1])
              (Except.bind (connectivity_from_array noseindices0 true) fun noseconnectivity0 =>
                let allconnectivity0 := (List.flatten [chinconnectivity0, leyeconnectivity0, reyeconnectivity0, lbrowconnectivity0, rbrowconnectivity0, mouthconnectivity0, noseconnectivity0])
                let mapping0 := ODict.empty
                let mapping1 := (ODict.set mapping0 "chin" chinindices0)
                let mapping0 := (ODict.set mapping1 "left_eye" (outerleyeindices0 ++ pupilleyeindices0))
                let mapping1 := (ODict.set mapping0 "right_eye" (outerreyeindices0 ++ pupilreyeindices0))
                let mapping0 := (ODict.set mapping1 "left_eyebrow" lbrowindices0)
                let mapping1 := (ODict.set mapping0 "right_eyebrow" rbrowindices0)
                let mapping0 := (ODict.set mapping1 "mouth" (outermouthindices0 ++ innermouthindices0))
                let mapping1 := (ODict.set mapping0 "nose" noseindices0)
                (Except.bind (lgraphObj (init_from_indices_mapping (HasPoints.points pcloud0) (Adj.edgeList allconnectivity0) mapping1 true)) fun newpcloud0 =>
                  .ok ((newpcloud0, mapping1))))))))))))

def hand_ibug_39_to_hand_ibug_39 {α : Type} (pcloud : List α) : Except Err (Obj α × ODict (List Int)) :=
  let nexpectedpoints0 := (39)
  (Except.bind (validated (validate_input pcloud nexpectedpoints0) pcloud) fun pcloud0 =>
    let thumbindices0 := (arange (0) (5))
    let indexindices0 := (arange (5) (12))
    let middleindices0 := (arange (12) (19))
    let ringindices0 := (arange (19) (26))
    let pinkyindices0 := (arange (26) (33))
    let palmindices0 := ([(32), (25), (18), (11), (33), (34), (4)] ++ (arange (35) (39)))
    (Except.bind (connectivity_from_array thumbindices0 false) fun thumbconnectivity0 =>
      (Except.bind (connectivity_from_array indexindices0 false) fun indexconnectivity0 =>
        (Except.bind (connectivity_from_array middleindices0 false) fun middleconnectivity0 =>
          (Except.bind (connectivity_from_array ringindices0 false) fun ringconnectivity0 =>
            (Except.bind (connectivity_from_array pinkyindices0 false) fun pinkyconnectivity0 =>
              (Except.bind (connectivity_from_array palmindices0 true) fun palmconnectivity0 =>
                let allconnectivity0 := (List.flatten [thumbconnectivity0, indexconnectivity0, middleconnectivity0, ringconnectivity0, pinkyconnectivity0, palmconnectivity0])
                let mapping0 := ODict.empty
                let mapping1 := (ODict.set mapping0 "thumb" thumbindices0)
                let mapping0 := (ODict.set mapping1 "index" indexindices0)
                let mapping1 := (ODict.set mapping0 "middle" middleindices0)
                let mapping0 := (ODict.set mapping1 "ring" ringindices0)
                let mapping1 := (ODict.set mapping0 "pinky" pinkyindices0)
                let mapping0 := (ODict.set mapping1 "palm" palmindices0)
                (Except.bind (lgraphObj (init_from_indices_mapping (HasPoints.points pcloud0) (Adj.edgeList allconnectivity0) mapping0 true)) fun newpcloud0 =>
                  .ok ((newpcloud0, mapping0))))))))))

def pose_flic_11_to_pose_flic_11 {α : Type} (pcloud : List α) : Except Err (Obj α × ODict (List Int)) :=
  let nexpectedpoints0 := (11)
  (Except.bind (validated (validate_input pcloud nexpectedpoints0) pcloud) fun pcloud0 =>
    let labels0 := (ODict.ofPairs [("left_arm", ((0), (3), false)), ("right_arm", ((3), (6), false)), ("hips", ((6), (8), false)), ("face", ((8), (11), true))])
    (rangesObj (pcloud_and_lgroup_from_ranges pcloud0 labels0)))

def pose_human36M_32_to_pose_human36M_17 {α : Type} (pcloud : List α) : Except Err (Obj α × ODict (List Int)) :=
  let nexpectedpoints0 := (32)
  (Except.bind (validated (validate_input pcloud nexpectedpoints0) pcloud) fun pcloud0 =>
    let pelvisindices0 := [(1), (0), (4)]
    let rightlegindices0 := (arange (1) (4))
    let leftlegindices0 := (arange (4) (7))
    let spineindices0 := [(0), (7), (8)]
    let headindices0 := [(8), (9), (10)]
    let leftarmindices0 := [(8), (11), (12), (13)]
    let rightarmindices0 := [(8), (14), (15), (16)]
    let torsoindices0 := [(0), (1), (14), (8), (11), (4)]
    (Except.bind (connectivity_from_array pelvisindices0 false) fun pelvisconnectivity0 =>
      (Except.bind (connectivity_from_array rightlegindices0 false) fun rightlegconnectivity0 =>
        (Except.bind (connectivity_from_array leftlegindices0 false) fun leftlegconnectivity0 =>
          (Except.bind (connectivity_from_array spineindices0 false) fun spineconnectivity0 =>
            (Except.bind (connectivity_from_array headindices0 false) fun headconnectivity0 =>
              (Except.bind (connectivity_from_array leftarmindices0 false) fun leftarmconnectivity0 =>
                (Except.bind (connectivity_from_array rightarmindices0 false) fun rightarmconnectivity0 =>
                  (Except.bind (connectivity_from_array torsoindices0 true) fun torsoconnectivity0 =>
                    let allconnectivity0 := (List.flatten [pelvisconnectivity0, rightlegconnectivity0, leftlegconnectivity0, spineconnectivity0, headconnectivity0, leftarmconnectivity0, rightarmconnectivity0, torsoconnectivity0])
                    let mapping0 := ODict.empty
                    let mapping1 := (ODict.set mapping0 "pelvis" pelvisindices0)
                    let mapping0 := (ODict.set mapping1 "right_leg" rightlegindices0)
                    let mapping1 := (ODict.set mapping0 "left_leg" leftlegindices0)
                    let mapping0 := (ODict.set mapping1 "spine" spineindices0)
                    let mapping1 := (ODict.set mapping0 "head" headindices0)
                    let mapping0 := (ODict.set mapping1 "left_arm" leftarmindices0)
                    let mapping1 := (ODict.set mapping0 "right_arm" rightarmindices0)
                    let mapping0 := (ODict.set mapping1 "torso" torsoindices0)
                    let ind0 := ((arange (0) (4)) ++ (arange (6) (9)) ++ (arange (12) (16)) ++ (arange (17) (20)) ++ (arange (25) (28)))
                    (Except.bind (takePts (HasPoints.points pcloud0) ind0) fun tmp0 =>
                    (Except.bind (lgraphObj (init_from_indices_mapping tmp0 (Adj.edgeList allconnectivity0) mapping0 true)) fun newpcloud0 =>
                      .ok ((newpcloud0, mapping0)))))))))))))

def pose_human36M_32_to_pose_human36M_32 {α : Type} (pcloud : List α) : Except Err (Obj α × ODict (List Int)) :=
  let nexpectedpoints0 := (32)
  (Except.bind (validated (validate_input pcloud nexpectedpoints0) pcloud) fun pcloud0 =>
    let pelvisindices0 := [(1), (0), (6)]
    let rightlegindices0 := (arange (1) (6))
    let leftlegindices0 := (arange (6) (11))
    let spineindices0 := [(11), (12), (13)]
    let headindices0 := [(13), (14), (15)]
    let leftarmindices0 := [(16), (17), (18), (19), (23)]
    let lefthandindices0 := [(20), (21), (22)]
    let rightarmindices0 := [(24), (25), (26), (27), (29), (31)]
    let righthandindices0 := [(28), (29), (30)]
    let torsoindices0 := [(0), (1), (25), (13), (17), (6)]
    (Except.bind (connectivity_from_array pelvisindices0 false) fun pelvisconnectivity0 =>
      (Except.bind (connectivity_from_array rightlegindices0 false) fun rightlegconnectivity0 =>
        (Except.bind (connectivity_from_array leftlegindices0 false) fun leftlegconnectivity0 =>
          (Except.bind (connectivity_from_array spineindices0 false) fun spineconnectivity0 =>
            (Except.bind (connectivity_from_array headindices0 false) fun headconnectivity0 =>
              (Except.bind (connectivity_from_array leftarmindices0 false) fun leftarmconnectivity0 =>
                (Except.bind (connectivity_from_array lefthandindices0 false) fun lefthandconnectivity0 =>
                  (Except.bind (connectivity_from_array rightarmindices0 false) fun rightarmconnectivity0 =>
                    (Except.bind (connectivity_from_array righthandindices0 false) fun righthandconnectivity0 =>
                      (Except.bind (connectivity_from_array torsoindices0 true) fun torsoconnectivity0 =>
                        let allconnectivity0 := (List.flatten [pelvisconnectivity0, rightlegconnectivity0, leftlegconnectivity0, spineconnectivity0, headconnectivity0, leftarmconnectivity0, lefthandconnectivity0, rightarmconnectivity0, righthandconnectivity0, torsoconnectivity0])
                        let mapping0 := ODict.empty
                        let mapping1 := (ODict.set mapping0 "pelvis" pelvisindices0)
                        let mapping0 := (ODict.set mapping1 "right_leg" rightlegindices0)
                        let mapping1 := (ODict.set mapping0 "left_leg" leftlegindices0)
                        let mapping0 := (ODict.set mapping1 "spine" spineindices0)
                        let mapping1 := (ODict.set mapping0 "head" headindices0)
                        let mapping0 := (ODict.set mapping1 "left_arm" leftarmindices0)
                        let mapping1 := (ODict.set mapping0 "left_hand" lefthandindices0)
                        let mapping0 := (ODict.set mapping1 "right_arm" rightarmindices0)
                        let mapping1 := (ODict.set mapping0 "right_hand" righthandindices0)
                        let mapping0 := (ODict.set mapping1 "torso" torsoindices0)
                        (Except.bind (lgraphObj (init_from_indices_mapping (HasPoints.points pcloud0) (Adj.edgeList allconnectivity0) mapping0 true)) fun newpcloud0 =>
                          .ok ((newpcloud0, mapping0))))))))))))))

def pose_lsp_14_to_pose_lsp_14 {α : Type} (pcloud : List α) : Except Err (Obj α × ODict (List Int)) :=
  let nexpectedpoints0 := (14)
  (Except.bind (validated (validate_input pcloud nexpectedpoints0) pcloud) fun pcloud0 =>
    let leftlegindices0 := (arange (0) (3))
    let rightlegindices0 := (arange (3) (6))
    let leftarmindices0 := (arange (6) (9))
    let rightarmindices0 := (arange (9) (12))
    let headindices0 := (arange (12) (14))
    (Except.bind (connectivity_from_array leftlegindices0 false) fun leftlegconnectivity0 =>
      (Except.bind (connectivity_from_array rightlegindices0 false) fun rightlegconnectivity0 =>
        (Except.bind (connectivity_from_array leftarmindices0 false) fun leftarmconnectivity0 =>
          (Except.bind (connectivity_from_array rightarmindices0 false) fun rightarmconnectivity0 =>
            (Except.bind (connectivity_from_array headindices0 false) fun headconnectivity0 =>
              let allconnectivity0 := (List.flatten [leftlegconnectivity0, rightlegconnectivity0, leftarmconnectivity0, rightarmconnectivity0, headconnectivity0])
              let mapping0 := ODict.empty
              let mapping1 := (ODict.set mapping0 "left_leg" leftlegindices0)
              let mapping0 := (ODict.set mapping1 "right_leg" rightlegindices0)
              let mapping1 := (ODict.set mapping0 "left_arm" leftarmindices0)
              let mapping0 := (ODict.set mapping1 "right_arm" rightarmindices0)
              let mapping1 := (ODict.set mapping0 "head" headindices0)
              (Except.bind (lgraphObj (init_from_indices_mapping (HasPoints.points pcloud0) (Adj.edgeList allconnectivity0) mapping1 true)) fun newpcloud0 =>
                .ok ((newpcloud0, mapping1)))))))))

def pose_stickmen_12_to_pose_stickmen_12 {α : Type} (pcloud : List α) : Except Err (Obj α × ODict (List Int)) :=
  let nexpectedpoints0 := (12)
  (Except.bind (validated (validate_input pcloud nexpectedpoints0) pcloud) fun pcloud0 =>
    let labels0 := (ODict.ofPairs [("torso", ((0), (2), false)), ("right_upper arm", ((2), (4), false)), ("left_upper arm", ((4), (6), false)), ("right_lower_arm", ((6), (8), false)), ("left_lower_arm", ((8), (10), false)), ("head", ((10), (12), false))])
    (rangesObj (pcloud_and_lgroup_from_ranges pcloud0 labels0)))

def tongue_ibug_19_to_tongue_ibug_19 {α : Type} (pcloud : List α) : Except Err (Obj α × ODict (List Int)) :=
  let nexpectedpoints0 := (19)
  (Except.bind (validated (validate_input pcloud nexpectedpoints0) pcloud) fun pcloud0 =>
    let labels0 := (ODict.ofPairs [("outline", ((0), (13), false)), ("bisector", ((13), (19), false))])
    (rangesObj (pcloud_and_lgroup_from_ranges pcloud0 labels0)))

end MenpoModel.C15.SrcLab
