/- TRANSLATED by harness/trans_c07.py (harness/py2lean2.py) from the SOURCE TEXT of the current working tree on every
   run of `./check C07`: the alignment constructors and re-fits, optimal_rotation_matrix, procrustes_alignment, the
   Alignment / Targetable plumbing, the piecewise-affine and thin-plate-spline formulas.  Do not edit.
   GenProps/C07Src.lean proves each definition equal to the Core definition the C07 theorems are about. -/
import MenpoModel.Core.C07Src
import MenpoModel.Core.PyLoop
set_option linter.unusedVariables false

namespace MenpoModel.Generated.C07
open MenpoModel.C07 MenpoModel.C07.Np

def genPointCloudCentre {n d : Nat} (self : Mat n d) : Vec d :=
  (centroid self)

def genPointCloudNorm {n d : Nat} (ext : Ext) (self : Mat n d) : Rat :=
  (ext.frob (self - (genPointCloudCentre self)))

def genAlignmentInit {Obj Src Tgt : Type} (ops : ObjOps Obj Src Tgt) (self : Obj) (source : Src) (target : Tgt) : Obj :=
  let self0 := self
  let self1 := (ops.setSource self0 source)
  let self0 := (ops.setTarget self1 target)
  self0

def genAlignedSource {Obj Src Tgt : Type} (ops : ObjOps Obj Src Tgt) (self : Obj) : Tgt :=
  (ops.apply self (ops.source self))

def genAlignmentError {Obj Src : Type} {n d : Nat} (ext : Ext) (ops : ObjOps Obj Src (Mat n d)) (self : Obj) : Rat :=
  (ext.frob ((ops.target self) - (genAlignedSource ops self)))

def genTargetSetter {Obj Src Tgt : Type} (ops : ObjOps Obj Src Tgt) (self : Obj) (newtarget : Tgt) : Obj :=
  let self0 := (ops.setTarget self newtarget)
  self0

def genNewTargetFromState {Obj Src Tgt : Type} (ops : ObjOps Obj Src Tgt) (self : Obj) : Tgt :=
  (genAlignedSource ops self)

def genTargetSetterWithVerification {Obj Src Tgt : Type} (ops : ObjOps Obj Src Tgt) (self : Obj) (newtarget : Tgt) : Obj :=
  let self0 := self
  let self1 := (genTargetSetter ops self0 newtarget)
  self1

def genSyncTargetFromState {Obj Src Tgt : Type} (ops : ObjOps Obj Src Tgt) (self : Obj) : Obj :=
  let newtarget0 := (genNewTargetFromState ops self)
  let self0 := (genTargetSetterWithVerification ops self newtarget0)
  self0

def genSetTarget {Obj Src Tgt : Type} (ops : ObjOps Obj Src Tgt) (sync : Obj → Obj) (self : Obj) (newtarget : Tgt) : Obj :=
  let self0 := (genTargetSetterWithVerification ops self newtarget)
  let self1 := (sync self0)
  self1

def genHomogeneousCtor {n d : Nat} (setH : HObj n d → HMat d → Bool → Bool → HObj n d) (self : HObj n d) (hmatrix : HMat d) (copy skipchecks : Bool) : HObj n d :=
  let self0 := self
  let self1 := (setH self0 hmatrix copy skipchecks)
  self1

def genAffineCtor {n d : Nat} (setH : HObj n d → HMat d → Bool → Bool → HObj n d) (self : HObj n d) (hmatrix : HMat d) (copy skipchecks : Bool) : HObj n d :=
  let self0 := (genHomogeneousCtor setH self hmatrix copy skipchecks)
  self0

def genSimilarityCtor {n d : Nat} (setH : HObj n d → HMat d → Bool → Bool → HObj n d) (self : HObj n d) (hmatrix : HMat d) (copy skipchecks : Bool) : HObj n d :=
  let self0 := (genAffineCtor setH self hmatrix copy skipchecks)
  self0

def genTranslationCtor {n d : Nat} (setH : HObj n d → HMat d → Bool → Bool → HObj n d) (self : HObj n d) (translation : Vec d) (skipchecks : Bool) : HObj n d :=
  let translation0 := translation
  let hmatrix0 := (one : Mat ((vlen translation0) + (1)) ((vlen translation0) + (1)))
  let hmatrix1 := (setTransCol hmatrix0 translation0)
  let self0 := (genSimilarityCtor setH self hmatrix1 false skipchecks)
  self0

def genRotationCtor {n d : Nat} (setH : HObj n d → HMat d → Bool → Bool → HObj n d) (setRot : HObj n d → Mat d d → Bool → HObj n d) (self : HObj n d) (rotationmatrix : Mat d d) (skipchecks : Bool) : HObj n d :=
  let hmatrix0 := (one : Mat ((rowsOf rotationmatrix) + (1)) ((rowsOf rotationmatrix) + (1)))
  let self0 := (genSimilarityCtor setH self hmatrix0 false true)
  let self1 := (setRot self0 rotationmatrix skipchecks)
  self1

def genTranslationInit {n d : Nat} (ext : Ext) (self : HObj n d) (source target : Mat n d) : HObj n d :=
  let self0 := (genAlignmentInit HObj.ops self source target)
  let self1 := (genTranslationCtor plainSetH self0 ((genPointCloudCentre target) - (genPointCloudCentre source)) false)
  self1

def genTranslationSync {n d : Nat} (ext : Ext) (self : HObj n d) : HObj n d :=
  let translation0 := ((genPointCloudCentre (self).target) - (genPointCloudCentre (self).source))
  let self0 := (HObj.setH self (setTransCol (self).h translation0))
  self0

def genScaleInit {n d : Nat} (ext : Ext) (self : HObj n d) (source target : Mat n d) : HObj n d :=
  let self0 := (genAlignmentInit HObj.ops self source target)
  let self1 := (HObj.setH self0 (scaleH (d := (nDims source)) ((genPointCloudNorm ext target) / (genPointCloudNorm ext source))))
  self1

def genScaleSync {n d : Nat} (ext : Ext) (self : HObj n d) : HObj n d :=
  let newscale0 := ((genPointCloudNorm ext (self).target) / (genPointCloudNorm ext (self).source))
  let self0 := (HObj.setH self (fillDiagonal (self).h newscale0))
  let self1 := (HObj.setH self0 (setLastDiag (self0).h (1)))
  self1

def genAffineBuildH {n d : Nat} (source target : Mat n d) : Option (HMat d) :=
  let a0 := (hpoints source)
  let b0 := (hpoints target)
  ((solveChecked (mul a0 (tr a0)) (mul a0 (tr b0)))).bind fun h_0 =>
  some ((tr h_0))

def genAffineSetH {n d : Nat} (self : HObj n d) (value : HMat d) (copy skipchecks : Bool) : HObj n d :=
  let self0 := (HObj.setH self value)
  let self1 := (genSyncTargetFromState HObj.ops self0)
  self1

def genAffineInit {n d : Nat} (self : HObj n d) (source target : Mat n d) : Option (HObj n d) :=
  let self0 := (genAlignmentInit HObj.ops self source target)
  ((genAffineBuildH source target)).bind fun optimalh0 =>
    let self1 := (genAffineCtor genAffineSetH self0 optimalh0 false true)
    let self0 := (HObj.ops.setTarget self1 target)
    some self0

def genAffineSync {n d : Nat} (self : HObj n d) : Option (HObj n d) :=
  ((genAffineBuildH (self).source (self).target)).bind fun optimalh0 =>
    let self0 := (HObj.setH self optimalh0)
    some self0

def genOptimalRotationMatrix {n d : Nat} (ext : Ext) (source target : Mat n d) (allowmirror : Bool) : Mat d d :=
  let correlation0 := (mul (tr target) source)
  let p0 := (ext.svd correlation0)
  let U0 := p0.1
  let D0 := p0.2.1
  let Vt0 := p0.2.2
  let R0 := (mul U0 Vt0)
  if (!allowmirror) then
    let d0 := (signQ (det R0))
    if (decide (d0 < (0))) then
      let E0 := (one : Mat (rowsOf U0) (rowsOf U0))
      let E1 := (setLastDiag E0 d0)
      let R1 := (mul U0 (mul E1 Vt0))
      R1
    else
      R0
  else
    R0

def genRotationSetRotationMatrix {n d : Nat} (ext : Ext) (self : HObj n d) (value : Mat d d) (skipchecks : Bool) : HObj n d :=
  let self0 := (HObj.setH self (setLinPart (self).h value))
  let self1 := (genSyncTargetFromState HObj.ops self0)
  self1

def genRotationInit {n d : Nat} (ext : Ext) (self : HObj n d) (source target : Mat n d) (allowmirror : Bool) : HObj n d :=
  let self0 := (genAlignmentInit HObj.ops self source target)
  let self1 := (genRotationCtor plainSetH (genRotationSetRotationMatrix ext) self0 (genOptimalRotationMatrix ext source target allowmirror) false)
  let self0 := (HObj.ops.setTarget self1 target)
  let self1 := (HObj.setAllowMirror self0 allowmirror)
  self1

def genRotationSync {n d : Nat} (ext : Ext) (self : HObj n d) : HObj n d :=
  let r0 := (genOptimalRotationMatrix ext (self).source (self).target (self).allowMirror)
  let self0 := (HObj.setH self (setLinPart (self).h r0))
  self0

def genProcrustesAlignment {n d : Nat} (ext : Ext) (source target : Mat n d) (rotation allowmirror : Bool) : HMat d :=
  let tgtt0 := (translationH (-(genPointCloudCentre target)))
  let srct0 := (translationH (-(genPointCloudCentre source)))
  let srcs0 := (scaleH (d := (nDims source)) ((genPointCloudNorm ext target) / (genPointCloudNorm ext source)))
  let p0 := (one : HMat (nDims source))
  let p1 := (mul srct0 p0)
  let p0 := (mul srcs0 p1)
  if rotation then
    let alignedsrc0 := (applyH p0 source)
    let alignedtgt0 := (applyH tgtt0 target)
    let r0 := (rotationH (genOptimalRotationMatrix ext alignedsrc0 alignedtgt0 allowmirror))
    let p1 := (mul r0 p0)
    let p0 := (mul (translationInv tgtt0) p1)
    p0
  else
    let p1 := (mul (translationInv tgtt0) p0)
    p1

def genSimilarityInit {n d : Nat} (ext : Ext) (self : HObj n d) (source target : Mat n d) (rotation allowmirror : Bool) : HObj n d :=
  let self0 := (genAlignmentInit HObj.ops self source target)
  let x0 := (genProcrustesAlignment ext source target rotation allowmirror)
  let self1 := (genSimilarityCtor plainSetH self0 x0 false true)
  let self0 := (HObj.setRotation self1 rotation)
  let self1 := (HObj.setAllowMirror self0 allowmirror)
  self1

def genSimilaritySync {n d : Nat} (ext : Ext) (self : HObj n d) : HObj n d :=
  let similarity0 := (genProcrustesAlignment ext (self).source (self).target (self).rotation (self).allowMirror)
  let self0 := (HObj.setH self similarity0)
  self0

def genHomogCopy {n d : Nat} (self : HObj n d) : HObj n d :=
  let new0 := (HObj.blank : HObj n d)
  let new1 := self
  let new0 := (HObj.setH new1 (new1).h)
  new0

def genHomogPinv {n d : Nat} (hinv : HMat d → HMat d) (self : HObj n d) : HObj n d :=
  let selfcopy0 := (genHomogCopy self)
  let selfcopy1 := (HObj.setH selfcopy0 (hinv (self).h))
  let tup100 := (selfcopy1).target
  let tup110 := (selfcopy1).source
  let selfcopy0 := (HObj.ops.setSource selfcopy1 tup100)
  let selfcopy1 := (HObj.ops.setTarget selfcopy0 tup110)
  selfcopy1

def genAlphaBeta (i ij ik points : V2) : Rat × Rat :=
  let ip0 := (V2.sub points i)
  let dotjj0 := (V2.dot ij ij)
  let dotkk0 := (V2.dot ik ik)
  let dotjk0 := (V2.dot ij ik)
  let dotpj0 := (V2.dot ip0 ij)
  let dotpk0 := (V2.dot ip0 ik)
  let d0 := ((1 : Rat) / ((dotjj0 * dotkk0) - (dotjk0 * dotjk0)))
  let alpha0 := (((dotkk0 * dotpj0) - (dotjk0 * dotpk0)) * d0)
  let beta0 := (((dotjj0 * dotpk0) - (dotjk0 * dotpj0)) * d0)
  (alpha0, beta0)

def genContainment (alpha beta : List Rat) : Option Nat :=
  let pointcontainment0 := (andL (andL (geZero alpha) (geZero beta)) (sumLeOne alpha beta))
  let pointinatriangle0 := (List.any pointcontainment0 id)
  if (!pointinatriangle0) then
    none
  else
    let p0 := ((), nonzeroL pointcontainment0)
    let pointindex0 := p0.1
    let triindex0 := p0.2
    let index0 := (0 : Nat)
    let index1 := (lastWriteOr index0 triindex0)
    some (index1)

def genIndexAlphaBeta (i ij ik : List V2) (points : V2) : Option (Nat × Rat × Rat) :=
  let p0 := (List.unzip (zip3With (fun a b c => genAlphaBeta a b c points) i ij ik))
  let alpha0 := p0.1
  let beta0 := p0.2
  let eachpoint0 := ()
  ((genContainment alpha0 beta0)).bind fun index0 =>
    some ((index0, (List.getD alpha0 index0 0), (List.getD beta0 index0 0)))

def genBarycentricVectors (points : Nat → V2) (trilist : List Tri) : List V2 × List V2 × List V2 :=
  let x0 := (cornersOf points trilist)
  ((cornerI x0), ((cornerJ x0) - (cornerI x0)), ((cornerK x0) - (cornerI x0)))

def genPwaTrilist (self : PwaObj) : List Tri :=
  ((self).source).trilist

def genPwaRebuildTargetVectors (self : PwaObj) : PwaObj :=
  let t0 := (cornersOf (self).target (genPwaTrilist self))
  let tup200 := ((cornerJ t0) - (cornerI t0))
  let tup210 := ((cornerK t0) - (cornerI t0))
  let self0 := { self with tij := tup200 }
  let self1 := { self0 with tik := tup210 }
  let self0 := { self1 with ti := (cornerI t0) }
  self0

def genPwaSync (self : PwaObj) : PwaObj :=
  let self0 := (genPwaRebuildTargetVectors self)
  self0

def genPwaInit (delaunay : (Nat → V2) → List Tri) (self : PwaObj) (source : SrcShape) (target : Nat → V2) : Option PwaObj :=
  if (!(source).isTriMesh) then
    let source0 := (SrcShape.mesh ⟨(source).points, delaunay (source).points⟩)
    let self0 := (genAlignmentInit PwaObj.ops self source0 target)
    if (((2 : Nat) != (2))) then
      none
    else
      let self1 := self0
      let self0 := self1
      let self1 := self0
      let self0 := (genPwaRebuildTargetVectors self1)
      some self0
  else
    let self0 := (genAlignmentInit PwaObj.ops self source target)
    if (((2 : Nat) != (2))) then
      none
    else
      let self1 := self0
      let self0 := self1
      let self1 := self0
      let self0 := (genPwaRebuildTargetVectors self1)
      some self0

def genPwaApply (indexAB : PwaObj → V2 → Option (Nat × Rat × Rat)) (self : PwaObj) (x : V2) : Option V2 :=
  ((indexAB self x)).bind fun tupv30 =>
    let p0 := tupv30
    let triindex0 := p0.1
    let alpha0 := p0.2.1
    let beta0 := p0.2.2
    some ((V2.add (V2.add (List.getD (self).ti triindex0 (⟨0, 0⟩ : V2)) (V2.smul alpha0 (List.getD (self).tij triindex0 (⟨0, 0⟩ : V2)))) (V2.smul beta0 (List.getD (self).tik triindex0 (⟨0, 0⟩ : V2)))))

def genPythonPwaInit (delaunay : (Nat → V2) → List Tri) (self : PwaObj) (source : SrcShape) (target : Nat → V2) : Option PwaObj :=
  ((genPwaInit delaunay self source target)).bind fun self0 =>
    let p0 := (genBarycentricVectors ((self0).source).points (genPwaTrilist self0))
    let si0 := p0.1
    let sij0 := p0.2.1
    let sik0 := p0.2.2
    let tup400 := si0
    let tup410 := sij0
    let tup420 := sik0
    let self1 := { self0 with s := tup400 }
    let self0 := { self1 with sij := tup410 }
    let self1 := { self0 with sik := tup420 }
    some self1

def genPythonPwaIndexAlphaBeta (self : PwaObj) (points : V2) : Option (Nat × Rat × Rat) :=
  (genIndexAlphaBeta (self).s (self).sij (self).sik points)

def genPwaPinv (delaunay : (Nat → V2) → List Tri) (self : PwaObj) : Option PwaObj :=
  let newsource0 := (SrcShape.mesh ⟨(self).target, ((self).source).trilist⟩)
  let newtarget0 := ((self).source).points
  (genPythonPwaInit delaunay PwaObj.blank newsource0 newtarget0)

def genTpsBuildCoefficients {n : Nat} (ext : Ext) (self : TpsObj n) : TpsObj n :=
  let self0 := { self with v := (tr (self).target) }
  let self1 := { self0 with y := (hcat (self0).v (zerosM : Mat (2) (3))) }
  let p0 := (ext.svd (self1).l)
  let u0 := p0.1
  let s0 := p0.2.1
  let v0 := p0.2.2
  let keep0 := ((vlen s0) - (countTrue (belowV s0 (self1).minSing)))
  let invl0 := (mul (colsTo keep0 u0) (((1 : Rat) / (ColK.mk keep0 s0)) * (rowsTo keep0 v0)))
  let self0 := { self1 with coefficients := (mul invl0 (tr (self1).y)) }
  self0

def genTpsSync {n : Nat} (ext : Ext) (self : TpsObj n) : TpsObj n :=
  let self0 := (genTpsBuildCoefficients ext self)
  self0

def genTpsInit {n : Nat} (ext : Ext) (rbf : Mat n 2 → Kern n) (self : TpsObj n) (source target : Mat n 2) (kernel : Option (Kern n)) (minsingularval : Rat) : Option (TpsObj n) :=
  let self0 := (genAlignmentInit TpsObj.ops self source target)
  if (((2 : Nat) != (2))) then
    none
  else
    if (kernel.isNone) then
      let kernel0 := (rbf source)
      let self1 := { self0 with minSing := minsingularval }
      let self0 := { self1 with kernel := (AsKern.get kernel0) }
      let self1 := { self0 with k := ((self0).kernel.app (self0).source) }
      let self0 := { self1 with p := (hcat (onesM : Mat (nPoints (self1).source) (1)) (self1).source) }
      let o0 := (zerosM : Mat (3) (3))
      let topl0 := (hcat (self0).k (self0).p)
      let botl0 := (hcat (tr (self0).p) o0)
      let self1 := { self0 with l := (vcat topl0 botl0) }
      let self0 := self1
      let self1 := self0
      let self0 := self1
      let self1 := (genTpsBuildCoefficients ext self0)
      some self1
    else
      let self1 := { self0 with minSing := minsingularval }
      let self0 := { self1 with kernel := (AsKern.get kernel) }
      let self1 := { self0 with k := ((self0).kernel.app (self0).source) }
      let self0 := { self1 with p := (hcat (onesM : Mat (nPoints (self1).source) (1)) (self1).source) }
      let o0 := (zerosM : Mat (3) (3))
      let topl0 := (hcat (self0).k (self0).p)
      let botl0 := (hcat (tr (self0).p) o0)
      let self1 := { self0 with l := (vcat topl0 botl0) }
      let self0 := self1
      let self1 := self0
      let self0 := self1
      let self1 := (genTpsBuildCoefficients ext self0)
      some self1

def genTpsApply {n m : Nat} (self : TpsObj n) (points : Mat m 2) : Option (Mat m 2) :=
  if (((nDims points) != (2 : Nat))) then
    none
  else
    let x0 := (colOf points 0)
    let y0 := (colOf points 1)
    let caffinec0 := (rowFromEnd (self).coefficients 2)
    let caffinex0 := (rowFromEnd (self).coefficients 1)
    let caffiney0 := (rowFromEnd (self).coefficients 0)
    let faffine0 := ((caffinec0 + (caffinex0 * x0)) + (caffiney0 * y0))
    let kerneldist0 := ((self).kernel.app points)
    let caffinefree0 := (rowsButLast3 (self).coefficients)
    let faffinefree0 := (mul kerneldist0 caffinefree0)
    some ((faffine0 + faffinefree0))

def genTpsPinv {n : Nat} (ext : Ext) (rbf : Mat n 2 → Kern n) (rekern : Kern n → Mat n 2 → Kern n) (self : TpsObj n) : Option (TpsObj n) :=
  let kernel0 := (rekern (self).kernel (self).target)
  (genTpsInit ext rbf TpsObj.blank (self).target (self).source (some kernel0) (self).minSing)

def genMeanPointcloud {n d : Nat} (pointclouds : List (Mat n d)) : Mat n d :=
  let tmppc0 := ((sumL (List.map (fun it0 => let pc0 := it0; pc0) pointclouds)) / (List.length pointclouds))
  tmppc0

def genMultipleAlignmentInit {n d : Nat} (self : GObj n d) (sources : List (Mat n d)) (target : Option (Mat n d)) : Option (GObj n d) :=
  if ((decide ((List.length sources) < (2))) && (target.isNone)) then
    none
  else
    let self0 := { self with nSources := (List.length sources) }
    let tup500 := (n)
    let tup510 := (d)
    let self1 := self0
    let self0 := self1
    let self1 := { self0 with sources := sources }
    if (target.isNone) then
      let self0 := { self1 with target := (AsPts.get ((sumL (List.map (fun it0 => let s0 := it0; s0) (self1).sources)) / (self1).nSources)) }
      some self0
    else
      if (d != 0) then
        let self0 := { self1 with target := (AsPts.get target) }
        some self0
      else
        none

def genGpaRecursiveProcrustes {n d : Nat} (ext : Ext) (rec : GObj n d → Bool × GObj n d) (self : GObj n d) : Bool × GObj n d :=
  if (decide ((self).nIterations > (self).maxIterations)) then
    (false, self)
  else
    let newtgt0 := (genMeanPointcloud (List.map (fun it0 => let t0 := it0; (genAlignedSource HObj.ops t0)) (self).transforms))
    let rescale0 := (scaleAboutCentreH newtgt0 ((self).initialTargetScale / (genPointCloudNorm ext newtgt0)))
    let newtgt1 := (applyH rescale0 newtgt0)
    let deltatarget0 := (ext.frob ((self).target - newtgt1))
    if (decide (deltatarget0 < ((1 : Rat) / 1000000))) then
      (true, self)
    else
      let self0 := { self with nIterations := ((self).nIterations + (1)) }
      let ts0 := List.map (fun t0 =>
          let t1 := (genSetTarget HObj.ops (genSimilaritySync ext) t0 newtgt1)
          t1) (self0).transforms
      let self1 := { self0 with transforms := ts0 }
      let self0 := { self1 with target := (AsPts.get newtgt1) }
      (rec self0)

def genGpaInit {n d : Nat} (ext : Ext) (rec : GObj n d → Bool × GObj n d) (self : GObj n d) (sources : List (Mat n d)) (target : Option (Mat n d)) (allowmirror : Bool) : Option (GObj n d) :=
  ((genMultipleAlignmentInit self sources target)).bind fun self0 =>
    let initialtarget0 := (self0).target
    let self1 := { self0 with transforms := (List.map (fun it0 => let source0 := it0; (genSimilarityInit ext HObj.blank source0 (self0).target true allowmirror)) (self0).sources) }
    let self0 := { self1 with initialTargetScale := (genPointCloudNorm ext (self1).target) }
    let self1 := { self0 with nIterations := (1) }
    let self0 := { self1 with maxIterations := (100) }
    let self1 := (let r := rec self0; { r.2 with converged := r.1 })
    if (!target.isNone) then
      let self0 := { self1 with target := (AsPts.get initialtarget0) }
      some self0
    else
      some self1

end MenpoModel.Generated.C07
