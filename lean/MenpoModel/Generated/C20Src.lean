/- TRANSLATED by harness/trans_c20.py (harness/py2lean2.py) from the SOURCE TEXT of the current working tree on every
   run of `./check C20`: compositions.py, the constructors of rotation.py, Affine.init_from_2d_shear, the Scale factory,
   tcoords.py, the centre methods.  Do not edit.  GenProps/C20Src.lean proves each definition equal to the Core
   definition the C20 theorems are about. -/
import MenpoModel.Core.C20Src
import MenpoModel.Core.PyLoop
set_option linter.unusedVariables false

namespace MenpoModel.Generated.C20
open MenpoModel.C20

def genInitFrom2dCcwAngle (theta : Ang) (degrees : Bool) : Except Err Tr :=
  if degrees then
    let theta0 := (theta.deg2rad)
    (Tr.rotationOfRows ([[(theta0.cos), (-(theta0.sin))], [(theta0.sin), (theta0.cos)]] : Rows))
  else
    (Tr.rotationOfRows ([[(theta.cos), (-(theta.sin))], [(theta.sin), (theta.cos)]] : Rows))

def genInitFrom3dCcwAngleAroundX (theta : Ang) (degrees : Bool) : Except Err Tr :=
  if degrees then
    let theta0 := (theta.deg2rad)
    (Tr.rotationOfRows ([[(1), (0), (0)], [(0), (theta0.cos), (-(theta0.sin))], [(0), (theta0.sin), (theta0.cos)]] : Rows))
  else
    (Tr.rotationOfRows ([[(1), (0), (0)], [(0), (theta.cos), (-(theta.sin))], [(0), (theta.sin), (theta.cos)]] : Rows))

def genInitFrom3dCcwAngleAroundY (theta : Ang) (degrees : Bool) : Except Err Tr :=
  if degrees then
    let theta0 := (theta.deg2rad)
    (Tr.rotationOfRows ([[(theta0.cos), (0), (theta0.sin)], [(0), (1), (0)], [(-(theta0.sin)), (0), (theta0.cos)]] : Rows))
  else
    (Tr.rotationOfRows ([[(theta.cos), (0), (theta.sin)], [(0), (1), (0)], [(-(theta.sin)), (0), (theta.cos)]] : Rows))

def genInitFrom3dCcwAngleAroundZ (theta : Ang) (degrees : Bool) : Except Err Tr :=
  if degrees then
    let theta0 := (theta.deg2rad)
    (Tr.rotationOfRows ([[(theta0.cos), (-(theta0.sin)), (0)], [(theta0.sin), (theta0.cos), (0)], [(0), (0), (1)]] : Rows))
  else
    (Tr.rotationOfRows ([[(theta.cos), (-(theta.sin)), (0)], [(theta.sin), (theta.cos), (0)], [(0), (0), (1)]] : Rows))

def genInitFrom2dShear (cls : Cls) (phi psi : Ang) (degrees : Bool) : Except Err Tr :=
  if degrees then
    let phi0 := (phi.deg2rad)
    let psi0 := (psi.deg2rad)
    let hmatrix0 := (eyeRows (3))
    let hmatrix1 := (Rows.set hmatrix0 (0) (1) (phi0.tan))
    let hmatrix0 := (Rows.set hmatrix1 (1) (0) (psi0.tan))
    (Tr.ofHRows cls hmatrix0)
  else
    let hmatrix0 := (eyeRows (3))
    let hmatrix1 := (Rows.set hmatrix0 (0) (1) (phi.tan))
    let hmatrix0 := (Rows.set hmatrix1 (1) (0) (psi.tan))
    (Tr.ofHRows cls hmatrix0)

def genTransformAboutCentre (obj : Obj) (transform : Tr) : Except Err Tr :=
  let toorigin0 := (Tr.translation (-(obj.centreD)))
  let backtocentre0 := (Tr.translation (obj.centreD))
  if (transform.isHomogeneous) then
    ((Tr.composeBefore toorigin0 transform)).bind fun h_0 =>
    (Tr.composeBefore h_0 backtocentre0)
  else
    (pyReduceM (fun a0 b0 => (Tr.composeBefore a0 b0)) [toorigin0, transform, backtocentre0])

def genScaleAboutCentre (obj : Obj) (scale : ScaleArg) : Except Err Tr :=
  ((Tr.uniformScaleSkip scale (obj.nDims))).bind fun s0 =>
    (genTransformAboutCentre obj s0)

def genRotateCcwAboutCentre (obj : Obj) (theta : Ang) (degrees : Bool) : Except Err Tr :=
  if (((obj.nDims) != (2))) then
    .error .valueError
  else
    ((genInitFrom2dCcwAngle theta degrees)).bind fun r0 =>
      (genTransformAboutCentre obj r0)

def genShearAboutCentre (obj : Obj) (phi psi : Ang) (degrees : Bool) : Except Err Tr :=
  if (((obj.nDims) != (2))) then
    .error .valueError
  else
    ((genInitFrom2dShear Cls.affine phi psi degrees)).bind fun s0 =>
      (genTransformAboutCentre obj s0)

def genScale (scalefactor : ScaleArg) (ndims : Option Nat) : Except Err ScaleObj :=
  if (!(scalefactor.isNumber)) then
    let scalefactor0 := scalefactor
    if (!(scalefactor0.allNonzero)) then
      .error .valueError
    else
      if (ndims.isNone) then
        ((scalefactor0.item0)).bind fun h_0 =>
        if (ScaleArg.allClose scalefactor0 h_0) then
          ((scalefactor0.item0)).bind fun h_1 =>
          ((scalefactor0.shape0)).bind fun h_2 =>
          (mkUniformScaleArg h_1 h_2)
        else
          (mkNonUniformScaleArg scalefactor0)
      else
        ((if (decide ((scalefactor0.ndim) > (0))) then (((scalefactor0.item0)).bind fun h_3 =>
(Except.ok ((!(ScaleArg.allClose scalefactor0 h_3))))) else (Except.ok (false)))).bind fun h_4 =>
        if h_4 then
          if (ScaleArg.shapeNe scalefactor0 ndims) then
            .error .valueError
          else
            (mkNonUniformScaleArg scalefactor0)
        else
          (mkUniformScaleArg scalefactor0 ndims)
  else
    if (!(scalefactor.allNonzero)) then
      .error .valueError
    else
      if (ndims.isNone) then
        ((scalefactor.item0)).bind fun h_5 =>
        if (ScaleArg.allClose scalefactor h_5) then
          ((scalefactor.item0)).bind fun h_6 =>
          ((scalefactor.shape0)).bind fun h_7 =>
          (mkUniformScaleArg h_6 h_7)
        else
          (mkNonUniformScaleArg scalefactor)
      else
        ((if (decide ((scalefactor.ndim) > (0))) then (((scalefactor.item0)).bind fun h_8 =>
(Except.ok ((!(ScaleArg.allClose scalefactor h_8))))) else (Except.ok (false)))).bind fun h_9 =>
        if h_9 then
          if (ScaleArg.shapeNe scalefactor ndims) then
            .error .valueError
          else
            (mkNonUniformScaleArg scalefactor)
        else
          (mkUniformScaleArg scalefactor ndims)

def genTcoordsToImageCoords (imageshape : List Nat) : Except Err Tr :=
  ((Tr.ofHRows Cls.homogeneous ([[(1 : Rat), (0 : Rat), (0 : Rat)], [(0 : Rat), (-(1 : Rat)), (1 : Rat)], [(0 : Rat), (0 : Rat), (1 : Rat)]] : Rows))).bind fun invertunity0 =>
    ((Tr.ofHRows Cls.homogeneous ([[(0 : Rat), (1 : Rat), (0 : Rat)], [(1 : Rat), (0 : Rat), (0 : Rat)], [(0 : Rat), (0 : Rat), (1 : Rat)]] : Rows))).bind fun flipxyyx0 =>
      ((Tr.composeBefore invertunity0 flipxyyx0)).bind fun h_0 =>
      (((genScale (shapeMinusOne imageshape) none).bind ScaleObj.toTr)).bind fun h_1 =>
      (Tr.composeBefore h_0 h_1)

def genImageCoordsToTcoords (imageshape : List Nat) : Except Err Tr :=
  ((genTcoordsToImageCoords imageshape)).bind fun h_0 =>
  (Tr.pseudoinverse h_0)

def genPointCloudCentre (self : Pts) : VD :=
  (Pts.meanAxis0 self)

def genPointCloudBounds (self : Pts) (boundary : Rat) : VD × VD :=
  let minb0 := ((Pts.minAxis0 self) - boundary)
  let maxb0 := ((Pts.maxAxis0 self) + boundary)
  (minb0, maxb0)

def genPointCloudCentreOfBounds (self : Pts) : Except Err VD :=
  let p0 := (genPointCloudBounds self 0)
  let minb0 := p0.1
  let maxb0 := p0.2
  ((VD.add minb0 maxb0).map VD.half)

def genImageCentre (self : List Nat) : Except Err VD :=
  (halfShape self)

def genAxisAndAngleOfRotation {α : Type} (f2 f3 : Tr → α) (self : Tr) : Option α :=
  if (((self.nDims) == (2))) then
    some ((f2 self))
  else
    if (((self.nDims) == (3))) then
      some ((f3 self))
    else
      none

def genAxisAndAngle2d (self : Tr) : List Rat × ArcAngle :=
  let axis0 := ([(0), (0), (1)] : List Rat)
  let testvector0 := ([(1), (0)] : List Rat)
  let transformedvector0 := (matVec self.linRows testvector0)
  let angleofrotation0 := (ArcAngle.mk (dotL transformedvector0 testvector0) false)
  (axis0, angleofrotation0)

def genAxisAndAngle3d (eig : Rows → List EVal × List (List Rat)) (sqrt : Rat → Rat) (rand : List Rat) (self : Tr) : AA3 :=
  let p0 := (eig self.linRows)
  let eval0 := p0.1
  let evec0 := p0.2
  let realevalmask0 := (eval0.map EVal.isReal)
  let realeval0 := ((PyMask.sel eval0 realevalmask0).map EVal.re)
  let evecwithrealeval0 := (maskSel evec0 realevalmask0)
  let error0 := ((1 : Rat) / 10000000)
  let belowmargin0 := (realeval0.map fun v => decide (rabs v < ((1) + error0)))
  let abovemargin0 := (realeval0.map fun v => decide (((1) - error0) < rabs v))
  let reunitevalmask0 := (List.zipWith (· && ·) belowmargin0 abovemargin0)
  let evecwithrealunitaryeval0 := (maskSel evecwithrealeval0 reunitevalmask0)
  if (((evecwithrealunitaryeval0.length) != (1))) then
    none
  else
    let axis0 := (evecwithrealunitaryeval0.getD 0 [])
    let axis1 := (normalizeL sqrt axis0)
    let axistempvector0 := (vecSub axis1 rand)
    let perpendicularvector0 := (crossL axis1 axistempvector0)
    let perpendicularvector1 := (normalizeL sqrt perpendicularvector0)
    let transformedvector0 := (matVec self.linRows perpendicularvector1)
    let angleofrotation0 := (ArcAngle.mk (dotL transformedvector0 perpendicularvector1) false)
    let chiralityofrotation0 := (dotL axis1 (crossL perpendicularvector1 transformedvector0))
    if (decide (chiralityofrotation0 < (0))) then
      let angleofrotation1 := (angleofrotation0.negate)
      (some (axis1, angleofrotation1))
    else
      (some (axis1, angleofrotation0))

def genAsVector (eigh : Rows → List Rat × Rows) (self : Tr) : Except Err (List Rat) :=
  if (((self.nDims) == (3))) then
    let m000 := (Rows.get (self.hRows) (0) (0))
    let m010 := (Rows.get (self.hRows) (0) (1))
    let m020 := (Rows.get (self.hRows) (0) (2))
    let m100 := (Rows.get (self.hRows) (1) (0))
    let m110 := (Rows.get (self.hRows) (1) (1))
    let m120 := (Rows.get (self.hRows) (1) (2))
    let m200 := (Rows.get (self.hRows) (2) (0))
    let m210 := (Rows.get (self.hRows) (2) (1))
    let m220 := (Rows.get (self.hRows) (2) (2))
    let K0 := ([[((m000 - m110) - m220), (0 : Rat), (0 : Rat), (0 : Rat)], [(m010 + m100), ((m110 - m000) - m220), (0 : Rat), (0 : Rat)], [(m020 + m200), (m120 + m210), ((m220 - m000) - m110), (0 : Rat)], [(m210 - m120), (m020 - m200), (m100 - m010), ((m000 + m110) + m220)]] : Rows)
    let K1 := (Rows.divScalar K0 3)
    let p0 := (eigh K1)
    let w0 := p0.1
    let V0 := p0.2
    let q0 := (pickCol V0 [(3), (0), (1), (2)] (argmaxL w0))
    if (decide ((q0.getD 0 0) < (0 : Rat))) then
      let q1 := (vecNeg q0)
      .ok (q1)
    else
      .ok (q0)
  else
    .error .notImplementedError

def genFromVectorInplace (eps4 : Rat) (self : Tr) (p : List Rat) : Except Err Tr :=
  if (((self.nDims) == (3))) then
    if (((p.length) == (4))) then
      let n0 := (dotL p p)
      if (decide (n0 < eps4)) then
        .ok self
      else
        let p0 := (SqrtVec.mk p ((2 : Rat) / n0))
        let p1 := (SqrtVec.outer p0 p0)
        let rotation0 := ([[(((1 : Rat) - (Rows.get p1 (2) (2))) - (Rows.get p1 (3) (3))), ((Rows.get p1 (1) (2)) - (Rows.get p1 (3) (0))), ((Rows.get p1 (1) (3)) + (Rows.get p1 (2) (0)))], [((Rows.get p1 (1) (2)) + (Rows.get p1 (3) (0))), (((1 : Rat) - (Rows.get p1 (1) (1))) - (Rows.get p1 (3) (3))), ((Rows.get p1 (2) (3)) - (Rows.get p1 (1) (0)))], [((Rows.get p1 (1) (3)) - (Rows.get p1 (2) (0))), ((Rows.get p1 (2) (3)) + (Rows.get p1 (1) (0))), (((1 : Rat) - (Rows.get p1 (1) (1))) - (Rows.get p1 (2) (2)))]] : Rows)
        ((Tr.setRotationSkip self rotation0)).bind fun self0 =>
          .ok self0
    else
      .error .valueError
  else
    .error .notImplementedError

def genFromVector (eps4 : Rat) (self : Tr) (vector : List Rat) : Except Err Tr :=
  let selfcopy0 := self
  ((genFromVectorInplace eps4 selfcopy0 vector)).bind fun selfcopy1 =>
    .ok (selfcopy1)

def genInit3dFromQuaternion (eps4 : Rat) (cls : Cls) (q : List Rat) : Except Err Tr :=
  ((identityTr cls (3))).bind fun r0 =>
    (genFromVector eps4 r0 q)

def genHomogeneousSetH (self : HState) (value : ArrV) (copy skipchecks : Bool) : Except Err HState :=
  if copy then
    let value0 := value
    let self0 := (self.withH value0)
    .ok self0
  else
    let self0 := (self.withH value)
    .ok self0

def genAffineSetH (self : HState) (value : ArrV) (copy skipchecks : Bool) : Except Err HState :=
  if (!skipchecks) then
    let shape0 := (value.shape)
    if ((((shape0.length) != (2))) || (((shape0.getD (0) 0) != (shape0.getD (1) 0)))) then
      .error .valueError
    else
      if (!(self.h).isNone) then
        if (((self.nDimsI) != ((shape0.getD (0) 0) - (1)))) then
          .error .valueError
        else
          if (!((((shape0.getD (0) 0) - (1))) == 2 || (((shape0.getD (0) 0) - (1))) == 3)) then
            .error .valueError
          else
            if (!((value.bottomZeros) && (value.cornerOne))) then
              .error .valueError
            else
              if copy then
                let value0 := value
                let self0 := (self.withH value0)
                .ok self0
              else
                let self0 := (self.withH value)
                .ok self0
      else
        if (!((((shape0.getD (0) 0) - (1))) == 2 || (((shape0.getD (0) 0) - (1))) == 3)) then
          .error .valueError
        else
          if (!((value.bottomZeros) && (value.cornerOne))) then
            .error .valueError
          else
            if copy then
              let value0 := value
              let self0 := (self.withH value0)
              .ok self0
            else
              let self0 := (self.withH value)
              .ok self0
  else
    if copy then
      let value0 := value
      let self0 := (self.withH value0)
      .ok self0
    else
      let self0 := (self.withH value)
      .ok self0

def genHomogeneousInit (self : HState) (hmatrix : ArrV) (copy skipchecks : Bool) : Except Err HState :=
  let self0 := (self.clearH)
  ((setHDispatch genHomogeneousSetH genAffineSetH self0 hmatrix copy skipchecks)).bind fun self1 =>
    .ok self1

def genAffineInit (self : HState) (hmatrix : ArrV) (copy skipchecks : Bool) : Except Err HState :=
  ((genHomogeneousInit self hmatrix copy skipchecks)).bind fun self0 =>
    .ok self0

def genSimilarityInit (self : HState) (hmatrix : ArrV) (copy skipchecks : Bool) : Except Err HState :=
  ((genAffineInit self hmatrix copy skipchecks)).bind fun self0 =>
    .ok self0

def genTranslationInit (self : HState) (translation : ArrV) (skipchecks : Bool) : Except Err HState :=
  let translation0 := translation
  let hmatrix0 := (ArrV.eye (((translation0.shape).getD (0) 0) + (1)))
  let hmatrix1 := hmatrix0
  ((genSimilarityInit self hmatrix1 false skipchecks)).bind fun self0 =>
    .ok self0

def genRotationSetRotationMatrix (self : HState) (value : ArrV) (skipchecks : Bool) : Except Err HState :=
  if (!skipchecks) then
    let shape0 := (value.shape)
    if ((((shape0.length) != (2))) && (((shape0.getD (0) 0) != (shape0.getD (1) 0)))) then
      .error .valueError
    else
      if (((self.nDimsI) != (shape0.getD (0) 0))) then
        .error .valueError
      else
        let self0 := self
        .ok self0
  else
    let self0 := self
    .ok self0

def genRotationInit (self : HState) (rotationmatrix : ArrV) (skipchecks : Bool) : Except Err HState :=
  let hmatrix0 := (ArrV.eye (((rotationmatrix.shape).getD (0) 0) + (1)))
  ((genSimilarityInit self hmatrix0 false true)).bind fun self0 =>
    ((genRotationSetRotationMatrix self0 rotationmatrix skipchecks)).bind fun self1 =>
      .ok self1

def genUniformScaleInit (self : HState) (scale : ArrV) (ndims : Int) (skipchecks : Bool) : Except Err HState :=
  if (!skipchecks) then
    if ((decide (ndims > (3))) || (decide (ndims < (2)))) then
      .error .valueError
    else
      let hmatrix0 := (ArrV.eye (ndims + (1)))
      let hmatrix1 := hmatrix0
      let hmatrix0 := hmatrix1
      ((genSimilarityInit self hmatrix0 false true)).bind fun self0 =>
        .ok self0
  else
    let hmatrix0 := (ArrV.eye (ndims + (1)))
    let hmatrix1 := hmatrix0
    let hmatrix0 := hmatrix1
    ((genSimilarityInit self hmatrix0 false true)).bind fun self0 =>
      .ok self0

def genNonUniformScaleInit (self : HState) (scale : ArrV) (skipchecks : Bool) : Except Err HState :=
  let scale0 := scale
  if (!skipchecks) then
    if ((decide ((scale0.size) > (3))) || (decide ((scale0.size) < (2)))) then
      .error .valueError
    else
      let hmatrix0 := (ArrV.eye ((scale0.size) + (1)))
      let hmatrix1 := hmatrix0
      let hmatrix0 := hmatrix1
      ((genAffineInit self hmatrix0 false true)).bind fun self0 =>
        .ok self0
  else
    let hmatrix0 := (ArrV.eye ((scale0.size) + (1)))
    let hmatrix1 := hmatrix0
    let hmatrix0 := hmatrix1
    ((genAffineInit self hmatrix0 false true)).bind fun self0 =>
      .ok self0

def genHomogeneousInitIdentity (ndims : Int) : Except Err HState :=
  (genHomogeneousInit (HState.new Cls.homogeneous) (ArrV.eye (ndims + (1))) true false)

def genAffineInitIdentity (ndims : Int) : Except Err HState :=
  (genAffineInit (HState.new Cls.affine) (ArrV.eye (ndims + (1))) false true)

def genSimilarityInitIdentity (ndims : Int) : Except Err HState :=
  (genSimilarityInit (HState.new Cls.similarity) (ArrV.eye (ndims + (1))) false true)

def genTranslationInitIdentity (ndims : Int) : Except Err HState :=
  (genTranslationInit (HState.new Cls.translation) (ArrV.vec ndims) false)

def genRotationInitIdentity (ndims : Int) : Except Err HState :=
  (genRotationInit (HState.new Cls.rotation) (ArrV.eye ndims) false)

def genUniformScaleInitIdentity (ndims : Int) : Except Err HState :=
  (genUniformScaleInit (HState.new Cls.uniformScale) ArrV.scalar ndims false)

def genNonUniformScaleInitIdentity (ndims : Int) : Except Err HState :=
  (genNonUniformScaleInit (HState.new Cls.nonUniformScale) (ArrV.vec ndims) false)

def genDefaults : List (String × String × String) :=
  [("Rotation.init_from_2d_ccw_angle", "degrees", "True"),
   ("Rotation.init_from_3d_ccw_angle_around_x", "degrees", "True"),
   ("Rotation.init_from_3d_ccw_angle_around_y", "degrees", "True"),
   ("Rotation.init_from_3d_ccw_angle_around_z", "degrees", "True"),
   ("Affine.init_from_2d_shear", "degrees", "True"),
   ("rotate_ccw_about_centre", "degrees", "True"),
   ("shear_about_centre", "degrees", "True"),
   ("Scale", "n_dims", "None"),
   ("PointCloud.bounds", "boundary", "0")]

end MenpoModel.Generated.C20
