/- TRANSLATED by harness/trans_c14.py (harness/py2lean2.py, harness/py2lean2w.py) from the SOURCE TEXT of
   menpo/shape/graph.py of the current working tree on every run of `./check C14`; do not edit.
   GenProps/C14Src.lean proves every definition equal to the Core definition the C14 theorems are about. -/
import MenpoModel.Core.C14Src

set_option linter.unusedVariables false

namespace MenpoModel.Generated.C14
open MenpoModel.C14 MenpoModel.C14.Src

def genCheckVertex (g : Graph) (vertex : Nat) : Option Unit :=
  if ((decide (vertex > ((g.n : Int) - ((1) : Int)))) || (decide (vertex < (0)))) then
    none
  else
    some ()

def genCheckVertexI (g : Graph) (vertex : Int) : Option Unit :=
  if ((decide (vertex > ((g.n : Int) - ((1) : Int)))) || (decide (vertex < (0)))) then
    none
  else
    some ()

def genIsEdge (g : Graph) (vertex1 vertex2 : Nat) (skipchecks : Bool) : Option Bool :=
  if (!skipchecks) then
    if (genCheckVertex g vertex1).isSome then
      if (genCheckVertex g vertex2).isSome then
        some ((((Graph.w g vertex1 vertex2) != (0))))
      else
        none
    else
      none
  else
    some ((((Graph.w g vertex1 vertex2) != (0))))

def genNeighbours (g : Graph) (vertex : Nat) (skipchecks : Bool) : Option (List Nat) :=
  if (!skipchecks) then
    if (genCheckVertex g vertex).isSome then
      some ((Graph.row g vertex))
    else
      none
  else
    some ((Graph.row g vertex))

def genChildren (g : Graph) (vertex : Nat) (skipchecks : Bool) : Option (List Nat) :=
  if (!skipchecks) then
    if (genCheckVertex g vertex).isSome then
      some ((Graph.row g vertex))
    else
      none
  else
    some ((Graph.row g vertex))

def genParents (g : Graph) (vertex : Nat) (skipchecks : Bool) : Option (List Nat) :=
  if (!skipchecks) then
    if (genCheckVertex g vertex).isSome then
      some ((Graph.col g vertex))
    else
      none
  else
    some ((Graph.col g vertex))

def genNNeighbours (g : Graph) (vertex : Nat) (skipchecks : Bool) : Option Nat :=
  (match genNeighbours g vertex skipchecks with
  | none => none
  | some tmp0 =>
  some ((List.length tmp0)))

def genNChildren (g : Graph) (vertex : Nat) (skipchecks : Bool) : Option Nat :=
  (match genChildren g vertex skipchecks with
  | none => none
  | some tmp0 =>
  some ((List.length tmp0)))

def genNParents (g : Graph) (vertex : Nat) (skipchecks : Bool) : Option Nat :=
  (match genParents g vertex skipchecks with
  | none => none
  | some tmp0 =>
  some ((List.length tmp0)))

def genEdgesU (g : Graph) : List (Nat × Nat) :=
  (List.zip ((Graph.nz (Graph.triu g))).1 ((Graph.nz (Graph.triu g))).2)

def genEdgesD (g : Graph) : List (Nat × Nat) :=
  (List.zip ((Graph.nz g)).1 ((Graph.nz g)).2)

def genEdges (g : Graph) (directed : Bool) : List (Nat × Nat) :=
  if directed then genEdgesD g else genEdgesU g

def genNEdges (g : Graph) (directed : Bool) : Nat :=
  (shape0 (genEdges g directed))

def genIsolated (g : Graph) : List Nat :=
  let allvertices0 := (List.range (shape0 g))
  let rows0 := (List.filter (fun x => !(List.contains (nz0 g) x)) allvertices0)
  let cols0 := (List.filter (fun x => !(List.contains (nz1 g) x)) allvertices0)
  (List.filter (fun x => List.contains cols0 x) rows0)

def genIsolatedVertices (g : Graph) : List Nat :=
  (genIsolated g)

def genHasIsolatedVertices (g : Graph) : Bool :=
  (decide ((List.length (genIsolatedVertices g)) > (0)))

def genGetAdjacencyList (g : Graph) : List (List Nat) :=
  let adjacencylist0 := (List.map (fun it0 => let u0 := it0; []) (List.range g.n))
  let p0 := (Graph.nz g)
  let rows0 := p0.1
  let cols0 := p0.2
  let r0 := MenpoModel.Py.forLoop adjacencylist0 ((List.range (shape0 rows0))) (fun acc0 it0 =>
      let adjacencylist1 := acc0
      let i0 := it0
      let fromv0 := (pyGet rows0 i0)
      let tov0 := (pyGet cols0 i0)
      let adjacencylist0 := (appendAt adjacencylist1 fromv0 tov0)
      adjacencylist0)
  let adjacencylist1 := r0
  adjacencylist1

def genGetPredecessorsList (g : Graph) : List (Option Nat) :=
  let predecessorslist0 := (List.replicate g.n none)
  let p0 := (Graph.nz g)
  let parents0 := p0.1
  let children0 := p0.2
  let r0 := MenpoModel.Py.forLoop predecessorslist0 ((List.range (shape0 children0))) (fun acc0 it0 =>
      let predecessorslist1 := acc0
      let i0 := it0
      let parent0 := (pyGet parents0 i0)
      let child0 := (pyGet children0 i0)
      let predecessorslist0 := (List.set predecessorslist1 child0 (some parent0))
      predecessorslist0)
  let predecessorslist1 := r0
  predecessorslist1

def genDfs (adjL : List (List Nat)) (directed : Bool) : Nat → Nat → (List Nat × List Nat × List (Nat × Nat) × List (Nat × Nat)) → (List Nat × List Nat × List (Nat × Nat) × List (Nat × Nat)) × (List (Nat × Nat) × List (Nat × Nat))
  | 0, _, st => (st, (st.2.2.1, st.2.2.2))
  | fuel + 1, node, st =>
    if (!(List.contains st.1 node)) then
      let entered0 := (node :: st.1)
      let r0 := MenpoModel.Py.forLoop (entered0, st.2.1, st.2.2.1, st.2.2.2) ((pyGet adjL node)) (fun acc0 it0 =>
          let entered1 := acc0.1
          let exited0 := acc0.2.1
          let treeedges0 := acc0.2.2.1
          let backedges0 := acc0.2.2.2
          let y0 := it0
          if (!(List.contains entered1 y0)) then
            let treeedges1 := ((y0, node) :: treeedges0)
            let p0 := (genDfs adjL directed fuel y0 (entered1, exited0, treeedges1, backedges0)).1
            let entered0 := p0.1
            let exited1 := p0.2.1
            let treeedges0 := p0.2.2.1
            let backedges1 := p0.2.2.2
            (entered0, exited1, treeedges0, backedges1)
          else
            if (((!directed) && (lookup treeedges0 node != some y0)) || (directed && (!(List.contains exited0 y0)))) then
              let backedges1 := ((y0, node) :: backedges0)
              let p0 := (genDfs adjL directed fuel y0 (entered1, exited0, treeedges0, backedges1)).1
              let entered0 := p0.1
              let exited1 := p0.2.1
              let treeedges1 := p0.2.2.1
              let backedges0 := p0.2.2.2
              (entered0, exited1, treeedges1, backedges0)
            else
              let p0 := (genDfs adjL directed fuel y0 (entered1, exited0, treeedges0, backedges0)).1
              let entered0 := p0.1
              let exited1 := p0.2.1
              let treeedges1 := p0.2.2.1
              let backedges1 := p0.2.2.2
              (entered0, exited1, treeedges1, backedges1))
      let entered1 := r0.1
      let exited0 := r0.2.1
      let treeedges0 := r0.2.2.1
      let backedges0 := r0.2.2.2
      let exited1 := (node :: exited0)
      ((entered1, exited1, treeedges0, backedges0), (treeedges0, backedges0))
    else
      ((st.1, st.2.1, st.2.2.1, st.2.2.2), (st.2.2.1, st.2.2.2))

def genHasCycles (adjL : List (List Nat)) (directed : Bool) : Bool :=
  let r0 := MenpoModel.Py.forLoop none ((List.range (List.length adjL))) (fun acc0 it0 =>
      if (acc0).isSome then acc0 else
      let x0 := it0
      if (!(List.isEmpty (genDfs adjL directed (2 * adjL.length + 2) x0 ([], [], [], [])).2.2)) then
        some (true)
      else
        none)
  match r0 with
  | some v0 =>
      v0
  | none =>
    false

def genHasCyclesM (g : Graph) (directed : Bool) : Bool :=
  (genHasCycles (genGetAdjacencyList g) directed)

def genIsTree (g : Graph) (directed : Bool) : Bool :=
  ((!(genHasCyclesM g directed)) && (((genNEdges g directed) == ((g.n : Int) - ((1) : Int)))) && (((Graph.nComponents g) == (1))))

def genFindAllPaths (g : Graph) : Nat → Nat → Nat → List Nat → List (List Nat)
  | 0, _, _, _ => []
  | fuel + 1, start, end_, path =>
    let path0 := (path ++ [start])
    if ((start == end_)) then
      [path0]
    else
      if ((decide (start > ((g.n : Int) - ((1) : Int)))) || (decide (start < (0)))) then
        []
      else
        let paths0 := []
        let r0 := MenpoModel.Py.forLoop paths0 ((Graph.row g start)) (fun acc0 it0 =>
            let paths1 := acc0
            let v0 := it0
            if (!(List.contains path0 v0)) then
              let newpaths0 := (genFindAllPaths g fuel v0 end_ path0)
              let r0 := MenpoModel.Py.forLoop paths1 (newpaths0) (fun acc1 it1 =>
                  let paths0 := acc1
                  let newpath0 := it1
                  let paths1 := (paths0 ++ [newpath0])
                  paths1)
              let paths0 := r0
              paths0
            else
              paths1)
        let paths1 := r0
        paths1

def genNPaths (g : Graph) (start end_ : Nat) : Nat :=
  (List.length (genFindAllPaths g (g.n + 2) start end_ []))

def genIsLeaf (g : Graph) (vertex : Nat) (skipchecks : Bool) : Option Bool :=
  if (!skipchecks) then
    if (genCheckVertex g vertex).isSome then
      (match genChildren g vertex false with
      | none => none
      | some tmp0 =>
      some ((((List.length tmp0) == (0)))))
    else
      none
  else
    (match genChildren g vertex false with
    | none => none
    | some tmp1 =>
    some ((((List.length tmp1) == (0)))))

def genLeaves (g : Graph) : Option (List Nat) :=
  let leaves0 := []
  let r0 := MenpoModel.Py.forLoop (none, leaves0) ((List.range g.n)) (fun acc0 it0 =>
      if (acc0.1).isSome then acc0 else
      let leaves1 := acc0.2
      let v0 := it0
      (match genIsLeaf g v0 false with
      | none => (some (none), leaves1)
      | some tmp0 =>
      if tmp0 then
        let leaves0 := (leaves1 ++ [v0])
        (none, leaves0)
      else
        (none, leaves1)))
  let leaves1 := r0.2
  match r0.1 with
  | some v0 =>
      v0
  | none =>
    some (leaves1)

def genNLeaves (g : Graph) : Option Nat :=
  (match genLeaves g with
  | none => none
  | some tmp0 =>
  some ((List.length tmp0)))

def genParent (g : Graph) (vertex : Nat) (skipchecks : Bool) : Option (Option Nat) :=
  if (!skipchecks) then
    if (genCheckVertex g vertex).isSome then
      some ((pyGet (Graph.predList g) vertex))
    else
      none
  else
    some ((pyGet (Graph.predList g) vertex))

def genIsSymmetric (array : RawMat) : Bool :=
  if (RawMat.isSparse array) then
    (((Graph.asymCount (RawMat.graph array)) == (0)))
  else
    (((Graph.asymCount (RawMat.graph array)) == (0)))

def genGraphInit (directed : Bool) (m : RawMat) (copy skipchecks : Bool) : Option Graph :=
  if (m.kind == MatKind.ndarray) then
    let adjacencymatrix0 := m
    if (!skipchecks) then
      if (((RawMat.nrows adjacencymatrix0) == (0))) then
        none
      else
        if (((RawMat.nrows adjacencymatrix0) != (RawMat.ncols adjacencymatrix0))) then
          none
        else
          if ((!directed) && (!(genIsSymmetric adjacencymatrix0))) then
            none
          else
            if copy then
              let selfadjacencymatrix0 := adjacencymatrix0
              let selfadjacencymatrix1 := (RawMat.eliminateZeros selfadjacencymatrix0)
              RawMat.graphOf selfadjacencymatrix1
            else
              let selfadjacencymatrix0 := adjacencymatrix0
              let selfadjacencymatrix1 := (RawMat.eliminateZeros selfadjacencymatrix0)
              RawMat.graphOf selfadjacencymatrix1
    else
      if copy then
        let selfadjacencymatrix0 := adjacencymatrix0
        let selfadjacencymatrix1 := (RawMat.eliminateZeros selfadjacencymatrix0)
        RawMat.graphOf selfadjacencymatrix1
      else
        let selfadjacencymatrix0 := adjacencymatrix0
        let selfadjacencymatrix1 := (RawMat.eliminateZeros selfadjacencymatrix0)
        RawMat.graphOf selfadjacencymatrix1
  else
    if (!((m.kind == MatKind.ndarray) || (m.kind == MatKind.csr))) then
      none
    else
      if (!skipchecks) then
        if (((RawMat.nrows m) == (0))) then
          none
        else
          if (((RawMat.nrows m) != (RawMat.ncols m))) then
            none
          else
            if ((!directed) && (!(genIsSymmetric m))) then
              none
            else
              if copy then
                let selfadjacencymatrix0 := m
                let selfadjacencymatrix1 := (RawMat.eliminateZeros selfadjacencymatrix0)
                RawMat.graphOf selfadjacencymatrix1
              else
                let selfadjacencymatrix0 := m
                let selfadjacencymatrix1 := (RawMat.eliminateZeros selfadjacencymatrix0)
                RawMat.graphOf selfadjacencymatrix1
      else
        if copy then
          let selfadjacencymatrix0 := m
          let selfadjacencymatrix1 := (RawMat.eliminateZeros selfadjacencymatrix0)
          RawMat.graphOf selfadjacencymatrix1
        else
          let selfadjacencymatrix0 := m
          let selfadjacencymatrix1 := (RawMat.eliminateZeros selfadjacencymatrix0)
          RawMat.graphOf selfadjacencymatrix1

def genUndirectedGraphInit (m : RawMat) (copy skipchecks : Bool) : Option (Bool × Graph) :=
  let directedattr0 := false
  (match genGraphInit directedattr0 m copy skipchecks with
  | none => none
  | some p0 =>
    let graphattr0 := p0
    some (directedattr0, graphattr0))

def genDirectedGraphInit (m : RawMat) (copy skipchecks : Bool) : Option (Bool × Graph) :=
  let directedattr0 := true
  (match genGraphInit directedattr0 m copy skipchecks with
  | none => none
  | some p0 =>
    let graphattr0 := p0
    some (directedattr0, graphattr0))

def genTreeInit (g : Graph) (rootvertex : Nat) (copy skipchecks : Bool) : Option (Nat × List (Option Nat)) :=
  if (genDirectedGraphInit (RawMat.ofGraph g) copy skipchecks).isSome then
    if (!skipchecks) then
      if (genHasIsolatedVertices g) then
        none
      else
        if (!(genIsTree g true)) then
          none
        else
          if (genCheckVertex g rootvertex).isSome then
            let bfstree0 := (Graph.bfsTree g rootvertex)
            if (((if sameEdgeSet bfstree0 (Graph.edgesD g) then 0 else 1) != (0))) then
              none
            else
              let rootattr0 := rootvertex
              let predattr0 := (genGetPredecessorsList g)
              some (rootattr0, predattr0)
          else
            none
    else
      let rootattr0 := rootvertex
      let predattr0 := (genGetPredecessorsList g)
      some (rootattr0, predattr0)
  else
    none

def genDepthOfVertex (g : Graph) (root vertex : Nat) (skipchecks : Bool) : Option Nat :=
  if (!skipchecks) then
    if (genCheckVertex g vertex).isSome then
      let parent0 := vertex
      let depth0 := (0)
      (match MenpoModel.Py.whileFuel ((g.n + 1)) (none, parent0, depth0) (fun acc0 => let parent1 := acc0.2.1; let depth1 := acc0.2.2; !(acc0.1).isSome && (!((parent1 == root)))) (fun acc0 =>
          let parent1 := acc0.2.1
          let depth1 := acc0.2.2
          let current0 := parent1
          (match Graph.parent g current0 with
          | none => (some (none), parent1, depth1)
          | some parent0 =>
            let depth0 := (depth1 + (1))
            (none, parent0, depth0))) with
      | none => none
      | some r0 =>
        let parent1 := r0.2.1
        let depth1 := r0.2.2
        match r0.1 with
        | some v0 =>
            v0
        | none =>
          some (depth1))
    else
      none
  else
    let parent0 := vertex
    let depth0 := (0)
    (match MenpoModel.Py.whileFuel ((g.n + 1)) (none, parent0, depth0) (fun acc0 => let parent1 := acc0.2.1; let depth1 := acc0.2.2; !(acc0.1).isSome && (!((parent1 == root)))) (fun acc0 =>
        let parent1 := acc0.2.1
        let depth1 := acc0.2.2
        let current0 := parent1
        (match Graph.parent g current0 with
        | none => (some (none), parent1, depth1)
        | some parent0 =>
          let depth0 := (depth1 + (1))
          (none, parent0, depth0))) with
    | none => none
    | some r0 =>
      let parent1 := r0.2.1
      let depth1 := r0.2.2
      match r0.1 with
      | some v0 =>
          v0
      | none =>
        some (depth1))

def genVerticesAtDepth (g : Graph) (root depth : Nat) : Option (List Nat) :=
  let ver0 := []
  let r0 := MenpoModel.Py.forLoop (none, ver0) ((List.range g.n)) (fun acc0 it0 =>
      if (acc0.1).isSome then acc0 else
      let ver1 := acc0.2
      let v0 := it0
      (match genDepthOfVertex g root v0 false with
      | none => (some (none), ver1)
      | some tmp0 =>
      if ((tmp0 == depth)) then
        let ver0 := (ver1 ++ [v0])
        (none, ver0)
      else
        (none, ver1)))
  let ver1 := r0.2
  match r0.1 with
  | some v0 =>
      v0
  | none =>
    some (ver1)

def genNVerticesAtDepth (g : Graph) (root depth : Nat) : Option Nat :=
  let nver0 := (0)
  let r0 := MenpoModel.Py.forLoop (none, nver0) ((List.range g.n)) (fun acc0 it0 =>
      if (acc0.1).isSome then acc0 else
      let nver1 := acc0.2
      let v0 := it0
      (match genDepthOfVertex g root v0 false with
      | none => (some (none), nver1)
      | some tmp0 =>
      if ((tmp0 == depth)) then
        let nver0 := (nver1 + (1))
        (none, nver0)
      else
        (none, nver1)))
  let nver1 := r0.2
  match r0.1 with
  | some v0 =>
      v0
  | none =>
    some (nver1)

def genMaskAdjacencyMatrixAndPoints {α : Type} (mask : List Bool) (adjacencymatrix : Graph) (points : List α) : Graph × List α :=
  let indicestokeep0 := (nonzeroIdx mask)
  let adjacencymatrix0 := (pySelRows adjacencymatrix indicestokeep0)
  let adjacencymatrix1 := (Graph.selCols adjacencymatrix0 indicestokeep0)
  let points0 := (pySelRows points mask)
  (adjacencymatrix1, points0)

def genFromMaskU {α : Type} (g : Graph) (pts : List α) (mask : List Bool) : Option (Graph × List α) :=
  if (((shape0 mask) != pts.length)) then
    none
  else
    if (List.all mask id) then
      pointGraphCtor false pts g true
    else
      let p0 := (genMaskAdjacencyMatrixAndPoints mask g pts)
      let adjacencymatrix0 := p0.1
      let points0 := p0.2
      pointGraphCtor false points0 adjacencymatrix0 false

def genFromMaskD {α : Type} (g : Graph) (pts : List α) (mask : List Bool) : Option (Graph × List α) :=
  if (((shape0 mask) != pts.length)) then
    none
  else
    if (List.all mask id) then
      some ((g, pts))
    else
      let p0 := (genMaskAdjacencyMatrixAndPoints mask g pts)
      let adjacencymatrix0 := p0.1
      let points0 := p0.2
      pointGraphCtor true points0 adjacencymatrix0 false

def genFromMaskT {α : Type} (g : Graph) (root : Nat) (pts : List α) (mask : List Bool) : Option (Graph × Nat × List α) :=
  if (((shape0 mask) != pts.length)) then
    none
  else
    if (List.all mask id) then
      some ((g, root, pts))
    else
      if (!(pyGet mask root)) then
        none
      else
        let p0 := (genMaskAdjacencyMatrixAndPoints mask g pts)
        let adjacencymatrix0 := p0.1
        let points0 := p0.2
        let rootvertex0 := (rank mask root)
        let p1 := (Graph.componentLabels adjacencymatrix0)
        let ncomponents0 := p1.1
        let labels0 := p1.2
        (match MenpoModel.Py.whileFuel ((g.n + 1)) (mask, adjacencymatrix0, points0, rootvertex0, ncomponents0, labels0) (fun acc0 => let mask0 := acc0.1; let adjacencymatrix1 := acc0.2.1; let points1 := acc0.2.2.1; let rootvertex1 := acc0.2.2.2.1; let ncomponents1 := acc0.2.2.2.2.1; let labels1 := acc0.2.2.2.2.2; (decide (ncomponents1 > (1)))) (fun acc0 =>
            let mask0 := acc0.1
            let adjacencymatrix1 := acc0.2.1
            let points1 := acc0.2.2.1
            let rootvertex1 := acc0.2.2.2.1
            let ncomponents1 := acc0.2.2.2.2.1
            let labels1 := acc0.2.2.2.2.2
            let labeltokeep0 := (pyGet labels1 rootvertex1)
            let mask1 := (pyEq labels1 labeltokeep0)
            let p2 := (genMaskAdjacencyMatrixAndPoints mask1 adjacencymatrix1 points1)
            let adjacencymatrix0 := p2.1
            let points0 := p2.2
            let rootvertex0 := (rank mask1 rootvertex1)
            let p3 := (Graph.componentLabels adjacencymatrix0)
            let ncomponents0 := p3.1
            let labels0 := p3.2
            (mask1, adjacencymatrix0, points0, rootvertex0, ncomponents0, labels0)) with
        | none => none
        | some r0 =>
          let mask0 := r0.1
          let adjacencymatrix1 := r0.2.1
          let points1 := r0.2.2.1
          let rootvertex1 := r0.2.2.2.1
          let ncomponents1 := r0.2.2.2.2.1
          let labels1 := r0.2.2.2.2.2
          pointTreeCtor points1 adjacencymatrix1 rootvertex1 false)

def genConvertEdges (isList : Bool) (edges : List (Nat × Nat)) (nvertices : Nat) : Graph :=
  if isList then
    let edges0 := edges
    if (false || (((shape0 edges0) == (0)))) then
      (zeroGraph nvertices nvertices)
    else
      (csrOnes (shape0 edges0) (List.map Prod.fst edges0) (List.map Prod.snd edges0) nvertices nvertices)
  else
    if (false || (((shape0 edges) == (0)))) then
      (zeroGraph nvertices nvertices)
    else
      (csrOnes (shape0 edges) (List.map Prod.fst edges) (List.map Prod.snd edges) nvertices nvertices)

def genConvertEdgesSym (isList : Bool) (edges : List (Nat × Nat)) (nvertices : Nat) : Graph :=
  if isList then
    let edges0 := edges
    if (false || (((shape0 edges0) == (0)))) then
      let adjacencymatrix0 := (zeroGraph nvertices nvertices)
      adjacencymatrix0
    else
      let rows0 := ((List.map Prod.fst edges0) ++ (List.map Prod.snd edges0))
      let cols0 := ((List.map Prod.snd edges0) ++ (List.map Prod.fst edges0))
      let adjacencymatrix0 := (csrOnes (shape0 rows0) rows0 cols0 nvertices nvertices)
      let adjacencymatrix1 := (Graph.binarize adjacencymatrix0)
      adjacencymatrix1
  else
    if (false || (((shape0 edges) == (0)))) then
      let adjacencymatrix0 := (zeroGraph nvertices nvertices)
      adjacencymatrix0
    else
      let rows0 := ((List.map Prod.fst edges) ++ (List.map Prod.snd edges))
      let cols0 := ((List.map Prod.snd edges) ++ (List.map Prod.fst edges))
      let adjacencymatrix0 := (csrOnes (shape0 rows0) rows0 cols0 nvertices nvertices)
      let adjacencymatrix1 := (Graph.binarize adjacencymatrix0)
      adjacencymatrix1


end MenpoModel.Generated.C14
