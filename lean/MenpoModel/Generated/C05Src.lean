/- TRANSLATED by harness/trans_c05.py (harness/py2lean2.py, harness/py2lean2w.py) from the SOURCE TEXT of
   menpo/base.py, menpo/shape/pointcloud.py, menpo/shape/mesh/textured.py, menpo/image/{base,masked,boolean}.py and
   menpo/transform/homogeneous/*.py of the current working tree on every run of `./check C05`; do not edit.
   GenProps/C05Src.lean proves every definition equal to the Core definition the C05 theorems are about. -/
import MenpoModel.Core.C05Src

set_option linter.unusedVariables false

namespace MenpoModel.C05.Src
open MenpoModel.C05
open scoped MenpoModel.C05.Np

def Vectorizable_as_vector {α β : Type} (v__as_vector : α → Except Err β) (self : α) : Except Err (Np.Flagged β) :=
  (match (Except.map Np.arrayObject (v__as_vector self)) with
  | .error err => .error err
  | .ok v0 =>
    let v1 := { v0 with writeable := false }
    .ok (v1))

def Vectorizable_n_parameters {α β : Type} (v_as_vector : α → Except Err (Np.Flagged (List β))) (self : α) : Except Err Nat :=
  (Except.map (fun a => Np.shape0 a.val) (v_as_vector self))

def Vectorizable_from_vector_inplace {α : Type} (v__from_vector_inplace : α → Vec → Except Err α) (self : α) (vector : Vec) : Except Err α :=
  (v__from_vector_inplace self vector)

def Vectorizable_from_vector {α : Type} (v_copy : α → α) (v__from_vector_inplace : α → Vec → Except Err α) (self : α) (vector : Vec) : Except Err α :=
  let new0 := (v_copy self)
  (match (v__from_vector_inplace new0 vector) with
  | .error err => .error err
  | .ok p0 =>
    let new1 := p0
    .ok (new1))

def Landmarkable_has_landmarks_shape (self : Shape) : Bool :=
  ((!((self).lms == [])) && (((Np.shape0 (self).lms) != (0))))

def PointCloud_n_dims (self : Shape) : Nat :=
  (self).d

def PointCloud__as_vector (self : Shape) : Except Err Vec :=
  .ok ((self).points)

def PointCloud__from_vector_inplace (self : Shape) (vector : Vec) : Except Err Shape :=
  if (((Np.shape0 vector) != (Np.shape0 (self).points))) then
    .error .value
  else
    (match (Np.reshapeNeg1 vector (PointCloud_n_dims self)) with
    | .error err => .error err
    | .ok tmp0 =>
    let self0 := { self with points := tmp0 }
    .ok self0)

def TexturedTriMesh_from_vector (self : Shape) (flattened : Vec) : Except Err Shape :=
  if (((Np.shape0 flattened) != (Np.shape0 (self).points))) then
    .error .value
  else
    (match (Np.reshapeNeg1 flattened (PointCloud_n_dims self)) with
    | .error err => .error err
    | .ok tmp0 =>
    let newmesh0 := (Np.mkTextured tmp0 self)
    if (Landmarkable_has_landmarks_shape self) then
      let newmesh1 := { newmesh0 with lms := (self).lms }
      .ok (newmesh1)
    else
      .ok (newmesh0))

def Landmarkable_has_landmarks_image (self : Img) : Bool :=
  ((!((self).lms == [])) && (((Np.shape0 (self).lms) != (0))))

def copy_landmarks_and_path (source target : Img) : Img :=
  if (Landmarkable_has_landmarks_image source) then
    let target0 := { target with lms := (source).lms }
    target0
  else
    target

def Image_n_channels (self : Img) : Nat :=
  (Np.shape0 (self).chans)

def Image_shape (self : Img) : List Nat :=
  (self).shape

def Image__as_vector (self : Img) (keepchannels : Bool) : Np.Arr :=
  if keepchannels then
    (Np.Arr.rows (self).chans)
  else
    (Np.Arr.flat (List.flatten (self).chans))

def Image_from_vector (self : Img) (vector : Vec) (nchannels : Option Nat) (copy : Bool) : Except Err Img :=
  let nchannels0 := (Option.getD nchannels (Image_n_channels self))
  (match (Np.reshapeImg vector nchannels0 (Image_shape self)) with
  | .error err => .error err
  | .ok imagedata0 =>
    let newimage0 := (Np.mkImage imagedata0)
    let newimage1 := { newimage0 with lms := (self).lms }
    .ok (newimage1))

def Image__from_vector_inplace (contig : Bool) (self : Img) (vector : Vec) (copy : Bool) : Except Err Img :=
  (match (Np.reshapeImg vector (Image_n_channels self) (Image_shape self)) with
  | .error err => .error err
  | .ok imagedata0 =>
    if (!copy) then
      if (!contig) then
        let imagedata1 := imagedata0
        let self0 := { self with shape := (imagedata1).shape, chans := (imagedata1).chans }
        .ok self0
      else
        let self0 := { self with shape := (imagedata0).shape, chans := (imagedata0).chans }
        .ok self0
    else
      let imagedata1 := imagedata0
      let self0 := { self with shape := (imagedata1).shape, chans := (imagedata1).chans }
      .ok self0)

def MaskedImage_masked_pixels (self : Img) : List Vec :=
  if (allTrue (Np.HasMask.mask self)) then
    (self).chans
  else
    (List.map (fun c => maskFilter c (Np.HasMask.mask (Np.HasMask.mask self))) (self).chans)

def MaskedImage__as_vector (self : Img) (keepchannels : Bool) : Np.Arr :=
  if keepchannels then
    (Np.Arr.rows (MaskedImage_masked_pixels self))
  else
    (Np.Arr.flat (List.flatten (MaskedImage_masked_pixels self)))

def MaskedImage_from_vector (self : Img) (vector : Vec) (nchannels : Option Nat) : Except Err Img :=
  let nchannels0 := (Option.getD nchannels (Image_n_channels self))
  if (allTrue (Np.HasMask.mask self)) then
    (match (Np.reshapeImg vector nchannels0 (Image_shape self)) with
    | .error err => .error err
    | .ok imagedata0 =>
      let newimage0 := (Np.mkMasked imagedata0 (Np.HasMask.mask self))
      .ok ((copy_landmarks_and_path self newimage0)))
  else
    let imagedata0 := (Np.zerosImg nchannels0 (Image_shape self))
    (match (Np.reshapeRows vector nchannels0) with
    | .error err => .error err
    | .ok pixelsperchannel0 =>
      (match (Np.assignMasked imagedata0 (Np.HasMask.mask (Np.HasMask.mask self)) pixelsperchannel0) with
      | .error err => .error err
      | .ok p0 =>
        let imagedata1 := p0
        let newimage0 := (Np.mkMasked imagedata1 (Np.HasMask.mask self))
        .ok ((copy_landmarks_and_path self newimage0))))

def MaskedImage__set_masked_pixels (contig : Bool) (self : Img) (pixels : List Vec) (copy : Bool) : Except Err Img :=
  if (allTrue (Np.HasMask.mask self)) then
    (match (Np.reshapeImg pixels (Image_n_channels self) (Image_shape self)) with
    | .error err => .error err
    | .ok pixels0 =>
      if (!copy) then
        if (!contig) then
          let pixels1 := pixels0
          let self0 := { self with shape := (pixels1).shape, chans := (pixels1).chans }
          .ok self0
        else
          let self0 := { self with shape := (pixels0).shape, chans := (pixels0).chans }
          .ok self0
      else
        let pixels1 := pixels0
        let self0 := { self with shape := (pixels1).shape, chans := (pixels1).chans }
        .ok self0)
  else
    (match (Except.map (fun d => { self with shape := d.shape, chans := d.chans }) (Np.assignMasked (Np.pixelsOf self) (Np.HasMask.mask (Np.HasMask.mask self)) pixels)) with
    | .error err => .error err
    | .ok p0 =>
      let self0 := p0
      if (!copy) then
        .ok self0
      else
        .ok self0)

def MaskedImage__from_vector_inplace (v__set_masked_pixels : Img → List Vec → Bool → Except Err Img) (self : Img) (vector : Vec) (copy : Bool) : Except Err Img :=
  (match (Np.reshapeRows vector (Image_n_channels self)) with
  | .error err => .error err
  | .ok tmp0 =>
  (match (v__set_masked_pixels self tmp0 copy) with
  | .error err => .error err
  | .ok p0 =>
    let self0 := p0
    .ok self0))

def BooleanImage_from_vector (self : Img) (vector : Vec) (copy : Bool) : Except Err Img :=
  (match (Np.reshapeShape vector (Image_shape self)) with
  | .error err => .error err
  | .ok tmp0 =>
  let mask0 := (Np.mkBoolean tmp0)
  if (Landmarkable_has_landmarks_image self) then
    let mask1 := { mask0 with lms := (self).lms }
    .ok (mask1)
  else
    .ok (mask0))

def Homogeneous_n_dims (self : Xf) : Nat :=
  ((Np.ncols (self).h) - (1))

def Homogeneous__as_vector (self : Xf) : Except Err Vec :=
  .ok ((Np.ravelC (self).h))

def Homogeneous__set_h_matrix (self : Xf) (value : Mat) (copy skipchecks : Bool) : Except Err Xf :=
  if copy then
    let value0 := value
    let self0 := { self with h := value0 }
    .ok self0
  else
    let self0 := { self with h := value }
    .ok self0

def Homogeneous__from_vector_inplace (v__set_h_matrix : (Xf → Mat → Bool → Bool → Except Err Xf)) (self : Xf) (vector : Vec) : Except Err Xf :=
  (match (Np.reshapeLike vector (self).h) with
  | .error err => .error err
  | .ok tmp0 =>
  (match (v__set_h_matrix self tmp0 true true) with
  | .error err => .error err
  | .ok p0 =>
    let self0 := p0
    .ok self0))

def Homogeneous_from_vector (v_copy : Xf → Xf) (v__from_vector_inplace : Xf → Vec → Except Err Xf) (self : Xf) (vector : Vec) : Except Err Xf :=
  let selfcopy0 := (v_copy self)
  (match (v__from_vector_inplace selfcopy0 vector) with
  | .error err => .error err
  | .ok p0 =>
    let selfcopy1 := p0
    .ok (selfcopy1))

def Affine_n_parameters (self : Xf) : Except Err Nat :=
  .ok (((Homogeneous_n_dims self) * ((Homogeneous_n_dims self) + (1))))

def Affine__as_vector (self : Xf) : Except Err Vec :=
  .ok ((Np.ravelF (Np.topRows (Homogeneous_n_dims self) ((self).h - (Np.eye ((Homogeneous_n_dims self) + (1)))))))

def Affine__set_h_matrix (self : Xf) (value : Mat) (copy skipchecks : Bool) : Except Err Xf :=
  if (!skipchecks) then
    let shape0 := (Np.shapeOf value)
    if ((((Np.shape0 shape0) != (2))) || (((Np.at1 shape0 (0)) != (Np.at1 shape0 (1))))) then
      .error .value
    else
      if (!((self).h == [])) then
        if (((Homogeneous_n_dims self) != ((Np.at1 shape0 (0)) - (1)))) then
          .error .value
        else
          if (!((((Np.at1 shape0 (0)) - (1)) == (2)) || (((Np.at1 shape0 (0)) - (1)) == (3)))) then
            .error .value
          else
            if (!((Np.bottomRowZero value) && (Np.cornerOne value))) then
              .error .value
            else
              if copy then
                let value0 := value
                let self0 := { self with h := value0 }
                .ok self0
              else
                let self0 := { self with h := value }
                .ok self0
      else
        if (!((((Np.at1 shape0 (0)) - (1)) == (2)) || (((Np.at1 shape0 (0)) - (1)) == (3)))) then
          .error .value
        else
          if (!((Np.bottomRowZero value) && (Np.cornerOne value))) then
            .error .value
          else
            if copy then
              let value0 := value
              let self0 := { self with h := value0 }
              .ok self0
            else
              let self0 := { self with h := value }
              .ok self0
  else
    if copy then
      let value0 := value
      let self0 := { self with h := value0 }
      .ok self0
    else
      let self0 := { self with h := value }
      .ok self0

def Affine__from_vector_inplace (v__set_h_matrix : (Xf → Mat → Bool → Bool → Except Err Xf)) (self : Xf) (p : Vec) : Except Err Xf :=
  let hmatrix0 := (none : Option Mat)
  if (((Np.shape0 p) == (6))) then
    let hmatrix1 := (Np.eye (3))
    let hmatrix0 := (Np.addTop (2) hmatrix1 (Np.reshapeF (2) (3) p))
    (match (v__set_h_matrix self hmatrix0 false true) with
    | .error err => .error err
    | .ok p0 =>
      let self0 := p0
      .ok self0)
  else
    if (((Np.shape0 p) == (12))) then
      let hmatrix1 := (Np.eye (4))
      let hmatrix0 := (Np.addTop (3) hmatrix1 (Np.reshapeF (3) (4) p))
      (match (v__set_h_matrix self hmatrix0 false true) with
      | .error err => .error err
      | .ok p0 =>
        let self0 := p0
        .ok self0)
    else
      .error .value

def Similarity_n_parameters (self : Xf) : Except Err Nat :=
  if (((Homogeneous_n_dims self) == (2))) then
    .ok ((4))
  else
    if (((Homogeneous_n_dims self) == (3))) then
      .error .notImpl
    else
      .error .value

def Similarity__as_vector (self : Xf) : Except Err Vec :=
  if (((Homogeneous_n_dims self) == (2))) then
    let params0 := ((self).h - (Np.eye ((Homogeneous_n_dims self) + (1))))
    let params1 := (Np.ravelF (Np.topRows (Homogeneous_n_dims self) params0))
    .ok ((Np.takeIdx params1 [(0), (1), (4), (5)]))
  else
    if (((Homogeneous_n_dims self) == (3))) then
      .error .notImpl
    else
      .error .value

def Similarity__from_vector_inplace (v__set_h_matrix : (Xf → Mat → Bool → Bool → Except Err Xf)) (self : Xf) (p : Vec) : Except Err Xf :=
  if (((Np.shape0 p) == (4))) then
    let homog0 := (Np.eye (3))
    let homog1 := (Np.set2 homog0 (0) (0) (Np.at2 homog0 (0) (0) + (Np.at1 p (0))))
    let homog0 := (Np.set2 homog1 (1) (1) (Np.at2 homog1 (1) (1) + (Np.at1 p (0))))
    let homog1 := (Np.set2 homog0 (0) (1) (-(Np.at1 p (1))))
    let homog0 := (Np.set2 homog1 (1) (0) (Np.at1 p (1)))
    let homog1 := (Np.setColTop homog0 (2) (2) (List.drop (2) p))
    (match (v__set_h_matrix self homog1 false true) with
    | .error err => .error err
    | .ok p0 =>
      let self0 := p0
      .ok self0)
  else
    if (((Np.shape0 p) == (7))) then
      .error .notImpl
    else
      .error .value

def Translation_n_parameters (self : Xf) : Except Err Nat :=
  .ok ((Homogeneous_n_dims self))

def Translation__as_vector (self : Xf) : Except Err Vec :=
  .ok ((Np.lastColTop (self).h))

def Translation__from_vector_inplace (self : Xf) (p : Vec) : Except Err Xf :=
  (match (Except.map (fun m => { self with h := m }) (Np.assignLastColTop (self).h p)) with
  | .error err => .error err
  | .ok p0 =>
    let self0 := p0
    .ok self0)

def UniformScale_scale (self : Xf) : Rat :=
  (Np.at2 (self).h (0) (0))

def UniformScale_n_parameters (self : Xf) : Except Err Nat :=
  .ok ((1))

def UniformScale__as_vector (self : Xf) : Except Err Vec :=
  .ok ([(UniformScale_scale self)])

def UniformScale__from_vector_inplace (self : Xf) (p : Vec) : Except Err Xf :=
  if (((Np.shape0 p) != (1))) then
    .error .value
  else
    let self0 := { self with h := Np.fillDiag (self).h p }
    let self1 := { self0 with h := Np.setCornerOne (self0).h }
    .ok self1

def NonUniformScale_scale (self : Xf) : Vec :=
  (List.dropLast (diag (self).h))

def NonUniformScale_n_parameters (self : Xf) : Except Err Nat :=
  .ok ((Np.shape0 (NonUniformScale_scale self)))

def NonUniformScale__as_vector (self : Xf) : Except Err Vec :=
  .ok ((NonUniformScale_scale self))

def NonUniformScale__from_vector_inplace (self : Xf) (vector : Vec) : Except Err Xf :=
  let self0 := { self with h := Np.fillDiag (self).h vector }
  let self1 := { self0 with h := Np.setCornerOne (self0).h }
  .ok self1

def Rotation_n_parameters (self : Xf) : Except Err Nat :=
  if (((Homogeneous_n_dims self) == (3))) then
    .ok ((4))
  else
    .error .notImpl

def Rotation__as_vector (eig : Mat → Vec) (self : Xf) : Except Err Vec :=
  if (((Homogeneous_n_dims self) == (3))) then
    let K0 := [[(((Np.at2 (self).h (0) (0)) - (Np.at2 (self).h (1) (1))) - (Np.at2 (self).h (2) (2))), (0 : Rat), (0 : Rat), (0 : Rat)], [((Np.at2 (self).h (0) (1)) + (Np.at2 (self).h (1) (0))), (((Np.at2 (self).h (1) (1)) - (Np.at2 (self).h (0) (0))) - (Np.at2 (self).h (2) (2))), (0 : Rat), (0 : Rat)], [((Np.at2 (self).h (0) (2)) + (Np.at2 (self).h (2) (0))), ((Np.at2 (self).h (1) (2)) + (Np.at2 (self).h (2) (1))), (((Np.at2 (self).h (2) (2)) - (Np.at2 (self).h (0) (0))) - (Np.at2 (self).h (1) (1))), (0 : Rat)], [((Np.at2 (self).h (2) (1)) - (Np.at2 (self).h (1) (2))), ((Np.at2 (self).h (0) (2)) - (Np.at2 (self).h (2) (0))), ((Np.at2 (self).h (1) (0)) - (Np.at2 (self).h (0) (1))), (((Np.at2 (self).h (0) (0)) + (Np.at2 (self).h (1) (1))) + (Np.at2 (self).h (2) (2)))]]
    let K1 := (Np.matDiv K0 (3 : Rat))
    (match (Np.eigh eig K1) with
    | .error err => .error err
    | .ok t0 =>
      let p0 := t0
      let w0 := p0.1
      let V0 := p0.2
      let q0 := (Np.topColumn w0 V0 [(3), (0), (1), (2)])
      if (decide ((Np.at1 q0 (0)) < (0 : Rat))) then
        let q1 := (Np.vecNeg q0)
        .ok (q1)
      else
        .ok (q0))
  else
    .error .notImpl

def Rotation_set_rotation_matrix (self : Xf) (value : Mat) (skipchecks : Bool) : Except Err Xf :=
  if (!skipchecks) then
    if ((((Np.shape0 (Np.shapeOf value)) != (2))) && (((Np.shape0 value) != (Np.ncols value)))) then
      .error .value
    else
      if (((Homogeneous_n_dims self) != (Np.shape0 value))) then
        .error .value
      else
        let self0 := { self with h := setRotBase (self).h value }
        .ok self0
  else
    let self0 := { self with h := setRotBase (self).h value }
    .ok self0

def Rotation__from_vector_inplace (v_set_rotation_matrix : (Xf → Mat → Bool → Except Err Xf)) (self : Xf) (p : Vec) : Except Err Xf :=
  if (((Homogeneous_n_dims self) == (3))) then
    if (((Np.shape0 p) == (4))) then
      let n0 := (dot p p)
      if (decide (n0 < (Np.epsF * (4 : Rat)))) then
        .ok self
      else
        let p0 := (Np.scaleSqrt p ((2 : Rat) / n0))
        let p1 := (Np.outerSelf p0)
        let rotation0 := [[(((1 : Rat) - (Np.at2 p1 (2) (2))) - (Np.at2 p1 (3) (3))), ((Np.at2 p1 (1) (2)) - (Np.at2 p1 (3) (0))), ((Np.at2 p1 (1) (3)) + (Np.at2 p1 (2) (0)))], [((Np.at2 p1 (1) (2)) + (Np.at2 p1 (3) (0))), (((1 : Rat) - (Np.at2 p1 (1) (1))) - (Np.at2 p1 (3) (3))), ((Np.at2 p1 (2) (3)) - (Np.at2 p1 (1) (0)))], [((Np.at2 p1 (1) (3)) - (Np.at2 p1 (2) (0))), ((Np.at2 p1 (2) (3)) + (Np.at2 p1 (1) (0))), (((1 : Rat) - (Np.at2 p1 (1) (1))) - (Np.at2 p1 (2) (2)))]]
        (match (v_set_rotation_matrix self rotation0 true) with
        | .error err => .error err
        | .ok p0 =>
          let self0 := p0
          .ok self0)
    else
      .error .value
  else
    .error .notImpl

def Targetable__verify_target (self : Xf) (newtarget : Mat) : Except Err Xf :=
  if ((self).tgt == []) then
    .ok self
  else
    if (((Np.cloudDims newtarget) != (Np.cloudDims (self).tgt))) then
      .error .value
    else
      if (((Np.cloudPoints newtarget) != (Np.cloudPoints (self).tgt))) then
        .error .value
      else
        .ok self

def Alignment__target_setter (self : Xf) (newtarget : Mat) : Except Err Xf :=
  let self0 := { self with tgt := newtarget }
  .ok self0

def Targetable__target_setter_with_verification (v__verify_target v__target_setter : Xf → Mat → Except Err Xf) (self : Xf) (newtarget : Mat) : Except Err Xf :=
  (match (v__verify_target self newtarget) with
  | .error err => .error err
  | .ok p0 =>
    let self0 := p0
    (match (v__target_setter self0 newtarget) with
    | .error err => .error err
    | .ok p1 =>
      let self1 := p1
      .ok self1))

def Alignment_aligned_source (self : Xf) : Except Err Mat :=
  (Np.applyToSource self)

def Alignment__new_target_from_state (v_aligned_source : Xf → Except Err Mat) (self : Xf) : Except Err Mat :=
  (v_aligned_source self)

def Targetable__sync_target_from_state (v__new_target_from_state : Xf → Except Err Mat) (v__target_setter_with_verification : Xf → Mat → Except Err Xf) (self : Xf) : Except Err Xf :=
  (match (v__new_target_from_state self) with
  | .error err => .error err
  | .ok newtarget0 =>
    (match (v__target_setter_with_verification self newtarget0) with
    | .error err => .error err
    | .ok p0 =>
      let self0 := p0
      .ok self0))

def AlignmentAffine__set_h_matrix (v__sync_target_from_state : (Xf → Except Err Xf)) (self : Xf) (value : Mat) (copy skipchecks : Bool) : Except Err Xf :=
  (match (Affine__set_h_matrix self value copy skipchecks) with
  | .error err => .error err
  | .ok p0 =>
    let self0 := p0
    (match (v__sync_target_from_state self0) with
    | .error err => .error err
    | .ok p1 =>
      let self1 := p1
      .ok self1))

def AlignmentSimilarity__from_vector_inplace (v__set_h_matrix : (Xf → Mat → Bool → Bool → Except Err Xf)) (v__sync_target_from_state : (Xf → Except Err Xf)) (self : Xf) (p : Vec) : Except Err Xf :=
  (match (Similarity__from_vector_inplace v__set_h_matrix self p) with
  | .error err => .error err
  | .ok p0 =>
    let self0 := p0
    (match (v__sync_target_from_state self0) with
    | .error err => .error err
    | .ok p1 =>
      let self1 := p1
      .ok self1))

def AlignmentTranslation__from_vector_inplace (v__sync_target_from_state : (Xf → Except Err Xf)) (self : Xf) (p : Vec) : Except Err Xf :=
  (match (Translation__from_vector_inplace self p) with
  | .error err => .error err
  | .ok p0 =>
    let self0 := p0
    (match (v__sync_target_from_state self0) with
    | .error err => .error err
    | .ok p1 =>
      let self1 := p1
      .ok self1))

def AlignmentUniformScale__from_vector_inplace (v__sync_target_from_state : (Xf → Except Err Xf)) (self : Xf) (p : Vec) : Except Err Xf :=
  (match (UniformScale__from_vector_inplace self p) with
  | .error err => .error err
  | .ok p0 =>
    let self0 := p0
    (match (v__sync_target_from_state self0) with
    | .error err => .error err
    | .ok p1 =>
      let self1 := p1
      .ok self1))

def AlignmentRotation_set_rotation_matrix (v__sync_target_from_state : (Xf → Except Err Xf)) (self : Xf) (value : Mat) (skipchecks : Bool) : Except Err Xf :=
  (match (Rotation_set_rotation_matrix self value skipchecks) with
  | .error err => .error err
  | .ok p0 =>
    let self0 := p0
    (match (v__sync_target_from_state self0) with
    | .error err => .error err
    | .ok p1 =>
      let self1 := p1
      .ok self1))

end MenpoModel.C05.Src
