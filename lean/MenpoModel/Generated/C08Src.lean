/- TRANSLATED by harness/trans_c08.py (harness/py2lean2.py) from the SOURCE TEXT of the alignment machinery of the
   current working tree on every run of `./check C08`; do not edit.
     menpo/base.py                              Targetable.n_dims, n_points, set_target, _target_setter_with_verification,
                                                _verify_target, _sync_target_from_state
     menpo/transform/base/alignment.py          Alignment.__init__, _verify_source_and_target, aligned_source,
                                                _target_setter, _new_target_from_state
     menpo/transform/homogeneous/*.py           __init__ and _sync_state_from_target of the five Alignment* classes, the
                                                overrides of _set_h_matrix / set_rotation_matrix / _from_vector_inplace,
                                                HomogFamilyAlignment.copy / pseudoinverse, the constructors of Homogeneous,
                                                Affine, Similarity, Rotation, Translation, UniformScale, procrustes_alignment
     menpo/transform/thinplatesplines.py        ThinPlateSplines.__init__, _build_coefficients, _sync_state_from_target
     menpo/transform/piecewiseaffine/base.py    AbstractPWA / PythonPWA / CachedPWA.__init__, _rebuild_target_vectors,
                                                _sync_state_from_target
     menpo/transform/groupalign/*.py            MultipleAlignment.__init__, GeneralizedProcrustesAnalysis.__init__,
                                                _recursive_procrustes
   The dispatchers (`genSync`, `genVirtSetH`, `genVirtSetRot`, `genNew`) are generated from the live MROs.
   GenProps/C08Src.lean proves every definition equal to the Core model. -/
import MenpoModel.Core.C08Py

set_option linter.unusedVariables false

namespace MenpoModel.Generated.C08
open MenpoModel.C08

variable {Pts A S : Type} [Inhabited A]

/-- a homogeneous transform that is not an alignment, by its matrix (`procrustes_alignment(…)`) -/
structure Hom where
  h : Mat

/-- `x.centre()` / `x.norm()`, by the point set (the model's fits take the point sets: `target.centre() -
source.centre()` is `translationOf source target`, `target.norm() / source.norm()` is `scaleOf source target`) -/
structure CentreOf (Pts : Type) where
  c : Pts
structure NormOf (Pts : Type) where
  n : Pts

/-- an array the object owns: the result of `a.copy()` / of a computation that allocates (`_h_matrix_pseudoinverse()`).
`HomogFamilyAlignment.copy / pseudoinverse` must bind `_h_matrix` to such a value: a dropped `.copy()` does not type-check -/
structure Owned where
  m : Mat

/-- `x.__class__` / `type(x)` of an alignment: the object it was read from (`cls.__new__(cls)` makes a blank one) -/
structure ClsOf (Pts A : Type) where
  o : Obj Pts A

/-- `type(x.kernel)`: the kind of a kernel; calling it with the points of the inverse's source gives a kernel of the
same kind centred there -/
structure KernelCls where
  kind : Option Nat

/-- `target.norm() / source.norm()` in `procrustes_alignment`, by the two point sets -/
structure RatioOf (Pts : Type) where
  src : Pts
  tgt : Pts

def genDefault_procrustes_rotation : Bool :=
  true

def genDefault_procrustes_allow_mirror : Bool :=
  false

def genDefault_similarity_rotation : Bool :=
  true

def genDefault_similarity_allow_mirror : Bool :=
  false

def genDefault_rotation_allow_mirror : Bool :=
  false

def genDefault_tps_min_singular_val : Rat :=
  ((1 : Rat) / 10000)

def genDefault_tps_kernel : Option Nat :=
  none

def genDefault_gpa_allow_mirror : Bool :=
  false

def genNDims (e : Ext Pts A) (self : Obj Pts A) : Nat :=
  (e.nDims self.target)

def genNPoints (e : Ext Pts A) (self : Obj Pts A) : Nat :=
  (e.nPoints self.target)

def genVerifyTarget (e : Ext Pts A) (self : Obj Pts A) (newtarget : Pts) : Except PyExc Unit :=
  if (((e.nDims newtarget) != (e.nDims self.target))) then
    .error .valueError
  else
    if (((e.nPoints newtarget) != (e.nPoints self.target))) then
      .error .valueError
    else
      .ok ()

def genTargetSetter (self : Obj Pts A) (newtarget : Pts) : Obj Pts A :=
  let self0 := { self with target := newtarget }
  self0

def genTargetSetterWithVerification (e : Ext Pts A) (self : Obj Pts A) (newtarget : Pts) : Except PyExc (Obj Pts A) :=
  ((genVerifyTarget e self newtarget).map fun _ => self).bind fun self0 =>
    let self1 := genTargetSetter self0 newtarget
    .ok self1

def genAlignedSource (e : Ext Pts A) (self : Obj Pts A) : Pts :=
  (alignedSource e self)

def genNewTargetFromState (e : Ext Pts A) (self : Obj Pts A) : Pts :=
  (genAlignedSource e self)

def genSyncTargetFromState (e : Ext Pts A) (self : Obj Pts A) : Except PyExc (Obj Pts A) :=
  let newtarget0 := (genNewTargetFromState e self)
  (genTargetSetterWithVerification e self newtarget0).bind fun self0 =>
    .ok self0

def genVirtSetH_AlignmentAffine (e : Ext Pts A) (self : Obj Pts A) (value : Mat) (copy skipchecks : Bool) : Except PyExc (Obj Pts A) :=
  (affineSetH e self value copy skipchecks).bind fun self0 =>
    (genSyncTargetFromState e self0).bind fun self1 =>
      .ok self1

def genVirtSetH (e : Ext Pts A) (self : Obj Pts A) (value : Mat) (copy skipchecks : Bool) : Except PyExc (Obj Pts A) :=
  match self.cls with
  | .affine => genVirtSetH_AlignmentAffine e self value copy skipchecks
  | _ => affineSetH e self value copy skipchecks

def genVirtSetRot_AlignmentRotation (e : Ext Pts A) (self : Obj Pts A) (value : Mat) (skipchecks : Bool) : Except PyExc (Obj Pts A) :=
  let self0 := rotationSetR e self value skipchecks
  (genSyncTargetFromState e self0).bind fun self1 =>
    .ok self1

def genVirtSetRot (e : Ext Pts A) (self : Obj Pts A) (value : Mat) (skipchecks : Bool) : Except PyExc (Obj Pts A) :=
  match self.cls with
  | .rotation => genVirtSetRot_AlignmentRotation e self value skipchecks
  | _ => .ok (rotationSetR e self value skipchecks)

def genBuildCoefficients (np : Np Pts A) (self : Obj Pts A) : Obj Pts A :=
  let selfv0 := (np.tr (np.pts self.target))
  let selfy0 := (np.hcat selfv0 (np.zeros (2) (3)))
  let p0 := (np.svd self.l)
  let u0 := p0.1
  let s0 := p0.2.1
  let v0 := p0.2.2
  let keep0 := (np.keep s0 (np.nBelow s0 (self.minSV.getD genDefault_tps_min_singular_val)))
  let invl0 := (np.leftDot u0 keep0 (np.scaleRows (np.invSing s0 keep0) v0 keep0))
  let self0 := self.setCoef (np.dot invl0 (np.tr selfy0))
  self0

def genRebuildTargetVectors (np : Np Pts A) (self : Obj Pts A) : Obj Pts A :=
  let t0 := (np.take (np.pts self.target) self.source)
  let tup000 := (np.sub (np.col t0 (1)) (np.col t0 (0)))
  let tup010 := (np.sub (np.col t0 (2)) (np.col t0 (0)))
  let selftij0 := tup000
  let selftik0 := tup010
  let selfti0 := (np.col t0 (0))
  self.setTv (np.pack3 selfti0 selftij0 selftik0)

def genSync_AlignmentAffine (np : Np Pts A) (e : Ext Pts A) (self : Obj Pts A) : Except PyExc (Obj Pts A) :=
  let optimalh0 := (e.affineOf self.source self.target)
  (affineSetH e self optimalh0 false true).bind fun self0 =>
    .ok self0

def genSync_AlignmentSimilarity (np : Np Pts A) (e : Ext Pts A) (self : Obj Pts A) : Except PyExc (Obj Pts A) :=
  let similarity0 := (⟨e.procrustes (attrFlag self.rotation genDefault_procrustes_rotation) (attrFlag self.allowMirror genDefault_procrustes_allow_mirror) self.source self.target⟩ : Hom)
  (genVirtSetH e self similarity0.h false true).bind fun self0 =>
    .ok self0

def genSync_AlignmentRotation (np : Np Pts A) (e : Ext Pts A) (self : Obj Pts A) : Except PyExc (Obj Pts A) :=
  let r0 := (e.rotationOf (attrFlag self.allowMirror genDefault_procrustes_allow_mirror) self.source self.target)
  let self0 := rotationSetR e self r0 true
  .ok self0

def genSync_AlignmentTranslation (np : Np Pts A) (e : Ext Pts A) (self : Obj Pts A) : Except PyExc (Obj Pts A) :=
  let translation0 := (e.translationOf ((CentreOf.mk self.source)).c ((CentreOf.mk self.target)).c)
  let self0 := self.setH (setLastCol (e.nDims self.source) translation0 self.h)
  .ok self0

def genSync_AlignmentUniformScale (np : Np Pts A) (e : Ext Pts A) (self : Obj Pts A) : Except PyExc (Obj Pts A) :=
  let newscale0 := (e.scaleOf ((NormOf.mk self.source)).n ((NormOf.mk self.target)).n)
  let self0 := self.setH (fillDiag (e.nDims self.source) newscale0 self.h)
  let self1 := self0.setH (setCorner (e.nDims self0.source) self0.h)
  .ok self1

def genSync_ThinPlateSplines (np : Np Pts A) (e : Ext Pts A) (self : Obj Pts A) : Except PyExc (Obj Pts A) :=
  let self0 := genBuildCoefficients np self
  .ok self0

def genSync_AbstractPWA (np : Np Pts A) (e : Ext Pts A) (self : Obj Pts A) : Except PyExc (Obj Pts A) :=
  let self0 := genRebuildTargetVectors np self
  .ok self0

def genSync (np : Np Pts A) (e : Ext Pts A) (self : Obj Pts A) : Except PyExc (Obj Pts A) :=
  match self.cls with
  | .affine => genSync_AlignmentAffine np e self
  | .similarity => genSync_AlignmentSimilarity np e self
  | .rotation => genSync_AlignmentRotation np e self
  | .translation => genSync_AlignmentTranslation np e self
  | .uniformScale => genSync_AlignmentUniformScale np e self
  | .tps => genSync_ThinPlateSplines np e self
  | .pwa => genSync_AbstractPWA np e self

def genSetTarget (np : Np Pts A) (e : Ext Pts A) (self : Obj Pts A) (newtarget : Pts) : Except PyExc (Obj Pts A) :=
  (genTargetSetterWithVerification e self newtarget).bind fun self0 =>
    (genSync np e self0).bind fun self1 =>
      .ok self1

def genVerifySourceAndTarget (e : Ext Pts A) (source target : Pts) : Except PyExc Unit :=
  if (((e.nDims source) != (e.nDims target))) then
    .error .valueError
  else
    if (((e.nPoints source) != (e.nPoints target))) then
      .error .valueError
    else
      .ok ()

def genInit_Alignment (e : Ext Pts A) (self : Obj Pts A) (source target : Pts) : Except PyExc (Obj Pts A) :=
  ((genVerifySourceAndTarget e source target).map fun _ => self).bind fun self0 =>
    let self1 := { self0 with source := source }
    let self0 := { self1 with target := target }
    .ok self0

def genInit_Homogeneous (e : Ext Pts A) (self : Obj Pts A) (hmatrix : Mat) (copy skipchecks : Bool) : Except PyExc (Obj Pts A) :=
  let self0 := self.setH eye
  (genVirtSetH e self0 hmatrix copy skipchecks).bind fun self1 =>
    .ok self1

def genInit_Affine (e : Ext Pts A) (self : Obj Pts A) (hmatrix : Mat) (copy skipchecks : Bool) : Except PyExc (Obj Pts A) :=
  (genInit_Homogeneous e self hmatrix copy skipchecks).bind fun self0 =>
    .ok self0

def genInit_Similarity (e : Ext Pts A) (self : Obj Pts A) (hmatrix : Mat) (copy skipchecks : Bool) : Except PyExc (Obj Pts A) :=
  (genInit_Affine e self hmatrix copy skipchecks).bind fun self0 =>
    .ok self0

def genInit_Rotation (e : Ext Pts A) (self : Obj Pts A) (rotationmatrix : Mat) (skipchecks : Bool := false) : Except PyExc (Obj Pts A) :=
  let hmatrix0 := eye
  (genInit_Similarity e self hmatrix0 false true).bind fun self0 =>
    (genVirtSetRot e self0 rotationmatrix skipchecks).bind fun self1 =>
      .ok self1

def genInit_Translation (e : Ext Pts A) (self : Obj Pts A) (translation : Nat → Rat) (skipchecks : Bool := false) : Except PyExc (Obj Pts A) :=
  let translation0 := translation
  let hmatrix0 := eye
  let hmatrix1 := setLastCol (e.nDims self.source) translation0 hmatrix0
  (genInit_Similarity e self hmatrix1 false skipchecks).bind fun self0 =>
    .ok self0

def genInit_UniformScale (e : Ext Pts A) (self : Obj Pts A) (scale : Rat) (ndims : Nat) (skipchecks : Bool := false) : Except PyExc (Obj Pts A) :=
  if (!skipchecks) then
    if ((decide (ndims > (3))) || (decide (ndims < (2)))) then
      .error .valueError
    else
      let hmatrix0 := eye
      let hmatrix1 := fillDiag (e.nDims self.source) scale hmatrix0
      let hmatrix0 := setCorner (e.nDims self.source) hmatrix1
      (genInit_Similarity e self hmatrix0 false true).bind fun self0 =>
        .ok self0
  else
    let hmatrix0 := eye
    let hmatrix1 := fillDiag (e.nDims self.source) scale hmatrix0
    let hmatrix0 := setCorner (e.nDims self.source) hmatrix1
    (genInit_Similarity e self hmatrix0 false true).bind fun self0 =>
      .ok self0

def genInit_AlignmentAffine (e : Ext Pts A) (self : Obj Pts A) (source target : Pts) : Except PyExc (Obj Pts A) :=
  (genInit_Alignment e self source target).bind fun self0 =>
    let optimalh0 := (e.affineOf source target)
    (genInit_Affine e self0 optimalh0 false true).bind fun self1 =>
      let self0 := { self1 with target := target }
      .ok self0

def genInit_AlignmentSimilarity (e : Ext Pts A) (self : Obj Pts A) (source target : Pts) (rotation : Bool := true) (allowmirror : Bool := false) : Except PyExc (Obj Pts A) :=
  (genInit_Alignment e self source target).bind fun self0 =>
    let x0 := (⟨e.procrustes rotation allowmirror source target⟩ : Hom)
    (genInit_Similarity e self0 x0.h false true).bind fun self1 =>
      let self0 := { self1 with rotation := some rotation }
      let self1 := { self0 with allowMirror := some allowmirror }
      .ok self1

def genInit_AlignmentRotation (e : Ext Pts A) (self : Obj Pts A) (source target : Pts) (allowmirror : Bool := false) : Except PyExc (Obj Pts A) :=
  (genInit_Alignment e self source target).bind fun self0 =>
    (genInit_Rotation e self0 (e.rotationOf allowmirror source target)).bind fun self1 =>
      let self0 := { self1 with target := target }
      let self1 := { self0 with allowMirror := some allowmirror }
      .ok self1

def genInit_AlignmentTranslation (e : Ext Pts A) (self : Obj Pts A) (source target : Pts) : Except PyExc (Obj Pts A) :=
  (genInit_Alignment e self source target).bind fun self0 =>
    (genInit_Translation e self0 (e.translationOf ((CentreOf.mk source)).c ((CentreOf.mk target)).c)).bind fun self1 =>
      .ok self1

def genInit_AlignmentUniformScale (e : Ext Pts A) (self : Obj Pts A) (source target : Pts) : Except PyExc (Obj Pts A) :=
  (genInit_Alignment e self source target).bind fun self0 =>
    (genInit_UniformScale e self0 (e.scaleOf ((NormOf.mk source)).n ((NormOf.mk target)).n) (e.nDims source)).bind fun self1 =>
      .ok self1

def genInit_ThinPlateSplines (np : Np Pts A) (e : Ext Pts A) (self : Obj Pts A) (source target : Pts) (kernel : Option Nat := none) (minsingularval : Rat := ((1 : Rat) / 10000)) : Except PyExc (Obj Pts A) :=
  (genInit_Alignment e self source target).bind fun self0 =>
    if (((genNDims e self0) != (2))) then
      .error .valueError
    else
      if (kernel).isNone then
        let kernel0 := (some 0)
        let self1 := { self0 with minSV := some minsingularval }
        let self0 := { self1 with kernel := kernel0 }
        let selfk0 := (np.kernel (self0.kernel.getD 0) (np.pts self0.source))
        let selfp0 := (np.hcat (np.ones (genNPoints e self0)) (np.pts self0.source))
        let o0 := (np.zeros (3) (3))
        let topl0 := (np.hcat selfk0 selfp0)
        let botl0 := (np.hcat (np.tr selfp0) o0)
        let self1 := self0.setL (np.vcat topl0 botl0)
        let self0 := self1.setCoef default
        let self1 := genBuildCoefficients np self0
        .ok self1
      else
        let self1 := { self0 with minSV := some minsingularval }
        let self0 := { self1 with kernel := kernel }
        let selfk0 := (np.kernel (self0.kernel.getD 0) (np.pts self0.source))
        let selfp0 := (np.hcat (np.ones (genNPoints e self0)) (np.pts self0.source))
        let o0 := (np.zeros (3) (3))
        let topl0 := (np.hcat selfk0 selfp0)
        let botl0 := (np.hcat (np.tr selfp0) o0)
        let self1 := self0.setL (np.vcat topl0 botl0)
        let self0 := self1.setCoef default
        let self1 := genBuildCoefficients np self0
        .ok self1

def genInit_AbstractPWA (np : Np Pts A) (e : Ext Pts A) (self : Obj Pts A) (source target : Pts) : Except PyExc (Obj Pts A) :=
  if (!(np.isTriMesh source)) then
    let source0 := (np.triMesh source)
    (genInit_Alignment e self source0 target).bind fun self0 =>
      if (((genNDims e self0) != (2))) then
        .error .valueError
      else
        let self1 := genRebuildTargetVectors np self0
        .ok self1
  else
    (genInit_Alignment e self source target).bind fun self0 =>
      if (((genNDims e self0) != (2))) then
        .error .valueError
      else
        let self1 := genRebuildTargetVectors np self0
        .ok self1

def genInit_PythonPWA (np : Np Pts A) (e : Ext Pts A) (self : Obj Pts A) (source target : Pts) : Except PyExc (Obj Pts A) :=
  (genInit_AbstractPWA np e self source target).bind fun self0 =>
    let p0 := (np.bary (np.pts self0.source) self0.source)
    let si0 := p0.1
    let sij0 := p0.2.1
    let sik0 := p0.2.2
    let tup000 := si0
    let tup010 := sij0
    let tup020 := sik0
    let selfs0 := tup000
    let selfsij0 := tup010
    let selfsik0 := tup020
    .ok self0

def genInit_CachedPWA (np : Np Pts A) (e : Ext Pts A) (self : Obj Pts A) (source target : Pts) : Except PyExc (Obj Pts A) :=
  (genInit_PythonPWA np e self source target).bind fun self0 =>
    .ok self0

def genNew_AlignmentSimilarity (e : Ext Pts A) (source target : Pts) (rotation : Bool := true) (allowmirror : Bool := false) : Except PyExc (Obj Pts A) :=
  genInit_AlignmentSimilarity e (blank .similarity source target) source target rotation allowmirror

def genBuild (np : Np Pts A) (e : Ext Pts A) (c : Cls) (op : Opts) (s t : Pts) : Except PyExc (Obj Pts A) :=
  match c with
  | .affine => genInit_AlignmentAffine e (blank .affine s t) s t
  | .similarity => genInit_AlignmentSimilarity e (blank .similarity s t) s t op.rotation op.allowMirror
  | .rotation => genInit_AlignmentRotation e (blank .rotation s t) s t op.allowMirror
  | .translation => genInit_AlignmentTranslation e (blank .translation s t) s t
  | .uniformScale => genInit_AlignmentUniformScale e (blank .uniformScale s t) s t
  | .tps => genInit_ThinPlateSplines np e (blank .tps s t) s t (if op.kernel = 0 then none else some op.kernel) op.minSV
  | .pwa => genInit_CachedPWA np e (blank .pwa s t) s t

def genDefaultOpts : Opts :=
  { rotation := true, allowMirror := false, kernel := 0, minSV := ((1 : Rat) / 10000) }

def genCopy (self : Obj Pts A) : Obj Pts A :=
  let new0 := (blank ((ClsOf.mk self)).o.cls ((ClsOf.mk self)).o.source ((ClsOf.mk self)).o.target : Obj Pts A)
  let new1 := self
  let new0 := new1.setH ((Owned.mk new1.h)).m
  new0

def genPseudoinverse (inv : Mat → Mat) (self : Obj Pts A) : Obj Pts A :=
  let selfcopy0 := (genCopy self)
  let selfcopy1 := selfcopy0.setH ((Owned.mk (inv self.h))).m
  let tup000 := selfcopy1.target
  let tup010 := selfcopy1.source
  let selfcopy0 := { selfcopy1 with source := tup000 }
  let selfcopy1 := { selfcopy0 with target := tup010 }
  selfcopy1

def genPseudoinverse_ThinPlateSplines (np : Np Pts A) (e : Ext Pts A) (self : Obj Pts A) : Except PyExc (Obj Pts A) :=
  let kernel0 := ((KernelCls.mk self.kernel)).kind
  (genInit_ThinPlateSplines np e (blank .tps self.target self.source) self.target self.source kernel0 (self.minSV.getD genDefault_tps_min_singular_val))

def genFromVector_Translation (e : Ext Pts A) (self : Obj Pts A) (p : Nat → Rat) : Obj Pts A :=
  let self0 := self.setH (setLastCol (e.nDims self.source) p self.h)
  self0

def genFromVector_UniformScale (e : Ext Pts A) (self : Obj Pts A) (p : Rat) : Except PyExc (Obj Pts A) :=
  if (((1) != (1))) then
    .error .valueError
  else
    let self0 := self.setH (fillDiag (e.nDims self.source) p self.h)
    let self1 := self0.setH (setCorner (e.nDims self0.source) self0.h)
    .ok self1

def genFromVector_AlignmentSimilarity (e : Ext Pts A) (self : Obj Pts A) (p : Mat) : Except PyExc (Obj Pts A) :=
  let self0 := self.setH p
  (genSyncTargetFromState e self0).bind fun self1 =>
    .ok self1

def genFromVector_AlignmentTranslation (e : Ext Pts A) (self : Obj Pts A) (p : Nat → Rat) : Except PyExc (Obj Pts A) :=
  let self0 := genFromVector_Translation e self p
  (genSyncTargetFromState e self0).bind fun self1 =>
    .ok self1

def genFromVector_AlignmentUniformScale (e : Ext Pts A) (self : Obj Pts A) (p : Rat) : Except PyExc (Obj Pts A) :=
  (genFromVector_UniformScale e self p).bind fun self0 =>
    (genSyncTargetFromState e self0).bind fun self1 =>
      .ok self1

def genCompose_before (e : Ext Pts A) (self : Obj Pts A) (transform : Hom) : Except PyExc (Obj Pts A) :=
  (genVirtSetH e self (mulMat (e.nDims self.source) transform.h self.h) false true).bind fun self0 =>
    .ok self0

def genCompose_after (e : Ext Pts A) (self : Obj Pts A) (transform : Hom) : Except PyExc (Obj Pts A) :=
  (genVirtSetH e self (mulMat (e.nDims self.source) self.h transform.h) false true).bind fun self0 =>
    .ok self0

def genProcrustesAlignment (pk : ProcK Pts) (nDims : Pts → Nat) (source target : Pts) (rotation : Bool := true) (allowmirror : Bool := false) : Mat :=
  let tgtt0 := (pk.negCentre target)
  let srct0 := (pk.negCentre source)
  let srcs0 := (pk.scale ((RatioOf.mk ((NormOf.mk source)).n ((NormOf.mk target)).n)).src ((RatioOf.mk ((NormOf.mk source)).n ((NormOf.mk target)).n)).tgt (nDims source))
  let p0 := (pk.identity (nDims source))
  let p1 := pk.before p0 srct0
  let p0 := pk.before p1 srcs0
  if rotation then
    let alignedsrc0 := ((p0, source) : Mat × Pts)
    let alignedtgt0 := ((tgtt0, target) : Mat × Pts)
    let r0 := (pk.rotation (pk.optimalRotation allowmirror (alignedsrc0).1 (alignedtgt0).1 (alignedsrc0).2 (alignedtgt0).2))
    let p1 := pk.before p0 r0
    let p0 := pk.before p1 (pk.pinv tgtt0)
    p0
  else
    let p1 := pk.before p0 (pk.pinv tgtt0)
    p1

def genInit_MultipleAlignment (e : Ext Pts A) (gk : GpaK Pts S) (self : PyGpa Pts A S) (sources : List Pts) : Option Pts → Except PyExc (PyGpa Pts A S)
  | none =>
    if ((decide ((sources).length < (2))) && true) then
      .error .valueError
    else
      let self0 := { self with nSources := (sources).length }
      ((pyIndex sources 0)).bind fun tmp1 =>
      let tup000 := (e.nPoints tmp1)
      ((pyIndex sources 0)).bind fun tmp2 =>
      let tup010 := (e.nDims tmp2)
      let self1 := { self0 with nPoints := tup000 }
      let self0 := { self1 with nDims := tup010 }
      let self1 := { self0 with sources := sources }
      let self0 := { self1 with target := (gk.meanOf self1.sources) }
      .ok self0
  | some target =>
    if ((decide ((sources).length < (2))) && false) then
      .error .valueError
    else
      let self0 := { self with nSources := (sources).length }
      ((pyIndex sources 0)).bind fun tmp1 =>
      let tup000 := (e.nPoints tmp1)
      ((pyIndex sources 0)).bind fun tmp2 =>
      let tup010 := (e.nDims tmp2)
      let self1 := { self0 with nPoints := tup000 }
      let self0 := { self1 with nDims := tup010 }
      let self1 := { self0 with sources := sources }
      if (self1.nDims != 0) then
        let self0 := { self1 with target := target }
        .ok self0
      else
        .error .assertionError

def genRecursiveProcrustes (np : Np Pts A) (e : Ext Pts A) (gk : GpaK Pts S) : Nat → PyGpa Pts A S → Except PyExc (PyGpa Pts A S × Bool)
  | 0, _ => .error .recursionError
  | fuel + 1, self =>
    if (decide (self.nIterations > self.maxIterations)) then
      .ok (self, false)
    else
      let newtgt0 := (gk.meanOf (List.map (fun it0 => let t0 := it0; (genAlignedSource e t0)) self.transforms))
      let rescale0 := (gk.scaleAbout newtgt0 (gk.ratio self.initialTargetScale (gk.norm newtgt0)))
      let newtgt1 := rescale0 newtgt0
      let deltatarget0 := (gk.dist self.target newtgt1)
      if (gk.below deltatarget0) then
        .ok (self, true)
      else
        let self0 := { self with nIterations := (self.nIterations + (1)) }
        (mapExcept (fun t0 =>
            (genSetTarget np e t0 newtgt1).bind fun t1 =>
              .ok t1) self0.transforms).bind fun ts0 =>
          let self1 := { self0 with transforms := ts0 }
          let self0 := { self1 with target := newtgt1 }
          (genRecursiveProcrustes np e gk fuel self0)

def genInit_GeneralizedProcrustesAnalysis (np : Np Pts A) (e : Ext Pts A) (gk : GpaK Pts S) (self : PyGpa Pts A S) (sources : List Pts) (allowmirror : Bool := false) : Option Pts → Except PyExc (PyGpa Pts A S)
  | none =>
    (genInit_MultipleAlignment e gk self sources none).bind fun self0 =>
      let initialtarget0 := self0.target
      (mapExcept (fun it0 => let source0 := it0; (genNew_AlignmentSimilarity e source0 self0.target (allowmirror := allowmirror))) self0.sources).bind fun tmp0 =>
      let self1 := { self0 with transforms := tmp0 }
      let self0 := { self1 with initialTargetScale := (gk.norm self1.target) }
      let self1 := { self0 with nIterations := (1) }
      let self0 := { self1 with maxIterations := (100) }
      ((genRecursiveProcrustes np e gk pyRecursionLimit self0).map fun p => { p.1 with converged := p.2 }).bind fun self1 =>
        .ok self1
  | some target =>
    (genInit_MultipleAlignment e gk self sources (some target)).bind fun self0 =>
      let initialtarget0 := self0.target
      (mapExcept (fun it0 => let source0 := it0; (genNew_AlignmentSimilarity e source0 self0.target (allowmirror := allowmirror))) self0.sources).bind fun tmp0 =>
      let self1 := { self0 with transforms := tmp0 }
      let self0 := { self1 with initialTargetScale := (gk.norm self1.target) }
      let self1 := { self0 with nIterations := (1) }
      let self0 := { self1 with maxIterations := (100) }
      ((genRecursiveProcrustes np e gk pyRecursionLimit self0).map fun p => { p.1 with converged := p.2 }).bind fun self1 =>
        let self0 := { self1 with target := initialtarget0 }
        .ok self0


end MenpoModel.Generated.C08
