/- TRANSLATED by harness/trans_c03.py (harness/py2lean.py) from the SOURCE TEXT of the entry points of the
   composition machinery of the current working tree (Transform / ComposableTransform / TransformChain /
   Homogeneous compose_*, _compose_*, _set_h_matrix, as_non_alignment, from_vector, Affine.decompose, Scale) on
   every run of `./check C03`; do not edit.  The lists `…Bodies` name the translated body of each class the
   live method table names as a supplier.  GenProps/C03Entry.lean proves the entry points equal to the model. -/
import MenpoModel.Core.C03Entry
import MenpoModel.Core.PyLoop
import MenpoModel.Generated.C03Ladder
set_option linter.unusedVariables false

namespace MenpoModel.Generated.C03
open MenpoModel.C03

variable {d : Nat}

def genSetH_Homogeneous (self : HT d) (value : Mat (d + 1)) : HT d :=
  let self0 := (⟨self.cls, value⟩ : HT d)
  self0

def genSetH_Affine (self : HT d) (value : Mat (d + 1)) : HT d :=
  let self0 := (⟨self.cls, value⟩ : HT d)
  self0

def genSetH_AlignmentAffine (self : HT d) (value : Mat (d + 1)) : HT d :=
  let self0 := genSetH_Affine self value
  let self1 := self0
  self1

def setHBodies : List (Sup × (HT d → Mat (d + 1) → HT d)) :=
  [(.Homogeneous, genSetH_Homogeneous), (.Affine, genSetH_Affine), (.AlignmentAffine, genSetH_AlignmentAffine)]

def genHomogInplace (mt : MethodTable) : Dir → HT d → HT d → Option (HT d)
  | .before, self, transform =>
      ((callMeth mt ._set_h_matrix (.fam self.cls) setHBodies).map fun f => f self (Mat.mul transform.M self.M)).bind fun self0 =>
        some self0
  | .after, self, transform =>
      ((callMeth mt ._set_h_matrix (.fam self.cls) setHBodies).map fun f => f self (Mat.mul self.M transform.M)).bind fun self0 =>
        some self0

def genChainInplace : Dir → List Nat → Nat → List Nat
  | .before, self, transform =>
      let self0 := (self ++ [transform])
      self0
  | .after, self, transform =>
      let self0 := (transform :: self)
      self0

def inplaceBodies (mt : MethodTable) (dir : Dir) : List (Sup × (Obj → Obj → Except Err Cell)) :=
  [(.Homogeneous, onFam (genHomogInplace mt dir)), (.TransformChain, onChain (genChainInplace dir))]

def genChainApply (g : Nat → Pt → Option Pt) (self : List Nat) (x : Pt) : Option Pt :=
  (List.foldl (fun xi0 tr0 => ((xi0).bind (g tr0))) (some x) self)

def genNaiveCompose (mt : MethodTable) : Dir → Obj → Obj → Except Err Cell
  | .before, self, transform =>
      let selfcopy0 := self.copied
      ((callObj mt ._compose_before_inplace (inplaceBodies mt .before) selfcopy0 transform).map selfcopy0.withCell).bind fun selfcopy1 =>
        selfcopy1.fresh.map (·.cell)
  | .after, self, transform =>
      let selfcopy0 := self.copied
      ((callObj mt ._compose_after_inplace (inplaceBodies mt .after) selfcopy0 transform).map selfcopy0.withCell).bind fun selfcopy1 =>
        selfcopy1.fresh.map (·.cell)

def genTransformCompose : Dir → Obj → Obj → Except Err Cell
  | .before, self, transform =>
      mkChain [self.ref, transform.ref]
  | .after, self, transform =>
      mkChain [transform.ref, self.ref]

def composeBodies (tbl : ClassTable) (mt : MethodTable) (dir : Dir) : List (Sup × (Obj → Obj → Except Err Cell)) :=
  [(.Homogeneous, onFam (genLadder tbl ladderFuel dir)), (.ComposableTransform, genNaiveCompose mt dir)]

def genEntryCompose (tbl : ClassTable) (mt : MethodTable) : Dir → Obj → Obj → Except Err Cell
  | .before, self, transform =>
      if gateCompose tbl self.cell transform.cell then
        callObj mt ._compose_before (composeBodies tbl mt .before) self transform
      else
        genTransformCompose .before self transform
  | .after, self, transform =>
      if gateCompose tbl self.cell transform.cell then
        callObj mt ._compose_after (composeBodies tbl mt .after) self transform
      else
        genTransformCompose .after self transform

def genEntryInplace (tbl : ClassTable) (mt : MethodTable) : Dir → Obj → Obj → Except Err Cell
  | .before, self, transform =>
      if gateInplace tbl self.cell transform.cell then
        ((callObj mt ._compose_before_inplace (inplaceBodies mt .before) self transform).map self.withCell).bind fun self0 =>
          .ok self0.cell
      else
        .error .rejected
  | .after, self, transform =>
      if gateInplace tbl self.cell transform.cell then
        ((callObj mt ._compose_after_inplace (inplaceBodies mt .after) self transform).map self.withCell).bind fun self0 =>
          .ok self0.cell
      else
        .error .rejected

def genANA_AlignmentAffine (self : HT d) : HT d :=
  (⟨.Affine, self.M⟩ : HT d)

def genANA_AlignmentSimilarity (self : HT d) : HT d :=
  (⟨.Similarity, self.M⟩ : HT d)

def genANA_AlignmentRotation (self : HT d) : HT d :=
  (⟨.Rotation, mkAffine (lin self.M) (zeroVec d)⟩ : HT d)

def genANA_AlignmentTranslation (self : HT d) : HT d :=
  (⟨.Translation, mkAffine (Mat.one d) (trans self.M)⟩ : HT d)

def genANA_AlignmentUniformScale (self : HT d) : HT d :=
  (⟨.UniformScale, mkAffine (scalarMat d (self.M 0 0)) (zeroVec d)⟩ : HT d)

def anaBodies : List (Sup × (HT d → HT d)) :=
  [(.AlignmentAffine, genANA_AlignmentAffine), (.AlignmentSimilarity, genANA_AlignmentSimilarity), (.AlignmentRotation, genANA_AlignmentRotation), (.AlignmentTranslation, genANA_AlignmentTranslation), (.AlignmentUniformScale, genANA_AlignmentUniformScale)]

def genFromVector (self : Obj) (vector : List Rat) : Except Err Obj :=
  let selfcopy0 := self.copied
  (famFromVec selfcopy0 vector).bind fun selfcopy1 =>
    selfcopy1.fresh

def genFromVectorEntry (tbl : ClassTable) (mt : MethodTable) (self : Obj) (vector : List Rat) : Except Err Cell :=
  (match callMeth mt .from_vector self.cell.kls [(Sup.Homogeneous, genFromVector)] with | some f => f self vector | none => .error .noMethod).bind fun tmp0 =>
  ((callObj mt .compose_after_inplace [(.ComposableTransform, genEntryInplace tbl mt .after)] self tmp0).map self.withCell).bind fun self0 =>
    .ok self0.cell

def genScale (scalefactor : Vec d) (uniform : Bool) : Except Err (HT d) :=
  let scalefactor0 := scalefactor
  if (!vecAllNonzero scalefactor0) then
    .error .rejected
  else
    if uniform then
      .ok (⟨.UniformScale, mkAffine (scalarMat d scalefactor0.head) (zeroVec d)⟩ : HT d)
    else
      .ok (⟨.NonUniformScale, mkAffine (diagMat scalefactor0) (zeroVec d)⟩ : HT d)

def genDecompose (self : HT d) (U V : Mat d) (S : Vec d) (uniform : Bool) : Except Err (List Leaf) :=
  let rotation20 := (⟨.Rotation, mkAffine U (zeroVec d)⟩ : HT d)
  let rotation10 := (⟨.Rotation, mkAffine V (zeroVec d)⟩ : HT d)
  (genScale S uniform).bind fun scale0 =>
    let translation0 := (⟨.Translation, mkAffine (Mat.one d) (trans self.M)⟩ : HT d)
    .ok [Leaf.fam d rotation10, Leaf.fam d scale0, Leaf.fam d rotation20, Leaf.fam d translation0]

def genDecomposeDiscrete (self : HT d) : Except Err (List Leaf) :=
  .ok [Leaf.fam d self]

end MenpoModel.Generated.C03
