/- TRANSLATED by harness/trans_c13.py (harness/py2lean2.py) from the SOURCE TEXT of menpo/image/base.py,
   menpo/image/patches.py, menpo/image/masked.py, menpo/image/boolean.py and menpo/shape/pointcloud.py of the current
   working tree on every run of `./check C13`; do not edit.  GenProps/C13Src.lean proves every definition equal to the
   Core definition the C13 theorems are about. -/
import MenpoModel.Core.C13Src

set_option linter.unusedVariables false

namespace MenpoModel.C13.Generated
open MenpoModel.C13 MenpoModel.C13.Src

def genConstrainPointsToBounds {α : Type} (pix : NDArr α) (points : List Int) : List Int :=
  let boundedpoints0 := points
  let boundedpoints1 := (V.maskFill boundedpoints0 (V.ltZero boundedpoints0) 0)
  let shape0 := (V.ofNat (Img.shape pix))
  let overimage0 := (V.ltZero (V.sub shape0 boundedpoints1))
  let boundedpoints0 := (V.maskAssign boundedpoints1 overimage0 shape0)
  boundedpoints0

def genCrop {α : Type} (pix : NDArr α) (lms : List (List Rat)) (zero : α) (minindices maxindices : List Rat)
    (constraintoboundary returntransform : Bool) : Except Err (Img α) :=
  let minindices0 := (V.floor minindices)
  let maxindices0 := (V.ceil maxindices)
  if (!(((List.length minindices0) == (List.length maxindices0)) && ((List.length maxindices0) == (Img.nDims pix)))) then
    .error .value
  else
    if (!(V.allGt maxindices0 minindices0)) then
      .error .value
    else
      let minbounded0 := (Src.constrainPointsToBounds pix minindices0)
      let maxbounded0 := (Src.constrainPointsToBounds pix maxindices0)
      let allminbounded0 := (V.allEq minbounded0 minindices0)
      let allmaxbounded0 := (V.allEq maxbounded0 maxindices0)
      if (!(constraintoboundary || (allminbounded0 && allmaxbounded0))) then
        .error .boundary
      else
        let newshape0 := (V.sub maxbounded0 minbounded0)
        let result0 := (Img.warpTranslate0 zero pix lms newshape0 minbounded0)
        if returntransform then
          let block0 := (List.map (fun it0 => let p0 := it0; let lo0 := p0.1; let hi0 := p0.2; ((lo0 : Int), (hi0 : Int))) (List.zip (V.asInt minbounded0) (V.asInt maxbounded0)))
          (Img.assignAll result0 (Img.block zero pix block0)).bind fun cropped0 =>
            .ok (cropped0)
        else
          let block0 := (List.map (fun it0 => let p0 := it0; let lo0 := p0.1; let hi0 := p0.2; ((lo0 : Int), (hi0 : Int))) (List.zip (V.asInt minbounded0) (V.asInt maxbounded0)))
          (Img.assignAll result0 (Img.block zero pix block0)).bind fun cropped0 =>
            .ok (cropped0)

def genPcBounds (pts : List (List Rat)) (boundary : Rat) : Except Err (List Rat × List Rat) :=
  (Pc.colMin pts).bind fun h_0 =>
  let minb0 := (h_0 - boundary)
  (Pc.colMax pts).bind fun h_1 =>
  let maxb0 := (h_1 + boundary)
  .ok ((minb0, maxb0))

def genPcRange (pts : List (List Rat)) (boundary : Rat) : Except Err (List Rat) :=
  (Src.pcBounds pts boundary).bind fun t0 =>
    let p0 := t0
    let minb0 := p0.1
    let maxb0 := p0.2
    .ok ((maxb0 - minb0))

def genCropToPointcloud {α : Type} (pix : NDArr α) (lms : List (List Rat)) (zero : α) (pointcloud : List (List Rat)) (boundary : Rat)
    (constraintoboundary returntransform : Bool) : Except Err (Img α) :=
  (Src.pcBounds pointcloud boundary).bind fun t0 =>
    let p0 := t0
    let minindices0 := p0.1
    let maxindices0 := p0.2
    Src.crop pix lms zero minindices0 maxindices0 constraintoboundary returntransform

def genCropToLandmarks {α : Type} (pix : NDArr α) (lms : List (List Rat)) (zero : α) (boundary : Rat)
    (constraintoboundary returntransform : Bool) : Except Err (Img α) :=
  let pc0 := lms
  Src.cropToPointcloud pix lms zero pc0 boundary constraintoboundary returntransform

def genCropToPointcloudProportion {α : Type} (pix : NDArr α) (lms : List (List Rat)) (zero : α) (pointcloud : List (List Rat)) (boundaryproportion : Rat)
    (minimum constraintoboundary returntransform : Bool) : Except Err (Img α) :=
  if minimum then
    (Src.pcRange pointcloud 0).bind fun h_0 =>
    (V.minE h_0).bind fun h_1 =>
    let boundary0 := (boundaryproportion * h_1)
    Src.cropToPointcloud pix lms zero pointcloud boundary0 constraintoboundary returntransform
  else
    (Src.pcRange pointcloud 0).bind fun h_2 =>
    (V.maxE h_2).bind fun h_3 =>
    let boundary0 := (boundaryproportion * h_3)
    Src.cropToPointcloud pix lms zero pointcloud boundary0 constraintoboundary returntransform

def genCropToLandmarksProportion {α : Type} (pix : NDArr α) (lms : List (List Rat)) (zero : α) (boundaryproportion : Rat)
    (minimum constraintoboundary returntransform : Bool) : Except Err (Img α) :=
  let pc0 := lms
  Src.cropToPointcloudProportion pix lms zero pc0 boundaryproportion minimum constraintoboundary returntransform

def genTrueIndices (mask : NDArr Bool) : List (List Nat) :=
  if (Mask.allTrue mask) then
    (Mask.allIndices mask)
  else
    (Mask.nonzeroIndices mask)

def genBoundsTrue (mask : NDArr Bool) (boundary : Int) (constraintobounds : Bool) : Except Err (List Int × List Int) :=
  let mpi0 := (Src.trueIndices mask)
  (Pc.colMaxZ mpi0).bind fun h_0 =>
  let maxes0 := (h_0 + boundary)
  (Pc.colMinZ mpi0).bind fun h_1 =>
  let mins0 := (h_1 - boundary)
  if constraintobounds then
    let maxes1 := (Src.constrainPointsToBounds mask maxes0)
    let mins1 := (Src.constrainPointsToBounds mask mins0)
    .ok ((mins1, maxes1))
  else
    .ok ((mins0, maxes0))

def genCropToTrueMask {α : Type} (pix : NDArr α) (lms : List (List Rat)) (zero : α) (mask : NDArr Bool) (boundary : Int)
    (constraintoboundary returntransform : Bool) : Except Err (Img α) :=
  (Src.boundsTrue mask boundary false).bind fun t0 =>
    let p0 := t0
    let minindices0 := p0.1
    let maxindices0 := p0.2
    Src.crop pix lms zero (V.toRat minindices0) (V.toRat maxindices0) constraintoboundary returntransform

def genCenteredPatch (patchshape : Nat × Nat) : Except Err (List Pt) :=
  if (((Np.len2 patchshape) == (2))) then
    let halfpixel0 := (Np.halfPixel patchshape)
    let patch0 := (Np.meshgridIJ (Np.linspaceOpen (-(Np.tdiv patchshape.1 (2))) (Np.tdiv patchshape.1 (2)) patchshape.1) (Np.linspaceOpen (-(Np.tdiv patchshape.2 (2))) (Np.tdiv patchshape.2 (2)) patchshape.2))
    let patch1 := (Np.stackPoints patch0)
    .ok ((patch1 + halfpixel0))
  else
    .error .value

def genExtractPatchesBySampling {α : Type} (pixels : NDArr α) (patchcenters : List Pt) (patchshape : Nat × Nat) (offsets : Option (List Pt))
    (sampler : Nat → Mode → Nat → Pt → α) (order : Nat) (mode : Mode) (cval : α) : Except Err (NDArr α) :=
  if (((Np.ndim pixels) != (3))) then
    .error .value
  else
    let npoints0 := (Np.len0 patchcenters)
    let noffsets0 := (1)
    (Src.centeredPatch patchshape).bind fun patch0 =>
      let pointstosample0 := (Np.outerAdd patch0 patchcenters)
      if (!offsets.isNone) then
        let noffsets1 := (Np.len0 offsets)
        let pointstosample1 := (Np.outerAdd3 pointstosample0 offsets)
        let pointstosample0 := (Np.flatPoints pointstosample1)
        let patches0 := (Np.sampleAll (sampler order mode) pixels pointstosample0)
        (Np.reshapeE patches0 [(Np.len0 pixels), patchshape.1, patchshape.2, npoints0, noffsets1]).bind fun patches1 =>
          let patches0 := (Np.transpose34012 cval patches1)
          .ok (patches0)
      else
        let pointstosample1 := (Np.flatPoints pointstosample0)
        let patches0 := (Np.sampleAll (sampler order mode) pixels pointstosample1)
        (Np.reshapeE patches0 [(Np.len0 pixels), patchshape.1, patchshape.2, npoints0, noffsets0]).bind fun patches1 =>
          let patches0 := (Np.transpose34012 cval patches1)
          .ok (patches0)

def genExtractPatchesWithSlice {α : Type} (pixels : NDArr α) (patchcenters : List Pt) (patchshape : Nat × Nat) (offsets : Option (List Pt)) (cval : α) : Except Err (NDArr α) :=
  if (((Np.ndim pixels) != (3))) then
    .error .value
  else
    let noffsets0 := (if (!offsets.isNone) then (Np.len0 offsets) else (1))
    let p0 := ((Np.tdiv patchshape.1 (2)), (Np.tdiv patchshape.2 (2)))
    let halfr0 := p0.1
    let halfc0 := p0.2
    let corners0 := (((-halfr0), (-halfc0)), (halfr0, halfc0))
    if (offsets.isNone) then
      let offsets0 := (some [((0 : Rat), (0 : Rat))])
      let patches0 := (Except.ok (full [(Np.len0 patchcenters), noffsets0, (Np.len0 pixels), patchshape.1, patchshape.2] cval))
      let halfpixel0 := (Np.halfPixel patchshape)
      let patchcenters0 := (patchcenters + halfpixel0)
      let bounds0 := (Np.roundBounds (Np.cornerGrid patchcenters0 offsets0 corners0))
      let bounds1 := (Np.highFromLow bounds0 patchshape)
      let pixelbounds0 := (Np.clipBounds bounds1 (Np.spatial pixels))
      let patchbounds0 := (pixelbounds0 - bounds1)
      let r0 := MenpoModel.Py.forLoop patches0 ((Np.iter (Np.enumerate (List.zip (Np.iter pixelbounds0) (Np.iter patchbounds0))))) (fun acc0 it0 =>
          let patches1 := acc0
          let p1 := it0
          let i0 := p1.1
          let p2 := p1.2
          let pixoff0 := p2.1
          let patchoff0 := p2.2
          let r0 := MenpoModel.Py.forLoop patches1 ((Np.iter (Np.enumerate (List.zip (Np.iter pixoff0) (Np.iter patchoff0))))) (fun acc1 it1 =>
              let patches0 := acc1
              let p3 := it1
              let j0 := p3.1
              let p4 := p3.2
              let pixb0 := p4.1
              let patchb0 := p4.2
              let pixslice0 := (((pixb0.1.1 : Int), (pixb0.2.1 : Int)), ((pixb0.1.2 : Int), (pixb0.2.2 : Int)))
              let patchslice0 := (((patchb0.1.1 : Int), ((patchshape.1 + patchb0.2.1) : Int)), ((patchb0.1.2 : Int), ((patchshape.2 + patchb0.2.2) : Int)))
              let patches1 := (Np.assignPatch cval patches0 i0 j0 patchslice0.1 patchslice0.2 pixels pixslice0.1 pixslice0.2)
              patches1)
          let patches0 := r0
          patches0)
      let patches1 := r0
      patches1
    else
      let patches0 := (Except.ok (full [(Np.len0 patchcenters), noffsets0, (Np.len0 pixels), patchshape.1, patchshape.2] cval))
      let halfpixel0 := (Np.halfPixel patchshape)
      let patchcenters0 := (patchcenters + halfpixel0)
      let bounds0 := (Np.roundBounds (Np.cornerGrid patchcenters0 offsets corners0))
      let bounds1 := (Np.highFromLow bounds0 patchshape)
      let pixelbounds0 := (Np.clipBounds bounds1 (Np.spatial pixels))
      let patchbounds0 := (pixelbounds0 - bounds1)
      let r0 := MenpoModel.Py.forLoop patches0 ((Np.iter (Np.enumerate (List.zip (Np.iter pixelbounds0) (Np.iter patchbounds0))))) (fun acc0 it0 =>
          let patches1 := acc0
          let p1 := it0
          let i0 := p1.1
          let p2 := p1.2
          let pixoff0 := p2.1
          let patchoff0 := p2.2
          let r0 := MenpoModel.Py.forLoop patches1 ((Np.iter (Np.enumerate (List.zip (Np.iter pixoff0) (Np.iter patchoff0))))) (fun acc1 it1 =>
              let patches0 := acc1
              let p3 := it1
              let j0 := p3.1
              let p4 := p3.2
              let pixb0 := p4.1
              let patchb0 := p4.2
              let pixslice0 := (((pixb0.1.1 : Int), (pixb0.2.1 : Int)), ((pixb0.1.2 : Int), (pixb0.2.2 : Int)))
              let patchslice0 := (((patchb0.1.1 : Int), ((patchshape.1 + patchb0.2.1) : Int)), ((patchb0.1.2 : Int), ((patchshape.2 + patchb0.2.2) : Int)))
              let patches1 := (Np.assignPatch cval patches0 i0 j0 patchslice0.1 patchslice0.2 pixels pixslice0.1 pixslice0.2)
              patches1)
          let patches0 := r0
          patches0)
      let patches1 := r0
      patches1

def genSetPatches {α : Type} (dflt : α) (patches : NDArr α) (pixels : Except Err (NDArr α)) (patchcenters : List Pt)
    (offset : Int × Int) (offsetindex : Nat) : Except Err (NDArr α) :=
  if (((Np.ndimE pixels) != (3))) then
    .error .value
  else
    let patchshape0 := (Np.last2 patches)
    let p0 := ((Np.pyInt (Np.fdiv patchshape0.1 (2))), (Np.pyInt (Np.fdiv patchshape0.2 (2))))
    let lr0 := p0.1
    let lc0 := p0.2
    let p1 := ((Np.pyInt (lr0 + (Np.pmod patchshape0.1 (2)))), (Np.pyInt (lc0 + (Np.pmod patchshape0.2 (2)))))
    let hr0 := p1.1
    let hc0 := p1.2
    let r0 := MenpoModel.Py.forLoop pixels ((Np.iter (List.zip (Np.iter patches) (Np.iter patchcenters)))) (fun acc0 it0 =>
        let pixels0 := acc0
        let p2 := it0
        let patcheswithoffsets0 := p2.1
        let point0 := p2.2
        let patch0 := (Np.viewAt patcheswithoffsets0 offsetindex)
        let p3 := (Np.roundPt (point0 + (Np.toPt offset)))
        let pr0 := (Np.pyInt p3.1)
        let pc0 := (Np.pyInt p3.2)
        let pixels1 := (Np.assignWindow dflt pixels0 (((pr0 - lr0) : Int), ((pr0 + hr0) : Int)) (((pc0 - lc0) : Int), ((pc0 + hc0) : Int)) patch0)
        pixels1)
    let pixels0 := r0
    pixels0

def genExtractPatches {α : Type} (pix : NDArr α) (sampler : Nat → Mode → Nat → Pt → α) (patchcenters : List Pt) (patchshape : Nat × Nat)
    (sampleoffsets : Option (List Pt)) (assinglearray : Bool) (order : Nat) (mode : Mode) (cval : α) : Except Err (PatchesOut α) :=
  if (((Img.nDims pix) != (2))) then
    .error .value
  else
    if (((order == (0))) && ((mode == Mode.constant))) then
      (Src.extractPatchesWithSlice pix patchcenters patchshape sampleoffsets cval).bind fun singlearray0 =>
        if assinglearray then
          .ok (PatchesOut.of singlearray0)
        else
          .ok (PatchesOut.of (List.flatMap (fun it0 => let p0 := it0; (List.flatMap (fun it1 => let o0 := it1; [o0]) (Np.iter p0))) (Np.iter singlearray0)))
    else
      (Src.extractPatchesBySampling pix patchcenters patchshape sampleoffsets sampler order mode cval).bind fun singlearray0 =>
        if assinglearray then
          .ok (PatchesOut.of singlearray0)
        else
          .ok (PatchesOut.of (List.flatMap (fun it0 => let p0 := it0; (List.flatMap (fun it1 => let o0 := it1; [o0]) (Np.iter p0))) (Np.iter singlearray0)))

def genExtractPatchesAroundLandmarks {α : Type} (pix : NDArr α) (sampler : Nat → Mode → Nat → Pt → α) (lms : List Pt) (zero : α) (patchshape : Nat × Nat)
    (sampleoffsets : Option (List Pt)) (assinglearray : Bool) : Except Err (PatchesOut α) :=
  Src.extractPatches pix sampler lms patchshape sampleoffsets assinglearray 0 Mode.constant zero

def genSetPatchesApi {α : Type} (dflt : α) (pix : NDArr α) (patches : PatchArg α) (patchcenters : List Pt)
    (offset : Option OffArg) (offsetindex : Option Nat) : Except Err (NDArr α) :=
  if (((Img.nDims pix) != (2))) then
    .error .value
  else
    if (offset.isNone) then
      let offset0 := (some (OffArg.arr [1, 2] [0, 0]))
      let offset1 := offset0
      if (!(OffArg.shapeIs12 offset1)) then
        .error .value
      else
        if (offsetindex.isNone) then
          let offsetindex0 := (some 0)
          if (PatchArg.isList patches) then
            (PatchArg.convert dflt patches (List.length patchcenters)).bind fun patches0 =>
              let copy0 := pix
              (PatchArg.setInto dflt patches0 copy0 patchcenters offset1 offsetindex0).bind fun copy1 =>
                .ok (copy1)
          else
            let copy0 := pix
            (PatchArg.setInto dflt patches copy0 patchcenters offset1 offsetindex0).bind fun copy1 =>
              .ok (copy1)
        else
          if (PatchArg.isList patches) then
            (PatchArg.convert dflt patches (List.length patchcenters)).bind fun patches0 =>
              let copy0 := pix
              (PatchArg.setInto dflt patches0 copy0 patchcenters offset1 offsetindex).bind fun copy1 =>
                .ok (copy1)
          else
            let copy0 := pix
            (PatchArg.setInto dflt patches copy0 patchcenters offset1 offsetindex).bind fun copy1 =>
              .ok (copy1)
    else
      if ((OffArg.isTuple offset) || (OffArg.isList offset)) then
        let offset0 := (OffArg.asRow offset)
        let offset1 := offset0
        if (!(OffArg.shapeIs12 offset1)) then
          .error .value
        else
          if (offsetindex.isNone) then
            let offsetindex0 := (some 0)
            if (PatchArg.isList patches) then
              (PatchArg.convert dflt patches (List.length patchcenters)).bind fun patches0 =>
                let copy0 := pix
                (PatchArg.setInto dflt patches0 copy0 patchcenters offset1 offsetindex0).bind fun copy1 =>
                  .ok (copy1)
            else
              let copy0 := pix
              (PatchArg.setInto dflt patches copy0 patchcenters offset1 offsetindex0).bind fun copy1 =>
                .ok (copy1)
          else
            if (PatchArg.isList patches) then
              (PatchArg.convert dflt patches (List.length patchcenters)).bind fun patches0 =>
                let copy0 := pix
                (PatchArg.setInto dflt patches0 copy0 patchcenters offset1 offsetindex).bind fun copy1 =>
                  .ok (copy1)
            else
              let copy0 := pix
              (PatchArg.setInto dflt patches copy0 patchcenters offset1 offsetindex).bind fun copy1 =>
                .ok (copy1)
      else
        let offset0 := offset
        if (!(OffArg.shapeIs12 offset0)) then
          .error .value
        else
          if (offsetindex.isNone) then
            let offsetindex0 := (some 0)
            if (PatchArg.isList patches) then
              (PatchArg.convert dflt patches (List.length patchcenters)).bind fun patches0 =>
                let copy0 := pix
                (PatchArg.setInto dflt patches0 copy0 patchcenters offset0 offsetindex0).bind fun copy1 =>
                  .ok (copy1)
            else
              let copy0 := pix
              (PatchArg.setInto dflt patches copy0 patchcenters offset0 offsetindex0).bind fun copy1 =>
                .ok (copy1)
          else
            if (PatchArg.isList patches) then
              (PatchArg.convert dflt patches (List.length patchcenters)).bind fun patches0 =>
                let copy0 := pix
                (PatchArg.setInto dflt patches0 copy0 patchcenters offset0 offsetindex).bind fun copy1 =>
                  .ok (copy1)
            else
              let copy0 := pix
              (PatchArg.setInto dflt patches copy0 patchcenters offset0 offsetindex).bind fun copy1 =>
                .ok (copy1)

def genConvertPatchesList {α : Type} (dflt : α) (patcheslist : List (NDArr α)) (ncenter : Nat) : Except Err (NDArr α) :=
  (Np.intDivE (List.length patcheslist) ncenter).bind fun noffsets0 =>
    (PList.head patcheslist).bind fun h_0 =>
    let nchannels0 := (PImg.nChannels h_0)
    (PList.head patcheslist).bind fun h_1 =>
    let height0 := (PImg.height h_1)
    (PList.head patcheslist).bind fun h_2 =>
    let width0 := (PImg.width h_2)
    (PList.head patcheslist).bind fun h_3 =>
    let patchesarray0 := (Except.ok (full [ncenter, noffsets0, nchannels0, height0, width0] dflt))
    let totalindex0 := (0)
    let r0 := MenpoModel.Py.forLoop (patchesarray0, totalindex0) ((List.range ncenter)) (fun acc0 it0 =>
        let patchesarray1 := acc0.1
        let totalindex1 := acc0.2
        let p0 := it0
        let r0 := MenpoModel.Py.forLoop (patchesarray1, totalindex1) ((List.range noffsets0)) (fun acc1 it1 =>
            let patchesarray0 := acc1.1
            let totalindex0 := acc1.2
            let o0 := it1
            let patchesarray1 := (Np.assignEntry dflt patchesarray0 p0 o0 patcheslist totalindex0)
            let totalindex1 := (totalindex0 + (1))
            (patchesarray1, totalindex1))
        let patchesarray0 := r0.1
        let totalindex0 := r0.2
        (patchesarray0, totalindex0))
    let patchesarray1 := r0.1
    let totalindex1 := r0.2
    patchesarray1

def genSetPatchesAroundLandmarks {α : Type} (dflt : α) (pix : NDArr α) (lms : List Pt) (patches : PatchArg α)
    (offset : Option OffArg) (offsetindex : Option Nat) : Except Err (NDArr α) :=
  Src.setPatchesApi dflt pix patches lms offset offsetindex


end MenpoModel.C13.Generated
