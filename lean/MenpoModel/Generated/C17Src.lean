/- TRANSLATED by harness/trans_c17.py (harness/py2lean2.py) from the SOURCE TEXT of menpo/shape/adjacency.py,
   menpo/shape/mesh/base.py, coloured.py, textured.py and normals.py of the current working tree on every run of
   `./check C17`; do not edit.  The vocabulary (one definition per numpy primitive) is Core/C17Np.lean;
   GenProps/C17Src*.lean prove every definition equal to the Core definition the C17 theorems are about. -/
import MenpoModel.Core.C17Np
import MenpoModel.Core.C17Heap
import MenpoModel.Core.PyLoop

set_option linter.unusedVariables false

namespace MenpoModel.C17.Gen
open MenpoModel.C17 MenpoModel.C17.Np MenpoModel.C17.Heap

def genMaskAdjacencyArray (mask : List Bool) (adjacencyarray : List (List Nat)) : List (List Nat) :=
  let indicestoremove0 := (Np.nonzero (Np.invert mask))
  let entriestoremove0 := (Np.isin (Np.ravel adjacencyarray) indicestoremove0)
  let entriestoremove1 := (Np.reshape entriestoremove0 (Np.shape1 adjacencyarray))
  let indicestokeep0 := (Np.invert (Np.anyAxis1 entriestoremove1))
  (Np.rowFilter adjacencyarray indicestokeep0)

def genReindexAdjacencyArray (adjacencyarray : List (List Nat)) : Except Err (List (List Nat)) :=
  (Np.amax adjacencyarray).bind fun h_0 =>
  let remapvector0 := (Np.arange (h_0 + (1)))
  let uniquevalues0 := (Np.unique adjacencyarray)
  let remapvector1 := (Np.setIdx remapvector0 uniquevalues0 (Np.arange (Np.shape0 uniquevalues0)))
  .ok (Np.index remapvector1 adjacencyarray)

def genIsolatedMask {P C T : Type} (s : NMesh P C T) (mask : List Bool) : List Bool :=
  let maskedadj0 := (genMaskAdjacencyArray mask s.trilist)
  let isolatedindices0 := (Np.setdiff1d (Np.nonzero mask) maskedadj0)
  let newmask0 := mask
  let newmask1 := (Np.setConst newmask0 isolatedindices0 false)
  newmask1

def genFromMaskTriMesh {P C T : Type} (s : NMesh P C T) (mask : List Bool) : Except Err (NMesh P C T) :=
  if (((Np.shape0 mask) != (Np.shape0 s.points))) then
    .error .shape
  else
    let tm0 := s
    if (Np.all mask) then
      .ok tm0
    else
      let isolatedmask0 := (genIsolatedMask s mask)
      let maskedadj0 := (genMaskAdjacencyArray isolatedmask0 s.trilist)
      (genReindexAdjacencyArray maskedadj0).bind fun h_0 =>
      let tm1 := { tm0 with trilist := h_0 }
      let tm0 := { tm1 with points := (Np.rowFilter tm1.points isolatedmask0) }
      .ok tm0

def genFromMaskColoured {P C T : Type} (s : NMesh P C T) (mask : List Bool) : Except Err (NMesh P C T) :=
  if (((Np.shape0 mask) != (Np.shape0 s.points))) then
    .error .shape
  else
    let ctm0 := s
    if (Np.all mask) then
      .ok ctm0
    else
      let isolatedmask0 := (genIsolatedMask s mask)
      let maskedadj0 := (genMaskAdjacencyArray isolatedmask0 s.trilist)
      (genReindexAdjacencyArray maskedadj0).bind fun h_0 =>
      let ctm1 := { ctm0 with trilist := h_0 }
      let ctm0 := { ctm1 with points := (Np.rowFilter ctm1.points isolatedmask0) }
      let ctm1 := { ctm0 with colours := (Np.rowFilter ctm0.colours isolatedmask0) }
      .ok ctm1

def genFromMaskTextured {P C T : Type} (s : NMesh P C T) (mask : List Bool) : Except Err (NMesh P C T) :=
  if (((Np.shape0 mask) != (Np.shape0 s.points))) then
    .error .shape
  else
    let ttm0 := s
    if (Np.all mask) then
      .ok ttm0
    else
      let isolatedmask0 := (genIsolatedMask s mask)
      let maskedadj0 := (genMaskAdjacencyArray isolatedmask0 s.trilist)
      (genReindexAdjacencyArray maskedadj0).bind fun h_0 =>
      let ttm1 := { ttm0 with trilist := h_0 }
      let ttm0 := { ttm1 with points := (Np.rowFilter ttm1.points isolatedmask0) }
      let ttm1 := { ttm0 with tcoords := (Np.rowFilter ttm0.tcoords isolatedmask0) }
      .ok ttm1

def genFromMask {P C T : Type} (kind : Kind) (s : NMesh P C T) (mask : List Bool) : Except Err (NMesh P C T) :=
  match kind with
  | .plain => genFromMaskTriMesh s mask
  | .coloured => genFromMaskColoured s mask
  | .textured => genFromMaskTextured s mask

def genFromTriMask {P C T : Type} (kind : Kind) (s : NMesh P C T) (trimask : List Bool) : Except Err (NMesh P C T) :=
  let pointmask0 := (Np.zerosBool (Np.shape0 s.points))
  (Np.boolIndex s.trilist trimask).bind fun h_0 =>
  let pointmask1 := (Np.setConst pointmask0 (Np.unique (Np.ravel h_0)) true)
  genFromMask kind s pointmask1

def genEdgeIndices {P C T : Type} (s : NMesh P C T) : List (List Nat) :=
  let tl0 := s.trilist
  (Np.reshape (Np.hstack3 (Np.cols2 tl0 (0) (1)) (Np.cols2 tl0 (1) (2)) (Np.cols2 tl0 (2) (0))) (2))

def genUniqueEdgeIndices {P C T : Type} (s : NMesh P C T) : List (List Nat) :=
  let edgepairs0 := (Np.sortRows (genEdgeIndices s))
  let edgepairview0 := edgepairs0
  let uniqueedgeindex0 := (Np.uniqueRowIndex edgepairview0)
  (Np.index edgepairs0 uniqueedgeindex0)

def genBoundaryTriIndex {P C T : Type} (s : NMesh P C T) : List Bool :=
  let edgepairs0 := (Np.sortRows (genEdgeIndices s))
  let edgekeys0 := (((Np.col edgepairs0 (0)) * (Np.shape0 s.points)) + (Np.col edgepairs0 (1)))
  let p0 := (Np.uniqueInvCounts edgekeys0)
  let u0 := p0.1
  let inverse0 := p0.2.1
  let counts0 := p0.2.2
  let lonelyedges0 := (Np.eqScalar (Np.index counts0 (Np.ravel inverse0)) 1)
  (Np.anyAxis1 (Np.reshape lonelyedges0 (3)))

def genTrilistToAdjacencyArray (trilist : List (List Nat)) : List (List Nat) :=
  let wraparoundadj0 := (Np.hstack2 (Np.asColumn (Np.colLast trilist)) (Np.asColumn (Np.col trilist (0))))
  (Np.concat3 (Np.colsTake trilist (2)) (Np.colsDrop trilist (1)) wraparoundadj0)

def genEdgeVectors {C T : Type} (s : NMesh (List Rat) C T) : List (List Rat) :=
  let t0 := (Np.index s.points s.trilist)
  (Np.reshape (Np.hstack3 ((Np.col t0 (1)) - (Np.col t0 (0))) ((Np.col t0 (2)) - (Np.col t0 (1))) ((Np.col t0 (2)) - (Np.col t0 (0)))) s.ndims)

def genEdgeLengths {C T : Type} (sqrt : Rat → Rat) (s : NMesh (List Rat) C T) : List Rat :=
  (Np.normAxis1 sqrt (genEdgeVectors s))

def genUniqueEdgeVectors {C T : Type} (s : NMesh (List Rat) C T) : List (List Rat) :=
  let x0 := (Np.index s.points (genUniqueEdgeIndices s))
  ((Np.col x0 (1)) - (Np.col x0 (0)))

def genUniqueEdgeLengths {C T : Type} (sqrt : Rat → Rat) (s : NMesh (List Rat) C T) : List Rat :=
  (Np.normAxis1 sqrt (genUniqueEdgeVectors s))

def genMeanEdgeLength {C T : Type} (sqrt : Rat → Rat) (s : NMesh (List Rat) C T) (unique : Bool) : Rat :=
  (Np.mean (if unique then (genUniqueEdgeLengths sqrt s) else (genEdgeLengths sqrt s)))

def genTriAreas {C T : Type} (sqrt : Rat → Rat) (s : NMesh (List Rat) C T) : Except Err (List Rat) :=
  let t0 := (Np.index s.points s.trilist)
  let p0 := (((Np.col t0 (1)) - (Np.col t0 (0))), ((Np.col t0 (2)) - (Np.col t0 (0))))
  let ij0 := p0.1
  let ik0 := p0.2
  if ((s.ndims == (2))) then
    .ok (Np.abs1 ((((Np.col ij0 (0)) * (Np.col ik0 (1))) - ((Np.col ij0 (1)) * (Np.col ik0 (0)))) * ((1 : Rat) / 2)))
  else
    if ((s.ndims == (3))) then
      .ok ((Np.normAxis1 sqrt (Np.cross ij0 ik0)) * ((1 : Rat) / 2))
    else
      .error .shape

def genMeanTriArea {C T : Type} (sqrt : Rat → Rat) (s : NMesh (List Rat) C T) : Except Err Rat :=
  (genTriAreas sqrt s).bind fun h_0 =>
  .ok (Np.mean h_0)

def genNormalize (sqrt : Rat → Rat) (v : List (List Rat)) : List (List Rat) :=
  (Np.nanToNum (Np.divCol v (Np.sqrt2 sqrt (Np.sumAxis1Keep (Np.sq2 v)))))

def genComputeFaceNormals (sqrt : Rat → Rat) (points : List (List Rat)) (trilist : List (List Nat)) : List (List Rat) :=
  let pt0 := (Np.index points trilist)
  let p0 := ((Np.col pt0 (0)), (Np.col pt0 (1)), (Np.col pt0 (2)))
  let a0 := p0.1
  let b0 := p0.2.1
  let c0 := p0.2.2
  let norm0 := (Np.cross (b0 - a0) (c0 - a0))
  (genNormalize sqrt (norm0 : List (List Rat)))

def genComputeVertexNormals (sqrt : Rat → Rat) (pdt : Np.DType) (points : List (List Rat)) (trilist : List (List Nat)) : List (List Rat) :=
  let facenormals0 := (genComputeFaceNormals sqrt points trilist)
  let vertexnormals0 := (Np.zerosDT points Np.DType.float)
  let vertexnormals1 := (Np.addAtDT vertexnormals0 (Np.col trilist (0)) facenormals0)
  let vertexnormals0 := (Np.addAtDT vertexnormals1 (Np.col trilist (1)) facenormals0)
  let vertexnormals1 := (Np.addAtDT vertexnormals0 (Np.col trilist (2)) facenormals0)
  (genNormalize sqrt (vertexnormals1 : List (List Rat)))

def genTriNormals {C T : Type} (sqrt : Rat → Rat) (s : NMesh (List Rat) C T) : Except Err (List (List Rat)) :=
  if ((s.ndims != (3))) then
    .error .shape
  else
    .ok (genComputeFaceNormals sqrt s.points s.trilist)

def genVertexNormals {C T : Type} (sqrt : Rat → Rat) (pdt : Np.DType) (s : NMesh (List Rat) C T) : Except Err (List (List Rat)) :=
  if ((s.ndims != (3))) then
    .error .shape
  else
    .ok (genComputeVertexNormals sqrt pdt s.points s.trilist)

def genFromMaskTriMeshH {α : Type} (w : World α) (s : Nat) (mask : List Bool) : Except Err (Nat × World α) :=
  if (((Np.shape0 mask) != (Np.shape0 (World.getRows w s .points).val))) then
    .error .shape
  else
    let p_0 := (World.copyObj w s)
    let t_0 := p_0.1
    let w0 := p_0.2
    let tm0 := t_0
    if (Np.all mask) then
      .ok (tm0, w0)
    else
      let isolatedmask0 := (genIsolatedMask (World.view w0 s) mask)
      let maskedadj0 := (genMaskAdjacencyArray isolatedmask0 ((World.getIdx w0 s)).val)
      (match (genReindexAdjacencyArray maskedadj0).map IVal.fresh with
      | .ok t_1 =>
        let w1 := (World.setIdx w0 tm0 t_1)
        let w0 := (World.setRows w1 tm0 .points (RVal.fresh (Np.rowFilter ((World.getRows w1 tm0 .points)).val isolatedmask0)))
        .ok (tm0, w0)
      | .error e_1 =>
        .error e_1)

def genFromMaskColouredH {α : Type} (w : World α) (s : Nat) (mask : List Bool) : Except Err (Nat × World α) :=
  if (((Np.shape0 mask) != (Np.shape0 (World.getRows w s .points).val))) then
    .error .shape
  else
    let p_0 := (World.copyObj w s)
    let t_0 := p_0.1
    let w0 := p_0.2
    let ctm0 := t_0
    if (Np.all mask) then
      .ok (ctm0, w0)
    else
      let isolatedmask0 := (genIsolatedMask (World.view w0 s) mask)
      let maskedadj0 := (genMaskAdjacencyArray isolatedmask0 ((World.getIdx w0 s)).val)
      (match (genReindexAdjacencyArray maskedadj0).map IVal.fresh with
      | .ok t_1 =>
        let w1 := (World.setIdx w0 ctm0 t_1)
        let w0 := (World.setRows w1 ctm0 .points (RVal.fresh (Np.rowFilter ((World.getRows w1 ctm0 .points)).val isolatedmask0)))
        let w1 := (World.setRows w0 ctm0 .colours (RVal.fresh (Np.rowFilter ((World.getRows w0 ctm0 .colours)).val isolatedmask0)))
        .ok (ctm0, w1)
      | .error e_1 =>
        .error e_1)

def genFromMaskTexturedH {α : Type} (w : World α) (s : Nat) (mask : List Bool) : Except Err (Nat × World α) :=
  if (((Np.shape0 mask) != (Np.shape0 (World.getRows w s .points).val))) then
    .error .shape
  else
    let p_0 := (World.copyObj w s)
    let t_0 := p_0.1
    let w0 := p_0.2
    let ttm0 := t_0
    if (Np.all mask) then
      .ok (ttm0, w0)
    else
      let isolatedmask0 := (genIsolatedMask (World.view w0 s) mask)
      let maskedadj0 := (genMaskAdjacencyArray isolatedmask0 ((World.getIdx w0 s)).val)
      (match (genReindexAdjacencyArray maskedadj0).map IVal.fresh with
      | .ok t_1 =>
        let w1 := (World.setIdx w0 ttm0 t_1)
        let w0 := (World.setRows w1 ttm0 .points (RVal.fresh (Np.rowFilter ((World.getRows w1 ttm0 .points)).val isolatedmask0)))
        let w1 := (World.setRows w0 ttm0 .tcoords (RVal.fresh (Np.rowFilter ((World.getRows w0 ttm0 .tcoords)).val isolatedmask0)))
        .ok (ttm0, w1)
      | .error e_1 =>
        .error e_1)

def genFromMaskH {α : Type} (kind : Kind) (w : World α) (s : Nat) (mask : List Bool) : Except Err (Nat × World α) :=
  match kind with
  | .plain => genFromMaskTriMeshH w s mask
  | .coloured => genFromMaskColouredH w s mask
  | .textured => genFromMaskTexturedH w s mask

def genFromTriMaskH {α : Type} (kind : Kind) (w : World α) (s : Nat) (trimask : List Bool) : Except Err (Nat × World α) :=
  let pointmask0 := (Np.zerosBool (Np.shape0 (World.getRows w s .points).val))
  (match Np.boolIndex (World.getIdx w s).val trimask with
  | .ok t_0 =>
    let pointmask1 := (Np.setConst pointmask0 (Np.unique (Np.ravel t_0)) true)
    (match genFromMaskH kind w s pointmask1 with
    | .ok p_1 =>
      let t_1 := p_1.1
      let w0 := p_1.2
      .ok (t_1, w0)
    | .error e_1 =>
      .error e_1)
  | .error e_0 =>
    .error e_0)


end MenpoModel.C17.Gen
