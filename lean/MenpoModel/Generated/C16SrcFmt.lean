/- TRANSLATED by harness/trans_c16.py (harness/py2lean2.py) from the SOURCE TEXT of menpo.io.output.landmark.ljson_exporter / pts_exporter, menpo.io.input.landmark.pts_importer /
   ljson_importer (version dispatch) and menpo.image.base.normalize_pixels_range / denormalize_pixels_range
   of the current working tree on every run of `./check C16`; do not edit.
   GenProps/C16SrcFmt.lean proves every definition equal to its specification in Core/C16Src*.lean. -/
import MenpoModel.Core.C16SrcFmt
set_option linter.unusedVariables false

namespace MenpoModel.Generated.C16
open MenpoModel.C16 MenpoModel.C16.PyX


def genLjsonExporter (landmarksobject : LObj) : Except Exc Json :=
  PyX.tryE (
      Except.bind ((LObj.nPoints landmarksobject)) fun u0 =>
        let landmarkdict0 := (LObj.wrap landmarksobject)
        .ok ((u0, landmarkdict0)))
    (fun s0 =>
      let u0 := s0.1
      let landmarkdict0 := s0.2
      let ljson0 := (LDoc.mk (3) [])
      let groups0 := ([] : List (String × LG))
      let r0 := MenpoModel.Py.forLoop (none, groups0) ((LObj.items landmarkdict0)) (fun acc0 it0 =>
          if (acc0.1).isSome then acc0 else
          let groups1 := acc0.2
          let p0 := it0
          let key0 := p0.1
          let pointcloud0 := p0.2
          let lgjson0 := (tojson pointcloud0)
          let points0 := (lgjson0).points
          PyX.tryE (
              Except.bind ((rowLen0 points0)) fun ndim0 =>
                .ok (ndim0))
            (fun s1 =>
              let ndim0 := s1
              let filteredpoints0 := (List.map (fun it1 => let x0 := it1; (if ((x0).isNone) then none else x0)) (List.flatten points0))
              if ((ndim0 == (2))) then
                let lgjson1 := ({ lgjson0 with points := (transposeRows [(strideFrom filteredpoints0 0 (2)), (strideFrom filteredpoints0 (1) (2))]) } : LG)
                let groups0 := (dictSet groups1 key0 lgjson1)
                (none, groups0)
              else
                if ((ndim0 == (3))) then
                  let lgjson1 := ({ lgjson0 with points := (transposeRows [(strideFrom filteredpoints0 0 (3)), (strideFrom filteredpoints0 (1) (3)), (strideFrom filteredpoints0 (2) (3))]) } : LG)
                  let groups0 := (dictSet groups1 key0 lgjson1)
                  (none, groups0)
                else
                  let lgjson1 := ({ lgjson0 with points := ([] : List (List (Option Rat))) } : LG)
                  let groups0 := (dictSet groups1 key0 lgjson1)
                  (none, groups0))
            (fun e_ =>
              if e_ == Exc.indexError then
                let ndim0 := (0)
                let filteredpoints0 := (List.map (fun it1 => let x0 := it1; (if ((x0).isNone) then none else x0)) (List.flatten points0))
                if ((ndim0 == (2))) then
                  let lgjson1 := ({ lgjson0 with points := (transposeRows [(strideFrom filteredpoints0 0 (2)), (strideFrom filteredpoints0 (1) (2))]) } : LG)
                  let groups0 := (dictSet groups1 key0 lgjson1)
                  (none, groups0)
                else
                  if ((ndim0 == (3))) then
                    let lgjson1 := ({ lgjson0 with points := (transposeRows [(strideFrom filteredpoints0 0 (3)), (strideFrom filteredpoints0 (1) (3)), (strideFrom filteredpoints0 (2) (3))]) } : LG)
                    let groups0 := (dictSet groups1 key0 lgjson1)
                    (none, groups0)
                  else
                    let lgjson1 := ({ lgjson0 with points := ([] : List (List (Option Rat))) } : LG)
                    let groups0 := (dictSet groups1 key0 lgjson1)
                    (none, groups0)
              else
                (some (.error e_), groups1)))
      let groups1 := r0.2
      match r0.1 with
      | some v0 => (
          v0)
      | none =>
        let ljson1 := ({ ljson0 with groups := groups1 } : LDoc)
        .ok ((dumpDoc ljson1)))
    (fun e_ =>
      if e_ == Exc.attributeError then
        let landmarkdict0 := landmarksobject
        let ljson0 := (LDoc.mk (3) [])
        let groups0 := ([] : List (String × LG))
        let r0 := MenpoModel.Py.forLoop (none, groups0) ((LObj.items landmarkdict0)) (fun acc0 it0 =>
            if (acc0.1).isSome then acc0 else
            let groups1 := acc0.2
            let p0 := it0
            let key0 := p0.1
            let pointcloud0 := p0.2
            let lgjson0 := (tojson pointcloud0)
            let points0 := (lgjson0).points
            PyX.tryE (
                Except.bind ((rowLen0 points0)) fun ndim0 =>
                  .ok (ndim0))
              (fun s0 =>
                let ndim0 := s0
                let filteredpoints0 := (List.map (fun it1 => let x0 := it1; (if ((x0).isNone) then none else x0)) (List.flatten points0))
                if ((ndim0 == (2))) then
                  let lgjson1 := ({ lgjson0 with points := (transposeRows [(strideFrom filteredpoints0 0 (2)), (strideFrom filteredpoints0 (1) (2))]) } : LG)
                  let groups0 := (dictSet groups1 key0 lgjson1)
                  (none, groups0)
                else
                  if ((ndim0 == (3))) then
                    let lgjson1 := ({ lgjson0 with points := (transposeRows [(strideFrom filteredpoints0 0 (3)), (strideFrom filteredpoints0 (1) (3)), (strideFrom filteredpoints0 (2) (3))]) } : LG)
                    let groups0 := (dictSet groups1 key0 lgjson1)
                    (none, groups0)
                  else
                    let lgjson1 := ({ lgjson0 with points := ([] : List (List (Option Rat))) } : LG)
                    let groups0 := (dictSet groups1 key0 lgjson1)
                    (none, groups0))
              (fun e_ =>
                if e_ == Exc.indexError then
                  let ndim0 := (0)
                  let filteredpoints0 := (List.map (fun it1 => let x0 := it1; (if ((x0).isNone) then none else x0)) (List.flatten points0))
                  if ((ndim0 == (2))) then
                    let lgjson1 := ({ lgjson0 with points := (transposeRows [(strideFrom filteredpoints0 0 (2)), (strideFrom filteredpoints0 (1) (2))]) } : LG)
                    let groups0 := (dictSet groups1 key0 lgjson1)
                    (none, groups0)
                  else
                    if ((ndim0 == (3))) then
                      let lgjson1 := ({ lgjson0 with points := (transposeRows [(strideFrom filteredpoints0 0 (3)), (strideFrom filteredpoints0 (1) (3)), (strideFrom filteredpoints0 (2) (3))]) } : LG)
                      let groups0 := (dictSet groups1 key0 lgjson1)
                      (none, groups0)
                    else
                      let lgjson1 := ({ lgjson0 with points := ([] : List (List (Option Rat))) } : LG)
                      let groups0 := (dictSet groups1 key0 lgjson1)
                      (none, groups0)
                else
                  (some (.error e_), groups1)))
        let groups1 := r0.2
        match r0.1 with
        | some v0 => (
            v0)
        | none =>
          let ljson1 := ({ ljson0 with groups := groups1 } : LDoc)
          .ok ((dumpDoc ljson1))
      else
        .error e_)

def genPtsExporter (pointcloud : List (List (Option Rat))) : Except Exc (List PLine) :=
  let pts0 := pointcloud
  Except.bind ((swapAdd1 pts0)) fun pts1 =>
    let header0 := (ptsHeader (pts1).length)
    let filehandle0 := (savetxt3 header0 pts1)
    .ok (filehandle0)

def genPtsImporter (filepath : List PLine) (imageorigin : Bool) : Except Exc (List (List (Option Rat))) :=
  let f0 := filepath
  let lines0 := (List.map (fun it0 => let l0 := it0; l0) f0)
  Except.bind ((linesHead lines0)) fun line0 =>
    match PyX.whileLoop (filepath.length + 1) (none, line0, lines0) (fun acc0 => !((acc0.1).isSome) && (let line1 := acc0.2.1; let lines1 := acc0.2.2; (!(PLine.isOpen line1)))) (fun acc0 =>
        let line1 := acc0.2.1
        let lines1 := acc0.2.2
        PyX.tryE ((pop0 lines1)) (fun tmp0 =>
            let line0 := tmp0.1
            let lines0 := tmp0.2
            (none, line0, lines0))
          (fun e_ =>
            (some (.error e_), line1, lines1))) with
    | none =>
        .error Exc.fuel
    | some r0 =>
      let line1 := r0.2.1
      let lines1 := r0.2.2
      match r0.1 with
      | some v0 => (
          v0)
      | none =>
        let xs0 := ([] : List (Option Rat))
        let ys0 := ([] : List (Option Rat))
        let r1 := MenpoModel.Py.forLoop (none, xs0, ys0) (lines1) (fun acc0 it0 =>
            if (acc0.1).isSome then acc0 else
            let xs1 := acc0.2.1
            let ys1 := acc0.2.2
            let line0 := it0
            if (!(PLine.isClose line0)) then
              PyX.tryE ((PLine.first2 line0)) (fun tmp1 =>
                  let p0 := tmp1
                  let xpos0 := p0.1
                  let ypos0 := p0.2
                  let xs0 := (xs1 ++ [xpos0])
                  let ys0 := (ys1 ++ [ypos0])
                  (none, xs0, ys0))
                (fun e_ =>
                  (some (.error e_), xs1, ys1))
            else
              (none, xs1, ys1))
        let xs1 := r1.2.1
        let ys1 := r1.2.2
        match r1.1 with
        | some v0 => (
            v0)
        | none =>
          let xs0 := xs1
          let ys0 := ys1
          if (PyX.truthy imageorigin) then
            let points0 := (hstackCols [(colMinus1 ys0), (colMinus1 xs0)])
            .ok (points0)
          else
            let points0 := (hstackCols [(colMinus1 xs0), (colMinus1 ys0)])
            .ok (points0)

def genLjsonImporter (table : List (Nat × String)) (filepath : Json) : Except Exc String :=
  let f0 := filepath
  let lmsdict0 := f0
  let version0 := (Json.get .version lmsdict0)
  let parser0 := (parserLookup table version0)
  if (parser0).isNone then
    .error Exc.valueError
  else
    if (!(jsonIsNat version0 3)) then
      .ok ((callParser parser0 lmsdict0))
    else
      .ok ((callParser parser0 lmsdict0))

def genParseNull (pointslist : List (List (Option Rat))) : Except Exc (List (List (Option Rat))) :=
  let filteredpoints0 := (List.map (fun it0 => let x0 := it0; (if (x0).isNone then none else x0)) (List.flatten pointslist))
  Except.bind ((rowLen0 pointslist)) fun tmp0 =>
  (reshapeN filteredpoints0 tmp0)

def genParseV3 (lmsdict : JDoc) : Except Exc (List (String × Imported)) :=
  let alllms0 := ([] : List (String × Imported))
  let r0 := MenpoModel.Py.forLoop (none, alllms0) (lmsdict) (fun acc0 it0 =>
      if (acc0.1).isSome then acc0 else
      let alllms1 := acc0.2
      let p0 := it0
      let key0 := p0.1
      let lmsdictgroup0 := p0.2
      PyX.tryE ((genParseNull (lmsdictgroup0).points)) (fun points0 =>
          let connectivity0 := (lmsdictgroup0).conn
          let labelstomask0 := ([] : List (String × List Bool))
          if ((((lmsdictgroup0).labels).length != (0))) then
            let npoints0 := (points0).length
            let r0 := MenpoModel.Py.forLoop (none, labelstomask0) ((lmsdictgroup0).labels) (fun acc1 it1 =>
                if (acc1.1).isSome then acc1 else
                let labelstomask1 := acc1.2
                let label0 := it1
                let mask0 := (List.replicate npoints0 false)
                PyX.tryE ((maskSet mask0 (label0).mask)) (fun mask1 =>
                    let labelstomask0 := (odInsert labelstomask1 (label0).label mask1)
                    (none, labelstomask0))
                  (fun e_ =>
                    (some (.error e_), labelstomask1)))
            let labelstomask1 := r0.2
            match r0.1 with
            | some v0 => (
                (some (v0), alllms1))
            | none =>
              let graphcls0 := (if (PyX.truthy labelstomask1) then Cls.lpug else Cls.pug)
              PyX.tryE ((initFromEdges graphcls0 points0 connectivity0 labelstomask1)) (fun tmp0 =>
                  let alllms0 := (dictSet alllms1 key0 tmp0)
                  (none, alllms0))
                (fun e_ =>
                  (some (.error e_), alllms1))
          else
            let graphcls0 := (if (PyX.truthy labelstomask0) then Cls.lpug else Cls.pug)
            PyX.tryE ((initFromEdges graphcls0 points0 connectivity0 labelstomask0)) (fun tmp1 =>
                let alllms0 := (dictSet alllms1 key0 tmp1)
                (none, alllms0))
              (fun e_ =>
                (some (.error e_), alllms1)))
        (fun e_ =>
          (some (.error e_), alllms1)))
  let alllms1 := r0.2
  match r0.1 with
  | some v0 => (
      v0)
  | none =>
    .ok (alllms1)

def genParseV2 (lmsdict : JGroup) : Except Exc (List (String × Imported)) :=
  Except.bind ((genParseNull (lmsdict).points)) fun points0 =>
    let connectivity0 := (lmsdict).conn
    if ((connectivity0).isNone && ((((lmsdict).labels).length == (0)))) then
      let lmarks0 := (Imported.mk Cls.pc points0 [] [])
      .ok ([("LJSON", lmarks0)])
    else
      let labelstomask0 := ([] : List (String × List Bool))
      let npoints0 := (points0).length
      let r0 := MenpoModel.Py.forLoop (none, labelstomask0) ((lmsdict).labels) (fun acc0 it0 =>
          if (acc0.1).isSome then acc0 else
          let labelstomask1 := acc0.2
          let label0 := it0
          let mask0 := (List.replicate npoints0 false)
          PyX.tryE ((maskSet mask0 (label0).mask)) (fun mask1 =>
              let labelstomask0 := (odInsert labelstomask1 (label0).label mask1)
              (none, labelstomask0))
            (fun e_ =>
              (some (.error e_), labelstomask1)))
      let labelstomask1 := r0.2
      match r0.1 with
      | some v0 => (
          v0)
      | none =>
        Except.bind ((initFromEdges Cls.lpug points0 connectivity0 labelstomask1)) fun lmarks0 =>
          .ok ([("LJSON", lmarks0)])

def genParseV1 (lmsdict : List JV1Group) : Except Exc (List (String × Imported)) :=
  let allpoints0 := []
  let labels0 := []
  let labelsslices0 := []
  let offset0 := (0)
  let connectivity0 := []
  let r0 := MenpoModel.Py.forLoop (allpoints0, connectivity0, labels0, labelsslices0, offset0) (lmsdict) (fun acc0 it0 =>
      let allpoints1 := acc0.1
      let connectivity1 := acc0.2.1
      let labels1 := acc0.2.2.1
      let labelsslices1 := acc0.2.2.2.1
      let offset1 := acc0.2.2.2.2
      let group0 := it0
      let lms0 := (group0).landmarks
      let labels0 := (labels1 ++ [(group0).label])
      let labelsslices0 := (labelsslices1 ++ [(offset1, ((lms0).length + offset1))])
      let conn0 := (((group0).conn).getD [])
      if (PyX.truthy conn0) then
        let conn1 := (shiftEdges offset1 conn0)
        let connectivity0 := (connectivity1 ++ conn1)
        let r0 := MenpoModel.Py.forLoop allpoints1 (lms0) (fun acc1 it1 =>
            let allpoints0 := acc1
            let p0 := it1
            let allpoints1 := (allpoints0 ++ [p0])
            allpoints1)
        let allpoints0 := r0
        let offset0 := (offset1 + (lms0).length)
        (allpoints0, connectivity0, labels0, labelsslices0, offset0)
      else
        let r0 := MenpoModel.Py.forLoop allpoints1 (lms0) (fun acc1 it1 =>
            let allpoints0 := acc1
            let p0 := it1
            let allpoints1 := (allpoints0 ++ [p0])
            allpoints1)
        let allpoints0 := r0
        let offset0 := (offset1 + (lms0).length)
        (allpoints0, connectivity1, labels0, labelsslices0, offset0))
  let allpoints1 := r0.1
  let connectivity1 := r0.2.1
  let labels1 := r0.2.2.1
  let labelsslices1 := r0.2.2.2.1
  let offset1 := r0.2.2.2.2
  Except.bind ((genParseNull allpoints1)) fun points0 =>
    let npoints0 := (points0).length
    let labelstomasks0 := ([] : List (String × List Bool))
    let r1 := MenpoModel.Py.forLoop labelstomasks0 ((List.zip labels1 labelsslices1)) (fun acc0 it0 =>
        let labelstomasks1 := acc0
        let p0 := it0
        let label0 := p0.1
        let lslice0 := p0.2
        let mask0 := (List.replicate npoints0 false)
        let mask1 := (sliceSet mask0 lslice0)
        let labelstomasks0 := (odInsert labelstomasks1 label0 mask1)
        labelstomasks0)
    let labelstomasks1 := r1
    Except.bind ((initFromEdges Cls.lpug points0 (some connectivity1) labelstomasks1)) fun lmarks0 =>
      .ok ([("LJSON", lmarks0)])

def genNormalizePixels (pixels : PixArr) (erroronunknowntype : Bool) : Except Exc PixArr :=
  let dtype0 := (pixels).dtype
  if ((dtype0 == DType.uint8)) then
    let maxrange0 := (255 : Nat)
    .ok ((PixArr.scaleRecip pixels maxrange0))
  else
    if ((dtype0 == DType.uint16)) then
      let maxrange0 := (65535 : Nat)
      .ok ((PixArr.scaleRecip pixels maxrange0))
    else
      if (PyX.truthy erroronunknowntype) then
        .error Exc.valueError
      else
        .ok (pixels)

def genDenormalizePixels (pixels : PixArr) (outdtype : DType) : Except Exc PixArr :=
  let indtype0 := (pixels).dtype
  if ((indtype0 == outdtype)) then
    .ok (pixels)
  else
    if ((DType.isFloating indtype0) || ((indtype0 == DType.float64))) then
      if ((DType.isFloating outdtype) || ((outdtype == DType.float64))) then
        .ok ((PixArr.astype pixels outdtype))
      else
        let pmin0 := (PixArr.min pixels)
        let pmax0 := (PixArr.max pixels)
        if ((decide (pmin0 < (0 : Rat))) || (decide (pmax0 > (1 : Rat)))) then
          .error Exc.valueError
        else
          if ((outdtype == DType.uint8)) then
            let maxrange0 := (255 : Nat)
            .ok ((PixArr.roundScale pixels maxrange0 outdtype))
          else
            if ((outdtype == DType.uint16)) then
              let maxrange0 := (65535 : Nat)
              .ok ((PixArr.roundScale pixels maxrange0 outdtype))
            else
              .error Exc.valueError
    else
      if ((indtype0 != DType.bool)) then
        .error Exc.valueError
      else
        if ((outdtype == DType.uint8)) then
          let maxrange0 := (255 : Nat)
          .ok ((PixArr.roundScale pixels maxrange0 outdtype))
        else
          if ((outdtype == DType.uint16)) then
            let maxrange0 := (65535 : Nat)
            .ok ((PixArr.roundScale pixels maxrange0 outdtype))
          else
            .error Exc.valueError

end MenpoModel.Generated.C16
