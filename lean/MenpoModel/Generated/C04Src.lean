/- TRANSLATED by harness/trans_c04.py (harness/py2lean2.py) from the SOURCE TEXT of menpo's pseudoinverse code of
   the current working tree (menpo/transform/homogeneous/*.py, base/invertible.py, thinplatesplines.py,
   piecewiseaffine/base.py, tcoords.py) on every run of `./check C04`; do not edit.
   `supOf` is the live method-resolution table; the `m_*` / `ctor_*` definitions pick the translated body of the class
   it names.  GenProps/C04Src.lean proves every definition equal to the Core definition the C04 theorems are about. -/
import MenpoModel.Core.C04Src

set_option linter.unusedVariables false

namespace MenpoModel.Generated.C04Src
open MenpoModel.C04

/-- `np.eye(n)` where the context needs a `(d+1)²` matrix (any other size: not an identity) -/
def npEyeD {d : Nat} (n : Nat) : Mat (d + 1) := if n = d + 1 then Mat.one else fun _ _ => 0
/-- `v.shape[0]` / `v.size` of a vector -/
def vlen {d : Nat} (_ : Vec d) : Nat := d
/-- `(h_y / h_y[:, -1][:, None])[:, :-1]`: division by the homogeneous coordinate (points where it vanishes are outside
the domain: numpy returns inf / nan there) -/
def dehom {d : Nat} (y : Vec (d + 1)) : Option (Vec d) :=
  if y (Fin.last d) = 0 then none else some fun i => y i.castSucc / y (Fin.last d)

/-- which class supplies each method for each family class: the live MRO -/
def supOf : Cls → Meth → Sup
  | .homogeneous, .pseudoinverse => .Homogeneous
  | .homogeneous, .hMatrixPseudoinverse => .Homogeneous
  | .homogeneous, .hasTrueInverse => .Homogeneous
  | .homogeneous, .pseudoinverseVector => .VInvertible
  | .homogeneous, .init => .Homogeneous
  | .homogeneous, .setHMatrix => .Homogeneous
  | .homogeneous, .setRotationMatrix => .missing
  | .homogeneous, .copy => .Copyable
  | .homogeneous, .hMatrix => .Homogeneous
  | .homogeneous, .nDims => .Homogeneous
  | .homogeneous, .scale => .missing
  | .homogeneous, .translationComponent => .missing
  | .homogeneous, .linearComponent => .missing
  | .homogeneous, .rotationMatrix => .missing
  | .affine, .pseudoinverse => .Homogeneous
  | .affine, .hMatrixPseudoinverse => .Homogeneous
  | .affine, .hasTrueInverse => .Homogeneous
  | .affine, .pseudoinverseVector => .VInvertible
  | .affine, .init => .Affine
  | .affine, .setHMatrix => .Affine
  | .affine, .setRotationMatrix => .missing
  | .affine, .copy => .Copyable
  | .affine, .hMatrix => .Affine
  | .affine, .nDims => .Homogeneous
  | .affine, .scale => .missing
  | .affine, .translationComponent => .Affine
  | .affine, .linearComponent => .Affine
  | .affine, .rotationMatrix => .missing
  | .similarity, .pseudoinverse => .Homogeneous
  | .similarity, .hMatrixPseudoinverse => .Homogeneous
  | .similarity, .hasTrueInverse => .Homogeneous
  | .similarity, .pseudoinverseVector => .VInvertible
  | .similarity, .init => .Similarity
  | .similarity, .setHMatrix => .Affine
  | .similarity, .setRotationMatrix => .missing
  | .similarity, .copy => .Copyable
  | .similarity, .hMatrix => .Affine
  | .similarity, .nDims => .Homogeneous
  | .similarity, .scale => .missing
  | .similarity, .translationComponent => .Affine
  | .similarity, .linearComponent => .Affine
  | .similarity, .rotationMatrix => .missing
  | .rotation, .pseudoinverse => .Rotation
  | .rotation, .hMatrixPseudoinverse => .Homogeneous
  | .rotation, .hasTrueInverse => .Homogeneous
  | .rotation, .pseudoinverseVector => .VInvertible
  | .rotation, .init => .Rotation
  | .rotation, .setHMatrix => .Affine
  | .rotation, .setRotationMatrix => .Rotation
  | .rotation, .copy => .Copyable
  | .rotation, .hMatrix => .Affine
  | .rotation, .nDims => .Homogeneous
  | .rotation, .scale => .missing
  | .rotation, .translationComponent => .Affine
  | .rotation, .linearComponent => .Affine
  | .rotation, .rotationMatrix => .Rotation
  | .translation, .pseudoinverse => .Translation
  | .translation, .hMatrixPseudoinverse => .Homogeneous
  | .translation, .hasTrueInverse => .Homogeneous
  | .translation, .pseudoinverseVector => .VInvertible
  | .translation, .init => .Translation
  | .translation, .setHMatrix => .Affine
  | .translation, .setRotationMatrix => .missing
  | .translation, .copy => .Copyable
  | .translation, .hMatrix => .Affine
  | .translation, .nDims => .Homogeneous
  | .translation, .scale => .missing
  | .translation, .translationComponent => .Affine
  | .translation, .linearComponent => .Affine
  | .translation, .rotationMatrix => .missing
  | .uniformScale, .pseudoinverse => .UniformScale
  | .uniformScale, .hMatrixPseudoinverse => .Homogeneous
  | .uniformScale, .hasTrueInverse => .Homogeneous
  | .uniformScale, .pseudoinverseVector => .VInvertible
  | .uniformScale, .init => .UniformScale
  | .uniformScale, .setHMatrix => .Affine
  | .uniformScale, .setRotationMatrix => .missing
  | .uniformScale, .copy => .Copyable
  | .uniformScale, .hMatrix => .Affine
  | .uniformScale, .nDims => .Homogeneous
  | .uniformScale, .scale => .UniformScale
  | .uniformScale, .translationComponent => .Affine
  | .uniformScale, .linearComponent => .Affine
  | .uniformScale, .rotationMatrix => .missing
  | .nonUniformScale, .pseudoinverse => .NonUniformScale
  | .nonUniformScale, .hMatrixPseudoinverse => .Homogeneous
  | .nonUniformScale, .hasTrueInverse => .Homogeneous
  | .nonUniformScale, .pseudoinverseVector => .VInvertible
  | .nonUniformScale, .init => .NonUniformScale
  | .nonUniformScale, .setHMatrix => .Affine
  | .nonUniformScale, .setRotationMatrix => .missing
  | .nonUniformScale, .copy => .Copyable
  | .nonUniformScale, .hMatrix => .Affine
  | .nonUniformScale, .nDims => .Homogeneous
  | .nonUniformScale, .scale => .NonUniformScale
  | .nonUniformScale, .translationComponent => .Affine
  | .nonUniformScale, .linearComponent => .Affine
  | .nonUniformScale, .rotationMatrix => .missing
  | .alignmentAffine, .pseudoinverse => .HomogFamilyAlignment
  | .alignmentAffine, .hMatrixPseudoinverse => .Homogeneous
  | .alignmentAffine, .hasTrueInverse => .Homogeneous
  | .alignmentAffine, .pseudoinverseVector => .VInvertible
  | .alignmentAffine, .init => .AlignmentAffine
  | .alignmentAffine, .setHMatrix => .AlignmentAffine
  | .alignmentAffine, .setRotationMatrix => .missing
  | .alignmentAffine, .copy => .HomogFamilyAlignment
  | .alignmentAffine, .hMatrix => .Affine
  | .alignmentAffine, .nDims => .Targetable
  | .alignmentAffine, .scale => .missing
  | .alignmentAffine, .translationComponent => .Affine
  | .alignmentAffine, .linearComponent => .Affine
  | .alignmentAffine, .rotationMatrix => .missing
  | .alignmentSimilarity, .pseudoinverse => .HomogFamilyAlignment
  | .alignmentSimilarity, .hMatrixPseudoinverse => .Homogeneous
  | .alignmentSimilarity, .hasTrueInverse => .Homogeneous
  | .alignmentSimilarity, .pseudoinverseVector => .VInvertible
  | .alignmentSimilarity, .init => .AlignmentSimilarity
  | .alignmentSimilarity, .setHMatrix => .Affine
  | .alignmentSimilarity, .setRotationMatrix => .missing
  | .alignmentSimilarity, .copy => .HomogFamilyAlignment
  | .alignmentSimilarity, .hMatrix => .Affine
  | .alignmentSimilarity, .nDims => .Targetable
  | .alignmentSimilarity, .scale => .missing
  | .alignmentSimilarity, .translationComponent => .Affine
  | .alignmentSimilarity, .linearComponent => .Affine
  | .alignmentSimilarity, .rotationMatrix => .missing
  | .alignmentRotation, .pseudoinverse => .HomogFamilyAlignment
  | .alignmentRotation, .hMatrixPseudoinverse => .Homogeneous
  | .alignmentRotation, .hasTrueInverse => .Homogeneous
  | .alignmentRotation, .pseudoinverseVector => .VInvertible
  | .alignmentRotation, .init => .AlignmentRotation
  | .alignmentRotation, .setHMatrix => .Affine
  | .alignmentRotation, .setRotationMatrix => .AlignmentRotation
  | .alignmentRotation, .copy => .HomogFamilyAlignment
  | .alignmentRotation, .hMatrix => .Affine
  | .alignmentRotation, .nDims => .Targetable
  | .alignmentRotation, .scale => .missing
  | .alignmentRotation, .translationComponent => .Affine
  | .alignmentRotation, .linearComponent => .Affine
  | .alignmentRotation, .rotationMatrix => .Rotation
  | .alignmentTranslation, .pseudoinverse => .HomogFamilyAlignment
  | .alignmentTranslation, .hMatrixPseudoinverse => .Homogeneous
  | .alignmentTranslation, .hasTrueInverse => .Homogeneous
  | .alignmentTranslation, .pseudoinverseVector => .VInvertible
  | .alignmentTranslation, .init => .AlignmentTranslation
  | .alignmentTranslation, .setHMatrix => .Affine
  | .alignmentTranslation, .setRotationMatrix => .missing
  | .alignmentTranslation, .copy => .HomogFamilyAlignment
  | .alignmentTranslation, .hMatrix => .Affine
  | .alignmentTranslation, .nDims => .Targetable
  | .alignmentTranslation, .scale => .missing
  | .alignmentTranslation, .translationComponent => .Affine
  | .alignmentTranslation, .linearComponent => .Affine
  | .alignmentTranslation, .rotationMatrix => .missing
  | .alignmentUniformScale, .pseudoinverse => .HomogFamilyAlignment
  | .alignmentUniformScale, .hMatrixPseudoinverse => .Homogeneous
  | .alignmentUniformScale, .hasTrueInverse => .Homogeneous
  | .alignmentUniformScale, .pseudoinverseVector => .VInvertible
  | .alignmentUniformScale, .init => .AlignmentUniformScale
  | .alignmentUniformScale, .setHMatrix => .Affine
  | .alignmentUniformScale, .setRotationMatrix => .missing
  | .alignmentUniformScale, .copy => .HomogFamilyAlignment
  | .alignmentUniformScale, .hMatrix => .Affine
  | .alignmentUniformScale, .nDims => .Targetable
  | .alignmentUniformScale, .scale => .UniformScale
  | .alignmentUniformScale, .translationComponent => .Affine
  | .alignmentUniformScale, .linearComponent => .Affine
  | .alignmentUniformScale, .rotationMatrix => .missing

def gen_Homogeneous_h_matrix {d : Nat} {α : Type} (self : HT d α) : Option (Mat (d + 1)) :=
  some ((self).h)

def gen_Affine_h_matrix {d : Nat} {α : Type} (self : HT d α) : Option (Mat (d + 1)) :=
  some ((self).h)

def m_h_matrix {d : Nat} {α : Type} (s : HT d α) : Option (Mat (d + 1)) :=
  (callM (β := HT d α → Option (Mat (d + 1))) [(.Homogeneous, gen_Homogeneous_h_matrix), (.Affine, gen_Affine_h_matrix)] (supOf s.cls .hMatrix)).bind fun f => f s

def gen_Homogeneous_n_dims {d : Nat} {α : Type} (self : HT d α) : Option Nat :=
  (m_h_matrix self).bind fun t_0 =>
    some (((shapeOf t_0) - (1)))

def m_n_dims {d : Nat} {α : Type} (s : HT d α) : Option (Nat) :=
  (callM (β := HT d α → Option Nat) [(.Homogeneous, gen_Homogeneous_n_dims)] (supOf s.cls .nDims)).bind fun f => f s

def gen_Affine_translation_component {d : Nat} {α : Type} (self : HT d α) : Option (Vec d) :=
  (m_h_matrix self).bind fun t_0 =>
    some ((transPart t_0))

def m_translation_component {d : Nat} {α : Type} (s : HT d α) : Option (Vec d) :=
  (callM (β := HT d α → Option (Vec d)) [(.Affine, gen_Affine_translation_component)] (supOf s.cls .translationComponent)).bind fun f => f s

def gen_Affine_linear_component {d : Nat} {α : Type} (self : HT d α) : Option (Mat d) :=
  (m_h_matrix self).bind fun t_0 =>
    some ((linPart t_0))

def m_linear_component {d : Nat} {α : Type} (s : HT d α) : Option (Mat d) :=
  (callM (β := HT d α → Option (Mat d)) [(.Affine, gen_Affine_linear_component)] (supOf s.cls .linearComponent)).bind fun f => f s

def gen_Rotation_rotation_matrix {d : Nat} {α : Type} (self : HT d α) : Option (Mat d) :=
  m_linear_component self

def m_rotation_matrix {d : Nat} {α : Type} (s : HT d α) : Option (Mat d) :=
  (callM (β := HT d α → Option (Mat d)) [(.Rotation, gen_Rotation_rotation_matrix)] (supOf s.cls .rotationMatrix)).bind fun f => f s

def gen_UniformScale_scale {d : Nat} {α : Type} (self : HT d α) : Option Rat :=
  (m_h_matrix self).bind fun t_0 =>
    some ((t_0 0 0))

def gen_NonUniformScale_scale {d : Nat} {α : Type} (self : HT d α) : Option (Vec d) :=
  (m_h_matrix self).bind fun t_0 =>
    some ((diagHead t_0))

def m_scale_u {d : Nat} {α : Type} (s : HT d α) : Option (Rat) :=
  (callM (β := HT d α → Option Rat) [(.UniformScale, gen_UniformScale_scale)] (supOf s.cls .scale)).bind fun f => f s

def m_scale_v {d : Nat} {α : Type} (s : HT d α) : Option (Vec d) :=
  (callM (β := HT d α → Option (Vec d)) [(.NonUniformScale, gen_NonUniformScale_scale)] (supOf s.cls .scale)).bind fun f => f s

def gen_Homogeneous_set_h_matrix_FT {d : Nat} {α : Type} (self : HT d α) (value : Mat (d + 1)) : Option (HT d α) :=
  let self0 := (self).setH value
  some self0

def gen_Affine_set_h_matrix_FT {d : Nat} {α : Type} (self : HT d α) (value : Mat (d + 1)) : Option (HT d α) :=
  let self0 := (self).setH value
  some self0

def m_set_h_matrix_FT {d : Nat} {α : Type} (s : HT d α) (value : Mat (d + 1)) : Option (HT d α) :=
  (callM (β := HT d α → Mat (d + 1) → Option (HT d α)) [(.Homogeneous, gen_Homogeneous_set_h_matrix_FT), (.Affine, gen_Affine_set_h_matrix_FT)] (supOf s.cls .setHMatrix)).bind fun f => f s value

def gen_Rotation_set_rotation_matrix_T {d : Nat} {α : Type} (self : HT d α) (value : Mat d) : Option (HT d α) :=
  let self0 := (self).setH (setLin (self).h value)
  some self0

def m_set_rotation_matrix_T {d : Nat} {α : Type} (s : HT d α) (value : Mat d) : Option (HT d α) :=
  (callM (β := HT d α → Mat d → Option (HT d α)) [(.Rotation, gen_Rotation_set_rotation_matrix_T)] (supOf s.cls .setRotationMatrix)).bind fun f => f s value

def gen_Homogeneous_init_FT {d : Nat} {α : Type} (self : HT d α) (hmatrix : Mat (d + 1)) : Option (HT d α) :=
  let self0 := self
  (m_set_h_matrix_FT self0 hmatrix).bind fun self1 =>
    some self1

def gen_Affine_init_FT {d : Nat} {α : Type} (self : HT d α) (hmatrix : Mat (d + 1)) : Option (HT d α) :=
  (gen_Homogeneous_init_FT self hmatrix).bind fun self0 =>
    some self0

def gen_Similarity_init_FT {d : Nat} {α : Type} (self : HT d α) (hmatrix : Mat (d + 1)) : Option (HT d α) :=
  (gen_Affine_init_FT self hmatrix).bind fun self0 =>
    some self0

/-- `cls(h_matrix, copy=False, skip_checks=True)` for a class whose `__init__` takes a matrix -/
def ctor_dyn_FT {d : Nat} {α : Type} (c : Cls) (hmatrix : Mat (d + 1)) : Option (HT d α) :=
  (callM (β := HT d α → Mat (d + 1) → Option (HT d α)) [(.Homogeneous, gen_Homogeneous_init_FT), (.Affine, gen_Affine_init_FT), (.Similarity, gen_Similarity_init_FT)] (supOf c .init)).bind fun f => f (HT.blank c) hmatrix

def gen_Translation_init_T {d : Nat} {α : Type} (self : HT d α) (translation : Vec d) : Option (HT d α) :=
  let translation0 := translation
  let hmatrix0 := (npEyeD ((vlen translation0) + (1)))
  let hmatrix1 := (setTransCol hmatrix0 translation0)
  (gen_Similarity_init_FT self hmatrix1).bind fun self0 =>
    some self0

def gen_UniformScale_init_T {d : Nat} {α : Type} (self : HT d α) (scale : Rat) (ndims : Nat) : Option (HT d α) :=
  let hmatrix0 := (npEyeD (ndims + (1)))
  let hmatrix1 := (fillDiag hmatrix0 scale)
  let hmatrix0 := (setCorner hmatrix1 (1))
  (gen_Similarity_init_FT self hmatrix0).bind fun self0 =>
    some self0

def gen_NonUniformScale_init_T {d : Nat} {α : Type} (self : HT d α) (scale : Vec d) : Option (HT d α) :=
  let scale0 := scale
  let hmatrix0 := (npEyeD ((vlen scale0) + (1)))
  let hmatrix1 := (fillDiagVec hmatrix0 scale0)
  let hmatrix0 := (setCorner hmatrix1 (1))
  (gen_Affine_init_FT self hmatrix0).bind fun self0 =>
    some self0

def gen_Rotation_init_T {d : Nat} {α : Type} (self : HT d α) (rotationmatrix : Mat d) : Option (HT d α) :=
  let hmatrix0 := (npEyeD ((shapeOf rotationmatrix) + (1)))
  (gen_Similarity_init_FT self hmatrix0).bind fun self0 =>
    (m_set_rotation_matrix_T self0 rotationmatrix).bind fun self1 =>
      some self1

/-- `Translation(…, skip_checks=True)`: `__new__`, then the `__init__` the class resolves to -/
def ctor_Translation_T {d : Nat} {α : Type} (t : Vec d) : Option (HT d α) :=
  if supOf .translation .init = .Translation then gen_Translation_init_T (HT.blank .translation) t else none

/-- `UniformScale(…, skip_checks=True)`: `__new__`, then the `__init__` the class resolves to -/
def ctor_UniformScale_T {d : Nat} {α : Type} (x : Rat) (n : Nat) : Option (HT d α) :=
  if supOf .uniformScale .init = .UniformScale then gen_UniformScale_init_T (HT.blank .uniformScale) x n else none

/-- `NonUniformScale(…, skip_checks=True)`: `__new__`, then the `__init__` the class resolves to -/
def ctor_NonUniformScale_T {d : Nat} {α : Type} (v : Vec d) : Option (HT d α) :=
  if supOf .nonUniformScale .init = .NonUniformScale then gen_NonUniformScale_init_T (HT.blank .nonUniformScale) v else none

/-- `Rotation(…, skip_checks=True)`: `__new__`, then the `__init__` the class resolves to -/
def ctor_Rotation_T {d : Nat} {α : Type} (r : Mat d) : Option (HT d α) :=
  if supOf .rotation .init = .Rotation then gen_Rotation_init_T (HT.blank .rotation) r else none

def gen_Homogeneous_h_matrix_pseudoinverse {d : Nat} {α : Type} (self : HT d α) : Option (Mat (d + 1)) :=
  (m_h_matrix self).bind fun t_0 =>
    inv t_0

def m_h_matrix_pseudoinverse {d : Nat} {α : Type} (s : HT d α) : Option (Mat (d + 1)) :=
  (callM (β := HT d α → Option (Mat (d + 1))) [(.Homogeneous, gen_Homogeneous_h_matrix_pseudoinverse)] (supOf s.cls .hMatrixPseudoinverse)).bind fun f => f s

def gen_Homogeneous_has_true_inverse {d : Nat} {α : Type} (self : HT d α) : Option Bool :=
  some (true)

def m_has_true_inverse {d : Nat} {α : Type} (s : HT d α) : Option (Bool) :=
  (callM (β := HT d α → Option Bool) [(.Homogeneous, gen_Homogeneous_has_true_inverse)] (supOf s.cls .hasTrueInverse)).bind fun f => f s

def gen_HomogFamilyAlignment_copy {d : Nat} {α : Type} (self : HT d α) : Option (HT d α) :=
  let new0 := (HT.blank (self).cls : HT d α)
  let new1 := (new0).withDictOf self
  let new0 := (new1).setH (new1).h
  some (new0)

def m_copy {d : Nat} {α : Type} (s : HT d α) : Option (HT d α) :=
  (callM (β := HT d α → Option (HT d α)) [(.HomogFamilyAlignment, gen_HomogFamilyAlignment_copy)] (supOf s.cls .copy)).bind fun f => f s

def gen_Homogeneous_pseudoinverse {d : Nat} {α : Type} (self : HT d α) : Option (HT d α) :=
  (m_h_matrix_pseudoinverse self).bind fun t_0 =>
    ctor_dyn_FT (self).cls t_0

def gen_Rotation_pseudoinverse {d : Nat} {α : Type} (self : HT d α) : Option (HT d α) :=
  (m_rotation_matrix self).bind fun t_0 =>
    (inv t_0).bind fun t_1 =>
      ctor_Rotation_T t_1

def gen_Translation_pseudoinverse {d : Nat} {α : Type} (self : HT d α) : Option (HT d α) :=
  (m_translation_component self).bind fun t_0 =>
    ctor_Translation_T (vneg t_0)

def gen_UniformScale_pseudoinverse {d : Nat} {α : Type} (self : HT d α) : Option (HT d α) :=
  (m_scale_u self).bind fun t_0 =>
    (m_n_dims self).bind fun t_1 =>
      ctor_UniformScale_T (1 / t_0) t_1

def gen_NonUniformScale_pseudoinverse {d : Nat} {α : Type} (self : HT d α) : Option (HT d α) :=
  (m_scale_v self).bind fun t_0 =>
    ctor_NonUniformScale_T (vrecip t_0)

def gen_HomogFamilyAlignment_pseudoinverse {d : Nat} {α : Type} (self : HT d α) : Option (HT d α) :=
  (m_copy self).bind fun selfcopy0 =>
    (m_h_matrix_pseudoinverse self).bind fun t_0 =>
      let selfcopy1 := (selfcopy0).setH t_0
      let v_1 := (selfcopy1).target
      let v_2 := (selfcopy1).source
      let selfcopy0 := (selfcopy1).setSource v_1
      let selfcopy1 := (selfcopy0).setTarget v_2
      some (selfcopy1)

/-- `t.pseudoinverse()` AS THE SOURCE SAYS IT NOW: the translated body of the class the live MRO names -/
def srcPinv {d : Nat} {α : Type} (s : HT d α) : Option (HT d α) :=
  (callM (β := HT d α → Option (HT d α)) [(.Homogeneous, gen_Homogeneous_pseudoinverse), (.Rotation, gen_Rotation_pseudoinverse), (.Translation, gen_Translation_pseudoinverse), (.UniformScale, gen_UniformScale_pseudoinverse), (.NonUniformScale, gen_NonUniformScale_pseudoinverse), (.HomogFamilyAlignment, gen_HomogFamilyAlignment_pseudoinverse)] (supOf s.cls .pseudoinverse)).bind fun f => f s

def gen_VInvertible_pseudoinverse_vector {d : Nat} {α V : Type} (fromVec : HT d α → V → Option (HT d α)) (asVec : HT d α → V) (self : HT d α) (vector : V) : Option V :=
  (fromVec self vector).bind fun t_0 =>
    (srcPinv t_0).bind fun t_1 =>
      some ((asVec t_1))

def gen_Homogeneous_set_h_matrix_TF {d : Nat} {α : Type} (self : HT d α) (value : Mat (d + 1)) : Option (HT d α) :=
  let value0 := value
  let self0 := (self).setH value0
  some self0

def gen_Homogeneous_init_TF {d : Nat} {α : Type} (self : HT d α) (hmatrix : Mat (d + 1)) : Option (HT d α) :=
  let self0 := self
  ((if supOf (self0).cls .setHMatrix = .Homogeneous then gen_Homogeneous_set_h_matrix_TF self0 hmatrix else none)).bind fun self1 =>
    some self1

/-- `Homogeneous(m)` -/
def ctor_Homogeneous_default {d : Nat} {α : Type} (m : Mat (d + 1)) : Option (HT d α) :=
  if supOf .homogeneous .init = .Homogeneous then gen_Homogeneous_init_TF (HT.blank .homogeneous) m else none

def gen_ThinPlateSplines_init {n : Nat} (φ : KCls → Rat → Rat) (self : TPSObj n) (source target : Fin n → P2) (kernel : Option (Kernel n)) (minsingularval : Rat) : Option (TPSObj n) :=
  let self0 := { self with src := source, tgt := target }
  if (((2) != (2))) then
    none
  else
    if ((kernel).isNone) then
      let kernel0 := (some (Kernel.mk .R2LogR2RBF source))
      let self1 := { self0 with msv := minsingularval }
      let self0 := { self1 with kernel := kernel0 }
      let self1 := { self0 with k := some (kernApply φ (self0).kernel (self0).src) }
      let self0 := { self1 with p := some (pMat (self1).src) }
      let o0 := zeros33
      let topl0 := (hcat (arrOr0 (self0).k) (arrOr0 (self0).p))
      let botl0 := (hcat (trM (arrOr0 (self0).p)) o0)
      let self1 := { self0 with l := some (vcat topl0 botl0) }
      let self0 := self1
      let self1 := self0
      let self0 := self1
      let self1 := self0
      some self1
    else
      let self1 := { self0 with msv := minsingularval }
      let self0 := { self1 with kernel := kernel }
      let self1 := { self0 with k := some (kernApply φ (self0).kernel (self0).src) }
      let self0 := { self1 with p := some (pMat (self1).src) }
      let o0 := zeros33
      let topl0 := (hcat (arrOr0 (self0).k) (arrOr0 (self0).p))
      let botl0 := (hcat (trM (arrOr0 (self0).p)) o0)
      let self1 := { self0 with l := some (vcat topl0 botl0) }
      let self0 := self1
      let self1 := self0
      let self0 := self1
      let self1 := self0
      some self1

def gen_ThinPlateSplines_pseudoinverse {n : Nat} (φ : KCls → Rat → Rat) (self : TPSObj n) : Option (TPSObj n) :=
  let kernel0 := ((self).kernel.map fun k0 => Kernel.mk k0.cls (self).tgt)
  gen_ThinPlateSplines_init φ TPSObj.blank (self).tgt (self).src kernel0 (self).msv

def gen_ThinPlateSplines_has_true_inverse {n : Nat} (self : TPSObj n) : Option Bool :=
  some (false)

def gen_AbstractPWA_init (delaunay : List P2 → List (Nat × Nat × Nat)) (self : PWAObj) (source target : ShapeObj) : Option PWAObj :=
  if (!(source).trilist.isSome) then
    let source0 := (mkTriMesh delaunay (source).points none)
    let self0 := { self with source := source0, target := target }
    if (((2) != (2))) then
      none
    else
      let self1 := self0
      let self0 := self1
      let self1 := self0
      let self0 := self1
      some self0
  else
    let self0 := { self with source := source, target := target }
    if (((2) != (2))) then
      none
    else
      let self1 := self0
      let self0 := self1
      let self1 := self0
      let self0 := self1
      some self0

def gen_AbstractPWA_pseudoinverse (delaunay : List P2 → List (Nat × Nat × Nat)) (self : PWAObj) : Option PWAObj :=
  let newsource0 := (mkTriMesh delaunay ((self).target).points ((self).source).trilist)
  let newtarget0 := (ShapeObj.mk ((self).source).points none)
  gen_AbstractPWA_init delaunay (PWAObj.blank (self).kind) newsource0 newtarget0

def gen_AbstractPWA_has_true_inverse (self : PWAObj) : Option Bool :=
  some (true)

def gen_Targetable_verify_target_tps {n : Nat} (φ : KCls → Rat → Rat) (self : TPSObj n) (newtarget : Fin n → P2) : Option (TPSObj n) :=
  if (((2) != (2))) then
    none
  else
    if (((n) != (n))) then
      none
    else
      some self

def gen_Alignment_target_setter_tps {n : Nat} (φ : KCls → Rat → Rat) (self : TPSObj n) (newtarget : Fin n → P2) : Option (TPSObj n) :=
  let self0 := { self with tgt := newtarget }
  some self0

def gen_Targetable_target_setter_with_verification_tps {n : Nat} (φ : KCls → Rat → Rat) (self : TPSObj n) (newtarget : Fin n → P2) : Option (TPSObj n) :=
  (gen_Targetable_verify_target_tps φ self newtarget).bind fun self0 =>
    (gen_Alignment_target_setter_tps φ self0 newtarget).bind fun self1 =>
      some self1

def gen_ThinPlateSplines_sync_state_from_target {n : Nat} (φ : KCls → Rat → Rat) (self : TPSObj n) : Option (TPSObj n) :=
  let self0 := self
  some self0

def gen_Targetable_set_target_tps {n : Nat} (φ : KCls → Rat → Rat) (self : TPSObj n) (newtarget : Fin n → P2) : Option (TPSObj n) :=
  (gen_Targetable_target_setter_with_verification_tps φ self newtarget).bind fun self0 =>
    (gen_ThinPlateSplines_sync_state_from_target φ self0).bind fun self1 =>
      some self1

def gen_Targetable_verify_target_pwa (self : PWAObj) (newtarget : ShapeObj) : Option (PWAObj) :=
  if (((2) != (2))) then
    none
  else
    if ((((newtarget).points.length) != (((self).target).points.length))) then
      none
    else
      some self

def gen_Alignment_target_setter_pwa (self : PWAObj) (newtarget : ShapeObj) : Option (PWAObj) :=
  let self0 := { self with target := newtarget }
  some self0

def gen_Targetable_target_setter_with_verification_pwa (self : PWAObj) (newtarget : ShapeObj) : Option (PWAObj) :=
  (gen_Targetable_verify_target_pwa self newtarget).bind fun self0 =>
    (gen_Alignment_target_setter_pwa self0 newtarget).bind fun self1 =>
      some self1

def gen_AbstractPWA_sync_state_from_target (self : PWAObj) : Option (PWAObj) :=
  let self0 := self
  some self0

def gen_Targetable_set_target_pwa (self : PWAObj) (newtarget : ShapeObj) : Option (PWAObj) :=
  (gen_Targetable_target_setter_with_verification_pwa self newtarget).bind fun self0 =>
    (gen_AbstractPWA_sync_state_from_target self0).bind fun self1 =>
      some self1

def gen_alpha_beta (i ij ik points : P2) : Option (Rat × Rat) :=
  let ip0 := (points - i)
  let dotjj0 := (P2.dot ij ij)
  let dotkk0 := (P2.dot ik ik)
  let dotjk0 := (P2.dot ij ik)
  let dotpj0 := (P2.dot ip0 ij)
  let dotpk0 := (P2.dot ip0 ik)
  let d0 := (1 / ((dotjj0 * dotkk0) - (dotjk0 * dotjk0)))
  let alpha0 := (((dotkk0 * dotpj0) - (dotjk0 * dotpk0)) * d0)
  let beta0 := (((dotjj0 * dotpk0) - (dotjk0 * dotpj0)) * d0)
  some ((alpha0, beta0))

/-- one triangle of the trilist -/
def gen_barycentric_vectors (points : List P2) (trilist : Nat × Nat × Nat) : Option (P2 × P2 × P2) :=
  let x0 := (triOf points trilist)
  some (((x0).a, ((x0).b - (x0).a), ((x0).c - (x0).a)))

/-- seen from one triangle of the trilist -/
def gen_rebuild_target_vectors (self : PWATri) : Option PWATri :=
  let t0 := (triOf (self).tgt (self).tri)
  let v_0 := ((t0).b - (t0).a)
  let v_1 := ((t0).c - (t0).a)
  let self0 := { self with vecs := { (self).vecs with tij := v_0 } }
  let self1 := { self0 with vecs := { (self0).vecs with tik := v_1 } }
  let self0 := { self1 with vecs := { (self1).vecs with ti := (t0).a } }
  some self0

/-- one point: `iab` = `index_alpha_beta` on it, `self k` = the rows (ti, tij, tik) of triangle `k` -/
def gen_AbstractPWA_apply (iab : P2 → Option (Nat × Rat × Rat)) (self : Nat → TriVecs) (x : P2) : Option P2 :=
  (iab x).bind fun t_0 =>
    let p0 := t_0
    let triindex0 := p0.1
    let alpha0 := p0.2.1
    let beta0 := p0.2.2
    some (((((self) triindex0).ti + (alpha0 * ((self) triindex0).tij)) + (beta0 * ((self) triindex0).tik)))

def gen_Homogeneous_apply {d : Nat} {α : Type} (self : HT d α) (x : Vec d) : Option (Vec d) :=
  let hx0 := (hom x)
  let hy0 := (Mat.mulVec (self).h hx0)
  dehom hy0

def gen_tcoords_to_image_coords (imageshape : Rat × Rat) : Option (HT 2 Unit) :=
  (ctor_Homogeneous_default (α := Unit) (m3 (1) (0) (0) (0) (-(1)) (1) (0) (0) (1))).bind fun invertunity0 =>
    (ctor_Homogeneous_default (α := Unit) (m3 (0) (1) (0) (1) (0) (0) (0) (0) (1))).bind fun flipxyyx0 =>
      some ((HT.composeBeforeH (HT.composeBeforeH invertunity0 flipxyyx0) (scaleFactory (vsubOne (shapeVec imageshape)) : HT 2 Unit)))

def gen_image_coords_to_tcoords (imageshape : Rat × Rat) : Option (HT 2 Unit) :=
  (gen_tcoords_to_image_coords imageshape).bind fun t_0 =>
    srcPinv t_0

end MenpoModel.Generated.C04Src
