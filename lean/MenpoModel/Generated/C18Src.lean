/- TRANSLATED by harness/trans_c18.py (harness/py2lean2.py, harness/py2lean2f.py) from the SOURCE TEXT of
   menpo/feature/base.py, features.py, visualize.py and predefined.py of the current working tree on every run of
   `./check C18`; do not edit.  GenProps/C18Src.lean proves every definition equal to the Core definition the C18
   theorems are about. -/
import MenpoModel.Core.C18Src

set_option linter.unusedVariables false

namespace MenpoModel.Generated.C18Src
open MenpoModel.C18

def genSampleMask (mask : Mask) (centres : Centres) : Except Err Mask :=
  (sampleMask mask centres)

def genCentresCorrection (centres : Centres) : Corr :=
  let t0 := (centresMin centres)
  let stepv0 := (((cAt centres (0) (0)).1 : Nat) : Int)
  if (decide ((List.length centres) > (1))) then
    let stepv1 := ((((cAt centres (1) (0)).1 : Nat) : Int) - (((cAt centres (0) (0)).1 : Nat) : Int))
    let steph0 := (((cAt centres (0) (0)).2 : Nat) : Int)
    if (decide ((List.length (List.headD centres [])) > (1))) then
      let steph1 := ((((cAt centres (0) (1)).2 : Nat) : Int) - (((cAt centres (0) (0)).2 : Nat) : Int))
      let s0 := ((stepv1, steph1) : Int × Int)
      ((t0, s0) : Corr)
    else
      let s0 := ((stepv1, steph0) : Int × Int)
      ((t0, s0) : Corr)
  else
    let steph0 := (((cAt centres (0) (0)).2 : Nat) : Int)
    if (decide ((List.length (List.headD centres [])) > (1))) then
      let steph1 := ((((cAt centres (0) (1)).2 : Nat) : Int) - (((cAt centres (0) (0)).2 : Nat) : Int))
      let s0 := ((stepv0, steph1) : Int × Int)
      ((t0, s0) : Corr)
    else
      let s0 := ((stepv0, steph0) : Int × Int)
      ((t0, s0) : Corr)

def genRebuild {P : Type} (sh : P → List Nat) (image : Img P) (fpixels : P) : Except Err (Img P) :=
  let shapechanged0 := (((sh fpixels) != (sh image.pixels)))
  if (image.mask.isSome) then
    if shapechanged0 then
      ((HasMask.maskOf image)).bind fun h_0 =>
      ((resizeMask h_0 (sh fpixels))).bind fun mask0 =>
        let newimage0 := (Img.mk fpixels (some mask0) [])
        if (!(image.lms.isEmpty)) then
          if shapechanged0 then
            let sf0 := (ratio (sh fpixels) (sh image.pixels))
            let newimage1 := { newimage0 with lms := scaleLms sf0 image.lms }
            .ok (newimage1)
          else
            let newimage1 := { newimage0 with lms := image.lms }
            .ok (newimage1)
        else
          .ok (newimage0)
    else
      ((HasMask.maskOf image)).bind fun h_1 =>
      let mask0 := h_1
      let newimage0 := (Img.mk fpixels (some mask0) [])
      if (!(image.lms.isEmpty)) then
        if shapechanged0 then
          let sf0 := (ratio (sh fpixels) (sh image.pixels))
          let newimage1 := { newimage0 with lms := scaleLms sf0 image.lms }
          .ok (newimage1)
        else
          let newimage1 := { newimage0 with lms := image.lms }
          .ok (newimage1)
      else
        .ok (newimage0)
  else
    let newimage0 := (Img.mk fpixels none [])
    if (!(image.lms.isEmpty)) then
      if shapechanged0 then
        let sf0 := (ratio (sh fpixels) (sh image.pixels))
        let newimage1 := { newimage0 with lms := scaleLms sf0 image.lms }
        .ok (newimage1)
      else
        let newimage1 := { newimage0 with lms := image.lms }
        .ok (newimage1)
    else
      .ok (newimage0)

def genRebuildCentres {P : Type} (image : Img P) (fpixels : P) (centres : Centres) : Except Err (Img P) :=
  if (image.mask.isSome) then
    ((HasMask.maskOf image)).bind fun h_0 =>
    ((HasMask.maskOf h_0)).bind fun h_1 =>
    ((genSampleMask h_1 centres)).bind fun mask0 =>
      let newimage0 := (Img.mk fpixels (some mask0) [])
      if (!(image.lms.isEmpty)) then
        let t0 := (genCentresCorrection centres)
        let newimage1 := { newimage0 with lms := applyCorr t0 image.lms }
        .ok (newimage1)
      else
        .ok (newimage0)
  else
    let newimage0 := (Img.mk fpixels none [])
    if (!(image.lms.isEmpty)) then
      let t0 := (genCentresCorrection centres)
      let newimage1 := { newimage0 with lms := applyCorr t0 image.lms }
      .ok (newimage1)
    else
      .ok (newimage0)

def genNdfeature {P : Type} (sh : P → List Nat) (f : P → Except Err P) (x : Arg P) : Except Err (Arg P) :=
  if (!(Arg.isArr x)) then
    ((HasPixels.pixelsE x)).bind fun h_0 =>
    ((callArr f h_0)).bind fun feature0 =>
      ((callImg (fun im => genRebuild sh im feature0) x)).bind fun r0 =>
        .ok (ToArg.toArg (r0))
  else
    ((callArr f x)).bind fun r0 =>
      .ok (ToArg.toArg (r0))

def genImgfeature {P : Type} (g : Img P → Except Err (Img P)) (x : Arg P) : Except Err (Arg P) :=
  if (Arg.isArr x) then
    ((mkImage (P := P) x)).bind fun image0 =>
      ((callImg g image0)).bind fun h_0 =>
      ((HasPixels.pixelsE h_0)).bind fun r0 =>
        .ok (ToArg.toArg (r0))
  else
    ((callImg g x)).bind fun r0 =>
      .ok (ToArg.toArg (r0))

def genWinitfeature {P : Type} (f : P → Except Err (P × Centres)) (x : Arg P) : Except Err (Arg P) :=
  if (!(Arg.isArr x)) then
    ((HasPixels.pixelsE x)).bind fun h_0 =>
    ((callArr f h_0)).bind fun pr0 =>
      let p0 := pr0
      let feature0 := p0.1
      let centres0 := p0.2
      ((callImg (fun im => genRebuildCentres im feature0 centres0) x)).bind fun r0 =>
        .ok (ToArg.toArg (r0))
  else
    (((callArr f x).map Prod.fst)).bind fun r0 =>
      .ok (ToArg.toArg (r0))

def genNormalizeRaw (img : Img Arr) (scalefunc : Option ScaleFn) (mode : ModeArg) (err : Bool) : Except NErr (Img Arr) :=
  if (scalefunc.isNone) then
    let scalefunc0 : Option (ScaleFn) := some (fun u0 axis0 => ([1] : Scl))
    let pixels0 := (asVector img)
    if ((mode == ModeArg.all)) then
      let centeredpixels0 := (bsub pixels0 ([mean (List.flatten pixels0)] : Scl))
      ((callScale scalefunc0 centeredpixels0 none)).bind fun scalefactor0 =>
        let zerodenom0 := (List.map (fun v => v == 0) scalefactor0)
        let anynonzero0 := (List.any zerodenom0 id)
        if (err && anynonzero0) then
          .error .zeroScale
        else
          if anynonzero0 then
            let safescalefactor0 := (List.map (fun v => if v == 0 then 1 else v) scalefactor0)
            .ok ((fromVector img (bdiv centeredpixels0 safescalefactor0)))
          else
            .ok ((fromVector img (bdiv centeredpixels0 scalefactor0)))
    else
      if ((mode == ModeArg.perChannel)) then
        let centeredpixels0 := (bsub pixels0 (List.map mean pixels0))
        ((callScale scalefunc0 centeredpixels0 (some 1))).bind fun h_0 =>
        let scalefactor0 := h_0
        let zerodenom0 := (List.map (fun v => v == 0) scalefactor0)
        let anynonzero0 := (List.any zerodenom0 id)
        if (err && anynonzero0) then
          .error .zeroScale
        else
          if anynonzero0 then
            let safescalefactor0 := (List.map (fun v => if v == 0 then 1 else v) scalefactor0)
            .ok ((fromVector img (bdiv centeredpixels0 safescalefactor0)))
          else
            .ok ((fromVector img (bdiv centeredpixels0 scalefactor0)))
      else
        .error .zeroScale
  else
    let pixels0 := (asVector img)
    if ((mode == ModeArg.all)) then
      let centeredpixels0 := (bsub pixels0 ([mean (List.flatten pixels0)] : Scl))
      ((callScale scalefunc centeredpixels0 none)).bind fun scalefactor0 =>
        let zerodenom0 := (List.map (fun v => v == 0) scalefactor0)
        let anynonzero0 := (List.any zerodenom0 id)
        if (err && anynonzero0) then
          .error .zeroScale
        else
          if anynonzero0 then
            let safescalefactor0 := (List.map (fun v => if v == 0 then 1 else v) scalefactor0)
            .ok ((fromVector img (bdiv centeredpixels0 safescalefactor0)))
          else
            .ok ((fromVector img (bdiv centeredpixels0 scalefactor0)))
    else
      if ((mode == ModeArg.perChannel)) then
        let centeredpixels0 := (bsub pixels0 (List.map mean pixels0))
        ((callScale scalefunc centeredpixels0 (some 1))).bind fun h_1 =>
        let scalefactor0 := h_1
        let zerodenom0 := (List.map (fun v => v == 0) scalefactor0)
        let anynonzero0 := (List.any zerodenom0 id)
        if (err && anynonzero0) then
          .error .zeroScale
        else
          if anynonzero0 then
            let safescalefactor0 := (List.map (fun v => if v == 0 then 1 else v) scalefactor0)
            .ok ((fromVector img (bdiv centeredpixels0 safescalefactor0)))
          else
            .ok ((fromVector img (bdiv centeredpixels0 scalefactor0)))
      else
        .error .zeroScale

def genNormalize (scalefunc : Option ScaleFn) (mode : ModeArg) (err : Bool) : Arg Arr → Except Err (Arg Arr) :=
  genImgfeature (fun img => liftN (genNormalizeRaw img scalefunc mode err))

def genNormalizeStdRaw (np : NpStats) (pixels : Arr) (mode : ModeArg) (err : Bool) : Except Err Arr :=
  let unitstd0 := (fun x0 axis0 => (reduceAx np.std x0 axis0))
  ((genNormalize unitstd0 mode err (Arg.arr pixels)).bind Arg.arrE)

def genNormalizeStd (np : NpStats) (mode : ModeArg) (err : Bool) : Arg Arr → Except Err (Arg Arr) :=
  genNdfeature (fun p => p.shape) (fun pixels => genNormalizeStdRaw np pixels mode err)

def genNormalizeNormRaw (np : NpStats) (pixels : Arr) (mode : ModeArg) (err : Bool) : Except Err Arr :=
  let unitnorm0 := (fun x0 axis0 => (reduceAx np.norm x0 axis0))
  ((genNormalize unitnorm0 mode err (Arg.arr pixels)).bind Arg.arrE)

def genNormalizeNorm (np : NpStats) (mode : ModeArg) (err : Bool) : Arg Arr → Except Err (Arg Arr) :=
  genNdfeature (fun p => p.shape) (fun pixels => genNormalizeNormRaw np pixels mode err)

def genNormalizeVarRaw (np : NpStats) (pixels : Arr) (mode : ModeArg) (err : Bool) : Except Err Arr :=
  let unitvar0 := (fun x0 axis0 => (reduceAx var x0 axis0))
  ((genNormalize unitvar0 mode err (Arg.arr pixels)).bind Arg.arrE)

def genNormalizeVar (np : NpStats) (mode : ModeArg) (err : Bool) : Arg Arr → Except Err (Arg Arr) :=
  genNdfeature (fun p => p.shape) (fun pixels => genNormalizeVarRaw np pixels mode err)

def genNoOpRaw {P : Type} (pixels : P) : Except Err (Fresh P) :=
  .ok ((Fresh.mk pixels))

def genNoOp {P : Type} (sh : P → List Nat) : Arg P → Except Err (Arg P) :=
  genNdfeature sh (fun pixels => (genNoOpRaw pixels).map Fresh.val)

def genGradientRaw (isU8 : Bool) (pixels : Px) : Except Err Px :=
  if isU8 then
    .error (.feature codeTypeError)
  else
    let ndims0 := ((3 : Nat) - (1))
    ((List.mapM (fun it0 => let g0 := it0; (npGradient g0)) pixels)).bind fun gradperdimperchannel0 =>
      let gradperchannel0 := (List.flatten gradperdimperchannel0)
      let gradperchannel1 := (List.map (fun it0 => let g0 := it0; ([g0] : Px)) gradperchannel0)
      let gradperchannel0 := (List.map (fun it0 => let i0 := it0; (takeEvery ndims0 i0 gradperchannel1)) (List.range ndims0))
      let gradperchannel1 := (List.flatten gradperchannel0)
      .ok ((List.flatten gradperchannel1))

def genGradient (isU8 : Bool) : Arg Px → Except Err (Arg Px) :=
  genNdfeature sh2 (genGradientRaw isU8)

def genGaussianFilterRaw (pixels : Px) (sigma : Option Kern × Option Kern) : Except Err Px :=
  let output0 := (List.replicate (List.length pixels) ([] : Chan2))
  let r0 := MenpoModel.Py.forLoop output0 ((List.range (List.length pixels))) (fun acc0 it0 =>
      let output1 := acc0
      let dim0 := it0
      let output0 := (List.set output1 dim0 (scipyGauss sigma (List.getD pixels dim0 [])))
      output0)
  let output1 := r0
  .ok (output1)

def genGaussianFilter (sigma : Option Kern × Option Kern) : Arg Px → Except Err (Arg Px) :=
  genNdfeature sh2 (fun pixels => genGaussianFilterRaw pixels sigma)

def genIgoRaw (mag : Rat → Rat → Rat) (nDims : Nat) (pixels : Px) (dbl : Bool) : Except Err Px :=
  if (((nDims + 1) != (3))) then
    .error (.feature codeNot2D)
  else
    let nimgchnls0 := (List.length pixels)
    let featchnls0 := (2)
    if dbl then
      let featchnls1 := (4)
      (((genGradient false (Arg.arr pixels)).bind Arg.arrE)).bind fun grad0 =>
        let gradorient0 := (angleC (Cplx.mk (List.take nimgchnls0 grad0) (List.drop nimgchnls0 grad0)))
        let igopixels0 := (List.replicate (nimgchnls0 * featchnls1) ([] : Chan2))
        if dbl then
          let dblgradorient0 := (dblAngle gradorient0)
          let igopixels1 := (setSlice igopixels0 0 nimgchnls0 (sinA mag gradorient0))
          let igopixels0 := (setSlice igopixels1 nimgchnls0 (nimgchnls0 * (2)) (sinA mag dblgradorient0))
          let igopixels1 := (setSlice igopixels0 (nimgchnls0 * (2)) (nimgchnls0 * (3)) (cosA mag gradorient0))
          let igopixels0 := (setSliceFrom igopixels1 (nimgchnls0 * (3)) (cosA mag dblgradorient0))
          .ok (igopixels0)
        else
          let igopixels1 := (setSlice igopixels0 0 nimgchnls0 (sinA mag gradorient0))
          let igopixels0 := (setSliceFrom igopixels1 nimgchnls0 (cosA mag gradorient0))
          .ok (igopixels0)
    else
      (((genGradient false (Arg.arr pixels)).bind Arg.arrE)).bind fun grad0 =>
        let gradorient0 := (angleC (Cplx.mk (List.take nimgchnls0 grad0) (List.drop nimgchnls0 grad0)))
        let igopixels0 := (List.replicate (nimgchnls0 * featchnls0) ([] : Chan2))
        if dbl then
          let dblgradorient0 := (dblAngle gradorient0)
          let igopixels1 := (setSlice igopixels0 0 nimgchnls0 (sinA mag gradorient0))
          let igopixels0 := (setSlice igopixels1 nimgchnls0 (nimgchnls0 * (2)) (sinA mag dblgradorient0))
          let igopixels1 := (setSlice igopixels0 (nimgchnls0 * (2)) (nimgchnls0 * (3)) (cosA mag gradorient0))
          let igopixels0 := (setSliceFrom igopixels1 (nimgchnls0 * (3)) (cosA mag dblgradorient0))
          .ok (igopixels0)
        else
          let igopixels1 := (setSlice igopixels0 0 nimgchnls0 (sinA mag gradorient0))
          let igopixels0 := (setSliceFrom igopixels1 nimgchnls0 (cosA mag gradorient0))
          .ok (igopixels0)

def genIgo (mag : Rat → Rat → Rat) (nDims : Nat) (dbl : Bool) : Arg Px → Except Err (Arg Px) :=
  genNdfeature sh2 (fun pixels => genIgoRaw mag nDims pixels dbl)

def genDoubleIgo : (Rat → Rat → Rat) → Nat → Arg Px → Except Err (Arg Px) :=
  (fun mag nDims => genIgo mag nDims true)

def genEsRaw (mag : Rat → Rat → Rat) (nDims : Nat) (pixels : Px) : Except Err (List OChan2) :=
  if (((nDims + 1) != (3))) then
    .error (.feature codeNot2D)
  else
    let nimgchnls0 := (List.length pixels)
    let featchannels0 := (2)
    (((genGradient false (Arg.arr pixels)).bind Arg.arrE)).bind fun grad0 =>
      let gradabs0 := (absC mag (Cplx.mk (List.take nimgchnls0 grad0) (List.drop nimgchnls0 grad0)))
      let gradabs1 := (addScalar gradabs0 (medianPx gradabs0))
      let espixels0 := (List.replicate ((List.length pixels) * featchannels0) ([] : OChan2))
      let espixels1 := (setSlice espixels0 0 nimgchnls0 (divPx (List.take nimgchnls0 grad0) gradabs1))
      let espixels0 := (setSliceFrom espixels1 nimgchnls0 (divPx (List.drop nimgchnls0 grad0) gradabs1))
      .ok (espixels0)

def genSumChannelsRaw (pixels : Px) (channels : Option (List Nat)) : Except Err Px :=
  if (channels.isNone) then
    let sumimage0 := (sumAxis0 pixels)
    .ok (([sumimage0] : Px))
  else
    let sumimage0 := (sumAxis0 (selectChans pixels (Option.getD channels [])))
    .ok (([sumimage0] : Px))

def genSumChannels (channels : Option (List Nat)) : Arg Px → Except Err (Arg Px) :=
  genNdfeature sh2 (fun pixels => genSumChannelsRaw pixels channels)

def genDaisyRaw (lib : Px → DaisyCall → Except Err Px) (pixels : Px) (step : Nat) (radius : Rat) (rings : Int)
    (histograms orientations : Nat) (normalization : Option DaisyNorm) (sigmas ringradii : Option (List Rat)) :
    Except Err Px :=
  if ((!sigmas.isNone) && (!ringradii.isNone) && ((((optLen sigmas) - (1)) != (optLen ringradii)))) then
    .error (.feature codeValueError)
  else
    if (!ringradii.isNone) then
      let rings0 := (optLen ringradii)
      ((optLastE ringradii)).bind fun radius0 =>
        if (!sigmas.isNone) then
          let rings1 := ((optLen sigmas) - (1))
          if (sigmas.isNone) then
            let sigmas0 : Option (List Rat) := some (List.map (fun it0 => let i0 := it0; ((radius0 * (i0 + (1))) / (((((2) * rings1)) : Int) : Rat))) (pyRangeQ rings1))
            if (ringradii.isNone) then
              let ringradii0 : Option (List Rat) := some (List.map (fun it0 => let i0 := it0; ((radius0 * (i0 + (1))) / (((rings1) : Int) : Rat))) (pyRangeQ rings1))
              if (normalization.isNone) then
                let normalization0 := (some DaisyNorm.off)
                if (!(List.contains [(some DaisyNorm.l1), (some DaisyNorm.l2), (some DaisyNorm.daisy), (some DaisyNorm.off)] normalization0)) then
                  .error (.feature codeValueError)
                else
                  ((lib pixels ⟨step, radius0, rings1, histograms, orientations, normalization0, sigmas0, ringradii0⟩)).bind fun daisydescriptor0 =>
                    .ok (daisydescriptor0)
              else
                if (!(List.contains [(some DaisyNorm.l1), (some DaisyNorm.l2), (some DaisyNorm.daisy), (some DaisyNorm.off)] normalization)) then
                  .error (.feature codeValueError)
                else
                  ((lib pixels ⟨step, radius0, rings1, histograms, orientations, normalization, sigmas0, ringradii0⟩)).bind fun daisydescriptor0 =>
                    .ok (daisydescriptor0)
            else
              if (normalization.isNone) then
                let normalization0 := (some DaisyNorm.off)
                if (!(List.contains [(some DaisyNorm.l1), (some DaisyNorm.l2), (some DaisyNorm.daisy), (some DaisyNorm.off)] normalization0)) then
                  .error (.feature codeValueError)
                else
                  ((lib pixels ⟨step, radius0, rings1, histograms, orientations, normalization0, sigmas0, ringradii⟩)).bind fun daisydescriptor0 =>
                    .ok (daisydescriptor0)
              else
                if (!(List.contains [(some DaisyNorm.l1), (some DaisyNorm.l2), (some DaisyNorm.daisy), (some DaisyNorm.off)] normalization)) then
                  .error (.feature codeValueError)
                else
                  ((lib pixels ⟨step, radius0, rings1, histograms, orientations, normalization, sigmas0, ringradii⟩)).bind fun daisydescriptor0 =>
                    .ok (daisydescriptor0)
          else
            if (ringradii.isNone) then
              let ringradii0 : Option (List Rat) := some (List.map (fun it0 => let i0 := it0; ((radius0 * (i0 + (1))) / (((rings1) : Int) : Rat))) (pyRangeQ rings1))
              if (normalization.isNone) then
                let normalization0 := (some DaisyNorm.off)
                if (!(List.contains [(some DaisyNorm.l1), (some DaisyNorm.l2), (some DaisyNorm.daisy), (some DaisyNorm.off)] normalization0)) then
                  .error (.feature codeValueError)
                else
                  ((lib pixels ⟨step, radius0, rings1, histograms, orientations, normalization0, sigmas, ringradii0⟩)).bind fun daisydescriptor0 =>
                    .ok (daisydescriptor0)
              else
                if (!(List.contains [(some DaisyNorm.l1), (some DaisyNorm.l2), (some DaisyNorm.daisy), (some DaisyNorm.off)] normalization)) then
                  .error (.feature codeValueError)
                else
                  ((lib pixels ⟨step, radius0, rings1, histograms, orientations, normalization, sigmas, ringradii0⟩)).bind fun daisydescriptor0 =>
                    .ok (daisydescriptor0)
            else
              if (normalization.isNone) then
                let normalization0 := (some DaisyNorm.off)
                if (!(List.contains [(some DaisyNorm.l1), (some DaisyNorm.l2), (some DaisyNorm.daisy), (some DaisyNorm.off)] normalization0)) then
                  .error (.feature codeValueError)
                else
                  ((lib pixels ⟨step, radius0, rings1, histograms, orientations, normalization0, sigmas, ringradii⟩)).bind fun daisydescriptor0 =>
                    .ok (daisydescriptor0)
              else
                if (!(List.contains [(some DaisyNorm.l1), (some DaisyNorm.l2), (some DaisyNorm.daisy), (some DaisyNorm.off)] normalization)) then
                  .error (.feature codeValueError)
                else
                  ((lib pixels ⟨step, radius0, rings1, histograms, orientations, normalization, sigmas, ringradii⟩)).bind fun daisydescriptor0 =>
                    .ok (daisydescriptor0)
        else
          if (sigmas.isNone) then
            let sigmas0 : Option (List Rat) := some (List.map (fun it0 => let i0 := it0; ((radius0 * (i0 + (1))) / (((((2) * rings0)) : Int) : Rat))) (pyRangeQ rings0))
            if (ringradii.isNone) then
              let ringradii0 : Option (List Rat) := some (List.map (fun it0 => let i0 := it0; ((radius0 * (i0 + (1))) / (((rings0) : Int) : Rat))) (pyRangeQ rings0))
              if (normalization.isNone) then
                let normalization0 := (some DaisyNorm.off)
                if (!(List.contains [(some DaisyNorm.l1), (some DaisyNorm.l2), (some DaisyNorm.daisy), (some DaisyNorm.off)] normalization0)) then
                  .error (.feature codeValueError)
                else
                  ((lib pixels ⟨step, radius0, rings0, histograms, orientations, normalization0, sigmas0, ringradii0⟩)).bind fun daisydescriptor0 =>
                    .ok (daisydescriptor0)
              else
                if (!(List.contains [(some DaisyNorm.l1), (some DaisyNorm.l2), (some DaisyNorm.daisy), (some DaisyNorm.off)] normalization)) then
                  .error (.feature codeValueError)
                else
                  ((lib pixels ⟨step, radius0, rings0, histograms, orientations, normalization, sigmas0, ringradii0⟩)).bind fun daisydescriptor0 =>
                    .ok (daisydescriptor0)
            else
              if (normalization.isNone) then
                let normalization0 := (some DaisyNorm.off)
                if (!(List.contains [(some DaisyNorm.l1), (some DaisyNorm.l2), (some DaisyNorm.daisy), (some DaisyNorm.off)] normalization0)) then
                  .error (.feature codeValueError)
                else
                  ((lib pixels ⟨step, radius0, rings0, histograms, orientations, normalization0, sigmas0, ringradii⟩)).bind fun daisydescriptor0 =>
                    .ok (daisydescriptor0)
              else
                if (!(List.contains [(some DaisyNorm.l1), (some DaisyNorm.l2), (some DaisyNorm.daisy), (some DaisyNorm.off)] normalization)) then
                  .error (.feature codeValueError)
                else
                  ((lib pixels ⟨step, radius0, rings0, histograms, orientations, normalization, sigmas0, ringradii⟩)).bind fun daisydescriptor0 =>
                    .ok (daisydescriptor0)
          else
            if (ringradii.isNone) then
              let ringradii0 : Option (List Rat) := some (List.map (fun it0 => let i0 := it0; ((radius0 * (i0 + (1))) / (((rings0) : Int) : Rat))) (pyRangeQ rings0))
              if (normalization.isNone) then
                let normalization0 := (some DaisyNorm.off)
                if (!(List.contains [(some DaisyNorm.l1), (some DaisyNorm.l2), (some DaisyNorm.daisy), (some DaisyNorm.off)] normalization0)) then
                  .error (.feature codeValueError)
                else
                  ((lib pixels ⟨step, radius0, rings0, histograms, orientations, normalization0, sigmas, ringradii0⟩)).bind fun daisydescriptor0 =>
                    .ok (daisydescriptor0)
              else
                if (!(List.contains [(some DaisyNorm.l1), (some DaisyNorm.l2), (some DaisyNorm.daisy), (some DaisyNorm.off)] normalization)) then
                  .error (.feature codeValueError)
                else
                  ((lib pixels ⟨step, radius0, rings0, histograms, orientations, normalization, sigmas, ringradii0⟩)).bind fun daisydescriptor0 =>
                    .ok (daisydescriptor0)
            else
              if (normalization.isNone) then
                let normalization0 := (some DaisyNorm.off)
                if (!(List.contains [(some DaisyNorm.l1), (some DaisyNorm.l2), (some DaisyNorm.daisy), (some DaisyNorm.off)] normalization0)) then
                  .error (.feature codeValueError)
                else
                  ((lib pixels ⟨step, radius0, rings0, histograms, orientations, normalization0, sigmas, ringradii⟩)).bind fun daisydescriptor0 =>
                    .ok (daisydescriptor0)
              else
                if (!(List.contains [(some DaisyNorm.l1), (some DaisyNorm.l2), (some DaisyNorm.daisy), (some DaisyNorm.off)] normalization)) then
                  .error (.feature codeValueError)
                else
                  ((lib pixels ⟨step, radius0, rings0, histograms, orientations, normalization, sigmas, ringradii⟩)).bind fun daisydescriptor0 =>
                    .ok (daisydescriptor0)
    else
      if (!sigmas.isNone) then
        let rings0 := ((optLen sigmas) - (1))
        if (sigmas.isNone) then
          let sigmas0 : Option (List Rat) := some (List.map (fun it0 => let i0 := it0; ((radius * (i0 + (1))) / (((((2) * rings0)) : Int) : Rat))) (pyRangeQ rings0))
          if (ringradii.isNone) then
            let ringradii0 : Option (List Rat) := some (List.map (fun it0 => let i0 := it0; ((radius * (i0 + (1))) / (((rings0) : Int) : Rat))) (pyRangeQ rings0))
            if (normalization.isNone) then
              let normalization0 := (some DaisyNorm.off)
              if (!(List.contains [(some DaisyNorm.l1), (some DaisyNorm.l2), (some DaisyNorm.daisy), (some DaisyNorm.off)] normalization0)) then
                .error (.feature codeValueError)
              else
                ((lib pixels ⟨step, radius, rings0, histograms, orientations, normalization0, sigmas0, ringradii0⟩)).bind fun daisydescriptor0 =>
                  .ok (daisydescriptor0)
            else
              if (!(List.contains [(some DaisyNorm.l1), (some DaisyNorm.l2), (some DaisyNorm.daisy), (some DaisyNorm.off)] normalization)) then
                .error (.feature codeValueError)
              else
                ((lib pixels ⟨step, radius, rings0, histograms, orientations, normalization, sigmas0, ringradii0⟩)).bind fun daisydescriptor0 =>
                  .ok (daisydescriptor0)
          else
            if (normalization.isNone) then
              let normalization0 := (some DaisyNorm.off)
              if (!(List.contains [(some DaisyNorm.l1), (some DaisyNorm.l2), (some DaisyNorm.daisy), (some DaisyNorm.off)] normalization0)) then
                .error (.feature codeValueError)
              else
                ((lib pixels ⟨step, radius, rings0, histograms, orientations, normalization0, sigmas0, ringradii⟩)).bind fun daisydescriptor0 =>
                  .ok (daisydescriptor0)
            else
              if (!(List.contains [(some DaisyNorm.l1), (some DaisyNorm.l2), (some DaisyNorm.daisy), (some DaisyNorm.off)] normalization)) then
                .error (.feature codeValueError)
              else
                ((lib pixels ⟨step, radius, rings0, histograms, orientations, normalization, sigmas0, ringradii⟩)).bind fun daisydescriptor0 =>
                  .ok (daisydescriptor0)
        else
          if (ringradii.isNone) then
            let ringradii0 : Option (List Rat) := some (List.map (fun it0 => let i0 := it0; ((radius * (i0 + (1))) / (((rings0) : Int) : Rat))) (pyRangeQ rings0))
            if (normalization.isNone) then
              let normalization0 := (some DaisyNorm.off)
              if (!(List.contains [(some DaisyNorm.l1), (some DaisyNorm.l2), (some DaisyNorm.daisy), (some DaisyNorm.off)] normalization0)) then
                .error (.feature codeValueError)
              else
                ((lib pixels ⟨step, radius, rings0, histograms, orientations, normalization0, sigmas, ringradii0⟩)).bind fun daisydescriptor0 =>
                  .ok (daisydescriptor0)
            else
              if (!(List.contains [(some DaisyNorm.l1), (some DaisyNorm.l2), (some DaisyNorm.daisy), (some DaisyNorm.off)] normalization)) then
                .error (.feature codeValueError)
              else
                ((lib pixels ⟨step, radius, rings0, histograms, orientations, normalization, sigmas, ringradii0⟩)).bind fun daisydescriptor0 =>
                  .ok (daisydescriptor0)
          else
            if (normalization.isNone) then
              let normalization0 := (some DaisyNorm.off)
              if (!(List.contains [(some DaisyNorm.l1), (some DaisyNorm.l2), (some DaisyNorm.daisy), (some DaisyNorm.off)] normalization0)) then
                .error (.feature codeValueError)
              else
                ((lib pixels ⟨step, radius, rings0, histograms, orientations, normalization0, sigmas, ringradii⟩)).bind fun daisydescriptor0 =>
                  .ok (daisydescriptor0)
            else
              if (!(List.contains [(some DaisyNorm.l1), (some DaisyNorm.l2), (some DaisyNorm.daisy), (some DaisyNorm.off)] normalization)) then
                .error (.feature codeValueError)
              else
                ((lib pixels ⟨step, radius, rings0, histograms, orientations, normalization, sigmas, ringradii⟩)).bind fun daisydescriptor0 =>
                  .ok (daisydescriptor0)
      else
        if (sigmas.isNone) then
          let sigmas0 : Option (List Rat) := some (List.map (fun it0 => let i0 := it0; ((radius * (i0 + (1))) / (((((2) * rings)) : Int) : Rat))) (pyRangeQ rings))
          if (ringradii.isNone) then
            let ringradii0 : Option (List Rat) := some (List.map (fun it0 => let i0 := it0; ((radius * (i0 + (1))) / (((rings) : Int) : Rat))) (pyRangeQ rings))
            if (normalization.isNone) then
              let normalization0 := (some DaisyNorm.off)
              if (!(List.contains [(some DaisyNorm.l1), (some DaisyNorm.l2), (some DaisyNorm.daisy), (some DaisyNorm.off)] normalization0)) then
                .error (.feature codeValueError)
              else
                ((lib pixels ⟨step, radius, rings, histograms, orientations, normalization0, sigmas0, ringradii0⟩)).bind fun daisydescriptor0 =>
                  .ok (daisydescriptor0)
            else
              if (!(List.contains [(some DaisyNorm.l1), (some DaisyNorm.l2), (some DaisyNorm.daisy), (some DaisyNorm.off)] normalization)) then
                .error (.feature codeValueError)
              else
                ((lib pixels ⟨step, radius, rings, histograms, orientations, normalization, sigmas0, ringradii0⟩)).bind fun daisydescriptor0 =>
                  .ok (daisydescriptor0)
          else
            if (normalization.isNone) then
              let normalization0 := (some DaisyNorm.off)
              if (!(List.contains [(some DaisyNorm.l1), (some DaisyNorm.l2), (some DaisyNorm.daisy), (some DaisyNorm.off)] normalization0)) then
                .error (.feature codeValueError)
              else
                ((lib pixels ⟨step, radius, rings, histograms, orientations, normalization0, sigmas0, ringradii⟩)).bind fun daisydescriptor0 =>
                  .ok (daisydescriptor0)
            else
              if (!(List.contains [(some DaisyNorm.l1), (some DaisyNorm.l2), (some DaisyNorm.daisy), (some DaisyNorm.off)] normalization)) then
                .error (.feature codeValueError)
              else
                ((lib pixels ⟨step, radius, rings, histograms, orientations, normalization, sigmas0, ringradii⟩)).bind fun daisydescriptor0 =>
                  .ok (daisydescriptor0)
        else
          if (ringradii.isNone) then
            let ringradii0 : Option (List Rat) := some (List.map (fun it0 => let i0 := it0; ((radius * (i0 + (1))) / (((rings) : Int) : Rat))) (pyRangeQ rings))
            if (normalization.isNone) then
              let normalization0 := (some DaisyNorm.off)
              if (!(List.contains [(some DaisyNorm.l1), (some DaisyNorm.l2), (some DaisyNorm.daisy), (some DaisyNorm.off)] normalization0)) then
                .error (.feature codeValueError)
              else
                ((lib pixels ⟨step, radius, rings, histograms, orientations, normalization0, sigmas, ringradii0⟩)).bind fun daisydescriptor0 =>
                  .ok (daisydescriptor0)
            else
              if (!(List.contains [(some DaisyNorm.l1), (some DaisyNorm.l2), (some DaisyNorm.daisy), (some DaisyNorm.off)] normalization)) then
                .error (.feature codeValueError)
              else
                ((lib pixels ⟨step, radius, rings, histograms, orientations, normalization, sigmas, ringradii0⟩)).bind fun daisydescriptor0 =>
                  .ok (daisydescriptor0)
          else
            if (normalization.isNone) then
              let normalization0 := (some DaisyNorm.off)
              if (!(List.contains [(some DaisyNorm.l1), (some DaisyNorm.l2), (some DaisyNorm.daisy), (some DaisyNorm.off)] normalization0)) then
                .error (.feature codeValueError)
              else
                ((lib pixels ⟨step, radius, rings, histograms, orientations, normalization0, sigmas, ringradii⟩)).bind fun daisydescriptor0 =>
                  .ok (daisydescriptor0)
            else
              if (!(List.contains [(some DaisyNorm.l1), (some DaisyNorm.l2), (some DaisyNorm.daisy), (some DaisyNorm.off)] normalization)) then
                .error (.feature codeValueError)
              else
                ((lib pixels ⟨step, radius, rings, histograms, orientations, normalization, sigmas, ringradii⟩)).bind fun daisydescriptor0 =>
                  .ok (daisydescriptor0)

def genDaisy (lib : Px → DaisyCall → Except Err Px) (step : Nat) (radius : Rat) (rings : Int)
    (histograms orientations : Nat) (normalization : Option DaisyNorm) (sigmas ringradii : Option (List Rat)) :
    Arg Px → Except Err (Arg Px) :=
  genNdfeature sh2 (fun pixels => genDaisyRaw lib pixels step radius rings histograms orientations normalization sigmas ringradii)

def genDecorators : List (String × String) :=
  [("gradient", "ndfeature"),
   ("gaussian_filter", "ndfeature"),
   ("igo", "ndfeature"),
   ("es", "ndfeature"),
   ("daisy", "ndfeature"),
   ("normalize", "imgfeature"),
   ("normalize_norm", "ndfeature"),
   ("normalize_std", "ndfeature"),
   ("normalize_var", "ndfeature"),
   ("no_op", "ndfeature"),
   ("sum_channels", "ndfeature")]

def genDefaults : List (String × String × String) :=
  [("igo", "double_angles", "False"),
   ("igo", "verbose", "False"),
   ("es", "verbose", "False"),
   ("daisy", "step", "1"),
   ("daisy", "radius", "15"),
   ("daisy", "rings", "2"),
   ("daisy", "histograms", "2"),
   ("daisy", "orientations", "8"),
   ("daisy", "normalization", "'l1'"),
   ("daisy", "sigmas", "None"),
   ("daisy", "ring_radii", "None"),
   ("daisy", "verbose", "False"),
   ("normalize", "scale_func", "None"),
   ("normalize", "mode", "'all'"),
   ("normalize", "error_on_divide_by_zero", "True"),
   ("normalize_norm", "mode", "'all'"),
   ("normalize_norm", "error_on_divide_by_zero", "True"),
   ("normalize_std", "mode", "'all'"),
   ("normalize_std", "error_on_divide_by_zero", "True"),
   ("normalize_var", "mode", "'all'"),
   ("normalize_var", "error_on_divide_by_zero", "True"),
   ("sum_channels", "channels", "None")]


end MenpoModel.Generated.C18Src
