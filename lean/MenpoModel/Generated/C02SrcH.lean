/- TRANSLATED by harness/trans_c02.py (harness/py2lean2.py, harness/py2lean2x.py) from the SOURCE TEXT of the menpo
   working tree on every run of `./check C02`; do not edit.  The same methods as Generated/C02SrcV.lean, read with the
   HEAP vocabulary of Core/C02SrcH.lean (objects are cells, attribute assignment is a write, the closure allocates, a
   call may raise and hands the heap back).  GenProps/C02SrcH.lean proves `srcHMethods = coreHMethods`. -/
import MenpoModel.Core.C02SrcH

set_option linter.unusedVariables false

namespace MenpoModel.C02.Generated
open MenpoModel.C02

def srcH_n_groups (self : Val) : HM Int :=
  HM.bind (getAttr self "_landmark_groups") fun h_0 =>
  dictLen h_0

def srcH_landmarks (self : Val) : HM Val :=
  HM.bind (getAttr self "_landmarks") fun h_0 =>
  if (Val.isNone h_0) then
    HM.bind (newManager) fun h_1 =>
    HM.bind (setAttr self "_landmarks" h_1) fun _r_2 =>
    getAttr self "_landmarks"
  else
    getAttr self "_landmarks"

def srcH_has_landmarks (self : Val) : HM Bool :=
  HM.bind (getAttr self "_landmarks") fun h_0 =>
  (if (!(Val.isNone h_0)) then (HM.bind (srcH_landmarks self) fun h_1 => (HM.bind (propOn Cls.LandmarkManager srcH_n_groups h_1) fun h_2 => HM.ok (((h_2 != (0)))))) else HM.ok (false))

def srcH_shape_inplace (callM callSelf : Val → Fn → HM Val) (self : Val) (transform : Fn) : HM Val :=
  HM.bind (srcH_has_landmarks self) fun h_0 =>
  if h_0 then
    HM.bind (srcH_landmarks self) fun h_1 =>
    HM.bind (callM h_1 transform) fun _r_2 =>
    callSelf self transform
  else
    callSelf self transform

def srcH_shape_self (self : Val) (transform : Fn) : HM Val :=
  HM.ok (Val.imm 0)

def srcH_pc_self (self : Val) (transform : Fn) : HM Val :=
  HM.bind (getAttr self "points") fun h_0 =>
  HM.bind (callFn transform h_0) fun h_1 =>
  HM.bind (setAttr self "points" h_1) fun _r_2 =>
  HM.ok (self)

def srcH_lm_inplace (callS : Val → Fn → HM Val) (self : Val) (transform : Fn) : HM Val :=
  HM.bind (getAttr self "_landmark_groups") fun h_0 =>
  HM.bind (dictValues h_0) fun h_1 =>
  HM.bind (HM.forLoop () h_1 (fun acc0 it0 =>
      let group0 := it0
      HM.bind (callS group0 transform) fun _r_2 =>
      HM.ok (()))) fun r_3 =>
  HM.ok (self)

def srcH_t_inplace (self : Val) (transform : Fn) : HM Val :=
  HM.err Err.notImpl

def srcH_t_transform (callCopy : Val → HM Val) (callI : Val → Fn → HM Val) (self : Val) (transform : Fn) :
    HM Val :=
  HM.bind (callCopy self) fun copyofself0 =>
    HM.bind (callI copyofself0 transform) fun _r_0 =>
    HM.ok (copyofself0)


/-- the translated methods, as the record method resolution (`hTransform` …) runs over -/
def srcHMethods : HMethods where
  nGroups := srcH_n_groups
  landmarks := srcH_landmarks
  hasLandmarks := srcH_has_landmarks
  shapeInplace := srcH_shape_inplace
  shapeSelf := srcH_shape_self
  pcSelf := srcH_pc_self
  lmInplace := srcH_lm_inplace
  tInplace := srcH_t_inplace
  transform := srcH_t_transform

end MenpoModel.C02.Generated
