/- TRANSLATED by harness/trans_c01.py from the SAME SOURCE TEXT as Generated/C01Src.lean, over the 3-D vocabulary
   (Core/C01Src3.lean): the n-D functions of menpo/image/base.py, masked.py, boolean.py, interpolation.py and
   menpo/transform/compositions.py of the current working tree, on every run of `./check C01`; do not edit.
   GenProps/C01Src3.lean proves every definition equal to the 3-D plans executed through the funnel. -/
import MenpoModel.Core.C01Src3

set_option linter.unusedVariables false

namespace MenpoModel.C01Gen3
open MenpoModel.C01 hiding boundsOf rangeOf
open MenpoModel.C01.Src3

def genScipyInterpolation (spl : Spl) (pixels : Pixels) (pointstosample : PtArr) (mode : String) (order : Nat) (cval : Rat) : Sampled :=
  let sampledpixelvalues0 := (emptySampled (nChannelsP pixels) (Pixels.isBool pixels))
  let pointstosamplet0 := pointstosample
  let r0 := MenpoModel.Py.forLoop sampledpixelvalues0 ((PyIter.iter (pyRange (nChannelsP pixels)))) (fun acc0 it0 =>
      let sampledpixelvalues1 := acc0
      let i0 := it0
      let sampledpixelvalues0 := (setSampled sampledpixelvalues1 i0 (mapCoordinates spl (Sampled.isBool sampledpixelvalues1) (channel pixels i0) pointstosamplet0 mode order cval))
      sampledpixelvalues0)
  let sampledpixelvalues1 := r0
  sampledpixelvalues1

def genImageSample (spl : Spl) (slf : Obj) (pointstosample : PtArr) (order : Nat) (mode : String) (cval : Rat) : Except PyExc (Sampled) :=
  (Except.ok (genScipyInterpolation spl (pixelsOf slf) pointstosample mode order (PyNum.num cval)))

def genBooleanSample (spl : Spl) (slf : Obj) (pointstosample : PtArr) (mode : String) (cval : Rat) : Except PyExc (Sampled) :=
  (genImageSample spl slf pointstosample (0) mode (PyNum.num cval))

def genMaskedSample (spl : Spl) (slf : Obj) (pointstosample : PtArr) (order : Nat) (mode : String) (cval : Rat) (verifymask : Bool) : Except PyExc (Sampled) :=
  (match (genImageSample spl slf pointstosample order mode (PyNum.num cval)) with
  | .error e => (Except.error e)
  | .ok sampledvalues0 =>
    if verifymask then
      (match (genBooleanSample spl (maskObj slf) pointstosample mode (PyNum.num cval)) with
      | .error e => (Except.error e)
      | .ok sampledmask0 =>
        if (!(sampledAllTrue sampledmask0)) then
          (Except.error PyExc.valueErr)
        else
          (Except.ok sampledvalues0))
    else
      (Except.ok sampledvalues0))

def genBuildWarpToShape (slf : Obj) (warpedpixels : Pixels) (transform : TObj) (warplandmarks : Bool) (returntransform : Bool) : Except PyExc (Ret) :=
  let warpedimage0 := (newImage warpedpixels)
  if (warplandmarks && (hasLandmarks slf)) then
    let warpedimage1 := (setLandmarks warpedimage0 (landmarksOf slf))
    let warpedimage0 := (mapLandmarks warpedimage1 (TObj.pinv transform))
    if (hasPath slf) then
      let warpedimage1 := (setPath warpedimage0 (pathOf slf))
      if returntransform then
        (Except.ok (ToRet.toRet (warpedimage1, transform)))
      else
        (Except.ok (ToRet.toRet warpedimage1))
    else
      if returntransform then
        (Except.ok (ToRet.toRet (warpedimage0, transform)))
      else
        (Except.ok (ToRet.toRet warpedimage0))
  else
    if (hasPath slf) then
      let warpedimage1 := (setPath warpedimage0 (pathOf slf))
      if returntransform then
        (Except.ok (ToRet.toRet (warpedimage1, transform)))
      else
        (Except.ok (ToRet.toRet warpedimage1))
    else
      if returntransform then
        (Except.ok (ToRet.toRet (warpedimage0, transform)))
      else
        (Except.ok (ToRet.toRet warpedimage0))

def genImageWarpToShape (spl : Spl) (slf : Obj) (templateshape : IVec) (transform : TObj) (warplandmarks : Bool) (order : Nat) (mode : String) (cval : Rat) (batchsize : Option Nat) (returntransform : Bool) : Except PyExc (Ret) :=
  let templateshape0 := templateshape
  if ((TObj.isHomogeneous transform) && (decide (order < 2)) && ((ndims == (2))) && false) then
    let warpedpixels0 := (cv2Warp (pixelsOf slf) templateshape0 transform)
    (genBuildWarpToShape slf warpedpixels0 transform warplandmarks returntransform)
  else
    let templatepoints0 := (indicesForImageOfShape templateshape0)
    let pointstosample0 := (applyPts transform templatepoints0 batchsize)
    (match (match (slf).cls with | .image => (genImageSample spl slf pointstosample0 order mode (PyNum.num cval)) | .masked => (genMaskedSample spl slf pointstosample0 order mode (PyNum.num cval) false) | .boolean => (genBooleanSample spl slf pointstosample0 mode (PyNum.num cval))) with
    | .error e => (Except.error e)
    | .ok sampled0 =>
      let sampled1 := sampled0
      let warpedpixels0 := (reshapeSampled sampled1 templateshape0)
      (genBuildWarpToShape slf warpedpixels0 transform warplandmarks returntransform))

def genBooleanWarpToShape (spl : Spl) (slf : Obj) (templateshape : IVec) (transform : TObj) (warplandmarks : Bool) (mode : String) (cval : Rat) (batchsize : Option Nat) (returntransform : Bool) : Except PyExc (Ret) :=
  (match (Except.map Ret.obj (genImageWarpToShape spl slf templateshape transform warplandmarks (0) mode (PyNum.num cval) batchsize false)) with
  | .error e => (Except.error e)
  | .ok warped0 =>
    let booleanimage0 := (newBoolean (pixelsOf warped0))
    if (hasLandmarks warped0) then
      let booleanimage1 := (setLandmarks booleanimage0 (landmarksOf warped0))
      if (hasPath warped0) then
        let booleanimage0 := (setPath booleanimage1 (pathOf warped0))
        if returntransform then
          (Except.ok (ToRet.toRet (booleanimage0, transform)))
        else
          (Except.ok (ToRet.toRet booleanimage0))
      else
        if returntransform then
          (Except.ok (ToRet.toRet (booleanimage1, transform)))
        else
          (Except.ok (ToRet.toRet booleanimage1))
    else
      if (hasPath warped0) then
        let booleanimage1 := (setPath booleanimage0 (pathOf warped0))
        if returntransform then
          (Except.ok (ToRet.toRet (booleanimage1, transform)))
        else
          (Except.ok (ToRet.toRet booleanimage1))
      else
        if returntransform then
          (Except.ok (ToRet.toRet (booleanimage0, transform)))
        else
          (Except.ok (ToRet.toRet booleanimage0)))

def genMaskedWarpToShape (spl : Spl) (slf : Obj) (templateshape : IVec) (transform : TObj) (warplandmarks : Bool) (order : Nat) (mode : String) (cval : Rat) (batchsize : Option Nat) (returntransform : Bool) : Except PyExc (Ret) :=
  (match (Except.map Ret.obj (genImageWarpToShape spl slf templateshape transform warplandmarks order mode (PyNum.num cval) batchsize false)) with
  | .error e => (Except.error e)
  | .ok warpedimage0 =>
    (match (Except.map Ret.obj (genBooleanWarpToShape spl (maskObj slf) templateshape transform warplandmarks mode (PyNum.num cval) none false)) with
    | .error e => (Except.error e)
    | .ok mask0 =>
      let maskedwarpedimage0 := (asMasked warpedimage0 mask0)
      if (hasPath warpedimage0) then
        let maskedwarpedimage1 := (setPath maskedwarpedimage0 (pathOf warpedimage0))
        if returntransform then
          (Except.ok (ToRet.toRet (maskedwarpedimage1, transform)))
        else
          (Except.ok (ToRet.toRet maskedwarpedimage1))
      else
        if returntransform then
          (Except.ok (ToRet.toRet (maskedwarpedimage0, transform)))
        else
          (Except.ok (ToRet.toRet maskedwarpedimage0))))

def genRoundImageShape (shape : Vec) (round : String) : Except PyExc (IVec) :=
  if (!(List.contains ["ceil", "round", "floor"] round)) then
    (Except.error PyExc.valueErr)
  else
    (Except.ok (roundVec round shape))

def genCentre (slf : Obj) : Vec :=
  ((IVec.toV (shapeOf slf)) / (2))

def genConstrainPointsToBounds (slf : Obj) (points : Vec) : Vec :=
  let boundedpoints0 := (Owned.mk points)
  let boundedpoints1 := (Owned.vwhere (vltZero (AsVec.vec boundedpoints0)) (0) boundedpoints0)
  let shape0 := (IVec.toV (shapeOf slf))
  let overimage0 := (vltZero (AsVec.vec (shape0 - boundedpoints1)))
  let boundedpoints0 := (Owned.vwhere overimage0 shape0 boundedpoints1)
  (AsVec.vec boundedpoints0)

def genTransformAboutCentreT (obj : Obj) (transform : TObj) : TObj :=
  let toorigin0 := (TObj.translation (-(genCentre obj)))
  let backtocentre0 := (TObj.translation (genCentre obj))
  if (TObj.isHomogeneous transform) then
    (TObj.composeBefore (TObj.composeBefore toorigin0 transform) backtocentre0)
  else
    (TObj.chain3 toorigin0 transform backtocentre0)

def genScaleAboutCentre (obj : Obj) (scale : Rat) : TObj :=
  let s0 := (TObj.uniformScale scale)
  (genTransformAboutCentreT obj s0)

def genCrop (spl : Spl) (slf : Obj) (minindices : Vec) (maxindices : Vec) (constraintoboundary : Bool) (returntransform : Bool) : Except PyExc (Ret) :=
  let minindices0 := (vfloor minindices)
  let maxindices0 := (vceil maxindices)
  if (!(((vsize minindices0) == (vsize maxindices0)) && ((vsize maxindices0) == ndims))) then
    (Except.error PyExc.valueErr)
  else
    if (!(vallGt maxindices0 minindices0)) then
      (Except.error PyExc.valueErr)
    else
      let minbounded0 := (genConstrainPointsToBounds slf minindices0)
      let maxbounded0 := (genConstrainPointsToBounds slf maxindices0)
      let allminbounded0 := (vallEq minbounded0 minindices0)
      let allmaxbounded0 := (vallEq maxbounded0 maxindices0)
      if (!(constraintoboundary || (allminbounded0 && allmaxbounded0))) then
        (Except.error PyExc.boundaryErr)
      else
        let newshape0 := (vtrunc (maxbounded0 - minbounded0))
        (match (match (slf).cls with | .image => (genImageWarpToShape spl slf newshape0 (TObj.translation minbounded0) true (0) "constant" (PyNum.num ((0 : Rat) / 1)) none returntransform) | .masked => (genMaskedWarpToShape spl slf newshape0 (TObj.translation minbounded0) true (0) "constant" (PyNum.num ((0 : Rat) / 1)) none returntransform) | .boolean => (genBooleanWarpToShape spl slf newshape0 (TObj.translation minbounded0) true "constant" (PyNum.num false) none returntransform)) with
        | .error e => (Except.error e)
        | .ok result0 =>
          let cropped0 := (Ret.obj result0)
          let block0 := (List.map (fun it0 => let p0 := it0; let lo0 := p0.1; let hi0 := p0.2; (lo0, hi0)) (PyIter.iter (vzip (vtrunc minbounded0) (vtrunc maxbounded0))))
          let cropped1 := (setPixelValues cropped0 (pixelBlock slf block0))
          let result1 := (Ret.withObj result0 cropped1)
          (Except.ok result1))

def genCropToPointcloud (spl : Spl) (slf : Obj) (pointcloud : List Vec) (boundary : Rat) (constraintoboundary : Bool) (returntransform : Bool) : Except PyExc (Ret) :=
  let p0 := (boundsOf pointcloud boundary)
  let minindices0 := p0.1
  let maxindices0 := p0.2
  (genCrop spl slf minindices0 maxindices0 constraintoboundary returntransform)

def genCropToLandmarks (spl : Spl) (slf : Obj) (group : Option String) (boundary : Rat) (constraintoboundary : Bool) (returntransform : Bool) : Except PyExc (Ret) :=
  let pc0 := (lmGroup slf group)
  (genCropToPointcloud spl slf pc0 boundary constraintoboundary returntransform)

def genCropToPointcloudProportion (spl : Spl) (slf : Obj) (pointcloud : List Vec) (boundaryproportion : Rat) (minimum : Bool) (constraintoboundary : Bool) (returntransform : Bool) : Except PyExc (Ret) :=
  if minimum then
    let boundary0 := (boundaryproportion * (vmin (rangeOf pointcloud)))
    (genCropToPointcloud spl slf pointcloud boundary0 constraintoboundary returntransform)
  else
    let boundary0 := (boundaryproportion * (vmax (rangeOf pointcloud)))
    (genCropToPointcloud spl slf pointcloud boundary0 constraintoboundary returntransform)

def genCropToLandmarksProportion (spl : Spl) (slf : Obj) (boundaryproportion : Rat) (group : Option String) (minimum : Bool) (constraintoboundary : Bool) (returntransform : Bool) : Except PyExc (Ret) :=
  let pc0 := (lmGroup slf group)
  (genCropToPointcloudProportion spl slf pc0 boundaryproportion minimum constraintoboundary returntransform)

def genRescale (spl : Spl) (slf : Obj) (scale : ScaleArg) (round : String) (order : Nat) (warplandmarks : Bool) (returntransform : Bool) : Except PyExc (Ret) :=
  match (
      (match pyLenScale scale with
      | .error e => (Except.error e)
      | .ok tmp0 =>
      if (decide (tmp0 < ndims)) then
        (Except.error PyExc.valueErr)
      else
        (Except.ok ()))) with
  | .ok t0 =>
    let scale0 := (ScaleArg.toVec scale)
    if (List.any (PyIter.iter scale0) (fun it0 => let s0 := it0; (decide (s0 ≤ 0)))) then
      (Except.error PyExc.valueErr)
    else
      let transform0 := (TObj.nonUniformScale scale0)
      (match (genRoundImageShape (TObj.applyVec transform0 (IVec.toV (shapeOf slf))) round) with
      | .error e => (Except.error e)
      | .ok templateshape0 =>
        let shape0 := (IVec.toV (shapeOf slf))
        let scalefactors0 := (((scale0 * shape0) - (1)) / (shape0 - (1)))
        let inversetransform0 := (TObj.pinv (TObj.nonUniformScale scalefactors0))
        (match (slf).cls with | .image => (genImageWarpToShape spl slf templateshape0 inversetransform0 warplandmarks order "nearest" (PyNum.num ((0 : Rat) / 1)) none returntransform) | .masked => (genMaskedWarpToShape spl slf templateshape0 inversetransform0 warplandmarks order "nearest" (PyNum.num ((0 : Rat) / 1)) none returntransform) | .boolean => (genBooleanWarpToShape spl slf templateshape0 inversetransform0 warplandmarks "nearest" (PyNum.num false) none returntransform)))
  | .error .typeErr =>
    let scale0 := (ScaleArg.rep scale ndims)
    let scale1 := (ScaleArg.toVec scale0)
    if (List.any (PyIter.iter scale1) (fun it0 => let s0 := it0; (decide (s0 ≤ 0)))) then
      (Except.error PyExc.valueErr)
    else
      let transform0 := (TObj.nonUniformScale scale1)
      (match (genRoundImageShape (TObj.applyVec transform0 (IVec.toV (shapeOf slf))) round) with
      | .error e => (Except.error e)
      | .ok templateshape0 =>
        let shape0 := (IVec.toV (shapeOf slf))
        let scalefactors0 := (((scale1 * shape0) - (1)) / (shape0 - (1)))
        let inversetransform0 := (TObj.pinv (TObj.nonUniformScale scalefactors0))
        (match (slf).cls with | .image => (genImageWarpToShape spl slf templateshape0 inversetransform0 warplandmarks order "nearest" (PyNum.num ((0 : Rat) / 1)) none returntransform) | .masked => (genMaskedWarpToShape spl slf templateshape0 inversetransform0 warplandmarks order "nearest" (PyNum.num ((0 : Rat) / 1)) none returntransform) | .boolean => (genBooleanWarpToShape spl slf templateshape0 inversetransform0 warplandmarks "nearest" (PyNum.num false) none returntransform)))
  | .error e0 => (Except.error e0)

def genResize (spl : Spl) (slf : Obj) (shape : Vec) (order : Nat) (warplandmarks : Bool) (returntransform : Bool) : Except PyExc (Ret) :=
  let shape0 := shape
  if (((vsize shape0) != ndims)) then
    (Except.error PyExc.valueErr)
  else
    let scales0 := (shape0 / IVec.toV (shapeOf slf))
    (genRescale spl slf (ToScaleArg.conv scales0) "round" order warplandmarks returntransform)

def genZoom (spl : Spl) (slf : Obj) (scale : Rat) (order : Nat) (warplandmarks : Bool) (returntransform : Bool) : Except PyExc (Ret) :=
  (match pyRecip scale with
  | .error e => (Except.error e)
  | .ok tmp0 =>
  let t0 := (genScaleAboutCentre slf tmp0)
  (match (slf).cls with | .image => (genImageWarpToShape spl slf (shapeOf slf) t0 warplandmarks order "nearest" (PyNum.num ((0 : Rat) / 1)) none returntransform) | .masked => (genMaskedWarpToShape spl slf (shapeOf slf) t0 warplandmarks order "nearest" (PyNum.num ((0 : Rat) / 1)) none returntransform) | .boolean => (genBooleanWarpToShape spl slf (shapeOf slf) t0 warplandmarks "nearest" (PyNum.num false) none returntransform)))

def genMirror (spl : Spl) (slf : Obj) (axis : Int) (order : Nat) (warplandmarks : Bool) (returntransform : Bool) : Except PyExc (Ret) :=
  if (decide (axis < (0))) then
    (Except.error PyExc.valueErr)
  else
    if (decide (axis ≥ ndims)) then
      (Except.error PyExc.valueErr)
    else
      let rotmatrix0 := Mat.eye
      let rotmatrix1 := (Mat.set rotmatrix0 axis axis (-(1)))
      let trmatrix0 := (0 : Vec)
      let trmatrix1 := (Vec.set trmatrix0 axis (PyNum.num ((IVec.get (shapeOf slf) axis) - (1))))
      let trans0 := (TObj.composeBefore (TObj.rotation rotmatrix1) (TObj.translation trmatrix1))
      (match (slf).cls with | .image => (genImageWarpToShape spl slf (shapeOf slf) (TObj.pinv trans0) warplandmarks order "nearest" (PyNum.num ((0 : Rat) / 1)) none returntransform) | .masked => (genMaskedWarpToShape spl slf (shapeOf slf) (TObj.pinv trans0) warplandmarks order "nearest" (PyNum.num ((0 : Rat) / 1)) none returntransform) | .boolean => (genBooleanWarpToShape spl slf (shapeOf slf) (TObj.pinv trans0) warplandmarks "nearest" (PyNum.num false) none returntransform))

def genPyramid (spl : Spl) (slf : Obj) (nlevels : Int) (downscale : Rat) : Except PyExc (List Obj) :=
  let out0 := ([] : List Obj)
  let image0 := slf
  let out1 := (out0 ++ [image0])
  let r0 := MenpoModel.Py.forLoop (none, out1, image0) ((PyIter.iter (pyRange (nlevels - (1))))) (fun acc0 it0 =>
      if (acc0.1).isSome then acc0 else
      let out0 := acc0.2.1
      let image1 := acc0.2.2
      let u0 := it0
      (match pyRecip downscale with
      | .error e => (some ((Except.error e)), out0, image1)
      | .ok tmp0 =>
      (match (Except.map Ret.obj (genRescale spl image1 (ToScaleArg.conv tmp0) "ceil" (1) true false)) with
      | .error e => (some ((Except.error e)), out0, image1)
      | .ok image0 =>
        let out1 := (out0 ++ [image0])
        (none, out1, image0))))
  let out0 := r0.2.1
  let image1 := r0.2.2
  match r0.1 with
  | some v0 =>
      v0
  | none =>
    (Except.ok out0)


end MenpoModel.C01Gen3
