/- TRANSLATED by harness/trans_c10.py (harness/py2lean2.py) from the SOURCE TEXT of menpo/model/pca.py,
   menpo/model/linear.py and menpo/model/vectorizable.py of the current working tree on every run of `./check C10`;
   do not edit.  GenProps/C10Src.lean proves every definition equal to the Core definition the C10 theorems are about. -/
import MenpoModel.Core.C10Src
import MenpoModel.Core.PyLoop

set_option linter.unusedVariables false

namespace MenpoModel.C10.Generated
open MenpoModel.C10 MenpoModel.C10.Src

def genNComponents (s : St) : PyVal :=
  (PyVal.int ((s).rows : Nat))

def genNActiveComponents (s : St) : PyVal :=
  (PyVal.int ((s).nActive : Nat))

def genEigenvalues (s : St) : List Rat :=
  (List.take (PyVal.toNat (genNActiveComponents s)) (s).eig)

def genActiveRows (s : St) : Nat :=
  (Nat.min (PyVal.toNat (genNActiveComponents s)) (s).rows)

def genOriginalVariance (s : St) : Rat :=
  ((List.sum (s).eig) + (List.sum (s).trimmed))

def genVariance (s : St) : Rat :=
  (List.sum (genEigenvalues s))

def genTotalVariance (s : St) : Rat :=
  (List.sum (s).eig)

def genVarianceRatio (s : St) : Rat :=
  ((genVariance s) / (genOriginalVariance s))

def genTotalVarianceRatio (s : St) : Rat :=
  ((genTotalVariance s) / (genOriginalVariance s))

def genEigenvaluesRatio (s : St) : List Rat :=
  ((genEigenvalues s) / (genOriginalVariance s))

def genTotalEigenvaluesRatio (s : St) : List Rat :=
  ((s).eig / (genOriginalVariance s))

def genEigenvaluesCumulativeRatio (s : St) : List Rat :=
  (cumsum (genEigenvaluesRatio s))

def genTotalEigenvaluesCumulativeRatio (s : St) : List Rat :=
  (cumsum (genTotalEigenvaluesRatio s))

def genNoiseVariance (s : St) : Rat :=
  if (((genNActiveComponents s) == (genNComponents s))) then
    if (((PyVal.int (List.length (s).trimmed : Nat)) != ((0 : PyVal)))) then
      let noisevariance0 := (lmean (s).trimmed)
      noisevariance0
    else
      let noisevariance0 := (0 : Rat)
      noisevariance0
  else
    let noisevariance0 := (lmean ((List.drop (PyVal.toNat (genNActiveComponents s)) (s).eig) ++ (s).trimmed))
    noisevariance0

def genNoiseVarianceRatio (s : St) : Rat :=
  ((genNoiseVariance s) / (genOriginalVariance s))

def genInverseNoiseVariance (s : St) : Except Err Rat :=
  let noisevariance0 := (genNoiseVariance s)
  if (allclose0 noisevariance0) then
    .error .value
  else
    .ok (((1 : Rat) / noisevariance0))

def genFl : Fl :=
  ⟨genTotalVarianceRatio, genTotalEigenvaluesCumulativeRatio⟩

def genSetActive (fl : Fl) (s : St) (value : PyVal) : Except Err St :=
  let errstr0 := ()
  if (PyVal.isFloat value) then
    if (decide ((0 : Rat) < value) && decide (value ≤ (Fl.tvr fl s))) then
      let value0 := (PyVal.pmin ((PyVal.npSumBools (List.map (fun it0 => let r0 := it0; (decide (r0 < value))) (List.map PyVal.float (Fl.cum fl s)))) + ((1 : PyVal))) (genNComponents s))
      if (PyVal.isInt value0) then
        if (decide (value0 < ((1 : PyVal)))) then
          .error .value
        else
          if (decide (value0 ≥ (genNComponents s))) then
            if (decide ((genNActiveComponents s) < (genNComponents s))) then
              let value1 := (genNComponents s)
              if (decide (((0 : PyVal)) < value1) && decide (value1 ≤ (genNComponents s))) then
                let self0 := { s with nActive := PyVal.toNat (PyVal.int (PyVal.toInt value1)) }
                .ok self0
              else
                .error .value
            else
              .ok s
          else
            if (decide (((0 : PyVal)) < value0) && decide (value0 ≤ (genNComponents s))) then
              let self0 := { s with nActive := PyVal.toNat (PyVal.int (PyVal.toInt value0)) }
              .ok self0
            else
              .error .value
      else
        if (decide (((0 : PyVal)) < value0) && decide (value0 ≤ (genNComponents s))) then
          let self0 := { s with nActive := PyVal.toNat (PyVal.int (PyVal.toInt value0)) }
          .ok self0
        else
          .error .value
    else
      .error .value
  else
    if (PyVal.isInt value) then
      if (decide (value < ((1 : PyVal)))) then
        .error .value
      else
        if (decide (value ≥ (genNComponents s))) then
          if (decide ((genNActiveComponents s) < (genNComponents s))) then
            let value0 := (genNComponents s)
            if (decide (((0 : PyVal)) < value0) && decide (value0 ≤ (genNComponents s))) then
              let self0 := { s with nActive := PyVal.toNat (PyVal.int (PyVal.toInt value0)) }
              .ok self0
            else
              .error .value
          else
            .ok s
        else
          if (decide (((0 : PyVal)) < value) && decide (value ≤ (genNComponents s))) then
            let self0 := { s with nActive := PyVal.toNat (PyVal.int (PyVal.toInt value)) }
            .ok self0
          else
            .error .value
    else
      if (decide (((0 : PyVal)) < value) && decide (value ≤ (genNComponents s))) then
        let self0 := { s with nActive := PyVal.toNat (PyVal.int (PyVal.toInt value)) }
        .ok self0
      else
        .error .value

def genTrimComponents (fl : Fl) (s : St) (ncomponents : PyVal) : Except Err St :=
  if (PyVal.isNone ncomponents) then
    let ncomponents0 := (genNActiveComponents s)
    (genSetActive fl s ncomponents0).bind fun self0 =>
      if (decide ((genNActiveComponents self0) < (genNComponents self0))) then
        let nac0 := (genNActiveComponents self0)
        let self1 := { self0 with rows := Nat.min (PyVal.toNat nac0) (self0).rows }
        let self0 := { self1 with trimmed := ((self1).trimmed ++ (List.drop (PyVal.toNat (genNActiveComponents self1)) (self1).eig)) }
        let self1 := { self0 with eig := (List.take (PyVal.toNat nac0) (self0).eig) }
        .ok self1
      else
        .ok self0
  else
    (genSetActive fl s ncomponents).bind fun self0 =>
      if (decide ((genNActiveComponents self0) < (genNComponents self0))) then
        let nac0 := (genNActiveComponents self0)
        let self1 := { self0 with rows := Nat.min (PyVal.toNat nac0) (self0).rows }
        let self0 := { self1 with trimmed := ((self1).trimmed ++ (List.drop (PyVal.toNat (genNActiveComponents self1)) (self1).eig)) }
        let self1 := { self0 with eig := (List.take (PyVal.toNat nac0) (self0).eig) }
        .ok self1
      else
        .ok self0

def genSetComponents (s : St) (value : Nat) : Except Err St :=
  if ((value != ((s).rows : Nat))) then
    .error .value
  else
    let self0 := s
    .ok self0

def genOrthoAgainst (fl : Fl) (s : St) (lm : Other) : Except Err St :=
  let Q0 := (St.orthoQRows lm.d lm.k1 (s).rows)
  (Other.setComponentsRows lm (Nat.min (PyVal.toNat (PyVal.int (lm.k1 : Nat))) Q0)).bind fun linearmodel0 =>
    let navailablecomponents0 := ((PyVal.int (Q0 : Nat)) - (PyVal.int (lm.k1 : Nat)))
    if (decide (navailablecomponents0 < (genNComponents s))) then
      if (decide ((genNActiveComponents s) < navailablecomponents0)) then
        let nactivecomponents0 := (genNActiveComponents s)
        (genTrimComponents fl s navailablecomponents0).bind fun self0 =>
          if (decide (nactivecomponents0 < navailablecomponents0)) then
            (genSetActive fl self0 nactivecomponents0).bind fun self1 =>
              (genSetComponents self1 (Q0 - PyVal.toNat (PyVal.int (lm.k1 : Nat)))).bind fun self0 =>
                .ok self0
          else
            (genSetComponents self0 (Q0 - PyVal.toNat (PyVal.int (lm.k1 : Nat)))).bind fun self1 =>
              .ok self1
      else
        let nactivecomponents0 := navailablecomponents0
        (genTrimComponents fl s navailablecomponents0).bind fun self0 =>
          if (decide (nactivecomponents0 < navailablecomponents0)) then
            (genSetActive fl self0 nactivecomponents0).bind fun self1 =>
              (genSetComponents self1 (Q0 - PyVal.toNat (PyVal.int (lm.k1 : Nat)))).bind fun self0 =>
                .ok self0
          else
            (genSetComponents self0 (Q0 - PyVal.toNat (PyVal.int (lm.k1 : Nat)))).bind fun self1 =>
              .ok self1
    else
      (genSetComponents s (Q0 - PyVal.toNat (PyVal.int (lm.k1 : Nat)))).bind fun self0 =>
        .ok self0

def genLinearInit {A : Type} (np : NP A) (self : Plumb A) (components : A) : Plumb A :=
  let self0 := { self with comps := some components, rows := np.shape0 components }
  self0

def genMeanLinearInit {A : Type} (np : NP A) (self : Plumb A) (components mean : A) : Plumb A :=
  let self0 := genLinearInit np self components
  let self1 := { self0 with mean := some mean }
  self1

def genVBInit {A : Type} (self : Plumb A) (template : A) : Plumb A :=
  let self0 := { self with template := some template }
  self0

def genDataToMatrix {A : Type} (np : NP A) (data : A) (nsamples : PyVal) : A × PyVal :=
  if (PyVal.isNone nsamples) then
    let nsamples0 := (PyVal.int (np.len data : Nat))
    if (!(np.isArray data)) then
      let data0 := (np.arrayPrefix data nsamples0)
      (data0, nsamples0)
    else
      (data, nsamples0)
  else
    if (!(np.isArray data)) then
      let data0 := (np.arrayPrefix data nsamples)
      (data0, nsamples)
    else
      (data, nsamples)

def genConstructorHelper {A : Type} (np : NP A) (fl : Fl) (self : Plumb A) (eigenvalues eigenvectors mean : A) (centred : Bool) (maxn : PyVal) : Except Err (Plumb A) :=
  if centred then
    let self0 := genMeanLinearInit np self eigenvectors mean
    let self1 := { self0 with centred := some centred }
    let self0 := { self1 with eig := np.values eigenvalues }
    let self1 := { self0 with nActive := PyVal.toNat (PyVal.int (PyVal.toInt (genNComponents (self0).toSt))) }
    let self0 := { self1 with trimmed := [] }
    if (!(PyVal.isNone maxn)) then
      ((genTrimComponents fl (self0).toSt maxn).map (fun st => { self0 with toSt := st })).bind fun self1 =>
        .ok self1
    else
      .ok self0
  else
    let self0 := genMeanLinearInit np self eigenvectors (np.zerosLike mean)
    let self1 := { self0 with centred := some centred }
    let self0 := { self1 with eig := np.values eigenvalues }
    let self1 := { self0 with nActive := PyVal.toNat (PyVal.int (PyVal.toInt (genNComponents (self0).toSt))) }
    let self0 := { self1 with trimmed := [] }
    if (!(PyVal.isNone maxn)) then
      ((genTrimComponents fl (self0).toSt maxn).map (fun st => { self0 with toSt := st })).bind fun self1 =>
        .ok self1
    else
      .ok self0

def genVecInit {A : Type} (np : NP A) (fl : Fl) (self : Plumb A) (samples : A) (centre : Bool) (nsamples maxn : PyVal) (inplace : Bool) : Except Err (Plumb A) :=
  let p0 := (genDataToMatrix np samples nsamples)
  let ktmp000 := p0.1
  let ktmp010 := p0.2
  let data0 := ktmp000
  let self0 := { self with nSamples := ktmp010 }
  let p1 := (np.pca data0 centre inplace ((1 : Rat) / 10000000000))
  let evectors0 := p1.1
  let evalues0 := p1.2.1
  let mean0 := p1.2.2
  (genConstructorHelper np fl self0 evalues0 evectors0 mean0 centre maxn).bind fun self1 =>
    .ok self1

def genVecFromCov {A : Type} (np : NP A) (fl : Fl) (C mean : A) (nsamples : PyVal) (centred isinverse : Bool) (maxn : PyVal) : Except Err (Plumb A) :=
  let p0 := (np.pcacov C isinverse ((1 : Rat) / 100000))
  let evectors0 := p0.1
  let evalues0 := p0.2
  let model0 := (Plumb.blank : Plumb A)
  let model1 := { model0 with nSamples := nsamples }
  (genConstructorHelper np fl model1 evalues0 evectors0 mean centred maxn).bind fun model0 =>
    .ok (model0)

def genVecFromComponents {A : Type} (np : NP A) (fl : Fl) (components eigenvalues mean : A) (nsamples : PyVal) (centred : Bool) (maxn : PyVal) : Except Err (Plumb A) :=
  let model0 := (Plumb.blank : Plumb A)
  let model1 := { model0 with nSamples := nsamples }
  (genConstructorHelper np fl model1 eigenvalues components mean centred maxn).bind fun model0 =>
    .ok (model0)

def genObjInit {A : Type} (np : NP A) (fl : Fl) (self : Plumb A) (samples : A) (centre : Bool) (nsamples maxn : PyVal) (inplace : Bool) : Except Err (Plumb A) :=
  let p0 := (np.asMatrix samples nsamples true)
  let data0 := p0.1
  let template0 := p0.2
  let nsamples0 := (PyVal.int (np.shape0 data0 : Nat))
  (genVecInit np fl self data0 centre nsamples0 maxn inplace).bind fun self0 =>
    let self1 := genVBInit self0 template0
    .ok self1

def genObjFromCov {A : Type} (np : NP A) (fl : Fl) (C mean : A) (nsamples : PyVal) (centred isinverse : Bool) (maxn : PyVal) : Except Err (Plumb A) :=
  let selfmodel0 := (Plumb.blank : Plumb A)
  let selfmodel1 := { selfmodel0 with nSamples := nsamples }
  let p0 := (np.pcacov C isinverse ((1 : Rat) / 100000))
  let evectors0 := p0.1
  let evalues0 := p0.2
  (genConstructorHelper np fl selfmodel1 evalues0 evectors0 (np.asVector mean) centred maxn).bind fun selfmodel0 =>
    let selfmodel1 := genVBInit selfmodel0 mean
    .ok (selfmodel1)

def genObjFromComponents {A : Type} (np : NP A) (fl : Fl) (components eigenvalues mean : A) (nsamples : PyVal) (centred : Bool) (maxn : PyVal) : Except Err (Plumb A) :=
  let selfmodel0 := (Plumb.blank : Plumb A)
  let selfmodel1 := { selfmodel0 with nSamples := nsamples }
  (genConstructorHelper np fl selfmodel1 eigenvalues components (np.asVector mean) centred maxn).bind fun selfmodel0 =>
    let selfmodel1 := genVBInit selfmodel0 mean
    .ok (selfmodel1)


end MenpoModel.C10.Generated
