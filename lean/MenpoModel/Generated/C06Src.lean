/- TRANSLATED by harness/trans_c06.py (harness/py2lean2s.py) from the SOURCE TEXT of the working tree's
   Copyable.copy, LazyList.copy, LandmarkManager.copy, LabelledPointUndirectedGraph.copy, HomogFamilyAlignment.copy
   (on the heap of Core/C06Heap.lean) and LandmarkManager.__init__ / __setitem__ / __getitem__ / __delitem__ / __len__ /
   n_groups / has_landmarks / group_labels / n_dims / copy / _transform_inplace, Landmarkable.landmarks setter (on the
   world of Core/C06Landmarks.lean), LandmarkManager.__init__ and the Landmarkable.landmarks getter (on the heap)
   on every run of `./check C06`; do not edit.  The vocabulary is Core/C06Src.lean;
   GenProps/C06Src.lean proves every definition equal to the hand-written model. -/
import MenpoModel.Core.C06Src

set_option linter.unusedVariables false

namespace MenpoModel.C06.GenSrc
open MenpoModel.C06

def copyableCopy (rec : Src.Rec) (h : Heap) (self : Src.SelfObj) : Except MenpoModel.C06.Err (Src.PObj × Heap) :=
  let new0 := (Src.newOf self.cls)
  let r0 := MenpoModel.Py.forLoop (none, new0, h) (self.fs) (fun acc0 it0 =>
      if (acc0.1).isSome then acc0 else
      let new1 := acc0.2.1
      let h0 := acc0.2.2
      let p0 := it0
      let k0 := p0.1
      let v0 := p0.2
      (match (Src.callCopy rec h0 v0) with
      | .ok p_0 =>
        let t_0 := p_0.1
        let h1 := p_0.2
        let new0 := (Src.setAttr new1 k0 t_0)
        (none, new0, h1)
      | .error .attr =>
        let new0 := (Src.setAttr new1 k0 v0)
        (none, new0, h0)
      | .error e_0 =>
        (some (.error e_0), new1, h0)))
  let new1 := r0.2.1
  let h0 := r0.2.2
  match r0.1 with
  | some v0 =>
      v0
  | none =>
    .ok (new1, h0)

def landmarkManagerCopy (rec : Src.Rec) (h : Heap) (self : Src.SelfObj) : Except MenpoModel.C06.Err (Src.PObj × Heap) :=
  (match (copyableCopy rec h self) with
  | .ok p_0 =>
    let t_0 := p_0.1
    let h0 := p_0.2
    let new0 := t_0
    (match (Src.itemsOf h0 new0 "_landmark_groups") with
    | .ok t_1 =>
      let r0 := MenpoModel.Py.forLoop (none, new0, h0) (t_1) (fun acc0 it0 =>
          if (acc0.1).isSome then acc0 else
          let new1 := acc0.2.1
          let h1 := acc0.2.2
          let p0 := it0
          let k0 := p0.1
          let v0 := p0.2
          (match (Src.callCopy rec h1 v0) with
          | .ok p_2 =>
            let t_2 := p_2.1
            let h0 := p_2.2
            let new0 := (Src.setItem h0 new1 "_landmark_groups" k0 t_2)
            (none, new0, h0)
          | .error e_2 =>
            (some (.error e_2), new1, h1)))
      let new1 := r0.2.1
      let h1 := r0.2.2
      match r0.1 with
      | some v0 =>
          v0
      | none =>
        .ok (Src.sealOver h1 new1 "_landmark_groups", h1)
    | .error e_1 =>
      .error e_1)
  | .error e_0 =>
    .error e_0)

def labelledCopy (rec : Src.Rec) (h : Heap) (self : Src.SelfObj) : Except MenpoModel.C06.Err (Src.PObj × Heap) :=
  (match (copyableCopy rec h self) with
  | .ok p_0 =>
    let t_0 := p_0.1
    let h0 := p_0.2
    let new0 := t_0
    (match (Src.itemsOf h0 new0 "_labels_to_masks") with
    | .ok t_1 =>
      let r0 := MenpoModel.Py.forLoop (none, new0, h0) (t_1) (fun acc0 it0 =>
          if (acc0.1).isSome then acc0 else
          let new1 := acc0.2.1
          let h1 := acc0.2.2
          let p0 := it0
          let k0 := p0.1
          let v0 := p0.2
          (match (Src.callCopy rec h1 v0) with
          | .ok p_2 =>
            let t_2 := p_2.1
            let h0 := p_2.2
            let new0 := (Src.setItem h0 new1 "_labels_to_masks" k0 t_2)
            (none, new0, h0)
          | .error e_2 =>
            (some (.error e_2), new1, h1)))
      let new1 := r0.2.1
      let h1 := r0.2.2
      match r0.1 with
      | some v0 =>
          v0
      | none =>
        .ok (Src.sealOver h1 new1 "_labels_to_masks", h1)
    | .error e_1 =>
      .error e_1)
  | .error e_0 =>
    .error e_0)

def lazyListCopy (rec : Src.Rec) (h : Heap) (self : Src.SelfObj) : Except MenpoModel.C06.Err (Src.PObj × Heap) :=
  (match (copyableCopy rec h self) with
  | .ok p_0 =>
    let t_0 := p_0.1
    let h0 := p_0.2
    let new0 := t_0
    (match (Src.selfAttr self "_callables") with
    | .ok t_1 =>
      (match (Src.listCopy h0 t_1) with
      | .ok p_2 =>
        let t_2 := p_2.1
        let h1 := p_2.2
        let new1 := (Src.setAttr new0 "_callables" t_2)
        .ok (new1, h1)
      | .error e_2 =>
        .error e_2)
    | .error e_1 =>
      .error e_1)
  | .error e_0 =>
    .error e_0)

def homogAlignCopy (rec : Src.Rec) (h : Heap) (self : Src.SelfObj) : Except MenpoModel.C06.Err (Src.PObj × Heap) :=
  let new0 := (Src.newOf self.cls)
  let new1 := (Src.withDict new0 self.fs)
  (match (Src.getAttr new1 "_h_matrix") with
  | .ok t_0 =>
    (match (Src.callCopy rec h t_0) with
    | .ok p_1 =>
      let t_1 := p_1.1
      let h0 := p_1.2
      let new0 := (Src.setAttr new1 "_h_matrix" t_1)
      .ok (new0, h0)
    | .error e_1 =>
      .error e_1)
  | .error e_0 =>
    .error e_0)

def lmInitHeap (h : Heap) (self : Src.PObj) : Src.PObj × Heap :=
  let self0 := self
  let p_0 := (Src.newDict h)
  let t_0 := p_0.1
  let h0 := p_0.2
  let self1 := (Src.setAttr self0 "_landmark_groups" t_0)
  (self1, h0)

def landmarksGetter (h : Heap) (self : Nat) : Except MenpoModel.C06.Err (Val × Heap) :=
  if (Src.attrIsNone h self "_landmarks") then
    let p_0 := (Src.construct Src.lmClass lmInitHeap h)
    let t_0 := p_0.1
    let h0 := p_0.2
    let h1 := (Src.setAttrAt h0 self "_landmarks" t_0)
    (match (Src.attrAt h1 self "_landmarks") with
    | .ok t_1 =>
      .ok (t_1, h1)
    | .error e_1 =>
      .error e_1)
  else
    (match (Src.attrAt h self "_landmarks") with
    | .ok t_2 =>
      .ok (t_2, h)
    | .error e_2 =>
      .error e_2)

def lmNGroups (w : LM.World) (self : Nat) : Nat :=
  ((Src.groups w self)).length

def lmLen (w : LM.World) (self : Nat) : Nat :=
  ((Src.groups w self)).length

def lmHasLandmarks (w : LM.World) (self : Nat) : Bool :=
  (((lmNGroups w self) != (0)))

def lmGroupLabels (w : LM.World) (self : Nat) : List Nat :=
  (LM.Mgr.keys (Src.groups w self))

def lmNDims (w : LM.World) (self : Nat) : Option Nat :=
  if (((lmNGroups w self) != (0))) then
    let r0 := MenpoModel.Py.forLoop none ((LM.Mgr.addrs (Src.groups w self))) (fun acc0 it0 =>
        if (acc0).isSome then acc0 else
        let v0 := it0
        some ((Src.shapeDim w v0)))
    match r0 with
    | some v0 =>
        v0
    | none =>
      none
  else
    none

def lmSetItem (w : LM.World) (self : Nat) (group : Option Nat) (value : LM.Arg) : Except Src.PyExc LM.World :=
  if (group).isNone then
    .error .valueError
  else
    let ndims0 := (lmNDims w self)
    if (ndims0).isSome then
      (match (Src.argNDims w value) with
      | .ok t_0 =>
        if ((t_0 != ndims0)) then
          .error .valueError
        else
          if (!(Src.argIsPC value)) then
            .error .valueError
          else
            (match (Src.copyArg w value) with
            | .ok p_1 =>
              let t_1 := p_1.1
              let w0 := p_1.2
              let lmarkgroup0 := t_1
              let w1 := (Src.storeGroupO w0 self group lmarkgroup0)
              .ok w1
            | .error e_1 =>
              .error e_1)
      | .error e_0 =>
        .error e_0)
    else
      if (!(Src.argIsPC value)) then
        .error .valueError
      else
        (match (Src.copyArg w value) with
        | .ok p_2 =>
          let t_2 := p_2.1
          let w0 := p_2.2
          let lmarkgroup0 := t_2
          let w1 := (Src.storeGroupO w0 self group lmarkgroup0)
          .ok w1
        | .error e_2 =>
          .error e_2)

def lmGetItem (w : LM.World) (self : Nat) (group : Option Nat) : Except Src.PyExc Nat :=
  if (group).isNone then
    if (((lmNGroups w self) == (1))) then
      let group0 := (List.head? (lmGroupLabels w self))
      (match (Src.dictGet (Src.groups w self) group0) with
      | .ok t_0 =>
        .ok t_0
      | .error e_0 =>
        .error e_0)
    else
      .error .valueError
  else
    (match (Src.dictGet (Src.groups w self) group) with
    | .ok t_1 =>
      .ok t_1
    | .error e_1 =>
      .error e_1)

def lmDelItem (w : LM.World) (self : Nat) (group : Option Nat) : Except Src.PyExc LM.World :=
  (match (Src.delGroup w self group) with
  | .ok w0 =>
    .ok w0
  | .error e_0 =>
    .error e_0)

def lmCopy (w : LM.World) (self : Nat) : Except Src.PyExc (Nat × LM.World) :=
  (match (Src.shallowCopyMgr w self) with
  | .ok p_0 =>
    let t_0 := p_0.1
    let w0 := p_0.2
    let new0 := t_0
    let r0 := MenpoModel.Py.forLoop w0 ((Src.groups w0 new0)) (fun acc0 it0 =>
        let w1 := acc0
        let p0 := it0
        let k0 := p0.1
        let v0 := p0.2
        let p_1 := (Src.copyShape w1 v0)
        let t_1 := p_1.1
        let w0 := p_1.2
        let w1 := (Src.storeGroup w0 new0 k0 t_1)
        w1)
    let w1 := r0
    .ok (new0, w1)
  | .error e_0 =>
    .error e_0)

def lmTransformInplace (w : LM.World) (self : Nat) (transform : Int) : Except Src.PyExc LM.World :=
  let r0 := MenpoModel.Py.forLoop w ((LM.Mgr.addrs (Src.groups w self))) (fun acc0 it0 =>
      let w0 := acc0
      let group0 := it0
      let w1 := (LM.mutateAt w0 group0 transform)
      w1)
  let w0 := r0
  .ok w0

def lmInit (w : LM.World) (self : Nat) : LM.World :=
  let self0 := self
  let w0 := (Src.initGroups w self0 ([] : LM.Mgr))
  w0

def setLandmarks (w : LM.World) (self : Nat) (value : Nat) : Except Src.PyExc LM.World :=
  let lmndims0 := (lmNDims w value)
  if ((lmndims0).isSome && ((lmndims0 != (Src.ownerDim w self)))) then
    .error .valueError
  else
    (match (lmCopy w value) with
    | .ok p_0 =>
      let t_0 := p_0.1
      let w0 := p_0.2
      (match (Src.setOwnerMgr w0 self t_0) with
      | .ok w1 =>
        .ok w1
      | .error e_1 =>
        .error e_1)
    | .error e_0 =>
      .error e_0)

end MenpoModel.C06.GenSrc
