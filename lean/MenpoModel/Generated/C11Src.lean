/- TRANSLATED by harness/trans_c11.py (harness/py2lean2.py, harness/py2lean2numpy.py) from the SOURCE TEXT of
   menpo/model/gmrf.py, menpo/model/pca.py and menpo/math/decomposition.py of the current working tree on every run of
   `./check C11`; do not edit.  GenProps/C11Src.lean proves every definition equal to the definition of
   Core/C11Src.lean the C11 theorems are about. -/
import MenpoModel.Core.PyLoop
import MenpoModel.Core.C11Src
set_option linter.unusedVariables false

namespace MenpoModel.Generated.C11Src
open MenpoModel.C11

/-- the default of `ipca`'s `eps` (source text of the signature) -/
def ipcaDefaultEps : Rat := (1 : Rat) / 10000000000

def genIncMean (X : NP.M) (m : NP.V) (n : Rat) : NP.V :=
  let newn0 := (NP.shape0 X)
  (((n * m) + (NP.sum0 X)) / (n + newn0))

def genIncCov (X : NP.M) (m : NP.V) (S : NP.M) (n : Rat) (bias : Nat) : Option (NP.V × NP.M) :=
  let newn0 := (NP.shape0 X)
  let newm0 := (genIncMean X m n)
  if ((bias == (1))) then
    let k0 := n
    let m10 := (n * (NP.dot (NP.T (NP.row m)) (NP.row m)))
    let m20 := ((n + newn0) * (NP.dot (NP.T (NP.row newm0)) (NP.row newm0)))
    let newS0 := (((((k0 * S) + m10) + (NP.dot (NP.T X) X)) - m20) / (k0 + newn0))
    some ((newm0, newS0))
  else
    if ((bias == (0))) then
      let k0 := (n - (1))
      let m10 := (n * (NP.dot (NP.T (NP.row m)) (NP.row m)))
      let m20 := ((n + newn0) * (NP.dot (NP.T (NP.row newm0)) (NP.row newm0)))
      let newS0 := (((((k0 * S) + m10) + (NP.dot (NP.T X) X)) - m20) / (k0 + newn0))
      some ((newm0, newS0))
    else
      none

def genIncDenseDiag (inv : NP.M → Option Nat → NP.M) (X : NP.M) (meanvector : NP.V) (covariances : Nat → NP.M) (n : Rat) (graph : NP.Graph) (nfeatures k : Nat) (nc : Option Nat) (bias : Nat) : Option (NP.M × (Nat → NP.M)) :=
  let precision0 := (NP.zeros nfeatures nfeatures)
  let vertices0 := (List.range (NP.Graph.nVertices graph))
  let r0 := MenpoModel.Py.forLoop (none, covariances, precision0) (vertices0) (fun acc0 it0 =>
      if (acc0.1).isSome then acc0 else
      let covariances0 := acc0.2.1
      let precision1 := acc0.2.2
      let v0 := it0
      let ifrom0 := (v0 * k)
      let ito0 := ((v0 + (1)) * k)
      let edgedata0 := (NP.sl X 0 (NP.shape0 X) ifrom0 ito0)
      let m0 := (NP.slV meanvector ifrom0 ito0)
      match ((genIncCov edgedata0 m0 (NP.getItem covariances0 v0) n bias).map fun p => NP.setItem covariances0 v0 p.2) with
      | none => (some (none), covariances0, precision1)
      | some covariances1 =>
        let precision0 := (NP.setSlice precision1 ifrom0 ito0 ifrom0 ito0 (inv (NP.getItem covariances1 v0) nc))
        (none, covariances1, precision0))
  let covariances0 := r0.2.1
  let precision1 := r0.2.2
  match r0.1 with
  | some v0 =>
      v0
  | none =>
    some ((precision1, covariances0))

def genIncDense (mode : String) (inv : NP.M → Option Nat → NP.M) (X : NP.M) (meanvector : NP.V) (covariances : Nat → NP.M) (n : Rat) (graph : NP.Graph) (nfeatures k : Nat) (nc : Option Nat) (bias : Nat) : Option (NP.M × (Nat → NP.M)) :=
  if (!(List.contains ["concatenation", "subtraction"] mode)) then
    none
  else
    let precision0 := (NP.zeros nfeatures nfeatures)
    let edges0 := (List.range (NP.Graph.nEdges graph))
    let r0 := MenpoModel.Py.forLoop (none, covariances, precision0) (edges0) (fun acc0 it0 =>
        if (acc0.1).isSome then acc0 else
        let covariances0 := acc0.2.1
        let precision1 := acc0.2.2
        let e0 := it0
        let v10 := (NP.Graph.edge graph e0).1
        let v20 := (NP.Graph.edge graph e0).2
        let v1from0 := (v10 * k)
        let v1to0 := ((v10 + (1)) * k)
        let v2from0 := (v20 * k)
        let v2to0 := ((v20 + (1)) * k)
        let p0 := (if ((mode == "concatenation")) then
            let edgedata0 := (NP.cols X ((NP.Idx.range v1from0 v1to0) + (NP.Idx.range v2from0 v2to0)))
            let m0 := (NP.getItem meanvector ((NP.Idx.range v1from0 v1to0) + (NP.Idx.range v2from0 v2to0)))
            (edgedata0, m0)
          else
            let edgedata0 := ((NP.sl X 0 (NP.shape0 X) v1from0 v1to0) - (NP.sl X 0 (NP.shape0 X) v2from0 v2to0))
            let m0 := ((NP.slV meanvector v1from0 v1to0) - (NP.slV meanvector v2from0 v2to0))
            (edgedata0, m0))
        let edgedata0 := p0.1
        let m0 := p0.2
        match ((genIncCov edgedata0 m0 (NP.getItem covariances0 e0) n bias).map fun p => NP.setItem covariances0 e0 p.2) with
        | none => (some (none), covariances0, precision1)
        | some covariances1 =>
          let covmat0 := (inv (NP.getItem covariances1 e0) nc)
          if ((mode == "concatenation")) then
            let precision0 := (NP.addSlice precision1 v1from0 v1to0 v1from0 v1to0 (NP.sl covmat0 0 k 0 k))
            let precision1 := (NP.addSlice precision0 v2from0 v2to0 v2from0 v2to0 (NP.sl covmat0 k (NP.shape0 covmat0) k (NP.shape1 covmat0)))
            let precision0 := (NP.setSlice precision1 v1from0 v1to0 v2from0 v2to0 (NP.sl covmat0 0 k k (NP.shape1 covmat0)))
            let precision1 := (NP.setSlice precision0 v2from0 v2to0 v1from0 v1to0 (NP.sl covmat0 k (NP.shape0 covmat0) 0 k))
            (none, covariances1, precision1)
          else
            if ((mode == "subtraction")) then
              let precision0 := (NP.setSlice precision1 v1from0 v1to0 v2from0 v2to0 (-covmat0))
              let precision1 := (NP.setSlice precision0 v2from0 v2to0 v1from0 v1to0 (-covmat0))
              let precision0 := (NP.addSlice precision1 v1from0 v1to0 v1from0 v1to0 covmat0)
              let precision1 := (NP.addSlice precision0 v2from0 v2to0 v2from0 v2to0 covmat0)
              (none, covariances1, precision1)
            else
              (none, covariances1, precision1))
    let covariances0 := r0.2.1
    let precision1 := r0.2.2
    match r0.1 with
    | some v0 =>
        v0
    | none =>
      some ((precision1, covariances0))

def genIncSparseDiag (inv : NP.M → Option Nat → NP.M) (X : NP.M) (meanvector : NP.V) (covariances : Nat → NP.M) (n : Rat) (graph : NP.Graph) (nfeatures k : Nat) (nc : Option Nat) (bias : Nat) : Option (NP.M × (Nat → NP.M)) :=
  let allblocks0 := (NP.zeros3 (NP.Graph.nVertices graph) k k)
  let columns0 := (NP.zerosV (NP.Graph.nVertices graph))
  let rows0 := (NP.zerosV (NP.Graph.nVertices graph))
  let vertices0 := (List.range (NP.Graph.nVertices graph))
  let r0 := MenpoModel.Py.forLoop (none, covariances, allblocks0, rows0, columns0) (vertices0) (fun acc0 it0 =>
      if (acc0.1).isSome then acc0 else
      let covariances0 := acc0.2.1
      let allblocks1 := acc0.2.2.1
      let rows1 := acc0.2.2.2.1
      let columns1 := acc0.2.2.2.2
      let v0 := it0
      let ifrom0 := (v0 * k)
      let ito0 := ((v0 + (1)) * k)
      let edgedata0 := (NP.sl X 0 (NP.shape0 X) ifrom0 ito0)
      let m0 := (NP.slV meanvector ifrom0 ito0)
      match ((genIncCov edgedata0 m0 (NP.getItem covariances0 v0) n bias).map fun p => NP.setItem covariances0 v0 p.2) with
      | none => (some (none), covariances0, allblocks1, rows1, columns1)
      | some covariances1 =>
        let allblocks0 := (NP.setItem allblocks1 v0 (inv (NP.getItem covariances1 v0) nc))
        let rows0 := (NP.setItem rows1 v0 v0)
        let columns0 := (NP.setItem columns1 v0 v0)
        (none, covariances1, allblocks0, rows0, columns0))
  let covariances0 := r0.2.1
  let allblocks1 := r0.2.2.1
  let rows1 := r0.2.2.2.1
  let columns1 := r0.2.2.2.2
  match r0.1 with
  | some v0 =>
      v0
  | none =>
    let rowsargsort0 := (NP.argsort rows1)
    let columns0 := (NP.getItem columns1 rowsargsort0)
    let allblocks0 := (NP.getItem allblocks1 rowsargsort0)
    let rows0 := (NP.getItem rows1 rowsargsort0)
    let nrows0 := (NP.Graph.nVertices graph)
    let indptr0 := (NP.zerosV (nrows0 + (1)))
    let r1 := MenpoModel.Py.forLoop indptr0 ((List.range nrows0)) (fun acc0 it0 =>
        let indptr1 := acc0
        let i0 := it0
        let p0 := (NP.whereEq rows0 i0)
        let inds0 := p0
        if (((NP.size inds0) == (0))) then
          let indptr0 := (NP.setItem indptr1 (i0 + (1)) (NP.getItem indptr1 i0))
          indptr0
        else
          let indptr0 := (NP.setItem indptr1 i0 (NP.first inds0))
          let indptr1 := (NP.setItem indptr0 (i0 + (1)) ((NP.last inds0) + (1)))
          indptr1)
    let indptr1 := r1
    some (((NP.bsr allblocks0 columns0 indptr1 nfeatures nfeatures), covariances0))

def genIncSparse (mode : String) (inv : NP.M → Option Nat → NP.M) (X : NP.M) (meanvector : NP.V) (covariances : Nat → NP.M) (n : Rat) (graph : NP.Graph) (nfeatures k : Nat) (nc : Option Nat) (bias : Nat) : Option (NP.M × (Nat → NP.M)) :=
  if (!(List.contains ["concatenation", "subtraction"] mode)) then
    none
  else
    let allblocks0 := (NP.zeros3 ((NP.Graph.nEdges graph) * (4)) k k)
    let columns0 := (NP.zerosV ((NP.Graph.nEdges graph) * (4)))
    let rows0 := (NP.zerosV ((NP.Graph.nEdges graph) * (4)))
    let edges0 := (List.range (NP.Graph.nEdges graph))
    let count0 := (-(1))
    let r0 := MenpoModel.Py.forLoop (none, covariances, count0, allblocks0, rows0, columns0) (edges0) (fun acc0 it0 =>
        if (acc0.1).isSome then acc0 else
        let covariances0 := acc0.2.1
        let count1 := acc0.2.2.1
        let allblocks1 := acc0.2.2.2.1
        let rows1 := acc0.2.2.2.2.1
        let columns1 := acc0.2.2.2.2.2
        let e0 := it0
        let v10 := (NP.Graph.edge graph e0).1
        let v20 := (NP.Graph.edge graph e0).2
        let v1from0 := (v10 * k)
        let v1to0 := ((v10 + (1)) * k)
        let v2from0 := (v20 * k)
        let v2to0 := ((v20 + (1)) * k)
        let p0 := (if ((mode == "concatenation")) then
            let edgedata0 := (NP.cols X ((NP.Idx.range v1from0 v1to0) + (NP.Idx.range v2from0 v2to0)))
            let m0 := (NP.getItem meanvector ((NP.Idx.range v1from0 v1to0) + (NP.Idx.range v2from0 v2to0)))
            (edgedata0, m0)
          else
            let edgedata0 := ((NP.sl X 0 (NP.shape0 X) v1from0 v1to0) - (NP.sl X 0 (NP.shape0 X) v2from0 v2to0))
            let m0 := ((NP.slV meanvector v1from0 v1to0) - (NP.slV meanvector v2from0 v2to0))
            (edgedata0, m0))
        let edgedata0 := p0.1
        let m0 := p0.2
        match ((genIncCov edgedata0 m0 (NP.getItem covariances0 e0) n bias).map fun p => NP.setItem covariances0 e0 p.2) with
        | none => (some (none), covariances0, count1, allblocks1, rows1, columns1)
        | some covariances1 =>
          let covmat0 := (inv (NP.getItem covariances1 e0) nc)
          if ((mode == "concatenation")) then
            let count0 := (count1 + (1))
            let allblocks0 := (NP.setItem allblocks1 count0 (NP.sl covmat0 0 k 0 k))
            let rows0 := (NP.setItem rows1 count0 v10)
            let columns0 := (NP.setItem columns1 count0 v10)
            let count1 := (count0 + (1))
            let allblocks1 := (NP.setItem allblocks0 count1 (NP.sl covmat0 k (NP.shape0 covmat0) k (NP.shape1 covmat0)))
            let rows1 := (NP.setItem rows0 count1 v20)
            let columns1 := (NP.setItem columns0 count1 v20)
            let count0 := (count1 + (1))
            let allblocks0 := (NP.setItem allblocks1 count0 (NP.sl covmat0 0 k k (NP.shape1 covmat0)))
            let rows0 := (NP.setItem rows1 count0 v10)
            let columns0 := (NP.setItem columns1 count0 v20)
            let count1 := (count0 + (1))
            let allblocks1 := (NP.setItem allblocks0 count1 (NP.sl covmat0 k (NP.shape0 covmat0) 0 k))
            let rows1 := (NP.setItem rows0 count1 v20)
            let columns1 := (NP.setItem columns0 count1 v10)
            (none, covariances1, count1, allblocks1, rows1, columns1)
          else
            let count0 := (count1 + (1))
            let allblocks0 := (NP.setItem allblocks1 count0 covmat0)
            let rows0 := (NP.setItem rows1 count0 v10)
            let columns0 := (NP.setItem columns1 count0 v10)
            let count1 := (count0 + (1))
            let allblocks1 := (NP.setItem allblocks0 count1 covmat0)
            let rows1 := (NP.setItem rows0 count1 v20)
            let columns1 := (NP.setItem columns0 count1 v20)
            let count0 := (count1 + (1))
            let allblocks0 := (NP.setItem allblocks1 count0 (-covmat0))
            let rows0 := (NP.setItem rows1 count0 v10)
            let columns0 := (NP.setItem columns1 count0 v20)
            let count1 := (count0 + (1))
            let allblocks1 := (NP.setItem allblocks0 count1 (-covmat0))
            let rows1 := (NP.setItem rows0 count1 v20)
            let columns1 := (NP.setItem columns0 count1 v10)
            (none, covariances1, count1, allblocks1, rows1, columns1))
    let covariances0 := r0.2.1
    let count1 := r0.2.2.1
    let allblocks1 := r0.2.2.2.1
    let rows1 := r0.2.2.2.2.1
    let columns1 := r0.2.2.2.2.2
    match r0.1 with
    | some v0 =>
        v0
    | none =>
      let rowsargsort0 := (NP.argsort rows1)
      let columns0 := (NP.getItem columns1 rowsargsort0)
      let allblocks0 := (NP.getItem allblocks1 rowsargsort0)
      let rows0 := (NP.getItem rows1 rowsargsort0)
      let nrows0 := (NP.Graph.nVertices graph)
      let indptr0 := (NP.zerosV (nrows0 + (1)))
      let r1 := MenpoModel.Py.forLoop indptr0 ((List.range nrows0)) (fun acc0 it0 =>
          let indptr1 := acc0
          let i0 := it0
          let p0 := (NP.whereEq rows0 i0)
          let inds0 := p0
          if (((NP.size inds0) == (0))) then
            let indptr0 := (NP.setItem indptr1 (i0 + (1)) (NP.getItem indptr1 i0))
            indptr0
          else
            let indptr0 := (NP.setItem indptr1 i0 (NP.first inds0))
            let indptr1 := (NP.setItem indptr0 (i0 + (1)) ((NP.last inds0) + (1)))
            indptr1)
      let indptr1 := r1
      some (((NP.bsr allblocks0 columns0 indptr1 nfeatures nfeatures), covariances0))

def genDataToMatrix (data : NP.Samples) (nsamples : Option Nat) : NP.Samples × Nat :=
  let p0 := (if (nsamples).isNone then
      let nsamples0 := (NP.len data)
      nsamples0
    else
      (NP.the nsamples))
  let nsamples0 := p0
  let p1 := (if (!(NP.isArray data)) then
      let data0 := (NP.Samples.arr (NP.sl (NP.arrayOf data) 0 nsamples0 0 (NP.shape1 (NP.arrayOf data))))
      data0
    else
      data)
  let data0 := p1
  (data0, nsamples0)

def genIncrementInner (inv : NP.M → Option Nat → NP.M) (graph : NP.Graph) (sparse : Bool) (mode : String) (nf k : Nat) (nc : Option Nat) (bias : Nat) (st : NP.GState) (data : NP.M) : Option NP.GState :=
  let p0 := (if (((NP.Graph.nEdges graph) == (0))) then
      if sparse then
        let constructor0 := genIncSparseDiag
        constructor0
      else
        let constructor0 := genIncDenseDiag
        constructor0
    else
      if sparse then
        let constructor0 := (genIncSparse mode)
        constructor0
      else
        let constructor0 := (genIncDense mode)
        constructor0)
  let constructor0 := p0
  match (constructor0 inv data st.mean st.covs st.n graph nf k nc bias) with
  | none => none
  | some p1 =>
    let p2 := p1
    let selfprecision0 := p2.1
    let selfcovs0 := p2.2
    let selfmean0 := (genIncMean data st.mean st.n)
    let selfn0 := (st.n + (NP.shape0 data))
    some (NP.GState.mk selfprecision0 selfcovs0 selfmean0 selfn0)

def genIncrement (inv : NP.M → Option Nat → NP.M) (graph : NP.Graph) (sparse : Bool) (mode : String) (nf k : Nat) (nc : Option Nat) (bias : Nat) (st : NP.GState) (incremental : Bool) (samples : NP.Samples) (nsamples : Option Nat) : Option NP.GState :=
  if (!incremental) then
    none
  else
    let p0 := (genDataToMatrix samples nsamples)
    let data0 := p0.1
    let u0 := p0.2
    match (genIncrementInner inv graph sparse mode nf k nc bias st (NP.arrayOf data0)) with
    | none => none
    | some self0 =>
      some self0

def genIncrementObj (inv : NP.M → Option Nat → NP.M) (graph : NP.Graph) (sparse : Bool) (mode : String) (nf k : Nat) (nc : Option Nat) (bias : Nat) (st : NP.GState) (incremental : Bool) (samples : List NP.V) (nsamples : Option Nat) : Option NP.GState :=
  if (!incremental) then
    none
  else
    let data0 := (NP.Samples.arr (NP.asMatrix samples nsamples))
    match (genIncrementInner inv graph sparse mode nf k nc bias st (NP.arrayOf data0)) with
    | none => none
    | some self0 =>
      some self0

def genIpca (lib : NP.Lib) (B Ua : NP.M) (la : NP.V) (na : Rat) (ma : Option NP.V) (f eps : Rat) (centre : Option Bool) : NP.M × NP.V × NP.V :=
  let precision0 := (NP.maxList ([(lib.eps lib.float64)] + ((if (lib.inexact (NP.dtypeIn lib B)) then [(lib.eps (NP.dtypeIn lib B))] else []) ++ (if (lib.inexact (NP.dtypeIn lib Ua)) then [(lib.eps (NP.dtypeIn lib Ua))] else []) ++ (if (lib.inexact (NP.dtypeIn lib la)) then [(lib.eps (NP.dtypeIn lib la))] else []))))
  let sa0 := (NP.sqrt lib.sqrt ((na - (1)) * la))
  let p0 := (NP.shape B)
  let nb0 := p0.1
  let d0 := p0.2
  let na0 := (na * f)
  let n0 := (na0 + nb0)
  let p1 := (if (centre).isNone then
      let centre0 := ((ma).isSome && (!(NP.allZero (NP.the ma))))
      centre0
    else
      (NP.truthy centre))
  let centre0 := p1
  let p2 := (if centre0 then
      let p2 := (if (ma).isNone then
          let ma0 := (NP.zerosV d0)
          ma0
        else
          (NP.the ma))
      let ma0 := p2
      let mb0 := (NP.mean0 B)
      let m0 := (((na0 / n0) * ma0) + ((nb0 / n0) * mb0))
      let B0 := (B - mb0)
      let B1 := (NP.vstack B0 ((NP.sqrt lib.sqrt ((na0 * nb0) / n0)) * (mb0 - ma0)))
      (ma0, m0, B1)
    else
      let m0 := (NP.zerosV d0)
      ((NP.the ma), m0, B))
  let ma0 := p2.1
  let m0 := p2.2.1
  let B0 := p2.2.2
  let PB0 := (B0 - (NP.dot (NP.dot B0 (NP.T Ua)) Ua))
  let Btilde0 := (NP.T (lib.qrQ (NP.T PB0)))
  let Sa0 := (NP.diag sa0)
  let R0 := (NP.hstack (NP.vstack (f * Sa0) (NP.dot B0 (NP.T Ua))) (NP.vstack (NP.zeros (NP.shape0 Sa0) (NP.shape0 Btilde0)) (NP.dot PB0 (NP.T Btilde0))))
  let p3 := (lib.svd R0)
  let Utilde0 := p3.1
  let stilde0 := p3.2.1
  let Vttilde0 := p3.2.2
  let l0 := ((NP.sq stilde0) / (n0 - (1)))
  let l1 := (NP.filterGt l0 (max eps (((NP.maxShape R0) * precision0) * (NP.vmax l0))))
  let U0 := (NP.sl (NP.dot Vttilde0 (NP.vstack Ua Btilde0)) 0 (NP.len l1) 0 (NP.shape1 (NP.dot Vttilde0 (NP.vstack Ua Btilde0))))
  (U0, l1, m0)

def genPcaDataToMatrix (data : NP.Samples) (nsamples : Option Nat) : NP.Samples × Nat :=
  let p0 := (if (nsamples).isNone then
      let nsamples0 := (NP.len data)
      nsamples0
    else
      (NP.the nsamples))
  let nsamples0 := p0
  let p1 := (if (!(NP.isArray data)) then
      let data0 := (NP.Samples.arr (NP.sl (NP.arrayOf data) 0 nsamples0 0 (NP.shape1 (NP.arrayOf data))))
      data0
    else
      data)
  let data0 := p1
  (data0, nsamples0)

def genPcaIncrement (lib : NP.Lib) (st : NP.PcaState) (data : NP.Samples) (nsamples : Option Nat) (ff : Rat) : NP.PcaState :=
  let p0 := (genPcaDataToMatrix data nsamples)
  let data0 := p0.1
  let nnewsamples0 := p0.2
  let p1 := (genIpca lib (NP.arrayOf data0) st.components st.eigs st.n (some st.mean) ff ipcaDefaultEps (some st.centred))
  let evectors0 := p1.1
  let evalues0 := p1.2.1
  let mvector0 := p1.2.2
  let reset0 := ((st.nactive == (NP.shape0 st.components)))
  let selfmean0 := mvector0
  let selfcomponents0 := evectors0
  let selfeigs0 := evalues0
  let selfn0 := (st.n + nnewsamples0)
  if reset0 then
    let selfnactive0 := (NP.shape0 selfcomponents0)
    NP.PcaState.mk selfmean0 selfcomponents0 selfeigs0 selfn0 selfnactive0 st.centred
  else
    NP.PcaState.mk selfmean0 selfcomponents0 selfeigs0 selfn0 st.nactive st.centred

def genPcaIncrementObj (lib : NP.Lib) (st : NP.PcaState) (samples : List NP.V) (nsamples : Option Nat) (ff : Rat) : NP.PcaState :=
  let data0 := (NP.asMatrix samples nsamples)
  let nnewsamples0 := (NP.shape0 data0)
  let self0 := (genPcaIncrement lib st (NP.Samples.arr data0) (some nnewsamples0) ff)
  self0

def genAsMatrix (vectorizables : List NP.Sample) (length : Option Nat) : Option NP.TM :=
  if (length).isNone then
    let length0 := (List.length vectorizables)
    match (List.head? vectorizables) with
    | none => none
    | some p0 =>
      let template0 := p0
      let vectorizables0 := (List.tail vectorizables)
      let nfeatures0 := (NP.Sample.nParameters template0)
      let templatevector0 := (NP.Sample.asVector template0)
      let data0 := (NP.tzeros length0 nfeatures0 (NP.dtypeOf templatevector0))
      let data1 := (NP.TM.setRow data0 (0) templatevector0)
      let vectorizables1 := (List.take (length0 - (1)) vectorizables0)
      let i0 := (0)
      let r0 := MenpoModel.Py.forLoop (i0, data1) ((NP.enumFrom1 vectorizables1)) (fun acc0 it0 =>
          let i1 := acc0.1
          let data0 := acc0.2
          let loopitem100 := it0
          let p1 := loopitem100
          let i0 := p1.1
          let sample0 := p1.2
          let vector0 := (NP.Sample.asVector sample0)
          let p2 := (if (!(NP.canCastSafe (NP.dtypeOf vector0) (NP.dtypeOf data0))) then
              let data1 := (NP.TM.astype data0 (NP.promote (NP.dtypeOf data0) (NP.dtypeOf vector0)))
              data1
            else
              data0)
          let data1 := p2
          let data0 := (NP.TM.setRow data1 i0 vector0)
          (i0, data0))
      let i1 := r0.1
      let data0 := r0.2
      if ((i1 != (length0 - (1)))) then
        none
      else
        some (data0)
  else
    match ((List.head? vectorizables).map fun h => (h, List.tail vectorizables)) with
    | none => none
    | some p0 =>
      let template0 := p0.1
      let vectorizables0 := p0.2
      let nfeatures0 := (NP.Sample.nParameters template0)
      let templatevector0 := (NP.Sample.asVector template0)
      let data0 := (NP.tzeros (NP.the length) nfeatures0 (NP.dtypeOf templatevector0))
      let data1 := (NP.TM.setRow data0 (0) templatevector0)
      let vectorizables1 := (List.take ((NP.the length) - (1)) vectorizables0)
      let i0 := (0)
      let r0 := MenpoModel.Py.forLoop (i0, data1) ((NP.enumFrom1 vectorizables1)) (fun acc0 it0 =>
          let i1 := acc0.1
          let data0 := acc0.2
          let loopitem100 := it0
          let p1 := loopitem100
          let i0 := p1.1
          let sample0 := p1.2
          let vector0 := (NP.Sample.asVector sample0)
          let p2 := (if (!(NP.canCastSafe (NP.dtypeOf vector0) (NP.dtypeOf data0))) then
              let data1 := (NP.TM.astype data0 (NP.promote (NP.dtypeOf data0) (NP.dtypeOf vector0)))
              data1
            else
              data0)
          let data1 := p2
          let data0 := (NP.TM.setRow data1 i0 vector0)
          (i0, data0))
      let i1 := r0.1
      let data0 := r0.2
      if ((i1 != ((NP.the length) - (1)))) then
        none
      else
        some (data0)


end MenpoModel.Generated.C11Src
