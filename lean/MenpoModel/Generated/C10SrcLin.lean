/- TRANSLATED by harness/trans_c10.py (harness/py2lean2.py) from the SOURCE TEXT of the vector-level methods of
   menpo/model/linear.py and menpo/model/pca.py of the current working tree on every run of `./check C10`, once per
   class (methods resolved through the live MRO of LinearVectorModel / MeanLinearVectorModel / PCAVectorModel); do not
   edit.  GenProps/C10SrcLin.lean proves every definition equal to the Core definition the C10 theorems are about. -/
import MenpoModel.Core.C10SrcLin

set_option linter.unusedVariables false

namespace MenpoModel.C10.Generated
open MenpoModel.C10 MenpoModel.C10.Src Matrix

variable {r j k d : ℕ}

def genLinLinearInstanceFull (U : Mat k d) (fullweights : Mat r j) : Mat r d :=
  (npDot fullweights U)

def genLinInstanceFull (U : Mat k d) (fullweights : Mat r j) : Mat r d :=
  (npDot fullweights U)

def genLinProjectVectors (U : Mat k d) (vectors : Mat r d) : Mat r k :=
  (npDot vectors (U)ᵀ)

def genLinInstanceVectors (U : Mat k d) (weights : Mat r j) : Except Err (Mat r d) :=
  let weights0 := weights
  let p0 := (shapeOf weights0)
  let ninstances0 := p0.1
  let nweights0 := p0.2
  if (!((nweights0 == (k : Nat)))) then
    .error .value
  else
    .ok ((genLinInstanceFull U weights0))

def genLinReconstructVectors (U : Mat k d) (vectors : Mat r d) : Except Err (Mat r d) :=
  genLinInstanceVectors U (genLinProjectVectors U vectors)

def genLinProjectOutVectors (U : Mat k d) (vectors : Mat r d) : Mat r d :=
  let weights0 := (genLinProjectVectors U vectors)
  (vectors - (genLinInstanceFull U weights0))

def genLinProject (U : Mat k d) (vector : Fin d → ℚ) : Fin k → ℚ :=
  (flat1 (genLinProjectVectors U (rowMat vector)))

def genLinInstance (U : Mat k d) (weights : Fin j → ℚ) : Except Err (Fin d → ℚ) :=
  let weights0 := weights
  (genLinInstanceVectors U (rowMat weights0)).bind fun h_0 =>
  .ok ((flat1 h_0))

def genLinReconstruct (U : Mat k d) (vector : Fin d → ℚ) : Except Err (Fin d → ℚ) :=
  (genLinReconstructVectors U (rowMat vector)).bind fun h_0 =>
  .ok ((flat1 h_0))

def genLinProjectOut (U : Mat k d) (vector : Fin d → ℚ) : Mat 1 d :=
  (genLinProjectOutVectors U (rowMat vector))

def genLinComponent (U : Mat k d) (index : Fin k) : Fin d → ℚ :=
  (U index)

def genMeanLinearInstanceFull (U : Mat k d) (m : Fin d → ℚ) (fullweights : Mat r j) : Mat r d :=
  (npDot fullweights U)

def genMeanInstanceFull (U : Mat k d) (m : Fin d → ℚ) (fullweights : Mat r j) : Mat r d :=
  let x0 := (genMeanLinearInstanceFull U m fullweights)
  (x0 + m)

def genMeanProjectVectors (U : Mat k d) (m : Fin d → ℚ) (vectors : Mat r d) : Mat r k :=
  let X0 := (vectors - m)
  (npDot X0 (U)ᵀ)

def genMeanInstanceVectors (U : Mat k d) (m : Fin d → ℚ) (weights : Mat r j) : Except Err (Mat r d) :=
  let weights0 := weights
  let p0 := (shapeOf weights0)
  let ninstances0 := p0.1
  let nweights0 := p0.2
  if (!((nweights0 == (k : Nat)))) then
    .error .value
  else
    .ok ((genMeanInstanceFull U m weights0))

def genMeanReconstructVectors (U : Mat k d) (m : Fin d → ℚ) (vectors : Mat r d) : Except Err (Mat r d) :=
  genMeanInstanceVectors U m (genMeanProjectVectors U m vectors)

def genMeanProjectOutVectors (U : Mat k d) (m : Fin d → ℚ) (vectors : Mat r d) : Mat r d :=
  let weights0 := (genMeanProjectVectors U m vectors)
  ((vectors - m) - (genMeanLinearInstanceFull U m weights0))

def genMeanProject (U : Mat k d) (m : Fin d → ℚ) (vector : Fin d → ℚ) : Fin k → ℚ :=
  (flat1 (genMeanProjectVectors U m (rowMat vector)))

def genMeanInstance (U : Mat k d) (m : Fin d → ℚ) (weights : Fin j → ℚ) : Except Err (Fin d → ℚ) :=
  let weights0 := weights
  (genMeanInstanceVectors U m (rowMat weights0)).bind fun h_0 =>
  .ok ((flat1 h_0))

def genMeanReconstruct (U : Mat k d) (m : Fin d → ℚ) (vector : Fin d → ℚ) : Except Err (Fin d → ℚ) :=
  (genMeanReconstructVectors U m (rowMat vector)).bind fun h_0 =>
  .ok ((flat1 h_0))

def genMeanProjectOut (U : Mat k d) (m : Fin d → ℚ) (vector : Fin d → ℚ) : Mat 1 d :=
  (genMeanProjectOutVectors U m (rowMat vector))

def genMeanComponent (U : Mat k d) (m : Fin d → ℚ) (index : Fin k) (withmean : Bool) (scale : ℚ) : Fin d → ℚ :=
  if withmean then
    ((scale * (U index)) + m)
  else
    (U index)

def genPcaLinearInstanceFull (U : Mat k d) (m : Fin d → ℚ) (sd : Fin k → ℚ) (fullweights : Mat r j) : Mat r d :=
  (npDot fullweights U)

def genPcaInstanceFull (U : Mat k d) (m : Fin d → ℚ) (sd : Fin k → ℚ) (fullweights : Mat r j) : Mat r d :=
  let x0 := (genPcaLinearInstanceFull U m sd fullweights)
  (x0 + m)

def genPcaProjectVectors (U : Mat k d) (m : Fin d → ℚ) (sd : Fin k → ℚ) (vectors : Mat r d) : Mat r k :=
  let X0 := (vectors - m)
  (npDot X0 (U)ᵀ)

def genPcaInstanceVectors (U : Mat k d) (m : Fin d → ℚ) (sd : Fin k → ℚ) (weights : Mat r j) (normalizedweights : Bool) : Except Err (Mat r d) :=
  let weights0 := weights
  let p0 := (shapeOf weights0)
  let ninstances0 := p0.1
  let nweights0 := p0.2
  if (decide (nweights0 > (k : Nat))) then
    .error .value
  else
    let fullweights0 := (0 : Mat _ k)
    let fullweights1 := (setLeftCols fullweights0 weights0)
    let weights1 := fullweights1
    if normalizedweights then
      let weights0 := (weights1 * sd)
      .ok ((genPcaInstanceFull U m sd weights0))
    else
      .ok ((genPcaInstanceFull U m sd weights1))

def genPcaReconstructVectors (U : Mat k d) (m : Fin d → ℚ) (sd : Fin k → ℚ) (vectors : Mat r d) : Except Err (Mat r d) :=
  genPcaInstanceVectors U m sd (genPcaProjectVectors U m sd vectors) false

def genPcaProjectOutVectors (U : Mat k d) (m : Fin d → ℚ) (sd : Fin k → ℚ) (vectors : Mat r d) : Mat r d :=
  let weights0 := (genPcaProjectVectors U m sd vectors)
  ((vectors - m) - (genPcaLinearInstanceFull U m sd weights0))

def genPcaProject (U : Mat k d) (m : Fin d → ℚ) (sd : Fin k → ℚ) (vector : Fin d → ℚ) : Fin k → ℚ :=
  (flat1 (genPcaProjectVectors U m sd (rowMat vector)))

def genPcaInstance (U : Mat k d) (m : Fin d → ℚ) (sd : Fin k → ℚ) (weights : Fin j → ℚ) (normalizedweights : Bool) : Except Err (Fin d → ℚ) :=
  let weights0 := weights
  (genPcaInstanceVectors U m sd (rowMat weights0) normalizedweights).bind fun h_0 =>
  .ok ((flat1 h_0))

def genPcaReconstruct (U : Mat k d) (m : Fin d → ℚ) (sd : Fin k → ℚ) (vector : Fin d → ℚ) : Except Err (Fin d → ℚ) :=
  (genPcaReconstructVectors U m sd (rowMat vector)).bind fun h_0 =>
  .ok ((flat1 h_0))

def genPcaProjectOut (U : Mat k d) (m : Fin d → ℚ) (sd : Fin k → ℚ) (vector : Fin d → ℚ) : Mat 1 d :=
  (genPcaProjectOutVectors U m sd (rowMat vector))

def genPcaWhitenedComponents (U : Mat k d) (sigma : Fin k → ℚ) : Mat k d :=
  (divRows U sigma)

def genPcaProjectWhitened (U : Mat k d) (sigma : Fin k → ℚ) (vectorinstance : Fin d → ℚ) : Fin k → ℚ :=
  let whitenedcomponents0 := (genPcaWhitenedComponents U sigma)
  (vectorinstance ᵥ* (whitenedcomponents0)ᵀ)

def genPcaComponent (U : Mat k d) (m : Fin d → ℚ) (sd : Fin k → ℚ) (index : Fin k) (withmean : Bool) (scale : ℚ) : Fin d → ℚ :=
  if withmean then
    let scaledeigval0 := (scale * (sd index))
    ((scaledeigval0 * (U index)) + m)
  else
    (U index)


end MenpoModel.C10.Generated
