/- TRANSLATED by harness/trans_c01.py (harness/py2lean2.py, py2lean2w.py, py2lean2c.py) from the SOURCE TEXT of
   menpo/image/base.py, masked.py, boolean.py, interpolation.py and menpo/transform/compositions.py of the current
   working tree on every run of `./check C01`; do not edit.
   GenProps/C01Src.lean proves every definition equal to the Core definition the C01 theorems are about. -/
import MenpoModel.Core.C01Src

set_option linter.unusedVariables false

namespace MenpoModel.C01.Gen
open MenpoModel.C01 MenpoModel.C01.Src

def genScipyInterpolation (spl : Spl) (pixels : Pixels) (pointstosample : PtArr) (mode : String) (order : Nat) (cval : Rat) : Sampled :=
  let sampledpixelvalues0 := (emptySampled (nChannelsP pixels) (Pixels.isBool pixels))
  let pointstosamplet0 := pointstosample
  let r0 := MenpoModel.Py.forLoop sampledpixelvalues0 ((PyIter.iter (pyRange (nChannelsP pixels)))) (fun acc0 it0 =>
      let sampledpixelvalues1 := acc0
      let i0 := it0
      let sampledpixelvalues0 := (setSampled sampledpixelvalues1 i0 (mapCoordinates spl (Sampled.isBool sampledpixelvalues1) (channel pixels i0) pointstosamplet0 mode order cval))
      sampledpixelvalues0)
  let sampledpixelvalues1 := r0
  sampledpixelvalues1

def genImageSample (spl : Spl) (slf : Obj) (pointstosample : PtArr) (order : Nat) (mode : String) (cval : Rat) : Except PyExc (Sampled) :=
  (Except.ok (genScipyInterpolation spl (pixelsOf slf) pointstosample mode order (PyNum.num cval)))

def genBooleanSample (spl : Spl) (slf : Obj) (pointstosample : PtArr) (mode : String) (cval : Rat) : Except PyExc (Sampled) :=
  (genImageSample spl slf pointstosample (0) mode (PyNum.num cval))

def genMaskedSample (spl : Spl) (slf : Obj) (pointstosample : PtArr) (order : Nat) (mode : String) (cval : Rat) (verifymask : Bool) : Except PyExc (Sampled) :=
  (match (genImageSample spl slf pointstosample order mode (PyNum.num cval)) with
  | .error e => (Except.error e)
  | .ok sampledvalues0 =>
    if verifymask then
      (match (genBooleanSample spl (maskObj slf) pointstosample mode (PyNum.num cval)) with
      | .error e => (Except.error e)
      | .ok sampledmask0 =>
        if (!(sampledAllTrue sampledmask0)) then
          (Except.error PyExc.valueErr)
        else
          (Except.ok sampledvalues0))
    else
      (Except.ok sampledvalues0))

def genBuildWarpToShape (slf : Obj) (warpedpixels : Pixels) (transform : TObj) (warplandmarks : Bool) (returntransform : Bool) : Except PyExc (Ret) :=
  let warpedimage0 := (newImage warpedpixels)
  if (warplandmarks && (hasLandmarks slf)) then
    let warpedimage1 := (setLandmarks warpedimage0 (landmarksOf slf))
    let warpedimage0 := (mapLandmarks warpedimage1 (TObj.pinv transform))
    if (hasPath slf) then
      let warpedimage1 := (setPath warpedimage0 (pathOf slf))
      if returntransform then
        (Except.ok (ToRet.toRet (warpedimage1, transform)))
      else
        (Except.ok (ToRet.toRet warpedimage1))
    else
      if returntransform then
        (Except.ok (ToRet.toRet (warpedimage0, transform)))
      else
        (Except.ok (ToRet.toRet warpedimage0))
  else
    if (hasPath slf) then
      let warpedimage1 := (setPath warpedimage0 (pathOf slf))
      if returntransform then
        (Except.ok (ToRet.toRet (warpedimage1, transform)))
      else
        (Except.ok (ToRet.toRet warpedimage1))
    else
      if returntransform then
        (Except.ok (ToRet.toRet (warpedimage0, transform)))
      else
        (Except.ok (ToRet.toRet warpedimage0))

def genImageWarpToShape (spl : Spl) (slf : Obj) (templateshape : IVec) (transform : TObj) (warplandmarks : Bool) (order : Nat) (mode : String) (cval : Rat) (batchsize : Option Nat) (returntransform : Bool) : Except PyExc (Ret) :=
  let templateshape0 := templateshape
  if ((TObj.isHomogeneous transform) && (decide (order < 2)) && ((ndims == (2))) && false) then
    let warpedpixels0 := (cv2Warp (pixelsOf slf) templateshape0 transform)
    (genBuildWarpToShape slf warpedpixels0 transform warplandmarks returntransform)
  else
    let templatepoints0 := (indicesForImageOfShape templateshape0)
    let pointstosample0 := (applyPts transform templatepoints0 batchsize)
    (match (match (slf).cls with | .image => (genImageSample spl slf pointstosample0 order mode (PyNum.num cval)) | .masked => (genMaskedSample spl slf pointstosample0 order mode (PyNum.num cval) false) | .boolean => (genBooleanSample spl slf pointstosample0 mode (PyNum.num cval))) with
    | .error e => (Except.error e)
    | .ok sampled0 =>
      let sampled1 := sampled0
      let warpedpixels0 := (reshapeSampled sampled1 templateshape0)
      (genBuildWarpToShape slf warpedpixels0 transform warplandmarks returntransform))

def genBooleanWarpToShape (spl : Spl) (slf : Obj) (templateshape : IVec) (transform : TObj) (warplandmarks : Bool) (mode : String) (cval : Rat) (batchsize : Option Nat) (returntransform : Bool) : Except PyExc (Ret) :=
  (match (Except.map Ret.obj (genImageWarpToShape spl slf templateshape transform warplandmarks (0) mode (PyNum.num cval) batchsize false)) with
  | .error e => (Except.error e)
  | .ok warped0 =>
    let booleanimage0 := (newBoolean (pixelsOf warped0))
    if (hasLandmarks warped0) then
      let booleanimage1 := (setLandmarks booleanimage0 (landmarksOf warped0))
      if (hasPath warped0) then
        let booleanimage0 := (setPath booleanimage1 (pathOf warped0))
        if returntransform then
          (Except.ok (ToRet.toRet (booleanimage0, transform)))
        else
          (Except.ok (ToRet.toRet booleanimage0))
      else
        if returntransform then
          (Except.ok (ToRet.toRet (booleanimage1, transform)))
        else
          (Except.ok (ToRet.toRet booleanimage1))
    else
      if (hasPath warped0) then
        let booleanimage1 := (setPath booleanimage0 (pathOf warped0))
        if returntransform then
          (Except.ok (ToRet.toRet (booleanimage1, transform)))
        else
          (Except.ok (ToRet.toRet booleanimage1))
      else
        if returntransform then
          (Except.ok (ToRet.toRet (booleanimage0, transform)))
        else
          (Except.ok (ToRet.toRet booleanimage0)))

def genMaskedWarpToShape (spl : Spl) (slf : Obj) (templateshape : IVec) (transform : TObj) (warplandmarks : Bool) (order : Nat) (mode : String) (cval : Rat) (batchsize : Option Nat) (returntransform : Bool) : Except PyExc (Ret) :=
  (match (Except.map Ret.obj (genImageWarpToShape spl slf templateshape transform warplandmarks order mode (PyNum.num cval) batchsize false)) with
  | .error e => (Except.error e)
  | .ok warpedimage0 =>
    (match (Except.map Ret.obj (genBooleanWarpToShape spl (maskObj slf) templateshape transform warplandmarks mode (PyNum.num cval) none false)) with
    | .error e => (Except.error e)
    | .ok mask0 =>
      let maskedwarpedimage0 := (asMasked warpedimage0 mask0)
      if (hasPath warpedimage0) then
        let maskedwarpedimage1 := (setPath maskedwarpedimage0 (pathOf warpedimage0))
        if returntransform then
          (Except.ok (ToRet.toRet (maskedwarpedimage1, transform)))
        else
          (Except.ok (ToRet.toRet maskedwarpedimage1))
      else
        if returntransform then
          (Except.ok (ToRet.toRet (maskedwarpedimage0, transform)))
        else
          (Except.ok (ToRet.toRet maskedwarpedimage0))))

def genImageBuildWarpToMask (slf : Obj) (templatemask : Obj) (sampledpixelvalues : Sampled) : Obj :=
  let warpedimage0 := (maskedBlank templatemask (nChannels slf))
  let warpedimage1 := (fromSampledMasked warpedimage0 sampledpixelvalues)
  warpedimage1

def genBooleanBuildWarpToMask (slf : Obj) (templatemask : Obj) (sampledpixelvalues : Sampled) : Obj :=
  let warpedimg0 := templatemask
  if (allTrue warpedimg0) then
    let warpedimg1 := (setPixelsSampled warpedimg0 sampledpixelvalues)
    warpedimg1
  else
    let warpedimg1 := (fromSampledMasked warpedimg0 sampledpixelvalues)
    warpedimg1

def genImageWarpToMask (spl : Spl) (slf : Obj) (templatemask : Obj) (transform : TObj) (warplandmarks : Bool) (order : Nat) (mode : String) (cval : Rat) (batchsize : Option Nat) (returntransform : Bool) : Except PyExc (Ret) :=
  if ((ndims != ndims)) then
    (Except.error PyExc.valueErr)
  else
    let templatepoints0 := (trueIndexPts templatemask)
    let pointstosample0 := (applyPts transform templatepoints0 batchsize)
    (match (match (slf).cls with | .image => (genImageSample spl slf pointstosample0 order mode (PyNum.num cval)) | .masked => (genMaskedSample spl slf pointstosample0 order mode (PyNum.num cval) false) | .boolean => (genBooleanSample spl slf pointstosample0 mode (PyNum.num cval))) with
    | .error e => (Except.error e)
    | .ok sampled0 =>
      let sampled1 := sampled0
      let warpedimage0 := (match (slf).cls with | .image => (genImageBuildWarpToMask slf templatemask sampled1) | .masked => (genImageBuildWarpToMask slf templatemask sampled1) | .boolean => (genBooleanBuildWarpToMask slf templatemask sampled1))
      if (warplandmarks && (hasLandmarks slf)) then
        let warpedimage1 := (setLandmarks warpedimage0 (landmarksOf slf))
        let warpedimage0 := (mapLandmarks warpedimage1 (TObj.pinv transform))
        if (hasPath slf) then
          let warpedimage1 := (setPath warpedimage0 (pathOf slf))
          if returntransform then
            (Except.ok (ToRet.toRet (warpedimage1, transform)))
          else
            (Except.ok (ToRet.toRet warpedimage1))
        else
          if returntransform then
            (Except.ok (ToRet.toRet (warpedimage0, transform)))
          else
            (Except.ok (ToRet.toRet warpedimage0))
      else
        if (hasPath slf) then
          let warpedimage1 := (setPath warpedimage0 (pathOf slf))
          if returntransform then
            (Except.ok (ToRet.toRet (warpedimage1, transform)))
          else
            (Except.ok (ToRet.toRet warpedimage1))
        else
          if returntransform then
            (Except.ok (ToRet.toRet (warpedimage0, transform)))
          else
            (Except.ok (ToRet.toRet warpedimage0)))

def genBooleanWarpToMask (spl : Spl) (slf : Obj) (templatemask : Obj) (transform : TObj) (warplandmarks : Bool) (mode : String) (cval : Rat) (batchsize : Option Nat) (returntransform : Bool) : Except PyExc (Ret) :=
  (genImageWarpToMask spl slf templatemask transform warplandmarks (0) mode (PyNum.num cval) batchsize returntransform)

def genMaskedWarpToMask (spl : Spl) (slf : Obj) (templatemask : Obj) (transform : TObj) (warplandmarks : Bool) (order : Nat) (mode : String) (cval : Rat) (batchsize : Option Nat) (returntransform : Bool) : Except PyExc (Ret) :=
  (match (Except.map Ret.obj (genImageWarpToMask spl slf templatemask transform warplandmarks order mode (PyNum.num cval) batchsize false)) with
  | .error e => (Except.error e)
  | .ok warpedimage0 =>
    let warpedimage1 := (setMask warpedimage0 templatemask)
    if returntransform then
      (Except.ok (ToRet.toRet (warpedimage1, transform)))
    else
      (Except.ok (ToRet.toRet warpedimage1)))

def genRoundImageShape (shape : Vec) (round : String) : Except PyExc (IVec) :=
  if (!(List.contains ["ceil", "round", "floor"] round)) then
    (Except.error PyExc.valueErr)
  else
    (Except.ok (roundVec round shape))

def genCentre (slf : Obj) : Vec :=
  ((IVec.toV (shapeOf slf)) / (2))

def genDiagonal (sqrtF : Rat → Rat) (slf : Obj) : Rat :=
  (sqrtF (vsum ((IVec.toV (shapeOf slf)) * (IVec.toV (shapeOf slf)))))

def genConstrainPointsToBounds (slf : Obj) (points : Vec) : Vec :=
  let boundedpoints0 := (Owned.mk points)
  let boundedpoints1 := (Owned.vwhere (vltZero (AsVec.vec boundedpoints0)) (0) boundedpoints0)
  let shape0 := (IVec.toV (shapeOf slf))
  let overimage0 := (vltZero (AsVec.vec (shape0 - boundedpoints1)))
  let boundedpoints0 := (Owned.vwhere overimage0 shape0 boundedpoints1)
  (AsVec.vec boundedpoints0)

def genTransformAboutCentreT (obj : Obj) (transform : TObj) : TObj :=
  let toorigin0 := (TObj.translation (-(genCentre obj)))
  let backtocentre0 := (TObj.translation (genCentre obj))
  if (TObj.isHomogeneous transform) then
    (TObj.composeBefore (TObj.composeBefore toorigin0 transform) backtocentre0)
  else
    (TObj.chain3 toorigin0 transform backtocentre0)

def genScaleAboutCentre (obj : Obj) (scale : Rat) : TObj :=
  let s0 := (TObj.uniformScale scale)
  (genTransformAboutCentreT obj s0)

def genCrop (spl : Spl) (slf : Obj) (minindices : Vec) (maxindices : Vec) (constraintoboundary : Bool) (returntransform : Bool) : Except PyExc (Ret) :=
  let minindices0 := (vfloor minindices)
  let maxindices0 := (vceil maxindices)
  if (!(((vsize minindices0) == (vsize maxindices0)) && ((vsize maxindices0) == ndims))) then
    (Except.error PyExc.valueErr)
  else
    if (!(vallGt maxindices0 minindices0)) then
      (Except.error PyExc.valueErr)
    else
      let minbounded0 := (genConstrainPointsToBounds slf minindices0)
      let maxbounded0 := (genConstrainPointsToBounds slf maxindices0)
      let allminbounded0 := (vallEq minbounded0 minindices0)
      let allmaxbounded0 := (vallEq maxbounded0 maxindices0)
      if (!(constraintoboundary || (allminbounded0 && allmaxbounded0))) then
        (Except.error PyExc.boundaryErr)
      else
        let newshape0 := (vtrunc (maxbounded0 - minbounded0))
        (match (match (slf).cls with | .image => (genImageWarpToShape spl slf newshape0 (TObj.translation minbounded0) true (0) "constant" (PyNum.num ((0 : Rat) / 1)) none returntransform) | .masked => (genMaskedWarpToShape spl slf newshape0 (TObj.translation minbounded0) true (0) "constant" (PyNum.num ((0 : Rat) / 1)) none returntransform) | .boolean => (genBooleanWarpToShape spl slf newshape0 (TObj.translation minbounded0) true "constant" (PyNum.num false) none returntransform)) with
        | .error e => (Except.error e)
        | .ok result0 =>
          let cropped0 := (Ret.obj result0)
          let block0 := (List.map (fun it0 => let p0 := it0; let lo0 := p0.1; let hi0 := p0.2; (lo0, hi0)) (PyIter.iter (vzip (vtrunc minbounded0) (vtrunc maxbounded0))))
          let cropped1 := (setPixelValues cropped0 (pixelBlock slf block0))
          let result1 := (Ret.withObj result0 cropped1)
          (Except.ok result1))

def genCropToPointcloud (spl : Spl) (slf : Obj) (pointcloud : List Vec) (boundary : Rat) (constraintoboundary : Bool) (returntransform : Bool) : Except PyExc (Ret) :=
  let p0 := (boundsOf pointcloud boundary)
  let minindices0 := p0.1
  let maxindices0 := p0.2
  (genCrop spl slf minindices0 maxindices0 constraintoboundary returntransform)

def genCropToLandmarks (spl : Spl) (slf : Obj) (group : Option String) (boundary : Rat) (constraintoboundary : Bool) (returntransform : Bool) : Except PyExc (Ret) :=
  let pc0 := (lmGroup slf group)
  (genCropToPointcloud spl slf pc0 boundary constraintoboundary returntransform)

def genCropToPointcloudProportion (spl : Spl) (slf : Obj) (pointcloud : List Vec) (boundaryproportion : Rat) (minimum : Bool) (constraintoboundary : Bool) (returntransform : Bool) : Except PyExc (Ret) :=
  if minimum then
    let boundary0 := (boundaryproportion * (vmin (rangeOf pointcloud)))
    (genCropToPointcloud spl slf pointcloud boundary0 constraintoboundary returntransform)
  else
    let boundary0 := (boundaryproportion * (vmax (rangeOf pointcloud)))
    (genCropToPointcloud spl slf pointcloud boundary0 constraintoboundary returntransform)

def genCropToLandmarksProportion (spl : Spl) (slf : Obj) (boundaryproportion : Rat) (group : Option String) (minimum : Bool) (constraintoboundary : Bool) (returntransform : Bool) : Except PyExc (Ret) :=
  let pc0 := (lmGroup slf group)
  (genCropToPointcloudProportion spl slf pc0 boundaryproportion minimum constraintoboundary returntransform)

def genBoundsTrue (slf : Obj) (boundary : Rat) (constraintobounds : Bool) : Except PyExc (Vec × Vec) :=
  let mpi0 := (trueIndexList slf)
  (match colMax mpi0 with
  | .error e => (Except.error e)
  | .ok tmp0 =>
  let maxes0 := (tmp0 + boundary)
  (match colMin mpi0 with
  | .error e => (Except.error e)
  | .ok tmp1 =>
  let mins0 := (tmp1 - boundary)
  if constraintobounds then
    let maxes1 := (genConstrainPointsToBounds slf maxes0)
    let mins1 := (genConstrainPointsToBounds slf mins0)
    (Except.ok (mins1, maxes1))
  else
    (Except.ok (mins0, maxes0))))

def genCropToTrueMask (spl : Spl) (slf : Obj) (boundary : Rat) (constraintoboundary : Bool) (returntransform : Bool) : Except PyExc (Ret) :=
  (match (genBoundsTrue (maskObj slf) boundary false) with
  | .error e => (Except.error e)
  | .ok p0 =>
    let p1 := p0
    let minindices0 := p1.1
    let maxindices0 := p1.2
    (genCrop spl slf minindices0 maxindices0 constraintoboundary returntransform))

def genRescale (spl : Spl) (slf : Obj) (scale : ScaleArg) (round : String) (order : Nat) (warplandmarks : Bool) (returntransform : Bool) : Except PyExc (Ret) :=
  match (
      (match pyLenScale scale with
      | .error e => (Except.error e)
      | .ok tmp0 =>
      if (decide (tmp0 < ndims)) then
        (Except.error PyExc.valueErr)
      else
        (Except.ok ()))) with
  | .ok t0 =>
    let scale0 := (ScaleArg.toVec scale)
    if (List.any (PyIter.iter scale0) (fun it0 => let s0 := it0; (decide (s0 ≤ 0)))) then
      (Except.error PyExc.valueErr)
    else
      let transform0 := (TObj.nonUniformScale scale0)
      (match (genRoundImageShape (TObj.applyVec transform0 (IVec.toV (shapeOf slf))) round) with
      | .error e => (Except.error e)
      | .ok templateshape0 =>
        let shape0 := (IVec.toV (shapeOf slf))
        let scalefactors0 := (((scale0 * shape0) - (1)) / (shape0 - (1)))
        let inversetransform0 := (TObj.pinv (TObj.nonUniformScale scalefactors0))
        (match (slf).cls with | .image => (genImageWarpToShape spl slf templateshape0 inversetransform0 warplandmarks order "nearest" (PyNum.num ((0 : Rat) / 1)) none returntransform) | .masked => (genMaskedWarpToShape spl slf templateshape0 inversetransform0 warplandmarks order "nearest" (PyNum.num ((0 : Rat) / 1)) none returntransform) | .boolean => (genBooleanWarpToShape spl slf templateshape0 inversetransform0 warplandmarks "nearest" (PyNum.num false) none returntransform)))
  | .error .typeErr =>
    let scale0 := (ScaleArg.rep scale ndims)
    let scale1 := (ScaleArg.toVec scale0)
    if (List.any (PyIter.iter scale1) (fun it0 => let s0 := it0; (decide (s0 ≤ 0)))) then
      (Except.error PyExc.valueErr)
    else
      let transform0 := (TObj.nonUniformScale scale1)
      (match (genRoundImageShape (TObj.applyVec transform0 (IVec.toV (shapeOf slf))) round) with
      | .error e => (Except.error e)
      | .ok templateshape0 =>
        let shape0 := (IVec.toV (shapeOf slf))
        let scalefactors0 := (((scale1 * shape0) - (1)) / (shape0 - (1)))
        let inversetransform0 := (TObj.pinv (TObj.nonUniformScale scalefactors0))
        (match (slf).cls with | .image => (genImageWarpToShape spl slf templateshape0 inversetransform0 warplandmarks order "nearest" (PyNum.num ((0 : Rat) / 1)) none returntransform) | .masked => (genMaskedWarpToShape spl slf templateshape0 inversetransform0 warplandmarks order "nearest" (PyNum.num ((0 : Rat) / 1)) none returntransform) | .boolean => (genBooleanWarpToShape spl slf templateshape0 inversetransform0 warplandmarks "nearest" (PyNum.num false) none returntransform)))
  | .error e0 => (Except.error e0)

def genRescaleToDiagonal (spl : Spl) (sqrtF : Rat → Rat) (slf : Obj) (diagonal : Rat) (round : String) (warplandmarks : Bool) (returntransform : Bool) : Except PyExc (Ret) :=
  (genRescale spl slf (ToScaleArg.conv (diagonal / (genDiagonal sqrtF slf))) round (1) warplandmarks returntransform)

def genRescaleToPointcloud (spl : Spl) (sqrtF : Rat → Rat) (slf : Obj) (pointcloud : List Vec) (group : Option String) (round : String) (order : Nat) (warplandmarks : Bool) (returntransform : Bool) : Except PyExc (Ret) :=
  let pc0 := (lmGroup slf group)
  let scale0 := (alignmentUniformScale sqrtF pc0 pointcloud)
  (genRescale spl slf (ToScaleArg.conv scale0) round order warplandmarks returntransform)

def genRescaleLandmarksToDiagonalRange (spl : Spl) (sqrtF : Rat → Rat) (slf : Obj) (diagonalrange : Rat) (group : Option String) (round : String) (order : Nat) (warplandmarks : Bool) (returntransform : Bool) : Except PyExc (Ret) :=
  let p0 := (rangeOf (lmGroup slf group))
  let x0 := p0.1
  let y0 := p0.2
  let scale0 := (diagonalrange / (sqrtF ((x0 * x0) + (y0 * y0))))
  (genRescale spl slf (ToScaleArg.conv scale0) round order warplandmarks returntransform)

def genResize (spl : Spl) (slf : Obj) (shape : Vec) (order : Nat) (warplandmarks : Bool) (returntransform : Bool) : Except PyExc (Ret) :=
  let shape0 := shape
  if (((vsize shape0) != ndims)) then
    (Except.error PyExc.valueErr)
  else
    let scales0 := (shape0 / IVec.toV (shapeOf slf))
    (genRescale spl slf (ToScaleArg.conv scales0) "round" order warplandmarks returntransform)

def genZoom (spl : Spl) (slf : Obj) (scale : Rat) (order : Nat) (warplandmarks : Bool) (returntransform : Bool) : Except PyExc (Ret) :=
  (match pyRecip scale with
  | .error e => (Except.error e)
  | .ok tmp0 =>
  let t0 := (genScaleAboutCentre slf tmp0)
  (match (slf).cls with | .image => (genImageWarpToShape spl slf (shapeOf slf) t0 warplandmarks order "nearest" (PyNum.num ((0 : Rat) / 1)) none returntransform) | .masked => (genMaskedWarpToShape spl slf (shapeOf slf) t0 warplandmarks order "nearest" (PyNum.num ((0 : Rat) / 1)) none returntransform) | .boolean => (genBooleanWarpToShape spl slf (shapeOf slf) t0 warplandmarks "nearest" (PyNum.num false) none returntransform)))

def genTransformAboutCentre (spl : Spl) (slf : Obj) (transform : TObj) (retainshape : Bool) (mode : String) (cval : Rat) (round : String) (order : Nat) (warplandmarks : Bool) (returntransform : Bool) : Except PyExc (Ret) :=
  if retainshape then
    let shape0 := (shapeOf slf)
    let appliedtransform0 := (genTransformAboutCentreT slf transform)
    (match (slf).cls with | .image => (genImageWarpToShape spl slf shape0 (TObj.pinv appliedtransform0) warplandmarks order mode (PyNum.num cval) none returntransform) | .masked => (genMaskedWarpToShape spl slf shape0 (TObj.pinv appliedtransform0) warplandmarks order mode (PyNum.num cval) none returntransform) | .boolean => (genBooleanWarpToShape spl slf shape0 (TObj.pinv appliedtransform0) warplandmarks mode (PyNum.num cval) none returntransform))
  else
    let originalbbox0 := (boundingBox 0 ((IVec.toV (shapeOf slf)) - (1)))
    let trans0 := (TObj.composeBefore (TObj.translation (-(genCentre slf))) transform)
    let transformedbbox0 := (TObj.applyList trans0 originalbbox0)
    let t0 := (TObj.translation (-(boundsOf transformedbbox0 0).1))
    let appliedtransform0 := (TObj.composeBefore trans0 t0)
    let transformedbbox1 := (TObj.applyList trans0 originalbbox0)
    (match (genRoundImageShape ((rangeOf transformedbbox1) + (1)) round) with
    | .error e => (Except.error e)
    | .ok shape0 =>
      (match (slf).cls with | .image => (genImageWarpToShape spl slf shape0 (TObj.pinv appliedtransform0) warplandmarks order mode (PyNum.num cval) none returntransform) | .masked => (genMaskedWarpToShape spl slf shape0 (TObj.pinv appliedtransform0) warplandmarks order mode (PyNum.num cval) none returntransform) | .boolean => (genBooleanWarpToShape spl slf shape0 (TObj.pinv appliedtransform0) warplandmarks mode (PyNum.num cval) none returntransform)))

def genRotateCcwAboutCentre (spl : Spl) (slf : Obj) (theta : Rat × Rat) (degrees : Bool) (retainshape : Bool) (mode : String) (cval : Rat) (round : String) (order : Nat) (warplandmarks : Bool) (returntransform : Bool) : Except PyExc (Ret) :=
  if ((ndims != (2))) then
    (Except.error PyExc.valueErr)
  else
    let rotation0 := (TObj.rotationOfCosSin theta)
    (genTransformAboutCentre spl slf rotation0 retainshape mode cval round order warplandmarks returntransform)

def genMirror (spl : Spl) (slf : Obj) (axis : Int) (order : Nat) (warplandmarks : Bool) (returntransform : Bool) : Except PyExc (Ret) :=
  if (decide (axis < (0))) then
    (Except.error PyExc.valueErr)
  else
    if (decide (axis ≥ ndims)) then
      (Except.error PyExc.valueErr)
    else
      let rotmatrix0 := Mat.eye
      let rotmatrix1 := (Mat.set rotmatrix0 axis axis (-(1)))
      let trmatrix0 := (0 : Vec)
      let trmatrix1 := (Vec.set trmatrix0 axis (PyNum.num ((IVec.get (shapeOf slf) axis) - (1))))
      let trans0 := (TObj.composeBefore (TObj.rotation rotmatrix1) (TObj.translation trmatrix1))
      (match (slf).cls with | .image => (genImageWarpToShape spl slf (shapeOf slf) (TObj.pinv trans0) warplandmarks order "nearest" (PyNum.num ((0 : Rat) / 1)) none returntransform) | .masked => (genMaskedWarpToShape spl slf (shapeOf slf) (TObj.pinv trans0) warplandmarks order "nearest" (PyNum.num ((0 : Rat) / 1)) none returntransform) | .boolean => (genBooleanWarpToShape spl slf (shapeOf slf) (TObj.pinv trans0) warplandmarks "nearest" (PyNum.num false) none returntransform))

def genPyramid (spl : Spl) (slf : Obj) (nlevels : Int) (downscale : Rat) : Except PyExc (List Obj) :=
  let out0 := ([] : List Obj)
  let image0 := slf
  let out1 := (out0 ++ [image0])
  let r0 := MenpoModel.Py.forLoop (none, out1, image0) ((PyIter.iter (pyRange (nlevels - (1))))) (fun acc0 it0 =>
      if (acc0.1).isSome then acc0 else
      let out0 := acc0.2.1
      let image1 := acc0.2.2
      let u0 := it0
      (match pyRecip downscale with
      | .error e => (some ((Except.error e)), out0, image1)
      | .ok tmp0 =>
      (match (Except.map Ret.obj (genRescale spl image1 (ToScaleArg.conv tmp0) "ceil" (1) true false)) with
      | .error e => (some ((Except.error e)), out0, image1)
      | .ok image0 =>
        let out1 := (out0 ++ [image0])
        (none, out1, image0))))
  let out0 := r0.2.1
  let image1 := r0.2.2
  match r0.1 with
  | some v0 =>
      v0
  | none =>
    (Except.ok out0)

def genGaussianPyramid (spl : Spl) (kern : Rat → List Rat) (slf : Obj) (nlevels : Int) (downscale : Rat) (sigma : Option Rat) : Except PyExc (List Obj) :=
  let out0 := ([] : List Obj)
  if (Option.isNone sigma) then
    let sigma0 := (some (downscale / 3))
    let image0 := slf
    let out1 := (out0 ++ [image0])
    let r0 := MenpoModel.Py.forLoop (none, out1, image0) ((PyIter.iter (pyRange (nlevels - (1))))) (fun acc0 it0 =>
        if (acc0.1).isSome then acc0 else
        let out0 := acc0.2.1
        let image1 := acc0.2.2
        let level0 := it0
        (match pyRecip downscale with
        | .error e => (some ((Except.error e)), out0, image1)
        | .ok tmp0 =>
        (match (Except.map Ret.obj (genRescale spl (gaussianFilter kern image1 sigma0) (ToScaleArg.conv tmp0) "ceil" (1) true false)) with
        | .error e => (some ((Except.error e)), out0, image1)
        | .ok image0 =>
          let out1 := (out0 ++ [image0])
          (none, out1, image0))))
    let out0 := r0.2.1
    let image1 := r0.2.2
    match r0.1 with
    | some v0 =>
        v0
    | none =>
      (Except.ok out0)
  else
    let image0 := slf
    let out1 := (out0 ++ [image0])
    let r0 := MenpoModel.Py.forLoop (none, out1, image0) ((PyIter.iter (pyRange (nlevels - (1))))) (fun acc0 it0 =>
        if (acc0.1).isSome then acc0 else
        let out0 := acc0.2.1
        let image1 := acc0.2.2
        let level0 := it0
        (match pyRecip downscale with
        | .error e => (some ((Except.error e)), out0, image1)
        | .ok tmp1 =>
        (match (Except.map Ret.obj (genRescale spl (gaussianFilter kern image1 sigma) (ToScaleArg.conv tmp1) "ceil" (1) true false)) with
        | .error e => (some ((Except.error e)), out0, image1)
        | .ok image0 =>
          let out1 := (out0 ++ [image0])
          (none, out1, image0))))
    let out0 := r0.2.1
    let image1 := r0.2.2
    match r0.1 with
    | some v0 =>
        v0
    | none =>
      (Except.ok out0)

def genConstrainLandmarksToBounds (slf : Obj) : Obj :=
  let r0 := MenpoModel.Py.forLoop slf ((PyIter.iter (groupNames slf))) (fun acc0 it0 =>
      let self0 := acc0
      let lgroup0 := it0
      let l0 := (lmGroup self0 lgroup0)
      let r0 := MenpoModel.Py.forLoop l0 ((PyIter.iter (pyRange ndims))) (fun acc1 it1 =>
          let l1 := acc1
          let k0 := it1
          let tmp0 := (column l1 k0)
          let tmp1 := (clampLow tmp0)
          let tmp0 := (clampHigh tmp1 (PyNum.num ((IVec.get (shapeOf self0) k0) - (1))))
          let l0 := (setColumn l1 k0 tmp0)
          l0)
      let l1 := r0
      let self1 := (setLmGroup self0 lgroup0 l1)
      self1)
  let self0 := r0
  self0

def genConstrainToPointcloud (inside : PipFn → List Vec → Vec → Bool) (slf : Obj) (pointcloud : List Vec) (batchsize : Option Nat) (pointinpointcloud : String) : Except PyExc (Obj) :=
  let copy0 := slf
  if ((List.contains ["pwa", "convex_hull"] pointinpointcloud) && ((ndims != (2)))) then
    (Except.error PyExc.valueErr)
  else
    if ((pointinpointcloud == "pwa")) then
      let pointinpointcloud0 := PipFn.pwa
      let bounds0 := (boundsOf pointcloud 0)
      let bounds1 := (List.map (fun it0 => let b0 := it0; (vtrunc b0)) (PyIter.iter bounds0))
      let indices0 := (allIndices copy0)
      let r0 := MenpoModel.Py.forLoop indices0 ((PyIter.iter (pyRange ndims))) (fun acc0 it0 =>
          let indices1 := acc0
          let k0 := it0
          let indices0 := (filterGe indices1 k0 (IVec.get (List.getD bounds1 (0) ⟨0, 0⟩) k0))
          let indices1 := (filterLe indices0 k0 (IVec.get (List.getD bounds1 (1) ⟨0, 0⟩) k0))
          indices1)
      let indices1 := r0
      let copy1 := (clearPixels copy0)
      let allchannels0 := [((0), (1))]
      let slices0 := (PyAdd.add allchannels0 (List.map (fun it0 => let k0 := it0; ((IVec.get (List.getD bounds1 (0) ⟨0, 0⟩) k0), (PyAdd.add (IVec.get (List.getD bounds1 (1) ⟨0, 0⟩) k0) (1)))) (PyIter.iter (pyRange ndims))))
      let copy0 := (assignFlat copy1 slices0 (applyPip inside pointinpointcloud0 pointcloud indices1))
      (Except.ok copy0)
    else
      if ((pointinpointcloud == "convex_hull")) then
        let pointinpointcloud0 := PipFn.hull
        let bounds0 := (boundsOf pointcloud 0)
        let bounds1 := (List.map (fun it0 => let b0 := it0; (vtrunc b0)) (PyIter.iter bounds0))
        let indices0 := (allIndices copy0)
        let r0 := MenpoModel.Py.forLoop indices0 ((PyIter.iter (pyRange ndims))) (fun acc0 it0 =>
            let indices1 := acc0
            let k0 := it0
            let indices0 := (filterGe indices1 k0 (IVec.get (List.getD bounds1 (0) ⟨0, 0⟩) k0))
            let indices1 := (filterLe indices0 k0 (IVec.get (List.getD bounds1 (1) ⟨0, 0⟩) k0))
            indices1)
        let indices1 := r0
        let copy1 := (clearPixels copy0)
        let allchannels0 := [((0), (1))]
        let slices0 := (PyAdd.add allchannels0 (List.map (fun it0 => let k0 := it0; ((IVec.get (List.getD bounds1 (0) ⟨0, 0⟩) k0), (PyAdd.add (IVec.get (List.getD bounds1 (1) ⟨0, 0⟩) k0) (1)))) (PyIter.iter (pyRange ndims))))
        let copy0 := (assignFlat copy1 slices0 (applyPip inside pointinpointcloud0 pointcloud indices1))
        (Except.ok copy0)
      else
        (Except.error PyExc.valueErr)

def genConstrainToLandmarks (inside : PipFn → List Vec → Vec → Bool) (slf : Obj) (group : Option String) (batchsize : Option Nat) : Except PyExc (Obj) :=
  (genConstrainToPointcloud inside slf (lmGroup slf group) batchsize "pwa")

def genConstrainMaskToLandmarks (inside : PipFn → List Vec → Vec → Bool) (slf : Obj) (group : Option String) (batchsize : Option Nat) (pointinpointcloud : String) : Except PyExc (Obj) :=
  let copy0 := slf
  (match (genConstrainToPointcloud inside (maskObj copy0) (lmGroup copy0 group) batchsize pointinpointcloud) with
  | .error e => (Except.error e)
  | .ok tmp0 =>
  let copy1 := (setMask copy0 tmp0)
  (Except.ok copy1))


end MenpoModel.C01.Gen
