/- TRANSLATED by harness/trans_c16.py (harness/py2lean2.py) from the SOURCE TEXT of menpo.io.utils._normalize_extension / _possible_extensions_from_filepath / _norm_path,
   menpo.io.output.base._parse_and_validate_extension / _enforce_only_paths_supported and
   menpo.io.input.base.importer_for_filepath
   of the current working tree on every run of `./check C16`; do not edit.
   GenProps/C16SrcPure.lean proves every definition equal to its specification in Core/C16Src*.lean. -/
import MenpoModel.Core.C16Src
set_option linter.unusedVariables false

namespace MenpoModel.Generated.C16
open MenpoModel.C16 MenpoModel.C16.PyX


def genNormalizeExtension (extension : OStr) : Except Exc OStr :=
  if (extension).isNone then
    .ok (none)
  else
    Except.bind ((firstCharIsNot '.' extension)) fun tmp0 =>
    if tmp0 then
      let extension0 := (strPrepend '.' extension)
      .ok ((strLower extension0))
    else
      .ok ((strLower extension))

def genPossibleExts (filepath : Fp) : List OStr :=
  let suffixes0 := (Fp.suffixes filepath)
  (List.map (fun it0 => let i0 := it0; (strLower (strJoin ((suffixes0).drop i0)))) (List.range (suffixes0).length))

def genNormPath (env : Env) (cwd : Path) (filepath : Fp) : Fp :=
  (Fp.path (osAbspath cwd (osNormpath (expandVars env (expandUser env (Fp.toStr filepath))))))

def genParseAndValidate (filepath : Fp) (extension : OStr) (extensionsmap : List (String × String)) : Except Exc OStr :=
  let possibleexts0 := (genPossibleExts filepath)
  let knownextension0 := none
  match PyX.whileLoop ((Fp.suffixes filepath).length + 1) (knownextension0, possibleexts0) (fun acc0 => let knownextension1 := acc0.1; let possibleexts1 := acc0.2; ((knownextension1).isNone && (PyX.truthy possibleexts1))) (fun acc0 =>
      let knownextension1 := acc0.1
      let possibleexts1 := acc0.2
      let possibleextension0 := ((possibleexts1).headD none)
      let possibleexts0 := ((possibleexts1).tail)
      if (mapHas extensionsmap possibleextension0) then
        let knownextension0 := possibleextension0
        (knownextension0, possibleexts0)
      else
        (knownextension1, possibleexts0)) with
  | none =>
      .error Exc.fuel
  | some r0 =>
    let knownextension1 := r0.1
    let possibleexts1 := r0.2
    if (knownextension1).isNone then
      .error Exc.valueError
    else
      if (extension).isSome then
        Except.bind ((genNormalizeExtension extension)) fun extension0 =>
          if ((extension0 != knownextension1)) then
            .error Exc.valueError
          else
            .ok (knownextension1)
      else
        .ok (knownextension1)

def genImporterFor (filepath : Fp) (extensionsmap : List (String × String)) : Except Exc (Option String) :=
  let possibleexts0 := (genPossibleExts filepath)
  let importercallable0 := none
  match PyX.whileLoop ((Fp.suffixes filepath).length + 1) (importercallable0, possibleexts0) (fun acc0 => let importercallable1 := acc0.1; let possibleexts1 := acc0.2; ((importercallable1).isNone && (PyX.truthy possibleexts1))) (fun acc0 =>
      let importercallable1 := acc0.1
      let possibleexts1 := acc0.2
      let importercallable0 := (mapGet extensionsmap ((possibleexts1).headD none))
      let possibleexts0 := ((possibleexts1).tail)
      (importercallable0, possibleexts0)) with
  | none =>
      .error Exc.fuel
  | some r0 =>
    let importercallable1 := r0.1
    let possibleexts1 := r0.2
    if (importercallable1).isNone then
      .error Exc.valueError
    else
      .ok (importercallable1)

def genEnforcePaths (filepath : Fp) : Except Exc Fp :=
  if ((Fp.hasName filepath) && (!(Fp.isPath filepath))) then
    Except.bind ((Fp.getName filepath)) fun filepath0 =>
      if (Fp.isStrOrPath filepath0) then
        .ok (filepath0)
      else
        .error Exc.valueError
  else
    if (Fp.isStrOrPath filepath) then
      .ok (filepath)
    else
      .error Exc.valueError

end MenpoModel.Generated.C16
