/- TRANSLATED by harness/trans_c15.py (harness/py2lean2.py) from the SOURCE TEXT of the current working tree on every
   run of `./check C15`; do not edit.  menpo/shape/labelled.py (LabelledPointUndirectedGraph.labels,
   _verify_all_labels_masked, __init__, copy, _new_group_with_only_labels, with_labels, without_labels, get_label,
   add_label, remove_label, init_from_indices_mapping, init_with_all_label; indices_to_masks),
   menpo/shape/graph.py (PointUndirectedGraph.from_mask), menpo/landmark/labels/base.py (validate_input,
   connectivity_from_array, connectivity_from_range, pcloud_and_lgroup_from_ranges).
   GenProps/C15Src.lean proves each definition equal to the Core definition the C15 theorems are about. -/
import MenpoModel.Core.C15Src

set_option linter.unusedVariables false

namespace MenpoModel.C15.SrcGen
open MenpoModel.C15 MenpoModel.C15.Src

def labels_prop {α : Type} (s : LGraph α) : List String :=
  (ODict.keys (ODict.mk s.labels))

def verify_all_labels_masked {α : Type} (s : LGraph α) : Except Err (LGraph α) :=
  let labelsvalues0 := (ODict.values (ODict.mk s.labels))
  let unlabelledpoints0 := (npSumEq0 labelsvalues0)
  if (NpMask.any unlabelledpoints0) then
    let nonzero0 := ()
    .error .value
  else
    .ok s

def from_mask {α : Type} (s : LGraph α) (mask : NpMask) : Except Err (LGraph α) :=
  (match (PyShape.shape0 mask) with
  | .error err => .error err
  | .ok tmp0 =>
  if ((tmp0 != s.pts.length)) then
    .error .value
  else
    if (NpMask.all mask) then
      (puInit s.pts (adjOf s) true)
    else
      let p0 := (maskAdjPts mask (adjOf s) s.pts)
      let adjacencymatrix0 := p0.1
      let points0 := p0.2
      (puInit points0 adjacencymatrix0 false))

def lpug_init {α : Type} (points : List α) (adjacency_matrix : Adj) (labels_to_masks : ODict (List Bool)) (copy skip_checks : Bool) : Except Err (LGraph α) :=
  (match (puInit points adjacency_matrix skip_checks) with
  | .error err => .error err
  | .ok self0 =>
    if (!(PyTruth.truth labels_to_masks)) then
      .error .value
    else
      (match (vstackWidth (ODict.values labels_to_masks)) with
      | .error err => .error err
      | .ok tmp0 =>
      (match (PyShape.shape0 points) with
      | .error err => .error err
      | .ok tmp1 =>
      if ((tmp0 != tmp1)) then
        .error .value
      else
        if (!true) then
          .error .value
        else
          let self1 := { self0 with labels := (ODict.items labels_to_masks) }
          (match (verify_all_labels_masked self1) with
          | .error err => .error err
          | .ok self0 =>
            if (PyTruth.truth copy) then
              let self1 := { self0 with labels := (ODict.items (ODict.ofPairs (List.map (fun it0 => let p0 := it0; let l0 := p0.1; let m0 := p0.2; (l0, m0)) (PyIter.iter (ODict.items labels_to_masks))))) }
              .ok self1
            else
              .ok self0))))

def copy_ {α : Type} (s : LGraph α) : LGraph α :=
  let new0 := s
  let r0 := MenpoModel.Py.forLoop new0 ((PyIter.iter new0.labels)) (fun acc0 it0 =>
      let new1 := acc0
      let p0 := it0
      let k0 := p0.1
      let v0 := p0.2
      let new0 := { new1 with labels := setLabel new1.labels k0 v0 }
      new0)
  let new1 := r0
  new1

def new_group_with_only_labels {α : Type} (s : LGraph α) (labels : PyArg) : Except Err (LGraph α) :=
  (match (pySetDiff labels (labels_prop s)) with
  | .error err => .error err
  | .ok setdifference0 =>
    if (decide ((List.length setdifference0) > (0))) then
      .error .value
    else
      let maskstokeep0 := (List.filterMap (fun it0 => let l0 := it0; if (PyHas.has (ODict.mk s.labels) l0) then some ((ODict.getD (ODict.mk s.labels) l0 [])) else none) (PyIter.iter labels))
      let overlap0 := (npSumGt0 maskstokeep0)
      let maskstokeep1 := (List.map (fun it0 => let l0 := it0; (maskIndex l0 overlap0)) (PyIter.iter maskstokeep0))
      (match (from_mask s overlap0) with
      | .error err => .error err
      | .ok newgraph0 =>
        (lpug_init newgraph0.pts (adjOf newgraph0) (ODict.zip (PyIter.iter labels) maskstokeep1) true false)))

def with_labels {α : Type} (s : LGraph α) (labels : PyArg) : Except Err (LGraph α) :=
  if (PyArg.isStr labels) then
    let labels0 := (PyArg.wrap labels)
    (new_group_with_only_labels s labels0)
  else
    (new_group_with_only_labels s labels)

def without_labels {α : Type} (s : LGraph α) (labels : PyArg) : Except Err (LGraph α) :=
  if (PyArg.isStr labels) then
    let labels0 := (PyArg.wrap labels)
    let labelstokeep0 := (List.filterMap (fun it0 => let l0 := it0; if (!(PyHas.has labels0 l0)) then some (l0) else none) (PyIter.iter (labels_prop s)))
    (new_group_with_only_labels s (PyArg.list labelstokeep0))
  else
    let labelstokeep0 := (List.filterMap (fun it0 => let l0 := it0; if (!(PyHas.has labels l0)) then some (l0) else none) (PyIter.iter (labels_prop s)))
    (new_group_with_only_labels s (PyArg.list labelstokeep0))

def get_label {α : Type} (s : LGraph α) (label : String) : Except Err (LGraph α) :=
  (match (ODict.get (ODict.mk s.labels) label) with
  | .error err => .error err
  | .ok mask0 =>
    (from_mask s mask0))

def add_label {α : Type} (s : LGraph α) (label : String) (indices : List Int) : Except Err (LGraph α) :=
  let new0 := (copy_ s)
  let mask0 := (List.replicate s.pts.length false)
  (match (setTrueAt mask0 indices) with
  | .error err => .error err
  | .ok mask1 =>
    let new1 := { new0 with labels := setLabel new0.labels label mask1 }
    (match (verify_all_labels_masked new1) with
    | .error err => .error err
    | .ok new0 =>
      .ok (new0)))

def remove_label {α : Type} (s : LGraph α) (label : String) : Except Err (LGraph α) :=
  let new0 := (copy_ s)
  (match (popLabel new0 label) with
  | .error err => .error err
  | .ok new1 =>
    (match (verify_all_labels_masked new1) with
    | .error err => .error err
    | .ok new0 =>
      .ok (new0)))

def indices_to_masks (labels_to_indices : ODict (List Int)) (n_points : Nat) : Except Err (ODict (List Bool)) :=
  if (!true) then
    .error .value
  else
    let masks0 := ODict.empty
    let r0 := MenpoModel.Py.forLoop (none, masks0) ((PyIter.iter labels_to_indices)) (fun acc0 it0 =>
        if (acc0.1).isSome then acc0 else
        let masks1 := acc0.2
        let label0 := it0
        let indices0 := (ODict.getD labels_to_indices label0 [])
        let mask0 := (List.replicate n_points false)
        (match (setTrueAt mask0 indices0) with
        | .error err => (some (.error err), masks1)
        | .ok mask1 =>
          let masks0 := (ODict.set masks1 label0 mask1)
          (none, masks0)))
    let masks1 := r0.2
    match r0.1 with
    | some v0 =>
        v0
    | none =>
      .ok (masks1)

def init_from_indices_mapping {α : Type} (points : List α) (adjacency : Adj) (labels_to_indices : ODict (List Int)) (copy : Bool) : Except Err (LGraph α) :=
  let adjacency0 := adjacency
  if ((((PyShape.shape0D adjacency0) != (Adj.shape1 adjacency0))) && (((Adj.shape1 adjacency0) == (2)))) then
    (match (PyShape.shape0 points) with
    | .error err => .error err
    | .ok tmp0 =>
    (match (convertEdges adjacency0 tmp0) with
    | .error err => .error err
    | .ok adjacency1 =>
      (match (PyShape.shape0 points) with
      | .error err => .error err
      | .ok tmp1 =>
      (match (indices_to_masks labels_to_indices tmp1) with
      | .error err => .error err
      | .ok labelstomasks0 =>
        (lpug_init points adjacency1 labelstomasks0 copy false)))))
  else
    (match (PyShape.shape0 points) with
    | .error err => .error err
    | .ok tmp2 =>
    (match (indices_to_masks labels_to_indices tmp2) with
    | .error err => .error err
    | .ok labelstomasks0 =>
      (lpug_init points adjacency0 labelstomasks0 copy false)))

def init_with_all_label {α : Type} (points : List α) (adjacency_matrix : Adj) (copy : Bool) : Except Err (LGraph α) :=
  (match (PyShape.shape0 points) with
  | .error err => .error err
  | .ok tmp0 =>
  let labelstomasks0 := (ODict.ofPairs [("all", (List.replicate tmp0 true))])
  (lpug_init points adjacency_matrix labelstomasks0 copy false))

def init_from_edges {α : Type} (points : List α) (edges : Adj) (labels_to_masks : ODict (List Bool)) (copy skip_checks : Bool) : Except Err (LGraph α) :=
  (match (PyShape.shape0 points) with
  | .error err => .error err
  | .ok tmp0 =>
  (match (convertEdges edges tmp0) with
  | .error err => .error err
  | .ok adjacencymatrix0 =>
    (lpug_init points adjacencymatrix0 labels_to_masks copy skip_checks)))

def n_labels {α : Type} (s : LGraph α) : Nat :=
  (List.length (labels_prop s))

def validate_input {α : Type} (pcloud : List α) (n_expected_points : Nat) : Except Err Unit :=
  if (((List.length pcloud) != n_expected_points)) then
    let msg0 := ()
    .error .labelling
  else
    .ok ()

def connectivity_from_array (array : List Int) (close_loop : Bool) : Except Err (List (Int × Int)) :=
  let conn0 := (List.zip array (List.drop 1 array))
  if (PyTruth.truth close_loop) then
    (match (pyLast array) with
    | .error err => .error err
    | .ok tmp0 =>
    (match (pyHead array) with
    | .error err => .error err
    | .ok tmp1 =>
    let conn1 := (conn0 ++ [(tmp0, tmp1)])
    .ok (conn1)))
  else
    .ok (conn0)

def connectivity_from_range (range_tuple : Int × Int) (close_loop : Bool) : Except Err (List (Int × Int)) :=
  (connectivity_from_array (arange range_tuple.1 range_tuple.2) close_loop)

def pcloud_and_lgroup_from_ranges {α : Type} (pointcloud : List α) (labels_to_ranges : ODict (Int × Int × Bool)) : Except Err (LGraph α × ODict (List Int)) :=
  let mapping0 := ODict.empty
  let allconnectivity0 := []
  let r0 := MenpoModel.Py.forLoop (none, allconnectivity0, mapping0) ((PyIter.iter (ODict.items labels_to_ranges))) (fun acc0 it0 =>
      if (acc0.1).isSome then acc0 else
      let allconnectivity1 := acc0.2.1
      let mapping1 := acc0.2.2
      let p0 := it0
      let label0 := p0.1
      let tup0 := p0.2
      let rangetuple0 := (tup0.1, tup0.2.1)
      let closeloop0 := tup0.2.2
      (match (connectivity_from_range rangetuple0 closeloop0) with
      | .error err => (some (.error err), allconnectivity1, mapping1)
      | .ok connectivity0 =>
        let allconnectivity0 := (allconnectivity1 ++ [connectivity0])
        let mapping0 := (ODict.set mapping1 label0 (arange rangetuple0.1 rangetuple0.2))
        (none, allconnectivity0, mapping0)))
  let allconnectivity1 := r0.2.1
  let mapping1 := r0.2.2
  match r0.1 with
  | some v0 =>
      v0
  | none =>
    let allconnectivity0 := (List.flatten allconnectivity1)
    (match (init_from_indices_mapping pointcloud (Adj.edgeList allconnectivity0) mapping1 true) with
    | .error err => .error err
    | .ok newpcloud0 =>
      .ok ((newpcloud0, mapping1)))

def labeller {α : Type} (landmarkable : Manager α) (group : Option String) (label_func : LabFunc) : Except Err (Manager α) :=
  (match (Manager.getItem landmarkable group) with
  | .error err => .error err
  | .ok tmp0 =>
  (match (callOnGroup label_func tmp0) with
  | .error err => .error err
  | .ok newgroup0 =>
    (match (Manager.setItem landmarkable label_func.groupLabel newgroup0) with
    | .error err => .error err
    | .ok landmarkable0 =>
      .ok (landmarkable0))))

def wrapper {α : Type} (method : List α → Except Err (Obj α × ODict (List Int))) (x : InArg α) (return_mapping : Bool) : Except Err (Obj α × Option (ODict (List Int))) :=
  if (InArg.isArray x) then
    let x0 := (InArg.toCloud x)
    (match (methodOn method x0) with
    | .error err => .error err
    | .ok tmp0 =>
      let p0 := tmp0
      let newpcloud0 := p0.1
      let mapping0 := p0.2
      if (PyTruth.truth return_mapping) then
        .ok (ToWrapOut.conv ((newpcloud0, mapping0)))
      else
        .ok (ToWrapOut.conv (newpcloud0)))
  else
    (match (methodOn method x) with
    | .error err => .error err
    | .ok tmp1 =>
      let p0 := tmp1
      let newpcloud0 := p0.1
      let mapping0 := p0.2
      if (PyTruth.truth return_mapping) then
        .ok (ToWrapOut.conv ((newpcloud0, mapping0)))
      else
        .ok (ToWrapOut.conv (newpcloud0)))

/-- a labelling function calling another one on its own point cloud: `other(pcloud)` -/
def callPlain {α : Type} (method : List α → Except Err (Obj α × ODict (List Int))) (x : List α) : Except Err (Obj α) :=
  match wrapper method (.obj ⟨.pointcloud, { pts := x, edges := [], labels := [] }⟩) false with
  | .error e => .error e
  | .ok r => .ok r.1

/-- `other(pcloud, return_mapping=True)` -/
def callWithMapping {α : Type} (method : List α → Except Err (Obj α × ODict (List Int))) (x : List α) :
    Except Err (Obj α × ODict (List Int)) :=
  match wrapper method (.obj ⟨.pointcloud, { pts := x, edges := [], labels := [] }⟩) true with
  | .error e => .error e
  | .ok (o, some m) => .ok (o, m)
  | .ok (_, none) => .error .type

end MenpoModel.C15.SrcGen
