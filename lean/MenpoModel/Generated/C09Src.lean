/- TRANSLATED by harness/trans_c09.py (harness/py2lean2.py, Translator2T) from the SOURCE TEXT of the current working
   tree on every run of `./check C09`; do not edit.  GenProps/C09Src.lean proves each definition equal to the
   definition of the same name (suffix `Src`) in Core/C09Src.lean. -/
import MenpoModel.Core.PyLoop
import MenpoModel.Core.C09Src
set_option linter.unusedVariables false

namespace MenpoModel.Generated.C09Src
open MenpoModel.C09

def applyBatchedT {α β ε : Type} (ap : List α → Except ε (List β)) (bs : Option Nat) (x : List α) : Except ε (List β) :=
    if bs.isNone then
      (ap x)
    else
      let outputs0 := []
      let npoints0 := (List.length x)
      if ((npoints0 == (0))) then
        (ap x)
      else
        let r0 := MenpoModel.Py.forLoop (none, outputs0) ((pyRange npoints0 (bs.getD 0))) (fun acc0 it0 =>
            if (acc0.1).isSome then acc0 else
            let outputs1 := acc0.2
            let loind0 := it0
            let hiind0 := (loind0 + (bs.getD 0))
            MenpoModel.Py.tryCatch (ap (pySlice x loind0 hiind0)) (fun e0 =>
                (some ((Except.error e0)), outputs1)) (fun v0 =>
              let outputs0 := (outputs1 ++ [v0])
              (none, outputs0)))
        let outputs1 := r0.2
        MenpoModel.Py.onExit (r0.1) (fun v0 =>
            v0) (
          (Except.ok ((vstackL outputs1))))

def pwaApplyBatchedT {α β : Type} (ap : List α → Except (List Bool) (List β)) (bs : Option Nat) (x : List α) : Except (List Bool) (List β) :=
    if bs.isNone then
      (ap x)
    else
      let outputs0 := []
      let pointsoutsidesourcedomain0 := []
      let npoints0 := (List.length x)
      if ((npoints0 == (0))) then
        (ap x)
      else
        let exceptionthrown0 := false
        let r0 := MenpoModel.Py.forLoop (outputs0, exceptionthrown0, pointsoutsidesourcedomain0) ((pyRange npoints0 (bs.getD 0))) (fun acc0 it0 =>
            let outputs1 := acc0.1
            let exceptionthrown1 := acc0.2.1
            let pointsoutsidesourcedomain1 := acc0.2.2
            let loind0 := it0
            let hiind0 := (loind0 + (bs.getD 0))
            MenpoModel.Py.tryCatch (ap (pySlice x loind0 hiind0)) (fun e0 =>
                let exceptionthrown0 := true
                let pointsoutsidesourcedomain0 := (pointsoutsidesourcedomain1 ++ [e0])
                (outputs1, exceptionthrown0, pointsoutsidesourcedomain0)) (fun v0 =>
              let outputs0 := (outputs1 ++ [v0])
              let pointsoutsidesourcedomain0 := (pointsoutsidesourcedomain1 ++ [(List.replicate (List.length (pySlice x loind0 hiind0)) false)])
              (outputs0, exceptionthrown1, pointsoutsidesourcedomain0)))
        let outputs1 := r0.1
        let exceptionthrown1 := r0.2.1
        let pointsoutsidesourcedomain1 := r0.2.2
        if exceptionthrown1 then
          (Except.error (hstackL pointsoutsidesourcedomain1))
        else
          (Except.ok ((vstackL outputs1)))

def applyT {α ε : Type} (ab : Option Nat → List α → Except ε (List α)) (bs : Option Nat) (x : PyVal α) : Except (Exc ε) (PyVal α) :=
    let transform0 := fun x0 =>
      (liftAb ab bs x0)
    MenpoModel.Py.tryCatch (PyVal.transform x transform0) (fun e0 =>
        if ((Exc.isAttr e0)) then
          (liftAb ab bs x)
        else
          (Except.error e0)) (fun v0 =>
      (Except.ok (v0)))

def pwaApplyT (iab : List Pt → Except (List Bool) (List Nat × Vec × Vec)) (ti tij tik : List Pt) (x : List Pt) : Except (List Bool) (List Pt) :=
    MenpoModel.Py.tryCatch (iab x) (fun e0 =>
        (Except.error e0)) (fun v0 =>
      let p0 := v0
      let triindex0 := p0.1
      let alpha0 := p0.2.1
      let beta0 := p0.2.2
      (Except.ok ((ptsAdd (ptsAdd (gatherPts ti triindex0) (colMul (Col.mk alpha0) (gatherPts tij triindex0))) (colMul (Col.mk beta0) (gatherPts tik triindex0))))))

def pythonIabT (src : List Tri) (points : List Pt) : Except (List Bool) (List Nat × Vec × Vec) :=
    (indexAlphaBetaSrc (src.map Tri.i) (src.map Tri.ij) (src.map Tri.ik) points)

def cachedIabT {Val Res Err : Type} [DecidableEq Val] (shape : Val → Nat) (compute : Val → Except Err Res) (s : MemoSt Val Res) (points : Val) : MemoSt Val Res × Except Err (Option Res) :=
    if ((((s).key).isNone) || (!(shapeEqO shape points (s).key)) || (!(arrEqO points (s).key))) then
      MenpoModel.Py.tryCatch (compute points) (fun e0 =>
          (s, Except.error e0)) (fun v0 =>
        let self0 := { s with iab := some v0 }
        let self1 := { self0 with key := some (Owned.copy points) }
        (self1, Except.ok ((self1).iab)))
    else
      (s, Except.ok ((s).iab))

def indexAlphaBetaT (i ij ik points : List Pt) : Except (List Bool) (List Nat × Vec × Vec) :=
    let p0 := (alphaBetaSrc i ij ik points)
    let alpha0 := p0.1
    let beta0 := p0.2
    let eachpoint0 := (List.range (List.length points))
    MenpoModel.Py.tryCatch (containmentSrc alpha0 beta0) (fun e0 =>
        (Except.error e0)) (fun v0 =>
      let index0 := v0
      (Except.ok ((index0, (gather2 alpha0 eachpoint0 index0), (gather2 beta0 eachpoint0 index0)))))

def containmentT (alpha beta : Arr2) : Except (List Bool) (List Nat) :=
    let pointcontainment0 := (arrAnd (arrAnd (arrGe0 alpha) (arrGe0 beta)) (arrSumLe1 alpha beta))
    let pointinatriangle0 := (anyAxis1 pointcontainment0)
    if (List.any (vecNot pointinatriangle0) id) then
      (Except.error (vecNot pointinatriangle0))
    else
      let p0 := (nonzero2 pointcontainment0)
      let pointindex0 := p0.1
      let triindex0 := p0.2
      let index0 := (List.replicate (List.length alpha) (0 : Nat))
      let index1 := (scatter index0 pointindex0 triindex0)
      (Except.ok (index1))

def alphaBetaT (i ij ik points : List Pt) : Arr2 × Arr2 :=
    let ip0 := (ipArr points i)
    let dotjj0 := (dotT ij ij)
    let dotkk0 := (dotT ik ik)
    let dotjk0 := (dotT ij ik)
    let dotpj0 := (dotVT ip0 ij)
    let dotpk0 := (dotVT ip0 ik)
    let d0 := (recipT (bsub (bmul dotjj0 dotkk0) (bmul dotjk0 dotjk0)))
    let alpha0 := (bmul (bsub (bmul dotkk0 dotpj0) (bmul dotjk0 dotpk0)) d0)
    let beta0 := (bmul (bsub (bmul dotjj0 dotpk0) (bmul dotjk0 dotpj0)) d0)
    (alpha0, beta0)

def chainApplyT {ε α : Type} (fs : List (List α → Except ε (List α))) (x : List α) : Except ε (List α) :=
    (List.foldlM (fun xi0 tr0 => (tr0 xi0)) x fs)

def chainApplyBatchedT {α : Type} (ap : List α → Except (List Bool) (List α)) (bs : Option Nat) (x : List α) : Except (List Bool) (List α) :=
    (pwaApplyBatchedSrc ap bs x)

def withDimsT (dims : Dims) (x : List PtN) : ArrND :=
    let y0 := (selectCols x dims)
    if (((ArrND.ndim y0) == (1))) then
      let y1 := (ArrND.addAxis y0)
      y1
    else
      y0

def pointInPointcloudT {PC T : Type} (mk : PC → PC → T) (app : T → Option Nat → List Pt → Except (List Bool) (List Pt)) (pcloud : PC) (indices : List Pt) (bs : Option Nat) : List Bool :=
    let pwa0 := (mk pcloud pcloud)
    MenpoModel.Py.tryCatch (app pwa0 bs indices) (fun e0 =>
        (vecNot e0)) (fun u0 =>
      (List.replicate (List.length indices) true))


/-- source text of the default of `batch_size` in the public entry points -/
def batchSizeDefaults : List (String × String) :=
  [("Transform.apply", "None"), ("pwa_point_in_pointcloud", "None"), ("BooleanImage.constrain_to_pointcloud", "None")]

end MenpoModel.Generated.C09Src
