/- TRANSLATED by harness/trans_c19.py (harness/py2lean2.py + py2lean2g.py) from the SOURCE TEXT of
   menpo.base.LazyList and menpo.io.input.base of the current working tree on every run of `./check C19`; do not edit.
   GenProps/C19Src.lean proves every definition equal to the Core definition the C19 theorems are about. -/
import MenpoModel.Core.C19Py
import MenpoModel.Core.C19PyIO
set_option linter.unusedVariables false

namespace MenpoModel.Generated.C19Src
open MenpoModel.LazyList MenpoModel.PyData

def genInit (callables : List LThunk) : LL :=
    let self0 := (Fresh.setCallables (LL.fresh ⟨[]⟩) callables)
    (ToLL.toLL self0)

def genLen (s : LL) : Nat :=
    (PyLen.len s.callables)

def genCopy (s : LL) : LL :=
    let new0 := (LL.fresh s)
    let new1 := (Fresh.setCallables new0 (Py.list s.callables))
    (ToLL.toLL new1)

def genGetitem (s : LL) (x : GArg) : Except Err GetRes :=
    if (x.iterable && (!x.zeroDim)) then
      (ToGetRes.ret (LL.newWith genInit (List.map (fun it0 => let s0 := it0; (PyGetItem.get s.callables s0)) (PyIter.iter x))))
    else
      if (x.isInt || x.hasIndex) then
        (ToGetRes.ret (Py.call (PyGetItem.get s.callables x)))
      else
        (ToGetRes.ret (LL.newWith genInit (PyGetItem.get s.callables x)))

def genInitFromIterable (iterable : List Int) (f : PFn) : Except Err LL :=
    if ((f).isNone) then
      let f0 := fun i0 =>
          i0
      (LL.newWith genInit (List.map (fun it0 => let x0 := it0; (PyPartial.ap f0 x0)) (PyIter.iter iterable)))
    else
      (LL.newWith genInit (List.map (fun it0 => let x0 := it0; (PyPartial.ap f x0)) (PyIter.iter iterable)))

def genInitFromIndexCallable (f : PFn) (n : Int) : Except Err LL :=
    (LL.newWith genInit (List.map (fun it0 => let i0 := it0; (PyPartial.ap f i0)) (PyIter.iter (Py.range n))))

def genDelayed (e : Env) (bad : Nat → Bool) (f : Nat) (t : LThunk) : Except Err Int × List Ev :=
    (Py.callFn e bad f (Py.callThunk e bad t))

def genMap (s : LL) (f : MArg) : Except Err LL :=
    if (f.iterable && f.callable) then
      .error .value
    else
      let new0 := (LL.fresh (genCopy s))
      if f.iterable then
        ((MArg.lenE f)).bind fun h0 =>
          if ((h0 != (PyLen.len new0))) then
            .error .value
          else
            let new1 := (Fresh.setCallables new0 (List.map (fun it0 => let p0 := it0; let onef0 := p0.1; let x0 := p0.2; (LThunk.app (ToFnId.fid onef0) x0)) (PyIter.iter (PyZip.zip f new0.callables))))
            (.ok (ToLL.toLL new1))
      else
        let new1 := (Fresh.setCallables new0 (List.map (fun it0 => let x0 := it0; (LThunk.app (ToFnId.fid f) x0)) (PyIter.iter new0.callables)))
        (.ok (ToLL.toLL new1))

def genRepeat (s : LL) (n : Int) : LL :=
    let new0 := (LL.fresh (genCopy s))
    let new1 := (Fresh.setCallables new0 (Py.list (Py.chainStar (Py.zipStar (PyMul.mul [new0.callables] n)))))
    (ToLL.toLL new1)

def genAdd : Nat → LL → AArg → Except Err LL
  | 0, _, _ => .error .type
  | fuel + 1, s, other =>
    if other.isLazy then
      (LL.newWith genInit (PyAdd.add (genAdd fuel) s.callables other.callables))
    else
      if other.iterable then
        ((genInitFromIterable other.items PFn.none)).bind fun h0 =>
          (PyAdd.add (genAdd fuel) s h0)
      else
        .error .value

def genGlobWithSuffix (w : GlobWorld) (pat : Unit) (known : List Nat) (sort : Bool) : List FileEnt :=
    let yielded0 := []
    let r0 := MenpoModel.Py.forLoop yielded0 ((w.listing sort)) (fun acc0 it0 =>
        let yielded1 := acc0
        let path0 := it0
        let possibleexts0 := path0.exts
        if (List.any possibleexts0 (fun it1 => let ext0 := it1; (List.contains known ext0))) then
          let yielded0 := yielded1 ++ [path0]
          yielded0
        else
          yielded1)
    let yielded1 := r0
    yielded1

def genImporterFor (f : FileEnt) (known : List Nat) : Option Nat :=
    let possibleexts0 := f.exts
    let importercallable0 := none
    match MenpoModel.Py.whileG ((possibleexts0.length + 1)) (importercallable0, possibleexts0) (fun acc0 =>
        let importercallable1 := acc0.1
        let possibleexts1 := acc0.2
        (((importercallable1).isNone) && (Py.truthyList possibleexts1))) (fun acc0 =>
        let importercallable1 := acc0.1
        let possibleexts1 := acc0.2
        let h0 := (List.headD possibleexts1 0)
        let possibleexts0 := (List.tail possibleexts1)
        let importercallable0 := (Py.dictGet known h0)
        (importercallable0, possibleexts0)) with
    | none => none
    | some w0 =>
      let importercallable1 := w0.1
      let possibleexts1 := w0.2
      if ((importercallable1).isNone) then
        none
      else
        importercallable1

def genImportGlob (w : GlobWorld) (pat : Unit) (known : List Nat) (max : Option Int) (r : Option Nat)
    (shuffle asGen : Bool) (lmExt attach : Bool) (kw : Unit) (verbose : Bool) : Except Err GlobRes :=
    let filepaths0 := (Py.list (genGlobWithSuffix w pat known (!shuffle)))
    if shuffle then
      let filepaths1 := (w.shuffled filepaths0)
      if (!(max).isNone) then
        ((Py.optLe max (0))).bind fun h0 =>
          if h0 then
            .error .value
          else
            if (Py.truthyOptInt max) then
              let filepaths0 := (Py.sliceTo filepaths1 max)
              let nfiles0 := (PyLen.len filepaths0)
              if ((nfiles0 == (0))) then
                .error .value
              else
                ((LL.newWith genInit (List.map (fun it0 => let f0 := it0; (importThunkSrc known r lmExt attach f0)) (PyIter.iter filepaths0)))).bind fun lazylist0 =>
                  if (verbose && asGen) then
                    let lazylist1 := (Py.progress lazylist0)
                    if asGen then
                      (.ok (ToGlobRes.ret (GlobRes.gen (List.map (fun it0 => let a0 := it0; a0) (PyIter.iter lazylist1)))))
                    else
                      (.ok (ToGlobRes.ret lazylist1))
                  else
                    if asGen then
                      (.ok (ToGlobRes.ret (GlobRes.gen (List.map (fun it0 => let a0 := it0; a0) (PyIter.iter lazylist0)))))
                    else
                      (.ok (ToGlobRes.ret lazylist0))
            else
              let nfiles0 := (PyLen.len filepaths1)
              if ((nfiles0 == (0))) then
                .error .value
              else
                ((LL.newWith genInit (List.map (fun it0 => let f0 := it0; (importThunkSrc known r lmExt attach f0)) (PyIter.iter filepaths1)))).bind fun lazylist0 =>
                  if (verbose && asGen) then
                    let lazylist1 := (Py.progress lazylist0)
                    if asGen then
                      (.ok (ToGlobRes.ret (GlobRes.gen (List.map (fun it0 => let a0 := it0; a0) (PyIter.iter lazylist1)))))
                    else
                      (.ok (ToGlobRes.ret lazylist1))
                  else
                    if asGen then
                      (.ok (ToGlobRes.ret (GlobRes.gen (List.map (fun it0 => let a0 := it0; a0) (PyIter.iter lazylist0)))))
                    else
                      (.ok (ToGlobRes.ret lazylist0))
      else
        if (Py.truthyOptInt max) then
          let filepaths0 := (Py.sliceTo filepaths1 max)
          let nfiles0 := (PyLen.len filepaths0)
          if ((nfiles0 == (0))) then
            .error .value
          else
            ((LL.newWith genInit (List.map (fun it0 => let f0 := it0; (importThunkSrc known r lmExt attach f0)) (PyIter.iter filepaths0)))).bind fun lazylist0 =>
              if (verbose && asGen) then
                let lazylist1 := (Py.progress lazylist0)
                if asGen then
                  (.ok (ToGlobRes.ret (GlobRes.gen (List.map (fun it0 => let a0 := it0; a0) (PyIter.iter lazylist1)))))
                else
                  (.ok (ToGlobRes.ret lazylist1))
              else
                if asGen then
                  (.ok (ToGlobRes.ret (GlobRes.gen (List.map (fun it0 => let a0 := it0; a0) (PyIter.iter lazylist0)))))
                else
                  (.ok (ToGlobRes.ret lazylist0))
        else
          let nfiles0 := (PyLen.len filepaths1)
          if ((nfiles0 == (0))) then
            .error .value
          else
            ((LL.newWith genInit (List.map (fun it0 => let f0 := it0; (importThunkSrc known r lmExt attach f0)) (PyIter.iter filepaths1)))).bind fun lazylist0 =>
              if (verbose && asGen) then
                let lazylist1 := (Py.progress lazylist0)
                if asGen then
                  (.ok (ToGlobRes.ret (GlobRes.gen (List.map (fun it0 => let a0 := it0; a0) (PyIter.iter lazylist1)))))
                else
                  (.ok (ToGlobRes.ret lazylist1))
              else
                if asGen then
                  (.ok (ToGlobRes.ret (GlobRes.gen (List.map (fun it0 => let a0 := it0; a0) (PyIter.iter lazylist0)))))
                else
                  (.ok (ToGlobRes.ret lazylist0))
    else
      if (!(max).isNone) then
        ((Py.optLe max (0))).bind fun h0 =>
          if h0 then
            .error .value
          else
            if (Py.truthyOptInt max) then
              let filepaths1 := (Py.sliceTo filepaths0 max)
              let nfiles0 := (PyLen.len filepaths1)
              if ((nfiles0 == (0))) then
                .error .value
              else
                ((LL.newWith genInit (List.map (fun it0 => let f0 := it0; (importThunkSrc known r lmExt attach f0)) (PyIter.iter filepaths1)))).bind fun lazylist0 =>
                  if (verbose && asGen) then
                    let lazylist1 := (Py.progress lazylist0)
                    if asGen then
                      (.ok (ToGlobRes.ret (GlobRes.gen (List.map (fun it0 => let a0 := it0; a0) (PyIter.iter lazylist1)))))
                    else
                      (.ok (ToGlobRes.ret lazylist1))
                  else
                    if asGen then
                      (.ok (ToGlobRes.ret (GlobRes.gen (List.map (fun it0 => let a0 := it0; a0) (PyIter.iter lazylist0)))))
                    else
                      (.ok (ToGlobRes.ret lazylist0))
            else
              let nfiles0 := (PyLen.len filepaths0)
              if ((nfiles0 == (0))) then
                .error .value
              else
                ((LL.newWith genInit (List.map (fun it0 => let f0 := it0; (importThunkSrc known r lmExt attach f0)) (PyIter.iter filepaths0)))).bind fun lazylist0 =>
                  if (verbose && asGen) then
                    let lazylist1 := (Py.progress lazylist0)
                    if asGen then
                      (.ok (ToGlobRes.ret (GlobRes.gen (List.map (fun it0 => let a0 := it0; a0) (PyIter.iter lazylist1)))))
                    else
                      (.ok (ToGlobRes.ret lazylist1))
                  else
                    if asGen then
                      (.ok (ToGlobRes.ret (GlobRes.gen (List.map (fun it0 => let a0 := it0; a0) (PyIter.iter lazylist0)))))
                    else
                      (.ok (ToGlobRes.ret lazylist0))
      else
        if (Py.truthyOptInt max) then
          let filepaths1 := (Py.sliceTo filepaths0 max)
          let nfiles0 := (PyLen.len filepaths1)
          if ((nfiles0 == (0))) then
            .error .value
          else
            ((LL.newWith genInit (List.map (fun it0 => let f0 := it0; (importThunkSrc known r lmExt attach f0)) (PyIter.iter filepaths1)))).bind fun lazylist0 =>
              if (verbose && asGen) then
                let lazylist1 := (Py.progress lazylist0)
                if asGen then
                  (.ok (ToGlobRes.ret (GlobRes.gen (List.map (fun it0 => let a0 := it0; a0) (PyIter.iter lazylist1)))))
                else
                  (.ok (ToGlobRes.ret lazylist1))
              else
                if asGen then
                  (.ok (ToGlobRes.ret (GlobRes.gen (List.map (fun it0 => let a0 := it0; a0) (PyIter.iter lazylist0)))))
                else
                  (.ok (ToGlobRes.ret lazylist0))
        else
          let nfiles0 := (PyLen.len filepaths0)
          if ((nfiles0 == (0))) then
            .error .value
          else
            ((LL.newWith genInit (List.map (fun it0 => let f0 := it0; (importThunkSrc known r lmExt attach f0)) (PyIter.iter filepaths0)))).bind fun lazylist0 =>
              if (verbose && asGen) then
                let lazylist1 := (Py.progress lazylist0)
                if asGen then
                  (.ok (ToGlobRes.ret (GlobRes.gen (List.map (fun it0 => let a0 := it0; a0) (PyIter.iter lazylist1)))))
                else
                  (.ok (ToGlobRes.ret lazylist1))
              else
                if asGen then
                  (.ok (ToGlobRes.ret (GlobRes.gen (List.map (fun it0 => let a0 := it0; a0) (PyIter.iter lazylist0)))))
                else
                  (.ok (ToGlobRes.ret lazylist0))

def genImport (w : ImportWorld) (f : FileEnt) (known : List Nat) (r : Option Nat) (lmx att asset kw : Option Unit) :
    Except Err Built :=
    let path0 := f
    if (!(w.isFile path0)) then
      .error .value
    else
      ((optE (genImporterFor path0 known))).bind fun importercallable0 =>
        if ((kw).isNone) then
          let importerkwargs0 := (some ())
          let builtobjects0 := (Built.ofImporter w importercallable0 path0)
          if (!builtobjects0.isList) then
            let builtobjects1 := (Built.wrap builtobjects0)
            if ((!(att).isNone) && (!(r).isNone)) then
              let builtobjects0 := (Built.attach builtobjects1 r lmx)
              if (((Built.len builtobjects0) == (1))) then
                let builtobjects1 := (Built.first builtobjects0)
                (.ok builtobjects1)
              else
                (.ok builtobjects0)
            else
              if (((Built.len builtobjects1) == (1))) then
                let builtobjects0 := (Built.first builtobjects1)
                (.ok builtobjects0)
              else
                (.ok builtobjects1)
          else
            if ((!(att).isNone) && (!(r).isNone)) then
              let builtobjects1 := (Built.attach builtobjects0 r lmx)
              if (((Built.len builtobjects1) == (1))) then
                let builtobjects0 := (Built.first builtobjects1)
                (.ok builtobjects0)
              else
                (.ok builtobjects1)
            else
              if (((Built.len builtobjects0) == (1))) then
                let builtobjects1 := (Built.first builtobjects0)
                (.ok builtobjects1)
              else
                (.ok builtobjects0)
        else
          let builtobjects0 := (Built.ofImporter w importercallable0 path0)
          if (!builtobjects0.isList) then
            let builtobjects1 := (Built.wrap builtobjects0)
            if ((!(att).isNone) && (!(r).isNone)) then
              let builtobjects0 := (Built.attach builtobjects1 r lmx)
              if (((Built.len builtobjects0) == (1))) then
                let builtobjects1 := (Built.first builtobjects0)
                (.ok builtobjects1)
              else
                (.ok builtobjects0)
            else
              if (((Built.len builtobjects1) == (1))) then
                let builtobjects0 := (Built.first builtobjects1)
                (.ok builtobjects0)
              else
                (.ok builtobjects1)
          else
            if ((!(att).isNone) && (!(r).isNone)) then
              let builtobjects1 := (Built.attach builtobjects0 r lmx)
              if (((Built.len builtobjects1) == (1))) then
                let builtobjects0 := (Built.first builtobjects1)
                (.ok builtobjects0)
              else
                (.ok builtobjects1)
            else
              if (((Built.len builtobjects0) == (1))) then
                let builtobjects1 := (Built.first builtobjects0)
                (.ok builtobjects1)
              else
                (.ok builtobjects0)

def genAttachLazy (built : List LL) (r : Option Nat) (lmx : Option Unit) : Except Err (List LL) :=
    if ((!(lmx).isNone) && (!(r).isNone)) then
      let r0 := MenpoModel.Py.forLoop (none, built) ((PyIter.iter (Py.enumerate built))) (fun acc0 it0 =>
          if (acc0.1).isSome then acc0 else
          let builtobjects0 := acc0.2
          let p0 := it0
          let k0 := p0.1
          let x0 := p0.2
          let lmresolvers0 := (List.map (fun it1 => let i0 := it1; (Py.frameResolver r i0)) (PyIter.iter (Py.range (PyLen.len x0))))
          match (genMap x0 (MArg.ofList (List.map (fun it1 => let lmr0 := it1; lmr0) (PyIter.iter lmresolvers0)))) with
          | .error err0 =>
            (some (.error err0), builtobjects0)
          | .ok h0 =>
            let newll0 := h0
            let builtobjects1 := (Py.listSet builtobjects0 k0 newll0)
            (none, builtobjects1))
      let builtobjects0 := r0.2
      match r0.1 with
      | some v0 =>
          v0
      | none =>
        (.ok builtobjects0)
    else
      (.ok built)


end MenpoModel.Generated.C19Src
