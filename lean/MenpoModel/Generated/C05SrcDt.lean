/- TRANSLATED by harness/trans_c05.py from the SOURCE TEXT of the same functions as Generated/C05Src.lean, read with the
   DTYPE vocabulary (an array expression = its dtype, an object = the dtype of its main array, a value-dependent test = an
   opaque guard `g k`, `raise` = `none`); regenerated on every run of `./check C05`; do not edit.
   GenProps/C05SrcDt.lean proves that on every returning path the dtype is the one the model's dtype calculus predicts. -/
import MenpoModel.Core.Vectorize

set_option linter.unusedVariables false

namespace MenpoModel.C05.SrcDt
open MenpoModel.C05

def PointCloud__as_vector (g : Nat → Bool) (self : Dt) : Option Dt :=
  some (self)

def PointCloud__from_vector_inplace (g : Nat → Bool) (self vector : Dt) : Option Dt :=
  if (g (0)) then
    none
  else
    let self0 := vector
    some self0

def TexturedTriMesh_from_vector (g : Nat → Bool) (self flattened : Dt) : Option Dt :=
  if (g (0)) then
    none
  else
    let newmesh0 := flattened
    if (g (1)) then
      let newmesh1 := newmesh0
      some (newmesh1)
    else
      some (newmesh0)

def Image__as_vector (g : Nat → Bool) (self : Dt) (keepchannels : Bool) : Option Dt :=
  if keepchannels then
    some (self)
  else
    some (self)

def Image_from_vector (g : Nat → Bool) (self vector : Dt) (copy : Bool) : Option Dt :=
  let nchannels0 := ()
  let imagedata0 := vector
  let newimage0 := imagedata0
  let newimage1 := newimage0
  some (newimage1)

def Image__from_vector_inplace (g : Nat → Bool) (self vector : Dt) (copy : Bool) : Option Dt :=
  let imagedata0 := vector
  if (!copy) then
    if (g (0)) then
      let imagedata1 := imagedata0
      let self0 := imagedata1
      some self0
    else
      let self0 := imagedata0
      some self0
  else
    let imagedata1 := imagedata0
    let self0 := imagedata1
    some self0

def MaskedImage_masked_pixels (full : Bool) (self : Dt) : Dt :=
  if full then
    self
  else
    self

def MaskedImage__as_vector (g : Nat → Bool) (full : Bool) (self : Dt) (keepchannels : Bool) : Option Dt :=
  if keepchannels then
    some ((MaskedImage_masked_pixels full self))
  else
    some ((MaskedImage_masked_pixels full self))

def MaskedImage_from_vector (g : Nat → Bool) (full : Bool) (self vector : Dt) : Option Dt :=
  let nchannels0 := ()
  if full then
    let imagedata0 := vector
    let newimage0 := imagedata0
    some (newimage0)
  else
    let imagedata0 := vector
    let pixelsperchannel0 := vector
    let imagedata1 := imagedata0
    let newimage0 := imagedata1
    some (newimage0)

def MaskedImage__set_masked_pixels (g : Nat → Bool) (full : Bool) (self pixels : Dt) (copy : Bool) : Option Dt :=
  if full then
    let pixels0 := pixels
    if (!copy) then
      if (g (0)) then
        let pixels1 := pixels0
        let self0 := pixels1
        some self0
      else
        let self0 := pixels0
        some self0
    else
      let pixels1 := pixels0
      let self0 := pixels1
      some self0
  else
    let self0 := self
    if (!copy) then
      some self0
    else
      some self0

def MaskedImage__from_vector_inplace (g : Nat → Bool) (v__set_masked_pixels : Dt → Dt → Bool → Option Dt) (self vector : Dt) (copy : Bool) : Option Dt :=
  (match (v__set_masked_pixels self vector copy) with
  | none => none
  | some p0 =>
    let self0 := p0
    some self0)

def BooleanImage_from_vector (g : Nat → Bool) (self vector : Dt) (copy : Bool) : Option Dt :=
  let mask0 := Dt.bool
  if (g (0)) then
    let mask1 := mask0
    if (g (1)) then
      let mask0 := mask1
      some (mask0)
    else
      some (mask1)
  else
    if (g (1)) then
      let mask1 := mask0
      some (mask1)
    else
      some (mask0)

def Homogeneous__as_vector (g : Nat → Bool) (self : Dt) : Option Dt :=
  some (self)

def Homogeneous__set_h_matrix (g : Nat → Bool) (self value : Dt) (copy : Bool) : Option Dt :=
  if copy then
    let value0 := value
    let self0 := value0
    some self0
  else
    let self0 := value
    some self0

def Homogeneous__from_vector_inplace (g : Nat → Bool) (v__set_h_matrix : Dt → Dt → Option Dt) (self vector : Dt) : Option Dt :=
  (match (v__set_h_matrix self vector) with
  | none => none
  | some p0 =>
    let self0 := p0
    some self0)

def Affine__as_vector (g : Nat → Bool) (self : Dt) : Option Dt :=
  some (Dt.float64)

def Affine__set_h_matrix (g : Nat → Bool) (self value : Dt) (copy : Bool) : Option Dt :=
  if (g (5)) then
    let shape0 := ()
    if (g (0)) then
      none
    else
      if (g (2)) then
        if (g (1)) then
          none
        else
          if (g (3)) then
            none
          else
            if (g (4)) then
              none
            else
              if copy then
                let value0 := value
                let self0 := value0
                some self0
              else
                let self0 := value
                some self0
      else
        if (g (3)) then
          none
        else
          if (g (4)) then
            none
          else
            if copy then
              let value0 := value
              let self0 := value0
              some self0
            else
              let self0 := value
              some self0
  else
    if copy then
      let value0 := value
      let self0 := value0
      some self0
    else
      let self0 := value
      some self0

def Affine__from_vector_inplace (g : Nat → Bool) (v__set_h_matrix : Dt → Dt → Option Dt) (self p : Dt) : Option Dt :=
  let hmatrix0 := Dt.other
  if (g (1)) then
    let hmatrix1 := Dt.float64
    let hmatrix0 := hmatrix1
    (match (v__set_h_matrix self hmatrix0) with
    | none => none
    | some p0 =>
      let self0 := p0
      some self0)
  else
    if (g (0)) then
      let hmatrix1 := Dt.float64
      let hmatrix0 := hmatrix1
      (match (v__set_h_matrix self hmatrix0) with
      | none => none
      | some p0 =>
        let self0 := p0
        some self0)
    else
      none

def Similarity__as_vector (g : Nat → Bool) (self : Dt) : Option Dt :=
  if (g (1)) then
    let params0 := Dt.float64
    let params1 := params0
    some (params1)
  else
    if (g (0)) then
      none
    else
      none

def Similarity__from_vector_inplace (g : Nat → Bool) (v__set_h_matrix : Dt → Dt → Option Dt) (self p : Dt) : Option Dt :=
  if (g (1)) then
    let homog0 := Dt.float64
    let homog1 := homog0
    let homog0 := homog1
    let homog1 := homog0
    let homog0 := homog1
    let homog1 := homog0
    (match (v__set_h_matrix self homog1) with
    | none => none
    | some p0 =>
      let self0 := p0
      some self0)
  else
    if (g (0)) then
      none
    else
      none

def Translation__as_vector (g : Nat → Bool) (self : Dt) : Option Dt :=
  some (self)

def Translation__from_vector_inplace (g : Nat → Bool) (self p : Dt) : Option Dt :=
  let self0 := self
  some self0

def UniformScale__as_vector (g : Nat → Bool) (self : Dt) : Option Dt :=
  some (self)

def UniformScale__from_vector_inplace (g : Nat → Bool) (self p : Dt) : Option Dt :=
  if (g (0)) then
    none
  else
    let self0 := self
    let self1 := self0
    some self1

def NonUniformScale_scale (self : Dt) : Dt :=
  self

def NonUniformScale__as_vector (g : Nat → Bool) (self : Dt) : Option Dt :=
  some (self)

def NonUniformScale__from_vector_inplace (g : Nat → Bool) (self vector : Dt) : Option Dt :=
  let self0 := self
  let self1 := self0
  some self1

def Rotation_set_rotation_matrix (g : Nat → Bool) (self value : Dt) : Option Dt :=
  if (g (2)) then
    if (g (1)) then
      none
    else
      if (g (0)) then
        none
      else
        let self0 := self
        some self0
  else
    let self0 := self
    some self0

def Rotation__from_vector_inplace (g : Nat → Bool) (v_set_rotation_matrix : Dt → Dt → Option Dt) (self p : Dt) : Option Dt :=
  if (g (2)) then
    if (g (1)) then
      let n0 := Dt.float64
      if (g (0)) then
        some self
      else
        let p0 := Dt.float64
        let p1 := Dt.float64
        let rotation0 := Dt.float64
        (match (v_set_rotation_matrix self rotation0) with
        | none => none
        | some p0 =>
          let self0 := p0
          some self0)
    else
      none
  else
    none

def AlignmentAffine__set_h_matrix (g : Nat → Bool) (self value : Dt) (copy : Bool) : Option Dt :=
  (match (Affine__set_h_matrix g self value copy) with
  | none => none
  | some p0 =>
    let self0 := p0
    let self1 := self0
    some self1)

def AlignmentSimilarity__from_vector_inplace (g : Nat → Bool) (v__set_h_matrix : Dt → Dt → Option Dt) (self p : Dt) : Option Dt :=
  (match (Similarity__from_vector_inplace g v__set_h_matrix self p) with
  | none => none
  | some p0 =>
    let self0 := p0
    let self1 := self0
    some self1)

def AlignmentTranslation__from_vector_inplace (g : Nat → Bool) (self p : Dt) : Option Dt :=
  (match (Translation__from_vector_inplace g self p) with
  | none => none
  | some p0 =>
    let self0 := p0
    let self1 := self0
    some self1)

def AlignmentUniformScale__from_vector_inplace (g : Nat → Bool) (self p : Dt) : Option Dt :=
  (match (UniformScale__from_vector_inplace g self p) with
  | none => none
  | some p0 =>
    let self0 := p0
    let self1 := self0
    some self1)

def AlignmentRotation_set_rotation_matrix (g : Nat → Bool) (self value : Dt) : Option Dt :=
  (match (Rotation_set_rotation_matrix g self value) with
  | none => none
  | some p0 =>
    let self0 := p0
    let self1 := self0
    some self1)

end MenpoModel.C05.SrcDt
