/-
C18 — IEEE binary64 arithmetic over `Rat`, and the coded chain of `BooleanImage.resize` in that arithmetic.

`rne x` is `x` rounded to the nearest number with a 53-bit significand, ties to even (no overflow / underflow /
subnormal handling: the quantities of this property are image extents and sampling positions, far inside the
normal range).  Every binary64 number is a rational, so `fadd a b = rne (a + b)` … are numpy's float64 operations
on finite normal values.  Core Lean only (no Mathlib): executed by the driver, quantified over by the theorems.

The chain (menpo/image/base.py, `resize` → `rescale(round='round')` → `warp_to_shape(order=0, mode='nearest')`),
along one axis of old extent `o` and requested extent `n`:

    scale      = n / o                                   (float division)
    t          = scale * o                               (NonUniformScale(scale).apply(shape))
    extent     = np.round(t)                             (round_image_shape(…, 'round'): half to even)
    sf         = (t - 1) / (o - 1)
    inv        = 1 / sf                                  (NonUniformScale(sf).pseudoinverse())
    position i = i * inv                                 (inverse transform applied to the template index)
    source i   = ⌊clamp(position, 0, o-1) + 0.5⌋         (scipy map_coordinates, order 0, mode 'nearest')
-/

namespace MenpoModel.C18

/-- `2^k` for an integer exponent -/
def pow2 (k : Int) : Rat :=
  if 0 ≤ k then ((2 ^ k.toNat : Nat) : Rat) else 1 / ((2 ^ (-k).toNat : Nat) : Rat)

/-- binary exponent of a positive rational: the `e` with `2^e ≤ a < 2^(e+1)` -/
def expo (a : Rat) : Int :=
  let e0 : Int := (Nat.log2 a.num.natAbs : Int) - (Nat.log2 a.den : Int)
  if pow2 e0 ≤ a then e0 else e0 - 1

/-- round half to even of a rational to an integer (`np.round`, and the significand rounding of `rne`) -/
def rhe (r : Rat) : Int :=
  let f := r.floor
  let d := r - (f : Rat)
  if d < 1 / 2 then f
  else if 1 / 2 < d then f + 1
  else if f % 2 = 0 then f else f + 1

/-- round to nearest binary64, ties to even -/
def rne (x : Rat) : Rat :=
  if x = 0 then 0
  else
    let a := if x < 0 then -x else x
    let e := expo a
    let m := rhe (a * pow2 (52 - e))
    let r := (m : Rat) * pow2 (e - 52)
    if x < 0 then -r else r

def fadd (a b : Rat) : Rat := rne (a + b)
def fsub (a b : Rat) : Rat := rne (a - b)
def fmul (a b : Rat) : Rat := rne (a * b)
def fdiv (a b : Rat) : Rat := rne (a / b)

/-- which rounding `round_image_shape` applies to the scaled shape -/
inductive ShapeRound where
  | round      -- `resize`: np.round (as coded)
  | ceil       -- `rescale`'s default (what `image.mask.rescale(sf)` would use)
deriving DecidableEq, Repr

/-- `scale * o` in binary64 for `scale = n / o` -/
def scaledExtent (o n : Nat) : Rat := fmul (fdiv n o) o

/-- the extent of the warped mask along the axis -/
def tmplExt (rd : ShapeRound) (o n : Nat) : Int :=
  match rd with
  | .round => rhe (scaledExtent o n)
  | .ceil => (scaledExtent o n).ceil

/-- the binary64 sampling position of template index `i` -/
def posF (o n i : Nat) : Rat :=
  let t := scaledExtent o n
  let sf := fdiv (fsub t 1) (fsub o 1)
  fmul i (fdiv 1 sf)

/-- `mode='nearest'`: coordinates are clamped to `[0, o-1]` before the order-0 rounding `⌊c + 0.5⌋` -/
def nearestIdx (o : Nat) (c : Rat) : Nat :=
  let c' := if c < 0 then 0 else if ((o - 1 : Nat) : Rat) < c then ((o - 1 : Nat) : Rat) else c
  (fadd c' (1 / 2)).floor.toNat

/-- source index of new index `i`, as the code computes it -/
def srcF (o n i : Nat) : Nat := nearestIdx o (posF o n i)

end MenpoModel.C18
