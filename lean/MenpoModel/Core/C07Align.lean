/-
C07 — executable model of menpo's alignment constructors (core Lean only, no Mathlib).

Matrices are functions `Fin n → Fin m → Rat` (the same carrier as Mathlib's `Matrix`, so the
theorems in `Props/C07.lean` transport every definition here to Mathlib's matrix algebra with
one lemma per operation).  Point sets are `(n_points × n_dims)` as in menpo.

What follows the code, branch for branch:
* `fitTranslation`   — `AlignmentTranslation.__init__`        (`target.centre() - source.centre()`)
* `fitScale`         — `AlignmentUniformScale.__init__`        (`target.norm() / source.norm()`, the two
                        square roots are contract parameters)
* `affineFit`        — `AlignmentAffine._build_alignment_h_matrix` (`solve(a aᵀ, a bᵀ)ᵀ`; the linear solve is an
                        executable Gauss–Jordan whose answer is *checked* (`G·X = Y`) before it is used, so the
                        theorems need no assumption about it)
* `rotFit`           — `optimal_rotation_matrix` (the SVD factors `U, Vt` are contract parameters; `R = U·Vt`,
                        determinant test, `E[-1,-1] = -1` correction)
* `simFit`           — `procrustes_alignment` (centre, norm-ratio scale, optional rotation, re-centre — composed as
                        homogeneous matrices in the order the code composes them)
* `tpsFit/tpsApply`  — `ThinPlateSplines._build_coefficients/_apply` (kernel values are contract parameters)
* `alphaBeta/pwaApply` — `alpha_beta`, `containment_from_alpha_beta`, `AbstractPWA._apply`
* `fitScaleE/simFitE` — the same two fits with the float division by a zero-size source made explicit (`none` = the
                        `inf`/`nan` matrix or the `LinAlgError` the code produces)
* `tpsAffineCoef`    — the coefficient block of a purely affine spline
* `gpa/gpaRec`       — `GeneralizedProcrustesAnalysis.__init__` / `_recursive_procrustes` (mean of the aligned
                        sources, `scale_about_centre` to `initial_target_scale`, the `1e-6` test, `set_target` on every
                        transform, `n_iterations > max_iterations`, the reset of `.target` when a target was given, the
                        `ValueError` of `MultipleAlignment`); what `norm()`/`svd` answered in each pass are parameters
* `construct`        — which point set ends up in `.target` after construction (`resync = true`: the constructor
                        ran `_sync_target_from_state`, as `AlignmentAffine`/`AlignmentRotation` do on the original tree)
-/

namespace MenpoModel.C07

abbrev Mat (n m : Nat) := Fin n → Fin m → Rat
abbrev Vec (n : Nat) := Fin n → Rat

/-- `Σ_{i < n} f i` -/
def sumF {n : Nat} (f : Fin n → Rat) : Rat := (List.ofFn f).sum

def mul {n k m : Nat} (A : Mat n k) (B : Mat k m) : Mat n m := fun i j => sumF fun l => A i l * B l j
def tr {n m : Nat} (A : Mat n m) : Mat m n := fun i j => A j i
def msub {n m : Nat} (A B : Mat n m) : Mat n m := fun i j => A i j - B i j
def one {n : Nat} : Mat n n := fun i j => if i = j then 1 else 0
def smul {n m : Nat} (c : Rat) (A : Mat n m) : Mat n m := fun i j => c * A i j

/-- squared Frobenius norm -/
def frob2 {n m : Nat} (A : Mat n m) : Rat := sumF fun i => sumF fun j => A i j * A i j
/-- squared distance between two point sets (`np.linalg.norm(X - T)` squared) -/
def err2 {n d : Nat} (X T : Mat n d) : Rat := frob2 (msub X T)

/-- `PointCloud.centre()` -/
def centroid {n d : Nat} (P : Mat n d) : Vec d := fun j => (sumF fun i => P i j) / (n : Rat)
def centred {n d : Nat} (P : Mat n d) : Mat n d := fun i j => P i j - centroid P j
/-- `PointCloud.norm()` squared -/
def norm2 {n d : Nat} (P : Mat n d) : Rat := frob2 (centred P)

def matEqB {n m : Nat} (A B : Mat n m) : Bool :=
  (List.finRange n).all fun i => (List.finRange m).all fun j => A i j == B i j

/-! ### homogeneous matrices -/

abbrev HMat (d : Nat) := Mat (d + 1) (d + 1)

/-- `PointCloud.h_points()`: `(d+1) × n`, last row ones -/
def hpoints {n d : Nat} (P : Mat n d) : Mat (d + 1) n :=
  fun r i => if h : r.val < d then P i ⟨r.val, h⟩ else 1

def linPart {d : Nat} (H : HMat d) : Mat d d := fun i j => H i.castSucc j.castSucc
def transPart {d : Nat} (H : HMat d) : Vec d := fun i => H i.castSucc (Fin.last d)

/-- `Affine._apply`: `x · linearᵀ + translation` -/
def applyH {n d : Nat} (H : HMat d) (P : Mat n d) : Mat n d :=
  fun i j => (sumF fun l => P i l * linPart H j l) + transPart H j

/-- homogeneous matrix with linear part `L`, translation `t`, last row `0 … 0 1` -/
def mkH {d : Nat} (L : Mat d d) (t : Vec d) : HMat d :=
  fun i j =>
    if hi : i.val < d then
      (if hj : j.val < d then L ⟨i.val, hi⟩ ⟨j.val, hj⟩ else t ⟨i.val, hi⟩)
    else (if j.val < d then 0 else 1)

def translationH {d : Nat} (t : Vec d) : HMat d := mkH one t
def scaleH {d : Nat} (s : Rat) : HMat d := mkH (smul s one) (fun _ => 0)
def rotationH {d : Nat} (R : Mat d d) : HMat d := mkH R (fun _ => 0)

/-- last row is `0 … 0 1` -/
def IsAff {d : Nat} (H : HMat d) : Prop :=
  (∀ j : Fin d, H (Fin.last d) j.castSucc = 0) ∧ H (Fin.last d) (Fin.last d) = 1

/-! ### translation, scale -/

/-- `AlignmentTranslation`: `Translation(target.centre() - source.centre())` -/
def fitTranslationVec {n d : Nat} (S T : Mat n d) : Vec d := fun j => centroid T j - centroid S j
def fitTranslation {n d : Nat} (S T : Mat n d) : HMat d := translationH (fitTranslationVec S T)

/-- `AlignmentUniformScale`: `UniformScale(target.norm() / source.norm())`; `rT`, `rS` are the values the two
`np.linalg.norm` calls return (contract: `r ≥ 0 ∧ r² = norm2`) -/
def fitScale {d : Nat} (rT rS : Rat) : HMat d := scaleH (rT / rS)

/-! ### affine: normal equations with a checked solve -/

def toArr {n m : Nat} (A : Mat n m) : Array (Array Rat) :=
  Array.ofFn fun i : Fin n => Array.ofFn fun j : Fin m => A i j
def ofArr {n m : Nat} (a : Array (Array Rat)) : Mat n m := fun i j => (a.getD i.val #[]).getD j.val 0

/-- Gauss–Jordan on the augmented rows `[G | Y]` (first non-zero pivot).  Untrusted: its answer is checked. -/
def gaussJordan (k : Nat) (rows0 : Array (Array Rat)) : Option (Array (Array Rat)) := Id.run do
  let mut rows := rows0
  for c in [0:k] do
    -- find pivot
    let mut piv : Option Nat := none
    for r in [c:k] do
      if piv.isNone && (rows.getD r #[]).getD c 0 != 0 then piv := some r
    match piv with
    | none => return none
    | some p =>
      let rp := rows.getD p #[]
      let rc := rows.getD c #[]
      rows := (rows.setIfInBounds p rc).setIfInBounds c rp
      let pv := rp.getD c 0
      let prow := rp.map (· / pv)
      rows := rows.setIfInBounds c prow
      for r in [0:k] do
        if r != c then
          let row := rows.getD r #[]
          let f := row.getD c 0
          if f != 0 then
            rows := rows.setIfInBounds r (Array.ofFn fun j : Fin row.size => row.getD j.val 0 - f * prow.getD j.val 0)
  return some rows

/-- solve `G · X = Y`; `none` when no pivot is found or the computed `X` fails the check -/
def solveChecked {k p : Nat} (G : Mat k k) (Y : Mat k p) : Option (Mat k p) :=
  let aug : Array (Array Rat) := Array.ofFn fun i : Fin k => (Array.ofFn fun j : Fin k => G i j) ++ (Array.ofFn fun j : Fin p => Y i j)
  match gaussJordan k aug with
  | none => none
  | some rows =>
    let xa : Array (Array Rat) := rows.map fun r => r.extract k (k + p)
    let X : Mat k p := ofArr xa
    -- freeze X into a table so later accesses do not recompute anything
    if matEqB (mul G X) Y then some X else none

/-- `AlignmentAffine._build_alignment_h_matrix`: `np.linalg.solve(a·aᵀ, a·bᵀ).T` -/
def affineFit {n d : Nat} (S T : Mat n d) : Option (HMat d) :=
  let A := hpoints S
  let B := hpoints T
  (solveChecked (mul A (tr A)) (mul A (tr B))).map tr

/-! ### rotation (Kabsch) -/

/-- determinant for the dimensions menpo's affine family supports (2-D, 3-D); other sizes are never asked
(the driver refuses them) -/
def det : {d : Nat} → Mat d d → Rat
  | 0, _ => 1
  | 1, A => A 0 0
  | 2, A => A 0 0 * A 1 1 - A 0 1 * A 1 0
  | 3, A => A 0 0 * A 1 1 * A 2 2 - A 0 0 * A 1 2 * A 2 1 - A 0 1 * A 1 0 * A 2 2
            + A 0 1 * A 1 2 * A 2 0 + A 0 2 * A 1 0 * A 2 1 - A 0 2 * A 1 1 * A 2 0
  | _ + 4, _ => 0

/-- `E = eye; E[-1,-1] = -1` -/
def flipLast {d : Nat} : Mat d d := fun i j => if i = j then (if i.val + 1 = d then -1 else 1) else 0

/-- `target.points.T · source.points` -/
def corr {n d : Nat} (S T : Mat n d) : Mat d d := mul (tr T) S

/-- `optimal_rotation_matrix` after `U, D, Vt = np.linalg.svd(correlation)` -/
def rotFit {d : Nat} (allowMirror : Bool) (U Vt : Mat d d) : Mat d d :=
  let R := mul U Vt
  if !allowMirror && det R < 0 then mul U (mul flipLast Vt) else R

/-- the contract of `np.linalg.svd` on a square matrix, as a decidable check on exact witnesses -/
def svdContractB {d : Nat} (M U : Mat d d) (D : Vec d) (Vt : Mat d d) : Bool :=
  matEqB (mul (tr U) U) one && matEqB (mul U (tr U)) one &&
  matEqB (mul (tr Vt) Vt) one && matEqB (mul Vt (tr Vt)) one &&
  matEqB (mul U (mul (fun i j => if i = j then D i else 0) Vt)) M &&
  (List.finRange d).all (fun i => decide (0 ≤ D i)) &&
  (List.finRange d).all (fun i => (List.finRange d).all fun j => decide (i.val ≤ j.val → D j ≤ D i))

/-! ### similarity (`procrustes_alignment`) -/

def negV {d : Nat} (v : Vec d) : Vec d := fun i => - v i

/-- `p` after `compose_before_inplace(src_t)` and `compose_before_inplace(src_s)` (starting from the identity) -/
def simP0 {n d : Nat} (s : Rat) (S : Mat n d) : HMat d :=
  mul (scaleH s) (mul (translationH (negV (centroid S))) one)
/-- `p.apply(source)`: the centred and rescaled source the code hands to `optimal_rotation_matrix` -/
def simAlignedSrc {n d : Nat} (s : Rat) (S : Mat n d) : Mat n d := applyH (simP0 s S) S
/-- `tgt_t.apply(target)` -/
def simAlignedTgt {n d : Nat} (T : Mat n d) : Mat n d := applyH (translationH (negV (centroid T))) T

/-- `procrustes_alignment(source, target, rotation, allow_mirror)`; `R` is what `optimal_rotation_matrix`
returned for `(simAlignedSrc, simAlignedTgt)` (ignored when `rotation = false`) -/
def simFit {n d : Nat} (rotation : Bool) (rT rS : Rat) (R : Mat d d) (S T : Mat n d) : HMat d :=
  let p0 : HMat d := simP0 (rT / rS) S
  let p1 : HMat d := if rotation then mul (rotationH R) p0 else p0
  mul (translationH (centroid T)) p1

/-! ### alignment objects: what `.target` holds after construction -/

structure AlignObj (n d : Nat) where
  source : Mat n d
  target : Mat n d
  h : HMat d

/-- `resync = true`: the constructor went through a setter that calls `_sync_target_from_state`, so `.target`
is replaced by the aligned source (original tree: `AlignmentAffine`, `AlignmentRotation`);
`resync = false`: `.target` is the requested target. -/
def construct {n d : Nat} (resync : Bool) (S T : Mat n d) (h : HMat d) : AlignObj n d :=
  { source := S, target := if resync then applyH h S else T, h := h }

/-- `Alignment.aligned_source()` -/
def AlignObj.alignedSource {n d : Nat} (a : AlignObj n d) : Mat n d := applyH a.h a.source
/-- `Alignment.alignment_error()` squared -/
def AlignObj.alignmentError2 {n d : Nat} (a : AlignObj n d) : Rat := err2 a.target a.alignedSource

/-! ### thin-plate splines -/

/-- column `c` of `p = [1, x, y]` at a 2-D point -/
def pcol (c : Nat) (x y : Rat) : Rat := if c = 0 then 1 else if c = 1 then x else y

/-- `l = [[k, p], [pᵀ, 0]]` -/
def tpsL {n : Nat} (K : Mat n n) (S : Mat n 2) : Mat (n + 3) (n + 3) :=
  fun r c =>
    if hr : r.val < n then
      (if hc : c.val < n then K ⟨r.val, hr⟩ ⟨c.val, hc⟩ else pcol (c.val - n) (S ⟨r.val, hr⟩ 0) (S ⟨r.val, hr⟩ 1))
    else
      (if hc : c.val < n then pcol (r.val - n) (S ⟨c.val, hc⟩ 0) (S ⟨c.val, hc⟩ 1) else 0)

/-- `y.T`: target rows followed by three zero rows -/
def tpsY {n : Nat} (T : Mat n 2) : Mat (n + 3) 2 :=
  fun r c => if hr : r.val < n then T ⟨r.val, hr⟩ c else 0

/-- `_build_coefficients` when no singular value is dropped: `coefficients = l⁻¹ · yᵀ` -/
def tpsFit {n : Nat} (K : Mat n n) (S T : Mat n 2) : Option (Mat (n + 3) 2) := solveChecked (tpsL K S) (tpsY T)

/-- `ThinPlateSplines._apply` at one point `(x, y)` whose kernel row is `kern` -/
def tpsApply {n : Nat} (coef : Mat (n + 3) 2) (kern : Vec n) (x y : Rat) : Vec 2 :=
  fun c => coef (Fin.natAdd n 0) c + coef (Fin.natAdd n 1) c * x + coef (Fin.natAdd n 2) c * y
           + sumF fun i => kern i * coef (Fin.castAdd 3 i) c

/-! ### piecewise affine (2-D) -/

structure V2 where
  x : Rat
  y : Rat
deriving Repr, DecidableEq

namespace V2
def add (a b : V2) : V2 := ⟨a.x + b.x, a.y + b.y⟩
def sub (a b : V2) : V2 := ⟨a.x - b.x, a.y - b.y⟩
def smul (c : Rat) (a : V2) : V2 := ⟨c * a.x, c * a.y⟩
def dot (a b : V2) : Rat := a.x * b.x + a.y * b.y
end V2

/-- `alpha_beta(i, ij, ik, points)` for one triangle and one point -/
def alphaBeta (i ij ik p : V2) : Rat × Rat :=
  let ip := V2.sub p i
  let jj := V2.dot ij ij
  let kk := V2.dot ik ik
  let jk := V2.dot ij ik
  let pj := V2.dot ip ij
  let pk := V2.dot ip ik
  let d := 1 / (jj * kk - jk * jk)
  ((kk * pj - jk * pk) * d, (jj * pk - jk * pj) * d)

/-- `alpha >= 0 and beta >= 0 and alpha + beta <= 1` -/
def containsAB (ab : Rat × Rat) : Bool := decide (0 ≤ ab.1) && decide (0 ≤ ab.2) && decide (ab.1 + ab.2 ≤ 1)

abbrev Tri := Nat × Nat × Nat

def triAB (src : Nat → V2) (t : Tri) (p : V2) : Rat × Rat :=
  alphaBeta (src t.1) (V2.sub (src t.2.1) (src t.1)) (V2.sub (src t.2.2) (src t.1)) p

/-- the affine map of one triangle: `ti + alpha * tij + beta * tik` -/
def triMap (src tgt : Nat → V2) (t : Tri) (p : V2) : V2 :=
  let ab := triAB src t p
  V2.add (tgt t.1) (V2.add (V2.smul ab.1 (V2.sub (tgt t.2.1) (tgt t.1))) (V2.smul ab.2 (V2.sub (tgt t.2.2) (tgt t.1))))

/-- `containment_from_alpha_beta`: `index[point_index] = tri_index` written in row-major order of `nonzero`,
so the *last* containing triangle wins; no containing triangle = `TriangleContainmentError` -/
def pwaTri (src : Nat → V2) (tris : List Tri) (p : V2) : Option Tri :=
  (tris.filter fun t => containsAB (triAB src t p)).getLast?

/-- `AbstractPWA._apply` at one point -/
def pwaApply (src tgt : Nat → V2) (tris : List Tri) (p : V2) : Option V2 :=
  (pwaTri src tris p).map fun t => triMap src tgt t p

/-! ### degenerate sizes: what the code does when a norm is zero

`target.norm() / source.norm()` is a float division.  A zero-size source (all points coincide, `source.norm() == 0`)
makes it `inf` (or `nan` when the target has zero size too): `AlignmentUniformScale` then carries a non-finite matrix,
`AlignmentSimilarity(rotation=False)` an all-`nan` matrix and `AlignmentSimilarity(rotation=True)` raises
`LinAlgError` from the SVD of a `nan` matrix.  None of them is a finite member of the family: the model answers
`none`.  A zero-size *target* with a proper source is not an error: the factor is `0`. -/

/-- `target.norm() / source.norm()`: `none` = the non-finite result of dividing by a zero-size source -/
def normRatio (rT rS : Rat) : Option Rat := if rS = 0 then none else some (rT / rS)

/-- `AlignmentUniformScale(source, target)` with the degenerate branch explicit -/
def fitScaleE {d : Nat} (rT rS : Rat) : Option (HMat d) := (normRatio rT rS).map scaleH

/-- `procrustes_alignment` with the degenerate branch explicit -/
def simFitE {n d : Nat} (rotation : Bool) (rT rS : Rat) (R : Mat d d) (S T : Mat n d) : Option (HMat d) :=
  (normRatio rT rS).map fun _ => simFit rotation rT rS R S T

/-! ### thin-plate splines: the coefficients of a purely affine spline -/

/-- zero bending rows; rows `n, n+1, n+2` = constant term, `x` coefficient, `y` coefficient of the affine map `H0` -/
def tpsAffineCoef {n : Nat} (H0 : HMat 2) : Mat (n + 3) 2 :=
  fun r c =>
    if r.val < n then 0
    else if r.val = n then H0 c.castSucc 2
    else if r.val = n + 1 then H0 c.castSucc 0
    else H0 c.castSucc 1

/-! ### generalized Procrustes analysis (`GeneralizedProcrustesAnalysis`, `MultipleAlignment`)

State is held in *tables* (`Array (Array Rat)`, the analogue of the numpy arrays the objects hold): a table is
computed once where it is bound and only looked up afterwards; `ofArr (toArr X) = X` (`Props/C07.lean: ofArr_toArr`). -/

abbrev Tab := Array (Array Rat)

/-- what the two `norm()` calls and the `np.linalg.svd` call inside one `procrustes_alignment` returned -/
structure SimWit (d : Nat) where
  rT : Rat
  rS : Rat
  U : Mat d d
  Vt : Mat d d

instance {d : Nat} : Inhabited (SimWit d) := ⟨⟨1, 1, one, one⟩⟩

/-- `AlignmentSimilarity(source, target, allow_mirror=mirror)` (rotation defaults to `True`) given the
externals' answers `w` -/
def simAlign {n d : Nat} (mirror : Bool) (w : SimWit d) (S T : Mat n d) : HMat d :=
  simFit true w.rT w.rS (rotFit mirror w.U w.Vt) S T

/-- `sum(pc.points for pc in pointclouds) / len(pointclouds)` -/
def meanPts {k n d : Nat} (P : Fin k → Mat n d) : Mat n d := fun i j => (sumF fun a => P a i j) / (k : Rat)

/-- `scale_about_centre(obj, s)` = `to_origin.compose_before(UniformScale(s)).compose_before(back_to_centre)` -/
def scaleAboutCentreH {n d : Nat} (P : Mat n d) (s : Rat) : HMat d :=
  mul (translationH (centroid P)) (mul (scaleH s) (translationH (negV (centroid P))))

/-- the externals' answers consumed by one pass of `_recursive_procrustes`: `new_tgt.norm()` and one `SimWit`
per `t.set_target(new_tgt)` -/
structure GpaWit (k d : Nat) where
  newNorm : Rat
  sims : Fin k → SimWit d

instance {k d : Nat} : Inhabited (GpaWit k d) := ⟨⟨1, fun _ => default⟩⟩

/-- `delta_target < 1e-6`, squared (`np.linalg.norm` returns the non-negative root) -/
def gpaTol2 : Rat := 1 / 1000000000000

structure GpaState (k d : Nat) where
  /-- `h_matrix` of `self.transforms[a]` -/
  transforms : Array Tab
  /-- `self.target` (the target every transform is currently aligned to) -/
  target : Tab
  nIter : Nat
  converged : Bool
  /-- ghost: the externals' answers the current transforms were computed from -/
  sims : Fin k → SimWit d

def GpaState.transform {k d : Nat} (st : GpaState k d) (a : Fin k) : HMat d := ofArr (st.transforms.getD a.val #[])
def GpaState.tgt {k d : Nat} (n : Nat) (st : GpaState k d) : Mat n d := ofArr st.target

/-- the mean of the aligned sources, rescaled about its centre to `initial_target_scale` -/
def gpaNewTarget {k n d : Nat} (sources : Fin k → Mat n d) (initScale newNorm : Rat) (trs : Fin k → HMat d) : Tab :=
  let meanA := toArr (meanPts fun a => applyH (trs a) (sources a))
  let mean : Mat n d := ofArr meanA
  let hA := toArr (scaleAboutCentreH mean (initScale / newNorm))
  let h : HMat d := ofArr hA
  toArr (applyH h mean)

/-- `simAlign` evaluated the way the code evaluates it: the rotation matrix and every `compose_before_inplace`
product are materialised once (`Props/C07.lean: ofArr_simAlignTab`: the table read back *is* `simAlign`) -/
def simAlignTab {n d : Nat} (mirror : Bool) (w : SimWit d) (S T : Mat n d) : Tab :=
  let Ra := toArr (rotFit mirror w.U w.Vt)
  let R : Mat d d := ofArr Ra
  let p0a := toArr (simP0 (w.rT / w.rS) S)
  let p0 : HMat d := ofArr p0a
  let p1a := toArr (mul (rotationH R) p0)
  let p1 : HMat d := ofArr p1a
  toArr (mul (translationH (centroid T)) p1)

/-- all `AlignmentSimilarity(source_a, target)` as tables -/
def gpaFitAll {k n d : Nat} (mirror : Bool) (sources : Fin k → Mat n d) (sims : Fin k → SimWit d) (T : Mat n d) :
    Array Tab :=
  Array.ofFn fun a : Fin k => simAlignTab mirror (sims a) (sources a) T

/-- `_recursive_procrustes`; `fuel = max_iterations + 1 - n_iterations`, so `fuel = 0` is the code's own
`n_iterations > max_iterations` exit.  `ws i` = the externals' answers during the pass with `n_iterations = i`. -/
def gpaRec {k n d : Nat} (mirror : Bool) (sources : Fin k → Mat n d) (initScale : Rat) (ws : Nat → GpaWit k d) :
    Nat → GpaState k d → GpaState k d
  | 0, st => { st with converged := false }
  | fuel + 1, st =>
    let newT := gpaNewTarget sources initScale (ws st.nIter).newNorm st.transform
    let newTgt : Mat n d := ofArr newT
    if err2 (st.tgt n) newTgt < gpaTol2 then { st with converged := true }
    else
      gpaRec mirror sources initScale ws fuel
        { transforms := gpaFitAll mirror sources (ws st.nIter).sims newTgt
          target := newT
          nIter := st.nIter + 1
          converged := false
          sims := (ws st.nIter).sims }

structure GpaResult (k d : Nat) where
  state : GpaState k d
  /-- `gpa.target` as reported after construction -/
  reported : Tab

/-- `GeneralizedProcrustesAnalysis(sources, target, allow_mirror)`; `none` = the `ValueError` of
`MultipleAlignment.__init__` (fewer than two sources and no target).  `w0`/`initScale` = the externals' answers
during the constructor's own fits and `self.target.norm()`. -/
def gpa {k n d : Nat} (mirror : Bool) (sources : Fin k → Mat n d) (target : Option (Mat n d))
    (w0 : Fin k → SimWit d) (initScale : Rat) (maxIter : Nat) (ws : Nat → GpaWit k d) : Option (GpaResult k d) :=
  if k < 2 ∧ target.isNone then none
  else
    let t0A := toArr (match target with
      | some t => t
      | none => meanPts sources)
    let t0 : Mat n d := ofArr t0A
    let st := gpaRec mirror sources initScale ws maxIter
      { transforms := gpaFitAll mirror sources w0 t0, target := t0A, nIter := 1, converged := false, sims := w0 }
    some { state := st
           reported := match target with
             | some _ => t0A          -- `if target is not None: self.target = initial_target`
             | none => st.target }

/-- `mean_alignment_error()` squared terms: the per-transform squared alignment errors -/
def gpaErr2 {k n d : Nat} (sources : Fin k → Mat n d) (st : GpaState k d) (a : Fin k) : Rat :=
  err2 (st.tgt n) (applyH (st.transform a) (sources a))

/-! ### piecewise affine: an executable conformity certificate

`pwaCertB src tris` checks, on the concrete triangle list an alignment works with, what the theorems about
`pwaApply` need of it: every triangle is non-degenerate and any two triangles are either on the same vertices or
separated (weakly) by the line through two of their vertices, their vertices on that line being separated in turn by
a second such line which both touch only in vertices they share (two levels: triangles meeting in one vertex across
a common line need the second).
`Props/C07.lean: pwa_single_valued` proves that then all triangles containing a point map it to the same place. -/

/-- twice the signed area of `(a, b, p)`: positive when `p` is to the left of `a → b`; affine in `p` -/
def orient (a b p : V2) : Rat := (b.x - a.x) * (p.y - a.y) - (b.y - a.y) * (p.x - a.x)

def triVerts (t : Tri) : List Nat := [t.1, t.2.1, t.2.2]
def isVertexB (t : Tri) (u : Nat) : Bool := u == t.1 || u == t.2.1 || u == t.2.2

/-- the Gram determinant `alpha_beta` divides by is not zero -/
def nondegB (src : Nat → V2) (t : Tri) : Bool :=
  let ij := V2.sub (src t.2.1) (src t.1)
  let ik := V2.sub (src t.2.2) (src t.1)
  V2.dot ij ij * V2.dot ik ik - V2.dot ij ik * V2.dot ij ik != 0

/-- first level: the line through landmarks `a`, `b` has `t` on its non-negative and `t'` on its non-positive side -/
def sep1 (src : Nat → V2) (a b : Nat) (t t' : Tri) : Bool :=
  ((triVerts t).all fun x => decide (0 ≤ orient (src a) (src b) (src x))) &&
  ((triVerts t').all fun x => decide (orient (src a) (src b) (src x) ≤ 0))

/-- second level, among the vertices *on* that line: a second line `c`, `d` has those of `t` on its non-negative and
those of `t'` on its non-positive side, and a vertex of `t` on both lines is also a vertex of `t'`
(`c = d` gives the constant functional `0`: then every vertex of `t` on the first line must be shared) -/
def sep2 (src : Nat → V2) (a b c d : Nat) (t t' : Tri) : Bool :=
  ((triVerts t).all fun x =>
    orient (src a) (src b) (src x) != 0 ||
      (decide (0 ≤ orient (src c) (src d) (src x)) && (orient (src c) (src d) (src x) != 0 || isVertexB t' x))) &&
  ((triVerts t').all fun x =>
    orient (src a) (src b) (src x) != 0 || decide (orient (src c) (src d) (src x) ≤ 0))

/-- candidate separating lines: the edges of both triangles, in both orientations -/
def linesOf (t t' : Tri) : List (Nat × Nat) :=
  [(t.1, t.2.1), (t.2.1, t.1), (t.2.1, t.2.2), (t.2.2, t.2.1), (t.1, t.2.2), (t.2.2, t.1),
   (t'.1, t'.2.1), (t'.2.1, t'.1), (t'.2.1, t'.2.2), (t'.2.2, t'.2.1), (t'.1, t'.2.2), (t'.2.2, t'.1)]

def pairOK (src : Nat → V2) (t t' : Tri) : Bool :=
  (triVerts t).all (isVertexB t') ||
  (linesOf t t').any fun ab =>
    sep1 src ab.1 ab.2 t t' && ((t.1, t.1) :: linesOf t t').any fun cd => sep2 src ab.1 ab.2 cd.1 cd.2 t t'

/-- the pair check is directional (the "shared" requirement is on the first triangle's vertices): a pair passes
when it passes in either direction -/
def pairOK2 (src : Nat → V2) (t t' : Tri) : Bool := pairOK src t t' || pairOK src t' t

def pwaCertB (src : Nat → V2) (tris : List Tri) : Bool :=
  tris.all (nondegB src) && tris.all fun t => tris.all fun t' => pairOK2 src t t'

/-! ### thin-plate splines as coded: the truncated-SVD "inverse" -/

def diagV {m : Nat} (v : Vec m) : Mat m m := fun i j => if i = j then v i else 0

/-- `keep = _s.shape[0] - sum(_s < min_singular_val)` -/
def tpsKeep {m : Nat} (s : Vec m) (minSing : Rat) : Nat :=
  m - ((List.finRange m).filter fun i => decide (s i < minSing)).length

/-- `1.0 / _s[:keep]`, padded with zeros for the dropped directions -/
def tpsInvS {m : Nat} (s : Vec m) (keep : Nat) : Vec m := fun i => if i.val < keep then 1 / s i else 0

/-- `_build_coefficients`: `inv_l = _u[:, :keep] · (1/_s[:keep, None] * _v[:keep, :])`, `coefficients = inv_l · yᵀ`
(`U, s, Vt` = what `np.linalg.svd(self.l)` returned) -/
def tpsFitSvd {n : Nat} (U : Mat (n + 3) (n + 3)) (s : Vec (n + 3)) (Vt : Mat (n + 3) (n + 3)) (minSing : Rat)
    (T : Mat n 2) : Mat (n + 3) 2 :=
  let keep := tpsKeep s minSing
  mul U (fun l j => tpsInvS s keep l * mul Vt (tpsY T) l j)

/-- the kept singular values are at least the threshold (a consequence of the descending order `svd` promises) -/
def tpsKeptOKB {m : Nat} (s : Vec m) (minSing : Rat) : Bool :=
  (List.finRange m).all fun i => !(decide (i.val < tpsKeep s minSing)) || decide (minSing ≤ s i)

end MenpoModel.C07
