/-
C07 — executable model of menpo's alignment constructors (core Lean only, no Mathlib).

Matrices are functions `Fin n → Fin m → Rat` (the same carrier as Mathlib's `Matrix`, so the
theorems in `Props/C07.lean` transport every definition here to Mathlib's matrix algebra with
one lemma per operation).  Point sets are `(n_points × n_dims)` as in menpo.

What follows the code, branch for branch:
* `fitTranslation`   — `AlignmentTranslation.__init__`        (`target.centre() - source.centre()`)
* `fitScale`         — `AlignmentUniformScale.__init__`        (`target.norm() / source.norm()`, the two
                        square roots are contract parameters)
* `affineFit`        — `AlignmentAffine._build_alignment_h_matrix` (`solve(a aᵀ, a bᵀ)ᵀ`; the linear solve is an
                        executable Gauss–Jordan whose answer is *checked* (`G·X = Y`) before it is used, so the
                        theorems need no assumption about it)
* `rotFit`           — `optimal_rotation_matrix` (the SVD factors `U, Vt` are contract parameters; `R = U·Vt`,
                        determinant test, `E[-1,-1] = -1` correction)
* `simFit`           — `procrustes_alignment` (centre, norm-ratio scale, optional rotation, re-centre — composed as
                        homogeneous matrices in the order the code composes them)
* `tpsFit/tpsApply`  — `ThinPlateSplines._build_coefficients/_apply` (kernel values are contract parameters)
* `alphaBeta/pwaApply` — `alpha_beta`, `containment_from_alpha_beta`, `AbstractPWA._apply`
* `construct`        — which point set ends up in `.target` after construction (`resync = true`: the constructor
                        ran `_sync_target_from_state`, as `AlignmentAffine`/`AlignmentRotation` do on the original tree)
-/

namespace MenpoModel.C07

abbrev Mat (n m : Nat) := Fin n → Fin m → Rat
abbrev Vec (n : Nat) := Fin n → Rat

/-- `Σ_{i < n} f i` -/
def sumF {n : Nat} (f : Fin n → Rat) : Rat := (List.ofFn f).sum

def mul {n k m : Nat} (A : Mat n k) (B : Mat k m) : Mat n m := fun i j => sumF fun l => A i l * B l j
def tr {n m : Nat} (A : Mat n m) : Mat m n := fun i j => A j i
def msub {n m : Nat} (A B : Mat n m) : Mat n m := fun i j => A i j - B i j
def one {n : Nat} : Mat n n := fun i j => if i = j then 1 else 0
def smul {n m : Nat} (c : Rat) (A : Mat n m) : Mat n m := fun i j => c * A i j

/-- squared Frobenius norm -/
def frob2 {n m : Nat} (A : Mat n m) : Rat := sumF fun i => sumF fun j => A i j * A i j
/-- squared distance between two point sets (`np.linalg.norm(X - T)` squared) -/
def err2 {n d : Nat} (X T : Mat n d) : Rat := frob2 (msub X T)

/-- `PointCloud.centre()` -/
def centroid {n d : Nat} (P : Mat n d) : Vec d := fun j => (sumF fun i => P i j) / (n : Rat)
def centred {n d : Nat} (P : Mat n d) : Mat n d := fun i j => P i j - centroid P j
/-- `PointCloud.norm()` squared -/
def norm2 {n d : Nat} (P : Mat n d) : Rat := frob2 (centred P)

def matEqB {n m : Nat} (A B : Mat n m) : Bool :=
  (List.finRange n).all fun i => (List.finRange m).all fun j => A i j == B i j

/-! ### homogeneous matrices -/

abbrev HMat (d : Nat) := Mat (d + 1) (d + 1)

/-- `PointCloud.h_points()`: `(d+1) × n`, last row ones -/
def hpoints {n d : Nat} (P : Mat n d) : Mat (d + 1) n :=
  fun r i => if h : r.val < d then P i ⟨r.val, h⟩ else 1

def linPart {d : Nat} (H : HMat d) : Mat d d := fun i j => H i.castSucc j.castSucc
def transPart {d : Nat} (H : HMat d) : Vec d := fun i => H i.castSucc (Fin.last d)

/-- `Affine._apply`: `x · linearᵀ + translation` -/
def applyH {n d : Nat} (H : HMat d) (P : Mat n d) : Mat n d :=
  fun i j => (sumF fun l => P i l * linPart H j l) + transPart H j

/-- homogeneous matrix with linear part `L`, translation `t`, last row `0 … 0 1` -/
def mkH {d : Nat} (L : Mat d d) (t : Vec d) : HMat d :=
  fun i j =>
    if hi : i.val < d then
      (if hj : j.val < d then L ⟨i.val, hi⟩ ⟨j.val, hj⟩ else t ⟨i.val, hi⟩)
    else (if j.val < d then 0 else 1)

def translationH {d : Nat} (t : Vec d) : HMat d := mkH one t
def scaleH {d : Nat} (s : Rat) : HMat d := mkH (smul s one) (fun _ => 0)
def rotationH {d : Nat} (R : Mat d d) : HMat d := mkH R (fun _ => 0)

/-- last row is `0 … 0 1` -/
def IsAff {d : Nat} (H : HMat d) : Prop :=
  (∀ j : Fin d, H (Fin.last d) j.castSucc = 0) ∧ H (Fin.last d) (Fin.last d) = 1

/-! ### translation, scale -/

/-- `AlignmentTranslation`: `Translation(target.centre() - source.centre())` -/
def fitTranslationVec {n d : Nat} (S T : Mat n d) : Vec d := fun j => centroid T j - centroid S j
def fitTranslation {n d : Nat} (S T : Mat n d) : HMat d := translationH (fitTranslationVec S T)

/-- `AlignmentUniformScale`: `UniformScale(target.norm() / source.norm())`; `rT`, `rS` are the values the two
`np.linalg.norm` calls return (contract: `r ≥ 0 ∧ r² = norm2`) -/
def fitScale {d : Nat} (rT rS : Rat) : HMat d := scaleH (rT / rS)

/-! ### affine: normal equations with a checked solve -/

def toArr {n m : Nat} (A : Mat n m) : Array (Array Rat) :=
  Array.ofFn fun i : Fin n => Array.ofFn fun j : Fin m => A i j
def ofArr {n m : Nat} (a : Array (Array Rat)) : Mat n m := fun i j => (a.getD i.val #[]).getD j.val 0

/-- Gauss–Jordan on the augmented rows `[G | Y]` (first non-zero pivot).  Untrusted: its answer is checked. -/
def gaussJordan (k : Nat) (rows0 : Array (Array Rat)) : Option (Array (Array Rat)) := Id.run do
  let mut rows := rows0
  for c in [0:k] do
    -- find pivot
    let mut piv : Option Nat := none
    for r in [c:k] do
      if piv.isNone && (rows.getD r #[]).getD c 0 != 0 then piv := some r
    match piv with
    | none => return none
    | some p =>
      let rp := rows.getD p #[]
      let rc := rows.getD c #[]
      rows := (rows.setIfInBounds p rc).setIfInBounds c rp
      let pv := rp.getD c 0
      let prow := rp.map (· / pv)
      rows := rows.setIfInBounds c prow
      for r in [0:k] do
        if r != c then
          let row := rows.getD r #[]
          let f := row.getD c 0
          if f != 0 then
            rows := rows.setIfInBounds r (Array.ofFn fun j : Fin row.size => row.getD j.val 0 - f * prow.getD j.val 0)
  return some rows

/-- solve `G · X = Y`; `none` when no pivot is found or the computed `X` fails the check -/
def solveChecked {k p : Nat} (G : Mat k k) (Y : Mat k p) : Option (Mat k p) :=
  let aug : Array (Array Rat) := Array.ofFn fun i : Fin k => (Array.ofFn fun j : Fin k => G i j) ++ (Array.ofFn fun j : Fin p => Y i j)
  match gaussJordan k aug with
  | none => none
  | some rows =>
    let xa : Array (Array Rat) := rows.map fun r => r.extract k (k + p)
    let X : Mat k p := ofArr xa
    -- freeze X into a table so later accesses do not recompute anything
    if matEqB (mul G X) Y then some X else none

/-- `AlignmentAffine._build_alignment_h_matrix`: `np.linalg.solve(a·aᵀ, a·bᵀ).T` -/
def affineFit {n d : Nat} (S T : Mat n d) : Option (HMat d) :=
  let A := hpoints S
  let B := hpoints T
  (solveChecked (mul A (tr A)) (mul A (tr B))).map tr

/-! ### rotation (Kabsch) -/

/-- determinant for the dimensions menpo's affine family supports (2-D, 3-D); other sizes are never asked
(the driver refuses them) -/
def det : {d : Nat} → Mat d d → Rat
  | 0, _ => 1
  | 1, A => A 0 0
  | 2, A => A 0 0 * A 1 1 - A 0 1 * A 1 0
  | 3, A => A 0 0 * A 1 1 * A 2 2 - A 0 0 * A 1 2 * A 2 1 - A 0 1 * A 1 0 * A 2 2
            + A 0 1 * A 1 2 * A 2 0 + A 0 2 * A 1 0 * A 2 1 - A 0 2 * A 1 1 * A 2 0
  | _ + 4, _ => 0

/-- `E = eye; E[-1,-1] = -1` -/
def flipLast {d : Nat} : Mat d d := fun i j => if i = j then (if i.val + 1 = d then -1 else 1) else 0

/-- `target.points.T · source.points` -/
def corr {n d : Nat} (S T : Mat n d) : Mat d d := mul (tr T) S

/-- `optimal_rotation_matrix` after `U, D, Vt = np.linalg.svd(correlation)` -/
def rotFit {d : Nat} (allowMirror : Bool) (U Vt : Mat d d) : Mat d d :=
  let R := mul U Vt
  if !allowMirror && det R < 0 then mul U (mul flipLast Vt) else R

/-- the contract of `np.linalg.svd` on a square matrix, as a decidable check on exact witnesses -/
def svdContractB {d : Nat} (M U : Mat d d) (D : Vec d) (Vt : Mat d d) : Bool :=
  matEqB (mul (tr U) U) one && matEqB (mul U (tr U)) one &&
  matEqB (mul (tr Vt) Vt) one && matEqB (mul Vt (tr Vt)) one &&
  matEqB (mul U (mul (fun i j => if i = j then D i else 0) Vt)) M &&
  (List.finRange d).all (fun i => decide (0 ≤ D i)) &&
  (List.finRange d).all (fun i => (List.finRange d).all fun j => decide (i.val ≤ j.val → D j ≤ D i))

/-! ### similarity (`procrustes_alignment`) -/

def negV {d : Nat} (v : Vec d) : Vec d := fun i => - v i

/-- `p` after `compose_before_inplace(src_t)` and `compose_before_inplace(src_s)` (starting from the identity) -/
def simP0 {n d : Nat} (s : Rat) (S : Mat n d) : HMat d :=
  mul (scaleH s) (mul (translationH (negV (centroid S))) one)
/-- `p.apply(source)`: the centred and rescaled source the code hands to `optimal_rotation_matrix` -/
def simAlignedSrc {n d : Nat} (s : Rat) (S : Mat n d) : Mat n d := applyH (simP0 s S) S
/-- `tgt_t.apply(target)` -/
def simAlignedTgt {n d : Nat} (T : Mat n d) : Mat n d := applyH (translationH (negV (centroid T))) T

/-- `procrustes_alignment(source, target, rotation, allow_mirror)`; `R` is what `optimal_rotation_matrix`
returned for `(simAlignedSrc, simAlignedTgt)` (ignored when `rotation = false`) -/
def simFit {n d : Nat} (rotation : Bool) (rT rS : Rat) (R : Mat d d) (S T : Mat n d) : HMat d :=
  let p0 : HMat d := simP0 (rT / rS) S
  let p1 : HMat d := if rotation then mul (rotationH R) p0 else p0
  mul (translationH (centroid T)) p1

/-! ### alignment objects: what `.target` holds after construction -/

structure AlignObj (n d : Nat) where
  source : Mat n d
  target : Mat n d
  h : HMat d

/-- `resync = true`: the constructor went through a setter that calls `_sync_target_from_state`, so `.target`
is replaced by the aligned source (original tree: `AlignmentAffine`, `AlignmentRotation`);
`resync = false`: `.target` is the requested target. -/
def construct {n d : Nat} (resync : Bool) (S T : Mat n d) (h : HMat d) : AlignObj n d :=
  { source := S, target := if resync then applyH h S else T, h := h }

/-- `Alignment.aligned_source()` -/
def AlignObj.alignedSource {n d : Nat} (a : AlignObj n d) : Mat n d := applyH a.h a.source
/-- `Alignment.alignment_error()` squared -/
def AlignObj.alignmentError2 {n d : Nat} (a : AlignObj n d) : Rat := err2 a.target a.alignedSource

/-! ### thin-plate splines -/

/-- column `c` of `p = [1, x, y]` at a 2-D point -/
def pcol (c : Nat) (x y : Rat) : Rat := if c = 0 then 1 else if c = 1 then x else y

/-- `l = [[k, p], [pᵀ, 0]]` -/
def tpsL {n : Nat} (K : Mat n n) (S : Mat n 2) : Mat (n + 3) (n + 3) :=
  fun r c =>
    if hr : r.val < n then
      (if hc : c.val < n then K ⟨r.val, hr⟩ ⟨c.val, hc⟩ else pcol (c.val - n) (S ⟨r.val, hr⟩ 0) (S ⟨r.val, hr⟩ 1))
    else
      (if hc : c.val < n then pcol (r.val - n) (S ⟨c.val, hc⟩ 0) (S ⟨c.val, hc⟩ 1) else 0)

/-- `y.T`: target rows followed by three zero rows -/
def tpsY {n : Nat} (T : Mat n 2) : Mat (n + 3) 2 :=
  fun r c => if hr : r.val < n then T ⟨r.val, hr⟩ c else 0

/-- `_build_coefficients` when no singular value is dropped: `coefficients = l⁻¹ · yᵀ` -/
def tpsFit {n : Nat} (K : Mat n n) (S T : Mat n 2) : Option (Mat (n + 3) 2) := solveChecked (tpsL K S) (tpsY T)

/-- `ThinPlateSplines._apply` at one point `(x, y)` whose kernel row is `kern` -/
def tpsApply {n : Nat} (coef : Mat (n + 3) 2) (kern : Vec n) (x y : Rat) : Vec 2 :=
  fun c => coef (Fin.natAdd n 0) c + coef (Fin.natAdd n 1) c * x + coef (Fin.natAdd n 2) c * y
           + sumF fun i => kern i * coef (Fin.castAdd 3 i) c

/-! ### piecewise affine (2-D) -/

structure V2 where
  x : Rat
  y : Rat
deriving Repr, DecidableEq

namespace V2
def add (a b : V2) : V2 := ⟨a.x + b.x, a.y + b.y⟩
def sub (a b : V2) : V2 := ⟨a.x - b.x, a.y - b.y⟩
def smul (c : Rat) (a : V2) : V2 := ⟨c * a.x, c * a.y⟩
def dot (a b : V2) : Rat := a.x * b.x + a.y * b.y
end V2

/-- `alpha_beta(i, ij, ik, points)` for one triangle and one point -/
def alphaBeta (i ij ik p : V2) : Rat × Rat :=
  let ip := V2.sub p i
  let jj := V2.dot ij ij
  let kk := V2.dot ik ik
  let jk := V2.dot ij ik
  let pj := V2.dot ip ij
  let pk := V2.dot ip ik
  let d := 1 / (jj * kk - jk * jk)
  ((kk * pj - jk * pk) * d, (jj * pk - jk * pj) * d)

/-- `alpha >= 0 and beta >= 0 and alpha + beta <= 1` -/
def containsAB (ab : Rat × Rat) : Bool := decide (0 ≤ ab.1) && decide (0 ≤ ab.2) && decide (ab.1 + ab.2 ≤ 1)

abbrev Tri := Nat × Nat × Nat

def triAB (src : Nat → V2) (t : Tri) (p : V2) : Rat × Rat :=
  alphaBeta (src t.1) (V2.sub (src t.2.1) (src t.1)) (V2.sub (src t.2.2) (src t.1)) p

/-- the affine map of one triangle: `ti + alpha * tij + beta * tik` -/
def triMap (src tgt : Nat → V2) (t : Tri) (p : V2) : V2 :=
  let ab := triAB src t p
  V2.add (tgt t.1) (V2.add (V2.smul ab.1 (V2.sub (tgt t.2.1) (tgt t.1))) (V2.smul ab.2 (V2.sub (tgt t.2.2) (tgt t.1))))

/-- `containment_from_alpha_beta`: `index[point_index] = tri_index` written in row-major order of `nonzero`,
so the *last* containing triangle wins; no containing triangle = `TriangleContainmentError` -/
def pwaTri (src : Nat → V2) (tris : List Tri) (p : V2) : Option Tri :=
  (tris.filter fun t => containsAB (triAB src t p)).getLast?

/-- `AbstractPWA._apply` at one point -/
def pwaApply (src tgt : Nat → V2) (tris : List Tri) (p : V2) : Option V2 :=
  (pwaTri src tris p).map fun t => triMap src tgt t p

end MenpoModel.C07
