/-
C08 — two concrete instantiations of the abstract fits `Ext`, executed by the driver and used by the
witness theorems / non-vacuity examples.  Core Lean only.

* `tableExt`: point sets are identifiers with a shape; the value of every fit on (source, target) is
  looked up in a table supplied from outside (the harness computes the reference fits with its own
  numpy code; the witnesses use exact values).  What the model contributes is *which* fit, with which
  remembered options, on which target, is selected after a history, and how it is assembled into the
  homogeneous matrix by the partial in-place writes.
* `symExt`: everything symbolic — a matrix just records which fit call produced it — used to run the
  GPA iteration, whose numerical parts (mean, rescale, convergence test) are abstract.
-/
import MenpoModel.Core.C08Retarget

namespace MenpoModel.C08

/-- a point set by name: identifier, number of points, number of dimensions -/
structure DP where
  id : Nat
  n : Nat
  d : Nat
  deriving DecidableEq, Repr

/-- reference fits from the (fixed) source to one target; matrices flat, row-major -/
structure Fits where
  transl : List Rat := []            -- d
  scale : Rat := 1
  rot : Bool → List Rat := fun _ => []            -- d×d, by allow_mirror
  aff : List Rat := []                            -- (d+1)×(d+1)
  proc : Bool → Bool → List Rat := fun _ _ => []  -- (d+1)×(d+1), by rotation, allow_mirror

def matOf (w : Nat) (l : List Rat) : Mat := fun i j => if j < w then l.getD (i * w + j) 0 else 0

/-- the entries `i, j ≤ d` of a homogeneous matrix, row by row -/
def entries (d : Nat) (h : Mat) : List (List Rat) :=
  (List.range (d + 1)).map fun i => (List.range (d + 1)).map fun j => h i j

def tableExt (tbl : Nat → Fits) : Ext DP String where
  nPoints := fun p => p.n
  nDims := fun p => p.d
  translationOf := fun _ t i => (tbl t.id).transl.getD i 0
  scaleOf := fun _ t => (tbl t.id).scale
  rotationOf := fun m s t => matOf s.d ((tbl t.id).rot m)
  affineOf := fun s t => matOf (s.d + 1) ((tbl t.id).aff)
  procrustes := fun r m s t => matOf (s.d + 1) ((tbl t.id).proc r m)
  tpsL := fun k s => s!"L(k{k},p{s.id})"
  tpsCoef := fun l sv t => s!"C({l},{sv.num}/{sv.den},p{t.id})"
  pwaVectors := fun s t => s!"V(p{s.id},p{t.id})"
  applyHom := fun _ s => { s with id := 1000 + s.id }   -- "the aligned source": a new point set of the same shape
  applyTps := fun _ _ _ x => { x with id := 1000 + x.id }
  applyPwa := fun _ _ x => { x with id := 1000 + x.id }

/-- observable state of an object: matrix entries, or the descriptor of the kept arrays -/
def stateEntries {Pts : Type} (d : Nat) (o : Obj Pts String) : List (List Rat) :=
  match o.state with
  | .hom h => entries d h
  | _ => []

def stateDescr {Pts : Type} (o : Obj Pts String) : String :=
  match o.state with
  | .hom _ => "hom"
  | .tps l c => s!"tps {l} {c}"
  | .pwa tv => s!"pwa {tv}"

/-- run a history and report, per call, whether it was accepted -/
def verdicts {Pts A : Type} (e : Ext Pts A) : Obj Pts A → List Pts → List (Option Err)
  | _, [] => []
  | o, t :: ts =>
    match setTarget e o t with
    | .ok o' => none :: verdicts e o' ts
    | .error err => some err :: verdicts e o ts

/-! ### symbolic instantiation for GPA: codes
  source i ↦ i;  target number k ↦ 1000 + k;  a source aligned to target k ↦ 2000 + k;
  the matrix of `procrustes r m s t` records `t, s, r, m` in its first four entries. -/

def symMat (r m : Bool) (s t : Nat) : Mat := fun i j =>
  match i, j with
  | 0, 0 => (t : Rat)
  | 0, 1 => (s : Rat)
  | 1, 0 => if r then 1 else 0
  | 1, 1 => if m then 1 else 0
  | _, _ => 0

def symExt (n d : Nat) : Ext Nat Unit where
  nPoints := fun _ => n
  nDims := fun _ => d
  translationOf := fun _ _ _ => 0
  scaleOf := fun _ _ => 1
  rotationOf := fun _ _ _ => eye
  affineOf := fun _ _ => eye
  procrustes := fun r m s t => symMat r m s t
  tpsL := fun _ _ => ()
  tpsCoef := fun _ _ _ => ()
  pwaVectors := fun _ _ => ()
  applyHom := fun h _ => 2000 + ((h 0 0).num.toNat - 1000)
  applyTps := fun _ _ _ x => x
  applyPwa := fun _ _ x => x

/-- `closeFlags[k]` = the convergence test between target k and target k+1 succeeded -/
def symGpa (closeFlags : List Bool) : GpaExt Nat where
  meanOf := fun _ => 1000
  newTarget := fun _ aligned => match aligned with
    | a :: _ => 1000 + (a - 2000) + 1
    | [] => 1000
  closeEnough := fun t _ => closeFlags.getD (t - 1000) false

end MenpoModel.C08
