/- Vocabulary shared by every file written by harness/py2lean2.py: a Python `for` loop over a list, as a left fold
   whose arguments come in the order  state, iterable, body  (so that Lean knows the type of the loop-carried state
   before it elaborates the body).  No Mathlib. -/
namespace MenpoModel.Py

/-- `for it in xs: acc = f acc it`, starting from `init` -/
def forLoop {σ α : Type} (init : σ) (xs : List α) (f : σ → α → σ) : σ := xs.foldl f init

@[simp] theorem forLoop_eq_foldl {σ α : Type} (init : σ) (xs : List α) (f : σ → α → σ) :
    forLoop init xs f = xs.foldl f init := rfl

theorem forLoop_nil {σ α : Type} (init : σ) (f : σ → α → σ) : forLoop init [] f = init := rfl

theorem forLoop_cons {σ α : Type} (init : σ) (x : α) (xs : List α) (f : σ → α → σ) :
    forLoop init (x :: xs) f = forLoop (f init x) xs f := rfl

/-- once a loop has exited (`stop s`), the remaining iterations of a guarded body are the identity -/
theorem forLoop_stopped {σ α : Type} (stop : σ → Bool) (g : σ → α → σ) (s : σ) (xs : List α) (h : stop s = true) :
    forLoop s xs (fun acc it => if stop acc then acc else g acc it) = s := by
  induction xs with
  | nil => rfl
  | cons x xs ih => simp only [forLoop_cons, h, if_true]; exact ih

/-! Appended for `Translator2T` (try / except, raising calls): a raising call and a loop exit as plain functions instead
of `match` expressions, so that a translated definition and the hand-written definition it is compared with do not
differ in auxiliary matcher constants (their terms can then be compared by `simp`, not only by `rfl`). -/

/-- a call `m` that may raise: `onErr e` when it raised `e`, `onOk v` with its value -/
def tryCatch {ε α β : Type} (m : Except ε α) (onErr : ε → β) (onOk : α → β) : β :=
  match m with
  | .error e => onErr e
  | .ok v => onOk v

@[simp] theorem tryCatch_ok {ε α β : Type} (v : α) (onErr : ε → β) (onOk : α → β) :
    tryCatch (.ok v) onErr onOk = onOk v := rfl
@[simp] theorem tryCatch_error {ε α β : Type} (e : ε) (onErr : ε → β) (onOk : α → β) :
    tryCatch (.error e : Except ε α) onErr onOk = onErr e := rfl

/-- after a loop that may exit early (`return` / `raise` in its body): the exit value, or the continuation -/
def onExit {ρ β : Type} (r : Option ρ) (exit : ρ → β) (cont : β) : β :=
  match r with
  | some v => exit v
  | none => cont

@[simp] theorem onExit_some {ρ β : Type} (v : ρ) (exit : ρ → β) (cont : β) : onExit (some v) exit cont = exit v := rfl
@[simp] theorem onExit_none {ρ β : Type} (exit : ρ → β) (cont : β) : onExit (none : Option ρ) exit cont = cont := rfl

end MenpoModel.Py
