/- Vocabulary shared by every file written by harness/py2lean2.py: a Python `for` loop over a list, as a left fold
   whose arguments come in the order  state, iterable, body  (so that Lean knows the type of the loop-carried state
   before it elaborates the body).  No Mathlib. -/
namespace MenpoModel.Py

/-- `for it in xs: acc = f acc it`, starting from `init` -/
def forLoop {σ α : Type} (init : σ) (xs : List α) (f : σ → α → σ) : σ := xs.foldl f init

@[simp] theorem forLoop_eq_foldl {σ α : Type} (init : σ) (xs : List α) (f : σ → α → σ) :
    forLoop init xs f = xs.foldl f init := rfl

theorem forLoop_nil {σ α : Type} (init : σ) (f : σ → α → σ) : forLoop init [] f = init := rfl

theorem forLoop_cons {σ α : Type} (init : σ) (x : α) (xs : List α) (f : σ → α → σ) :
    forLoop init (x :: xs) f = forLoop (f init x) xs f := rfl

/-- once a loop has exited (`stop s`), the remaining iterations of a guarded body are the identity -/
theorem forLoop_stopped {σ α : Type} (stop : σ → Bool) (g : σ → α → σ) (s : σ) (xs : List α) (h : stop s = true) :
    forLoop s xs (fun acc it => if stop acc then acc else g acc it) = s := by
  induction xs with
  | nil => rfl
  | cons x xs ih => simp only [forLoop_cons, h, if_true]; exact ih

end MenpoModel.Py
