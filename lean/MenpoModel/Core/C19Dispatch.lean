/-
C19 — argument dispatch of `LazyList.__getitem__`, `LazyList.map` and `LazyList.__add__`, as decision tables
over the *features* of the argument the code tests (`isinstance(x, Iterable)`, `isinstance(x, int)`,
`hasattr(x, '__index__')`, `callable(x)`, `len(x)`, `isinstance(x, LazyList)`) and what CPython's `list` does
with it.  The features and the observed outcome of every catalogued argument kind are regenerated from the
live code on every run (`Generated/C19Tables.lean`); `GenProps/C19.lean` re-proves that the branches below
reproduce every observed outcome.  Core Lean only.
-/

namespace MenpoModel.LazyList

/-- what `list.__getitem__(x)` does with the argument on an ordinary list of the same length -/
inductive ListAcc | index | slice | typeErr | valueErr | indexErr
deriving Repr, DecidableEq

inductive Outcome | element | newList | typeError | valueError | indexError
deriving Repr, DecidableEq

structure GetFeat where
  iterable : Bool        -- isinstance(x, collections.abc.Iterable)
  isInt : Bool           -- isinstance(x, int)
  hasIndex : Bool        -- hasattr(x, '__index__')
  zeroDim : Bool         -- getattr(x, 'ndim', None) == 0
  iterRaises : Bool      -- iter(x) / next raises TypeError (numpy: "iteration over a 0-d array")
  itemsOk : Bool         -- every item iteration yields is accepted by list.__getitem__ and in range
  itemsIndexErr : Bool   -- … the first item refused is refused with IndexError (else TypeError)
  listAcc : ListAcc      -- list.__getitem__(x)
deriving Repr, DecidableEq

def outcomeOfList : ListAcc → Outcome
  | .index => .element
  | .slice => .newList
  | .typeErr => .typeError
  | .valueErr => .valueError
  | .indexErr => .indexError

/-- `LazyList.__getitem__` as coded: iterable first, then integer-like, then "let list handle it" -/
def getitemCoded (f : GetFeat) : Outcome :=
  if f.iterable then
    (if f.iterRaises then .typeError
     else if f.itemsOk then .newList
     else if f.itemsIndexErr then .indexError else .typeError)
  else if f.isInt || f.hasIndex then outcomeOfList f.listAcc
  else match f.listAcc with
    | .index => .newList      -- unreachable: nothing without `__index__` is accepted as an index
    | a => outcomeOfList a

/-- the repaired dispatch: a 0-dimensional array is integer-like, not a container -/
def getitemRepaired (f : GetFeat) : Outcome :=
  if f.iterable && !f.zeroDim then
    (if f.iterRaises then .typeError
     else if f.itemsOk then .newList
     else if f.itemsIndexErr then .indexError else .typeError)
  else if f.isInt || f.hasIndex then outcomeOfList f.listAcc
  else match f.listAcc with
    | .index => .newList
    | a => outcomeOfList a

/-- the features of a 0-dimensional integer array (`np.array(2)`): a registered `Iterable` whose iteration
raises, with `__index__`, accepted by `list.__getitem__` as an index -/
def zeroDFeat : GetFeat :=
  { iterable := true, isInt := false, hasIndex := true, zeroDim := true, iterRaises := true,
    itemsOk := false, itemsIndexErr := false, listAcc := .index }

structure GetRow where
  name : String
  feat : GetFeat
  observed : Outcome
  evaluated : Nat        -- how many element callables the call invoked
deriving Repr, DecidableEq

/-! ### `map(f)` -/

inductive MapOutcome | each | single | valueError | typeError
deriving Repr, DecidableEq

structure MapFeat where
  iterable : Bool      -- isinstance(f, Iterable)
  callable : Bool      -- callable(f)
  hasLen : Bool        -- len(f) works
  lenMatches : Bool    -- len(f) == len(self)
deriving Repr, DecidableEq

def mapCoded (f : MapFeat) : MapOutcome :=
  if f.iterable && f.callable then .valueError
  else if f.iterable then
    (if !f.hasLen then .typeError else if f.lenMatches then .each else .valueError)
  else .single          -- anything else is wrapped lazily, callable or not

structure MapRow where
  name : String
  feat : MapFeat
  observed : MapOutcome
  evaluated : Nat
deriving Repr, DecidableEq

/-! ### `self + other` -/

inductive AddOutcome | concat | wrap | valueError
deriving Repr, DecidableEq

structure AddFeat where
  isLazy : Bool        -- isinstance(other, LazyList)
  iterable : Bool      -- isinstance(other, Iterable)
deriving Repr, DecidableEq

def addCoded (f : AddFeat) : AddOutcome :=
  if f.isLazy then .concat else if f.iterable then .wrap else .valueError

structure AddRow where
  name : String
  feat : AddFeat
  observed : AddOutcome
  evaluated : Nat
deriving Repr, DecidableEq

end MenpoModel.LazyList
