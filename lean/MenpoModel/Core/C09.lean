/-
C09 — apply() is pure: batching, the piecewise-affine failure mask, and the CachedPWA memo.
Core Lean only.  Transcribed from menpo/transform/base/__init__.py (`_apply_batched`) and
menpo/transform/piecewiseaffine/base.py (`AbstractPWA._apply_batched`, `CachedPWA.index_alpha_beta`).
-/

namespace MenpoModel.C09

/-! ### batching: `for lo in range(0, n, k): outputs.append(_apply(x[lo:lo+k]))`, then `vstack` -/

def chunks {α} (k : Nat) : Nat → List α → List (List α)
  | 0, _ => []
  | _, [] => []
  | fuel+1, xs => xs.take k :: chunks k fuel (xs.drop k)

/-- the batches `range(0, n, k)` produces (fuel = n + 1 is always enough) -/
def batches {α} (k : Nat) (xs : List α) : List (List α) := chunks k (xs.length + 1) xs

def applyBatched {α β} (f : List α → List β) (k : Nat) (xs : List α) : List β :=
  (batches k xs).flatMap f

/-! ### piecewise affine: a point is in the domain or not; one `_apply` either maps all its points
or raises `TriangleContainmentError(mask)` with `mask[i] = point i is outside` -/

structure Pwa (α β : Type) where
  inDom : α → Bool
  f : α → β

def Pwa.apply {α β} (d : Pwa α β) (xs : List α) : Except (List Bool) (List β) :=
  if xs.all d.inDom then .ok (xs.map d.f) else .error (xs.map fun x => !d.inDom x)

/-- the loop of `AbstractPWA._apply_batched`; `pad c` is the number of `False` entries a
successful batch `c` contributes to the failure mask -/
def foldBatches {α β} (d : Pwa α β) (pad : List α → Nat) : List (List α) → List β × List Bool × Bool
  | [] => ([], [], false)
  | c :: cs =>
    let (o, m, t) := foldBatches d pad cs
    match d.apply c with
    | .ok r => (r ++ o, List.replicate (pad c) false ++ m, t)
    | .error e => (o, e ++ m, true)

def finishBatches {β} : List β × List Bool × Bool → Except (List Bool) (List β)
  | (o, m, t) => if t then .error m else .ok o

/-- coded before the repair: a successful batch contributes `np.zeros(batch_size)` -/
def batchedCoded {α β} (d : Pwa α β) (k : Nat) (xs : List α) : Except (List Bool) (List β) :=
  finishBatches (foldBatches d (fun _ => k) (batches k xs))

/-- repaired: a successful batch contributes one `False` per point it holds -/
def batchedFixed {α β} (d : Pwa α β) (k : Nat) (xs : List α) : Except (List Bool) (List β) :=
  finishBatches (foldBatches d List.length (batches k xs))

/-! ### the memo of `CachedPWA.index_alpha_beta` as a state machine over the caller's arrays -/

/-- caller-side operations: apply the transform to array `a`; overwrite array `a` in place -/
inductive Op (Val : Type) where
  | apply (a : Nat)
  | write (a : Nat) (v : Val)

def update {Val} (h : Nat → Val) (a : Nat) (v : Val) : Nat → Val := fun b => if b = a then v else h b

/-- coded before the repair: the memo keeps a *reference* to the caller's array and hits when
`shape equal ∧ allclose(points, applied_points)` (`close`); a raising computation leaves it unchanged -/
structure StCoded (Val Res : Type) where
  heap : Nat → Val
  memo : Option (Nat × Res)

def stepCoded {Val Res Err} (close : Val → Val → Bool) (compute : Val → Except Err Res)
    (s : StCoded Val Res) : Op Val → StCoded Val Res × Option (Except Err Res)
  | .write a v => ({ s with heap := update s.heap a v }, none)
  | .apply a =>
    let hit : Option Res := match s.memo with
      | some (r, res) => if close (s.heap a) (s.heap r) then some res else none
      | none => none
    match hit with
    | some res => (s, some (.ok res))
    | none => match compute (s.heap a) with
      | .ok res => ({ s with memo := some (a, res) }, some (.ok res))
      | .error e => (s, some (.error e))

/-- repaired: the memo owns a copy of the points and hits on exact equality only -/
structure StFixed (Val Res : Type) where
  heap : Nat → Val
  memo : Option (Val × Res)

def stepFixed {Val Res Err} [DecidableEq Val] (compute : Val → Except Err Res)
    (s : StFixed Val Res) : Op Val → StFixed Val Res × Option (Except Err Res)
  | .write a v => ({ s with heap := update s.heap a v }, none)
  | .apply a =>
    let hit : Option Res := match s.memo with
      | some (v, res) => if s.heap a = v then some res else none
      | none => none
    match hit with
    | some res => (s, some (.ok res))
    | none => match compute (s.heap a) with
      | .ok res => ({ s with memo := some (s.heap a, res) }, some (.ok res))
      | .error e => (s, some (.error e))

/-- run a history, collecting what every `apply` returned together with the value of the array at
that moment (what a stateless transform would be given) -/
def runFixed {Val Res Err} [DecidableEq Val] (compute : Val → Except Err Res) :
    StFixed Val Res → List (Op Val) → List (Val × Except Err Res)
  | _, [] => []
  | s, op :: ops =>
    let (s', out) := stepFixed compute s op
    match op, out with
    | .apply a, some r => (s.heap a, r) :: runFixed compute s' ops
    | _, _ => runFixed compute s' ops

def runCoded {Val Res Err} (close : Val → Val → Bool) (compute : Val → Except Err Res) :
    StCoded Val Res → List (Op Val) → List (Val × Except Err Res)
  | _, [] => []
  | s, op :: ops =>
    let (s', out) := stepCoded close compute s op
    match op, out with
    | .apply a, some r => (s.heap a, r) :: runCoded close compute s' ops
    | _, _ => runCoded close compute s' ops

end MenpoModel.C09

namespace MenpoModel.C09

/-! ### transforms as state machines over their instance attributes

`step s x = (s', y)`: applying the transform whose instance attributes are `s` to input `x` leaves the
attributes `s'` and returns `y`.  For every class but the caching piecewise affine the regenerated table
`Generated.C09Writes` (extracted from live objects on every run) says that `apply` writes no attribute. -/

structure Machine (S I O : Type) where
  step : S → I → S × O

def Machine.run {S I O} (m : Machine S I O) : S → List I → List O
  | _, [] => []
  | s, x :: xs => (m.step s x).2 :: m.run (m.step s x).1 xs

/-- class name ↦ instance attributes written (rebound, added or modified in place) by `apply` -/
abbrev WriteTable := List (String × List String)

/-- what the model assumes of menpo's transform classes: only the caching piecewise affine keeps a memo -/
def expectedApplyWrites : WriteTable :=
  [("Affine", []), ("AlignmentAffine", []), ("AlignmentRotation", []), ("AlignmentSimilarity", []),
   ("AlignmentTranslation", []), ("AlignmentUniformScale", []), ("CachedPWA", ["_applied_points", "_iab"]),
   ("Homogeneous", []), ("NonUniformScale", []), ("PythonPWA", []), ("R2LogR2RBF", []), ("R2LogRRBF", []),
   ("Rotation", []), ("Similarity", []), ("ThinPlateSplines", []), ("TransformChain", []), ("Translation", []),
   ("UniformScale", []), ("WithDims", [])]

/-- subclasses of `Transform` that the write table need not cover: abstract bases without a usable `_apply` -/
def expectedUncovered : List String := ["AbstractPWA", "ComposableTransform", "RadialBasisFunction"]

/-- places other than instance attributes where state could survive between two `apply` calls
(kind, module, name): mutable module globals, mutable class attributes, mutable default arguments, function
attributes, memoising wrappers, closures over mutable cells — in menpo/transform/** and menpo/image/boolean.py.
The model assumes there is none. -/
abbrev HiddenState := List (String × String × String)
def expectedHiddenState : HiddenState := []

/-! ### the memo as the two attributes it is: `_applied_points` (key) and `_iab` (value), written one after the other -/

structure St2 (Val Res : Type) where
  heap : Nat → Val
  key : Option Val
  iab : Option Res

/-- `CachedPWA.index_alpha_beta`.  `keyFirst = false` is the code: `_iab` is computed first ("This must happen
first in case index_alpha_beta throws"), then the private copy of the points is stored.  `keyFirst = true` stores
the key before computing, so a raising computation leaves the new key next to the old value. -/
def step2 {Val Res Err} [DecidableEq Val] (keyFirst : Bool) (compute : Val → Except Err Res)
    (s : St2 Val Res) : Op Val → St2 Val Res × Option (Except Err (Option Res))
  | .write a v => ({ s with heap := update s.heap a v }, none)
  | .apply a =>
    if s.key = some (s.heap a) then (s, some (.ok s.iab))
    else if keyFirst then
      let s1 := { s with key := some (s.heap a) }
      match compute (s.heap a) with
      | .ok res => ({ s1 with iab := some res }, some (.ok (some res)))
      | .error e => (s1, some (.error e))
    else
      match compute (s.heap a) with
      | .ok res => ({ s with iab := some res, key := some (s.heap a) }, some (.ok (some res)))
      | .error e => (s, some (.error e))

def run2 {Val Res Err} [DecidableEq Val] (keyFirst : Bool) (compute : Val → Except Err Res) :
    St2 Val Res → List (Op Val) → List (Val × Except Err (Option Res))
  | _, [] => []
  | s, op :: ops =>
    let (s', out) := step2 keyFirst compute s op
    match op, out with
    | .apply a, some r => (s.heap a, r) :: run2 keyFirst compute s' ops
    | _, _ => run2 keyFirst compute s' ops

end MenpoModel.C09
