/-
C18 — the table of observed effects of every exported feature on live images (regenerated from /repo on every run
into `Generated/C18Table.lean`), and sequences of decorated features (feature of feature).
Core Lean only.
-/
import MenpoModel.Core.C18Feature

namespace MenpoModel.C18

inductive Kind where
  | plain        -- menpo.image.Image
  | masked       -- menpo.image.MaskedImage
  | other        -- anything else
deriving DecidableEq, Repr

/-- one measured call `feature(image)` on a live image whose pixel buffer is read-only -/
structure FeatRow where
  feature : String            -- exported name, or `a>b` for the composition `b(a(image))`
  inKind : Kind
  returned : Bool             -- the call returned (a write into the read-only input buffer would raise)
  outKind : Kind
  writes : List String        -- instance attributes of the INPUT image whose deep digest changed (pixels, mask, landmarks)
  sharesPixels : Bool         -- np.shares_memory(result.pixels, input.pixels)
  sharesMask : Bool           -- … of the two mask buffers
  sharesLandmarks : Bool      -- … of any landmark point buffer
  keysKept : Bool             -- landmark group keys (in order) and group classes of the result = those of the input
deriving DecidableEq, Repr

/-- what "never modifies its input, returns an image of the same kind that still carries the landmarks and mask"
says about one measured row.  (The three `shares…` columns are recorded for information: a result that aliases its
input would not by itself modify it.) -/
def FeatRow.ok (r : FeatRow) : Bool :=
  r.returned && (r.outKind == r.inKind) && r.writes.isEmpty && r.keysKept &&
    (r.feature != "no_op" || !r.sharesPixels)      -- `no_op` is documented to return a COPY of the pixels

/-- the exported features the property quantifies over (those that import in this environment are measured) -/
def exportedFeatures : List String :=
  ["gradient", "gaussian_filter", "igo", "double_igo", "es", "daisy", "no_op", "normalize", "normalize_std",
   "normalize_norm", "normalize_var", "sum_channels"]

/-- exported only when an optional dependency (cyvlfeat) is installed; `@winitfeature`, proved generically -/
def optionalFeatures : List String :=
  ["dsift", "fast_dsift", "vector_128_dsift", "hellinger_vector_128_dsift", "hog", "sparse_hog", "lbp"]

/-- every decorated feature that `menpo.feature` exports now is one this model knows about -/
def allKnown (live : List String) : Bool :=
  live.all fun f => exportedFeatures.contains f || optionalFeatures.contains f

/-- every exported feature is measured on both image kinds -/
def covers (rows : List FeatRow) : Bool :=
  exportedFeatures.all fun f => [Kind.plain, Kind.masked].all fun k => rows.any fun r => r.feature == f && r.inKind == k

/-! ### sequences of decorated features -/

section seq
variable {P : Type} (sh : P → List Nat)

/-- `fₙ(… f₂(f₁(image)))`, every `fᵢ` an `@ndfeature` -/
def runFeatures : List (P → Except Err P) → Img P → Except Err (Img P)
  | [], im => .ok im
  | f :: fs, im =>
    match ndfeature sh f (.img im) with
    | .ok (.img r) => runFeatures fs r
    | .ok (.arr _) => .error .dims          -- not reachable: an image call returns an image
    | .error e => .error e

/-- the same features on the raw array -/
def runArrays : List (P → Except Err P) → P → Except Err P
  | [], p => .ok p
  | f :: fs, p =>
    match f p with
    | .ok q => runArrays fs q
    | .error e => .error e

end seq

/-- buffer level: a sequence of store-level features through `ndfeatureS` -/
def runFeaturesS (sh : Chans → List Nat) : List SFeat → Store → SImg → Except Err (Store × SImg)
  | [], s, im => .ok (s, im)
  | f :: fs, s, im =>
    match ndfeatureS sh f s im with
    | .ok (s', r) => runFeaturesS sh fs s' r
    | .error e => .error e

end MenpoModel.C18
