/-
C17 — mesh objects on a heap: what `from_mask` / `from_tri_mask` do to OBJECTS and ARRAYS rather than to values
(no Mathlib).  Used by the second, heap-level translation of the three `from_mask` bodies and of `from_tri_mask`
(harness/trans_c17.py, `Generated/C17Src.lean`, obligations in `GenProps/C17SrcHeap.lean`).

  * an array is a cell of `World.arrs` (its address is its position); a mesh object is a cell of `World.objs`
    holding, per attribute, the ADDRESS of the array bound to it.  The attributes: `points`, `trilist`, `colours`
    (ColouredTriMesh), `tcoords.points` (TexturedTriMesh: the PointCloud held by `tcoords` is collapsed onto its
    array), `texture.pixels` (the Image held by `texture`, collapsed likewise) and one array per landmark group
    (`landmarks[label].points`: manager and group objects collapsed likewise);
  * an array-valued EXPRESSION evaluates to its content together with its origin: `some a` when the expression
    denotes the existing cell `a` itself (an attribute read), `none` when numpy computes a new array (boolean / fancy
    indexing, a function result).  Binding an attribute to a value with an origin ALIASES that cell; binding it to a
    fresh value allocates a new cell — so an assignment such as `tm.points = self.points` would be visible as sharing;
  * `obj.copy()` (Copyable.copy: numpy arrays and nested Copyable objects are copied deeply — property C06, whose
    theorems this rule stands on) allocates a copy of every array the object holds and a new object cell.
-/
import MenpoModel.Core.C17Np

namespace MenpoModel.C17.Heap

/-- the content of an array cell: a per-vertex / pixel / landmark array (rows of any type) or an integer array -/
inductive Arr (α : Type)
  | rows (l : List α)
  | idx (l : List (List Nat))
  deriving Repr, DecidableEq

instance {α : Type} : Inhabited (Arr α) := ⟨.rows []⟩

/-- the attributes of a mesh object that hold arrays -/
inductive Fld
  | points | trilist | colours | tcoords | texture
  | lm (label : String)
  deriving Repr, DecidableEq

/-- a mesh object: its class, `n_dims`, and the address of the array bound to each attribute -/
structure MObj where
  kind : Kind
  ndims : Nat
  fields : List (Fld × Nat)
  deriving Repr, DecidableEq

instance : Inhabited MObj := ⟨{ kind := .plain, ndims := 0, fields := [] }⟩

structure World (α : Type) where
  arrs : List (Arr α)
  objs : List MObj
  deriving Repr

/-- the value of an array expression with rows: content and origin -/
structure RVal (α : Type) where
  val : List α
  org : Option Nat

/-- the value of an integer-array expression -/
structure IVal where
  val : List (List Nat)
  org : Option Nat

def RVal.fresh {α : Type} (l : List α) : RVal α := ⟨l, none⟩
def IVal.fresh (l : List (List Nat)) : IVal := ⟨l, none⟩

variable {α : Type}

def Arr.toRows : Arr α → List α
  | .rows l => l
  | .idx _ => []
def Arr.toIdx : Arr α → List (List Nat)
  | .rows _ => []
  | .idx l => l

/-- the address bound to attribute `f` of object `o` -/
def World.addr (w : World α) (o : Nat) (f : Fld) : Option Nat := ((w.objs.getD o default).fields.lookup f)

/-- the content of the array bound to attribute `f` of object `o` (empty when the object has no such attribute) -/
def World.cell (w : World α) (o : Nat) (f : Fld) : Arr α :=
  match w.addr o f with
  | some a => w.arrs.getD a default
  | none => default

/-- `o.points`, `o.colours`, `o.tcoords.points` as expressions -/
def World.getRows (w : World α) (o : Nat) (f : Fld) : RVal α := ⟨(w.cell o f).toRows, w.addr o f⟩
/-- `o.trilist` as an expression -/
def World.getIdx (w : World α) (o : Nat) : IVal := ⟨(w.cell o .trilist).toIdx, w.addr o .trilist⟩

/-- rebinding one attribute -/
def setAssoc (fs : List (Fld × Nat)) (f : Fld) (a : Nat) : List (Fld × Nat) :=
  if fs.any (fun p => p.1 == f) then fs.map (fun p => if p.1 == f then (f, a) else p) else fs ++ [(f, a)]

/-- `o.f = <array cell content c with origin org>` -/
def World.bind (w : World α) (o : Nat) (f : Fld) (c : Arr α) (org : Option Nat) : World α :=
  match org with
  | some a => { w with objs := w.objs.modify o (fun ob => { ob with fields := setAssoc ob.fields f a }) }
  | none => { arrs := w.arrs ++ [c],
              objs := w.objs.modify o (fun ob => { ob with fields := setAssoc ob.fields f w.arrs.length }) }

def World.setRows (w : World α) (o : Nat) (f : Fld) (v : RVal α) : World α := w.bind o f (.rows v.val) v.org
def World.setIdx (w : World α) (o : Nat) (v : IVal) : World α := w.bind o .trilist (.idx v.val) v.org

/-- `o.copy()`: a new object of the same class holding a fresh copy of every array `o` holds -/
def World.copyObj (w : World α) (o : Nat) : Nat × World α :=
  let ob := w.objs.getD o default
  (w.objs.length,
   { arrs := w.arrs ++ ob.fields.map (fun p => w.arrs.getD p.2 default),
     objs := w.objs ++ [{ ob with fields := ob.fields.zipIdx.map (fun q => (q.1.1, w.arrs.length + q.2)) }] })

/-- the arrays of an object as the value-level methods see them -/
def World.view (w : World α) (o : Nat) : NMesh α α α :=
  { ndims := (w.objs.getD o default).ndims,
    points := (w.cell o .points).toRows, colours := (w.cell o .colours).toRows,
    tcoords := (w.cell o .tcoords).toRows, trilist := (w.cell o .trilist).toIdx }

/-- the attributes masking must carry along untouched: the texture pixels and the landmark groups -/
def Fld.isExtra : Fld → Bool
  | .texture => true
  | .lm _ => true
  | _ => false

/-- what masking must carry along untouched: the texture pixels and every landmark group, by label, with content -/
def World.extras (w : World α) (o : Nat) : List (Fld × Arr α) :=
  ((w.objs.getD o default).fields.filter (fun p => p.1.isExtra)).map (fun p => (p.1, w.arrs.getD p.2 default))

/-- the addresses an object holds -/
def World.owned (w : World α) (o : Nat) : List Nat := (w.objs.getD o default).fields.map (fun p => p.2)

/-- every object only holds addresses of existing cells -/
def World.Valid (w : World α) : Prop := ∀ ob ∈ w.objs, ∀ p ∈ ob.fields, p.2 < w.arrs.length

/-- an in-place write into the array cell `a` (`arr[...] = …` through any reference to it) -/
def World.write (w : World α) (a : Nat) (c : Arr α) : World α := { w with arrs := w.arrs.set a c }

end MenpoModel.C17.Heap
