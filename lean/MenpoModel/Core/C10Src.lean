/-
C10 — vocabulary of the TRANSLATED source (`Generated/C10Src.lean`, rewritten by harness/trans_c10.py from the source
text of menpo/model/pca.py, menpo/model/linear.py and menpo/model/vectorizable.py on every `./check C10`).

Core Lean only (no Mathlib).  Three things live here:

* `PyVal` — a Python value as the bookkeeping code distinguishes them (`None`, python `int`, python `float`,
  numpy integer): `isinstance` tests, comparisons, `min`, `+`, `int(..)` on them, so that the translated
  `n_active_components` setter keeps Python's dynamic typing (`min(np.sum([...]) + 1, self.n_components)` is a
  numpy integer or a python int depending on which operand wins, and the `isinstance(value, int)` block that follows
  behaves accordingly);
* `Fl` — what the float64 evaluation of `_total_variance_ratio()` / `_total_eigenvalues_cumulative_ratio()` returned
  (the two quantities the variance-fraction form compares the request with; `Fl.exact` = exact arithmetic);
* `NP` / `Plumb` — the constructors' plumbing: arrays are symbolic values of a type `A`, `menpo.math.pca`,
  `pcacov`, `as_matrix`, `np.zeros(mean.shape)` … are the fields of an environment `NP A` (contract parameters of
  the model, DESIGN §2.1), an instance under construction is a `Plumb A` = the bookkeeping state `St` plus the
  attributes the constructors write (`_components`, `_mean`, `centred`, `n_samples`, `template_instance`).
  `Src.ctorHelper`, `Src.vecInit`, … are the hand-written Core definitions the translated constructors are proved
  equal to; `Props/C10.lean` relates them to `build`.
-/
import MenpoModel.Core.C10Book

namespace MenpoModel.C10.Src
open MenpoModel.C10

/-- a Python value, by the types the bookkeeping code tests for -/
inductive PyVal
  | none
  | int (k : Int)      -- python int
  | float (r : Rat)    -- python float
  | npint (k : Int)    -- numpy integer: neither `float` nor `int` for `isinstance`
deriving Repr, DecidableEq

namespace PyVal

/-- `isinstance(v, float)` -/
def isFloat : PyVal → Bool
  | .float _ => true
  | _ => false

/-- `isinstance(v, int)` -/
def isInt : PyVal → Bool
  | .int _ => true
  | _ => false

/-- `v is None` -/
def isNone : PyVal → Bool
  | .none => true
  | _ => false

/-- the number a value stands for (`None` compares like nothing: every comparison with it is false, which sends the
code to its `raise` statements; Python raises `TypeError` there) -/
def toRat : PyVal → Rat
  | .none => 0
  | .int k => k
  | .float r => r
  | .npint k => k

/-- `int(v)` -/
def toInt : PyVal → Int
  | .none => 0
  | .int k => k
  | .float r => if 0 ≤ r then r.floor else r.ceil
  | .npint k => k

def toNat (v : PyVal) : Nat := v.toInt.toNat

def lt (a b : PyVal) : Prop := a ≠ .none ∧ b ≠ .none ∧ a.toRat < b.toRat
def le (a b : PyVal) : Prop := a ≠ .none ∧ b ≠ .none ∧ a.toRat ≤ b.toRat

instance : LT PyVal := ⟨lt⟩
instance : LE PyVal := ⟨le⟩
instance (a b : PyVal) : Decidable (a < b) := inferInstanceAs (Decidable (a ≠ .none ∧ b ≠ .none ∧ a.toRat < b.toRat))
instance (a b : PyVal) : Decidable (a ≤ b) := inferInstanceAs (Decidable (a ≠ .none ∧ b ≠ .none ∧ a.toRat ≤ b.toRat))

/-- integer literals of the source are python ints -/
instance (n : Nat) : OfNat PyVal n := ⟨.int n⟩
/-- float expressions of the source (ratios, float literals) compared with / assigned to a value -/
instance : Coe Rat PyVal := ⟨.float⟩

/-- Python's `min(a, b)`: `b` if `b < a`, else `a` — the *object*, so the type tag of the winner is kept -/
def pmin (a b : PyVal) : PyVal := if b < a then b else a

/-- `a + b` on integers: a numpy operand makes the result numpy -/
def add : PyVal → PyVal → PyVal
  | .int x, .int y => .int (x + y)
  | .npint x, .int y => .npint (x + y)
  | .int x, .npint y => .npint (x + y)
  | .npint x, .npint y => .npint (x + y)
  | a, b => .float (a.toRat + b.toRat)

/-- `a - b` on integers -/
def sub : PyVal → PyVal → PyVal
  | .int x, .int y => .int (x - y)
  | .npint x, .int y => .npint (x - y)
  | .int x, .npint y => .npint (x - y)
  | .npint x, .npint y => .npint (x - y)
  | a, b => .float (a.toRat - b.toRat)

instance : HAdd PyVal PyVal PyVal := ⟨add⟩
instance : HSub PyVal PyVal PyVal := ⟨sub⟩

/-- `np.sum([b₁, …])` of a list of Booleans: a numpy integer -/
def npSumBools (l : List Bool) : PyVal := .npint ((l.filter id).length : Int)

end PyVal

/-- numpy broadcasting `array / scalar`, `array * scalar` -/
instance : HDiv (List Rat) Rat (List Rat) := ⟨fun l x => l.map (· / x)⟩

/-- `np.allclose(x, 0)`: `|x| ≤ 1e-8` -/
def allclose0 (x : Rat) : Bool := decide ((if x < 0 then -x else x) ≤ 1 / 100000000)

/-- the values the float64 evaluation of the two ratios of the variance-fraction form returned, as functions of the
model state -/
structure Fl where
  /-- `_total_variance_ratio()` -/
  tvr : St → Rat
  /-- `_total_eigenvalues_cumulative_ratio()` -/
  cum : St → List Rat

/-- exact arithmetic -/
def Fl.exact : Fl := ⟨St.totalVarianceRatio, St.totalCumRatio⟩

/-- what the driver is told: the observed values of one call -/
def Fl.const (tvr : Rat) (cum : List Rat) : Fl := ⟨fun _ => tvr, fun _ => cum⟩

/-- the argument of the Core setter that a Python value stands for (the code carries the repaired float form: count
clamped to `n_components`; `None` never reaches the setter from `trim_components` / the constructors — assigned
directly it raises, like the numpy integer 0) -/
def PyVal.toVal (fl : Fl) (s : St) : PyVal → Val
  | .none => .npint 0
  | .int k => .int k
  | .float r => .floatObsClamped r (fl.tvr s) (fl.cum s)
  | .npint k => .npint k

/-- the argument of the Core `trim` / of `build` -/
def PyVal.toOptVal (fl : Fl) (s : St) : PyVal → Option Val
  | .none => Option.none
  | v => some (v.toVal fl s)

/-! ### `orthonormalize_against_inplace`: what the bookkeeping sees of the arrays -/

/-- the other model: `n_components` rows of `n_features` columns -/
structure Other where
  k1 : Nat
  d : Nat
deriving Repr, DecidableEq

/-- `linear_model.components = V` (`LinearVectorModel.components` setter) where `V` has `vrows` rows:
`ValueError` unless the shape is unchanged -/
def Other.setComponentsRows (o : Other) (vrows : Nat) : Except Err Other :=
  if vrows = o.k1 then .ok o else .error .value

/-- `self.components = V` (`PCAVectorModel.components` setter), `V` with `vrows` rows: shape check only (the values
of the components are not bookkeeping) -/
def setComponentsRows (s : St) (vrows : Nat) : Except Err St :=
  if vrows = s.rows then .ok s else .error .value

/-! ### constructors: symbolic arrays -/

/-- the library calls of the constructors (contract parameters): arrays / sample lists / templates are values of `A` -/
structure NP (A : Type) where
  /-- `menpo.math.pca(X, centre=, inplace=, eps=)` ↦ `(eigenvectors, eigenvalues, mean)` -/
  pca : A → Bool → Bool → Rat → A × A × A
  /-- `menpo.math.pcacov(C, is_inverse=, eps=)` ↦ `(eigenvectors, eigenvalues)` -/
  pcacov : A → Bool → Rat → A × A
  /-- `np.zeros(m.shape, dtype=m.dtype)` -/
  zerosLike : A → A
  /-- `a.shape[0]` -/
  shape0 : A → Nat
  /-- a 1-D array as a list -/
  values : A → List Rat
  /-- `len(x)` -/
  len : A → Nat
  /-- `isinstance(x, np.ndarray)` -/
  isArray : A → Bool
  /-- `np.array(x)[:n]` -/
  arrayPrefix : A → PyVal → A
  /-- `menpo.math.as_matrix(samples, length=, return_template=)` ↦ `(data, template)` -/
  asMatrix : A → PyVal → Bool → A × A
  /-- `x.as_vector()` -/
  asVector : A → A

/-- an instance while its constructor runs: the bookkeeping state plus the attributes the constructors write.
`comps` is the array handed to `LinearVectorModel.__init__`; `_components` is its leading `rows` rows. -/
structure Plumb (A : Type) extends St where
  comps : Option A
  mean : Option A
  centred : Option Bool
  nSamples : PyVal
  template : Option A

/-- `cls.__new__(cls)`: no attribute yet -/
def Plumb.blank {A : Type} : Plumb A :=
  { rows := 0, eig := [], trimmed := [], nActive := 0, comps := none, mean := none, centred := none,
    nSamples := .none, template := none }

variable {A : Type}

/-- `LinearVectorModel.__init__(self, components)` -/
def linearInit (np : NP A) (self : Plumb A) (components : A) : Plumb A :=
  { self with comps := some components, rows := np.shape0 components }

/-- `MeanLinearVectorModel.__init__(self, components, mean)` -/
def meanLinearInit (np : NP A) (self : Plumb A) (components mean : A) : Plumb A :=
  { linearInit np self components with mean := some mean }

/-- `VectorizableBackedModel.__init__(self, template_instance)` -/
def vbInit (self : Plumb A) (template : A) : Plumb A := { self with template := some template }

/-- `PCAVectorModel._constructor_helper(self, eigenvalues, eigenvectors, mean, centred, max_n_components)`:
components = the eigenvectors, mean = the mean (zeros for an uncentred model), all components active, empty pool,
then the trim to `max_n_components` when one is given -/
def ctorHelper (np : NP A) (fl : Fl) (self : Plumb A) (eigenvalues eigenvectors mean : A) (centred : Bool)
    (maxN : PyVal) : Except Err (Plumb A) :=
  let p : Plumb A :=
    { self with
      comps := some eigenvectors
      mean := some (if centred then mean else np.zerosLike mean)
      centred := some centred
      rows := np.shape0 eigenvectors
      eig := np.values eigenvalues
      trimmed := []
      nActive := np.shape0 eigenvectors }
  match maxN.toOptVal fl p.toSt with
  | Option.none => .ok p
  | some v => (p.toSt.trim (some v)).map fun st => { p with toSt := st }

/-- `PCAVectorModel._data_to_matrix(self, data, n_samples)` -/
def dataToMatrix (np : NP A) (data : A) (nSamples : PyVal) : A × PyVal :=
  let n := if nSamples.isNone then PyVal.int (np.len data) else nSamples
  (if np.isArray data then data else np.arrayPrefix data n, n)

/-- default `eps` of `menpo.math.pca` / `pcacov` -/
def pcaEps : Rat := 1 / 10000000000
def pcacovEps : Rat := 1 / 100000

/-- `PCAVectorModel.__init__(self, samples, centre, n_samples, max_n_components, inplace)` -/
def vecInit (np : NP A) (fl : Fl) (self : Plumb A) (samples : A) (centre : Bool) (nSamples maxN : PyVal)
    (inplace : Bool) : Except Err (Plumb A) :=
  let dm := dataToMatrix np samples nSamples
  let out := np.pca dm.1 centre inplace pcaEps
  ctorHelper np fl { self with nSamples := dm.2 } out.2.1 out.1 out.2.2 centre maxN

/-- `PCAVectorModel.init_from_covariance_matrix(cls, C, mean, n_samples, centred, is_inverse, max_n_components)` -/
def vecFromCov (np : NP A) (fl : Fl) (C mean : A) (nSamples : PyVal) (centred isInverse : Bool) (maxN : PyVal) :
    Except Err (Plumb A) :=
  let out := np.pcacov C isInverse pcacovEps
  ctorHelper np fl { (Plumb.blank : Plumb A) with nSamples := nSamples } out.2 out.1 mean centred maxN

/-- `PCAVectorModel.init_from_components(cls, components, eigenvalues, mean, n_samples, centred, max_n_components)` -/
def vecFromComponents (np : NP A) (fl : Fl) (components eigenvalues mean : A) (nSamples : PyVal) (centred : Bool)
    (maxN : PyVal) : Except Err (Plumb A) :=
  ctorHelper np fl { (Plumb.blank : Plumb A) with nSamples := nSamples } eigenvalues components mean centred maxN

/-- `PCAModel.__init__(self, samples, centre, n_samples, max_n_components, inplace, verbose)`: the data matrix and the
template come from `as_matrix(samples, length=n_samples, return_template=True)`; `n_samples` handed on is the number
of rows of the data matrix; `max_n_components` is handed on as `max_n_components` -/
def objInit (np : NP A) (fl : Fl) (self : Plumb A) (samples : A) (centre : Bool) (nSamples maxN : PyVal)
    (inplace : Bool) : Except Err (Plumb A) :=
  let dt := np.asMatrix samples nSamples true
  (vecInit np fl self dt.1 centre (PyVal.int (np.shape0 dt.1)) maxN inplace).map fun p => vbInit p dt.2

/-- `PCAModel.init_from_covariance_matrix(cls, C, mean, n_samples, centred, is_inverse, max_n_components)`:
`mean` is a `Vectorizable`; its vector is the mean, the object itself the template -/
def objFromCov (np : NP A) (fl : Fl) (C mean : A) (nSamples : PyVal) (centred isInverse : Bool) (maxN : PyVal) :
    Except Err (Plumb A) :=
  (vecFromCov np fl C (np.asVector mean) nSamples centred isInverse maxN).map fun p => vbInit p mean

/-- `PCAModel.init_from_components(cls, components, eigenvalues, mean, n_samples, centred, max_n_components)` -/
def objFromComponents (np : NP A) (fl : Fl) (components eigenvalues mean : A) (nSamples : PyVal) (centred : Bool)
    (maxN : PyVal) : Except Err (Plumb A) :=
  (vecFromComponents np fl components eigenvalues (np.asVector mean) nSamples centred maxN).map fun p => vbInit p mean

end MenpoModel.C10.Src
