/-
C16 — the vocabulary of the TRANSLATED landmark writers / readers and pixel-range conversions (menpo/io/output/landmark.py,
menpo/io/input/landmark.py, menpo/image/base.py) and the SPECIFICATIONS the translations are proved equal to
(`GenProps/C16SrcFmt.lean`).  The specifications are stated with the definitions of `Core/C16.lean` the round-trip
theorems are about (`encodeDoc`, `exportPoints`, `fmt3`, `normQ`, `denormRoundQ` …).
-/
import MenpoModel.Core.C16Src
import MenpoModel.Core.C16Soft
import MenpoModel.Core.C16PtsN

namespace MenpoModel.C16
open PyX

/-! ## 1. `ljson_exporter` -/

/-- what `pointcloud.tojson()` returns (`labels`, `landmarks.connectivity` — absent for a plain PointCloud —,
`landmarks.points`; a coordinate is `none` where `np.isnan` holds) -/
structure LG where
  labels : List (String × List Bool)
  conn : Option (List (Nat × Nat))
  points : List (List (Option Rat))
  deriving Repr

def tojson (s : Shape) : LG := ⟨s.labels, s.conn, s.points⟩

/-- the first argument of the exporter: a shape, or a dictionary / LandmarkManager of shapes -/
inductive LObj where
  | single (s : Shape)
  | multi (gs : List (String × Shape))

/-- `landmarks_object.n_points` -/
def LObj.nPoints : LObj → Except Exc Nat
  | .single s => .ok s.points.length
  | .multi _ => .error .attributeError

/-- `hasattr(landmarks_object, "n_points")` -/
def LObj.hasNPoints : LObj → Bool
  | .single _ => true
  | .multi _ => false

/-- `{"LJSON": landmarks_object}` -/
def LObj.wrap : LObj → LObj
  | .single s => .multi [("LJSON", s)]
  | x => x

/-- `landmark_dict.items()` -/
def LObj.items : LObj → List (String × Shape)
  | .single _ => []
  | .multi gs => gs

/-- `len(points[0])` -/
def rowLen0 {α : Type} (p : List (List α)) : Except Exc Nat :=
  match p with
  | [] => .error .indexError
  | r :: _ => .ok r.length

/-- `f[::2]` -/
def takeEvery2 {α : Type} : List α → List α
  | a :: _ :: t => a :: takeEvery2 t
  | [a] => [a]
  | [] => []

/-- `f[::3]` -/
def takeEvery3 {α : Type} : List α → List α
  | a :: _ :: _ :: t => a :: takeEvery3 t
  | a :: _ => [a]
  | [] => []

/-- `f[a::n]`: every n-th element, starting at index a (`fuel` ≥ length of the list) -/
def everyNth {α : Type} (n : Nat) : Nat → List α → List α
  | 0, _ => []
  | _, [] => []
  | fuel + 1, x :: t => x :: everyNth n fuel (t.drop (n - 1))

def strideFrom {α : Type} (f : List α) (a n : Nat) : List α := everyNth n (f.length + 1) (f.drop a)

/-- the heads and the tails of a list of rows (`none` as soon as one row is empty) -/
def splitHeads {α : Type} : List (List α) → Option (List α × List (List α))
  | [] => some ([], [])
  | [] :: _ => none
  | (x :: r) :: rest => match splitHeads rest with
    | none => none
    | some (hs, ts) => some (x :: hs, r :: ts)

def transposeF {α : Type} : Nat → List (List α) → List (List α)
  | 0, _ => []
  | n + 1, rows => match splitHeads rows with
    | none => []
    | some (hs, ts) => hs :: transposeF n ts

/-- `list(zip(*rows))`: the columns, as long as the shortest row (no rows: nothing) -/
def transposeRows {α : Type} (rows : List (List α)) : List (List α) :=
  match rows with
  | [] => []
  | r :: _ => transposeF r.length rows

/-- `list(zip(a, b))` -/
def zipRows2 {α : Type} (a b : List α) : List (List α) := List.zipWith (fun x y => [x, y]) a b

/-- `list(zip(a, b, c))` -/
def zipRows3 {α : Type} : List α → List α → List α → List (List α)
  | x :: a, y :: b, z :: c => [x, y, z] :: zipRows3 a b c
  | _, _, _ => []

/-- `d[k] = v` on a dictionary kept as an association list in insertion order -/
def dictSet {β : Type} (d : List (String × β)) (k : String) (v : β) : List (String × β) :=
  if d.any (fun p => p.1 == k) then d.map fun p => if p.1 == k then (k, v) else p else d ++ [(k, v)]

def dictOfList {β : Type} (l : List (String × β)) : List (String × β) := l.foldl (fun d p => dictSet d p.1 p.2) []

/-- the dictionary `ljson` of the exporter -/
structure LDoc where
  version : Nat
  groups : List (String × LG)

/-- `json.dump(…, sort_keys=True)` of one group -/
def dumpGroup (g : LG) : Json :=
  let pts : Json := .arr (g.points.map fun r => .arr (r.map jOpt))
  let lm : List (Key × Json) := match g.conn with
    | none => [(.points, pts)]
    | some c => [(.connectivity, .arr (c.map jPair)), (.points, pts)]
  .obj [(.labels, .arr (g.labels.map encodeLabel)), (.landmarks, .obj lm)]

/-- `json.dump(ljson, file_handle, …, sort_keys=True, allow_nan=False)`: the value tree that is written -/
def dumpDoc (d : LDoc) : Json :=
  .obj [(.groups, .obj ((sortGroups d.groups).map fun g => (.user g.1, dumpGroup g.2))), (.version, jNat d.version)]

/-- SPECIFICATION of `ljson_exporter`: the version-3 document of `Core/C16.lean` over the dictionary of groups -/
def ljsonExporterSpec (o : LObj) : Except Exc Json := .ok (encodeDoc (dictOfList o.wrap.items))

/-! ## 2. the points format as a file: `pts_exporter`, `pts_importer` -/

/-- one line of a points file (after `strip()`) -/
inductive PLine where
  | open_                                  -- starts with `{`
  | close                                  -- starts with `}`
  | row (toks : List (Option Rat))         -- numbers separated by blanks (`none` = `nan`)
  | other                                  -- header lines (`version: 1`, `n_points: 3`)
  deriving DecidableEq, Repr

/-- `line.startswith("{")` / `line.strip().startswith("}")` -/
def PLine.isOpen : PLine → Bool
  | .open_ => true
  | _ => false
def PLine.isClose : PLine → Bool
  | .close => true
  | _ => false

/-- `line.split()[:2]` unpacked into two names (anything but two tokens: ValueError) -/
def PLine.first2 : PLine → Except Exc (Option Rat × Option Rat)
  | .row (a :: b :: _) => .ok (a, b)
  | _ => .error .valueError

/-- `lines[0]` -/
def linesHead (l : List PLine) : Except Exc PLine :=
  match l with
  | [] => .error .indexError
  | a :: _ => .ok a

/-- `lines.pop(0)`: the first element and the rest (`IndexError` on an empty list) -/
def pop0 {α : Type} (l : List α) : Except Exc (α × List α) :=
  match l with
  | [] => .error .indexError
  | a :: t => .ok (a, t)

def mapX {α β : Type} (f : α → Except Exc β) : List α → Except Exc (List β)
  | [] => .ok []
  | a :: t => match f a with
    | .error e => .error e
    | .ok b => match mapX f t with
      | .error e => .error e
      | .ok bs => .ok (b :: bs)

/-- one row of `pts[:, [1, 0]] + 1` (`IndexError` for a shape with fewer than two axes) -/
def swapRow (r : List (Option Rat)) : Except Exc (Option Rat × Option Rat) :=
  match r with
  | y :: x :: _ => .ok (x.map (· + 1), y.map (· + 1))
  | _ => .error .indexError

/-- the array `pts[:, [1, 0]] + 1`, row by row -/
def swapAdd1 (pts : List (List (Option Rat))) : Except Exc (List (Option Rat × Option Rat)) := mapX swapRow pts

/-- `np.savetxt(file_handle, pts, delimiter=" ", header=header, footer="}", fmt="%.3f", comments="")`: the lines of the
file, as `pts_importer` will see them after `strip()` -/
def savetxt3 (header : List PLine) (rows : List (Option Rat × Option Rat)) : List PLine :=
  header ++ rows.map (fun r => PLine.row [r.1.map fmt3, r.2.map fmt3]) ++ [PLine.close]

/-- `"version: 1\nn_points: {}\n{{".format(n)` -/
def ptsHeader (_n : Nat) : List PLine := [.other, .other, .open_]

/-- `np.array(xs, dtype=float).reshape((-1, 1))`, `np.hstack([ys - 1, xs - 1])`, `PointCloud(points, copy=False)` -/
def hstackMinus1 (a b : List (Option Rat)) : List (List (Option Rat)) :=
  List.zipWith (fun x y => [x.map (· - 1), y.map (· - 1)]) a b

/-- `column - 1` on a column of parsed numbers -/
def colMinus1 (a : List (Option Rat)) : List (Option Rat) := a.map fun x => x.map (· - 1)

/-- `np.hstack([a, b])` of two columns: one row per point -/
def hstackCols (cols : List (List (Option Rat))) : List (List (Option Rat)) :=
  match cols with
  | [a, b] => List.zipWith (fun x y => [x, y]) a b
  | _ => []

theorem hstackCols_minus1 (a b : List (Option Rat)) : hstackCols [colMinus1 a, colMinus1 b] = hstackMinus1 a b := by
  simp [hstackCols, colMinus1, hstackMinus1, List.zipWith_map]

/-- SPECIFICATION of `pts_exporter`: header, one line per point with the second axis first, both 1-based and printed
with three decimals, footer — `IndexError` for a shape with fewer than two axes -/
def ptsExporterSpec (pts : List (List (Option Rat))) : Except Exc (List PLine) :=
  match allSome (pts.map ptsExportRow) with
  | none => .error .indexError
  | some rows => .ok ([PLine.other, .other, .open_] ++ rows.map (fun r => PLine.row [r.1, r.2]) ++ [.close])

/-- the lines after the one that starts with `{` — as the `while` loop of `pts_importer` leaves them: it looks at
`lines[0]` WITHOUT popping it and then pops until the popped line starts with `{`, so a file whose first line is the
`{` line keeps that line (and then fails on it) -/
def afterOpen : List PLine → Except Exc (List PLine)
  | [] => .error .indexError
  | a :: t => if a.isOpen then .ok (a :: t) else dropToOpen (a :: t)
where dropToOpen : List PLine → Except Exc (List PLine)
  | [] => .error .indexError
  | a :: t => if a.isOpen then .ok t else dropToOpen t

/-- the rows of the body: every line that does not start with `}` must have two tokens -/
def bodyRows : List PLine → Except Exc (List (Option Rat × Option Rat))
  | [] => .ok []
  | a :: t =>
    if a.isClose then bodyRows t
    else match a.first2 with
      | .error e => .error e
      | .ok r => match bodyRows t with
        | .error e => .error e
        | .ok rs => .ok (r :: rs)

/-- SPECIFICATION of `pts_importer(filepath, image_origin)` on the lines of the file -/
def ptsImporterSpec (lines : List PLine) (imageOrigin : Bool) : Except Exc (List (List (Option Rat))) :=
  match afterOpen lines with
  | .error e => .error e
  | .ok body => match bodyRows body with
    | .error e => .error e
    | .ok rows =>
      let xs := rows.map (·.1)
      let ys := rows.map (·.2)
      .ok (if imageOrigin then hstackMinus1 ys xs else hstackMinus1 xs ys)

/-! ## 3. `ljson_importer`: the version dispatch -/

/-- `_ljson_parser_for_version.get(version)` for the value `lms_dict.get("version")` returned -/
def parserLookup (table : List (Nat × String)) (v : Option Json) : Option String :=
  match v with
  | some (.num q) => if q.den = 1 ∧ 0 ≤ q.num then (table.find? fun e => e.1 == q.num.toNat).map fun e => e.2 else none
  | _ => none

/-- `parser(lms_dict)`: the parser found in the table is called WITH THE DOCUMENT (the result here is its name) -/
def callParser (p : Option String) (_doc : Json) : String := p.getD ""

/-- `version == n` -/
def jsonIsNat (v : Option Json) (n : Nat) : Bool :=
  match v with
  | some (.num q) => q == (n : Rat)
  | _ => false

/-- what `ljson_importer` does with the tree `json.load` returned, given the live table `_ljson_parser_for_version`
(version → name of the parser): the name of the parser that is called, or `ValueError` -/
def ljsonDispatchSpec (table : List (Nat × String)) (doc : Json) : Except Exc String :=
  match doc.get .version with
  | some (.num v) =>
    if v.den = 1 ∧ 0 ≤ v.num then
      match table.find? (fun e => e.1 == v.num.toNat) with
      | some e => .ok e.2
      | none => .error .valueError
    else .error .valueError
  | _ => .error .valueError

/-! ## 3b. `_ljson_parse_null_values`, `_parse_ljson_v3` on a schema-valid document

The tree `json.load` returns is taken in its typed form: a version-3 document is an ordered dictionary of groups, a
group has `landmarks.points` (rows of numbers / nulls), an optional `landmarks.connectivity` (pairs) and `labels`
(`label`, `mask` = list of indices).  `docJson` is the JSON tree of such a document; the exporter writes trees of this
form (`encodeDoc_eq_docJson`). -/

structure JLabel where
  label : String
  mask : List Nat
  deriving Repr

structure JGroup where
  points : List (List (Option Rat))
  conn : Option (List (Nat × Nat))
  labels : List JLabel
  deriving Repr

abbrev JDoc := List (String × JGroup)

/-- `np.array(flat, dtype=float).reshape([-1, d])` -/
def reshapeN (flat : List (Option Rat)) (d : Nat) : Except Exc (List (List (Option Rat))) :=
  if d = 0 ∨ flat.length % d ≠ 0 then .error .valueError else .ok (chunksOf d (flat.length + 1) flat)

/-- `mask[indices] = True` (an index outside the array: IndexError) -/
def maskSet (m : List Bool) (idx : List Nat) : Except Exc (List Bool) :=
  if idx.all (· < m.length) then .ok ((List.range m.length).map fun i => m.getD i false || idx.contains i)
  else .error .indexError

/-- `graph_cls.init_from_edges(points, connectivity, labels_to_mask)` for the two classes `_parse_ljson_v3` chooses
between: edge indices inside the point set (else the sparse-matrix constructor raises ValueError); a labelled graph
wants at least one label and every point labelled; a plain graph takes no labels -/
def initFromEdges (c : Cls) (pts : List (List (Option Rat))) (conn : Option (List (Nat × Nat)))
    (labels : List (String × List Bool)) : Except Exc Imported :=
  let n := pts.length
  let es := conn.getD []
  if !(es.all fun e => e.1 < n && e.2 < n) then .error .valueError
  else match c with
    | .lpug =>
      if labels.isEmpty then .error .valueError
      else if !(allLabelled n labels) then .error .valueError
      else .ok { cls := .lpug, points := pts, edges := symEdges n es, labels := labels }
    | c => .ok { cls := c, points := pts, edges := symEdges n es, labels := [] }

/-- a left fold that stops at the first exception -/
def foldX {σ α : Type} (step : σ → α → Except Exc σ) : σ → List α → Except Exc σ
  | s, [] => .ok s
  | s, a :: t => match step s a with
    | .error e => .error e
    | .ok s' => foldX step s' t

/-- SPECIFICATION of `_ljson_parse_null_values` -/
def parseNullSpec (pl : List (List (Option Rat))) : Except Exc (List (List (Option Rat))) :=
  match pl with
  | [] => .error .indexError
  | r0 :: _ => reshapeN pl.flatten r0.length

/-- one pass of the labels loop of `_parse_ljson_v3` -/
def labelStep (n : Nat) (d : List (String × List Bool)) (l : JLabel) : Except Exc (List (String × List Bool)) :=
  match maskSet (List.replicate n false) l.mask with
  | .error e => .error e
  | .ok m => .ok (odInsert d l.label m)

/-- the labels loop of `_parse_ljson_v3`: an ordered dictionary label → mask -/
def labelsSpec (n : Nat) (ls : List JLabel) : Except Exc (List (String × List Bool)) := foldX (labelStep n) [] ls

/-- one group of `_parse_ljson_v3` -/
def groupSpec (g : JGroup) : Except Exc Imported :=
  match parseNullSpec g.points with
  | .error e => .error e
  | .ok pts =>
    match (if g.labels.length ≠ 0 then labelsSpec pts.length g.labels else .ok []) with
    | .error e => .error e
    | .ok labels => initFromEdges (if labels.isEmpty then .pug else .lpug) pts g.conn labels

/-- one pass of the groups loop -/
def groupStep (acc : List (String × Imported)) (kv : String × JGroup) : Except Exc (List (String × Imported)) :=
  match groupSpec kv.2 with
  | .error e => .error e
  | .ok i => .ok (dictSet acc kv.1 i)

/-- SPECIFICATION of `_parse_ljson_v3` -/
def parseV3Spec (d : JDoc) : Except Exc (List (String × Imported)) := foldX groupStep [] d

/-- SPECIFICATION of `_parse_ljson_v2` (the document IS one group): a plain PointCloud when there is neither
connectivity nor a label, else a labelled graph — whose constructor wants every point labelled -/
def parseV2Spec (g : JGroup) : Except Exc (List (String × Imported)) :=
  match parseNullSpec g.points with
  | .error e => .error e
  | .ok pts =>
    if g.conn.isNone ∧ g.labels.length = 0 then .ok [("LJSON", { cls := .pc, points := pts, edges := [], labels := [] })]
    else match labelsSpec pts.length g.labels with
      | .error e => .error e
      | .ok labels => match initFromEdges .lpug pts g.conn labels with
        | .error e => .error e
        | .ok i => .ok [("LJSON", i)]

/-! version 1: a list of groups, each with a label, its own landmarks (`{"point": […]}`) and connectivity RELATIVE to
the group; the parser concatenates everything into ONE labelled graph with one slice label per group -/

structure JV1Group where
  label : String
  landmarks : List (List (Option Rat))
  conn : Option (List (Nat × Nat))        -- `none`: the key is absent or `null`
  deriving Repr

/-- `offset + np.asarray(conn)` -/
def shiftEdges (o : Nat) (c : List (Nat × Nat)) : List (Nat × Nat) := c.map fun e => (o + e.1, o + e.2)

/-- `mask[slice(a, b)] = True` (a slice never raises: it is clipped to the array) -/
def sliceSet (m : List Bool) (s : Nat × Nat) : List Bool :=
  (List.range m.length).map fun i => m.getD i false || (decide (s.1 ≤ i) && decide (i < s.2))

/-- the state of the groups loop, in the order the translator lays it out (alphabetical): all_points, connectivity,
labels, labels_slices, offset -/
abbrev V1St := List (List (Option Rat)) × List (Nat × Nat) × List String × List (Nat × Nat) × Nat

/-- one pass of the groups loop of `_parse_ljson_v1` -/
def v1Step (st : V1St) (g : JV1Group) : V1St :=
  let c := g.conn.getD []
  (st.1 ++ g.landmarks,
   (if c.isEmpty then st.2.1 else st.2.1 ++ shiftEdges st.2.2.2.2 c),
   st.2.2.1 ++ [g.label],
   st.2.2.2.1 ++ [(st.2.2.2.2, g.landmarks.length + st.2.2.2.2)],
   st.2.2.2.2 + g.landmarks.length)

/-- SPECIFICATION of `_parse_ljson_v1` -/
def parseV1Spec (d : List JV1Group) : Except Exc (List (String × Imported)) :=
  let st := d.foldl v1Step ([], [], [], [], 0)
  match parseNullSpec st.1 with
  | .error e => .error e
  | .ok pts =>
    let masks := (List.zip st.2.2.1 st.2.2.2.1).foldl
      (fun dd ls => odInsert dd ls.1 (sliceSet (List.replicate pts.length false) ls.2)) []
    match initFromEdges .lpug pts (some st.2.1) masks with
    | .error e => .error e
    | .ok i => .ok [("LJSON", i)]

/-- the JSON tree of a typed group / document -/
def groupJson (g : JGroup) : Json :=
  let pts : Json := .arr (g.points.map fun r => .arr (r.map jOpt))
  let lm : List (Key × Json) := match g.conn with
    | none => [(.points, pts)]
    | some c => [(.connectivity, .arr (c.map jPair)), (.points, pts)]
  .obj [(.labels, .arr (g.labels.map fun l => .obj [(.label, .str l.label), (.mask, .arr (l.mask.map jNat))])),
        (.landmarks, .obj lm)]

def docJson (d : JDoc) : Json :=
  .obj [(.groups, .obj (d.map fun g => (.user g.1, groupJson g.2))), (.version, jNat 3)]

/-- the typed form of what the exporter writes for one group -/
def exportedGroup (s : Shape) : JGroup :=
  ⟨exportPoints s.points, s.conn, s.labels.map fun l => ⟨l.1, indicesOf l.2⟩⟩

/-! ## 4. `normalize_pixels_range`, `denormalize_pixels_range` -/

inductive DType where
  | uint8 | uint16 | float32 | float64 | bool | other
  deriving DecidableEq, Repr

def DType.isFloating : DType → Bool
  | .float32 | .float64 => true
  | _ => false

/-- a pixel array: its dtype and its values as exact rationals (integers for the integer types, 0/1 for bool) -/
structure PixArr where
  dtype : DType
  vals : List Rat
  deriving Repr

/-- `pixels * (1.0 / max_range)`: two correctly rounded binary64 operations per value, result float64 -/
def PixArr.scaleRecip (p : PixArr) (n : Nat) : PixArr := ⟨.float64, p.vals.map fun v => rn53 (v * rn53 (1 / (n : Rat)))⟩

/-- `np.round(pixels * max_range).astype(out_dtype)` -/
def PixArr.roundScale (p : PixArr) (n : Nat) (d : DType) : PixArr :=
  ⟨d, p.vals.map fun v => ((roundHalfEven (rn53 (v * (n : Rat))) : Int) : Rat)⟩

/-- `pixels.astype(out_dtype)` between floating types (values kept: binary32 rounding is not modelled) -/
def PixArr.astype (p : PixArr) (d : DType) : PixArr := ⟨d, p.vals⟩

/-- `pixels.min()` / `pixels.max()` (0 for an empty array: numpy raises there, menpo images are never empty) -/
def PixArr.min (p : PixArr) : Rat := p.vals.foldl (fun a b => if b < a then b else a) (p.vals.headD 0)
def PixArr.max (p : PixArr) : Rat := p.vals.foldl (fun a b => if a < b then b else a) (p.vals.headD 0)

/-- SPECIFICATION of `normalize_pixels_range` -/
def normalizeSpec (p : PixArr) (errorOnUnknown : Bool) : Except Exc PixArr :=
  match p.dtype with
  | .uint8 => .ok (p.scaleRecip 255)
  | .uint16 => .ok (p.scaleRecip 65535)
  | _ => if errorOnUnknown then .error .valueError else .ok p

/-- SPECIFICATION of `denormalize_pixels_range` -/
def denormalizeSpec (p : PixArr) (out : DType) : Except Exc PixArr :=
  if p.dtype = out then .ok p
  else if p.dtype.isFloating ∧ out.isFloating then .ok (p.astype out)
  else if p.dtype.isFloating ∧ (p.min < 0 ∨ 1 < p.max) then .error .valueError
  else if ¬ p.dtype.isFloating ∧ p.dtype ≠ .bool then .error .valueError
  else match out with
    | .uint8 => .ok (p.roundScale 255 .uint8)
    | .uint16 => .ok (p.roundScale 65535 .uint16)
    | _ => .error .valueError

end MenpoModel.C16
