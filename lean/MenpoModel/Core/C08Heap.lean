/-
C08 — the heap view of the alignment objects.  Core Lean only.

What Python shares and what it copies is part of the property ("retargeting never alters the source or
the point sets the caller passed in", "copies taken at any point of the sequence", "whatever happened
before"), so it is modelled explicitly:

* a `PointCloud` is an object holding a *reference* to an ndarray of coordinates (`pc : object ↦ array cell`,
  `arr : array cell ↦ value`): two `PointCloud`s may share one array (`PointCloud(a, copy=False)`), and the
  caller may overwrite an array in place at any time (`t.points[...] = v`);
* `Alignment.__init__` / `_target_setter` store the `PointCloud` object they are given (`self._target =
  new_target`): the alignment holds references to the caller's objects, it never copies them;
* homogeneous matrices live in matrix cells; rotation / translation / uniform scale write their part of the
  existing array, affine / similarity re-bind `_h_matrix` to the array the fit returned;
* `HomogFamilyAlignment.copy` is a shallow `__dict__` copy plus a fresh copy of `_h_matrix` (source and
  target objects stay shared); `Copyable.copy` of `ThinPlateSplines` / `PiecewiseAffine` deep-copies every
  attribute, so the copy owns new `PointCloud`s with new arrays;
* `_sync_target_from_state` (run by the parameter edits) makes a new `PointCloud` from the aligned source.
-/
import MenpoModel.Core.C08Retarget

namespace MenpoModel.C08

variable {Pts A : Type}

structure Heap (Pts : Type) where
  /-- ndarray cells holding homogeneous matrices -/
  mats : Nat → Mat
  /-- next unused matrix cell -/
  next : Nat
  /-- ndarray cells holding point coordinates -/
  arr : Nat → Pts
  nextArr : Nat
  /-- `PointCloud` object ↦ the array cell its `.points` refers to -/
  pc : Nat → Nat
  nextPc : Nat

/-- the coordinates seen through `PointCloud` object `r` -/
def Heap.pts (hp : Heap Pts) (r : Nat) : Pts := hp.arr (hp.pc r)

inductive HState (A : Type) where
  | hom (cell : Nat)
  | tps (l coef : A)
  | pwa (tv : A)

/-- an alignment object on the heap: source and target are *references* to `PointCloud` objects, the matrix
is a reference to a cell -/
structure HObj (A : Type) where
  cls : Cls
  rotation : Option Bool
  allowMirror : Option Bool
  kernel : Option Nat
  minSV : Option Rat
  source : Nat
  target : Nat
  state : HState A

def updMat (m : Nat → Mat) (c : Nat) (v : Mat) : Nat → Mat := fun k => if k = c then v else m k
def updArr (m : Nat → Pts) (c : Nat) (v : Pts) : Nat → Pts := fun k => if k = c then v else m k
def updPc (m : Nat → Nat) (c : Nat) (v : Nat) : Nat → Nat := fun k => if k = c then v else m k

/-- what the object *is*, read through its references -/
def absObj (hp : Heap Pts) (o : HObj A) : Obj Pts A :=
  { cls := o.cls, rotation := o.rotation, allowMirror := o.allowMirror, kernel := o.kernel, minSV := o.minSV,
    source := hp.pts o.source, target := hp.pts o.target,
    state := match o.state with
      | .hom c => .hom (hp.mats c)
      | .tps l k => .tps l k
      | .pwa tv => .pwa tv }

/-- `PointCloud(v)`: a new object with a new array -/
def allocPc (hp : Heap Pts) (v : Pts) : Heap Pts × Nat :=
  ({ hp with arr := updArr hp.arr hp.nextArr v, nextArr := hp.nextArr + 1,
             pc := updPc hp.pc hp.nextPc hp.nextArr, nextPc := hp.nextPc + 1 }, hp.nextPc)

/-- `_sync_state_from_target` with its real write discipline: rotation / translation / uniform scale
write into the existing array; affine / similarity bind `_h_matrix` to the array the fit returned
(`copy=False`); TPS / PWA rebind their arrays. -/
def hSync (e : Ext Pts A) (hp : Heap Pts) (o : HObj A) : Heap Pts × HObj A :=
  let s := hp.pts o.source
  let t := hp.pts o.target
  let d := e.nDims s
  match o.cls, o.state with
  | .affine, .hom _ =>
    ({ hp with mats := updMat hp.mats hp.next (e.affineOf s t), next := hp.next + 1 },
     { o with state := .hom hp.next })
  | .similarity, .hom _ =>
    let m := e.procrustes (o.rotation.getD true) (o.allowMirror.getD false) s t
    ({ hp with mats := updMat hp.mats hp.next m, next := hp.next + 1 },
     { o with state := .hom hp.next })
  | .rotation, .hom c =>
    ({ hp with mats := updMat hp.mats c (setBlock d (e.rotationOf (o.allowMirror.getD false) s t) (hp.mats c)) }, o)
  | .translation, .hom c =>
    ({ hp with mats := updMat hp.mats c (setLastCol d (e.translationOf s t) (hp.mats c)) }, o)
  | .uniformScale, .hom c =>
    ({ hp with mats := updMat hp.mats c (setCorner d (fillDiag d (e.scaleOf s t) (hp.mats c))) }, o)
  | .tps, .tps l _ => (hp, { o with state := .tps l (e.tpsCoef l (o.minSV.getD (1 / 10000)) t) })
  | .pwa, .pwa _ => (hp, { o with state := .pwa (e.pwaVectors s t) })
  | _, _ => (hp, o)

/-- `set_target(new_target)` with `new_target` a reference to a `PointCloud` object — possibly the very
object the alignment already holds.  There is no identity test in the code: verification and re-fit run on
the coordinates the object has *now*. -/
def hSetTarget (e : Ext Pts A) (hp : Heap Pts) (o : HObj A) (r : Nat) : Heap Pts × HObj A :=
  match verifyTarget e (absObj hp o) (hp.pts r) with
  | .error _ => (hp, o)
  | .ok () => hSync e hp { o with target := r }

/-- `HomogFamilyAlignment.copy` (shallow `__dict__` copy, then a fresh copy of `_h_matrix`);
`Copyable.copy` for TPS / PWA: every attribute is `.copy()`-ed, source first (`_source` is assigned
before `_target` in `Alignment.__init__`), so the copy owns two new `PointCloud`s -/
def hCopy (hp : Heap Pts) (o : HObj A) : Heap Pts × HObj A :=
  match o.state with
  | .hom c => ({ hp with mats := updMat hp.mats hp.next (hp.mats c), next := hp.next + 1 },
               { o with state := .hom hp.next })
  | _ =>
    let (hp1, s') := allocPc hp (hp.pts o.source)
    let (hp2, t') := allocPc hp1 (hp.pts o.target)
    (hp2, { o with source := s', target := t' })

/-- `_sync_target_from_state`: `PointCloud(aligned source)`, verified against the current target, stored -/
def hSyncTarget (e : Ext Pts A) (hp : Heap Pts) (o : HObj A) : Heap Pts × HObj A :=
  let t := alignedSource e (absObj hp o)
  match verifyTarget e (absObj hp o) t with
  | .error _ => (hp, o)
  | .ok () => let (hp', r) := allocPc hp t; (hp', { o with target := r })

/-- bind `_h_matrix` to a new array holding `m` -/
def hRebind (hp : Heap Pts) (o : HObj A) (m : Mat) : Heap Pts × HObj A :=
  ({ hp with mats := updMat hp.mats hp.next m, next := hp.next + 1 }, { o with state := .hom hp.next })

/-- the parameter edits with their real write discipline (see `vEdit`) -/
def hEdit (e : Ext Pts A) (hp : Heap Pts) (o : HObj A) (k : EditKind) (m : Mat) : Heap Pts × HObj A :=
  let d := e.nDims (hp.pts o.source)
  match o.state with
  | .hom c =>
    let h := hp.mats c
    let prod : Mat := match k with
      | .composeBefore => mulMat d m h
      | .composeAfter => mulMat d h m
      | .fromVector => m
    match o.cls, k with
    | .affine, _ => let (hp', o') := hRebind hp o prod; hSyncTarget e hp' o'
    | .similarity, .fromVector => let (hp', o') := hRebind hp o m; hSyncTarget e hp' o'
    | .rotation, .fromVector =>
      hSyncTarget e { hp with mats := updMat hp.mats c (setBlock d m h) } o
    | .translation, .fromVector =>
      hSyncTarget e { hp with mats := updMat hp.mats c (setLastCol d (fun i => m i d) h) } o
    | .uniformScale, .fromVector =>
      hSyncTarget e { hp with mats := updMat hp.mats c (setCorner d (fillDiag d (m 0 0) h)) } o
    | .tps, _ => (hp, o)
    | .pwa, _ => (hp, o)
    | _, _ => hRebind hp o prod
  | _ => (hp, o)

/-- `Cls(pts[sr], pts[tr], **options)` allocated on the heap: source / target are references to the
caller's `PointCloud`s, a homogeneous matrix goes into a fresh cell -/
def hBuild (tree : Tree) (e : Ext Pts A) (c : Cls) (op : Opts) (hp : Heap Pts) (sr tr : Nat) :
    Except Err (Heap Pts × HObj A) :=
  match build tree e c op (hp.pts sr) (hp.pts tr) with
  | .error err => .error err
  | .ok o =>
    let ho (st : HState A) : HObj A :=
      { cls := o.cls, rotation := o.rotation, allowMirror := o.allowMirror, kernel := o.kernel,
        minSV := o.minSV, source := sr, target := tr, state := st }
    match o.state with
    | .hom h => .ok ({ hp with mats := updMat hp.mats hp.next h, next := hp.next + 1 }, ho (.hom hp.next))
    | .tps l k => .ok (hp, ho (.tps l k))
    | .pwa tv => .ok (hp, ho (.pwa tv))

/-- operations on a collection of alignment objects -/
inductive Op where
  | setTarget (i : Nat) (r : Nat)              -- objs[i].set_target(pcs[r])
  | copy (i : Nat)                             -- objs.append(objs[i].copy())
  | edit (i : Nat) (k : EditKind) (m : Mat)    -- objs[i].from_vector_inplace / compose_*_inplace

def hStep (e : Ext Pts A) (st : Heap Pts × List (HObj A)) : Op → Heap Pts × List (HObj A)
  | .setTarget i r =>
    match st.2[i]? with
    | some o => let (hp', o') := hSetTarget e st.1 o r; (hp', st.2.set i o')
    | none => st
  | .copy i =>
    match st.2[i]? with
    | some o => let (hp', o') := hCopy st.1 o; (hp', st.2 ++ [o'])
    | none => st
  | .edit i k m =>
    match st.2[i]? with
    | some o => let (hp', o') := hEdit e st.1 o k m; (hp', st.2.set i o')
    | none => st

def hRun (e : Ext Pts A) (st : Heap Pts × List (HObj A)) (ops : List Op) : Heap Pts × List (HObj A) :=
  ops.foldl (hStep e) st

/-- the same program on independent *values* (no sharing at all): the specification -/
def vStep (e : Ext Pts A) (pts : Nat → Pts) (os : List (Obj Pts A)) : Op → List (Obj Pts A)
  | .setTarget i r =>
    match os[i]? with
    | some o => os.set i (step e o (pts r))
    | none => os
  | .copy i =>
    match os[i]? with
    | some o => os ++ [o]
    | none => os
  | .edit i k m =>
    match os[i]? with
    | some o => os.set i (vEdit e o k m)
    | none => os

def vRun (e : Ext Pts A) (pts : Nat → Pts) (os : List (Obj Pts A)) (ops : List Op) : List (Obj Pts A) :=
  ops.foldl (vStep e pts) os

/-! ### the caller's side: it may overwrite the coordinates of any of its point sets in place -/

/-- `pcs[r].points[...] = v`: an in-place write into the array `pcs[r]` refers to (seen through every
`PointCloud` sharing that array); numpy refuses a value of another shape -/
def hWrite (e : Ext Pts A) (hp : Heap Pts) (r : Nat) (v : Pts) : Heap Pts :=
  if e.nDims v = e.nDims (hp.pts r) ∧ e.nPoints v = e.nPoints (hp.pts r) then
    { hp with arr := updArr hp.arr (hp.pc r) v }
  else hp

/-- everything that can happen between two observations -/
inductive Act (Pts : Type) where
  | op (o : Op)
  | write (r : Nat) (v : Pts)

def aStep (e : Ext Pts A) (st : Heap Pts × List (HObj A)) : Act Pts → Heap Pts × List (HObj A)
  | .op o => hStep e st o
  | .write r v => (hWrite e st.1 r v, st.2)

def aRun (e : Ext Pts A) (st : Heap Pts × List (HObj A)) (acts : List (Act Pts)) : Heap Pts × List (HObj A) :=
  acts.foldl (aStep e) st

end MenpoModel.C08
