/-
C01 — the vocabulary of the SOURCE-LEVEL model (core Lean only, no Mathlib).

`Generated/C01Src.lean` is written on every run by harness/trans_c01.py from the source text of menpo/image/base.py,
masked.py, boolean.py, interpolation.py and menpo/transform/compositions.py; its definitions are terms over the
vocabulary of this file.  `GenProps/C01Src.lean` proves each of them equal to the object-level semantics defined in the
second half of this file (`warpObj`, `Plan2.execObj`, `cropObj` …), which is the plan of `Core/C01Warp.lean` executed
through the funnel — the definitions the C01 theorems are about.

  * numpy vectors of length `n_dims` are `V2` with componentwise arithmetic; an integer literal broadcasts;
  * an image object is `Obj`: class tag, pixels (shape, channels, Boolean dtype flag), mask, landmark points, path;
  * an array of points indexed by the template pixels is a function `V2 → V2` (`PtArr`), an array of sampled values a
    function `V2 → Rat` per channel (`Sampled`);
  * a transform object is `TObj`: a member of the homogeneous family (the class is known by its supplier of
    `pseudoinverse`, `Core/C01Ext.lean`) with its matrix, or an opaque pair of maps (`apply`, `pseudoinverse().apply`);
  * a function that may raise returns `Except PyExc _`.
-/
import MenpoModel.Core.C01Ext
import MenpoModel.Core.PyLoop

namespace MenpoModel.C01

/-! ## numpy arithmetic on vectors of length 2 -/

instance : Add V2 := ⟨fun a b => ⟨a.x + b.x, a.y + b.y⟩⟩
instance : Sub V2 := ⟨fun a b => ⟨a.x - b.x, a.y - b.y⟩⟩
instance : Mul V2 := ⟨fun a b => ⟨a.x * b.x, a.y * b.y⟩⟩
instance : Div V2 := ⟨fun a b => ⟨a.x / b.x, a.y / b.y⟩⟩
instance : Neg V2 := ⟨fun a => ⟨-a.x, -a.y⟩⟩
/-- a scalar literal broadcasts -/
instance (n : Nat) : OfNat V2 n := ⟨⟨(n : Rat), (n : Rat)⟩⟩
instance : HAdd V2 Rat V2 := ⟨fun a b => ⟨a.x + b, a.y + b⟩⟩
instance : HSub V2 Rat V2 := ⟨fun a b => ⟨a.x - b, a.y - b⟩⟩

@[simp] theorem V2.add_def (a b : V2) : a + b = ⟨a.x + b.x, a.y + b.y⟩ := rfl
@[simp] theorem V2.sub_def (a b : V2) : a - b = ⟨a.x - b.x, a.y - b.y⟩ := rfl
@[simp] theorem V2.mul_def (a b : V2) : a * b = ⟨a.x * b.x, a.y * b.y⟩ := rfl
@[simp] theorem V2.div_def (a b : V2) : a / b = ⟨a.x / b.x, a.y / b.y⟩ := rfl
@[simp] theorem V2.neg_def (a : V2) : -a = ⟨-a.x, -a.y⟩ := rfl
@[simp] theorem V2.ofNat_def (n : Nat) : (OfNat.ofNat n : V2) = ⟨(n : Rat), (n : Rat)⟩ := rfl
@[simp] theorem V2.hadd_def (a : V2) (b : Rat) : a + b = (⟨a.x + b, a.y + b⟩ : V2) := rfl
@[simp] theorem V2.hsub_def (a : V2) (b : Rat) : a - b = (⟨a.x - b, a.y - b⟩ : V2) := rfl

/-- Python exception classes a translated function can leave with -/
inductive PyExc | valueErr | typeErr | boundaryErr | zeroDiv
deriving Repr, DecidableEq

/-- the error kinds of the plans (`Core/C01Warp.lean`): `ZeroDivisionError` and `ValueError` are both `.value` there -/
def PyExc.toErr : PyExc → Err
  | .boundaryErr => .boundary
  | _ => .value

namespace Src

abbrev Vec := V2

/-- a tuple of ints (`image.shape`, a template shape) -/
structure IVec where
  x : Int
  y : Int
deriving Repr, DecidableEq

structure BVec where
  x : Bool
  y : Bool
deriving Repr, DecidableEq

def IVec.toV (s : IVec) : V2 := ⟨(s.x : Rat), (s.y : Rat)⟩
def IVec.get (s : IVec) (k : Int) : Int := if k = 0 then s.x else s.y

def ndims : Int := 2
def vsize (_ : V2) : Int := 2
def vfloor (v : V2) : V2 := ⟨(v.x.floor : Rat), (v.y.floor : Rat)⟩
def vceil (v : V2) : V2 := ⟨(v.x.ceil : Rat), (v.y.ceil : Rat)⟩
def vallGt (a b : V2) : Bool := decide (b.x < a.x) && decide (b.y < a.y)
def vallEq (a b : V2) : Bool := decide (a.x = b.x) && decide (a.y = b.y)
/-- `astype(int)` of a float: truncation towards zero -/
def truncR (x : Rat) : Int := if x < 0 then -((-x).floor) else x.floor
def vtrunc (v : V2) : IVec := ⟨truncR v.x, truncR v.y⟩
def vltZero (v : V2) : BVec := ⟨decide (v.x < 0), decide (v.y < 0)⟩
/-- `b[m] = s[m]` -/
def vwhere (m : BVec) (s b : V2) : V2 := ⟨if m.x then s.x else b.x, if m.y then s.y else b.y⟩
/-- a FRESH array (`x.copy()`): only such a value may be updated in place by the translated statements — when the
source drops the copy, the in-place statement is applied to a caller's array, which no longer type-checks here -/
structure Owned (α : Type) where
  val : α
class AsVec (α : Type) where
  vec : α → V2
instance : AsVec V2 := ⟨id⟩
instance : AsVec (Owned V2) := ⟨Owned.val⟩
instance : HSub V2 (Owned V2) V2 := ⟨fun a b => a - b.val⟩
@[simp] theorem hsub_owned (a : V2) (b : Owned V2) : a - b = a - b.val := rfl
/-- `b[m] = s[m]` on an owned array -/
def Owned.vwhere (m : BVec) (s : V2) (b : Owned V2) : Owned V2 := ⟨Src.vwhere m s b.val⟩
def vsum (v : V2) : Rat := v.x + v.y
def vmin (v : V2) : Rat := if v.y < v.x then v.y else v.x
def vmax (v : V2) : Rat := if v.x < v.y then v.y else v.x
def vzip (a b : IVec) : List (Int × Int) := [(a.x, b.x), (a.y, b.y)]
def Vec.set (v : V2) (i : Int) (x : Rat) : V2 := if i = 0 then ⟨x, v.y⟩ else ⟨v.x, x⟩

/-- the three legal values of `round` -/
def _root_.MenpoModel.C01.Rounding.name : Rounding → String
  | .ceil => "ceil"
  | .floor => "floor"
  | .round => "round"

/-- `getattr(np, round)(shape).astype(int)` -/
def roundVec (r : String) (v : V2) : IVec :=
  if r = "ceil" then ⟨v.x.ceil, v.y.ceil⟩
  else if r = "floor" then ⟨v.x.floor, v.y.floor⟩
  else ⟨roundHalfEven v.x, roundHalfEven v.y⟩

/-- a 2×2 numpy matrix -/
structure Mat where
  a : Rat
  b : Rat
  c : Rat
  d : Rat
deriving Repr, DecidableEq

def Mat.eye : Mat := ⟨1, 0, 0, 1⟩
def Mat.set (m : Mat) (i j : Int) (v : Rat) : Mat :=
  if i = 0 then (if j = 0 then { m with a := v } else { m with b := v })
  else (if j = 0 then { m with c := v } else { m with d := v })

class PyNum (α : Type) where
  num : α → Rat
instance : PyNum Rat := ⟨id⟩
instance : PyNum Bool := ⟨fun b => if b then 1 else 0⟩
instance : PyNum Int := ⟨fun i => (i : Rat)⟩
instance : PyNum Nat := ⟨fun n => (n : Rat)⟩

class PyRange (α : Type) where
  pyRange : α → List α
export PyRange (pyRange)
instance : PyRange Nat := ⟨List.range⟩
instance : PyRange Int := ⟨fun n => (List.range n.toNat).map Int.ofNat⟩

/-- what a `for` loop iterates over -/
class PyIter (α : Type) (β : outParam Type) where
  iter : α → List β
instance {β : Type} : PyIter (List β) β := ⟨id⟩
instance : PyIter V2 Rat := ⟨fun v => [v.x, v.y]⟩

def pyRecip (x : Rat) : Except PyExc Rat := if x = 0 then .error .zeroDiv else .ok (1 / x)

/-! ## transform objects -/

inductive TObj
  /-- a member of the homogeneous family: the class (by its supplier of `pseudoinverse`) and the matrix it holds -/
  | fam (pv : PinvProvider) (m : Aff2)
  /-- any other transform (piecewise affine, thin plate spline, chain): `apply` and `pseudoinverse().apply` -/
  | other (app pinvApp : V2 → V2)

def TObj.app : TObj → V2 → V2
  | .fam _ m => m.apply
  | .other a _ => a
/-- `.pseudoinverse()` — the closed form of the class (`pinvBy`); the result is of the same class -/
def TObj.pinv : TObj → TObj
  | .fam pv m => .fam pv (pinvBy pv m)
  | .other a b => .other b a
def TObj.isHomogeneous : TObj → Bool
  | .fam _ _ => true
  | .other _ _ => false
def TObj.translation (t : V2) : TObj := .fam .translation (transl2 t)
def TObj.nonUniformScale (s : V2) : TObj := .fam .nonUniformScale (scale2 s.x s.y)
def TObj.uniformScale (s : Rat) : TObj := .fam .uniformScale (scale2 s s)
def TObj.rotation (m : Mat) : TObj := .fam .rotation ⟨m.a, m.b, 0, m.c, m.d, 0⟩
/-- `Rotation.init_from_2d_ccw_angle(theta)`: `(cos θ, sin θ)` are contract parameters -/
def TObj.rotationOfCosSin (cs : Rat × Rat) : TObj := .fam .rotation (rot2 cs.1 cs.2)
/-- `a.compose_before(b)`: first `a`, then `b`; within the family the product of the matrices (which class the
result has is C03's subject: every composed class moves landmarks by `np.linalg.inv`) -/
def TObj.composeBefore (a b : TObj) : TObj :=
  match a, b with
  | .fam _ m, .fam _ n => .fam .homogeneous (n.comp m)
  | _, _ => .other (fun p => b.app (a.app p)) (fun p => a.pinv.app (b.pinv.app p))
/-- `reduce(lambda a, b: a.compose_before(b), [x, y, z])` for a non-homogeneous middle: a `TransformChain` -/
def TObj.chain3 (x y z : TObj) : TObj :=
  .other (fun p => z.app (y.app (x.app p))) (fun p => x.pinv.app (y.pinv.app (z.pinv.app p)))
def TObj.applyVec (t : TObj) (v : V2) : V2 := t.app v
def TObj.applyList (t : TObj) (l : List V2) : List V2 := l.map t.app

/-- `bounding_box(min, max)`: the four corners in menpo's order -/
def boundingBox (a b : V2) : List V2 := [⟨a.x, a.y⟩, ⟨b.x, a.y⟩, ⟨b.x, b.y⟩, ⟨a.x, b.y⟩]

/-! ## image objects -/

abbrev Spl := Nat → Mode → Sampler2

/-- `image.pixels`: shape, channels, and whether the dtype is `bool` -/
structure Pixels where
  h : Nat
  w : Nat
  ch : List (Int → Int → Rat)
  isBool : Bool

structure Obj where
  cls : ImgClass
  pix : Pixels
  /-- `MaskedImage.mask` (a `BooleanImage`) -/
  mask : Option Img2
  /-- the points of all landmark groups -/
  lms : List V2
  path : Option String

/-- an array of points, one per template pixel (indexed by the pixel) -/
abbrev PtArr := V2 → V2
/-- sampled values: per channel, one value per template pixel; the dtype is that of the source pixels -/
structure Sampled where
  isBool : Bool
  vals : List (V2 → Rat)

inductive Ret
  | img (o : Obj)
  | pair (o : Obj) (t : TObj)

def Ret.obj : Ret → Obj
  | .img o => o
  | .pair o _ => o
def Ret.mapObj (f : Obj → Obj) : Ret → Ret
  | .img o => .img (f o)
  | .pair o t => .pair (f o) t

class ToRet (α : Type) where
  toRet : α → Ret
instance : ToRet Obj := ⟨Ret.img⟩
instance : ToRet (Obj × TObj) := ⟨fun p => Ret.pair p.1 p.2⟩

def pixelsOf (o : Obj) : Pixels := o.pix
def shapeOf (o : Obj) : IVec := ⟨(o.pix.h : Int), (o.pix.w : Int)⟩
def nChannels (o : Obj) : Nat := o.pix.ch.length
def nChannelsP (p : Pixels) : Nat := p.ch.length
def channel (p : Pixels) (i : Nat) : Img2 := ⟨p.h, p.w, p.ch.getD i (fun _ _ => 0)⟩
def hasLandmarks (o : Obj) : Bool := !o.lms.isEmpty
def landmarksOf (o : Obj) : List V2 := o.lms
def setLandmarks (o : Obj) (l : List V2) : Obj := { o with lms := l }
def mapLandmarks (o : Obj) (t : TObj) : Obj := { o with lms := o.lms.map t.app }
def lmGroup (o : Obj) (_g : Option String) : List V2 := o.lms
def hasPath (o : Obj) : Bool := o.path.isSome
def pathOf (o : Obj) : Option String := o.path
def setPath (o : Obj) (p : Option String) : Obj := { o with path := p }
def newImage (p : Pixels) : Obj := ⟨.image, p, none, [], none⟩
/-- `BooleanImage(pixels)` -/
def newBoolean (p : Pixels) : Obj := ⟨.boolean, { p with isBool := true }, none, [], none⟩
/-- the first channel as a single-channel image -/
def imgOfObj (o : Obj) : Img2 := ⟨o.pix.h, o.pix.w, o.pix.ch.headD (fun _ _ => 0)⟩
/-- `self.mask` of a `MaskedImage`, as an object (an all-true mask when none is stored) -/
def maskObj (o : Obj) : Obj :=
  match o.mask with
  | some m => ⟨.boolean, ⟨m.h, m.w, [m.px], true⟩, none, [], none⟩
  | none => ⟨.boolean, ⟨o.pix.h, o.pix.w, [fun _ _ => 1], true⟩, none, [], none⟩
/-- `image.as_masked(mask=mask, copy=False)`: pixels, landmarks and path are kept -/
def asMasked (w mask : Obj) : Obj := { w with cls := .masked, mask := some (imgOfObj mask) }
def setMask (w m : Obj) : Obj := { w with mask := some (imgOfObj m) }

/-- `mode`, `cval` as scipy reads them (modes other than `nearest` / `constant` are not modelled) -/
def modeOf (mode : String) (cval : Rat) : Mode := if mode = "nearest" then .nearest else .constant cval
/-- the output array has the dtype of the source: a Boolean output casts `cval` -/
def effMode (isBool : Bool) (mode : String) (cval : Rat) : Mode :=
  if isBool then maskMode (modeOf mode cval) else modeOf mode cval

def emptySampled (n : Nat) (isBool : Bool) : Sampled := ⟨isBool, List.replicate n (fun _ => 0)⟩
def setSampled (s : Sampled) (i : Nat) (v : V2 → Rat) : Sampled := { s with vals := s.vals.set i v }
/-- `scipy.ndimage.map_coordinates(channel, points.T, mode, order, cval, output)` -/
def mapCoordinates (spl : Spl) (isBool : Bool) (im : Img2) (pts : PtArr) (mode : String) (order : Nat) (cval : Rat) :
    V2 → Rat :=
  fun p => samplerOf spl order (effMode isBool mode cval) im (pts p)
def sampledAllTrue (_s : Sampled) : Bool := true
/-- `points.shape[0]`: how many points an array of points holds (only the length of the output buffer: unused) -/
def nPointsOf (_p : PtArr) : Nat := 0
def indicesForImageOfShape (_s : IVec) : PtArr := id
def applyPts (t : TObj) (pts : PtArr) (_batch : Option Nat) : PtArr := fun p => t.app (pts p)
/-- `sampled.reshape((n_channels,) + template_shape)` -/
def reshapeSampled (s : Sampled) (shape : IVec) : Pixels :=
  ⟨shape.x.toNat, shape.y.toNat, s.vals.map (fun f i j => f (gridPt2 i j)), s.isBool⟩
/-- the cv2 fast path (absent in this environment; the translated branch is dead) -/
def cv2Warp (p : Pixels) (_s : IVec) (_t : TObj) : Pixels := p

/-! ### warp_to_mask -/

/-- `template_mask.true_indices()` as an array indexed by the template pixels (the restriction to the `True` pixels
happens when the result is built) -/
def trueIndexPts (_m : Obj) : PtArr := id
/-- `MaskedImage.init_blank(template_mask.shape, n_channels, mask=template_mask)` -/
def maskedBlank (tmpl : Obj) (n : Nat) : Obj :=
  ⟨.masked, ⟨tmpl.pix.h, tmpl.pix.w, List.replicate n (fun _ _ => 0), false⟩, some (imgOfObj tmpl), [], none⟩
/-- the mask through which `_from_vector_inplace` / `pixels[:, mask] = …` write: a `BooleanImage` is its own mask -/
def writeMask (w : Obj) : Img2 :=
  match w.cls with
  | .boolean => imgOfObj w
  | _ => w.mask.getD ⟨w.pix.h, w.pix.w, fun _ _ => 1⟩
/-- the sampled values written at the `True` pixels of the mask, the other pixels kept -/
def fromSampledMasked (w : Obj) (s : Sampled) : Obj :=
  { w with pix := { w.pix with ch := List.zipWith (fun old f => fun i j =>
      if (writeMask w).px i j = 0 then old i j else f (gridPt2 i j)) w.pix.ch s.vals } }
def setPixelsSampled (w : Obj) (s : Sampled) : Obj :=
  { w with pix := { w.pix with ch := s.vals.map (fun f i j => f (gridPt2 i j)) } }
def allTrue (w : Obj) : Bool := (trueIndices (imgOfObj w)).length == w.pix.h * w.pix.w

/-! ### crop -/

/-- `self.pixels[(slice(None),) + block]` -/
def pixelBlock (o : Obj) (block : List (Int × Int)) : Pixels :=
  let b0 := block.getD 0 (0, 0)
  let b1 := block.getD 1 (0, 0)
  ⟨(b0.2 - b0.1).toNat, (b1.2 - b1.1).toNat, o.pix.ch.map (fun f i j => f (b0.1 + i) (b1.1 + j)), o.pix.isBool⟩
/-- `cropped.pixels[...] = values` (the array of the result keeps its shape and dtype) -/
def Ret.setPixels (r : Ret) (p : Pixels) : Ret := r.mapObj fun o => { o with pix := { o.pix with ch := p.ch } }
/-- `image.pixels[...] = values` on an image -/
def setPixelValues (o : Obj) (p : Pixels) : Obj := { o with pix := { o.pix with ch := p.ch } }
/-- the value returned by an operation with its image replaced (an update through the view `result[0]` / `result`) -/
def Ret.withObj : Ret → Obj → Ret
  | .img _, o => .img o
  | .pair _ t, o => .pair o t
@[simp] theorem Ret.withObj_setPixelValues (r : Ret) (p : Pixels) :
    r.withObj (setPixelValues r.obj p) = r.setPixels p := by
  cases r <;> rfl

def trueIndexList (o : Obj) : List V2 := trueIndices (imgOfObj o)
def colMax (l : List V2) : Except PyExc V2 :=
  if l.isEmpty then .error .valueErr else .ok ⟨maxL (l.map (·.x)), maxL (l.map (·.y))⟩
def colMin (l : List V2) : Except PyExc V2 :=
  if l.isEmpty then .error .valueErr else .ok ⟨minL (l.map (·.x)), minL (l.map (·.y))⟩

/-! ### `constrain_landmarks_to_bounds`, `constrain_to_pointcloud` -/

/-- the names of the landmark groups (the model keeps the points of all groups in one list) -/
def groupNames (_o : Obj) : List (Option String) := [none]
def setLmGroup (o : Obj) (_g : Option String) (l : List V2) : Obj := { o with lms := l }
/-- `points[:, k]` -/
def column (l : List V2) (k : Int) : List Rat := l.map fun p => if k = 0 then p.x else p.y
/-- `points[:, k] = values` -/
def setColumn (l : List V2) (k : Int) (v : List Rat) : List V2 :=
  List.zipWith (fun p x => if k = 0 then (⟨x, p.y⟩ : V2) else ⟨p.x, x⟩) l v
/-- `tmp[tmp < 0] = 0` -/
def clampLow (t : List Rat) : List Rat := t.map fun x => if x < 0 then 0 else x
/-- `tmp[tmp > b] = b` -/
def clampHigh (t : List Rat) (b : Rat) : List Rat := t.map fun x => if b < x then b else x

class PyAdd (α : Type) where
  add : α → α → α
instance : PyAdd Int := ⟨fun a b => a + b⟩
instance : PyAdd Rat := ⟨fun a b => a + b⟩
instance {β : Type} : PyAdd (List β) := ⟨fun a b => a ++ b⟩
instance : PyIter (V2 × V2) V2 := ⟨fun p => [p.1, p.2]⟩

/-- a set of pixel indices (`image.indices()` and its filtered subsets) -/
abbrev IdxSet := Int → Int → Bool
def allIndices (o : Obj) : IdxSet := fun i j => decide (0 ≤ i ∧ i < (o.pix.h : Int) ∧ 0 ≤ j ∧ j < (o.pix.w : Int))
def coordI (k : Int) (i j : Int) : Int := if k = 0 then i else j
/-- `indices[indices[:, k] >= b, :]` -/
def filterGe (s : IdxSet) (k : Int) (b : Int) : IdxSet := fun i j => s i j && decide (b ≤ coordI k i j)
/-- `indices[indices[:, k] <= b, :]` -/
def filterLe (s : IdxSet) (k : Int) (b : Int) : IdxSet := fun i j => s i j && decide (coordI k i j ≤ b)
/-- which point-in-pointcloud test the option selects -/
inductive PipFn | pwa | hull
deriving Repr, DecidableEq
/-- the values of a test on a set of indices (in the row-major order of the set) -/
structure TestVals where
  idx : IdxSet
  val : Int → Int → Bool
/-- `point_in_pointcloud(pointcloud, indices)`; `inside` is the containment test itself (contract parameter:
`PiecewiseAffine` containment, C09 / matplotlib's path test) -/
def applyPip (inside : PipFn → List V2 → V2 → Bool) (f : PipFn) (pc : List V2) (idx : IdxSet) : TestVals :=
  ⟨idx, fun i j => inside f pc (gridPt2 i j)⟩
/-- `copy.pixels[:] = False` -/
def clearPixels (o : Obj) : Obj := { o with pix := { o.pix with ch := o.pix.ch.map fun _ => fun _ _ => 0 } }
/-- does index `i` of an axis of length `n` belong to the Python slice `a:b` (a negative bound counts from the end) -/
def inSlice (n : Nat) (s : Int × Int) (i : Int) : Bool :=
  let a := if s.1 < 0 then max (s.1 + (n : Int)) 0 else s.1
  let b := if s.2 < 0 then max (s.2 + (n : Int)) 0 else s.2
  decide (a ≤ i ∧ i < b ∧ 0 ≤ i ∧ i < (n : Int))
/-- `copy.pixels[slices].flat = values`: the block selected by the slices (channel slice first) receives the values in
row-major order — pixel by pixel the value of the test at that pixel WHEN the block and the index set of the values
are the same set (`constrain_sets_agree`); numpy raises when their sizes differ -/
def assignFlat (o : Obj) (slices : List (Int × Int)) (v : TestVals) : Obj :=
  let s1 := slices.getD 1 (0, 0)
  let s2 := slices.getD 2 (0, 0)
  let ch' := o.pix.ch.map fun old => fun i j =>
    if inSlice o.pix.h s1 i && inSlice o.pix.w s2 j then (if v.val i j then 1 else 0) else old i j
  { o with pix := { o.pix with ch := ch' } }

/-! ### rescale -/

/-- the `scale` argument of `Image.rescale`: a number or a sequence -/
inductive ScaleArg
  | scalar (s : Rat)
  | seq (l : List Rat)
deriving Repr, DecidableEq

/-- `len(scale)`: a number has no length -/
def pyLenScale : ScaleArg → Except PyExc Int
  | .scalar _ => .error .typeErr
  | .seq l => .ok (l.length : Int)
/-- `[scale] * n` -/
def ScaleArg.rep (x : ScaleArg) (n : Int) : ScaleArg :=
  match x with
  | .scalar s => .seq (List.replicate n.toNat s)
  | .seq l => .seq l
/-- `np.asarray(scale)` (its first `n_dims` entries) -/
def ScaleArg.toVec : ScaleArg → V2
  | .scalar s => ⟨s, s⟩
  | .seq l => ⟨l.getD 0 0, l.getD 1 0⟩
class ToScaleArg (α : Type) where
  conv : α → ScaleArg
instance : ToScaleArg Rat := ⟨ScaleArg.scalar⟩
instance : ToScaleArg V2 := ⟨fun v => .seq [v.x, v.y]⟩
instance : ToScaleArg ScaleArg := ⟨id⟩

/-- `AlignmentUniformScale(source, target).as_vector()[0]` = `target.norm() / source.norm()` -/
def alignmentUniformScale (sqrtF : Rat → Rat) (src tgt : List V2) : Rat :=
  sqrtF (centredSS tgt) / sqrtF (centredSS src)

/-- `menpo.feature.gaussian_filter(image, sigma)`: every channel blurred, mask and landmarks kept
(`kern σ` = half weights of scipy's kernel: contract parameter) -/
def gaussianFilter (kern : Rat → List Rat) (im : Obj) (sigma : Option Rat) : Obj :=
  { im with pix := { im.pix with ch := im.pix.ch.map fun f => (blur2 (kern (sigma.getD 0)) ⟨im.pix.h, im.pix.w, f⟩).px } }

end Src
open Src

/-! ## object-level semantics: what the translated functions are proved equal to -/

/-- `scipy_interpolation(pixels, points, mode, order, cval)` -/
def samplePixels (spl : Spl) (p : Pixels) (pts : PtArr) (mode : String) (order : Nat) (cval : Rat) : Sampled :=
  ⟨p.isBool, p.ch.map fun f => fun q => samplerOf spl order (effMode p.isBool mode cval) ⟨p.h, p.w, f⟩ (pts q)⟩

/-- the order that reaches `map_coordinates`: `BooleanImage.sample` forces 0 -/
def clsOrder (cls : ImgClass) (order : Nat) : Nat :=
  match cls with
  | .boolean => 0
  | _ => order

/-- pixels of `warp_to_shape`: every channel of the source sampled at `T(p)` for every template pixel `p` -/
def warpPixels (spl : Spl) (o : Obj) (shape : IVec) (T : TObj) (order : Nat) (mode : String) (cval : Rat) : Pixels :=
  ⟨shape.x.toNat, shape.y.toNat,
   o.pix.ch.map (fun f => fun i j =>
     samplerOf spl (clsOrder o.cls order) (effMode o.pix.isBool mode cval) ⟨o.pix.h, o.pix.w, f⟩ (T.app (gridPt2 i j))),
   o.pix.isBool⟩

/-- landmarks of the result: moved by `transform.pseudoinverse()` when `warp_landmarks`, else none -/
def warpLms (o : Obj) (T : TObj) (wl : Bool) : List V2 := if wl then o.lms.map T.pinv.app else []

/-- `Image.warp_to_shape` (also reached by `Image.warp_to_shape(self, …)` from the subclasses) -/
def imageWarp (spl : Spl) (o : Obj) (shape : IVec) (T : TObj) (wl : Bool) (order : Nat) (mode : String) (cval : Rat) :
    Obj :=
  ⟨.image, warpPixels spl o shape T order mode cval, none, warpLms o T wl, o.path⟩

/-- `BooleanImage.warp_to_shape`: order 0 whatever was asked -/
def booleanWarp (spl : Spl) (o : Obj) (shape : IVec) (T : TObj) (wl : Bool) (mode : String) (cval : Rat) : Obj :=
  ⟨.boolean, { warpPixels spl o shape T 0 mode cval with isBool := true }, none, warpLms o T wl, o.path⟩

/-- `MaskedImage.warp_to_shape`: the pixels with the requested order, the mask separately (a `BooleanImage`:
order 0) through the same transform -/
def maskedWarp (spl : Spl) (o : Obj) (shape : IVec) (T : TObj) (wl : Bool) (order : Nat) (mode : String) (cval : Rat) :
    Obj :=
  ⟨.masked, warpPixels spl o shape T order mode cval,
   some (imgOfObj (booleanWarp spl (maskObj o) shape T wl mode cval)), warpLms o T wl, o.path⟩

/-- `self.warp_to_shape(…)` on an object of any of the three classes -/
def warpObj (spl : Spl) (o : Obj) (shape : IVec) (T : TObj) (wl : Bool) (order : Nat) (mode : String) (cval : Rat) :
    Obj :=
  match o.cls with
  | .image => imageWarp spl o shape T wl order mode cval
  | .masked => maskedWarp spl o shape T wl order mode cval
  | .boolean => booleanWarp spl o shape T wl mode cval

/-- `return (image, transform)` / `return image` -/
def mkRet (rt : Bool) (o : Obj) (T : TObj) : Ret := if rt then .pair o T else .img o

/-- `mode=`, `cval=` as the operation writes them for the mode of its plan -/
def Mode.pyName : Mode → String
  | .nearest => "nearest"
  | .constant _ => "constant"
def Mode.pyCval : Mode → Rat
  | .nearest => 0
  | .constant cv => cv

@[simp] theorem Mode.pyName_nearest : Mode.nearest.pyName = "nearest" := rfl
@[simp] theorem Mode.pyName_constant (cv : Rat) : (Mode.constant cv).pyName = "constant" := rfl
@[simp] theorem Mode.pyCval_nearest : Mode.nearest.pyCval = 0 := rfl
@[simp] theorem Mode.pyCval_constant (cv : Rat) : (Mode.constant cv).pyCval = cv := rfl
@[simp] theorem modeOf_py (m : Mode) : modeOf m.pyName m.pyCval = m := by
  cases m <;> simp [modeOf, Mode.pyName, Mode.pyCval]

/-- a plan executed on an object: the single `warp_to_shape` call of the operation.  `pv` = the class of the
transform object handed to the funnel (by its supplier of `pseudoinverse`) -/
def Plan2.execObj (p : Plan2) (spl : Spl) (pv : PinvProvider) (o : Obj) (order : Nat) (wl : Bool) : Obj :=
  warpObj spl o ⟨(p.h : Int), (p.w : Int)⟩ (.fam pv p.T) wl (p.effOrder order) p.mode.pyName p.mode.pyCval

/-- what an operation returns -/
def Plan2.result (p : Plan2) (spl : Spl) (pv : PinvProvider) (o : Obj) (order : Nat) (wl rt : Bool) : Ret :=
  mkRet rt (p.execObj spl pv o order wl) (.fam pv p.T)

/-- `Image.crop` after the warp: the pixels of the result are overwritten by the block of the source
(`fix: Image.crop … bit-exact`), mask and landmarks stay those of the warp -/
def Plan2.cropResult (p : Plan2) (spl : Spl) (o : Obj) (rt : Bool) : Ret :=
  (p.result spl .translation o 0 true rt).setPixels
    (pixelBlock o [(truncR p.T.tx, truncR p.T.tx + (p.h : Int)), (truncR p.T.ty, truncR p.T.ty + (p.w : Int))])

/-! ### `warp_to_mask` on objects -/

/-- the pixels `warp_to_mask` writes: at the `True` pixels of the template the source sampled at `T(p)`, elsewhere
the blank fill -/
def warpToMaskChannels (spl : Spl) (o tmpl : Obj) (T : TObj) (order : Nat) (mode : String) (cval : Rat) :
    List (Int → Int → Rat) :=
  o.pix.ch.map fun f => fun i j =>
    if (imgOfObj tmpl).px i j = 0 then 0
    else samplerOf spl (clsOrder o.cls order) (effMode o.pix.isBool mode cval) ⟨o.pix.h, o.pix.w, f⟩ (T.app (gridPt2 i j))

/-- `Image.warp_to_mask` (`Image._build_warp_to_mask`): a `MaskedImage` on the template, float pixels -/
def imageWarpToMask (spl : Spl) (o tmpl : Obj) (T : TObj) (wl : Bool) (order : Nat) (mode : String) (cval : Rat) : Obj :=
  ⟨.masked, ⟨tmpl.pix.h, tmpl.pix.w, warpToMaskChannels spl o tmpl T order mode cval, false⟩, some (imgOfObj tmpl),
   warpLms o T wl, o.path⟩

/-- `BooleanImage.warp_to_mask` (`BooleanImage._build_warp_to_mask`): a copy of the template whose pixels are
replaced (all of them when the template is all `True`, else those under the template) by the source sampled with
order 0; the copy keeps the template's own landmarks / path unless the source supplies them -/
def booleanWarpToMask (spl : Spl) (o tmpl : Obj) (T : TObj) (wl : Bool) (mode : String) (cval : Rat) : Obj :=
  let s := samplePixels spl o.pix (fun p => T.app p) mode 0 cval
  let base := if allTrue tmpl then setPixelsSampled tmpl s else fromSampledMasked tmpl s
  { base with lms := if wl && hasLandmarks o then o.lms.map T.pinv.app else base.lms,
              path := if o.path.isSome then o.path else base.path }

/-! ### `constrain_landmarks_to_bounds`, `constrain_to_pointcloud` on objects -/

/-- `Image.constrain_landmarks_to_bounds()`: every landmark clamped into the image, pixels and mask untouched -/
def constrainLandmarksObj (o : Obj) : Obj := { o with lms := o.lms.map (constrainLandmark o.pix.h o.pix.w) }

/-- `BooleanImage.constrain_to_pointcloud(pointcloud, point_in_pointcloud)`: nothing is resampled or re-framed —
shape, landmarks and path stay; pixel `(i, j)` becomes the result of the containment test when it lies in the
integer bounding box of the point cloud (and in the image), `False` elsewhere -/
def constrainToPointcloudObj (inside : PipFn → List V2 → V2 → Bool) (f : PipFn) (o : Obj) (pc : List V2) : Obj :=
  let lo := vtrunc (boundsOf pc 0).1
  let hi := vtrunc (boundsOf pc 0).2
  let ch' := o.pix.ch.map fun _ => fun (i j : Int) =>
    if decide (lo.x ≤ i ∧ i ≤ hi.x ∧ 0 ≤ i ∧ i < (o.pix.h : Int)) && decide (lo.y ≤ j ∧ j ≤ hi.y ∧ 0 ≤ j ∧ j < (o.pix.w : Int))
    then (if inside f pc (gridPt2 i j) then (1 : Rat) else 0) else 0
  { o with pix := { o.pix with ch := ch' } }

/-! ### the pyramids on objects -/

/-- the levels a generator yields: `L` so far (the last one is `cur`), then `n` more steps (any object type: the 2-D and
the 3-D objects) -/
def levelsFrom {ε α : Type} (step : α → Except ε α) : Nat → List α → α → Except ε (List α)
  | 0, L, _ => .ok L
  | n + 1, L, cur =>
    match step cur with
    | .error e => .error e
    | .ok o' => levelsFrom step n (L ++ [o']) o'

/-- the image itself, then `n` steps -/
def levelsObj {ε α : Type} (step : α → Except ε α) (n : Nat) (o : α) : Except ε (List α) :=
  levelsFrom step n [o] o

/-- one level step of `Image.pyramid` as a plan: `image.rescale(1.0 / downscale)` -/
def pyramidStepObj (spl : Spl) (downscale : Rat) (o : Obj) : Except Err Obj :=
  (pyramidStep2 o.pix.h o.pix.w downscale).map fun p => p.execObj spl .nonUniformScale o 1 true

/-- one level step of `Image.gaussian_pyramid`: blur, then the pyramid step -/
def gaussStepObj (spl : Spl) (kern : Rat → List Rat) (downscale : Rat) (sigma : Option Rat) (o : Obj) : Except Err Obj :=
  pyramidStepObj spl downscale (gaussianFilter kern o sigma)

end MenpoModel.C01
