/-
Line-protocol codec shared by every driver (Mathlib-free, core Lean only).

A request line is a list of space separated tokens; numbers are exact rationals
`p` or `p/q`.  A driver is a pure function `List String → String`; `runDriver`
feeds it stdin line by line and prints one result line per request line.
This file is parsing glue (trusted base, exercised by the correspondence);
no theorem is about it.
-/

namespace MenpoModel.Codec

def parseRat (s : String) : Option Rat :=
  match s.splitOn "/" with
  | [a] => a.toInt?.map (fun (i : Int) => (i : Rat))
  | [a, b] =>
    match a.toInt?, b.toNat? with
    | some p, some q => if q = 0 then none else some (mkRat p q)
    | _, _ => none
  | _ => none

def fmtRat (r : Rat) : String :=
  if r.den = 1 then toString r.num else toString r.num ++ "/" ++ toString r.den

def fmtRats (l : List Rat) : String := " ".intercalate (l.map fmtRat)
def fmtInts (l : List Int) : String := " ".intercalate (l.map toString)
def fmtNats (l : List Nat) : String := " ".intercalate (l.map toString)
def fmtBools (l : List Bool) : String := " ".intercalate (l.map fun b => if b then "1" else "0")
def fmtMat (m : List (List Rat)) : String := " ".intercalate (m.map fmtRats)

/-- token-stream parser -/
abbrev P := StateT (List String) Option

def tok : P String := fun s => match s with
  | [] => none
  | t :: ts => some (t, ts)

def pNat : P Nat := do let t ← tok; (t.toNat? : Option Nat)
def pInt : P Int := do let t ← tok; (t.toInt? : Option Int)
def pRat : P Rat := do let t ← tok; (parseRat t : Option Rat)
def pBool : P Bool := do let t ← tok; if t == "1" then pure true else if t == "0" then pure false else failure

def pMany {α} (p : P α) : Nat → P (List α)
  | 0 => pure []
  | n+1 => do let x ← p; let xs ← pMany p n; pure (x :: xs)

/-- `n x₁ … xₙ` -/
def pList {α} (p : P α) : P (List α) := do let n ← pNat; pMany p n
/-- `r c x₁₁ … x_rc` row major -/
def pMat : P (List (List Rat)) := do
  let r ← pNat; let c ← pNat; pMany (pMany pRat c) r
/-- optional rational: `nan` is `none` -/
def pORat : P (Option Rat) := do
  let t ← tok
  if t == "nan" then pure none else match parseRat t with
    | some r => pure (some r)
    | none => failure

def pEnd : P Unit := fun s => match s with
  | [] => some ((), [])
  | _ => none

def runP {α} (p : P α) (toks : List String) : Option α :=
  match (do let x ← p; pEnd; pure x : P α) toks with
  | some (x, _) => some x
  | none => none

def tokens (line : String) : List String :=
  (line.trimAscii.toString.splitOn " ").filter (· ≠ "")

partial def loop (h : IO.FS.Stream) (out : IO.FS.Stream) (step : List String → String) : IO Unit := do
  let line ← h.getLine
  if line.isEmpty then return ()
  let toks := tokens line
  match toks with
  | [] => out.putStrLn "" ; loop h out step
  | id :: rest =>
    out.putStrLn (id ++ " " ++ step rest)
    loop h out step

/-- every request line is `<case-id> <op> <args…>`; the reply is `<case-id> <result>` -/
def runDriver (step : List String → String) : IO Unit := do
  loop (← IO.getStdin) (← IO.getStdout) step

end MenpoModel.Codec
