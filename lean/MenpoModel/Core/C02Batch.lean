/-
C02 — what `Transform.apply` hands to `_transform`: the closure  x ↦ self._apply_batched(x, batch_size),
and the `_apply` of the transform classes that are pure plumbing (menpo/transform/base/__init__.py
`Transform._apply_batched`, menpo/transform/base/composable.py `TransformChain._apply`,
menpo/transform/__init__.py `WithDims._apply`, menpo/transform/homogeneous/base.py `Homogeneous._apply`).
Core Lean only.
-/
import MenpoModel.Core.C02

namespace MenpoModel.C02

/-- `[x[lo:lo+k] for lo in range(0, n_points, k)]` (fuel = number of rows) -/
def chunksF : Nat → Nat → Arr → List Arr
  | 0, _, _ => []
  | fuel + 1, k, x => if x.isEmpty then [] else x.take k :: chunksF fuel k (x.drop k)

def chunks (k : Nat) (x : Arr) : List Arr := chunksF x.length k x

/-- `Transform._apply_batched(x, batch_size)` for `batch_size` `None` or a positive int:
`if batch_size is None: return self._apply(x)`; `if n_points == 0: return self._apply(x)`;
otherwise `np.vstack([self._apply(x[lo:lo+batch_size]) for lo in range(0, n_points, batch_size)])`.
(TOTAL model, used for `batch_size` `None` or positive.  `batch_size <= 0` makes `range` / `np.vstack` raise ValueError:
that branch is modelled by `applyBatchedE`, Core/C02Src.lean, which is what the translated source is proved equal to.) -/
def applyBatched (f : Arr → Arr) (batch : Option Nat) (x : Arr) : Arr :=
  match batch with
  | none => f x
  | some k => if x.isEmpty then f x else ((chunks k x).map f).flatten

/-- `TransformChain._apply`: `reduce(lambda x_i, tr: tr._apply(x_i), self.transforms, x)` -/
def chainFn (fs : List (Arr → Arr)) : Arr → Arr := fun x => fs.foldl (fun acc f => f acc) x

/-- `WithDims._apply`: `x[:, dims]` (a list of in-range column indices) -/
def withDims (dims : List Nat) : Arr → Arr := fun x => x.map fun row => dims.map fun j => row.getD j 0

def dotRow (r x : List Rat) : Rat := (List.zipWith (· * ·) r x).foldl (· + ·) 0

/-- `Homogeneous._apply`: `h_y = [x, 1]·Hᵀ; return (h_y / h_y[:, -1])[:, :-1]` (division by 0 left as 0 where numpy gives
nan / inf: the model is the code only for points whose homogeneous coordinate `w` is not 0 — always 1 for the affine family,
`affine_eq_hom`) -/
def homApply (H : Arr) : Arr → Arr := fun a =>
  a.map fun x =>
    let hx := x ++ [1]
    let hy := H.map fun r => dotRow r hx
    let w := hy.getLastD 1
    (hy.dropLast).map fun y => y / w

/-- `Affine._apply`: `np.dot(x, self.linear_component.T) + self.translation_component`
(`linear_component = h_matrix[:-1, :-1]`, `translation_component = h_matrix[:-1, -1]`) — what every subclass of
Affine (Similarity, Rotation, Translation, the scales, the alignment classes) runs -/
def affineApply (H : Arr) : Arr → Arr := fun a =>
  a.map fun x => (H.dropLast).map fun r => dotRow r.dropLast x + r.getLastD 0

/-- `H` is the homogeneous matrix of an affine map in `d` dimensions: `d` rows of length `d + 1` and `[0 … 0 1]` -/
def AffineWF (d : Nat) (H : Arr) : Prop :=
  ∃ rows, H = rows ++ [List.replicate d 0 ++ [1]] ∧ ∀ r, r ∈ rows → r.length = d + 1

/-! ### which class supplies `_apply` / `_apply_batched` / `apply` of each transform class (regenerated, `Generated/C02Dispatch`) -/

inductive TSup where
  | Transform | Homogeneous | Affine | TransformChain | WithDims | ThinPlateSplines | AbstractPWA | RBF
  | absent | unknown
deriving DecidableEq, Repr, Inhabited

structure TRow where
  cls : String
  apply : TSup      -- `_apply`
  batched : TSup    -- `_apply_batched`
  entry : TSup      -- `apply` (the public entry point; the model's `applyT` transcribes `Transform.apply`)
deriving DecidableEq, Repr, Inhabited

/-- what the model is written against.  `_apply`: Homogeneous ↦ `homApply`, Affine ↦ `affineApply`, TransformChain ↦
`chainFn`, WithDims ↦ `withDims`; ThinPlateSplines / AbstractPWA / RBF are contract parameters (the table of what
the real code returns).  `_apply_batched`: `Transform`'s is `applyBatched`; AbstractPWA's — and TransformChain's,
which delegates to it — cut and stack the same way and differ only in how a TriangleContainmentError is reported. -/
def expectedApplyTable : List TRow := [
  ⟨"Affine", .Affine, .Transform, .Transform⟩,
  ⟨"AlignmentAffine", .Affine, .Transform, .Transform⟩,
  ⟨"AlignmentRotation", .Affine, .Transform, .Transform⟩,
  ⟨"AlignmentSimilarity", .Affine, .Transform, .Transform⟩,
  ⟨"AlignmentTranslation", .Affine, .Transform, .Transform⟩,
  ⟨"AlignmentUniformScale", .Affine, .Transform, .Transform⟩,
  ⟨"Homogeneous", .Homogeneous, .Transform, .Transform⟩,
  ⟨"NonUniformScale", .Affine, .Transform, .Transform⟩,
  ⟨"PiecewiseAffine", .AbstractPWA, .AbstractPWA, .Transform⟩,
  ⟨"R2LogR2RBF", .RBF, .Transform, .Transform⟩,
  ⟨"R2LogRRBF", .RBF, .Transform, .Transform⟩,
  ⟨"Rotation", .Affine, .Transform, .Transform⟩,
  ⟨"Similarity", .Affine, .Transform, .Transform⟩,
  ⟨"ThinPlateSplines", .ThinPlateSplines, .Transform, .Transform⟩,
  ⟨"TransformChain", .TransformChain, .TransformChain, .Transform⟩,
  ⟨"Translation", .Affine, .Transform, .Transform⟩,
  ⟨"UniformScale", .Affine, .Transform, .Transform⟩,
  ⟨"WithDims", .WithDims, .Transform, .Transform⟩ ]

/-- `Transform.apply(x, batch_size)`: the closure given to `_transform` batches; a bare array is batched
directly -/
def applyT (d : Dispatch) (f : Arr → Arr) (batch : Option Nat) (a : Arg) : Except Err Arg :=
  applyAny d (applyBatched f batch) a

/-- a transform whose `_apply` treats every point on its own (all of menpo's do): what batching relies on -/
def RowWise (f : Arr → Arr) : Prop := ∀ x y, f (x ++ y) = f x ++ f y

end MenpoModel.C02
