/-
C09 — the piecewise-affine point location inside the model.  Core Lean only (core `Rat`).

Transcribed, array operation by array operation, from menpo/transform/piecewiseaffine/base.py:
`barycentric_vectors`, `alpha_beta`, `containment_from_alpha_beta`, `index_alpha_beta`,
`AbstractPWA._rebuild_target_vectors`, `AbstractPWA._apply`, and from menpo/image/boolean.py:
`pwa_point_in_pointcloud`.  A 2-D point is a pair of rationals (every float64 is one).
-/
import MenpoModel.Core.C09

namespace MenpoModel.C09

abbrev Pt := Rat × Rat

/-- one triangle as menpo stores it: vertex `i` and the edge vectors `i→j`, `i→k` -/
structure Tri where
  i : Pt
  ij : Pt
  ik : Pt
  deriving DecidableEq, Repr, Inhabited

def dot (a b : Pt) : Rat := a.1 * b.1 + a.2 * b.2

/-- `barycentric_vectors` / `_rebuild_target_vectors`: `x[0], x[1] - x[0], x[2] - x[0]` -/
def Tri.ofVerts (a b c : Pt) : Tri := ⟨a, (b.1 - a.1, b.2 - a.2), (c.1 - a.1, c.2 - a.2)⟩

/-- `points[trilist]` followed by the differences; an index outside the point list gives the default
point (numpy would raise in the constructor; the harness never builds such a mesh) -/
def mkTris (pts : List Pt) (trilist : List (Nat × Nat × Nat)) : List Tri :=
  trilist.map fun t => Tri.ofVerts (pts.getD t.1 (0, 0)) (pts.getD t.2.1 (0, 0)) (pts.getD t.2.2 (0, 0))

/-- the Gram determinant `dot_jj * dot_kk - dot_jk * dot_jk` whose reciprocal is `d` -/
def Tri.gram (t : Tri) : Rat := dot t.ij t.ij * dot t.ik t.ik - dot t.ij t.ik * dot t.ij t.ik

/-- `alpha_beta` for one point against one triangle (one entry of the `(n_points, n_tris)` arrays) -/
def alphaBeta (t : Tri) (p : Pt) : Rat × Rat :=
  let ip : Pt := (p.1 - t.i.1, p.2 - t.i.2)
  let jj := dot t.ij t.ij
  let kk := dot t.ik t.ik
  let jk := dot t.ij t.ik
  let pj := dot ip t.ij
  let pk := dot ip t.ik
  let d := 1 / (jj * kk - jk * jk)
  ((kk * pj - jk * pk) * d, (jj * pk - jk * pj) * d)

/-- `logical_and(logical_and(alpha >= 0, beta >= 0), alpha + beta <= 1)` -/
def inTriangle (ab : Rat × Rat) : Bool := decide (0 ≤ ab.1) && decide (0 ≤ ab.2) && decide (ab.1 + ab.2 ≤ 1)

def contains (t : Tri) (p : Pt) : Bool := inTriangle (alphaBeta t p)

/-! ### `containment_from_alpha_beta` on the `(n_points, n_tris)` boolean array -/

/-- the `True` columns of one row in increasing order, columns numbered from `k` -/
def trueIdx (k : Nat) : List Bool → List Nat
  | [] => []
  | b :: bs => if b then k :: trueIdx (k + 1) bs else trueIdx (k + 1) bs

/-- `np.nonzero(point_containment)`: (point_index, tri_index) pairs in row-major order, rows numbered from `pi` -/
def nonzeroFrom (pi : Nat) : List (List Bool) → List (Nat × Nat)
  | [] => []
  | row :: rows => (trueIdx 0 row).map (fun t => (pi, t)) ++ nonzeroFrom (pi + 1) rows

/-- `index[point_index] = tri_index`: numpy assigns the pairs one after the other, so for a repeated
point index the last pair stays -/
def assign (index : List Nat) (pairs : List (Nat × Nat)) : List Nat :=
  pairs.foldl (fun idx pt => idx.set pt.1 pt.2) index

def containmentFromAlphaBeta (rows : List (List Bool)) : Except (List Bool) (List Nat) :=
  let pointInATriangle := rows.map fun r => r.any id
  if pointInATriangle.any (fun b => !b) then .error (pointInATriangle.map fun b => !b)
  else .ok (assign (List.replicate rows.length 0) (nonzeroFrom 0 rows))

/-- `index_alpha_beta`: the whole `(n_points, n_tris)` arrays of alpha/beta, the containment array, the index
vector, then `alpha[each_point, index]`, `beta[each_point, index]` -/
def indexAlphaBeta (ts : List Tri) (ps : List Pt) : Except (List Bool) (List (Nat × Rat × Rat)) :=
  let ab : List (List (Rat × Rat)) := ps.map fun p => ts.map fun t => alphaBeta t p
  match containmentFromAlphaBeta (ab.map fun row => row.map inTriangle) with
  | .error m => .error m
  | .ok index => .ok ((ab.zip index).map fun ri => (ri.2, (ri.1.getD ri.2 (0, 0)).1, (ri.1.getD ri.2 (0, 0)).2))

/-- `ti[tri_index] + alpha[:, None] * tij[tri_index] + beta[:, None] * tik[tri_index]` for one point -/
def bary (g : Tri) (a b : Rat) : Pt := (g.i.1 + a * g.ij.1 + b * g.ik.1, g.i.2 + a * g.ij.2 + b * g.ik.2)

/-- `AbstractPWA._apply` (with `PythonPWA.index_alpha_beta`): source triangles `src`, target triangles `tgt` -/
def pwaApply (src tgt : List Tri) (ps : List Pt) : Except (List Bool) (List Pt) :=
  match indexAlphaBeta src ps with
  | .error m => .error m
  | .ok iab => .ok (iab.map fun tab => bary (tgt.getD tab.1 default) tab.2.1 tab.2.2)

/-! ### the per-point reading of the same computation -/

/-- the triangle numpy ends up with: the highest-numbered one that contains the point -/
def lastTrue (row : List Bool) : Nat := (trueIdx 0 row).getLast?.getD 0

def locate (ts : List Tri) (p : Pt) : Nat := lastTrue (ts.map fun t => contains t p)

def pointMap (src tgt : List Tri) (p : Pt) : Pt :=
  let t := locate src p
  let ab := (src.map fun s => alphaBeta s p).getD t (0, 0)
  bary (tgt.getD t default) ab.1 ab.2

/-- the piecewise-affine transform as an abstract `Pwa`: domain = union of the (closed) source triangles -/
def toPwa (src tgt : List Tri) : Pwa Pt Pt :=
  { inDom := fun p => src.any fun t => contains t p, f := pointMap src tgt }

/-! ### `AbstractPWA._apply_batched` and `pwa_point_in_pointcloud` on top of it -/

/-- `apply(x, batch_size)`: `none` = no batching; zero points are never batched -/
def pwaApplyBatched (src tgt : List Tri) (k : Option Nat) (ps : List Pt) : Except (List Bool) (List Pt) :=
  match k with
  | none => pwaApply src tgt ps
  | some k =>
    if ps.length = 0 then pwaApply src tgt ps
    else finishBatches (foldBatchesE (pwaApply src tgt) (batches k ps))
where
  /-- the loop of the override over an arbitrary raising `_apply` (a successful batch contributes one `False`
  per point it holds) -/
  foldBatchesE (ap : List Pt → Except (List Bool) (List Pt)) : List (List Pt) → List Pt × List Bool × Bool
    | [] => ([], [], false)
    | c :: cs =>
      let (o, m, t) := foldBatchesE ap cs
      match ap c with
      | .ok r => (r ++ o, List.replicate c.length false ++ m, t)
      | .error e => (o, e ++ m, true)

/-- `pwa_point_in_pointcloud`: identity piecewise affine on the triangulated point cloud; all `True` when the
application succeeds, else the complement of the failure mask -/
def pointInPointcloud (ts : List Tri) (k : Option Nat) (ps : List Pt) : List Bool :=
  match pwaApplyBatched ts ts k ps with
  | .ok _ => List.replicate ps.length true
  | .error m => m.map fun b => !b

end MenpoModel.C09
