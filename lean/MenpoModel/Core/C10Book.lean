/-
C10 — bookkeeping state machine of `menpo.model.pca.PCAVectorModel` and the post-processing
of the eigen-witness in `menpo.math.decomposition.eigenvalue_decomposition`.

Core Lean only (no Mathlib): executed by the driver, quantified over by `Props/C10.lean`.
Transcribed branch for branch from the code that exists:

* state  `_components.shape[0]` (`rows`), `_eigenvalues` (`eig`), `_trimmed_eigenvalues`
  (`trimmed`), `_n_active_components` (`nActive`);
* `n_active_components` setter: python `float` form (variance fraction), python `int` form with both
  early-return branches, and the fall-through form taken by every other number type (`numpy.int64`:
  neither `isinstance(value, float)` nor `isinstance(value, int)`);  the float form *also* falls
  through, because `np.sum([...]) + 1` is a `numpy.int64`;
* `trim_components(None | int | float)`, `_constructor_helper(max_n_components)`;
* `original_variance, variance, variance_ratio, noise_variance, …` accessors.

Scalars are exact rationals; the float division/sum rounding of the code is outside the model
(DESIGN §3).  An operation that raises `ValueError` raises before any attribute is written.
-/

namespace MenpoModel.C10

/-- the state the PCA bookkeeping reads and writes -/
structure St where
  /-- `_components.shape[0]`, i.e. `n_components` -/
  rows : Nat
  /-- `_eigenvalues` -/
  eig : List Rat
  /-- `_trimmed_eigenvalues` -/
  trimmed : List Rat
  /-- `_n_active_components` -/
  nActive : Nat
deriving Repr, DecidableEq

inductive Err | value
deriving Repr, DecidableEq

/-- the argument of the setter / of `trim_components` by python type -/
inductive Val
  | int (k : Int)      -- python int
  | float (r : Rat)    -- python float (variance fraction)
  | npint (k : Int)    -- numpy integer: neither float nor int for `isinstance`
  /-- python float `r`, together with what the code's own float64 evaluation of
  `_total_variance_ratio()` (`tvr`) and `_total_eigenvalues_cumulative_ratio()` (`cum`) returned
  (rounded division / cumulative sum: *observed*, not assumed equal to the exact values).
  `float r` is the case where both are exact (`float_is_exact_obs`). -/
  | floatObs (r tvr : Rat) (cum : List Rat)
  /-- the *repaired* float form (notes/fixes/C10-float-fraction-rounding.diff): as `floatObs`, the count
  clamped to `n_components` — not what the code does today; modelled so that the correspondence keeps
  holding, and the theorems keep applying, if the repair is applied -/
  | floatObsClamped (r tvr : Rat) (cum : List Rat)
deriving Repr, DecidableEq

/-- `np.cumsum` -/
def cumsumFrom (acc : Rat) : List Rat → List Rat
  | [] => []
  | x :: xs => (acc + x) :: cumsumFrom (acc + x) xs

def cumsum (l : List Rat) : List Rat := cumsumFrom 0 l

/-- `ndarray.mean()` of a non-empty 1-D array -/
def lmean (l : List Rat) : Rat := l.sum / (l.length : Rat)

namespace St

/-- `original_variance()` -/
def originalVariance (s : St) : Rat := s.eig.sum + s.trimmed.sum
/-- `_total_variance()` -/
def totalVariance (s : St) : Rat := s.eig.sum
/-- `eigenvalues` property: the active prefix -/
def eigenvalues (s : St) : List Rat := s.eig.take s.nActive
/-- number of rows of the `components` property (`_components[:n_active]`) -/
def activeRows (s : St) : Nat := min s.nActive s.rows
/-- `variance()` -/
def variance (s : St) : Rat := s.eigenvalues.sum
/-- `variance_ratio()` -/
def varianceRatio (s : St) : Rat := s.variance / s.originalVariance
/-- `_total_variance_ratio()` -/
def totalVarianceRatio (s : St) : Rat := s.totalVariance / s.originalVariance
/-- `eigenvalues_ratio()` -/
def eigenvaluesRatio (s : St) : List Rat := s.eigenvalues.map (· / s.originalVariance)
/-- `_total_eigenvalues_ratio()` -/
def totalEigenvaluesRatio (s : St) : List Rat := s.eig.map (· / s.originalVariance)
/-- `eigenvalues_cumulative_ratio()` -/
def eigenvaluesCumulativeRatio (s : St) : List Rat := cumsum s.eigenvaluesRatio
/-- `_total_eigenvalues_cumulative_ratio()` -/
def totalCumRatio (s : St) : List Rat := cumsum s.totalEigenvaluesRatio

/-- everything that is not active: inactive eigenvalues and the trimmed pool
(the operand of `np.hstack` in `noise_variance`) -/
def discarded (s : St) : List Rat := s.eig.drop s.nActive ++ s.trimmed

/-- `noise_variance()` -/
def noiseVariance (s : St) : Rat :=
  if s.nActive = s.rows then
    if s.trimmed.length ≠ 0 then lmean s.trimmed else 0
  else lmean (s.eig.drop s.nActive ++ s.trimmed)

/-- `noise_variance_ratio()` -/
def noiseVarianceRatio (s : St) : Rat := s.noiseVariance / s.originalVariance

/-- the last statement of the setter: `if 0 < value <= self.n_components: … else: raise` -/
def finalSet (s : St) (v : Int) : Except Err St :=
  if 0 < v ∧ v ≤ (s.rows : Int) then .ok { s with nActive := v.toNat } else .error .value

/-- the `n_active_components` setter -/
def setActive (s : St) : Val → Except Err St
  | .float r =>
    if 0 < r ∧ r ≤ s.totalVarianceRatio then
      -- np.sum([r < value for r in self._total_eigenvalues_cumulative_ratio()]) + 1  (a numpy integer,
      -- so the `isinstance(value, int)` block is skipped)
      finalSet s (((s.totalCumRatio.filter (fun c => decide (c < r))).length : Int) + 1)
    else .error .value
  | .int k =>
    if k < 1 then .error .value
    else if k ≥ (s.rows : Int) then
      if s.nActive < s.rows then finalSet s (s.rows : Int)   -- value = self.n_components
      else .ok s                                             -- return (do nothing)
    else finalSet s k
  | .npint k => finalSet s k
  | .floatObs r tvr cum =>
    -- the same statements as `.float`, on the values the float evaluation produced
    if 0 < r ∧ r ≤ tvr then
      finalSet s (((cum.filter (fun c => decide (c < r))).length : Int) + 1)
    else .error .value
  | .floatObsClamped r tvr cum =>
    if 0 < r ∧ r ≤ tvr then
      finalSet s (min (((cum.filter (fun c => decide (c < r))).length : Int) + 1) (s.rows : Int))
    else .error .value

/-- `trim_components(n_components)` -/
def trim (s : St) (v : Option Val) : Except Err St :=
  match setActive s (match v with | none => Val.int s.nActive | some v => v) with
  | .error e => .error e
  | .ok s1 =>
    if s1.nActive < s1.rows then
      .ok { rows := min s1.nActive s1.rows
            eig := s1.eig.take s1.nActive
            trimmed := s1.trimmed ++ s1.eig.drop s1.nActive
            nActive := s1.nActive }
    else .ok s1

/-- rows of `Q` in `orthonormalize_against_inplace`: `np.linalg.qr` (reduced) of the
`d × (k1 + n_components)` matrix `hstack(other._components.T, self._components.T)`, transposed -/
def orthoQRows (d k1 rows : Nat) : Nat := min d (k1 + rows)

/-- `n_available_components = Q.shape[0] - linear_model.n_components` -/
def orthoAvail (d k1 rows : Nat) : Nat := orthoQRows d k1 rows - k1

/-- the active count `orthonormalize_against_inplace` saves before trimming -/
def orthoSavedActive (s : St) (nAvail : Nat) : Nat := if s.nActive < nAvail then s.nActive else nAvail

/-- bookkeeping part of `PCAVectorModel.orthonormalize_against_inplace(other)` where the model has
`d` features and `other` has `k1` components: `other.components = Q[:k1]` raises (shape mismatch)
when `Q` has fewer than `k1` rows; some of this model's components are lost when
`d < k1 + n_components`: it is trimmed to what is left and the saved active count restored. -/
def orthoAgainst (s : St) (d k1 : Nat) : Except Err St :=
  if orthoQRows d k1 s.rows < k1 then .error .value
  else if orthoAvail d k1 s.rows < s.rows then
    match s.trim (some (.int (orthoAvail d k1 s.rows))) with
    | .error e => .error e
    | .ok s1 =>
      if orthoSavedActive s (orthoAvail d k1 s.rows) < orthoAvail d k1 s.rows then
        s1.setActive (.int (orthoSavedActive s (orthoAvail d k1 s.rows)))
      else .ok s1
  else .ok s

/-- `inverse_noise_variance()`; `np.allclose(noise_variance, 0)` is `|noise| ≤ 1e-8` -/
def inverseNoiseVariance (s : St) : Except Err Rat :=
  if (if s.noiseVariance < 0 then -s.noiseVariance else s.noiseVariance) ≤ 1 / 100000000 then .error .value
  else .ok (s.noiseVariance)⁻¹

end St

/-- state right after `_constructor_helper` before the optional trim: all components active -/
def init (rows : Nat) (eig : List Rat) : St :=
  { rows := rows, eig := eig, trimmed := [], nActive := rows }

/-- `_constructor_helper(…, max_n_components)` -/
def build (rows : Nat) (eig : List Rat) (maxN : Option Val) : Except Err St :=
  match maxN with
  | none => .ok (init rows eig)
  | some v => (init rows eig).trim (some v)

/-- the operations of a bookkeeping history -/
inductive Op
  | set (v : Val)
  | trim (v : Option Val)
  /-- `orthonormalize_against_inplace(other)`: `d = n_features`, `k1 = other.n_components` -/
  | ortho (d k1 : Nat)
deriving Repr, DecidableEq

def St.apply (s : St) : Op → Except Err St
  | .set v => s.setActive v
  | .trim v => s.trim v
  | .ortho d k1 => s.orthoAgainst d k1

/-- an operation that raises leaves the object as it was -/
def St.step (s : St) (o : Op) : St :=
  match s.apply o with
  | .ok s' => s'
  | .error _ => s

def St.run (s : St) (ops : List Op) : St := ops.foldl St.step s

/-! ### post-processing of the eigen-witness (`eigenvalue_decomposition`)

The witness is the list of `(eigenvalue, payload)` pairs returned by `eigh`
(payload = the eigenvector, for the driver its column index). -/

/-- `np.max(np.abs(eigenvalues))` -/
def maxAbs : List Rat → Rat
  | [] => 0
  | x :: xs => max (if x < 0 then -x else x) (maxAbs xs)

/-- insertion into a descending list (structural recursion, so that it also reduces in the kernel) -/
def insertDesc {α} (x : Rat × α) : List (Rat × α) → List (Rat × α)
  | [] => [x]
  | y :: ys => if y.1 ≤ x.1 then x :: y :: ys else y :: insertDesc x ys

/-- descending order of the first component (`np.argsort(eigenvalues)[::-1]`; ties are excluded
by the generators, the order among equal eigenvalues is unspecified in numpy) -/
def sortDesc {α} : List (Rat × α) → List (Rat × α)
  | [] => []
  | x :: xs => insertDesc x (sortDesc xs)

def postprocess {α} (eps : Rat) (isInverse : Bool) (ev : List (Rat × α)) : List (Rat × α) :=
  let sorted := sortDesc ev
  let limit := maxAbs (sorted.map Prod.fst) * eps
  let pos := sorted.filter (fun p => decide (0 < p.1))
  let kept := pos.filter (fun p => decide (limit < p.1))
  if isInverse then kept.reverse.map (fun p => (p.1⁻¹, p.2)) else kept

end MenpoModel.C10
