/-
C19 — the vocabulary of the SOURCE TRANSLATION of `menpo.base.LazyList` (harness/trans_c19.py writes
`Generated/C19Src.lean` from the source text of the working tree on every run) and the Core definitions the
translated functions are proved equal to (`GenProps/C19Src.lean`).

Python objects the methods receive are records of exactly the facts the code asks of them:
`GArg` (argument of `__getitem__`), `MArg` (argument of `map`), `AArg` (right operand of `+`), `PFn` (a callable
given to the constructors).  The CPython primitives the code is built from (`list.__getitem__`, `[x] * n`,
`zip(*…)`, `chain(*…)`, `range`, `functools.partial`) are defined here once, from the language reference.
Core Lean only.
-/
import MenpoModel.Core.LazyList
import MenpoModel.Core.C19Reads
import MenpoModel.Core.C19Dispatch
import MenpoModel.Core.PyLoop

namespace MenpoModel.LazyList
open MenpoModel.PyData

/-- the object `LazyList(callables)`: its only attribute -/
structure LL where
  callables : List LThunk
deriving Repr, DecidableEq

def LL.setCallables (_s : LL) (cs : List LThunk) : LL := ⟨cs⟩

/-- a lazy-list object CREATED by the running method (`Copyable.copy(self)`, the blank `self` of `__init__`).  Only such
an object may be written (`x._callables = …` is translated to `Fresh.setCallables`), so a method that writes its
receiver — `new = self` instead of `new = self.copy()` — no longer type-checks against the Core definitions: the
"receivers behave afterwards as before" clause is visible to the translated obligations as a typing discipline -/
structure Fresh where
  obj : LL
deriving Repr, DecidableEq

def LL.fresh (s : LL) : Fresh := ⟨s⟩
def Fresh.setCallables (_x : Fresh) (cs : List LThunk) : Fresh := ⟨⟨cs⟩⟩
def Fresh.callables (x : Fresh) : List LThunk := x.obj.callables

/-- returning an object: a fresh one becomes an ordinary lazy list -/
class ToLL (α : Type) where
  toLL : α → LL
instance : ToLL LL := ⟨id⟩
instance : ToLL Fresh := ⟨Fresh.obj⟩

/-! ### CPython primitives -/

/-- an object as `list.__getitem__` sees it -/
inductive PyKey where
  | idx (i : Int)                       -- anything whose `__index__` works: int, bool, numpy integer, 0-d int array
  | slice (a b c : Option Int)
  | other                               -- anything else: TypeError
deriving Repr, DecidableEq

/-- one item produced by iterating the argument of `__getitem__` -/
inductive PyIdx where
  | idx (i : Int)
  | other                               -- an item `list.__getitem__` refuses with TypeError; also stands for an
                                        -- iteration that raises TypeError at this position (same abort, nothing ran)
deriving Repr, DecidableEq

inductive Item where
  | elem (t : LThunk)
  | sub (l : List LThunk)
deriving Repr, DecidableEq

/-- `l[i]` for an integer-like `i` -/
def listGetInt (l : List LThunk) (i : Int) : Except Err LThunk :=
  match normIndex l.length i with
  | none => .error .index
  | some j => match l[j]? with
    | some t => .ok t
    | none => .error .index

def listGetIdx (l : List LThunk) : PyIdx → Except Err LThunk
  | .idx i => listGetInt l i
  | .other => .error .type

/-- `l[k]` -/
def listGet (l : List LThunk) : PyKey → Except Err Item
  | .idx i => mapE Item.elem (listGetInt l i)
  | .slice a b c => match sliceIndices a b c l.length with
    | some r => .ok (.sub (gather l r))
    | none => .error .value
  | .other => .error .type

/-- the first error wins, as in a list display / comprehension evaluated left to right -/
def seqE {α} : List (Except Err α) → Except Err (List α)
  | [] => .ok []
  | .error e :: _ => .error e
  | .ok a :: t => mapE (a :: ·) (seqE t)

/-- `[x] * n` (any `n ≤ 0` gives the empty list) -/
def Py.listMul {α} (l : List α) (n : Int) : List α := (List.replicate n.toNat l).flatten

def Py.minLen {α} : List (List α) → Nat
  | [] => 0
  | [l] => l.length
  | l :: t => min l.length (Py.minLen t)

/-- `zip(*ls)`: the i-th tuple holds the i-th item of every list; stops with the shortest; `zip()` is empty -/
def Py.zipStar {α} (ls : List (List α)) : List (List α) :=
  (List.range (Py.minLen ls)).map fun i => ls.filterMap (·[i]?)

/-- `chain(*ls)` -/
def Py.chainStar {α} (ls : List (List α)) : List α := ls.flatten

/-- `list(x)` of a list / an iterator over one: a new list with the same items -/
def Py.list {α} (l : List α) : List α := l

/-- `range(n)` -/
def Py.range (n : Int) : List Int := (List.range n.toNat).map Int.ofNat

class PyLen (α : Type) where
  len : α → Nat
instance {β} : PyLen (List β) := ⟨List.length⟩
instance : PyLen LL := ⟨fun s => s.callables.length⟩
instance : PyLen Fresh := ⟨fun s => s.callables.length⟩

/-- `a * b` when one side is a list and the other an int -/
class PyMul (α β : Type) (γ : outParam Type) where
  mul : α → β → γ
instance {α} : PyMul (List α) Int (List α) := ⟨Py.listMul⟩
instance {α} : PyMul Int (List α) (List α) := ⟨fun n l => Py.listMul l n⟩

class PyIter (α : Type) (β : outParam Type) where
  iter : α → List β
instance {β} : PyIter (List β) β := ⟨id⟩

/-! ### `__getitem__` -/

/-- what `__getitem__` asks of its argument -/
structure GArg where
  iterable : Bool        -- isinstance(x, collections.abc.Iterable)
  zeroDim : Bool         -- getattr(x, 'ndim', None) == 0
  isInt : Bool           -- isinstance(x, int)
  hasIndex : Bool        -- hasattr(x, '__index__')
  items : List PyIdx     -- what `for s in x` yields
  key : PyKey            -- how `list.__getitem__` sees x
deriving Repr, DecidableEq

instance : PyIter GArg PyIdx := ⟨GArg.items⟩

class PyGetItem (κ : Type) (ρ : outParam Type) where
  get : List LThunk → κ → Except Err ρ
instance : PyGetItem PyIdx LThunk := ⟨listGetIdx⟩
instance : PyGetItem GArg Item := ⟨fun l x => listGet l x.key⟩

/-- what `__getitem__` returns: the value of ONE callable (which the caller's log sees evaluated), or a new list -/
inductive GetRes where
  | value (t : LThunk)
  | list (l : LL)
deriving Repr, DecidableEq

/-- `<item>()`: calling what `list.__getitem__` returned (a list of callables is not callable) -/
def Py.call : Except Err Item → Except Err GetRes
  | .ok (.elem t) => .ok (.value t)
  | .ok (.sub _) => .error .type
  | .error e => .error e

/-- what can be handed to the constructor `LazyList(…)` -/
class ToCallables (α : Type) where
  toE : α → Except Err (List LThunk)
instance : ToCallables (List LThunk) := ⟨.ok⟩
instance : ToCallables (List (Except Err LThunk)) := ⟨seqE⟩
/-- `LazyList(self._callables[x])`: a slice gives a list; a single callable would give an object that is not a
lazy list at all (every later use raises TypeError) — `getitem_wrap_never_elem` shows the code never gets there -/
instance : ToCallables (Except Err Item) := ⟨fun
  | .ok (.sub l) => .ok l
  | .ok (.elem _) => .error .type
  | .error e => .error e⟩

def LL.new {α} [ToCallables α] (x : α) : Except Err LL := mapE LL.mk (ToCallables.toE x)

/-- `LazyList(x)` with the TRANSLATED `__init__` as the constructor body -/
def LL.newWith {α} [ToCallables α] (init : List LThunk → LL) (x : α) : Except Err LL := mapE init (ToCallables.toE x)

class ToGetRes (α : Type) where
  ret : α → Except Err GetRes
instance : ToGetRes (Except Err LL) := ⟨mapE GetRes.list⟩
instance : ToGetRes (Except Err GetRes) := ⟨id⟩

/-- `LazyList.__getitem__` (the dispatch of the repaired tree: a 0-dimensional array is integer-like) -/
def getitemFull (s : LL) (x : GArg) : Except Err GetRes :=
  if x.iterable && !x.zeroDim then mapE (fun l => GetRes.list ⟨l⟩) (seqE (x.items.map (listGetIdx s.callables)))
  else if x.isInt || x.hasIndex then Py.call (listGet s.callables x.key)
  else match listGet s.callables x.key with
    | .ok (.sub l) => .ok (.list ⟨l⟩)
    | .ok (.elem _) => .error .type
    | .error e => .error e

/-- the arguments the property quantifies over -/
def GArg.ofInt (i : Int) : GArg :=
  { iterable := false, zeroDim := false, isInt := true, hasIndex := true, items := [], key := .idx i }
/-- a numpy integer scalar / 0-dimensional integer array -/
def GArg.ofNpInt (zeroD : Bool) (i : Int) : GArg :=
  { iterable := zeroD, zeroDim := true, isInt := false, hasIndex := true, items := [], key := .idx i }
/-- list / tuple / ndarray / range / generator of integer-likes (`arr`: an ndarray also has `__index__`) -/
def GArg.ofInts (arr : Bool) (l : List Int) : GArg :=
  { iterable := true, zeroDim := false, isInt := false, hasIndex := arr, items := l.map .idx, key := .other }
def GArg.ofSlice (a b c : Option Int) : GArg :=
  { iterable := false, zeroDim := false, isInt := false, hasIndex := false, items := [], key := .slice a b c }
def GArg.ofSel : Sel → GArg
  | .ints l => .ofInts false l
  | .slice a b c => .ofSlice a b c

/-- an argument without `__index__` is never accepted by a list as an index, and a slice object is neither
integer-like nor iterable -/
def GArg.wf (x : GArg) : Prop :=
  (∀ i, x.key = .idx i → x.hasIndex = true) ∧
  (∀ a b c, x.key = .slice a b c → x.hasIndex = false ∧ x.isInt = false)

/-! ### `map` -/

structure MArg where
  iterable : Bool        -- isinstance(f, Iterable)
  callable : Bool        -- callable(f)
  len : Option Nat       -- len(f); none = TypeError (a generator)
  fns : List Nat         -- what iterating f yields (ids of the callables, or of non-callable objects)
  fn : Nat               -- f itself, wrapped as it is
deriving Repr, DecidableEq

def MArg.lenE (f : MArg) : Except Err Nat :=
  match f.len with
  | some n => .ok n
  | none => .error .type

/-- iterating the argument of `map` (`zip(f, …)`) -/
instance : PyIter MArg Nat := ⟨MArg.fns⟩

/-- the function `partial(delayed, g, x)` wraps `x` with: an item of the iteration, or the argument itself -/
class ToFnId (α : Type) where
  fid : α → Nat
instance : ToFnId Nat := ⟨id⟩
instance : ToFnId MArg := ⟨MArg.fn⟩

/-- `itertools.repeat(x)`: the endless iterator of one value -/
structure Py.Rep (α : Type) where
  val : α

/-- `zip(a, b)` where `b` is a list: pairs until the shorter is exhausted (an endless `repeat` never is) -/
class PyZip (α β : Type) (γ : outParam Type) where
  zip : α → β → γ
instance {α β} : PyZip (List α) (List β) (List (α × β)) := ⟨List.zip⟩
instance {β} : PyZip MArg (List β) (List (Nat × β)) := ⟨fun f l => List.zip f.fns l⟩
instance {α β} : PyZip (Py.Rep α) (List β) (List (α × β)) := ⟨fun r l => l.map fun c => (r.val, c)⟩

def MArg.single (f : Nat) : MArg := { iterable := false, callable := true, len := none, fns := [], fn := f }
def MArg.ofList (fs : List Nat) : MArg :=
  { iterable := true, callable := false, len := some fs.length, fns := fs, fn := 0 }

def copyFull (s : LL) : LL := ⟨s.callables⟩

def mapFull (s : LL) (f : MArg) : Except Err LL :=
  if f.iterable && f.callable then .error .value
  else if f.iterable then
    match f.len with
    | none => .error .type
    | some n => if n = s.callables.length then .ok ⟨List.zipWith LThunk.app f.fns s.callables⟩ else .error .value
  else .ok ⟨s.callables.map (.app f.fn)⟩

/-- `delayed(delay_f, delay_x)` = `delay_f(delay_x())`: calling a thunk, then a (possibly non-callable) object on
its result; value and log -/
def Py.callThunk (e : Env) (bad : Nat → Bool) (t : LThunk) : Except Err Int × List Ev := t.evalLogX e bad

def Py.callFn (e : Env) (bad : Nat → Bool) (f : Nat) (r : Except Err Int × List Ev) : Except Err Int × List Ev :=
  match r with
  | (.ok v, l) => if bad f then (.error .type, l) else (.ok (e.fn f v), l ++ [.call f v])
  | (.error x, l) => (.error x, l)

/-! ### `repeat`, `+`, the constructors -/

def repeatFull (s : LL) (n : Int) : LL := ⟨s.callables.flatMap (List.replicate (repCount n))⟩

/-- a callable handed to `init_from_iterable` / `init_from_index_callable` -/
inductive PFn where
  | none                 -- Python `None`
  | base (b : Nat)       -- an index callable `g_b`
  | fn (g : Nat)         -- a logged one-argument function
deriving Repr, DecidableEq

def PFn.isNone : PFn → Bool
  | .none => true
  | _ => false

def PFn.ofOpt : Option Nat → PFn
  | Option.none => .none
  | some g => .fn g

class PyPartial (φ : Type) where
  ap : φ → Int → Except Err LThunk
/-- `partial(f, x)` (`partial(None, x)` is a TypeError) -/
instance : PyPartial PFn := ⟨fun f x => match f with
  | .none => .error .type
  | .base b => .ok (.base b x.toNat)
  | .fn g => .ok (.app g (.const x))⟩
/-- `partial(h, x)` for a pure, unlogged Python function `h` defined on the spot: evaluates to `h x`, logs nothing -/
@[default_instance]
instance : PyPartial (Int → Int) := ⟨fun h x => .ok (.const (h x))⟩

def initIterFull (vs : List Int) (f : PFn) : Except Err LL :=
  match f with
  | .none => .ok ⟨vs.map .const⟩
  | .base b => .ok ⟨vs.map fun x => .base b x.toNat⟩
  | .fn g => .ok ⟨vs.map fun x => .app g (.const x)⟩

def initIndexFull (f : PFn) (n : Int) : Except Err LL :=
  match f with
  | .none => if n ≤ 0 then .ok ⟨[]⟩ else .error .type
  | .base b => .ok ⟨(List.range n.toNat).map (.base b)⟩
  | .fn g => .ok ⟨(Py.range n).map fun i => .app g (.const i)⟩

structure AArg where
  isLazy : Bool          -- isinstance(other, LazyList)
  iterable : Bool        -- isinstance(other, Iterable)
  callables : List LThunk  -- other._callables (a lazy list)
  items : List Int       -- what iterating other yields (a plain iterable)
deriving Repr, DecidableEq

def AArg.ofLL (l : LL) : AArg := { isLazy := true, iterable := true, callables := l.callables, items := [] }
def AArg.ofList (vs : List Int) : AArg := { isLazy := false, iterable := true, callables := [], items := vs }
def AArg.notIterable : AArg := { isLazy := false, iterable := false, callables := [], items := [] }

class PyAdd (α : Type) (ρ : outParam Type) where
  add : (LL → AArg → Except Err LL) → α → α → ρ
instance : PyAdd (List LThunk) (List LThunk) := ⟨fun _ a b => a ++ b⟩
/-- `a + b` on lazy lists is `a.__add__(b)`: the recursive call -/
instance : PyAdd LL (Except Err LL) := ⟨fun rec a b => rec a (AArg.ofLL b)⟩

def addFull (s : LL) (o : AArg) : Except Err LL :=
  if o.isLazy then .ok ⟨s.callables ++ o.callables⟩
  else if o.iterable then .ok ⟨s.callables ++ o.items.map .const⟩
  else .error .value

end MenpoModel.LazyList
