/-
C07 — vocabulary of the SOURCE TRANSLATION (`harness/trans_c07.py` → `Generated/C07Src.lean`).

`Generated/C07Src.lean` is rewritten on every run from the source text of the alignment code of the working tree
(harness/py2lean2.py); every Python expression / statement of those functions is mapped, by the rule tables of
`harness/trans_c07.py`, onto an operation of `Core/C07Align.lean` or onto one of the small operations below (what a
numpy idiom such as `h[:-1, -1] = v`, `np.fill_diagonal(h, s)`, `E[-1, -1] = d`, `np.concatenate([a, b], axis=1)` means
on the exact model).  `GenProps/C07Src.lean` proves each translated function equal, for all arguments, to the Core
definition the C07 theorems are about.  No Mathlib.
-/
import MenpoModel.Core.C07Align

namespace MenpoModel.C07

/-! ### external numerical routines (contract parameters) -/

/-- what numpy answers: `np.linalg.norm` (Frobenius norm of an array) and `np.linalg.svd` of a square matrix.  The
theorems take their contracts as hypotheses (`FrobOK`, `SvdOK`); the harness checks the contracts numerically. -/
structure Ext where
  frob : {n m : Nat} → Mat n m → Rat
  svd : {d : Nat} → Mat d d → Mat d d × Vec d × Mat d d

/-! ### objects -/

/-- what `self.source`, `self.target`, `self._source = …`, `self._target = …`, `self.apply(…)` mean for one kind
of alignment object (`Src` / `Tgt`: what it holds as source and as target) -/
structure ObjOps (Obj Src Tgt : Type) where
  source : Obj → Src
  target : Obj → Tgt
  setSource : Obj → Src → Obj
  setTarget : Obj → Tgt → Obj
  apply : Obj → Src → Tgt

/-- an alignment of the homogeneous family: the two point sets, the matrix, and the two options
`AlignmentRotation` / `AlignmentSimilarity` keep for later re-fits -/
structure HObj (n d : Nat) where
  source : Mat n d
  target : Mat n d
  h : HMat d
  rotation : Bool
  allowMirror : Bool

namespace HObj
variable {n d : Nat}
/-- the object `__init__` receives: nothing set yet (the fields are overwritten before they are read) -/
def blank : HObj n d := ⟨fun _ _ => 0, fun _ _ => 0, one, true, false⟩
def setH (a : HObj n d) (h : HMat d) : HObj n d := { a with h := h }
def setRotation (a : HObj n d) (b : Bool) : HObj n d := { a with rotation := b }
def setAllowMirror (a : HObj n d) (b : Bool) : HObj n d := { a with allowMirror := b }
/-- `Affine._set_h_matrix(self, value, copy, skip_checks)` (the plain setter: validity guards, then the matrix is
stored) — a trusted word of the vocabulary -/
def _root_.MenpoModel.C07.plainSetH (a : HObj n d) (v : HMat d) (_copy _skipChecks : Bool) : HObj n d := a.setH v
def ops : ObjOps (HObj n d) (Mat n d) (Mat n d) where
  source a := a.source
  target a := a.target
  setSource a s := { a with source := s }
  setTarget a t := { a with target := t }
  apply a p := applyH a.h p
end HObj

/-! ### numpy idioms on the exact model -/

/-- `x.n_dims` -/
@[reducible] def nDims {n d : Nat} (_ : Mat n d) : Nat := d
/-- `a - b` on coordinate vectors -/
def vsub {d : Nat} (a b : Vec d) : Vec d := fun j => a j - b j
/-- `np.sign` -/
def signQ (x : Rat) : Rat := if x < 0 then -1 else if x = 0 then 0 else 1
/-- `np.eye(u.shape[0])` -/
def eyeLike {d : Nat} (_ : Mat d d) : Mat d d := one
/-- `m[-1, -1] = v` -/
def setLastDiag {d : Nat} (M : Mat d d) (v : Rat) : Mat d d :=
  fun i j => if i.val + 1 = d ∧ j.val + 1 = d then v else M i j
/-- `h[:-1, -1] = v` -/
def setTransCol {d : Nat} (H : HMat d) (v : Vec d) : HMat d :=
  fun i j => if hi : i.val < d then (if j.val < d then H i j else v ⟨i.val, hi⟩) else H i j
/-- `h[:-1, :-1] = r` -/
def setLinPart {d : Nat} (H : HMat d) (R : Mat d d) : HMat d :=
  fun i j => if hi : i.val < d then (if hj : j.val < d then R ⟨i.val, hi⟩ ⟨j.val, hj⟩ else H i j) else H i j
/-- `np.fill_diagonal(h, s)` -/
def fillDiagonal {d : Nat} (M : Mat d d) (s : Rat) : Mat d d := fun i j => if i = j then s else M i j
/-- `Translation.pseudoinverse()`: the translation by the negated vector -/
def translationInv {d : Nat} (H : HMat d) : HMat d := translationH (negV (transPart H))

/-- `u.shape[0]` of a matrix -/
@[reducible] def rowsOf {n m : Nat} (_ : Mat n m) : Nat := n

/-- `s[:keep, None]`: the first `keep` entries of a vector as a column (what lies beyond `keep` is cut) -/
structure ColK (n : Nat) where
  keep : Nat
  v : Vec n
/-- `s < t` element-wise -/
def belowV {m : Nat} (s : Vec m) (t : Rat) : Fin m → Bool := fun i => decide (s i < t)
/-- `sum(mask)` of a Boolean vector -/
def countTrue {m : Nat} (b : Fin m → Bool) : Nat := ((List.finRange m).filter b).length
/-- `v[:keep, :]`: the cut rows contribute nothing to a product, so they are zeroed -/
def rowsTo {n m : Nat} (keep : Nat) (V : Mat n m) : Mat n m := fun i j => if i.val < keep then V i j else 0
/-- `sum(list of point sets)` -/
def sumL {n d : Nat} (l : List (Mat n d)) : Mat n d := fun i j => (l.map fun P => P i j).sum

/- numpy's arithmetic operators on the exact model, decided by the TYPES of the operands (so that one generic rule
per operator serves every function and a refactoring may name any sub-expression).  Scoped: only
`Generated/C07Src.lean` opens this namespace. -/
namespace Np
/-- `a - b` on point sets / matrices -/
scoped instance subMat {n m : Nat} : HSub (Mat n m) (Mat n m) (Mat n m) := ⟨msub⟩
/-- `a - b` on coordinate vectors -/
scoped instance subVec {d : Nat} : HSub (Vec d) (Vec d) (Vec d) := ⟨fun a b => fun j => a j - b j⟩
/-- `points - centre`: the vector is subtracted from every row -/
scoped instance subRow {n d : Nat} : HSub (Mat n d) (Vec d) (Mat n d) := ⟨fun P c => fun i j => P i j - c j⟩
/-- `-v` -/
scoped instance negVec {d : Nat} : Neg (Vec d) := ⟨negV⟩
/-- `a - b` on per-triangle vectors `(n_tris, 2)` -/
scoped instance subTriVecs : HSub (List V2) (List V2) (List V2) := ⟨List.zipWith V2.sub⟩
/-- `point set / k` -/
scoped instance divNat {n d : Nat} : HDiv (Mat n d) Nat (Mat n d) := ⟨fun P k => fun i j => P i j / (k : Rat)⟩
/-- `1.0 / column` -/
scoped instance divCol {n : Nat} : HDiv Rat (ColK n) (ColK n) := ⟨fun x c => ⟨c.keep, fun i => x / c.v i⟩⟩
/-- `column * matrix`: row `i` of the matrix is scaled by entry `i` of the column; rows beyond the cut are dropped -/
scoped instance mulCol {n m : Nat} : HMul (ColK n) (Mat n m) (Mat n m) :=
  ⟨fun c V => fun i j => if i.val < c.keep then c.v i * V i j else 0⟩
end Np

/-! ### the Kabsch step with `np.linalg.svd` as a parameter -/

/-- `optimal_rotation_matrix(source, target, allow_mirror)` given what `svd` answers -/
def rotFitExt {n d : Nat} (ext : Ext) (allowMirror : Bool) (S T : Mat n d) : Mat d d :=
  rotFit allowMirror (ext.svd (corr S T)).1 (ext.svd (corr S T)).2.2

/-- `PointCloud.norm()` given what `np.linalg.norm` answers -/
def normExt {n d : Nat} (ext : Ext) (P : Mat n d) : Rat := ext.frob (centred P)

/-- `procrustes_alignment(source, target, rotation, allow_mirror)` given what `norm` / `svd` answer -/
def simFitExt {n d : Nat} (ext : Ext) (rotation allowMirror : Bool) (S T : Mat n d) : HMat d :=
  simFit rotation (normExt ext T) (normExt ext S)
    (rotFitExt ext allowMirror (simAlignedSrc (normExt ext T / normExt ext S) S) (simAlignedTgt T)) S T

/-! ### constructors and re-fits of the homogeneous family, as the theorems see them -/

/-- `Cls(source, target)` keeps the requested target (`construct false`), the fitted matrix and the options -/
def HObj.mk' {n d : Nat} (S T : Mat n d) (h : HMat d) (rotation allowMirror : Bool) : HObj n d :=
  ⟨S, T, h, rotation, allowMirror⟩

def HObj.toAlignObj {n d : Nat} (a : HObj n d) : AlignObj n d := ⟨a.source, a.target, a.h⟩

/-- `set_target(new_target)` for a class whose `_sync_state_from_target` is `sync` -/
def retarget {Obj Src Tgt : Type} (ops : ObjOps Obj Src Tgt) (sync : Obj → Obj) (a : Obj) (T : Tgt) : Obj :=
  sync (ops.setTarget a T)

/-- a history of `set_target` calls -/
def retargets {Obj Src Tgt : Type} (ops : ObjOps Obj Src Tgt) (sync : Obj → Obj) (a : Obj) (Ts : List Tgt) : Obj :=
  Ts.foldl (retarget ops sync) a

/-! ### piecewise affine: the numpy expressions read for ONE query point against the whole triangle list

`alpha`, `beta` are `(K, n_tris)` arrays; for one query point (`K = 1`) a row is a `List Rat` over the triangles.  The
per-triangle vectors `i, ij, ik` (`(n_tris, 2)`) are `List V2`. -/

/-- `alpha >= 0` -/
def geZero (xs : List Rat) : List Bool := xs.map fun x => decide (0 ≤ x)
/-- `alpha + beta <= 1` -/
def sumLeOne (xs ys : List Rat) : List Bool := List.zipWith (fun x y => decide (x + y ≤ 1)) xs ys
/-- `np.logical_and` -/
def andL (xs ys : List Bool) : List Bool := List.zipWith (· && ·) xs ys
/-- `np.nonzero(row)`: the indices of the triangles that contain the point, ascending -/
def nonzeroL (bs : List Bool) : List Nat := (List.range bs.length).filter fun k => bs.getD k false
/-- `index[point_index] = tri_index` for one point: the writes happen in ascending triangle order, the last one stays -/
def lastWriteOr (old : Nat) (ks : List Nat) : Nat := ks.getLast?.getD old

/-- three lists walked together -/
def zip3With {α β γ δ : Type} (f : α → β → γ → δ) : List α → List β → List γ → List δ
  | a :: as, b :: bs, c :: cs => f a b c :: zip3With f as bs cs
  | _, _, _ => []

/-- `points[trilist]`: the three corners of every triangle -/
def cornersOf (pts : Nat → V2) (tris : List Tri) : List (V2 × V2 × V2) :=
  tris.map fun t => (pts t.1, pts t.2.1, pts t.2.2)

/-- `x[:, 0]`, `x[:, 1]`, `x[:, 2]` of `points[trilist]`: first, second, third corner of every triangle -/
def cornerI (l : List (V2 × V2 × V2)) : List V2 := l.map fun c => c.1
def cornerJ (l : List (V2 × V2 × V2)) : List V2 := l.map fun c => c.2.1
def cornerK (l : List (V2 × V2 × V2)) : List V2 := l.map fun c => c.2.2

/-- a triangle mesh: points and triangle list -/
structure Mesh where
  points : Nat → V2
  trilist : List Tri

/-- what a piecewise-affine constructor may be given as source -/
inductive SrcShape where
  | cloud (points : Nat → V2)
  | mesh (m : Mesh)

def SrcShape.isTriMesh : SrcShape → Bool
  | .cloud _ => false
  | .mesh _ => true
def SrcShape.points : SrcShape → Nat → V2
  | .cloud p => p
  | .mesh m => m.points
def SrcShape.trilist : SrcShape → List Tri
  | .cloud _ => []
  | .mesh m => m.trilist

/-- a piecewise-affine alignment: the source mesh, the target points, the per-triangle target vectors and (PythonPWA)
the per-triangle source vectors -/
structure PwaObj where
  source : SrcShape
  target : Nat → V2
  ti : List V2
  tij : List V2
  tik : List V2
  s : List V2
  sij : List V2
  sik : List V2

def PwaObj.blank : PwaObj := ⟨.cloud fun _ => ⟨0, 0⟩, fun _ => ⟨0, 0⟩, [], [], [], [], [], []⟩

/-- the index of the triangle `containment_from_alpha_beta` reports for one point: the last one containing it -/
def pwaTriIdx (src : Nat → V2) (tris : List Tri) (p : V2) : Option Nat :=
  (nonzeroL (tris.map fun t => containsAB (triAB src t p))).getLast?

/-- `(tri_index, alpha, beta)` of one point -/
def pwaIndexAB (src : Nat → V2) (tris : List Tri) (p : V2) : Option (Nat × Rat × Rat) :=
  (pwaTriIdx src tris p).map fun k =>
    (k, (triAB src (tris.getD k (0, 0, 0)) p).1, (triAB src (tris.getD k (0, 0, 0)) p).2)

/-- the alignment object `PythonPWA(source, target)` builds on the triangle list `tris` -/
def pwaObjOf (srcShape : SrcShape) (src tgt : Nat → V2) (tris : List Tri) : PwaObj where
  source := srcShape
  target := tgt
  ti := tris.map fun t => tgt t.1
  tij := tris.map fun t => V2.sub (tgt t.2.1) (tgt t.1)
  tik := tris.map fun t => V2.sub (tgt t.2.2) (tgt t.1)
  s := tris.map fun t => src t.1
  sij := tris.map fun t => V2.sub (src t.2.1) (src t.1)
  sik := tris.map fun t => V2.sub (src t.2.2) (src t.1)

/-- `source`/`target` accessors of a piecewise-affine object; `apply` on the vertices of a shape (a vertex outside
every triangle — `TriangleContainmentError` — is sent to the origin here; the theorems about points use `pwaApply`) -/
def PwaObj.ops : ObjOps PwaObj SrcShape (Nat → V2) where
  source a := a.source
  target a := a.target
  setSource a s := { a with source := s }
  setTarget a t := { a with target := t }
  apply a s := fun k => (pwaApply a.source.points a.target a.source.trilist (s.points k)).getD ⟨0, 0⟩

/-! ### thin-plate splines: block matrices and broadcasting -/

/-- `x.n_points` -/
@[reducible] def nPoints {n d : Nat} (_ : Mat n d) : Nat := n
/-- `np.concatenate([a, b], axis=1)` / `np.hstack([a, b])` -/
def hcat {n a b : Nat} (A : Mat n a) (B : Mat n b) : Mat n (a + b) :=
  fun i j => if h : j.val < a then A i ⟨j.val, h⟩ else B i ⟨j.val - a, by omega⟩
/-- `np.concatenate([a, b], axis=0)` -/
def vcat {a b m : Nat} (A : Mat a m) (B : Mat b m) : Mat (a + b) m :=
  fun i j => if h : i.val < a then A ⟨i.val, h⟩ j else B ⟨i.val - a, by omega⟩ j
/-- `np.ones([n, m])`, `np.zeros([n, m])` -/
def onesM {n m : Nat} : Mat n m := fun _ _ => 1
def zerosM {n m : Nat} : Mat n m := fun _ _ => 0

/-- `u[:, :keep]`: the dropped columns contribute nothing to a product, so they are zeroed instead of cut -/
def colsTo {n m : Nat} (keep : Nat) (U : Mat n m) : Mat n m := fun i j => if j.val < keep then U i j else 0
/-- `1.0 / s[:keep, None] * v[:keep, :]` (a column vector broadcast over the rows of `v`; rows `≥ keep` are cut) -/
def rowScaleInv {n m : Nat} (keep : Nat) (s : Vec n) (V : Mat n m) : Mat n m :=
  fun i j => if i.val < keep then 1 / s i * V i j else 0
/-- `s.shape[0]` -/
@[reducible] def vlen {m : Nat} (_ : Vec m) : Nat := m
/-- `sum(s < t)` -/
def countBelow {m : Nat} (s : Vec m) (t : Rat) : Nat := ((List.finRange m).filter fun i => decide (s i < t)).length

/-- a row vector `(k,)` and a column vector `(m, 1)`, kept apart so that numpy's broadcasting is decided by the types -/
structure RowV (k : Nat) where
  v : Vec k
structure ColV (m : Nat) where
  v : Vec m
/-- `row * column`: the `(m, k)` outer product -/
instance {m k : Nat} : HMul (RowV k) (ColV m) (Mat m k) := ⟨fun r c => fun i j => r.v j * c.v i⟩
/-- `row + matrix`: the row is added to every row -/
instance {m k : Nat} : HAdd (RowV k) (Mat m k) (Mat m k) := ⟨fun r M => fun i j => r.v j + M i j⟩
/-- `matrix + matrix` -/
def madd {m k : Nat} (A B : Mat m k) : Mat m k := fun i j => A i j + B i j
instance {m k : Nat} : HAdd (Mat m k) (Mat m k) (Mat m k) := ⟨madd⟩
/-- `points[..., c][:, None]` -/
def colOf {m k : Nat} (P : Mat m k) (c : Fin k) : ColV m := ⟨fun i => P i c⟩
/-- `coefficients[-r]` (`r = 1, 2, 3`) of an `(n + 3, 2)` array -/
def rowFromEnd {n : Nat} (C : Mat (n + 3) 2) (r : Fin 3) : RowV 2 := ⟨fun c => C ⟨n + 2 - r.val, by omega⟩ c⟩
/-- `coefficients[:-3]` -/
def rowsButLast3 {n : Nat} (C : Mat (n + 3) 2) : Mat n 2 := fun i c => C (Fin.castAdd 3 i) c

/-- a radial-basis kernel centred on the `n` source points: `kernel.apply(points)` is the `(m, n)` matrix of kernel
values between the `m` query points and the source points (contract parameter: arbitrary in the theorems) -/
structure Kern (n : Nat) where
  app : {m : Nat} → Mat m 2 → Mat m n

/-- the `kernel` argument after `if kernel is None: kernel = R2LogR2RBF(source.points)`: the name holds a kernel
in both branches; the `Option` it came in is unwrapped (the fallback is never read: the branch is the `some` branch) -/
class AsKern (α : Type) (n : outParam Nat) where
  get : α → Kern n
instance {n : Nat} : AsKern (Kern n) n := ⟨id⟩
instance {n : Nat} : AsKern (Option (Kern n)) n := ⟨fun o => o.getD ⟨fun _ => fun _ _ => 0⟩⟩

/-- a thin-plate-spline alignment -/
structure TpsObj (n : Nat) where
  source : Mat n 2
  target : Mat n 2
  minSing : Rat
  kernel : Kern n
  k : Mat n n
  p : Mat n 3
  l : Mat (n + 3) (n + 3)
  v : Mat 2 n
  y : Mat 2 (n + 3)
  coefficients : Mat (n + 3) 2

def TpsObj.blank {n : Nat} : TpsObj n :=
  ⟨zerosM, zerosM, 0, ⟨fun _ => zerosM⟩, zerosM, zerosM, zerosM, zerosM, zerosM, zerosM⟩

/-- `ThinPlateSplines._apply` on a batch of points, row by row the model's `tpsApply` -/
def tpsApplyM {n m : Nat} (coef : Mat (n + 3) 2) (kern : Kern n) (P : Mat m 2) : Mat m 2 :=
  fun i => tpsApply coef (kern.app P i) (P i 0) (P i 1)

def TpsObj.ops {n : Nat} : ObjOps (TpsObj n) (Mat n 2) (Mat n 2) where
  source a := a.source
  target a := a.target
  setSource a s := { a with source := s }
  setTarget a t := { a with target := t }
  apply a p := tpsApplyM a.coefficients a.kernel p

/-! ### generalized Procrustes analysis, with the externals as functions

`Core/C07Align.lean: gpa` is the iteration given what `norm` / `svd` ANSWERED in each pass (witness lists, what the
driver runs against the implementation).  The source translation needs the same iteration with the externals as
functions (`Ext`): `gpaRecExt` / `gpaInitExt` below, transcribed branch for branch; `GenProps/C07SrcGpa.lean` proves the
translated `MultipleAlignment.__init__`, `GeneralizedProcrustesAnalysis.__init__` and `_recursive_procrustes` equal to
them and proves the alignment invariant for them directly. -/

/-- `sum([p for p in l]) / k` on point sets -/
def sumDivL {n d : Nat} (l : List (Mat n d)) (k : Nat) : Mat n d := fun i j => (l.map fun P => P i j).sum / (k : Rat)
/-- `mean_pointcloud(l)` -/
def meanL {n d : Nat} (l : List (Mat n d)) : Mat n d := sumDivL l l.length

/-- the `target` argument after the `if target is None: … else: …` split: the name holds a point set in the `else`
branch; the `Option` it came in is unwrapped (the fallback is never read there) -/
class AsPts (α : Type) (n d : outParam Nat) where
  get : α → Mat n d
instance {n d : Nat} : AsPts (Mat n d) n d := ⟨id⟩
instance {n d : Nat} : AsPts (Option (Mat n d)) n d := ⟨fun o => o.getD fun _ _ => 0⟩

/-- a `GeneralizedProcrustesAnalysis` object -/
structure GObj (n d : Nat) where
  sources : List (Mat n d)
  nSources : Nat
  target : Mat n d
  transforms : List (HObj n d)
  initialTargetScale : Rat
  nIterations : Nat
  maxIterations : Nat
  converged : Bool

def GObj.blank {n d : Nat} : GObj n d := ⟨[], 0, fun _ _ => 0, [], 0, 0, 0, false⟩

/-- the similarity alignment (rotation fitted, mirroring as asked) of `S` to `T`, as an object -/
def simObj {n d : Nat} (ext : Ext) (mirror : Bool) (S T : Mat n d) : HObj n d :=
  ⟨S, T, simFitExt ext true mirror S T, true, mirror⟩

/-- the mean of the aligned sources, rescaled about its centre to `initial_target_scale` -/
def gpaNewTargetExt {n d : Nat} (ext : Ext) (g : GObj n d) : Mat n d :=
  let mean := meanL (g.transforms.map fun t => applyH t.h t.source)
  applyH (scaleAboutCentreH mean (g.initialTargetScale / normExt ext mean)) mean

/-- one call of `_recursive_procrustes`; `rec` = the recursive call -/
def gpaStepExt {n d : Nat} (ext : Ext) (rec : GObj n d → Bool × GObj n d) (g : GObj n d) : Bool × GObj n d :=
  if g.nIterations > g.maxIterations then (false, g)
  else if ext.frob (msub g.target (gpaNewTargetExt ext g)) < 1 / 1000000 then (true, g)
  else rec { g with nIterations := g.nIterations + 1
                    transforms := g.transforms.map fun t =>
                      { t with target := gpaNewTargetExt ext g
                               h := simFitExt ext t.rotation t.allowMirror t.source (gpaNewTargetExt ext g) }
                    target := gpaNewTargetExt ext g }

/-- `_recursive_procrustes` unrolled `fuel` times (`fuel = max_iterations + 2 - n_iterations` calls suffice: the call
with `n_iterations > max_iterations` returns without recursing) -/
def gpaRecExt {n d : Nat} (ext : Ext) : Nat → GObj n d → Bool × GObj n d
  | 0, g => (false, g)
  | fuel + 1, g => gpaStepExt ext (gpaRecExt ext fuel) g

/-- the object `GeneralizedProcrustesAnalysis.__init__` holds when it enters `_recursive_procrustes`: the target given
(or the mean of the sources), one similarity alignment per source, `n_iterations = 1`, `max_iterations = 100` -/
def gpaStart {n d : Nat} (ext : Ext) (sources : List (Mat n d)) (target : Option (Mat n d)) (mirror : Bool) : GObj n d :=
  { sources := sources, nSources := sources.length, target := target.getD (sumDivL sources sources.length)
    transforms := sources.map fun S => simObj ext mirror S (target.getD (sumDivL sources sources.length))
    initialTargetScale := normExt ext (target.getD (sumDivL sources sources.length))
    nIterations := 1, maxIterations := 100, converged := false }

/-- `GeneralizedProcrustesAnalysis(sources, target, allow_mirror)`; `none` = the `ValueError` (fewer than two sources
and no target) or the `AssertionError` of `assert self.n_dims, …` for 0-dimensional points with a given target -/
def gpaInitExt {n d : Nat} (ext : Ext) (fuel : Nat) (sources : List (Mat n d)) (target : Option (Mat n d))
    (mirror : Bool) : Option (GObj n d) :=
  if sources.length < 2 ∧ target.isNone then none
  else if target.isSome ∧ d = 0 then none
  else
    let r := gpaRecExt ext fuel (gpaStart ext sources target mirror)
    some { r.2 with converged := r.1
                    target := if target.isSome then (gpaStart ext sources target mirror).target else r.2.target }

end MenpoModel.C07
