/-
C13 — what the model of Core/C13Api.lean assumes about the public entry points of the crop / patch
code: which class supplies each of them for Image / MaskedImage / BooleanImage, their parameter lists
and default values.  `expectedEntries` is compared (`decide`) with the table regenerated from the live
classes on every run (Generated/C13Entry.lean, GenProps/C13.lean).  Core Lean only.
-/

namespace MenpoModel.C13

/-- owner (class or `patches` for menpo.image.patches), entry point, supplying class (module),
parameters with the `repr` of their default value (`-` = required) -/
structure Entry where
  owner : String
  method : String
  supplier : String
  params : List (String × String)
deriving DecidableEq, Repr

/-- entry points whose single implementation in `Image` the model follows for all three classes -/
def sharedKernels : List String :=
  ["crop", "crop_to_pointcloud", "crop_to_landmarks", "crop_to_pointcloud_proportion",
   "crop_to_landmarks_proportion", "constrain_points_to_bounds", "extract_patches",
   "extract_patches_around_landmarks", "set_patches", "set_patches_around_landmarks"]

def lookupDefault (t : List Entry) (owner method param : String) : Option String :=
  (t.find? fun e => e.owner == owner && e.method == method).bind fun e =>
    (e.params.find? fun p => p.1 == param).map (·.2)

/-- (owner, entry point, parameter, default) — the defaults the model applies when the harness omits the
argument: `crop` refuses by default, the `crop_to_*` wrappers constrain by default with boundary 0,
`extract_patches` slices by default (`order=0, mode='constant', cval=0.0`, no offsets, single array),
`set_patches` uses offset `(0, 0)` (`None`) and offset index `0` (`None`). -/
def assumedDefaults : List (String × String × String × String) :=
  [("Image", "crop", "constrain_to_boundary", "False"),
   ("Image", "crop_to_pointcloud", "boundary", "0"),
   ("Image", "crop_to_pointcloud", "constrain_to_boundary", "True"),
   ("Image", "crop_to_landmarks", "boundary", "0"),
   ("Image", "crop_to_landmarks", "constrain_to_boundary", "True"),
   ("Image", "crop_to_pointcloud_proportion", "minimum", "True"),
   ("Image", "crop_to_pointcloud_proportion", "constrain_to_boundary", "True"),
   ("Image", "crop_to_landmarks_proportion", "minimum", "True"),
   ("Image", "crop_to_landmarks_proportion", "constrain_to_boundary", "True"),
   ("MaskedImage", "crop_to_true_mask", "boundary", "0"),
   ("MaskedImage", "crop_to_true_mask", "constrain_to_boundary", "True"),
   ("Image", "extract_patches", "sample_offsets", "None"),
   ("Image", "extract_patches", "as_single_array", "True"),
   ("Image", "extract_patches", "order", "0"),
   ("Image", "extract_patches", "mode", "'constant'"),
   ("Image", "extract_patches", "cval", "0.0"),
   ("Image", "extract_patches_around_landmarks", "sample_offsets", "None"),
   ("Image", "extract_patches_around_landmarks", "as_single_array", "True"),
   ("Image", "set_patches", "offset", "None"),
   ("Image", "set_patches", "offset_index", "None"),
   ("Image", "set_patches_around_landmarks", "offset", "None"),
   ("Image", "set_patches_around_landmarks", "offset_index", "None"),
   ("patches", "extract_patches_with_slice", "offsets", "None"),
   ("patches", "extract_patches_with_slice", "cval", "0.0"),
   ("patches", "extract_patches_by_sampling", "order", "0"),
   ("patches", "extract_patches_by_sampling", "mode", "'constant'"),
   ("patches", "extract_patches_by_sampling", "cval", "0.0")]

def expectedEntries : List Entry := [
  ⟨"Image", "crop", "Image", [("self", "-"), ("min_indices", "-"), ("max_indices", "-"), ("constrain_to_boundary", "False"), ("return_transform", "False")]⟩,
  ⟨"Image", "crop_to_pointcloud", "Image", [("self", "-"), ("pointcloud", "-"), ("boundary", "0"), ("constrain_to_boundary", "True"), ("return_transform", "False")]⟩,
  ⟨"Image", "crop_to_landmarks", "Image", [("self", "-"), ("group", "None"), ("boundary", "0"), ("constrain_to_boundary", "True"), ("return_transform", "False")]⟩,
  ⟨"Image", "crop_to_pointcloud_proportion", "Image", [("self", "-"), ("pointcloud", "-"), ("boundary_proportion", "-"), ("minimum", "True"), ("constrain_to_boundary", "True"), ("return_transform", "False")]⟩,
  ⟨"Image", "crop_to_landmarks_proportion", "Image", [("self", "-"), ("boundary_proportion", "-"), ("group", "None"), ("minimum", "True"), ("constrain_to_boundary", "True"), ("return_transform", "False")]⟩,
  ⟨"Image", "constrain_points_to_bounds", "Image", [("self", "-"), ("points", "-")]⟩,
  ⟨"Image", "extract_patches", "Image", [("self", "-"), ("patch_centers", "-"), ("patch_shape", "(16, 16)"), ("sample_offsets", "None"), ("as_single_array", "True"), ("order", "0"), ("mode", "'constant'"), ("cval", "0.0")]⟩,
  ⟨"Image", "extract_patches_around_landmarks", "Image", [("self", "-"), ("group", "None"), ("patch_shape", "(16, 16)"), ("sample_offsets", "None"), ("as_single_array", "True")]⟩,
  ⟨"Image", "set_patches", "Image", [("self", "-"), ("patches", "-"), ("patch_centers", "-"), ("offset", "None"), ("offset_index", "None")]⟩,
  ⟨"Image", "set_patches_around_landmarks", "Image", [("self", "-"), ("patches", "-"), ("group", "None"), ("offset", "None"), ("offset_index", "None")]⟩,
  ⟨"Image", "crop_to_true_mask", "absent", []⟩,
  ⟨"Image", "bounds_true", "absent", []⟩,
  ⟨"Image", "warp_to_shape", "Image", [("self", "-"), ("template_shape", "-"), ("transform", "-"), ("warp_landmarks", "True"), ("order", "1"), ("mode", "'constant'"), ("cval", "0.0"), ("batch_size", "None"), ("return_transform", "False")]⟩,
  ⟨"MaskedImage", "crop", "Image", [("self", "-"), ("min_indices", "-"), ("max_indices", "-"), ("constrain_to_boundary", "False"), ("return_transform", "False")]⟩,
  ⟨"MaskedImage", "crop_to_pointcloud", "Image", [("self", "-"), ("pointcloud", "-"), ("boundary", "0"), ("constrain_to_boundary", "True"), ("return_transform", "False")]⟩,
  ⟨"MaskedImage", "crop_to_landmarks", "Image", [("self", "-"), ("group", "None"), ("boundary", "0"), ("constrain_to_boundary", "True"), ("return_transform", "False")]⟩,
  ⟨"MaskedImage", "crop_to_pointcloud_proportion", "Image", [("self", "-"), ("pointcloud", "-"), ("boundary_proportion", "-"), ("minimum", "True"), ("constrain_to_boundary", "True"), ("return_transform", "False")]⟩,
  ⟨"MaskedImage", "crop_to_landmarks_proportion", "Image", [("self", "-"), ("boundary_proportion", "-"), ("group", "None"), ("minimum", "True"), ("constrain_to_boundary", "True"), ("return_transform", "False")]⟩,
  ⟨"MaskedImage", "constrain_points_to_bounds", "Image", [("self", "-"), ("points", "-")]⟩,
  ⟨"MaskedImage", "extract_patches", "Image", [("self", "-"), ("patch_centers", "-"), ("patch_shape", "(16, 16)"), ("sample_offsets", "None"), ("as_single_array", "True"), ("order", "0"), ("mode", "'constant'"), ("cval", "0.0")]⟩,
  ⟨"MaskedImage", "extract_patches_around_landmarks", "Image", [("self", "-"), ("group", "None"), ("patch_shape", "(16, 16)"), ("sample_offsets", "None"), ("as_single_array", "True")]⟩,
  ⟨"MaskedImage", "set_patches", "Image", [("self", "-"), ("patches", "-"), ("patch_centers", "-"), ("offset", "None"), ("offset_index", "None")]⟩,
  ⟨"MaskedImage", "set_patches_around_landmarks", "Image", [("self", "-"), ("patches", "-"), ("group", "None"), ("offset", "None"), ("offset_index", "None")]⟩,
  ⟨"MaskedImage", "crop_to_true_mask", "MaskedImage", [("self", "-"), ("boundary", "0"), ("constrain_to_boundary", "True"), ("return_transform", "False")]⟩,
  ⟨"MaskedImage", "bounds_true", "absent", []⟩,
  ⟨"MaskedImage", "warp_to_shape", "MaskedImage", [("self", "-"), ("template_shape", "-"), ("transform", "-"), ("warp_landmarks", "False"), ("order", "1"), ("mode", "'constant'"), ("cval", "0.0"), ("batch_size", "None"), ("return_transform", "False")]⟩,
  ⟨"BooleanImage", "crop", "Image", [("self", "-"), ("min_indices", "-"), ("max_indices", "-"), ("constrain_to_boundary", "False"), ("return_transform", "False")]⟩,
  ⟨"BooleanImage", "crop_to_pointcloud", "Image", [("self", "-"), ("pointcloud", "-"), ("boundary", "0"), ("constrain_to_boundary", "True"), ("return_transform", "False")]⟩,
  ⟨"BooleanImage", "crop_to_landmarks", "Image", [("self", "-"), ("group", "None"), ("boundary", "0"), ("constrain_to_boundary", "True"), ("return_transform", "False")]⟩,
  ⟨"BooleanImage", "crop_to_pointcloud_proportion", "Image", [("self", "-"), ("pointcloud", "-"), ("boundary_proportion", "-"), ("minimum", "True"), ("constrain_to_boundary", "True"), ("return_transform", "False")]⟩,
  ⟨"BooleanImage", "crop_to_landmarks_proportion", "Image", [("self", "-"), ("boundary_proportion", "-"), ("group", "None"), ("minimum", "True"), ("constrain_to_boundary", "True"), ("return_transform", "False")]⟩,
  ⟨"BooleanImage", "constrain_points_to_bounds", "Image", [("self", "-"), ("points", "-")]⟩,
  ⟨"BooleanImage", "extract_patches", "Image", [("self", "-"), ("patch_centers", "-"), ("patch_shape", "(16, 16)"), ("sample_offsets", "None"), ("as_single_array", "True"), ("order", "0"), ("mode", "'constant'"), ("cval", "0.0")]⟩,
  ⟨"BooleanImage", "extract_patches_around_landmarks", "Image", [("self", "-"), ("group", "None"), ("patch_shape", "(16, 16)"), ("sample_offsets", "None"), ("as_single_array", "True")]⟩,
  ⟨"BooleanImage", "set_patches", "Image", [("self", "-"), ("patches", "-"), ("patch_centers", "-"), ("offset", "None"), ("offset_index", "None")]⟩,
  ⟨"BooleanImage", "set_patches_around_landmarks", "Image", [("self", "-"), ("patches", "-"), ("group", "None"), ("offset", "None"), ("offset_index", "None")]⟩,
  ⟨"BooleanImage", "crop_to_true_mask", "absent", []⟩,
  ⟨"BooleanImage", "bounds_true", "BooleanImage", [("self", "-"), ("boundary", "0"), ("constrain_to_bounds", "True")]⟩,
  ⟨"BooleanImage", "warp_to_shape", "BooleanImage", [("self", "-"), ("template_shape", "-"), ("transform", "-"), ("warp_landmarks", "True"), ("mode", "'constant'"), ("cval", "False"), ("order", "None"), ("batch_size", "None"), ("return_transform", "False")]⟩,
  ⟨"patches", "extract_patches_with_slice", "menpo.image.patches", [("pixels", "-"), ("patch_centers", "-"), ("patch_shape", "-"), ("offsets", "None"), ("cval", "0.0")]⟩,
  ⟨"patches", "extract_patches_by_sampling", "menpo.image.patches", [("pixels", "-"), ("patch_centers", "-"), ("patch_shape", "-"), ("offsets", "None"), ("order", "0"), ("mode", "'constant'"), ("cval", "0.0")]⟩,
  ⟨"patches", "set_patches", "menpo.image.patches", [("patches", "-"), ("pixels", "-"), ("patch_centers", "-"), ("offset", "-"), ("offset_index", "-")]⟩,
  ⟨"patches", "_centered_patch", "menpo.image.patches", [("patch_shape", "-")]⟩ ]

end MenpoModel.C13
