/-
Heap model of `menpo.base.Copyable.copy` and its four overrides (C06; reusable by C02).
Core Lean only.

Python objects live on an explicit heap so that *aliasing* is a statement about addresses:

* `Heap = List Cell`, an address is an index (a plain `Nat`), allocation appends (`h ++ [c]`),
  a write replaces one cell (`List.set`).  Nothing is ever freed.
* `Val` is what an attribute / container slot holds: an immutable value (`imm`: None, numbers,
  strings, tuples of those, functions, partials — things `Copyable.copy` shares because they
  have no `.copy`, and whose sharing is harmless) or a reference `ref a`.
* `Cell.buf`   an `ndarray` / `scipy.sparse` matrix: a mutable leaf whose `.copy()` is deep.
  `Cell.node k fs`  a cell with labelled outgoing slots:
    `k = dict | list`  Python `dict`/`OrderedDict`/`list`   (`.copy()` is *shallow*),
    `k = frozen`       a reference-holding object without `.copy` (tuple with mutable content,
                       foreign object): `Copyable.copy` shares it,
    `k = obj C`        an instance of the menpo class `C`; slots = `__dict__` in order.

`copyCall res n h v` is `v.copy()` executed on heap `h` with recursion fuel `n`; `res` maps a
class name to the `copy` implementation Python's MRO resolves for it (regenerated from the live
classes, see `Generated/C06AttrKinds.lean`).  The five implementations are transcribed from

  menpo/base.py                     `Copyable.copy`, `LazyList.copy`
  menpo/landmark/base.py            `LandmarkManager.copy`
  menpo/shape/labelled.py           `LabelledPointUndirectedGraph.copy`
  menpo/transform/homogeneous/base.py  `HomogFamilyAlignment.copy`

with one liberty that is not observable: a cell that the copy creates and then initialises in
place before anything else can see it (the new object, whose `__dict__` is filled attribute by
attribute; the freshly copied `_landmark_groups` / `_labels_to_masks` dict, whose values are
replaced by copies one key at a time) is allocated *after* its slots have been computed.  As a
consequence `copyCall` only ever appends cells: it never writes to an existing one.

Reuse (C02 and others).  Everything lives in `namespace MenpoModel.C06`:
  this file           `Val Cell Heap copyCall Reach Own absF absO Closed Valid Ext kindOf wtHeap copyWF DeepHeap`
  Lemmas/C06Heap      extension / closedness / frame lemmas (`absF_ext`, `absF_frame`, `absO_frame`, `reach_old`)
  Lemmas/C06Copy      `Ctx`, `Basic`, `copy_basic` (copy only allocates, result new, same unfolding) — no table needed
  Lemmas/C06Fresh     `copy_no_attr`, `copy_fresh` (owned cells of the copy are new) under `DeepHeap`
  Lemmas/C06Total     `Ordered`, `copy_succeeds`
  Lemmas/C06Wt        `kindOf_absF`, `copy_newok`, `copy_preserves_wt` (copies conform to the table again)
  Lemmas/C06Reach     `copy_newslots`, `copy_reach_aux` (a copy reaches nothing foreign)
  Core/C06Ops         `putSlot resolve HW HOp stepH runH Sep` (mutators and copies as heap histories), `Eff effOK`
  Lemmas/C06Ops       `own_update`, `own_frame`, `sep_update`, `step_sep`, `step_preserves_wt`
  Lemmas/C06Typed     `attr_update_conforms`, `dict_update_conforms` (mutated objects stay inside the table)
  Props/C06           the property theorems and `deepHeap_of_tables` (tables ⇒ `DeepHeap`)
"In-place method returns self and mutates cell a" is `List.set`; "mutates nothing" is `Ext h h'` (or agreement
on the cells reachable from the argument, see `absF_frame`).
-/

namespace MenpoModel.C06

-- an address is an index into the heap (plain `Nat`, so that `omega` sees it)

inductive Val where
  | imm (t : Int)
  | ref (a : Nat)
deriving DecidableEq, Repr, Inhabited

inductive NodeKind where
  | dict
  | list
  | frozen
  | obj (cls : String)
deriving DecidableEq, Repr, Inhabited

inductive Cell where
  | buf (data : List Int)
  | node (k : NodeKind) (fs : List (String × Val))
deriving DecidableEq, Repr, Inhabited

abbrev Heap := List Cell

/-- which `copy` Python resolves for a class -/
inductive CopyImpl where
  | generic           -- `Copyable.copy`
  | landmarkManager   -- `LandmarkManager.copy`
  | labelled          -- `LabelledPointUndirectedGraph.copy`
  | lazyList          -- `LazyList.copy`
  | homogAlign        -- `HomogFamilyAlignment.copy`
  | unknown           -- an override this model does not know
deriving DecidableEq, Repr, Inhabited

inductive Err where
  | attr     -- AttributeError (no `.copy`, missing attribute, `.items()` on a non-dict …)
  | fuel     -- RecursionError (cyclic object graph)
  | unknown  -- the resolved `copy` is not one of the modelled implementations
deriving DecidableEq, Repr, Inhabited

abbrev Slots := List (String × Val)

def NodeKind.isObj : NodeKind → Bool
  | .obj _ => true
  | _ => false

/-- replace the value of slot `x` (no-op when absent; Python would add the attribute, which the
callers below never need because they read the slot first) -/
def setSlot : Slots → String → Val → Slots
  | [], _, _ => []
  | (y, w) :: t, x, v => if y == x then (y, v) :: t else (y, w) :: setSlot t x v

/-- `for k, v in __dict__.items(): try: new[k] = v.copy() except AttributeError: new[k] = v` -/
def copySlots (rec : Heap → Val → Except Err (Heap × Val)) :
    Heap → Slots → Except Err (Heap × Slots)
  | h, [] => .ok (h, [])
  | h, (x, v) :: t =>
    match rec h v with
    | .ok (h1, v1) =>
      match copySlots rec h1 t with
      | .ok (h2, t2) => .ok (h2, (x, v1) :: t2)
      | .error e => .error e
    | .error .attr =>
      match copySlots rec h t with
      | .ok (h2, t2) => .ok (h2, (x, v) :: t2)
      | .error e => .error e
    | .error e => .error e

/-- `for k, v in d.items(): d[k] = v.copy()` — no `try`: any failure propagates -/
def copyValues (rec : Heap → Val → Except Err (Heap × Val)) :
    Heap → Slots → Except Err (Heap × Slots)
  | h, [] => .ok (h, [])
  | h, (x, v) :: t =>
    match rec h v with
    | .ok (h1, v1) =>
      match copyValues rec h1 t with
      | .ok (h2, t2) => .ok (h2, (x, v1) :: t2)
      | .error e => .error e
    | .error e => .error e

/-- `new = Copyable.copy(self); for k, v in new.<x>.items(): new.<x>[k] = v.copy()`
(`LandmarkManager.copy` with `x = _landmark_groups`, `LabelledPointUndirectedGraph.copy`
with `x = _labels_to_masks`).  `fs1` are the slots produced by the generic phase; the result is
the heap after the loop and the (re-initialised) dict that `new.<x>` holds. -/
def deepenValues (rec : Heap → Val → Except Err (Heap × Val)) (x : String)
    (h1 : Heap) (fs1 : Slots) : Except Err (Heap × Val) :=
  match fs1.lookup x with
  | some (.ref d) =>
    match h1[d]? with
    | some (.node .dict gs) =>
      match copyValues rec h1 gs with
      | .ok (h2, gs2) => .ok (h2 ++ [.node .dict gs2], .ref h2.length)
      | .error e => .error e
    | _ => .error .attr
  | _ => .error .attr

def copyCall (res : String → CopyImpl) : Nat → Heap → Val → Except Err (Heap × Val)
  | 0, _, _ => .error .fuel
  | _ + 1, _, .imm _ => .error .attr
  | n + 1, h, .ref a =>
    match h[a]? with
    | none => .error .attr
    | some (.buf d) => .ok (h ++ [.buf d], .ref h.length)
    | some (.node .dict fs) => .ok (h ++ [.node .dict fs], .ref h.length)
    | some (.node .list fs) => .ok (h ++ [.node .list fs], .ref h.length)
    | some (.node .frozen _) => .error .attr
    | some (.node (.obj C) fs) =>
      match res C with
      | .generic =>
        match copySlots (copyCall res n) h fs with
        | .ok (h1, fs1) => .ok (h1 ++ [.node (.obj C) fs1], .ref h1.length)
        | .error e => .error e
      | .landmarkManager =>
        match copySlots (copyCall res n) h fs with
        | .ok (h1, fs1) =>
          match deepenValues (copyCall res n) "_landmark_groups" h1 fs1 with
          | .ok (h2, d2) => .ok (h2 ++ [.node (.obj C) (setSlot fs1 "_landmark_groups" d2)], .ref h2.length)
          | .error e => .error e
        | .error e => .error e
      | .labelled =>
        match copySlots (copyCall res n) h fs with
        | .ok (h1, fs1) =>
          match deepenValues (copyCall res n) "_labels_to_masks" h1 fs1 with
          | .ok (h2, d2) => .ok (h2 ++ [.node (.obj C) (setSlot fs1 "_labels_to_masks" d2)], .ref h2.length)
          | .error e => .error e
        | .error e => .error e
      | .lazyList =>
        -- new = Copyable.copy(self); new._callables = list(self._callables)
        match copySlots (copyCall res n) h fs with
        | .ok (h1, fs1) =>
          match fs.lookup "_callables" with
          | some (.ref l) =>
            match h[l]? with
            | some (.node .list items) =>
              .ok (h1 ++ [.node .list items] ++ [.node (.obj C) (setSlot fs1 "_callables" (.ref h1.length))],
                   .ref (h1.length + 1))
            | _ => .error .attr
          | _ => .error .attr
        | .error e => .error e
      | .homogAlign =>
        -- new.__dict__ = self.__dict__.copy(); new._h_matrix = new._h_matrix.copy()
        match fs.lookup "_h_matrix" with
        | some m =>
          match copyCall res n h m with
          | .ok (h1, m1) => .ok (h1 ++ [.node (.obj C) (setSlot fs "_h_matrix" m1)], .ref h1.length)
          | .error e => .error e
        | none => .error .attr
      | .unknown => .error .unknown

/-! ### Documented sharing (the property's own exclusion)

`HomogFamilyAlignment.copy` shares `_source` and `_target` (the point sets the alignment was
fitted to); `TransformChain` copies its `transforms` list but shares the member transforms. -/

inductive Lim where
  | full      -- this cell and what it owns
  | shallow   -- this cell only (a copied list whose members are shared by design)
  | stop      -- not owned: shared by design
deriving DecidableEq, Repr

def chainClass : String := "menpo.transform.base.composable.TransformChain"
def cachedPWAClass : String := "menpo.transform.piecewiseaffine.base.CachedPWA"

/-- how far ownership extends through slot `x` of an object of class `C` copied by `impl`.
Besides the two documented cases there is one slot outside the property's quantifier ("for
transforms their own parameter arrays and every public mutator"): `CachedPWA._iab`, the memo of
the last `index_alpha_beta` call (a tuple of arrays, shared by `Copyable.copy` because tuples have
no `.copy`).  It is not a parameter array and every code path rebinds it, never writes into it;
that no public operation on one side changes what the other computes is checked on the real
class by the harness. -/
def slotLim (impl : CopyImpl) (C x : String) : Lim :=
  match impl with
  | .homogAlign => if x == "_source" || x == "_target" then .stop else .full
  | .generic =>
    if C == chainClass && x == "transforms" then .shallow
    else if C == cachedPWAClass && x == "_iab" then .stop
    else .full
  | _ => .full

def childLim (res : String → CopyImpl) (k : NodeKind) (x : String) : Lim :=
  match k with
  | .obj C => slotLim (res C) C x
  | _ => .full

/-- every cell reachable from a value -/
inductive Reach (h : Heap) : Val → Nat → Prop where
  | here {a} : Reach h (.ref a) a
  | step {a k fs x w b} : h[a]? = some (.node k fs) → (x, w) ∈ fs → Reach h w b → Reach h (.ref a) b

/-- the cells a value *owns*: reachable without passing a by-design-shared slot -/
inductive Own (res : String → CopyImpl) (h : Heap) : Lim → Val → Nat → Prop where
  | hereFull {a} : Own res h .full (.ref a) a
  | hereShallow {a} : Own res h .shallow (.ref a) a
  | step {a k fs x w b} : h[a]? = some (.node k fs) → (x, w) ∈ fs →
      Own res h (childLim res k x) w b → Own res h .full (.ref a) b

/-! ### Abstract (observable) state: the unfolding of a value to depth `m` -/

inductive Tree where
  | imm (t : Int)
  | buf (d : List Int)
  | node (k : NodeKind) (fs : List (String × Tree))
  | shared (v : Val)     -- by-design shared: only *which* object it is belongs to the state
  | cut                  -- depth exhausted
  | dangling
deriving Repr, Inhabited

/-- full state (by-design-shared parts included) -/
def absF : Nat → Heap → Val → Tree
  | _, _, .imm t => .imm t
  | 0, _, .ref _ => .cut
  | m + 1, h, .ref a =>
    match h[a]? with
    | none => .dangling
    | some (.buf d) => .buf d
    | some (.node k fs) => .node k (fs.map fun p => (p.1, absF m h p.2))

/-- own state: by-design-shared parts appear only as the identity of what is referenced -/
def absO (res : String → CopyImpl) : Nat → Lim → Heap → Val → Tree
  | _, _, _, .imm t => .imm t
  | _, .stop, _, .ref a => .shared (.ref a)
  | 0, _, _, .ref _ => .cut
  | m + 1, .shallow, h, .ref a =>
    match h[a]? with
    | none => .dangling
    | some (.buf d) => .buf d
    | some (.node k fs) => .node k (fs.map fun p => (p.1, absO res m .stop h p.2))
  | m + 1, .full, h, .ref a =>
    match h[a]? with
    | none => .dangling
    | some (.buf d) => .buf d
    | some (.node k fs) => .node k (fs.map fun p => (p.1, absO res m (childLim res k p.1) h p.2))

/-! ### Well-formed heaps -/

/-- references stay inside the heap -/
def Closed (h : Heap) : Prop :=
  ∀ (a : Nat) k fs, h[a]? = some (Cell.node k fs) → ∀ x b, (x, Val.ref b) ∈ fs → b < h.length

def Valid (h : Heap) (v : Val) : Prop := ∀ b, v = .ref b → b < h.length

/-- `h'` is `h` plus newly allocated cells -/
def Ext (h h' : Heap) : Prop := ∃ t, h' = h ++ t

/-! ### Runtime kinds and the attribute-kind table (DESIGN appendix 13, item 3) -/

inductive Elem where
  | none   -- (of a container) no members
  | imm | buf | obj | other
deriving DecidableEq, Repr

inductive Kind where
  | elem (e : Elem)
  | dictOf (e : Elem)
  | listOf (e : Elem)
deriving DecidableEq, Repr

def elemOf (h : Heap) : Val → Elem
  | .imm _ => .imm
  | .ref a =>
    match h[a]? with
    | some (.buf _) => .buf
    | some (.node (.obj _) _) => .obj
    | _ => .other

/-- common kind of the members of a container; `none` for the empty container, `other` when mixed -/
def joinElems : List Elem → Elem
  | [] => .none
  | e :: t => if t.all (· == e) then e else .other

def kindOf (h : Heap) : Val → Kind
  | .imm _ => .elem .imm
  | .ref a =>
    match h[a]? with
    | some (.buf _) => .elem .buf
    | some (.node (.obj _) _) => .elem .obj
    | some (.node .dict fs) => .dictOf (joinElems (fs.map fun p => elemOf h p.2))
    | some (.node .list fs) => .listOf (joinElems (fs.map fun p => elemOf h p.2))
    | _ => .elem .other

/-- class ↦ attribute ↦ kinds seen on populated instances -/
abbrev AttrTable := List (String × List (String × List Kind))
/-- class ↦ qualified name of the class whose `__dict__` supplies `copy` -/
abbrev SupplierTable := List (String × String)

def implOfSupplier (s : String) : CopyImpl :=
  if s == "menpo.base.Copyable" then .generic
  else if s == "menpo.landmark.base.LandmarkManager" then .landmarkManager
  else if s == "menpo.shape.labelled.LabelledPointUndirectedGraph" then .labelled
  else if s == "menpo.base.LazyList" then .lazyList
  else if s == "menpo.transform.homogeneous.base.HomogFamilyAlignment" then .homogAlign
  else .unknown

def resOf (sup : SupplierTable) (C : String) : CopyImpl :=
  match sup.lookup C with
  | some s => implOfSupplier s
  | none => .unknown

/-- the attribute an override reads back after the generic phase -/
def specialSlot : CopyImpl → Option String
  | .landmarkManager => some "_landmark_groups"
  | .labelled => some "_labels_to_masks"
  | .lazyList => some "_callables"
  | .homogAlign => some "_h_matrix"
  | _ => none

/-- the kind that attribute must have for the override to deepen it (and not to raise) -/
def specialOK : CopyImpl → Kind → Bool
  | .landmarkManager, .dictOf e => e == .none || e == .obj
  | .labelled, .dictOf e => e == .none || e == .buf
  | .lazyList, .listOf e => e == .none || e == .imm
  | .homogAlign, .elem .buf => true
  | _, _ => false

/-- is kind `k` of attribute `x` of class `C` copied deeply enough by `impl`
(or shared only where `slotLim` says so)? -/
def okKind (impl : CopyImpl) (C x : String) (k : Kind) : Bool :=
  if specialSlot impl == some x then specialOK impl k else
  match impl with
  | .unknown => false
  | .homogAlign =>
    -- `__dict__.copy()` is shallow: only `_h_matrix` is duplicated, `_source`/`_target` are
    -- shared by design, everything else must be immutable
    slotLim .homogAlign C x == .stop || k == .elem .imm
  | impl =>
    slotLim impl C x == .stop ||
    match k with
    | .elem .imm => true
    | .elem .buf => true
    | .elem .obj => true
    | .elem _ => false
    | .dictOf e => e == .none || e == .imm
    | .listOf e => e == .none || e == .imm || (slotLim impl C x == .shallow && e == .obj)

/-- the obligation on the regenerated tables (`GenProps/C06.lean` discharges it by `decide`) -/
def copyWF (tbl : AttrTable) (sup : SupplierTable) : Bool :=
  tbl.all fun row => row.2.all fun att => att.2.all fun k => okKind (resOf sup row.1) row.1 att.1 k

def slotNames (fs : Slots) : List String := fs.map (·.1)

def wtCell (tbl : AttrTable) (sup : SupplierTable) (h : Heap) : Cell → Bool
  | .node (.obj C) fs =>
    decide (slotNames fs).Nodup &&
    (match specialSlot (resOf sup C) with
      | some x => (fs.lookup x).isSome
      | none => true) &&
    match tbl.lookup C with
    | none => false
    | some attrs => fs.all fun p =>
        match attrs.lookup p.1 with
        | none => false
        | some ks => ks.contains (kindOf h p.2)
  | _ => true

/-- the heap conforms to the tables: every object cell is of a listed class, has distinct
attribute names, has the attribute its `copy` override reads, and each attribute's runtime kind
is one of the kinds listed for it -/
def wtHeap (tbl : AttrTable) (sup : SupplierTable) (h : Heap) : Bool := h.all (wtCell tbl sup h)

/-- heap-level consequence of `copyWF` + `wtHeap` that the independence proof uses -/
def DeepHeap (res : String → CopyImpl) (h : Heap) : Prop :=
  ∀ (a : Nat) C fs, h[a]? = some (Cell.node (.obj C) fs) →
    (slotNames fs).Nodup ∧
    (∀ x, specialSlot (res C) = some x → (fs.lookup x).isSome = true) ∧
    ∀ x v, (x, v) ∈ fs → okKind (res C) C x (kindOf h v) = true

/-- executable closedness check (driver) -/
def closedB (h : Heap) : Bool :=
  h.all fun c => match c with
    | .buf _ => true
    | .node _ fs => fs.all fun p => match p.2 with | .imm _ => true | .ref b => decide (b < h.length)

end MenpoModel.C06
