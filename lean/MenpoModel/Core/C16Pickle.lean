/-
C16 — what menpo's own code does AROUND Python's serialiser when an object goes through export_pickle / import_pickle.
Executable model, core Lean only.  Transcribed from

  menpo/io/output/pickle.py   pickle_paths_as_pure (concrete `pathlib.Path`s are pickled as `PurePath`s; the patched
                              `Path.__reduce__` is restored in a `finally`), pickle_exporter
  menpo/io/input/base.py      _import: a result that is not a `list` is wrapped in one; `attach_path` on every result —
                              on the members of a non-lazy sequence, on the values of a mapping, else on the object
                              itself; `obj.path = path` only if it has no `path` yet, AttributeError swallowed;
                              a one-element result list is unwrapped

`pickle.dump` / `pickle.load` (and gzip) are a contract parameter: the object tree that is written is the object tree
that is read (`PVal` is that tree: leaves the serialiser reproduces, paths, the containers `_import` tells apart,
objects with an attribute dictionary — a `LazyList` is such an object: `_import` deliberately does not iterate it).
-/

namespace MenpoModel.C16

inductive PVal where
  | atom (n : Nat)                                   -- number / str / bytes / ndarray / None …: no attributes can be set
  | path (concrete : Bool) (parts : List String)     -- `pathlib.Path` (concrete) or `PurePath`
  | list (xs : List PVal)
  | tuple (xs : List PVal)                           -- any other non-lazy `Sequence`
  | dict (kvs : List (String × PVal))                -- a `Mapping`
  | obj (cls : String) (fields : List (String × PVal))   -- an instance with a `__dict__` (menpo objects, partials)
  deriving Repr

mutual
/-- `pickle_paths_as_pure`: every concrete path in the tree is written as a pure path -/
def purify : PVal → PVal
  | .atom n => .atom n
  | .path _ ps => .path false ps
  | .list xs => .list (purifyL xs)
  | .tuple xs => .tuple (purifyL xs)
  | .dict kvs => .dict (purifyKV kvs)
  | .obj c fs => .obj c (purifyKV fs)
def purifyL : List PVal → List PVal
  | [] => []
  | x :: t => purify x :: purifyL t
def purifyKV : List (String × PVal) → List (String × PVal)
  | [] => []
  | (k, v) :: t => (k, purify v) :: purifyKV t
end

def hasField (k : String) : List (String × PVal) → Bool
  | [] => false
  | (k', _) :: t => k' == k || hasField k t

/-- `attach_path`: `if not hasattr(obj, "path"): obj.path = path` (AttributeError: pass) -/
def attachPath (file : PVal) : PVal → PVal
  | .obj c fs => if hasField "path" fs then .obj c fs else .obj c (fs ++ [("path", file)])
  | v => v

def attachKV (file : PVal) : List (String × PVal) → List (String × PVal)
  | [] => []
  | (k, v) :: t => (k, attachPath file v) :: attachKV file t

/-- one entry of `built_objects` -/
def attachBuilt (file : PVal) : PVal → PVal
  | .list xs => .list (xs.map (attachPath file))
  | .tuple xs => .tuple (xs.map (attachPath file))
  | .dict kvs => .dict (attachKV file kvs)
  | v => attachPath file v

/-- `_import` after the importer callable returned `v`; `file` is the normalised path of the file -/
def importWrap (file : PVal) (v : PVal) : PVal :=
  let built : List PVal := match v with
    | .list xs => xs
    | x => [x]
  match built.map (attachBuilt file) with
  | [x] => x
  | xs => .list xs

/-- `export_pickle` then `import_pickle` (contract: the serialiser reproduces the tree it is given) -/
def pickleRoundTrip (file : PVal) (v : PVal) : PVal := importWrap file (purify v)

/-! the patched `Path.__reduce__`: a global that `pickle_paths_as_pure` swaps and restores -/

inductive Hook where
  | default | pure
  deriving DecidableEq, Repr

/-- one `pickle_exporter` call: the hook is `pure` while the body runs (`ok = false`: `pickle.dump` raised) and is
restored by the `finally` either way; returns (hook during the dump, hook afterwards) -/
def withPurePaths (h : Hook) (_ok : Bool) : Hook × Hook := (.pure, h)

def hookAfter : Hook → List Bool → Hook
  | h, [] => h
  | h, ok :: t => hookAfter (withPurePaths h ok).2 t

end MenpoModel.C16
