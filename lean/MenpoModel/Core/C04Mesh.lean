/-
C04 — an executable certificate that a piecewise affine warp is defined on a proper triangulation (Mathlib-free).

`AbstractPWA._apply` looks a point up in EVERY source triangle and keeps the last one that contains it
(`containment_from_alpha_beta`), so on a point that lies in several triangles — on a shared edge or vertex in a proper
mesh, anywhere in the overlap in a folded one — the result depends on the affine pieces agreeing there.
`certified m` decides, pair of triangles by pair of triangles, a sufficient condition for that: a line with one
triangle on its non-positive side and the other on its non-negative side, such that every vertex of the first that
is not strictly on its side is also a vertex of the second *carrying the same image*.  The triangles can then only meet
in the face spanned by their common vertices, where both pieces are the affine interpolation of the same values.
The line is searched among the six edge lines of the two triangles and the nine differences of an edge line of each
(needed when two triangles touch in exactly one vertex with collinear edges, as in a regular grid).

`Props/C04Mesh.lean` proves `certified m = true → NonDegenerate ∧ consistent`, which discharges the hypotheses of the
round-trip theorems; the driver runs `certified` on every generated mesh (both directions).

Also here: `PWA.indexAB`, the model of the public `index_alpha_beta(points)` (triangle index, alpha, beta per point).
-/
import MenpoModel.Core.C04Warp

namespace MenpoModel.C04

/-- twice the signed area of a triangle -/
def Tri.area2 (s : Tri) : Rat := (s.b.x - s.a.x) * (s.c.y - s.a.y) - (s.b.y - s.a.y) * (s.c.x - s.a.x)

/-- `a x + b y + c` -/
structure Line where
  a : Rat
  b : Rat
  c : Rat
  deriving Repr

def Line.ev (l : Line) (p : P2) : Rat := l.a * p.x + l.b * p.y + l.c

/-- the line through `u` and `v`, signed so that `w` is on its non-negative side -/
def lineThrough (u v w : P2) : Line :=
  let a := u.y - v.y
  let b := v.x - u.x
  let c := -(a * u.x + b * u.y)
  if 0 ≤ a * w.x + b * w.y + c then ⟨a, b, c⟩ else ⟨-a, -b, -c⟩

/-- the `k`-th edge line of a triangle, the triangle on its non-negative side -/
def Tri.edgeLine (t : Tri) (k : Nat) : Line :=
  match k with
  | 0 => lineThrough t.a t.b t.c
  | 1 => lineThrough t.b t.c t.a
  | _ => lineThrough t.c t.a t.b

/-- the domain point `X` with image `Y` is also a vertex of the pair `r`, with the same image -/
def matched (r : Tri × Tri) (X Y : P2) : Bool :=
  (r.1.a == X && r.2.a == Y) || (r.1.b == X && r.2.b == Y) || (r.1.c == X && r.2.c == Y)

def vertOK (r : Tri × Tri) (l : Line) (X Y : P2) : Bool :=
  decide (l.ev X ≤ 0) && (decide (l.ev X < 0) || matched r X Y)

/-- `l` separates the domain triangle of `q` (non-positive side) from that of `r` (non-negative side), and every vertex of
`q` on the line is a vertex of `r` with the same image -/
def sepOK (q r : Tri × Tri) (l : Line) : Bool :=
  vertOK r l q.1.a q.2.a && vertOK r l q.1.b q.2.b && vertOK r l q.1.c q.2.c &&
    decide (0 ≤ l.ev r.1.a) && decide (0 ≤ l.ev r.1.b) && decide (0 ≤ l.ev r.1.c)

def Line.sub (l m : Line) : Line := ⟨l.a - m.a, l.b - m.b, l.c - m.c⟩

/-- candidate `k`: `0..2` an edge line of `r`'s domain triangle; `3..5` one of `q`'s with the roles exchanged; `6..14` the
difference of an edge line of `r` and an edge line of `q` (two triangles that touch in one vertex with collinear edges — the
regular grid — are separated strictly by no edge line, but by such a difference) -/
def pairOK (q r : Tri × Tri) (k : Nat) : Bool :=
  if k < 3 then sepOK q r (r.1.edgeLine k)
  else if k < 6 then sepOK r q (q.1.edgeLine (k - 3))
  else sepOK q r ((r.1.edgeLine ((k - 6) / 3)).sub (q.1.edgeLine ((k - 6) % 3)))

def pairAuto (q r : Tri × Tri) : Bool := (List.range 15).any (pairOK q r)

/-- every domain triangle is non-degenerate and every two of them are certified to meet only where their pieces agree -/
def certified : PWA → Bool
  | [] => true
  | q :: rest => decide (q.1.area2 ≠ 0) && rest.all (pairAuto q) && certified rest

/-- both directions: the warp and its inverse -/
def PWAMesh.certified (m : PWAMesh) : Bool := MenpoModel.C04.certified m.toPWA && MenpoModel.C04.certified m.toPWA.pinv

/-! ## `index_alpha_beta` -/

/-- the last triangle (index, pair) of the list whose source triangle contains `p`, scanning with a running index -/
def lastHolder (p : P2) : List (Tri × Tri) → Nat → Option (Nat × (Tri × Tri)) → Option (Nat × (Tri × Tri))
  | [], _, acc => acc
  | q :: rest, i, acc => lastHolder p rest (i + 1) (if q.1.contains p then some (i, q) else acc)

/-- `PythonPWA.index_alpha_beta` on one point: `(tri_index, alpha, beta)`; `none` = the point's entry of the
`TriangleContainmentError` mask -/
def PWA.indexAB (m : PWA) (p : P2) : Option (Nat × Rat × Rat) :=
  (lastHolder p m 0 none).map fun (i, q) => (i, (q.1.ab p).1, (q.1.ab p).2)

end MenpoModel.C04
