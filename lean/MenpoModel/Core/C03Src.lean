/-
C03 — the vocabulary of the functions of the homogeneous family that are TRANSLATED FROM THE SOURCE TEXT by
`harness/trans_c03.py` (round 3, on top of `harness/py2lean2.py`) into `Generated/C03Src.lean` (core Lean only):

  properties      Homogeneous.n_dims, Affine.linear_component / translation_component, Rotation.rotation_matrix,
                  UniformScale.scale, NonUniformScale.scale
  setters         Homogeneous / Affine / AlignmentAffine ._set_h_matrix   (all four combinations of copy / skip_checks),
                  Rotation / AlignmentRotation .set_rotation_matrix
  constructors    __init__ of Homogeneous, Affine, Similarity, Rotation, Translation, UniformScale, NonUniformScale
                  (with their checks), the seven init_identity
  vector form     _from_vector_inplace of Homogeneous, Affine, Similarity, Rotation, Translation, UniformScale,
                  NonUniformScale, AlignmentSimilarity, AlignmentTranslation, AlignmentUniformScale

These bodies are numpy code.  What is translated is their *plumbing*: which array expression is computed from what, in
which branch, which check refuses what, which setter of which class receives the result.  The array expressions
themselves are the words below: a small exact model of the numpy operations the bodies use, on arrays whose shape is a
value (not a type), so that a body that builds a 3 × 3 matrix for a 3-D object can be written down at all.

* `Arr2`        a 2-D array: its shape and its entries (a total function; only the entries inside the shape mean
                anything).  Vectors (1-D arrays) are `List Rat`, Python integers are `Int`.
* `DObj`        a family object as a method body holds it: its class and its `_h_matrix` (`none` while `__init__`
                has not set it yet).
* `SVec`        `p * np.sqrt(k)`: a vector scaled by an irrational factor, kept exact (`np.outer` of it with itself is
                rational again) — the only place where the bodies leave ℚ.
* `MethodTable2`, `callMeth2`   method resolution of the methods that are not in `MethodTable` (`__init__`,
                `set_rotation_matrix`, `init_identity`, the properties), regenerated from the live MROs
                (`Generated.C03.methodTable2`, obligation `methodTable2_ok`).

numpy behaviour that is modelled: negative indices, broadcasting of a length-1 vector / a 1-row or 1-column block in the
slice assignments, `fill_diagonal` cycling through a short vector, `reshape` refusing a wrong size (`ValueError`, the
model's `Err.shape`), Fortran order.  Not modelled: an index outside the array (`IndexError`; every subscript of the
translated bodies is guarded by a length test), dtypes (see `Core/C03Dtype.lean`), aliasing of arrays (`copy()` is the
identity: arrays are values here).

`GenProps/C03Src.lean` proves the translated bodies equal to `fromVec` (Core/C03Compose.lean) and to the constructor
model `ctor…` / `identityOf` (Core/C03Ctor.lean), the definitions the C03 theorems are about.
-/
import MenpoModel.Core.C03Entry

namespace MenpoModel.C03.Src
open MenpoModel.C03

/-! ### arrays -/

/-- a 2-D numpy array: `r × c`, entry `(i, j)` is `e i j` -/
structure Arr2 where
  r : Nat
  c : Nat
  e : Nat → Nat → Rat

def Arr2.empty : Arr2 := ⟨0, 0, fun _ _ => 0⟩

/-- numpy's reading of an index on an axis of length `n`: a negative index counts from the end -/
def normIdx (n : Nat) (i : Int) : Nat := if i < 0 then ((n : Int) + i).toNat else i.toNat

/-- `np.eye(n)` / `np.identity(n)` -/
def Arr2.eye (n : Int) : Arr2 := ⟨n.toNat, n.toNat, fun i j => if i = j then 1 else 0⟩

/-- `np.array([[…], […], …])` -/
def Arr2.ofRows (rows : List (List Rat)) : Arr2 :=
  ⟨rows.length, (rows.headD []).length, fun i j => (rows.getD i []).getD j 0⟩

/-- `a[i, j]` -/
def Arr2.at (a : Arr2) (i j : Int) : Rat := a.e (normIdx a.r i) (normIdx a.c j)

/-- `a[i, j] = v` -/
def Arr2.set (a : Arr2) (i j : Int) (v : Rat) : Arr2 :=
  { a with e := fun p q => if p = normIdx a.r i ∧ q = normIdx a.c j then v else a.e p q }

/-- `a[-1, :-1]` -/
def Arr2.lastRowInit (a : Arr2) : List Rat := (List.range (a.c - 1)).map fun j => a.e (a.r - 1) j

/-- `a[:-1, -1]` -/
def Arr2.lastColInit (a : Arr2) : List Rat := (List.range (a.r - 1)).map fun i => a.e i (a.c - 1)

/-- `a[:-1, :-1]` -/
def Arr2.initInit (a : Arr2) : Arr2 := ⟨a.r - 1, a.c - 1, a.e⟩

/-- `a.diagonal()` -/
def Arr2.diagonal (a : Arr2) : List Rat := (List.range (min a.r a.c)).map fun i => a.e i i

/-- `a[:-1, -1] = v` for a vector `v`: of the length of the column, or of length 1 (broadcast); numpy refuses any
other length -/
def Arr2.setLastColInit (a : Arr2) (v : List Rat) : Except Err Arr2 :=
  if v.length = a.r - 1 then
    .ok { a with e := fun i j => if i < a.r - 1 ∧ j = a.c - 1 then v.getD i 0 else a.e i j }
  else if v.length = 1 then
    .ok { a with e := fun i j => if i < a.r - 1 ∧ j = a.c - 1 then v.getD 0 0 else a.e i j }
  else .error .shape

/-- `a[:k, j] = v` -/
def Arr2.setColTop (a : Arr2) (k j : Int) (v : List Rat) : Except Err Arr2 :=
  let n := min (normIdx a.r k) a.r
  if v.length = n then
    .ok { a with e := fun i q => if i < n ∧ q = normIdx a.c j then v.getD i 0 else a.e i q }
  else if v.length = 1 then
    .ok { a with e := fun i q => if i < n ∧ q = normIdx a.c j then v.getD 0 0 else a.e i q }
  else .error .shape

/-- `a[:-1, :-1] = v` for a 2-D `v`: of the shape of the block, or with one row / one column (broadcast) -/
def Arr2.setInitInit (a v : Arr2) : Except Err Arr2 :=
  if (v.r = a.r - 1 ∨ v.r = 1) ∧ (v.c = a.c - 1 ∨ v.c = 1) then
    .ok { a with e := fun i j =>
      if i < a.r - 1 ∧ j < a.c - 1 then v.e (if v.r = 1 then 0 else i) (if v.c = 1 then 0 else j) else a.e i j }
  else .error .shape

/-- `a[:k, :] += m` for an `m` of the shape of the block -/
def Arr2.addTopRows (a : Arr2) (k : Int) (m : Arr2) : Except Err Arr2 :=
  if m.r = min (normIdx a.r k) a.r ∧ m.c = a.c then
    .ok { a with e := fun i j => if i < m.r then a.e i j + m.e i j else a.e i j }
  else .error .shape

/-- what `np.fill_diagonal(a, v)` writes at diagonal position `i` (`none`: nothing, `v` is empty) -/
class FillVal (α : Type) where
  cyc : α → Nat → Option Rat

instance : FillVal Rat := ⟨fun s _ => some s⟩
/-- a vector is cycled through (and cut off at the end of the diagonal) -/
instance : FillVal (List Rat) := ⟨fun v i => if v.length = 0 then none else some (v.getD (i % v.length) 0)⟩

/-- `np.fill_diagonal(a, v)` -/
def Arr2.fillDiagonal {α : Type} [FillVal α] (a : Arr2) (v : α) : Arr2 :=
  { a with e := fun i j =>
      if i = j ∧ i < min a.r a.c then (match FillVal.cyc v i with | some x => x | none => a.e i j) else a.e i j }

/-- `p.reshape((k, n), order='F')` -/
def npReshapeF (p : List Rat) (k n : Int) : Except Err Arr2 :=
  if p.length = k.toNat * n.toNat then .ok ⟨k.toNat, n.toNat, fun i j => p.getD (j * k.toNat + i) 0⟩
  else .error .shape

/-- `v.reshape(shape)` for the shape of a 2-D array (C order) -/
def npReshape (v : List Rat) (shape : List Int) : Except Err Arr2 :=
  match shape with
  | [r, c] =>
    if v.length = r.toNat * c.toNat then .ok ⟨r.toNat, c.toNat, fun i j => v.getD (i * c.toNat + j) 0⟩
    else .error .shape
  | _ => .error .shape

def npZeros (n : Int) : List Rat := List.replicate n.toNat 0
def npOnes (n : Int) : List Rat := List.replicate n.toNat 1

/-- `np.dot(a, b)` of two vectors -/
def vdot (a b : List Rat) : Rat := ((a.zip b).map fun p => p.1 * p.2).sum

/-- `p * np.sqrt(k)` -/
structure SVec where
  k : Rat
  v : List Rat

/-- `np.outer(s, s)` of a scaled vector with itself: `√k · √k = k` -/
def SVec.outerSelf (s : SVec) : Arr2 :=
  ⟨s.v.length, s.v.length, fun i j => s.k * (s.v.getD i 0 * s.v.getD j 0)⟩

/-- the value of Python's `None` where it is only stored in a variable -/
def pyNone : Unit := ()

/-! ### Python's overloaded built-ins -/

class HasShape (α : Type) where
  shape : α → List Int
instance : HasShape Arr2 := ⟨fun a => [(a.r : Int), (a.c : Int)]⟩
instance : HasShape (List Rat) := ⟨fun v => [(v.length : Int)]⟩
/-- `x.shape` -/
def pyShape {α : Type} [HasShape α] (x : α) : List Int := HasShape.shape x

/-- `len(x)` -/
def pyLen {α : Type} (x : List α) : Int := x.length

class HasSize (α : Type) where
  size : α → Int
instance : HasSize (List Rat) := ⟨fun v => v.length⟩
instance : HasSize Rat := ⟨fun _ => 1⟩
instance : HasSize Arr2 := ⟨fun a => (a.r * a.c : Nat)⟩
/-- `x.size` / `np.size(x)` -/
def pySize {α : Type} [HasSize α] (x : α) : Int := HasSize.size x

class HasItem (α : Type) (β : outParam Type) where
  item : α → Int → β
instance : HasItem (List Int) Int := ⟨fun l i => l.getD (normIdx l.length i) 0⟩
instance : HasItem (List Rat) Rat := ⟨fun l i => l.getD (normIdx l.length i) 0⟩
/-- `x[i]` -/
def pyItem {α β : Type} [HasItem α β] (x : α) (i : Int) : β := HasItem.item x i

/-- `v[i:]` -/
def pyDrop (v : List Rat) (i : Int) : List Rat := v.drop (normIdx v.length i)

/-- `x in l` -/
def pyIn (x : Int) (l : List Int) : Bool := l.contains x

def ratAbs (x : Rat) : Rat := if x < 0 then -x else x

/-- `np.isclose(a, b)` with the default tolerances: `|a − b| ≤ 1e-8 + 1e-5·|b|`, evaluated exactly -/
def closeTo (a b : Rat) : Bool := decide (ratAbs (a - b) ≤ 1 / 100000000 + 1 / 100000 * ratAbs b)

class AllClose (α : Type) where
  allclose : α → Rat → Bool
instance : AllClose Rat := ⟨closeTo⟩
instance : AllClose (List Rat) := ⟨fun v b => v.all fun a => closeTo a b⟩
/-- `np.allclose(x, b)` for a scalar `b` -/
def npAllclose {α : Type} [AllClose α] (x : α) (b : Rat) : Bool := AllClose.allclose x b

/-! ### objects -/

/-- a family object as a method body holds it -/
structure DObj where
  cls : HCls
  /-- `self._h_matrix` (`None` until `__init__` has called the setter) -/
  h : Option Arr2

/-- `cls.__new__(cls)` followed by `self._h_matrix = None` -/
def DObj.new (c : HCls) : DObj := ⟨c, none⟩

/-- `self.h_matrix` where it is used as an array -/
def DObj.hm (o : DObj) : Arr2 := o.h.getD Arr2.empty

/-- `self._h_matrix = a` -/
def DObj.setH (o : DObj) (a : Arr2) : DObj := ⟨o.cls, some a⟩

/-- `self._h_matrix = None` -/
def DObj.clearH (o : DObj) : DObj := ⟨o.cls, none⟩

/-- an in-place numpy operation on `self.h_matrix`; on an object without a matrix Python raises (`TypeError` /
`AttributeError`: `None` has no items) -/
def DObj.onH (o : DObj) (f : Arr2 → Except Err Arr2) : Except Err DObj :=
  match o.h with
  | some a => (f a).map fun a' => ⟨o.cls, some a'⟩
  | none => .error .noMethod

/-- `self._h_matrix[:-1, :-1] = v` -/
def DObj.setLinBlock (o : DObj) (v : Arr2) : Except Err DObj := o.onH fun a => a.setInitInit v
/-- `self.h_matrix[:-1, -1] = v` -/
def DObj.setTransCol (o : DObj) (v : List Rat) : Except Err DObj := o.onH fun a => a.setLastColInit v
/-- `np.fill_diagonal(self.h_matrix, v)` -/
def DObj.fillDiag {α : Type} [FillVal α] (o : DObj) (v : α) : Except Err DObj := o.onH fun a => .ok (a.fillDiagonal v)
/-- `self.h_matrix[i, j] = v` -/
def DObj.setEntry (o : DObj) (i j : Int) (v : Rat) : Except Err DObj := o.onH fun a => .ok (a.set i j v)

/-! ### method resolution of `__init__`, `set_rotation_matrix`, `init_identity` and the properties -/

inductive Meth2
  | init | set_rotation_matrix | init_identity | n_dims | linear_component | translation_component
  | rotation_matrix | scale
deriving DecidableEq, Repr

def Meth2.all : List Meth2 :=
  [.init, .set_rotation_matrix, .init_identity, .n_dims, .linear_component, .translation_component,
   .rotation_matrix, .scale]

/-- per family class: for each method of `Meth2.all` the class whose `__dict__` supplies it -/
abbrev MethodTable2 := List (HCls × List (Option Sup))

def supplier2 (t2 : MethodTable2) (c : HCls) (m : Meth2) : Option Sup :=
  match t2.find? (fun r => r.1 == c) with
  | some r => r.2.getD (Meth2.all.idxOf m) none
  | none => none

def callMeth2 {α : Type} (t2 : MethodTable2) (m : Meth2) (c : HCls) (bodies : List (Sup × α)) : Option α :=
  (supplier2 t2 c m).bind fun s => (bodies.find? fun p => p.1 == s).map (·.2)

open Sup in
/-- the resolution the constructor model is a transcription of (obligation `methodTable2_ok`) -/
def expectedMethodTable2 : MethodTable2 := [
  (.Homogeneous, [some Homogeneous, none, some Homogeneous, some Homogeneous, none, none, none, none]),
  (.Affine, [some Affine, none, some Affine, some Homogeneous, some Affine, some Affine, none, none]),
  (.Similarity, [some Similarity, none, some Similarity, some Homogeneous, some Affine, some Affine, none, none]),
  (.Rotation, [some Rotation, some Rotation, some Rotation, some Homogeneous, some Affine, some Affine,
    some Rotation, none]),
  (.Translation, [some Translation, none, some Translation, some Homogeneous, some Affine, some Affine, none, none]),
  (.UniformScale, [some UniformScale, none, some UniformScale, some Homogeneous, some Affine, some Affine, none,
    some UniformScale]),
  (.NonUniformScale, [some NonUniformScale, none, some NonUniformScale, some Homogeneous, some Affine, some Affine,
    none, some NonUniformScale]),
  (.AlignmentAffine, [some AlignmentAffine, none, some Affine, some Targetable, some Affine, some Affine, none, none]),
  (.AlignmentSimilarity, [some AlignmentSimilarity, none, some Similarity, some Targetable, some Affine, some Affine,
    none, none]),
  (.AlignmentRotation, [some AlignmentRotation, some AlignmentRotation, some Rotation, some Targetable, some Affine,
    some Affine, some Rotation, none]),
  (.AlignmentTranslation, [some AlignmentTranslation, none, some Translation, some Targetable, some Affine,
    some Affine, none, none]),
  (.AlignmentUniformScale, [some AlignmentUniformScale, none, some UniformScale, some Targetable, some Affine,
    some Affine, none, some UniformScale])]

/-- `Targetable.n_dims` (`self.target.n_dims`), which the alignment classes resolve `n_dims` to.  The model has no
target; the target of an alignment has the dimension of the alignment's matrix (its constructor fits the matrix to
`source` and `target`, two point clouds of one dimension), which is what this word says. -/
def targetNDims (o : DObj) : Int := (o.hm.c : Int) - 1

/-- `self.n_dims`: the property body of the class the table names -/
def callNDims (t2 : MethodTable2) (bodies : List (Sup × (DObj → Int))) (self : DObj) : Int :=
  match callMeth2 t2 .n_dims self.cls bodies with
  | some f => f self
  | none => -1

/-- `self._set_h_matrix(v, copy=…, skip_checks=…)`: the body of the class the method table names -/
def callSetH (mt : MethodTable) (bodies : List (Sup × (DObj → Arr2 → Bool → Bool → Except Err DObj)))
    (self : DObj) (v : Arr2) (copy skip : Bool) : Except Err DObj :=
  match callMeth mt ._set_h_matrix (.fam self.cls) bodies with
  | some f => f self v copy skip
  | none => .error .noMethod

/-- `self.set_rotation_matrix(v, skip_checks=…)` -/
def callSetRot (t2 : MethodTable2) (bodies : List (Sup × (DObj → Arr2 → Bool → Except Err DObj)))
    (self : DObj) (v : Arr2) (skip : Bool) : Except Err DObj :=
  match callMeth2 t2 .set_rotation_matrix self.cls bodies with
  | some f => f self v skip
  | none => .error .noMethod

/-- `cls(m, copy=…, skip_checks=…)`: a new object of class `cls`, then the `__init__` the table names; a class
whose `__init__` takes other arguments (`Rotation`, `Translation`, the scales, the alignments) raises `TypeError` -/
def callInitMat (t2 : MethodTable2) (bodies : List (Sup × (DObj → Arr2 → Bool → Bool → Except Err DObj)))
    (c : HCls) (m : Arr2) (copy skip : Bool) : Except Err DObj :=
  match callMeth2 t2 .init c bodies with
  | some f => f (DObj.new c) m copy skip
  | none => .error .noMethod

/-! ### between the translated world and the model's fixed-dimension matrices -/

def Arr2.ofMat {n : Nat} (M : Mat n) : Arr2 :=
  ⟨n, n, fun i j => if h : i < n ∧ j < n then M ⟨i, h.1⟩ ⟨j, h.2⟩ else 0⟩

def Arr2.toMat (a : Arr2) (n : Nat) : Mat n := ⟨fun i j => a.e i.val j.val⟩

def Arr2.toVec (v : List Rat) (n : Nat) : Vec n := ⟨fun i => v.getD i.val 0⟩

def DObj.ofHT {d : Nat} (t : HT d) : DObj := ⟨t.cls, some (Arr2.ofMat t.M)⟩

/-- read an object back as a `d`-dimensional family object (`shape`: its matrix is not `(d+1) × (d+1)`) -/
def DObj.asHT (d : Nat) (o : DObj) : Except Err (HT d) :=
  match o.h with
  | some a => if a.r = d + 1 ∧ a.c = d + 1 then .ok ⟨o.cls, a.toMat (d + 1)⟩ else .error .shape
  | none => .error .noMethod

theorem Arr2.toMat_ofMat {n : Nat} (M : Mat n) : (Arr2.ofMat M).toMat n = M := by
  apply Mat.ext; intro i j; simp [Arr2.toMat, Arr2.ofMat]

theorem DObj.asHT_ofHT {d : Nat} (t : HT d) : (DObj.ofHT t).asHT d = .ok t := by
  have h := Arr2.toMat_ofMat t.M
  simp only [DObj.asHT, DObj.ofHT]
  rw [if_pos (by exact ⟨rfl, rfl⟩)]
  rw [h]

end MenpoModel.C03.Src
