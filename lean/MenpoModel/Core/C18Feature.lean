/-
C18 — features agree on arrays and images and keep annotations attached.

Executable model of `menpo/feature/base.py` (`ndfeature`, `imgfeature`, `winitfeature`,
`rebuild_feature_image`, `rebuild_feature_image_with_centres`, `lm_centres_correction`) generically over an
abstract array-level feature `f : P → Except Err P`, and of `menpo.feature.normalize` (+ the three
`normalize_*` wrappers) over core `Rat`, branch for branch, including the zero-denominator branches as coded
(`fixed := false`) and as repaired (`fixed := true`).

The numerical kernels (np.gradient, scipy filters, DAISY) are library code: they are the abstract `f`.
The scale statistic (`np.std`, `np.linalg.norm` need a square root) is a contract parameter `stat`.
Core Lean only (no Mathlib).
-/
import MenpoModel.Core.C18Float

namespace MenpoModel.C18

/-! ## 1. Images, masks, landmarks -/

abbrev Pt := List Rat
abbrev Group := List Pt
/-- landmark manager: interned group key ↦ points (labels/edges are carried unchanged by `Transform.apply`) -/
abbrev Lms := List (Nat × Group)

structure Mask where
  shape : List Nat
  bits : List Bool            -- row-major (C order)
deriving DecidableEq, Repr

/-- `P` = the pixel array `(C, X, Y, …)`; `mask = some _` iff the image is a `MaskedImage` -/
structure Img (P : Type) where
  pixels : P
  mask : Option Mask
  lms : Lms
deriving DecidableEq

inductive Arg (P : Type) where
  | arr : P → Arg P
  | img : Img P → Arg P
deriving DecidableEq

inductive Err where
  | feature (code : Nat)      -- the array-level feature itself raised
  | scale                     -- `Image.rescale`: "Scales must be positive floats." (a new extent is 0)
  | dims                      -- shapes of different dimensionality
  | index                     -- centre outside the mask
  | maskShape                 -- `MaskedImage(pixels, mask=…)`: "Trying to set a mask with an invalid shape"
deriving DecidableEq, Repr

/-! ### nearest-neighbour mask resize (`BooleanImage.resize` → `rescale(round='round')` → `warp_to_shape(order=0, mode='nearest')`)

The code is modelled in its own arithmetic: `srcF o n i` (Core/C18Float.lean) is the binary64 chain, operation by
operation, so exact half-way sampling positions are decided the way the code decides them.
`srcAxis` below is the *specification* in exact arithmetic: along an axis of old extent `o` and new extent `n` the
ideal sampling position of new index `i` is `i·(o−1)/(n−1)`, order-0 interpolation takes the nearest index
(`⌊pos + ½⌋`, clamped); `Lemmas/C18Chain.lean` relates the two.
`n ≤ 1` or `o ≤ 1` give `0/0` or `k/0` in the code (NaN/∞ coordinates): modelled as `degenerate`, nothing is claimed
about the content (shape and kind still are). -/

inductive Src where
  | at (k : Nat)
  | tie (k : Nat)
  | degenerate
deriving DecidableEq, Repr

/-- exact-arithmetic specification of the source index (`tie k`: the position is exactly half-way between `k-1`… and `k`) -/
def srcAxis (o n i : Nat) : Src :=
  if n ≤ 1 ∨ o ≤ 1 then .degenerate
  else
    let num := 2 * i * (o - 1) + (n - 1)
    let den := 2 * (n - 1)
    let k := min (o - 1) (num / den)
    if num % den = 0 then .tie k else .at k

/-- row-major multi-index of flat position `k` in an array of the given shape -/
def unravel : List Nat → Nat → List Nat
  | [], _ => []
  | _ :: rest, k => let s := rest.foldl (· * ·) 1; (k / s) :: unravel rest (k % s)

def ravel : List Nat → List Nat → Nat
  | _ :: rest, i :: is => i * rest.foldl (· * ·) 1 + ravel rest is
  | _, _ => 0

def prod (l : List Nat) : Nat := l.foldl (· * ·) 1

/-- an axis on which the code's sampling positions are NaN/∞ -/
def degenerateAxes (old new : List Nat) : Bool :=
  (old.zip new).any fun on => decide (on.1 ≤ 1) || decide (on.2 ≤ 1)

/-- per axis: the source index of every new index (`srcF`, the binary64 chain), computed once per resize -/
def axisTables (old new : List Nat) : List (List Nat) :=
  List.zipWith (fun o n => (List.range n).map (srcF o n)) old new

/-- value of flat pixel `k` of the resized mask, given the per-axis tables -/
def resizeBitWith (tbls : List (List Nat)) (m : Mask) (new : List Nat) (k : Nat) : Bool :=
  let idx := unravel new k
  let ks := List.zipWith (fun (tbl : List Nat) i => tbl.getD i 0) tbls idx
  m.bits.getD (ravel m.shape ks) false

/-- value of one pixel of the resized mask as the code computes it (binary64 positions); `none` on degenerate axes -/
def resizeBit (m : Mask) (new : List Nat) (k : Nat) : Option Bool :=
  if degenerateAxes m.shape new then none
  else some (resizeBitWith (axisTables m.shape new) m new k)

/-- the same pixel by the exact-arithmetic specification; the flag says that some axis is sampled exactly half-way -/
def resizeBitSpec (m : Mask) (new : List Nat) (k : Nat) : Option Bool × Bool :=
  let idx := unravel new k
  let srcs := (List.zipWith (fun (on : Nat × Nat) i => srcAxis on.1 on.2 i) (m.shape.zip new) idx)
  if srcs.any (· == .degenerate) then (none, false)
  else
    let ks := srcs.map fun s => match s with | .at k => k | .tie k => k | .degenerate => 0
    let b := m.bits.getD (ravel m.shape ks) false
    (some b, srcs.any fun s => match s with | .tie _ => true | _ => false)

/-- the resized mask, with the rounding of the template shape as a parameter (`resize` = `.round`).
`Err.scale` when an extent becomes 0 (the code raises ValueError), `Err.dims` on rank mismatch, `Err.maskShape`
when the warped mask does not get the requested shape (then `MaskedImage(f_pixels, mask=mask)` raises).
Undetermined pixels (degenerate axes) are reported as `false` here and flagged by `resizeBit` / `degenerateAxes`. -/
def resizeMaskR (rd : ShapeRound) (m : Mask) (new : List Nat) : Except Err Mask :=
  if new.length ≠ m.shape.length then .error .dims
  else if new.any (· == 0) then .error .scale
  else if List.zipWith (tmplExt rd) m.shape new ≠ new.map Int.ofNat then .error .maskShape
  else
    let deg := degenerateAxes m.shape new
    let tbls := axisTables m.shape new
    .ok ⟨new, (List.range (prod new)).map fun k => if deg then false else resizeBitWith tbls m new k⟩

/-- `image.mask.resize(new_shape)` as coded -/
def resizeMask (m : Mask) (new : List Nat) : Except Err Mask := resizeMaskR .round m new

/-! ### landmarks: `NonUniformScale(new_shape / old_shape).apply(landmarks)` -/

def ratio (new old : List Nat) : List Rat := List.zipWith (fun (n o : Nat) => (n : Rat) / (o : Rat)) new old
def scalePt (sf : List Rat) (p : Pt) : Pt := List.zipWith (· * ·) p sf
def scaleLms (sf : List Rat) (l : Lms) : Lms := l.map fun kg => (kg.1, kg.2.map (scalePt sf))

/-! ## 2. The wrappers (generic over the pixel type `P`, its spatial shape `sh p = p.shape[1:]` and the feature) -/

section wrappers
variable {P : Type} (sh : P → List Nat)

/-- `rebuild_feature_image(image, f_pixels)` -/
def rebuild (im : Img P) (fp : P) : Except Err (Img P) :=
  let old := sh im.pixels
  let new := sh fp
  let changed := new != old
  let maskE : Except Err (Option Mask) :=
    match im.mask with
    | some m => if changed then (resizeMask m new).map some else .ok (some m)   -- resize / copy
    | none => .ok none
  match maskE with
  | .error e => .error e
  | .ok mask' =>
    let lms' := if im.lms.isEmpty then [] else if changed then scaleLms (ratio new old) im.lms else im.lms
    .ok ⟨fp, mask', lms'⟩

/-- `@ndfeature` -/
def ndfeature (f : P → Except Err P) : Arg P → Except Err (Arg P)
  | .arr p => (f p).map .arr
  | .img im => match f im.pixels with
    | .error e => .error e
    | .ok fp => (rebuild sh im fp).map .img

/-- `@imgfeature`: an array is wrapped into a temporary plain `Image` (no mask, no landmarks) -/
def imgfeature (g : Img P → Except Err (Img P)) : Arg P → Except Err (Arg P)
  | .arr p => (g ⟨p, none, []⟩).map fun r => .arr r.pixels
  | .img im => (g im).map .img

/-- window centres `(H', W', 2)` of a window-iterating feature (rows of (row, column) pixel positions) -/
abbrev Centres := List (List (Nat × Nat))

def centresMin (c : Centres) : Nat × Nat :=
  let flat := c.flatten
  (flat.foldl (fun a p => min a p.1) (flat.headD (0, 0)).1, flat.foldl (fun a p => min a p.2) (flat.headD (0, 0)).2)

/-- `lm_centres_correction`: translate by `−min`, then scale by `1/step` (step = spacing of the first two centres,
or the first centre itself when there is only one row / column, as coded) -/
def centresStep (c : Centres) : Int × Int :=
  let c00 := (c.headD []).headD (0, 0)
  let sv : Int := match c with
    | _ :: r1 :: _ => ((r1.headD (0, 0)).1 : Int) - (c00.1 : Int)
    | _ => (c00.1 : Int)
  let shh : Int := match c.headD [] with
    | _ :: c01 :: _ => (c01.2 : Int) - (c00.2 : Int)
    | _ => (c00.2 : Int)
  (sv, shh)

def correctPt (c : Centres) (p : Pt) : Pt :=
  let mn := centresMin c
  let st := centresStep c
  match p with
  | [y, x] => [(y - (mn.1 : Rat)) / (st.1 : Rat), (x - (mn.2 : Rat)) / (st.2 : Rat)]
  | _ => p

def sampleMask (m : Mask) (c : Centres) : Except Err Mask :=
  match m.shape with
  | [h, w] =>
    let flat := c.flatten
    if flat.any (fun p => decide (h ≤ p.1) || decide (w ≤ p.2)) then .error .index
    else .ok ⟨[c.length, (c.headD []).length], flat.map fun p => m.bits.getD (p.1 * w + p.2) false⟩
  | _ => .error .dims

/-- `rebuild_feature_image_with_centres` -/
def rebuildCentres (im : Img P) (fp : P) (c : Centres) : Except Err (Img P) :=
  let maskE : Except Err (Option Mask) :=
    match im.mask with
    | some m => (sampleMask m c).map some
    | none => .ok none
  match maskE with
  | .error e => .error e
  | .ok mask' =>
    let lms' := if im.lms.isEmpty then [] else im.lms.map fun kg => (kg.1, kg.2.map (correctPt c))
    .ok ⟨fp, mask', lms'⟩

/-- `@winitfeature` -/
def winitfeature (f : P → Except Err (P × Centres)) : Arg P → Except Err (Arg P)
  | .arr p => (f p).map fun r => .arr r.1
  | .img im => match f im.pixels with
    | .error e => .error e
    | .ok (fp, c) => (rebuildCentres im fp c).map .img

end wrappers

/-! ## 3. `normalize` over `Rat` -/

/-- vectorised pixels `as_vector(keep_channels=True)`: one row per channel -/
abbrev Chans := List (List Rat)

inductive Mode where
  | all
  | perChannel
deriving DecidableEq, Repr

inductive NErr where
  | zeroScale      -- ValueError("Computed scale factor cannot be 0.0")
  | index          -- IndexError of the coded skip branch (a scalar statistic indexed with a mask)
  | nonFinite      -- a division by zero would be executed (inf / nan in numpy)
deriving DecidableEq, Repr

def sum (l : List Rat) : Rat := l.sum
def mean (l : List Rat) : Rat := sum l / (l.length : Rat)
def sumsq (l : List Rat) : Rat := sum (l.map fun x => x * x)
/-- `np.var` (ddof = 0) -/
def var (l : List Rat) : Rat := sum (l.map fun x => (x - mean l) * (x - mean l)) / (l.length : Rat)

/-- `pixels - np.mean(pixels)` resp. `pixels - np.mean(pixels, axis=1, keepdims=True)` -/
def centre (mode : Mode) (x : Chans) : Chans :=
  match mode with
  | .all => let m := mean x.flatten; x.map fun row => row.map (· - m)
  | .perChannel => x.map fun row => row.map (· - mean row)

/-- `scale_func(centered)` resp. `scale_func(centered, axis=1)`: one statistic overall / one per channel -/
def scalesOf (stat : List Rat → Rat) (mode : Mode) (c : Chans) : List Rat :=
  match mode with
  | .all => [stat c.flatten]
  | .perChannel => c.map stat

/-- `centered / scale_factor` with numpy broadcasting; refuses to divide by zero -/
def divRows (mode : Mode) (c : Chans) (scales : List Rat) : Except NErr Chans :=
  if scales.any (· == 0) then .error .nonFinite
  else match mode with
    | .all => .ok (c.map fun row => row.map (· / scales.headD 1))
    | .perChannel => .ok (List.zipWith (fun row s => row.map (· / s)) c scales)

/-- the tail of `normalize` after centring: zero test and the three branches.
`fixed = false`: as coded (`centered[nz] = centered[nz] / scale[nz]` — IndexError in mode `all`);
`fixed = true`: as repaired (`np.where(scale == 0, 1, scale)`: zero-scale entries are divided by one). -/
def normCore (mode : Mode) (errOnZero fixed : Bool) (c : Chans) (scales : List Rat) : Except NErr Chans :=
  let anyZero := scales.any (· == 0)
  if errOnZero && anyZero then .error .zeroScale
  else if anyZero then
    if fixed then divRows mode c (scales.map fun s => if s == 0 then 1 else s)
    else match mode with
      | .all => .error .index
      | .perChannel => .ok (List.zipWith (fun row s => if s == 0 then row else row.map (· / s)) c scales)
  else divRows mode c scales

/-- `normalize` on vectorised data -/
def normalizeV (stat : List Rat → Rat) (mode : Mode) (errOnZero fixed : Bool) (x : Chans) : Except NErr Chans :=
  let c := centre mode x
  normCore mode errOnZero fixed c (scalesOf stat mode c)

/-! ### `normalize` on an image: `as_vector` (masked pixels only for a MaskedImage) … `from_vector` (zeros outside the mask) -/

def gather {α} : List Bool → List α → List α
  | b :: bs, x :: xs => if b then x :: gather bs xs else gather bs xs
  | _, _ => []

def scatter {α} (zero : α) : List Bool → List α → List α
  | b :: bs, vs => if b then (match vs with | v :: vs' => v :: scatter zero bs vs' | [] => zero :: scatter zero bs [])
                   else zero :: scatter zero bs vs
  | [], _ => []

/-- pixel array with its spatial shape -/
structure Arr where
  shape : List Nat
  chans : Chans
deriving DecidableEq, Repr

def normalizeImg (stat : List Rat → Rat) (mode : Mode) (errOnZero fixed : Bool) (im : Img Arr) :
    Except NErr (Img Arr) :=
  match im.mask with
  | none => (normalizeV stat mode errOnZero fixed im.pixels.chans).map fun out => ⟨⟨im.pixels.shape, out⟩, none, im.lms⟩
  | some m =>
    if m.bits.all id then
      (normalizeV stat mode errOnZero fixed im.pixels.chans).map fun out => ⟨⟨im.pixels.shape, out⟩, some m, im.lms⟩
    else
      (normalizeV stat mode errOnZero fixed (im.pixels.chans.map (gather m.bits))).map fun out =>
        ⟨⟨im.pixels.shape, out.map (scatter 0 m.bits)⟩, some m, im.lms⟩

/-! ### `normalize_std` / `normalize_norm` / `normalize_var`: `@ndfeature` around a call of the `@imgfeature`
`normalize` on the raw pixel array (so a MaskedImage is normalised over ALL its pixels and rebuilt by
`rebuild_feature_image`) -/

def NErr.code : NErr → Nat
  | .zeroScale => 1
  | .index => 2
  | .nonFinite => 3

def liftN {α} : Except NErr α → Except Err α
  | .ok a => .ok a
  | .error e => .error (.feature e.code)

def normalizeArr (stat : List Rat → Rat) (mode : Mode) (errOnZero fixed : Bool) (p : Arr) : Except Err Arr :=
  match imgfeature (fun im => liftN (normalizeImg stat mode errOnZero fixed im)) (.arr p) with
  | .ok (.arr q) => .ok q
  | .ok (.img r) => .ok r.pixels
  | .error e => .error e

def normalizeNd (stat : List Rat → Rat) (mode : Mode) (errOnZero fixed : Bool) : Arg Arr → Except Err (Arg Arr) :=
  ndfeature (fun p => p.shape) (normalizeArr stat mode errOnZero fixed)

/-! ## 4. Buffers: who writes where (for "never modifies its input")

A store of pixel buffers.  `normalize` as coded: `as_vector` is a *view* of the image buffer (plain image, or
all-true mask) or a fresh gather; `pixels - mean` allocates; the skip branch writes *in place into that fresh
buffer*; `from_vector` allocates the result.  An in-place variant (`centered = pixels; centered -= mean`) would
be `write` to the view, i.e. to the caller's buffer. -/

structure Store where
  bufs : List Chans
deriving Repr

def Store.alloc (s : Store) (b : Chans) : Store × Nat := (⟨s.bufs ++ [b]⟩, s.bufs.length)
def Store.write (s : Store) (i : Nat) (b : Chans) : Store := ⟨s.bufs.set i b⟩
def Store.read (s : Store) (i : Nat) : Chans := s.bufs.getD i []

/-- buffer-level `normalize` on a plain image whose pixels live in buffer `i`; returns the store and the id of
the result's buffer -/
def normalizeS (stat : List Rat → Rat) (mode : Mode) (errOnZero fixed : Bool) (s : Store) (i : Nat) :
    Except NErr (Store × Nat) :=
  let view := s.read i                                   -- as_vector: a view, no allocation
  let (s1, c) := s.alloc (centre mode view)              -- pixels - mean: new array
  let scales := scalesOf stat mode (s1.read c)
  let anyZero := scales.any (· == 0)
  if errOnZero && anyZero then .error .zeroScale
  else if anyZero && !fixed then
    match normCore mode errOnZero fixed (s1.read c) scales with
    | .error e => .error e
    | .ok v =>
      let s2 := s1.write c v                             -- centered[nz] = … : in place, into the fresh buffer
      .ok (s2.alloc (s2.read c))                         -- from_vector(copy=True)
  else
    match normCore mode errOnZero fixed (s1.read c) scales with
    | .error e => .error e
    | .ok v =>
      let (s2, q) := s1.alloc v                          -- centered / scale: new array
      .ok (s2.alloc (s2.read q))                         -- from_vector(copy=True)

/-- store-level array feature: may allocate, returns the id of its output buffer -/
abbrev SFeat := Store → Nat → Except Err (Store × Nat)

/-- image whose pixels are buffer `pix` -/
structure SImg where
  pix : Nat
  mask : Option Mask
  lms : Lms

/-- `@ndfeature` at buffer level: `Image(f_pixels, copy=False)` wraps the feature's output buffer; the wrapper
itself performs no write -/
def ndfeatureS (sh : Chans → List Nat) (f : SFeat) (s : Store) (im : SImg) : Except Err (Store × SImg) :=
  match f s im.pix with
  | .error e => .error e
  | .ok (s', j) =>
    match rebuild sh (⟨s.read im.pix, im.mask, im.lms⟩ : Img Chans) (s'.read j) with
    | .error e => .error e
    | .ok r => .ok (s', ⟨j, r.mask, r.lms⟩)

end MenpoModel.C18
