/-
C12 — the vocabulary of the source-to-Lean translation of menpo/model/gmrf.py (`harness/trans_c12.py`) and the
hand-written definitions the translation is proved equal to (`GenProps/C12Src.lean`, re-checked on every run).

Part 1 (vocabulary): what the numpy / scipy expressions that occur in gmrf.py denote on exact data.  Arrays are
rectangular: a 2-D array is a `Mat` whose width is the length of its first row (`rowLen`); every array operation
returns a `tab`-shaped table, entries outside an array read `0` (`ent`).  Not modelled: numpy's shape / index errors
(a slice assignment whose right-hand side has another shape, an index beyond the end) — the model reads `0` / leaves the
table unchanged where numpy raises.

Part 2 (`…Coded`): `_covariance_matrix_inverse`, the four `_create_*_precision` routines (for both values of
`return_covariances`), `GMRFVectorModel.__init__`, `GMRFModel.__init__`, `_data_to_matrix`, `mean`,
`mahalanobis_distance`, `_mahalanobis_distance`, `principal_components_analysis`, written by hand statement for
statement as the Python text has them (loops as folds over the loop-carried variables with an `Option` exit flag, which
is what the translator produces).  `Lemmas/C12Src*.lean` prove these equal to the executable model of
`Core/C12GMRF.lean` (`dense`, `assemble`, `allTrips`, `diagTrips`, `denseDiag`, `build`, `mahalSparse`, `mahalDense`, …)
that the property theorems are about.
-/
import MenpoModel.Core.C12GMRF
import MenpoModel.Core.PyLoop

set_option linter.unusedVariables false

namespace MenpoModel.C12.Src
open MenpoModel.C12 MenpoModel.Py

/-! ## Part 1 — vocabulary -/

/-- the `mode` argument: the two strings the code knows, and anything else -/
inductive ModeS | concatenation | subtraction | other
  deriving DecidableEq, Repr

inductive DType | float32 | float64
  deriving DecidableEq, Repr

/-- what the code can raise: `LinAlgError` on a 0-dimensional array, `LinAlgError` on a singular matrix, a failing
SVD, `ValueError` -/
inductive PyErr | linAlg0d | singular | svdFailed | valueError | typeError | indexError
  deriving DecidableEq, Repr

/-- the result of `np.cov(…, rowvar=0)`: a 0-dimensional array for a single column, a matrix otherwise -/
inductive Arr
  | scalar (x : Rat)
  | mat (M : Mat)

instance : Inhabited Arr := ⟨.mat []⟩

/-- width of a (rectangular) 2-D array -/
def rowLen (M : Mat) : Nat := (M.headD []).length

def zerosRC (r c : Nat) : Mat := tab r c fun _ _ => 0

/-- `np.zeros((n, r, c))`: `n` cells of shape `r × c`; a cell holds a matrix (`all_blocks`) or whatever `np.cov`
returned (`all_covariances`) -/
class ZeroCell (β : Type) where
  zero : Nat → Nat → β

instance : ZeroCell Mat := ⟨zerosRC⟩
instance : ZeroCell Arr := ⟨fun r c => .mat (zerosRC r c)⟩

def zerosN {β : Type} [ZeroCell β] (n r c : Nat) : List β := List.replicate n (ZeroCell.zero r c)

def zeros3 {β : Type} [ZeroCell β] (s : Nat × Nat × Nat) : List β := zerosN s.1 s.2.1 s.2.2

/-- a graph as the assembly routines see it: the rows of `graph.edges` and `graph.n_vertices` -/
structure GraphS where
  edges : List (Nat × Nat)
  nVertices : Nat

def GraphS.nEdges (g : GraphS) : Nat := g.edges.length

/-- `graph.edges[e]` -/
def GraphS.edgeAt (g : GraphS) (e : Nat) : Nat × Nat := g.edges.getD e (0, 0)

/-- `range(a, b)` -/
def pyRange (a b : Nat) : List Nat := List.range' a (b - a)

/-- `X[:, a:b]` -/
def sliceCols (X : Mat) (a b : Nat) : Mat := tab X.length (min b (rowLen X) - a) fun i p => ent X i (a + p)

/-- `X[:, idx]` with an index list -/
def takeCols (X : Mat) (idx : List Nat) : Mat := tab X.length idx.length fun i p => ent X i (idx.getD p 0)

/-- `A - B` -/
scoped instance : Sub Mat := ⟨fun A B => tab A.length (rowLen A) fun i j => ent A i j - ent B i j⟩

/-- `-A` -/
scoped instance : Neg Mat := ⟨fun A => tab A.length (rowLen A) fun i j => - ent A i j⟩

/-- upper bound of a slice: `:x` clips at the extent, an open slice runs to the extent -/
def hiBound (o : Option Nat) (L : Nat) : Nat :=
  match o with
  | none => L
  | some x => min x L

/-- `B[r0:r1, c0:c1]` -/
def slice2 (B : Mat) (r0 : Nat) (r1 : Option Nat) (c0 : Nat) (c1 : Option Nat) : Mat :=
  tab (hiBound r1 B.length - r0) (hiBound c1 (rowLen B) - c0) fun a b => ent B (r0 + a) (c0 + b)

/-- `P[a:b, c:d] += B` -/
def addSlice (P : Mat) (a b c d : Nat) (B : Mat) : Mat :=
  tab P.length (rowLen P) fun i j =>
    if a ≤ i ∧ i < b ∧ c ≤ j ∧ j < d then ent P i j + ent B (i - a) (j - c) else ent P i j

/-- `P[a:b, c:d] = B` -/
def setSlice (P : Mat) (a b c d : Nat) (B : Mat) : Mat :=
  tab P.length (rowLen P) fun i j =>
    if a ≤ i ∧ i < b ∧ c ≤ j ∧ j < d then ent B (i - a) (j - c) else ent P i j

/-- `np.cov(D, rowvar=0, bias=bias)`: one row per observation -/
def npCov (D : Mat) (bias : Bool) : Arr :=
  if rowLen D = 1 then .scalar (ent (covMat D D.length 1 bias) 0 0)
  else .mat (covMat D D.length (rowLen D) bias)

/-- position of a Python index in a sequence of length `len` (negative: from the end) -/
def natIdx (len : Nat) (i : Int) : Nat := if 0 ≤ i then i.toNat else ((len : Int) + i).toNat

/-- `l[i]` for a natural, an integer or an index-array `i` -/
class PyIdx (α : Type) (ι : Type) (β : outParam Type) where
  idx : List α → ι → β

instance {α : Type} [Inhabited α] : PyIdx α Nat α := ⟨fun l i => l.getD i default⟩
instance {α : Type} [Inhabited α] : PyIdx α Int α := ⟨fun l i => l.getD (natIdx l.length i) default⟩
instance {α : Type} [Inhabited α] : PyIdx α (List Nat) (List α) := ⟨fun l p => p.map fun i => l.getD i default⟩

def pyIdx {α ι β : Type} [PyIdx α ι β] (l : List α) (i : ι) : β := PyIdx.idx l i

/-- `l[i] = v` for a natural or an integer `i` -/
class PyPos (ι : Type) where
  pos : Nat → ι → Nat

instance : PyPos Nat := ⟨fun _ i => i⟩
instance : PyPos Int := ⟨natIdx⟩

def pySet {α ι : Type} [PyPos ι] (l : List α) (i : ι) (v : α) : List α := l.set (PyPos.pos l.length i) v

/-- `np.where(rows == i)[0]` -/
def npWhereEq (rows : List Nat) (i : Nat) : List Nat := whereEq i rows 0

/-- `bsr_matrix((blocks, columns, indptr))` -/
def mkBsr (blocks : List Mat) (columns indptr : List Nat) : BSR := ⟨blocks, columns, indptr⟩

/-- `…(…, dtype=d)`: the array as allocated / stored with dtype `d`.  Exact numbers do not depend on `d`, so this is the
identity; but the word is opaque to the comparison of the translation with the `…Coded` definitions
(`GenProps/C12Src.lean`), so a hard-coded or dropped `dtype=` no longer proves equal to the one that hands `dtype` on -/
def asDtype {α : Type} (d : DType) (x : α) : α := x

/-- `…(…, shape=(n, m))`: likewise for the declared shape of the sparse matrix -/
def withShape {α : Type} (n m : Nat) (x : α) : α := x

/-! vocabulary of `_covariance_matrix_inverse` -/

def atleast2d : Arr → Arr
  | .scalar x => .mat [[x]]
  | .mat M => .mat M

/-- `np.linalg.inv`: refuses a 0-dimensional array and a singular matrix (the model inverts exactly and verifies
`C·B = 1` itself) -/
def npInv : Arr → Except PyErr Mat
  | .scalar _ => .error .linAlg0d
  | .mat M =>
    match invChecked M M.length with
    | some B => .ok B
    | none => .error .singular

/-- `np.linalg.svd`: a contract parameter (`svd M = some (U, s, Vh)`), refuses a 0-dimensional array -/
def npSvd (svd : Mat → Option (Mat × List Rat × Mat)) : Arr → Except PyErr (Mat × List Rat × Mat)
  | .scalar _ => .error .linAlg0d
  | .mat M =>
    match svd M with
    | some t => .ok t
    | none => .error .svdFailed

/-- `s[:, :n]` (`n = None`: everything) -/
def colsTo (s : Mat) (n : Option Nat) : Mat := tab s.length (hiBound n (rowLen s)) (ent s)
/-- `d[:n, :]` -/
def rowsTo (d : Mat) (n : Option Nat) : Mat := tab (hiBound n d.length) (rowLen d) (ent d)
/-- `v[:n]` -/
def takeTo (v : List Rat) (n : Option Nat) : List Rat :=
  match n with
  | none => v
  | some k => v.take k
/-- `np.diag(1 / v)` -/
def diagRecip (v : List Rat) : Mat := tab v.length v.length fun i j => if i = j then 1 / v.getD i 0 else 0
/-- `A.dot(B)` -/
def matDot (A B : Mat) : Mat := tab A.length (rowLen B) fun i j => sumTo B.length fun l => ent A i l * ent B l j

/-! vocabulary of the two constructors -/

/-- what a caller hands over as samples / queries -/
inductive PyData
  | arr2 (M : Mat)
  | arr1 (v : List Rat)
  | listRows (M : Mat)
  | listNums (v : List Rat)

def takeOpt {α : Type} (l : List α) (n : Option Nat) : List α :=
  match n with
  | none => l
  | some k => l.take k

def PyData.len : PyData → Nat
  | .arr2 M => M.length
  | .arr1 v => v.length
  | .listRows M => M.length
  | .listNums v => v.length

def PyData.isArray : PyData → Bool
  | .arr2 _ => true
  | .arr1 _ => true
  | _ => false

/-- `np.array(data)[:n]` -/
def PyData.arrayTake (d : PyData) (n : Option Nat) : PyData :=
  match d with
  | .arr2 M => .arr2 (takeOpt M n)
  | .arr1 v => .arr1 (takeOpt v n)
  | .listRows M => .arr2 (takeOpt M n)
  | .listNums v => .arr1 (takeOpt v n)

/-- the 2-D array a routine works on (a 1-D array where a 2-D one is needed is an IndexError in Python: not
modelled, the empty matrix) -/
def PyData.toMat : PyData → Mat
  | .arr2 M => M
  | .listRows M => M
  | _ => []

def PyData.ndim : PyData → Nat
  | .arr2 _ => 2
  | .listRows _ => 2
  | _ => 1

/-- `x[..., None].T` of a 1-D array: the 1 × n matrix -/
def PyData.rowVec : PyData → PyData
  | .arr1 v => .arr2 [v]
  | .listNums v => .arr2 [v]
  | d => d

/-- `data.shape[1]` -/
def PyData.shape1 (d : PyData) : Nat := rowLen d.toMat

/-- `np.mean(data, axis=0)` -/
def PyData.mean0 (d : PyData) : List Rat := meanVec d.toMat d.toMat.length (rowLen d.toMat)

/-- the precision as stored: an ndarray or a block-sparse-row matrix of shape `n × n` with `k × k` blocks (scipy reads
the block size off the shape of `all_blocks`, which is allocated with `n_features_per_vertex`) -/
inductive Storage
  | dense (M : Mat)
  | bsr (n k : Nat) (B : BSR)

instance : Inhabited Storage := ⟨.dense []⟩

def Storage.n : Storage → Nat
  | .dense M => M.length
  | .bsr n _ _ => n

/-- entry `(I, J)` (scipy's contract for BSR: duplicates summed) -/
def Storage.ent : Storage → Nat → Nat → Rat
  | .dense M => MenpoModel.C12.ent M
  | .bsr _ k B => bsrEnt k B

/-- a constructor value: `_create_…_diagonal_precision`, `partial(_create_…_precision, mode=…)` -/
inductive CtorS
  | sparseDiag
  | denseDiag
  | sparseEdges (m : ModeS)
  | denseEdges (m : ModeS)

/-- what a constructor call returns: the matrix, or the pair (matrix, covariances) -/
structure CtorOut where
  storage : Storage
  covs : Option (List Arr)

/-- `a, b = constructor(…)` -/
def CtorOut.unpack (o : CtorOut) : Except PyErr (Storage × Option (List Arr)) :=
  match o.covs with
  | some c => .ok (o.storage, some c)
  | none => .error .typeError

/-- `a = constructor(…)` where a matrix is expected -/
def CtorOut.asMatrix (o : CtorOut) : Except PyErr Storage :=
  match o.covs with
  | none => .ok o.storage
  | some _ => .error .typeError

/-- the attributes `GMRFVectorModel.__init__` sets -/
structure VecModel where
  n_samples : Option Nat
  n_features : Nat
  n_features_per_vertex : Nat
  graph : GraphS
  mode : ModeS
  n_components : Option Nat
  sparse : Bool
  dtype : DType
  bias : Bool
  is_incremental : Bool
  mean_vector : List Rat
  precision : Storage
  covariance_matrices : Option (List Arr)

/-- `as_vector()` of a `V × k` point set: row-major -/
def objVec (p : Mat) : List Rat := p.flatten

/-- `as_matrix(samples, length=…, return_template=True)` on a list of samples (`length` is for generators:
`next(list)` is a TypeError; an empty list has no template) -/
def asMatrixT (samples : List Mat) (length : Option Nat) : Except PyErr (PyData × Mat) :=
  match length with
  | some _ => .error .typeError
  | none =>
    match samples with
    | [] => .error .indexError
    | t :: _ => .ok (.arr2 (samples.map objVec), t)

/-- `template.from_vector(v)` -/
def fromVectorLike (t : Mat) (v : List Rat) : Mat := tab t.length (rowLen t) fun a b => v.getD (a * rowLen t + b) 0

/-! vocabulary of the queries -/

/-- `np.tile(m[..., None], n).T` -/
def tileRows (m : List Rat) (n : Nat) : Mat := List.replicate n m

/-- `M.T` -/
def transposeM (M : Mat) : Mat := tab (rowLen M) M.length fun i j => ent M j i

/-- `a.dot(b)` / `np.dot(a, b)` for ndarray and stored-precision operands -/
class PyDot (α β : Type) (γ : outParam Type) where
  dot : α → β → γ

instance : PyDot Mat Mat Mat := ⟨matDot⟩
instance : PyDot Storage Mat Mat :=
  ⟨fun S M => tab S.n (rowLen M) fun I c => sumTo S.n fun J => S.ent I J * ent M J c⟩
instance : PyDot Mat Storage Mat :=
  ⟨fun M S => tab M.length S.n fun i J => sumTo S.n fun I => ent M i I * S.ent I J⟩

def pyDot {α β γ : Type} [PyDot α β γ] (a : α) (b : β) : γ := PyDot.dot a b

/-- `np.diag(d)` of a 2-D array -/
def diagOf (d : Mat) : List Rat := (List.range (min d.length (rowLen d))).map fun i => ent d i i

/-- `np.einsum('ij,ij->i', A, B)` -/
def rowDots (A B : Mat) : List Rat := (List.range A.length).map fun i => sumTo (rowLen A) fun J => ent A i J * ent B i J

/-- what `mahalanobis_distance` returns: a number for one sample, a 1-D array otherwise -/
inductive MahalOut
  | scalar (x : Rat)
  | vec (v : List Rat)

class ToOut (α : Type) where
  out : α → MahalOut

instance : ToOut Rat := ⟨.scalar⟩
instance : ToOut (List Rat) := ⟨.vec⟩

def toOut {α : Type} [ToOut α] (x : α) : MahalOut := ToOut.out x

/-- `np.sqrt` (a contract parameter: leaves ℚ) on a number or an array -/
class NpSqrt (α : Type) where
  sqrt : (Rat → Rat) → α → α

instance : NpSqrt Rat := ⟨fun f x => f x⟩
instance : NpSqrt (List Rat) := ⟨fun f v => v.map f⟩

def npSqrt {α : Type} [NpSqrt α] (f : Rat → Rat) (x : α) : α := NpSqrt.sqrt f x

/-- the argument of `GMRFModel.mahalanobis_distance`: one instance or a list of instances -/
inductive ObjQuery
  | one (p : Mat)
  | many (ps : List Mat)

def ObjQuery.isList : ObjQuery → Bool
  | .many _ => true
  | .one _ => false

/-- `as_matrix(samples)` -/
def ObjQuery.asMatrix : ObjQuery → PyData
  | .many ps => .arr2 (ps.map objVec)
  | .one p => .arr2 [objVec p]

/-- `samples.as_vector()[..., None].T` -/
def ObjQuery.rowVec : ObjQuery → PyData
  | .one p => .arr2 [objVec p]
  | .many _ => .arr2 []

/-- the call `PCA…Model.init_from_covariance_matrix` receives -/
structure PcaCall (μ : Type) where
  C : Storage
  mean : μ
  n_samples : Option Nat
  centred : Bool
  is_inverse : Bool
  max_n_components : Option Nat

/-! ## Part 2 — the routines of gmrf.py, statement for statement -/

/-- `_covariance_matrix_inverse(cov_mat, n_components)`: `np.atleast_2d`; `np.linalg.inv` when `n_components is None`;
otherwise the truncated-SVD formula `s[:, :n].dot(np.diag(1 / v[:n])).dot(d[:n, :])` inside a `try` whose bare
`except` falls back to `np.linalg.inv` -/
def covInverseCoded (svd : Mat → Option (Mat × List Rat × Mat)) (covmat : Arr) (nc : Option Nat) : Except PyErr Mat :=
  let c := atleast2d covmat
  if nc.isNone then npInv c
  else
    match npSvd svd c with
    | .error _ => npInv c
    | .ok t => .ok (matDot (matDot (colsTo t.1 nc) (diagRecip (takeTo t.2.1 nc))) (rowsTo t.2.2 nc))

/-- the covariance of one edge's feature block: the two vertices' columns side by side (`concatenation`) or their
difference (anything else) -/
def edgeCov (X : Mat) (g : GraphS) (k : Nat) (mode : ModeS) (bias : Bool) (e : Nat) : Arr :=
  let v1 := (g.edgeAt e).1
  let v2 := (g.edgeAt e).2
  if mode == ModeS.concatenation then
    npCov (takeCols X (pyRange (v1 * k) ((v1 + 1) * k) ++ pyRange (v2 * k) ((v2 + 1) * k))) bias
  else
    npCov (sliceCols X (v1 * k) ((v1 + 1) * k) - sliceCols X (v2 * k) ((v2 + 1) * k)) bias

/-- the covariance of one vertex's feature block -/
def vertexCov (X : Mat) (k : Nat) (bias : Bool) (v : Nat) : Arr := npCov (sliceCols X (v * k) ((v + 1) * k)) bias

/-- the four slice statements of `_create_dense_precision` for one edge (`+=` on the diagonal blocks, `=` on the
off-diagonal blocks, in the coded order of each mode; any other mode writes nothing) -/
def denseWrite (P : Mat) (g : GraphS) (k : Nat) (mode : ModeS) (e : Nat) (B : Mat) : Mat :=
  let v1 := (g.edgeAt e).1
  let v2 := (g.edgeAt e).2
  let a1 := v1 * k
  let b1 := (v1 + 1) * k
  let a2 := v2 * k
  let b2 := (v2 + 1) * k
  if mode == ModeS.concatenation then
    setSlice (setSlice (addSlice (addSlice P a1 b1 a1 b1 (slice2 B 0 (some k) 0 (some k)))
      a2 b2 a2 b2 (slice2 B k none k none)) a1 b1 a2 b2 (slice2 B 0 (some k) k none)) a2 b2 a1 b1 (slice2 B k none 0 (some k))
  else if mode == ModeS.subtraction then
    addSlice (addSlice (setSlice (setSlice P a1 b1 a2 b2 (-B)) a2 b2 a1 b1 (-B)) a1 b1 a1 b1 B) a2 b2 a2 b2 B
  else P

/-- loop body of `_create_dense_precision`; the first component is the exit flag (a raised error) -/
def denseBody (cinv : Arr → Option Nat → Except PyErr Mat) (X : Mat) (g : GraphS) (k : Nat) (mode : ModeS)
    (nc : Option Nat) (bias : Bool) (acc : Option (Except PyErr Mat) × Mat) (e : Nat) : Option (Except PyErr Mat) × Mat :=
  if acc.1.isSome then acc else
  match cinv (edgeCov X g k mode bias e) nc with
  | .error err => (some (.error err), acc.2)
  | .ok B => (none, denseWrite acc.2 g k mode e B)

def modeKnown (mode : ModeS) : Bool := [ModeS.concatenation, ModeS.subtraction].contains mode

/-- `_create_dense_precision(…, return_covariances=False)` -/
def denseCoded (cinv : Arr → Option Nat → Except PyErr Mat) (X : Mat) (g : GraphS) (n k : Nat) (mode : ModeS)
    (dtype : DType) (nc : Option Nat) (bias : Bool) : Except PyErr Mat :=
  if !modeKnown mode then .error .valueError
  else
    let r := forLoop (none, asDtype dtype (zerosRC n n)) (List.range g.nEdges) (fun acc e => denseBody cinv X g k mode nc bias acc e)
    match r.1 with
    | some v => v
    | none => .ok r.2

/-- size of the covariance of an edge block -/
def covDimS (mode : ModeS) (k : Nat) : Nat := if mode == ModeS.concatenation then 2 * k else k

def denseBodyRC (cinv : Arr → Option Nat → Except PyErr Mat) (X : Mat) (g : GraphS) (k : Nat) (mode : ModeS)
    (nc : Option Nat) (bias : Bool) (acc : Option (Except PyErr (Mat × List Arr)) × Mat × List Arr) (e : Nat) :
    Option (Except PyErr (Mat × List Arr)) × Mat × List Arr :=
  if acc.1.isSome then acc else
  let c := edgeCov X g k mode bias e
  let covs := pySet acc.2.2 e c
  match cinv c nc with
  | .error err => (some (.error err), acc.2.1, covs)
  | .ok B => (none, denseWrite acc.2.1 g k mode e B, covs)

/-- `_create_dense_precision(…, return_covariances=True)` -/
def denseCodedRC (cinv : Arr → Option Nat → Except PyErr Mat) (X : Mat) (g : GraphS) (n k : Nat) (mode : ModeS)
    (dtype : DType) (nc : Option Nat) (bias : Bool) : Except PyErr (Mat × List Arr) :=
  if !modeKnown mode then .error .valueError
  else
    let r := forLoop (none, asDtype dtype (zerosRC n n), asDtype dtype (zeros3 (g.nEdges, covDimS mode k, covDimS mode k))) (List.range g.nEdges)
      (fun acc e => denseBodyRC cinv X g k mode nc bias acc e)
    match r.1 with
    | some v => v
    | none => .ok (r.2.1, r.2.2)

/-- `count += 1; all_blocks[count] = B; rows[count] = r; columns[count] = c` on (blocks, columns, rows, count) -/
def store (st : List Mat × List Nat × List Nat × Int) (B : Mat) (r c : Nat) : List Mat × List Nat × List Nat × Int :=
  (pySet st.1 (st.2.2.2 + 1) B, pySet st.2.1 (st.2.2.2 + 1) c, pySet st.2.2.1 (st.2.2.2 + 1) r, st.2.2.2 + 1)

/-- the four stored blocks of `_create_sparse_precision` for one edge, in the coded order -/
def sparseWrite (st : List Mat × List Nat × List Nat × Int) (g : GraphS) (k : Nat) (mode : ModeS) (e : Nat) (B : Mat) :
    List Mat × List Nat × List Nat × Int :=
  let v1 := (g.edgeAt e).1
  let v2 := (g.edgeAt e).2
  if mode == ModeS.concatenation then
    store (store (store (store st (slice2 B 0 (some k) 0 (some k)) v1 v1) (slice2 B k none k none) v2 v2)
      (slice2 B 0 (some k) k none) v1 v2) (slice2 B k none 0 (some k)) v2 v1
  else
    store (store (store (store st B v1 v1) B v2 v2) (-B) v1 v2) (-B) v2 v1

def sparseBody (cinv : Arr → Option Nat → Except PyErr Mat) (X : Mat) (g : GraphS) (k : Nat) (mode : ModeS)
    (nc : Option Nat) (bias : Bool) (acc : Option (Except PyErr BSR) × List Mat × List Nat × List Nat × Int) (e : Nat) :
    Option (Except PyErr BSR) × List Mat × List Nat × List Nat × Int :=
  if acc.1.isSome then acc else
  match cinv (edgeCov X g k mode bias e) nc with
  | .error err => (some (.error err), acc.2)
  | .ok B => (none, sparseWrite acc.2 g k mode e B)

/-- body of the `indptr` loop -/
def indptrBody (rows : List Nat) (ip : List Nat) (i : Nat) : List Nat :=
  if (npWhereEq rows i).length == 0 then pySet ip (i + 1) (pyIdx ip i : Nat)
  else pySet (pySet ip i (pyIdx (npWhereEq rows i) (0 : Nat) : Nat)) (i + 1) ((pyIdx (npWhereEq rows i) (-(1) : Int) : Nat) + 1)

/-- `rows.argsort()`, the three reorderings, the `indptr` loop, `bsr_matrix((all_blocks, columns, indptr))` -/
def finishBsr (argsort : List Nat → List Nat) (V n : Nat) (dtype : DType) (blocks : List Mat) (columns rows : List Nat) :
    BSR :=
  withShape n n (asDtype dtype (mkBsr (pyIdx blocks (argsort rows)) (pyIdx columns (argsort rows))
    (forLoop (List.replicate (V + 1) (0 : Nat)) (List.range V) (fun ip i => indptrBody (pyIdx rows (argsort rows)) ip i))))

/-- `_create_sparse_precision(…, return_covariances=False)` -/
def sparseCoded (cinv : Arr → Option Nat → Except PyErr Mat) (argsort : List Nat → List Nat) (X : Mat) (g : GraphS)
    (n k : Nat) (mode : ModeS) (dtype : DType) (nc : Option Nat) (bias : Bool) : Except PyErr BSR :=
  if !modeKnown mode then .error .valueError
  else
    let r := forLoop (none, asDtype dtype (zerosN (g.nEdges * 4) k k), List.replicate (g.nEdges * 4) (0 : Nat),
      List.replicate (g.nEdges * 4) (0 : Nat), (-(1) : Int)) (List.range g.nEdges) (fun acc e => sparseBody cinv X g k mode nc bias acc e)
    match r.1 with
    | some v => v
    | none => .ok (finishBsr argsort g.nVertices n dtype r.2.1 r.2.2.1 r.2.2.2.1)

def sparseBodyRC (cinv : Arr → Option Nat → Except PyErr Mat) (X : Mat) (g : GraphS) (k : Nat) (mode : ModeS)
    (nc : Option Nat) (bias : Bool)
    (acc : Option (Except PyErr (BSR × List Arr)) × List Mat × List Arr × List Nat × List Nat × Int) (e : Nat) :
    Option (Except PyErr (BSR × List Arr)) × List Mat × List Arr × List Nat × List Nat × Int :=
  if acc.1.isSome then acc else
  let c := edgeCov X g k mode bias e
  let covs := pySet acc.2.2.1 e c
  match cinv c nc with
  | .error err => (some (.error err), acc.2.1, covs, acc.2.2.2)
  | .ok B =>
    let st := sparseWrite (acc.2.1, acc.2.2.2) g k mode e B
    (none, st.1, covs, st.2)

/-- `_create_sparse_precision(…, return_covariances=True)` -/
def sparseCodedRC (cinv : Arr → Option Nat → Except PyErr Mat) (argsort : List Nat → List Nat) (X : Mat) (g : GraphS)
    (n k : Nat) (mode : ModeS) (dtype : DType) (nc : Option Nat) (bias : Bool) : Except PyErr (BSR × List Arr) :=
  if !modeKnown mode then .error .valueError
  else
    let r := forLoop (none, asDtype dtype (zerosN (g.nEdges * 4) k k), asDtype dtype (zeros3 (g.nEdges, covDimS mode k, covDimS mode k)),
      List.replicate (g.nEdges * 4) (0 : Nat), List.replicate (g.nEdges * 4) (0 : Nat), (-(1) : Int)) (List.range g.nEdges)
      (fun acc e => sparseBodyRC cinv X g k mode nc bias acc e)
    match r.1 with
    | some v => v
    | none => .ok (finishBsr argsort g.nVertices n dtype r.2.1 r.2.2.2.1 r.2.2.2.2.1, r.2.2.1)

/-! the edgeless constructors -/

def denseDiagBody (cinv : Arr → Option Nat → Except PyErr Mat) (X : Mat) (k : Nat) (nc : Option Nat) (bias : Bool)
    (acc : Option (Except PyErr Mat) × Mat) (v : Nat) : Option (Except PyErr Mat) × Mat :=
  if acc.1.isSome then acc else
  match cinv (vertexCov X k bias v) nc with
  | .error err => (some (.error err), acc.2)
  | .ok B => (none, setSlice acc.2 (v * k) ((v + 1) * k) (v * k) ((v + 1) * k) B)

/-- `_create_dense_diagonal_precision(…, return_covariances=False)` -/
def denseDiagCoded (cinv : Arr → Option Nat → Except PyErr Mat) (X : Mat) (g : GraphS) (n k : Nat) (dtype : DType)
    (nc : Option Nat) (bias : Bool) : Except PyErr Mat :=
  let r := forLoop (none, asDtype dtype (zerosRC n n)) (List.range g.nVertices) (fun acc v => denseDiagBody cinv X k nc bias acc v)
  match r.1 with
  | some v => v
  | none => .ok r.2

def denseDiagBodyRC (cinv : Arr → Option Nat → Except PyErr Mat) (X : Mat) (k : Nat) (nc : Option Nat) (bias : Bool)
    (acc : Option (Except PyErr (Mat × List Arr)) × Mat × List Arr) (v : Nat) :
    Option (Except PyErr (Mat × List Arr)) × Mat × List Arr :=
  if acc.1.isSome then acc else
  let c := vertexCov X k bias v
  let covs := pySet acc.2.2 v c
  match cinv c nc with
  | .error err => (some (.error err), acc.2.1, covs)
  | .ok B => (none, setSlice acc.2.1 (v * k) ((v + 1) * k) (v * k) ((v + 1) * k) B, covs)

/-- `_create_dense_diagonal_precision(…, return_covariances=True)` -/
def denseDiagCodedRC (cinv : Arr → Option Nat → Except PyErr Mat) (X : Mat) (g : GraphS) (n k : Nat) (dtype : DType)
    (nc : Option Nat) (bias : Bool) : Except PyErr (Mat × List Arr) :=
  let r := forLoop (none, asDtype dtype (zerosRC n n), asDtype dtype (zerosN g.nVertices k k)) (List.range g.nVertices) (fun acc v => denseDiagBodyRC cinv X k nc bias acc v)
  match r.1 with
  | some v => v
  | none => .ok (r.2.1, r.2.2)

def sparseDiagBody (cinv : Arr → Option Nat → Except PyErr Mat) (X : Mat) (k : Nat) (nc : Option Nat) (bias : Bool)
    (acc : Option (Except PyErr BSR) × List Mat × List Nat × List Nat) (v : Nat) :
    Option (Except PyErr BSR) × List Mat × List Nat × List Nat :=
  if acc.1.isSome then acc else
  match cinv (vertexCov X k bias v) nc with
  | .error err => (some (.error err), acc.2)
  | .ok B => (none, pySet acc.2.1 v B, pySet acc.2.2.1 v v, pySet acc.2.2.2 v v)

/-- `_create_sparse_diagonal_precision(…, return_covariances=False)` -/
def sparseDiagCoded (cinv : Arr → Option Nat → Except PyErr Mat) (argsort : List Nat → List Nat) (X : Mat) (g : GraphS)
    (n k : Nat) (dtype : DType) (nc : Option Nat) (bias : Bool) : Except PyErr BSR :=
  let r := forLoop (none, asDtype dtype (zerosN g.nVertices k k), List.replicate g.nVertices (0 : Nat), List.replicate g.nVertices (0 : Nat))
    (List.range g.nVertices) (fun acc v => sparseDiagBody cinv X k nc bias acc v)
  match r.1 with
  | some v => v
  | none => .ok (finishBsr argsort g.nVertices n dtype r.2.1 r.2.2.1 r.2.2.2)

def sparseDiagBodyRC (cinv : Arr → Option Nat → Except PyErr Mat) (X : Mat) (k : Nat) (nc : Option Nat) (bias : Bool)
    (acc : Option (Except PyErr (BSR × List Arr)) × List Mat × List Arr × List Nat × List Nat) (v : Nat) :
    Option (Except PyErr (BSR × List Arr)) × List Mat × List Arr × List Nat × List Nat :=
  if acc.1.isSome then acc else
  let c := vertexCov X k bias v
  let covs := pySet acc.2.2.1 v c
  match cinv c nc with
  | .error err => (some (.error err), acc.2.1, covs, acc.2.2.2)
  | .ok B => (none, pySet acc.2.1 v B, covs, pySet acc.2.2.2.1 v v, pySet acc.2.2.2.2 v v)

/-- `_create_sparse_diagonal_precision(…, return_covariances=True)` -/
def sparseDiagCodedRC (cinv : Arr → Option Nat → Except PyErr Mat) (argsort : List Nat → List Nat) (X : Mat) (g : GraphS)
    (n k : Nat) (dtype : DType) (nc : Option Nat) (bias : Bool) : Except PyErr (BSR × List Arr) :=
  let r := forLoop (none, asDtype dtype (zerosN g.nVertices k k), asDtype dtype (zerosN g.nVertices k k), List.replicate g.nVertices (0 : Nat),
    List.replicate g.nVertices (0 : Nat)) (List.range g.nVertices) (fun acc v => sparseDiagBodyRC cinv X k nc bias acc v)
  match r.1 with
  | some v => v
  | none => .ok (finishBsr argsort g.nVertices n dtype r.2.1 r.2.2.2.1 r.2.2.2.2, r.2.2.1)

/-! the constructors of the two classes -/

/-- a constructor value applied to the arguments of the call site in `__init__` -/
def callCtorCoded (cinv : Arr → Option Nat → Except PyErr Mat) (argsort : List Nat → List Nat) (c : CtorS) (rc : Bool)
    (X : Mat) (g : GraphS) (n k : Nat) (dtype : DType) (nc : Option Nat) (bias : Bool) : Except PyErr CtorOut :=
  match c, rc with
  | .sparseDiag, false => (sparseDiagCoded cinv argsort X g n k dtype nc bias).map fun r => ⟨.bsr n k r, none⟩
  | .sparseDiag, true => (sparseDiagCodedRC cinv argsort X g n k dtype nc bias).map fun r => ⟨.bsr n k r.1, some r.2⟩
  | .denseDiag, false => (denseDiagCoded cinv X g n k dtype nc bias).map fun r => ⟨.dense r, none⟩
  | .denseDiag, true => (denseDiagCodedRC cinv X g n k dtype nc bias).map fun r => ⟨.dense r.1, some r.2⟩
  | .sparseEdges m, false => (sparseCoded cinv argsort X g n k m dtype nc bias).map fun r => ⟨.bsr n k r, none⟩
  | .sparseEdges m, true => (sparseCodedRC cinv argsort X g n k m dtype nc bias).map fun r => ⟨.bsr n k r.1, some r.2⟩
  | .denseEdges m, false => (denseCoded cinv X g n k m dtype nc bias).map fun r => ⟨.dense r, none⟩
  | .denseEdges m, true => (denseCodedRC cinv X g n k m dtype nc bias).map fun r => ⟨.dense r.1, some r.2⟩

/-- `GMRFVectorModel._data_to_matrix(data, n_samples)` -/
def dataToMatrixCoded (data : PyData) (ns : Option Nat) : PyData × Option Nat :=
  let n := if ns.isNone then some data.len else ns
  (if !data.isArray then data.arrayTake n else data, n)

/-- the constructor `__init__` selects: the diagonal ones for an edgeless graph, sparse / dense by the flag -/
def ctorSel (g : GraphS) (sparse : Bool) (mode : ModeS) : CtorS :=
  if g.nEdges == 0 then (if sparse then .sparseDiag else .denseDiag)
  else (if sparse then .sparseEdges mode else .denseEdges mode)

/-- `GMRFVectorModel.__init__` -/
def vecInitCoded (cinv : Arr → Option Nat → Except PyErr Mat) (argsort : List Nat → List Nat) (samples : PyData)
    (graph : GraphS) (nsamples : Option Nat) (mode : ModeS) (nc : Option Nat) (dtype : DType)
    (sparse bias incremental : Bool) : Except PyErr VecModel :=
  let dm := dataToMatrixCoded samples nsamples
  let nf := dm.1.shape1
  let k := nf / graph.nVertices
  let out := callCtorCoded cinv argsort (ctorSel graph sparse mode) incremental dm.1.toMat graph nf k dtype nc bias
  match (if incremental then out.bind CtorOut.unpack else (out.bind CtorOut.asMatrix).map fun S => (S, none)) with
  | .error err => .error err
  | .ok p => .ok ⟨dm.2, nf, k, graph, mode, nc, sparse, dtype, bias, incremental, dm.1.mean0, p.1, p.2⟩

/-- `GMRFModel.__init__`: `as_matrix`, `n_samples = data.shape[0]`, then `GMRFVectorModel.__init__` with every option
handed on under its own name -/
def objInitCoded (cinv : Arr → Option Nat → Except PyErr Mat) (argsort : List Nat → List Nat) (samples : List Mat)
    (graph : GraphS) (mode : ModeS) (nc : Option Nat) (dtype : DType) (sparse : Bool) (nsamples : Option Nat)
    (bias incremental : Bool) : Except PyErr (Mat × VecModel) :=
  match asMatrixT samples nsamples with
  | .error err => .error err
  | .ok dt =>
    match vecInitCoded cinv argsort dt.1 graph (some dt.1.len) mode nc dtype sparse bias incremental with
    | .error err => .error err
    | .ok M => .ok (dt.2, M)

/-- the options a caller does not give: `n_samples, mode, n_components, dtype, sparse, bias, incremental` -/
def initDefaults : Option Nat × ModeS × Option Nat × DType × Bool × Bool × Bool :=
  (none, .concatenation, none, .float64, true, false, false)

/-! queries -/

/-- `GMRFVectorModel._mahalanobis_distance(samples, subtract_mean, square_root)` -/
def mahalanobisCoreCoded (sqrt : Rat → Rat) (M : VecModel) (samples : Mat) (subtractMean squareRoot : Bool) : MahalOut :=
  let s : Mat := if subtractMean then samples - tileRows M.mean_vector samples.length else samples
  let d : List Rat :=
    if M.sparse then diagOf (pyDot s (pyDot M.precision (transposeM s) : Mat) : Mat)
    else rowDots (pyDot s M.precision : Mat) s
  if d.length == 1 then
    (if squareRoot then toOut (npSqrt sqrt (pyIdx d (0 : Nat) : Rat)) else toOut (pyIdx d (0 : Nat) : Rat))
  else
    (if squareRoot then toOut (npSqrt sqrt d) else toOut d)

/-- `GMRFVectorModel.mahalanobis_distance` -/
def vecMahalanobisCoded (sqrt : Rat → Rat) (M : VecModel) (samples : PyData) (subtractMean squareRoot : Bool) : MahalOut :=
  let s := (dataToMatrixCoded samples none).1
  mahalanobisCoreCoded sqrt M (if s.ndim == 1 then s.rowVec else s).toMat subtractMean squareRoot

/-- `GMRFModel.mahalanobis_distance` -/
def objMahalanobisCoded (sqrt : Rat → Rat) (M : VecModel) (samples : ObjQuery) (subtractMean squareRoot : Bool) : MahalOut :=
  mahalanobisCoreCoded sqrt M (if samples.isList then samples.asMatrix else samples.rowVec).toMat subtractMean squareRoot

def vecMeanCoded (M : VecModel) : List Rat := M.mean_vector
def objMeanCoded (template : Mat) (M : VecModel) : Mat := fromVectorLike template M.mean_vector

/-- `principal_components_analysis`: the precision is handed over as an inverse covariance, centred, with the
model's mean and sample count -/
def vecPcaCoded (M : VecModel) (maxN : Option Nat) : PcaCall (List Rat) :=
  ⟨M.precision, M.mean_vector, M.n_samples, true, true, maxN⟩
def objPcaCoded (template : Mat) (M : VecModel) (maxN : Option Nat) : PcaCall Mat :=
  ⟨M.precision, objMeanCoded template M, M.n_samples, true, true, maxN⟩

/-! ## Part 3 — an executable `argsort` (what the driver runs in place of numpy's) -/

/-- insert position `i` in front of the first position whose row is not smaller -/
def insArg (rows : List Nat) (i : Nat) : List Nat → List Nat
  | [] => [i]
  | j :: js => if rows.getD i 0 ≤ rows.getD j 0 then i :: j :: js else j :: insArg rows i js

/-- stable insertion argsort -/
def argsortIns (rows : List Nat) : List Nat := (List.range rows.length).foldr (fun i acc => insArg rows i acc) []

/-- the model's two modes as the strings the code compares with -/
def toS : Mode → ModeS
  | .concat => .concatenation
  | .sub => .subtraction

/-- the distances a query returned, as a list -/
def MahalOut.toList : MahalOut → List Rat
  | .scalar x => [x]
  | .vec v => v

end MenpoModel.C12.Src
