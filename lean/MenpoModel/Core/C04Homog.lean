/-
C04 — executable model of `pseudoinverse` for the homogeneous family (Mathlib-free, core `Rat`).

Follows the code that exists in /repo/menpo/transform/homogeneous:

* `Homogeneous._apply`            : append 1, multiply by `h_matrix`, divide by the last coordinate
* `Homogeneous.pseudoinverse`     : `self.__class__(np.linalg.inv(self.h_matrix))`  (also Affine, Similarity)
* `HomogFamilyAlignment.pseudoinverse` : copy, `_h_matrix := np.linalg.inv(h_matrix)`, swap `_source/_target`
                                    (every Alignment* class: it comes first in their MRO)
* `Translation.pseudoinverse`     : `Translation(-self.translation_component)`
* `UniformScale.pseudoinverse`    : `UniformScale(1.0 / self.scale, self.n_dims)`,  `scale = h_matrix[0, 0]`
* `NonUniformScale.pseudoinverse` : `NonUniformScale(1.0 / self.scale)`, `scale = diag(h_matrix)[:-1]`
* `Rotation.pseudoinverse`        : `Rotation(np.linalg.inv(self.rotation_matrix))`
* `tcoords_to_image_coords` / `image_coords_to_tcoords` (tcoords.py)

`np.linalg.inv` is library code: it is modelled by the exact inverse (cofactor formula, any dimension),
which is the only matrix satisfying the library's contract `A · B = 1` (`Props/C04.lean: inv_contract_unique`).
Matrices are plain functions `Fin n → Fin n → Rat`, i.e. definitionally Mathlib's `Matrix (Fin n) (Fin n) ℚ`,
so the theorems are stated with Mathlib's matrix algebra about exactly the definitions the driver executes.
-/

namespace MenpoModel.C04

abbrev Mat (n : Nat) := Fin n → Fin n → Rat
abbrev Vec (n : Nat) := Fin n → Rat

/-- `Σ_{i<n} f i` -/
def sumFin {n : Nat} (f : Fin n → Rat) : Rat := ((List.finRange n).map f).sum

def Mat.mul {n : Nat} (A B : Mat n) : Mat n := fun i j => sumFin fun k => A i k * B k j
def Mat.one {n : Nat} : Mat n := fun i j => if i = j then 1 else 0
def Mat.mulVec {n : Nat} (A : Mat n) (v : Vec n) : Vec n := fun i => sumFin fun k => A i k * v k
def Mat.transpose {n : Nat} (A : Mat n) : Mat n := fun i j => A j i

/-- `(-1)^k` -/
def sgn (k : Nat) : Rat := if k % 2 = 0 then 1 else -1

/-- the order embedding `Fin n → Fin (n+1)` that misses `p` -/
def skip {n : Nat} (p : Fin (n + 1)) (i : Fin n) : Fin (n + 1) :=
  if i.castSucc < p then i.castSucc else i.succ

/-- determinant, Laplace expansion along row 0 -/
def det : (n : Nat) → Mat n → Rat
  | 0, _ => 1
  | n + 1, A => sumFin fun j : Fin (n + 1) => sgn j.val * A 0 j * det n (fun r c => A r.succ (skip j c))

/-- adjugate (transposed cofactor matrix) -/
def adj : {n : Nat} → Mat n → Mat n
  | 0, _ => fun i _ => i.elim0
  | n + 1, A => fun i j => sgn (j.val + i.val) * det n (fun r c => A (skip j r) (skip i c))

/-- exact inverse; `none` for a singular matrix (`np.linalg.inv` raises `LinAlgError`) -/
def inv {n : Nat} (A : Mat n) : Option (Mat n) :=
  if det n A = 0 then none else some fun i j => adj A i j / det n A

/-! ## points and `Homogeneous._apply` -/

/-- `np.hstack([x, 1])` -/
def hom {d : Nat} (x : Vec d) : Vec (d + 1) := fun i => if h : i.val < d then x ⟨i.val, h⟩ else 1

/-- `Homogeneous._apply` on one point; `none` where the homogeneous coordinate vanishes (outside the domain) -/
def applyH {d : Nat} (H : Mat (d + 1)) (x : Vec d) : Option (Vec d) :=
  let y := H.mulVec (hom x)
  if y (Fin.last d) = 0 then none else some fun i => y i.castSucc / y (Fin.last d)

/-! ## the family -/

inductive Cls where
  | homogeneous | affine | similarity | rotation | translation | uniformScale | nonUniformScale
  | alignmentAffine | alignmentSimilarity | alignmentRotation | alignmentTranslation | alignmentUniformScale
  deriving DecidableEq, Repr

def Cls.isAlignment : Cls → Bool
  | .alignmentAffine | .alignmentSimilarity | .alignmentRotation | .alignmentTranslation
  | .alignmentUniformScale => true
  | _ => false

/-- `Affine.linear_component` -/
def linPart {d : Nat} (H : Mat (d + 1)) : Mat d := fun i j => H i.castSucc j.castSucc
/-- `Affine.translation_component` -/
def transPart {d : Nat} (H : Mat (d + 1)) : Vec d := fun i => H i.castSucc (Fin.last d)

/-- homogeneous matrix `[[L, t], [0, 1]]` (what the DiscreteAffine constructors build from `np.eye`) -/
def ofAffine {d : Nat} (L : Mat d) (t : Vec d) : Mat (d + 1) := fun i j =>
  if hi : i.val < d then
    (if hj : j.val < d then L ⟨i.val, hi⟩ ⟨j.val, hj⟩ else t ⟨i.val, hi⟩)
  else (if j.val < d then 0 else 1)

def diagM {d : Nat} (v : Vec d) : Mat d := fun i j => if i = j then v i else 0

/-- a transform object of the family: class, `h_matrix`, and (for alignments) `(source, target)`;
the end points are opaque values of any type `α` -/
structure HT (d : Nat) (α : Type) where
  cls : Cls
  h : Mat (d + 1)
  ends : Option (α × α)

/-- the classes of menpo that define a `pseudoinverse` method the family resolves to -/
inductive Impl where
  | homogeneous            -- `Homogeneous.pseudoinverse`: `self.__class__(np.linalg.inv(self.h_matrix))`
  | homogFamilyAlignment   -- `HomogFamilyAlignment.pseudoinverse`: copy, `np.linalg.inv(h_matrix)`, ends exchanged
  | translation | uniformScale | nonUniformScale | rotation      -- the closed forms
  deriving DecidableEq, Repr

/-- THE DISPATCH TABLE the model is assembled from: which class supplies `pseudoinverse` for each family class
(method resolution order; `HomogFamilyAlignment` comes first in the MRO of every alignment).  Regenerated from the live
classes on every run and compared with this table (`GenProps/C04.lean: dispatch_ok`). -/
def implOf : Cls → Impl
  | .homogeneous | .affine | .similarity => .homogeneous
  | .rotation => .rotation
  | .translation => .translation
  | .uniformScale => .uniformScale
  | .nonUniformScale => .nonUniformScale
  | .alignmentAffine | .alignmentSimilarity | .alignmentRotation | .alignmentTranslation
  | .alignmentUniformScale => .homogFamilyAlignment

/-- the matrix computed by each implementation of `pseudoinverse` -/
def pinvHBy {d : Nat} (i : Impl) (H : Mat (d + 1)) : Option (Mat (d + 1)) :=
  match i with
  | .translation => some (ofAffine Mat.one fun i => - transPart H i)
  | .uniformScale => some (ofAffine (diagM fun _ => 1 / H 0 0) fun _ => 0)
  | .nonUniformScale => some (ofAffine (diagM fun i => 1 / H i.castSucc i.castSucc) fun _ => 0)
  | .rotation => (inv (linPart H)).map fun R => ofAffine R fun _ => 0
  | .homogeneous | .homogFamilyAlignment => inv H          -- `_h_matrix_pseudoinverse` = `np.linalg.inv(self.h_matrix)`

/-- the matrix of `pseudoinverse()`, class by class as resolved by the MRO -/
def pinvH {d : Nat} (c : Cls) (H : Mat (d + 1)) : Option (Mat (d + 1)) := pinvHBy (implOf c) H

/-- `t.pseudoinverse()`: same class, inverse matrix, source and target exchanged -/
def pinv {d : Nat} {α : Type} (t : HT d α) : Option (HT d α) :=
  (pinvH t.cls t.h).map fun B => { cls := t.cls, h := B, ends := t.ends.map fun e => (e.2, e.1) }

/-- `t.apply(x)` -/
def HT.apply {d : Nat} {α : Type} (t : HT d α) (x : Vec d) : Option (Vec d) := applyH t.h x

/-! ## tcoords.py -/

def m3 (a b c d e f g h i : Rat) : Mat 3 := fun r s =>
  match r.val, s.val with
  | 0, 0 => a | 0, 1 => b | 0, _ => c
  | 1, 0 => d | 1, 1 => e | 1, _ => f
  | _, 0 => g | _, 1 => h | _, _ => i

/-- `invert_unit_y.compose_before(flip_xy_yx).compose_before(Scale(shape - 1))`: the matrix product
`Scale · flip · invert` (compose_before applies the receiver first) for an image of shape `(h, w)` -/
def tcoordsToImage (h w : Rat) : Mat 3 :=
  (ofAffine (diagM (d := 2) fun i => if i.val = 0 then h - 1 else w - 1) fun _ => 0).mul
    ((m3 0 1 0 1 0 0 0 0 1).mul (m3 1 0 0 0 (-1) 1 0 0 1))

/-- `image_coords_to_tcoords(shape) = tcoords_to_image_coords(shape).pseudoinverse()` (class Homogeneous) -/
def imageToTcoords (h w : Rat) : Option (Mat 3) := pinvH .homogeneous (tcoordsToImage h w)

end MenpoModel.C04
