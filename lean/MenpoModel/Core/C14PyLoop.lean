/- Vocabulary of harness/py2lean2w.py: a Python `while` loop with fuel.  `whileFuel fuel init cond body` runs
   `while cond(s): s = body(s)` for at most `fuel` iterations; `none` = the fuel ran out (the loop test is evaluated
   only while fuel is left, as in the hand-written fuelled recursions of the Core models).  No Mathlib. -/
import MenpoModel.Core.PyLoop

namespace MenpoModel.Py

def whileFuel {σ : Type} : Nat → σ → (σ → Bool) → (σ → σ) → Option σ
  | 0, _, _, _ => none
  | f + 1, s, c, b => if c s then whileFuel f (b s) c b else some s

theorem whileFuel_zero {σ : Type} (s : σ) (c : σ → Bool) (b : σ → σ) : whileFuel 0 s c b = none := rfl

theorem whileFuel_succ {σ : Type} (f : Nat) (s : σ) (c : σ → Bool) (b : σ → σ) :
    whileFuel (f + 1) s c b = if c s then whileFuel f (b s) c b else some s := rfl

/-- more fuel does not change a result that was reached -/
theorem whileFuel_mono {σ : Type} (c : σ → Bool) (b : σ → σ) :
    ∀ (f : Nat) (s r : σ), whileFuel f s c b = some r → ∀ k, whileFuel (f + k) s c b = some r := by
  intro f
  induction f with
  | zero => intro s r h; cases h
  | succ f ih =>
    intro s r h k
    rw [show f + 1 + k = (f + k) + 1 by omega, whileFuel_succ]
    rw [whileFuel_succ] at h
    by_cases hc : c s = true
    · rw [if_pos hc] at h ⊢; exact ih _ _ h k
    · rw [if_neg hc] at h ⊢; exact h

end MenpoModel.Py
