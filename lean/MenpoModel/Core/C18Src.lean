/-
C18 — the vocabulary of the SOURCE TRANSLATION (harness/trans_c18.py, harness/py2lean2.py, harness/py2lean2f.py).

`Generated/C18Src.lean` is rewritten on every run from the source text of menpo/feature/base.py,
menpo/feature/features.py, menpo/feature/visualize.py and menpo/feature/predefined.py of the working tree; every
Python expression of those functions is rewritten into one of the operations below (one operation per numpy / menpo
expression, with the meaning that expression has on its own — numpy broadcasting, partial attribute access, slices
with a step, slice assignment — not the meaning it happens to have in the branch where it is used today).
`GenProps/C18Src.lean` proves every translated function equal to the Core definition the C18 theorems are about.
Core Lean only (no Mathlib).
-/
import MenpoModel.Core.C18Kernels
import MenpoModel.Core.PyLoop

namespace MenpoModel.C18

/-! ## 1. `menpo/feature/base.py`: what the decorators look at -/

/-- misuse of an object (AttributeError / TypeError of Python: `.pixels` of an ndarray, an Image handed to an
array-level function, a `None` that is called) -/
def codeMisuse : Nat := 90

section arg
variable {P : Type}

/-- `isinstance(image, np.ndarray)` -/
def Arg.isArr : Arg P → Bool
  | .arr _ => true
  | .img _ => false

/-- the pixel data either way (for stating hypotheses about the argument of a decorated feature) -/
def Arg.px : Arg P → P
  | .arr p => p
  | .img im => im.pixels

/-- `image.pixels` (an ndarray has no such attribute) -/
def Arg.pixelsE : Arg P → Except Err P
  | .img im => .ok im.pixels
  | .arr _ => .error (.feature codeMisuse)

/-- the argument used as an ndarray -/
def Arg.arrE : Arg P → Except Err P
  | .arr p => .ok p
  | .img _ => .error (.feature codeMisuse)

/-- the argument used as an image object -/
def Arg.imgE : Arg P → Except Err (Img P)
  | .img im => .ok im
  | .arr _ => .error (.feature codeMisuse)

/-- `image.mask` (only a MaskedImage has one) -/
def Img.maskE (im : Img P) : Except Err Mask :=
  match im.mask with
  | some m => .ok m
  | none => .error (.feature codeMisuse)

/-! The decorators are written over whatever the variables hold: the same Python expression (`x.pixels`,
`wrapped(x)`, `Image(x)`, `return x`) is meaningful for an argument of unknown kind (`Arg P`), for an image object and
for an ndarray.  One class per use; the instances say what the use means for each kind of value. -/

/-- a value used where an ndarray is expected -/
class AsPx (α P : Type) where
  toP : α → Except Err P
instance asPxSelf : AsPx P P := ⟨.ok⟩
instance asPxArg : AsPx (Arg P) P := ⟨Arg.arrE⟩

/-- a value used where an image object is expected -/
class AsImg (α P : Type) where
  toImg : α → Except Err (Img P)
instance asImgSelf : AsImg (Img P) P := ⟨.ok⟩
instance asImgArg : AsImg (Arg P) P := ⟨Arg.imgE⟩

/-- `x.pixels` -/
class HasPixels (α : Type) (P : outParam Type) where
  pixelsE : α → Except Err P
instance hasPixelsArg : HasPixels (Arg P) P := ⟨Arg.pixelsE⟩
instance hasPixelsImg : HasPixels (Img P) P := ⟨fun im => .ok im.pixels⟩

/-- what a decorated function hands back to its caller: an ndarray, an image object, or the argument itself -/
class ToArg (α P : Type) where
  toArg : α → Arg P
instance toArgArr : ToArg P P := ⟨Arg.arr⟩
instance toArgImg : ToArg (Img P) P := ⟨Arg.img⟩
instance toArgSelf : ToArg (Arg P) P := ⟨id⟩

/-- `x.mask`: the mask of an image object (only a MaskedImage has one); of a mask (a BooleanImage) its own data -/
class HasMask (α : Type) where
  maskOf : α → Except Err Mask
instance hasMaskImg : HasMask (Img P) := ⟨Img.maskE⟩
instance hasMaskSelf : HasMask Mask := ⟨.ok⟩

/-- calling an array-level function -/
def callArr {α β : Type} [AsPx α P] (f : P → Except Err β) (a : α) : Except Err β := (AsPx.toP a).bind f
/-- calling an image-level function -/
def callImg {α β : Type} [AsImg α P] (g : Img P → Except Err β) (a : α) : Except Err β := (AsImg.toImg a).bind g
/-- `Image(x, copy=False)` -/
def mkImage {α : Type} [AsPx α P] (a : α) : Except Err (Img P) := (AsPx.toP a).map fun p => ⟨p, none, []⟩

end arg

/-! ### window centres (`lm_centres_correction`) -/

/-- `centres[i, j]` -/
def cAt (c : Centres) (i j : Nat) : Nat × Nat := (c.getD i []).getD j (0, 0)

/-- the transform `Translation(-min).compose_before(NonUniformScale(1/step))` as data: (min, step) -/
abbrev Corr := (Nat × Nat) × (Int × Int)

def corrPt (t : Corr) (p : Pt) : Pt :=
  match p with
  | [y, x] => [(y - (t.1.1 : Rat)) / (t.2.1 : Rat), (x - (t.1.2 : Rat)) / (t.2.2 : Rat)]
  | _ => p

/-- `t.apply(image.landmarks)` -/
def applyCorr (t : Corr) (l : Lms) : Lms := l.map fun kg => (kg.1, kg.2.map (corrPt t))

/-! ## 2. `menpo.feature.normalize`: numpy expressions with their broadcasting -/

/-- a scale factor / a mean: a scalar or a `(1,)` array is a singleton, a `(C, 1)` column has one entry per channel -/
abbrev Scl := List Rat

/-- `scale_func(x, axis=None)` -/
abbrev ScaleFn := Chans → Option Nat → Scl

/-- the `mode` string -/
inductive ModeArg where
  | all
  | perChannel
  | other
deriving DecidableEq, Repr

def Mode.toArg : Mode → ModeArg
  | .all => .all
  | .perChannel => .perChannel

/-- `(C, n) - s` with numpy broadcasting: a singleton broadcasts over everything, a column goes row by row -/
def bsub (x : Chans) (s : Scl) : Chans :=
  match s with
  | [s0] => x.map fun row => row.map (· - s0)
  | _ => List.zipWith (fun row v => row.map (· - v)) x s

/-- `(C, n) / s` with numpy broadcasting -/
def bdiv (x : Chans) (s : Scl) : Chans :=
  match s with
  | [s0] => x.map fun row => row.map (· / s0)
  | _ => List.zipWith (fun row v => row.map (· / v)) x s

/-- a reduction `np.std(x, axis=a)` / `np.linalg.norm(x, axis=a)` / `np.var(x, axis=a)`: over everything (`axis=None`)
or one value per row -/
def reduceAx (stat : List Rat → Rat) (x : Chans) (axis : Option Nat) : Scl :=
  match axis with
  | none => [stat x.flatten]
  | some _ => x.map stat

/-- calling `scale_func` (calling `None` is a TypeError) -/
def callScale (f : Option ScaleFn) (x : Chans) (axis : Option Nat) : Except NErr Scl :=
  match f with
  | some g => .ok (g x axis)
  | none => .error .index

/-- the two numpy reductions that need a square root: contract parameters of the model -/
structure NpStats where
  std : List Rat → Rat
  norm : List Rat → Rat

/-- `img.as_vector(keep_channels=True)`: every pixel, or the masked pixels of a MaskedImage whose mask is not all true -/
def asVector (im : Img Arr) : Chans :=
  match im.mask with
  | none => im.pixels.chans
  | some m => if m.bits.all id then im.pixels.chans else im.pixels.chans.map (gather m.bits)

/-- `img.from_vector(v)`: same shape, mask and landmarks; zeros outside the mask -/
def fromVector (im : Img Arr) (v : Chans) : Img Arr :=
  match im.mask with
  | none => ⟨⟨im.pixels.shape, v⟩, none, im.lms⟩
  | some m => if m.bits.all id then ⟨⟨im.pixels.shape, v⟩, some m, im.lms⟩
              else ⟨⟨im.pixels.shape, v.map (scatter 0 m.bits)⟩, some m, im.lms⟩

/-- the result of `x.copy()`: a freshly allocated array.  A function whose Lean type promises `Fresh P` cannot return its
argument itself: a dropped `.copy()` makes the translated definition ill-typed (the values are the same either way; WHICH
buffer holds them is otherwise invisible to the value-level translation) -/
structure Fresh (P : Type) where
  val : P

/-! ## 3. list plumbing of `gradient` / `gaussian_filter` / `igo` / `es` -/

/-- `l[i::n]` (countdown `k` to the next element taken) -/
def takeEvery {α : Type} (n : Nat) : Nat → List α → List α
  | _, [] => []
  | 0, a :: t => a :: takeEvery n (n - 1) t
  | k + 1, _ :: t => takeEvery n k t

/-- `np.gradient(g, edge_order=1)` of one 2-D channel: the list of the per-axis gradients; fewer than two samples
along an axis is a ValueError -/
def npGradient (M : Chan2) : Except Err (List Chan2) :=
  if nRows M < 2 ∨ nCols M < 2 then .error (.feature codeTooSmall) else .ok [gradY M, gradX M]

/-- `scipy.ndimage.gaussian_filter(channel, sigma)`: `sigma` is modelled by the two kernels it stands for -/
def scipyGauss (k : Option Kern × Option Kern) (M : Chan2) : Chan2 :=
  let M1 := match k.1 with | some ky => filtY ky M | none => M
  match k.2 with | some kx => filtX kx M1 | none => M1

/-- `x[a:b] = v` along the first axis (numpy requires `v` to have `b - a` entries; the model splices) -/
def setSlice {α : Type} (x : List α) (a b : Nat) (v : List α) : List α := x.take a ++ v ++ x.drop b

/-- `x[a:] = v` -/
def setSliceFrom {α : Type} (x : List α) (a : Nat) (v : List α) : List α := x.take a ++ v

/-! ### gradient orientation (`np.angle`), as data: the two gradient components and whether the angle was doubled -/

structure Ang where
  gy : Chan2
  gx : Chan2
  dbl : Bool

/-- `a + 1j * b`: a complex array as the pair of its parts -/
structure Cplx where
  re : Px
  im : Px

/-- `pixels.shape` of a `(C, H, W)` array -/
def shape3 (p : Px) : Nat × Nat × Nat := (p.length, nRows (p.headD []), nCols (p.headD []))

/-- `np.angle(a + 1j * b)` channel by channel -/
def angleOf (a b : Px) : List Ang := List.zipWith (fun y x => ⟨y, x, false⟩) a b
/-- `2 * phi` -/
def dblAngle (l : List Ang) : List Ang := l.map fun a => ⟨a.gy, a.gx, true⟩
/-- `np.sin(phi)` under the square-root contract `mag` -/
def sinA (mag : Rat → Rat → Rat) (l : List Ang) : Px :=
  l.map fun a => if a.dbl then sin2C mag a.gy a.gx else sinC mag a.gy a.gx
/-- `np.cos(phi)` -/
def cosA (mag : Rat → Rat → Rat) (l : List Ang) : Px :=
  l.map fun a => if a.dbl then cos2C mag a.gy a.gx else cosC mag a.gy a.gx

/-- `np.abs(a + 1j * b)` -/
def absOf (mag : Rat → Rat → Rat) (a b : Px) : Px := List.zipWith (map2 mag) a b
/-- `np.angle(z)` -/
def angleC (z : Cplx) : List Ang := angleOf z.re z.im
/-- `np.abs(z)` -/
def absC (mag : Rat → Rat → Rat) (z : Cplx) : Px := absOf mag z.re z.im

/-- `np.median(x)` of a whole array -/
def medianPx (x : Px) : Rat := median x.flatten.flatten
/-- `x + s` for a scalar -/
def addScalar (x : Px) (s : Rat) : Px := x.map fun M => M.map fun row => row.map (· + s)
/-- `a / b` elementwise, `none` = NaN where the denominator vanishes -/
def divPx (a b : Px) : List OChan2 := List.zipWith (omap2 fun n d => esPix d n) a b

/-! ### `sum_channels` -/

def addChan (A B : Chan2) : Chan2 := List.zipWith (fun ra rb => List.zipWith (· + ·) ra rb) A B

/-- `np.sum(pixels, axis=0)` of a non-empty `(C, H, W)` array -/
def sumAxis0 (p : Px) : Chan2 :=
  match p with
  | [] => []
  | M :: t => t.foldl addChan M

/-- `pixels[channels]` for a list of channel indices -/
def selectChans (p : Px) (idx : List Nat) : Px := idx.map fun i => p.getD i []

/-- the hand-written model of `menpo.feature.sum_channels` on a 2-D image -/
def sumChannels2 (channels : Option (List Nat)) (p : Px) : Except Err Px :=
  match channels with
  | none => .ok [sumAxis0 p]
  | some idx => .ok [sumAxis0 (selectChans p idx)]

/-! ### DAISY option plumbing (`menpo.feature.daisy` up to the call of `_daisy`) -/

def codeValueError : Nat := 13     -- ValueError of the option checks
def codeIndexError : Nat := 14     -- `ring_radii[-1]` of an empty list

inductive DaisyNorm where
  | l1 | l2 | daisy | off | other
deriving DecidableEq, Repr

/-- the keyword arguments `menpo.feature.daisy` hands to `_daisy` -/
structure DaisyCall where
  step : Nat
  radius : Rat
  rings : Int
  histograms : Nat
  orientations : Nat
  normalization : Option DaisyNorm
  sigmas : Option (List Rat)
  ringRadii : Option (List Rat)
deriving DecidableEq, Repr

/-- `len(x)` of an optional list as a Python integer (`len(None)` is never evaluated: the tests short-circuit) -/
def optLen (l : Option (List Rat)) : Int :=
  match l with
  | some x => (x.length : Int)
  | none => 0

/-- `x[-1]` (IndexError on an empty list) -/
def optLastE (l : Option (List Rat)) : Except Err Rat :=
  match l with
  | some x => (match x.getLast? with
    | some v => .ok v
    | none => .error (.feature codeIndexError))
  | none => .error (.feature codeMisuse)

/-- `range(n)` for a Python integer, as numbers -/
def pyRangeQ (n : Int) : List Rat := (List.range n.toNat).map fun (k : Nat) => (k : Rat)

/-- the default layout: `[radius * (i + 1) / float(k * rings) for i in range(rings)]` -/
def daisyLayout (radius : Rat) (rings : Int) (k : Int) : List Rat :=
  (pyRangeQ rings).map fun i => radius * (i + 1) / (((k * rings : Int)) : Rat)

/-- hand-written model of the option plumbing: what reaches `_daisy`, or the exception raised before -/
def daisyPlumb (step : Nat) (radius : Rat) (rings : Int) (histograms orientations : Nat)
    (normalization : Option DaisyNorm) (sigmas ringRadii : Option (List Rat)) : Except Err DaisyCall :=
  let finish (radius' : Rat) (rings' : Int) : Except Err DaisyCall :=
    let sig := match sigmas with | some s => s | none => daisyLayout radius' rings' 2
    let rad := match ringRadii with | some r => r | none => daisyLayout radius' rings' 1
    let nz := normalization.getD .off
    if nz == .other then .error (.feature codeValueError)
    else .ok ⟨step, radius', rings', histograms, orientations, some nz, some sig, some rad⟩
  match sigmas, ringRadii with
  | none, none => finish radius rings
  | some s, none => finish radius ((s.length : Int) - 1)
  | none, some r => (optLastE (some r)).bind fun last => finish last (r.length : Int)
  | some s, some r =>
    if (s.length : Int) - 1 ≠ (r.length : Int) then .error (.feature codeValueError)
    else (optLastE (some r)).bind fun last => finish last ((s.length : Int) - 1)

/-- `menpo.feature.daisy` on an array, the descriptor computation `_daisy` being the abstract `lib` -/
def daisyRaw (lib : Px → DaisyCall → Except Err Px) (pixels : Px) (step : Nat) (radius : Rat) (rings : Int)
    (histograms orientations : Nat) (normalization : Option DaisyNorm) (sigmas ringRadii : Option (List Rat)) :
    Except Err Px :=
  (daisyPlumb step radius rings histograms orientations normalization sigmas ringRadii).bind (lib pixels)

end MenpoModel.C18
