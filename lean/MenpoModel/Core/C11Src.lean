/-
C11 — the array vocabulary of the TRANSLATED sources (`Generated/C11Src.lean`, written by harness/trans_c11.py from the
source text of menpo/model/gmrf.py, menpo/model/pca.py, menpo/math/decomposition.py on every run) and the hand-written
definitions (`Src.*`) the translated ones are proved equal to in `GenProps/C11Src.lean`.  Core Lean only.

`NP.V` / `NP.M` are numpy's 1-D / 2-D arrays over ℚ with their shapes; `+ - * /` are numpy's (elementwise, a scalar or
a row vector broadcast); `.T`, `.dot`, `vstack`, `hstack`, slices, fancy column indexing, `np.sum/mean(axis=0)`.  Sums
run over `List.range` of the stored shape, exactly as the array expression does.
-/
import MenpoModel.Core.C11
import MenpoModel.Core.PyLoop

namespace MenpoModel.C11.NP

/-- a 1-D array `(n,)` -/
structure V where
  n : Nat
  f : Nat → Rat

/-- a 2-D array `(r, c)` -/
structure M where
  r : Nat
  c : Nat
  f : Nat → Nat → Rat

/-- `Σ_{t < n} g t` -/
def rsum (n : Nat) (g : Nat → Rat) : Rat := ((List.range n).map g).sum

/-! Elementwise operations on two arrays: numpy requires equal (broadcastable) shapes and raises otherwise; the model is
total and gives the result the larger extent on every axis, so that `a + b` and `b + a` are the same array whatever
the shapes (on well-shaped operands it is numpy's shape). -/
instance : Add V := ⟨fun a b => ⟨max a.n b.n, fun i => a.f i + b.f i⟩⟩
instance : Sub V := ⟨fun a b => ⟨max a.n b.n, fun i => a.f i - b.f i⟩⟩
instance : HMul Rat V V := ⟨fun s a => ⟨a.n, fun i => s * a.f i⟩⟩
instance : HDiv V Rat V := ⟨fun a s => ⟨a.n, fun i => a.f i / s⟩⟩
instance : Add M := ⟨fun a b => ⟨max a.r b.r, max a.c b.c, fun i j => a.f i j + b.f i j⟩⟩
instance : Sub M := ⟨fun a b => ⟨max a.r b.r, max a.c b.c, fun i j => a.f i j - b.f i j⟩⟩
instance : Neg M := ⟨fun a => ⟨a.r, a.c, fun i j => - a.f i j⟩⟩
instance : HMul Rat M M := ⟨fun s a => ⟨a.r, a.c, fun i j => s * a.f i j⟩⟩
instance : HDiv M Rat M := ⟨fun a s => ⟨a.r, a.c, fun i j => a.f i j / s⟩⟩
/-- `B - m_b`: a row vector broadcast over the rows -/
instance : HSub M V M := ⟨fun a v => ⟨a.r, max a.c v.n, fun i j => a.f i j - v.f j⟩⟩

/-! Python mixes `int` counts (`X.shape[0]`) with rational scalars: the count is cast -/
instance : HAdd Rat Nat Rat := ⟨fun a n => a + (n : Rat)⟩
instance : HAdd Nat Rat Rat := ⟨fun n a => (n : Rat) + a⟩
instance : HSub Rat Nat Rat := ⟨fun a n => a - (n : Rat)⟩
instance : HMul Rat Nat Rat := ⟨fun a n => a * (n : Rat)⟩
instance : HMul Nat Rat Rat := ⟨fun n a => (n : Rat) * a⟩
instance : HDiv Rat Nat Rat := ⟨fun a n => a / (n : Rat)⟩
instance : HDiv Nat Rat Rat := ⟨fun n a => (n : Rat) / a⟩

def shape0 (a : M) : Nat := a.r
def shape1 (a : M) : Nat := a.c
def shape (a : M) : Nat × Nat := (a.r, a.c)
/-- `a.T` -/
def T (a : M) : M := ⟨a.c, a.r, fun i j => a.f j i⟩
/-- `a.dot(b)`: the contracted axis is the second axis of `a` -/
def dot (a b : M) : M := ⟨a.r, b.c, fun i j => rsum a.c fun t => a.f i t * b.f t j⟩
/-- `v[None, :]` -/
def row (v : V) : M := ⟨1, v.n, fun _ j => v.f j⟩
/-- `np.sum(a, axis=0)` -/
def sum0 (a : M) : V := ⟨a.c, fun j => rsum a.r fun i => a.f i j⟩
/-- `np.mean(a, axis=0)` -/
def mean0 (a : M) : V := ⟨a.c, fun j => (rsum a.r fun i => a.f i j) / (a.r : Rat)⟩

/-- `np.zeros((a, b))`, `np.zeros(d)` -/
def zeros (a b : Nat) : M := ⟨a, b, fun _ _ => 0⟩
def zerosV (d : Nat) : V := ⟨d, fun _ => 0⟩

/-- `a[r0:r1, c0:c1]` (bounds inside the array) -/
def sl (a : M) (r0 r1 c0 c1 : Nat) : M := ⟨r1 - r0, c1 - c0, fun i j => a.f (r0 + i) (c0 + j)⟩
/-- `v[a:b]` -/
def slV (v : V) (a b : Nat) : V := ⟨b - a, fun i => v.f (a + i)⟩

/-- an index list (`list(range(a, b))`; `+` concatenates, as on python lists) -/
structure Idx where
  l : List Nat
def Idx.range (a b : Nat) : Idx := ⟨(List.range (b - a)).map (a + ·)⟩
instance : Add Idx := ⟨fun a b => ⟨a.l ++ b.l⟩⟩
/-- `a[:, idx]` -/
def cols (a : M) (idx : Idx) : M := ⟨a.r, idx.l.length, fun i j => a.f i (idx.l.getD j 0)⟩

/-- `x[i]` -/
class GetItem (α : Type) (ι : Type) (β : outParam Type) where
  getItem : α → ι → β
export GetItem (getItem)
instance : GetItem V Idx V := ⟨fun v idx => ⟨idx.l.length, fun j => v.f (idx.l.getD j 0)⟩⟩
instance : GetItem V Nat Rat := ⟨fun v i => v.f i⟩
instance : GetItem (Nat → M) Nat M := ⟨fun c e => c e⟩

/-- `x[i] = v` (the new value of `x`) -/
class SetItem (α : Type) (ι : Type) (β : Type) where
  setItem : α → ι → β → α
export SetItem (setItem)
instance : SetItem (Nat → M) Nat M := ⟨fun c e v => fun i => if i = e then v else c i⟩
instance : SetItem V Nat Rat := ⟨fun a i v => ⟨a.n, fun j => if j = i then v else a.f j⟩⟩
instance : SetItem V Nat Nat := ⟨fun a i v => ⟨a.n, fun j => if j = i then (v : Rat) else a.f j⟩⟩

/-- `P[a:b, c:d] += v` / `P[a:b, c:d] = v` (the new value of `P`) -/
def addSlice (P : M) (a b c d : Nat) (v : M) : M :=
  ⟨P.r, P.c, fun i j => if a ≤ i ∧ i < b ∧ c ≤ j ∧ j < d then P.f i j + v.f (i - a) (j - c) else P.f i j⟩
def setSlice (P : M) (a b c d : Nat) (v : M) : M :=
  ⟨P.r, P.c, fun i j => if a ≤ i ∧ i < b ∧ c ≤ j ∧ j < d then v.f (i - a) (j - c) else P.f i j⟩

/-- the graph side of the builders: `graph.n_vertices`, `graph.edges` -/
structure Graph where
  nv : Nat
  edges : List (Nat × Nat)
def Graph.nEdges (g : Graph) : Nat := g.edges.length
def Graph.nVertices (g : Graph) : Nat := g.nv
def Graph.edge (g : Graph) (e : Nat) : Nat × Nat := g.edges.getD e (0, 0)

/-- a list of samples as a data matrix with `d` columns -/
def ofData (d : Nat) (X : Data) : M := ⟨X.length, d, fun i j => (X.getD i zeroVec) j⟩

/-! ### the sparse builders: a stack of blocks `(n, r, c)`, index arrays held as float arrays, `scipy.sparse.bsr_matrix` -/

/-- a 3-D array `(n, r, c)`: `n` blocks -/
structure B3 where
  n : Nat
  r : Nat
  c : Nat
  f : Nat → M
def zeros3 (a b c : Nat) : B3 := ⟨a, b, c, fun _ => zeros b c⟩
instance : SetItem B3 Nat M := ⟨fun a i v => ⟨a.n, a.r, a.c, fun j => if j = i then v else a.f j⟩⟩
/-- `count` starts at `-1`: an integer index -/
instance : SetItem B3 Int M := ⟨fun a i v => ⟨a.n, a.r, a.c, fun j => if (j : Int) = i then v else a.f j⟩⟩
instance : SetItem V Int Nat := ⟨fun a i v => ⟨a.n, fun j => if (j : Int) = i then (v : Rat) else a.f j⟩⟩
instance : GetItem B3 Idx B3 := ⟨fun a idx => ⟨idx.l.length, a.r, a.c, fun j => a.f (idx.l.getD j 0)⟩⟩
/-- `r.argsort()` (numpy's default sort is not stable; the order among equal keys is not observable through the
assembled matrix, which sums the blocks of a row, so a stable sort stands for it) -/
def argsort (r : V) : Idx := ⟨(List.range r.n).mergeSort fun i j => decide (r.f i ≤ r.f j)⟩
/-- `np.where(r == i)` (the one index array of the returned 1-tuple) -/
def whereEq (r : V) (i : Nat) : List Nat := (List.range r.n).filter fun p => r.f p == (i : Rat)
def size (l : List Nat) : Nat := l.length
def first (l : List Nat) : Nat := l.headD 0
def last (l : List Nat) : Nat := l.getLastD 0
/-- an index stored in a float array, read back -/
def natOf (q : Rat) : Nat := q.floor.toNat
/-- dense meaning of `bsr_matrix((blocks, columns, indptr), shape=(n, m))`: block row `bi` holds the blocks
`indptr[bi] ≤ p < indptr[bi+1]`, block `p` sits in block column `columns[p]`; blocks at the same place are summed -/
def bsr (b : B3) (columns indptr : V) (n m : Nat) : M := ⟨n, m, fun I J =>
  let lo := natOf (indptr.f (I / b.r))
  ((List.range (natOf (indptr.f (I / b.r + 1)) - lo)).map fun t =>
    if natOf (columns.f (lo + t)) = J / b.c then (b.f (lo + t)).f (I % b.r) (J % b.c) else 0).sum⟩

/-! ### model state, the samples handed to `increment`, optional arguments -/

/-- `precision, _covariance_matrices, mean_vector, n_samples` of a `GMRFVectorModel` -/
structure GState where
  precision : M
  covs : Nat → M
  mean : V
  n : Nat

/-- `_mean, _components, _eigenvalues, n_samples, n_active_components, centred` of a `PCAVectorModel` -/
structure PcaState where
  mean : V
  components : M
  eigs : V
  n : Nat
  nactive : Nat
  centred : Bool

/-- what `increment` is handed: a data matrix, or a list of 1-D arrays -/
inductive Samples
  | arr (m : M)
  | lst (rows : List V)

instance : Inhabited V := ⟨⟨0, fun _ => 0⟩⟩
/-- rows stacked into a matrix (`np.array(list_of_rows)`) -/
def stackRows (rows : List V) : M := ⟨rows.length, (rows.headD default).n, fun i j => (rows.getD i default).f j⟩
def isArray : Samples → Bool
  | .arr _ => true
  | .lst _ => false
/-- `np.array(data)` -/
def arrayOf : Samples → M
  | .arr m => m
  | .lst rows => stackRows rows
class Len (α : Type) where
  len : α → Nat
export Len (len)
instance : Len Samples := ⟨fun s => match s with | .arr m => m.r | .lst rows => rows.length⟩
instance : Len V := ⟨fun v => v.n⟩
/-- `menpo.math.as_matrix(samples, length=n)` on the `as_vector()`s of the samples -/
def asMatrix (samples : List V) (length : Option Nat) : M :=
  stackRows (match length with | none => samples | some n => samples.take n)

/-- an optional argument used where the code has already excluded `None` -/
def the {α : Type} [Inhabited α] (o : Option α) : α := o.getD default
/-- python truthiness of `None / True / False` -/
def truthy (o : Option Bool) : Bool := o == some true

/-! ### `ipca`: library calls as parameters -/

/-- the code of a numpy dtype (`a.dtype`, `np.float64`); what matters of it is given by `Lib.inexact` / `Lib.eps` -/
abbrev Dtype := Nat

/-- `np.sqrt`, `np.linalg.qr(a)[0]`, `np.linalg.svd(a)`: results of library calls, constrained by contracts in the
theorems; the dtypes numpy gives the arrays (the model is exact arithmetic and carries none), `np.issubdtype(·, np.inexact)`
and `np.finfo(·).eps`.  `precision` is the machine epsilon the tail of `ipca` discards with: `ipca` computes it from the
dtypes of its operands (`Src.operandPrec`) and runs its tail on `lib.withPrec` of that. -/
structure Lib where
  sqrt : Rat → Rat
  qrQ : M → M
  svd : M → M × V × M
  precision : Rat
  dtypeM : M → Dtype
  dtypeV : V → Dtype
  float64 : Dtype
  inexact : Dtype → Bool
  eps : Dtype → Rat

def Lib.withPrec (lib : Lib) (p : Rat) : Lib := { lib with precision := p }

/-- `a.dtype` -/
class DTypeIn (α : Type) where
  dtypeIn : Lib → α → Dtype
export DTypeIn (dtypeIn)
instance : DTypeIn M := ⟨Lib.dtypeM⟩
instance : DTypeIn V := ⟨Lib.dtypeV⟩
/-- `max(l)` of a non-empty python list -/
def maxList (l : List Rat) : Rat := l.foldl max (l.headD 0)
/-- `+` on python lists -/
instance : Add (List Rat) := ⟨List.append⟩

class Sqrt (α : Type) where
  sqrt : (Rat → Rat) → α → α
export Sqrt (sqrt)
instance : Sqrt Rat := ⟨fun s x => s x⟩
instance : Sqrt V := ⟨fun s v => ⟨v.n, fun i => s (v.f i)⟩⟩
/-- `np.all(v == 0)` -/
def allZero (v : V) : Bool := (List.range v.n).all fun i => v.f i == 0
/-- `np.diag(v)` -/
def diag (v : V) : M := ⟨v.n, v.n, fun i j => if i = j then v.f i else 0⟩
class VStack (α β : Type) where
  vstack : α → β → M
export VStack (vstack)
instance : VStack M M := ⟨fun a b => ⟨a.r + b.r, a.c, fun i j => if i < a.r then a.f i j else b.f (i - a.r) j⟩⟩
/-- a 1-D array stacked under a matrix is one more row -/
instance : VStack M V := ⟨fun a v => ⟨a.r + 1, a.c, fun i j => if i < a.r then a.f i j else v.f j⟩⟩
def hstack (a b : M) : M := ⟨a.r, a.c + b.c, fun i j => if j < a.c then a.f i j else b.f i (j - a.c)⟩
/-- `v ** 2` -/
def sq (v : V) : V := ⟨v.n, fun i => v.f i * v.f i⟩
/-- `max(a.shape)` -/
def maxShape (a : M) : Nat := max a.r a.c
/-- `l.max()` (of a non-empty array) -/
def vmax (l : V) : Rat := (List.range l.n).foldl (fun a i => max a (l.f i)) (l.f 0)
/-- `l[l > e]` -/
def filterGt (l : V) (e : Rat) : V :=
  let kept := (List.range l.n).filter fun i => decide (e < l.f i)
  ⟨kept.length, fun j => l.f (kept.getD j 0)⟩

/-! ### `menpo.math.as_matrix`: storage dtypes

The one place where the dtype of the samples decides what the models see: the data matrix is allocated with the dtype of
the first sample and every later sample is *assigned* into it — numpy casts on assignment, a float written into an
integer matrix is truncated. -/

/-- the two kinds of storage that matter (`np.can_cast(…, casting="same_kind")` refuses float → int only) -/
inductive DT
  | int
  | float
deriving DecidableEq, Repr

/-- a 1-D array with its dtype (`sample.as_vector()`), a 2-D array with its dtype -/
structure TV where
  dt : DT
  v : V
structure TM where
  dt : DT
  m : M
/-- a `Vectorizable` sample seen through `n_parameters` / `as_vector()` -/
structure Sample where
  dt : DT
  v : V
def Sample.nParameters (s : Sample) : Nat := s.v.n
def Sample.asVector (s : Sample) : TV := ⟨s.dt, s.v⟩
class HasDType (α : Type) where
  dtypeOf : α → DT
export HasDType (dtypeOf)
instance : HasDType TV := ⟨TV.dt⟩
instance : HasDType TM := ⟨TM.dt⟩
/-- `np.zeros((a, b), dtype=t)` -/
def tzeros (a b : Nat) (t : DT) : TM := ⟨t, zeros a b⟩
def canCastSameKind (a b : DT) : Bool := !(a == DT.float && b == DT.int)
/-- `np.can_cast(a, b, casting="safe")`: refuses narrowing within a kind as well; the two-kind model has no widths, so it
is the same relation (what differs — int64 into int32, float64 into float32 — is outside the model) -/
def canCastSafe (a b : DT) : Bool := canCastSameKind a b
def promote (a b : DT) : DT := if a == DT.float || b == DT.float then DT.float else DT.int
/-- C truncation toward zero: what numpy stores when a float is assigned into an integer array -/
def truncQ (q : Rat) : Rat := if 0 ≤ q then (q.floor : Rat) else (q.ceil : Rat)
/-- the values that arrive when an array of dtype `src` is written into storage of dtype `dst` -/
def castTo (dst src : DT) (x : Rat) : Rat := if dst == DT.int && src == DT.float then truncQ x else x
/-- `data[i] = vector` (numpy casts the vector to the dtype of `data`) -/
def TM.setRow (d : TM) (i : Nat) (x : TV) : TM :=
  ⟨d.dt, ⟨d.m.r, d.m.c, fun r c => if r = i then castTo d.dt x.dt (x.v.f c) else d.m.f r c⟩⟩
/-- `data.astype(t)` -/
def TM.astype (d : TM) (t : DT) : TM := ⟨t, ⟨d.m.r, d.m.c, fun r c => castTo t d.dt (d.m.f r c)⟩⟩
/-- `enumerate(l, 1)` -/
def enumFrom1 {α : Type} (l : List α) : List (Nat × α) := (List.range l.length).zipWith (fun i x => (i + 1, x)) l

theorem V.ext' {a b : V} (hn : a.n = b.n) (hf : a.f = b.f) : a = b := by
  cases a; cases b; simp_all
theorem M.ext' {a b : M} (hr : a.r = b.r) (hc : a.c = b.c) (hf : a.f = b.f) : a = b := by
  cases a; cases b; simp_all

end MenpoModel.C11.NP

/-! ## the definitions the translated sources are proved equal to (`GenProps/C11Src.lean`) -/
namespace MenpoModel.C11.Src
open MenpoModel.C11.NP

/-- `_increment_multivariate_gaussian_mean(X, m, n)`: `(n m + Σ x) / (n + n')`, entry by entry -/
def incMean (X : M) (m : V) (n : Rat) : V :=
  ⟨max m.n X.c, fun i => (n * m.f i + rsum X.r fun t => X.f t i) / (n + (X.r : Rat))⟩

/-- `_increment_multivariate_gaussian_cov(X, m, S, n, bias)`: `(new_m, (k S + n m mᵀ + XᵀX − (n + n') m' m'ᵀ) / (k + n'))`
with `k = n` (bias 1) or `n − 1` (bias 0); any other bias raises -/
def incCov (X : M) (m : V) (S : M) (n : Rat) (bias : Nat) : Option (V × M) :=
  if bias = 1 ∨ bias = 0 then
    let k : Rat := if bias = 1 then n else n - 1
    let m' := incMean X m n
    some (m', ⟨max (max S.r m.n) X.c, max (max S.c m.n) X.c, fun i j =>
      (k * S.f i j + n * (m.f i * m.f j) + (rsum X.r fun t => X.f t i * X.f t j)
        - (n + (X.r : Rat)) * (m'.f i * m'.f j)) / (k + (X.r : Rat))⟩)
  else none

/-! ### the four `_increment_*_precision` builders: one step per vertex / edge, folded in the `Option` monad (a bad
`bias` raises inside the loop) -/

/-- the columns of the data that make up the block of the edge `(v1, v2)` / the same entries of the mean vector -/
def edgeData (mode : String) (k : Nat) (X : M) (v1 v2 : Nat) : M :=
  if mode == "concatenation" then
    cols X (Idx.range (v1 * k) ((v1 + 1) * k) + Idx.range (v2 * k) ((v2 + 1) * k))
  else sl X 0 X.r (v1 * k) ((v1 + 1) * k) - sl X 0 X.r (v2 * k) ((v2 + 1) * k)
def edgeMean (mode : String) (k : Nat) (m : V) (v1 v2 : Nat) : V :=
  if mode == "concatenation" then
    getItem m (Idx.range (v1 * k) ((v1 + 1) * k) + Idx.range (v2 * k) ((v2 + 1) * k))
  else slV m (v1 * k) ((v1 + 1) * k) - slV m (v2 * k) ((v2 + 1) * k)

/-- `store it` of `_increment_dense_precision`: diagonal blocks accumulated, off-diagonal blocks assigned -/
def storeDense (mode : String) (k : Nat) (P : M) (v1 v2 : Nat) (cm : M) : M :=
  if mode == "concatenation" then
    setSlice (setSlice (addSlice (addSlice P (v1 * k) ((v1 + 1) * k) (v1 * k) ((v1 + 1) * k) (sl cm 0 k 0 k))
      (v2 * k) ((v2 + 1) * k) (v2 * k) ((v2 + 1) * k) (sl cm k cm.r k cm.c))
      (v1 * k) ((v1 + 1) * k) (v2 * k) ((v2 + 1) * k) (sl cm 0 k k cm.c))
      (v2 * k) ((v2 + 1) * k) (v1 * k) ((v1 + 1) * k) (sl cm k cm.r 0 k)
  else if mode == "subtraction" then
    addSlice (addSlice (setSlice (setSlice P (v1 * k) ((v1 + 1) * k) (v2 * k) ((v2 + 1) * k) (-cm))
      (v2 * k) ((v2 + 1) * k) (v1 * k) ((v1 + 1) * k) (-cm))
      (v1 * k) ((v1 + 1) * k) (v1 * k) ((v1 + 1) * k) cm)
      (v2 * k) ((v2 + 1) * k) (v2 * k) ((v2 + 1) * k) cm
  else P

def denseStep (mode : String) (inv : M → Option Nat → M) (X : M) (mean : V) (n : Rat) (graph : Graph) (k : Nat)
    (nc : Option Nat) (bias : Nat) (st : (Nat → M) × M) (e : Nat) : Option ((Nat → M) × M) :=
  let v1 := (graph.edge e).1
  let v2 := (graph.edge e).2
  match incCov (edgeData mode k X v1 v2) (edgeMean mode k mean v1 v2) (st.1 e) n bias with
  | none => none
  | some p => some (setItem st.1 e p.2, storeDense mode k st.2 v1 v2 (inv p.2 nc))

/-- `_increment_dense_precision` -/
def incDense (mode : String) (inv : M → Option Nat → M) (X : M) (mean : V) (covs : Nat → M) (n : Rat) (graph : Graph)
    (nf k : Nat) (nc : Option Nat) (bias : Nat) : Option (M × (Nat → M)) :=
  if mode == "concatenation" || mode == "subtraction" then
    ((List.range graph.nEdges).foldlM (denseStep mode inv X mean n graph k nc bias) (covs, zeros nf nf)).map
      fun st => (st.2, st.1)
  else none

def denseDiagStep (inv : M → Option Nat → M) (X : M) (mean : V) (n : Rat) (k : Nat) (nc : Option Nat) (bias : Nat)
    (st : (Nat → M) × M) (v : Nat) : Option ((Nat → M) × M) :=
  match incCov (sl X 0 X.r (v * k) ((v + 1) * k)) (slV mean (v * k) ((v + 1) * k)) (st.1 v) n bias with
  | none => none
  | some p => some (setItem st.1 v p.2,
      setSlice st.2 (v * k) ((v + 1) * k) (v * k) ((v + 1) * k) (inv p.2 nc))

/-- `_increment_dense_diagonal_precision` -/
def incDenseDiag (inv : M → Option Nat → M) (X : M) (mean : V) (covs : Nat → M) (n : Rat) (graph : Graph)
    (nf k : Nat) (nc : Option Nat) (bias : Nat) : Option (M × (Nat → M)) :=
  ((List.range graph.nVertices).foldlM (denseDiagStep inv X mean n k nc bias) (covs, zeros nf nf)).map
    fun st => (st.2, st.1)

/-- the tail shared by the two sparse builders: sort the triplets by block row, build `indptr`, hand over to
`bsr_matrix` -/
def indptrStep (rows : V) (indptr : V) (i : Nat) : V :=
  let inds := whereEq rows i
  if size inds == 0 then (setItem indptr (i + 1) (getItem indptr i : Rat))
  else setItem (setItem indptr i (first inds)) (i + 1) (last inds + 1)

def assemble (nv nf : Nat) (blocks : B3) (rows columns : V) : M :=
  let perm := argsort rows
  let rows' : V := getItem rows perm
  bsr (getItem blocks perm) (getItem columns perm)
    ((List.range nv).foldl (indptrStep rows') (zerosV (nv + 1))) nf nf

/-- one `count += 1; all_blocks[count] = …; rows[count] = …; columns[count] = …` -/
def push (t : Int × B3 × V × V) (blk : M) (r c : Nat) : Int × B3 × V × V :=
  (t.1 + 1, setItem t.2.1 (t.1 + 1) blk, setItem t.2.2.1 (t.1 + 1) r, setItem t.2.2.2 (t.1 + 1) c)

/-- `store it` of `_increment_sparse_precision`: four triplets per edge -/
def storeSparse (mode : String) (k : Nat) (t : Int × B3 × V × V) (v1 v2 : Nat) (cm : M) : Int × B3 × V × V :=
  if mode == "concatenation" then
    push (push (push (push t (sl cm 0 k 0 k) v1 v1) (sl cm k cm.r k cm.c) v2 v2) (sl cm 0 k k cm.c) v1 v2)
      (sl cm k cm.r 0 k) v2 v1
  else push (push (push (push t cm v1 v1) cm v2 v2) (-cm) v1 v2) (-cm) v2 v1

def sparseStep (mode : String) (inv : M → Option Nat → M) (X : M) (mean : V) (n : Rat) (graph : Graph) (k : Nat)
    (nc : Option Nat) (bias : Nat) (st : (Nat → M) × Int × B3 × V × V) (e : Nat) :
    Option ((Nat → M) × Int × B3 × V × V) :=
  let v1 := (graph.edge e).1
  let v2 := (graph.edge e).2
  match incCov (edgeData mode k X v1 v2) (edgeMean mode k mean v1 v2) (st.1 e) n bias with
  | none => none
  | some p => some (setItem st.1 e p.2, storeSparse mode k st.2 v1 v2 (inv p.2 nc))

/-- `_increment_sparse_precision` -/
def incSparse (mode : String) (inv : M → Option Nat → M) (X : M) (mean : V) (covs : Nat → M) (n : Rat) (graph : Graph)
    (nf k : Nat) (nc : Option Nat) (bias : Nat) : Option (M × (Nat → M)) :=
  if mode == "concatenation" || mode == "subtraction" then
    ((List.range graph.nEdges).foldlM (sparseStep mode inv X mean n graph k nc bias)
      (covs, -1, zeros3 (graph.nEdges * 4) k k, zerosV (graph.nEdges * 4), zerosV (graph.nEdges * 4))).map
      fun st => (assemble graph.nVertices nf st.2.2.1 st.2.2.2.1 st.2.2.2.2, st.1)
  else none

def sparseDiagStep (inv : M → Option Nat → M) (X : M) (mean : V) (n : Rat) (k : Nat) (nc : Option Nat) (bias : Nat)
    (st : (Nat → M) × B3 × V × V) (v : Nat) : Option ((Nat → M) × B3 × V × V) :=
  match incCov (sl X 0 X.r (v * k) ((v + 1) * k)) (slV mean (v * k) ((v + 1) * k)) (st.1 v) n bias with
  | none => none
  | some p => some (setItem st.1 v p.2, setItem st.2.1 v (inv p.2 nc), setItem st.2.2.1 v v, setItem st.2.2.2 v v)

/-- `_increment_sparse_diagonal_precision` -/
def incSparseDiag (inv : M → Option Nat → M) (X : M) (mean : V) (covs : Nat → M) (n : Rat) (graph : Graph)
    (nf k : Nat) (nc : Option Nat) (bias : Nat) : Option (M × (Nat → M)) :=
  ((List.range graph.nVertices).foldlM (sparseDiagStep inv X mean n k nc bias)
    (covs, zeros3 graph.nVertices k k, zerosV graph.nVertices, zerosV graph.nVertices)).map
    fun st => (assemble graph.nVertices nf st.2.1 st.2.2.1 st.2.2.2, st.1)

/-! ### `GMRFVectorModel._increment`, `increment`, `GMRFModel.increment`, `_data_to_matrix` -/

/-- which builder `_increment` picks: by `graph.n_edges == 0` and `self.sparse` -/
def builder (graph : Graph) (sparse : Bool) (mode : String) :
    (M → Option Nat → M) → M → V → (Nat → M) → Rat → Graph → Nat → Nat → Option Nat → Nat → Option (M × (Nat → M)) :=
  if graph.nEdges == 0 then (if sparse then incSparseDiag else incDenseDiag)
  else (if sparse then incSparse mode else incDense mode)

/-- `GMRFVectorModel._increment`: the precision and the block covariances are rebuilt from the *old* count and mean,
then mean and count are updated -/
def incrementInner (inv : M → Option Nat → M) (graph : Graph) (sparse : Bool) (mode : String) (nf k : Nat)
    (nc : Option Nat) (bias : Nat) (st : NP.GState) (data : M) : Option NP.GState :=
  (builder graph sparse mode inv data st.mean st.covs st.n graph nf k nc bias).map fun p =>
    ⟨p.1, p.2, incMean data st.mean st.n, st.n + data.r⟩

/-- `_data_to_matrix(data, n_samples)`: a list of samples is turned into an array and cut to `n_samples` rows; an array
is passed through untouched (not cut) -/
def dataToMatrix (data : Samples) (nsamples : Option Nat) : Samples × Nat :=
  let n := match nsamples with | none => len data | some n => n
  (if isArray data then data else .arr (sl (arrayOf data) 0 n 0 (arrayOf data).c), n)

/-- `GMRFVectorModel.increment` -/
def increment (inv : M → Option Nat → M) (graph : Graph) (sparse : Bool) (mode : String) (nf k : Nat)
    (nc : Option Nat) (bias : Nat) (st : NP.GState) (incremental : Bool) (samples : Samples) (nsamples : Option Nat) :
    Option NP.GState :=
  if incremental then
    incrementInner inv graph sparse mode nf k nc bias st (arrayOf (dataToMatrix samples nsamples).1)
  else none

/-- `GMRFModel.increment` -/
def incrementObj (inv : M → Option Nat → M) (graph : Graph) (sparse : Bool) (mode : String) (nf k : Nat)
    (nc : Option Nat) (bias : Nat) (st : NP.GState) (incremental : Bool) (samples : List V) (nsamples : Option Nat) :
    Option NP.GState :=
  if incremental then incrementInner inv graph sparse mode nf k nc bias st (NP.asMatrix samples nsamples) else none

/-! ### `menpo.math.as_matrix` -/

/-- one iteration of the fill loop: widen the matrix when the sample does not fit its dtype, then assign the row -/
def asMatrixStep (st : Nat × TM) (it : Nat × Sample) : Nat × TM :=
  (it.1, ((if canCastSameKind it.2.dt st.2.dt then st.2 else st.2.astype (promote st.2.dt it.2.dt)).setRow it.1 it.2.asVector))

/-- from the template on: allocate with the template's dtype, write row 0, fill from at most `n − 1` further samples,
raise unless exactly `n − 1` arrived -/
def asMatrixFrom (n : Nat) (template : Sample) (rest : List Sample) : Option TM :=
  let r := (enumFrom1 (rest.take (n - 1))).foldl asMatrixStep
    (0, (tzeros n template.nParameters template.dt).setRow 0 template.asVector)
  if r.1 != n - 1 then none else some r.2

/-- `as_matrix(vectorizables, length)`: a list (`length=None`) or an iterator with its announced length; an empty
input raises -/
def asMatrixT (vs : List Sample) (length : Option Nat) : Option TM :=
  match vs with
  | [] => none
  | t :: rest => asMatrixFrom (match length with | none => (t :: rest).length | some n => n) t rest

/-! ### `menpo.math.decomposition.ipca`, `PCAVectorModel.increment`, `PCAModel.increment` -/

/-- from "project out current eigenspace" to the returned triple: `B` is the matrix handed to the `R` construction
(the new data as they are, or centred with the pseudo-sample stacked below) -/
def ipcaTail (lib : Lib) (B Ua : M) (sa : V) (f eps n : Rat) (m : V) : M × V × V :=
  let PB := B - dot (dot B (T Ua)) Ua
  let Bt := T (lib.qrQ (T PB))
  let R := hstack (vstack (f * diag sa) (dot B (T Ua))) (vstack (zeros (diag sa).r Bt.r) (dot PB (T Bt)))
  let l0 := sq (lib.svd R).2.1 / (n - 1)
  let l := filterGt l0 (max eps ((maxShape R : Rat) * lib.precision * vmax l0))
  let W := dot (lib.svd R).2.2 (vstack Ua Bt)
  (sl W 0 (len l) 0 W.c, l, m)

/-- one operand of `ipca` folded into the running precision: floating point operands only -/
def precOf (lib : Lib) (dt : Dtype) (acc : Rat) : Rat := if lib.inexact dt then max acc (lib.eps dt) else acc
/-- machine epsilon of the least precise floating point operand among `B, U_a, l_a`, at least that of float64 -/
def operandPrec (lib : Lib) (B Ua : M) (la : V) : Rat :=
  precOf lib (lib.dtypeV la) (precOf lib (lib.dtypeM Ua) (precOf lib (lib.dtypeM B) (lib.eps lib.float64)))

/-- `ipca(B, U_a, l_a, n_a, m_a, f, eps, centre)` -/
def ipca (lib : Lib) (B Ua : M) (la : V) (na : Rat) (ma : Option V) (f eps : Rat) (centre : Option Bool) :
    M × V × V :=
  let sa : V := sqrt lib.sqrt ((na - 1) * la)
  let na' := na * f
  let n : Rat := na' + (B.r : Rat)
  let c : Bool := match centre with
    | none => ma.isSome && !NP.allZero (NP.the ma)
    | some c => c
  if c then
    let ma' : V := match ma with
      | none => zerosV B.c
      | some m => m
    let mb := mean0 B
    ipcaTail (lib.withPrec (operandPrec lib B Ua la)) (vstack (B - mb) ((sqrt lib.sqrt (na' * (B.r : Rat) / n) : Rat) * (mb - ma'))) Ua sa f eps n
      ((na' / n) * ma' + (((B.r : Rat)) / n) * mb)
  else ipcaTail (lib.withPrec (operandPrec lib B Ua la)) B Ua sa f eps n (zerosV B.c)

/-- `PCAVectorModel.increment` (the setter of `n_active_components` is taken at an integer in range: it stores it) -/
def pcaIncrement (lib : Lib) (eps : Rat) (st : PcaState) (data : Samples) (nsamples : Option Nat) (ff : Rat) : PcaState :=
  let dn := dataToMatrix data nsamples
  let r := ipca lib (arrayOf dn.1) st.components st.eigs st.n (some st.mean) ff eps (some st.centred)
  ⟨r.2.2, r.1, r.2.1, st.n + dn.2, if st.nactive == st.components.r then r.1.r else st.nactive, st.centred⟩

/-- `PCAModel.increment` -/
def pcaIncrementObj (lib : Lib) (eps : Rat) (st : PcaState) (samples : List V) (nsamples : Option Nat) (ff : Rat) :
    PcaState :=
  pcaIncrement lib eps st (.arr (NP.asMatrix samples nsamples)) (some (NP.asMatrix samples nsamples).r) ff

end MenpoModel.C11.Src
