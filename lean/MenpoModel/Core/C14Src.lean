/-
C14 — (1) the vocabulary the translated source of `menpo/shape/graph.py` (`Generated/C14Src.lean`, written by
harness/trans_c14.py on every run) is expressed in: what the numpy / scipy expressions of graph.py mean on the model
graph; (2) the public entry points as coded, with their `skip_checks` guards (`…Api`), which are the Core
definitions the translated methods are proved equal to (`GenProps/C14Src.lean`).  Core Lean only.
-/
import MenpoModel.Core.C14Graph
import MenpoModel.Core.C14Ext
import MenpoModel.Core.C14PyLoop

namespace MenpoModel.C14

/-! ### numpy / scipy vocabulary -/

/-- `adjacency_matrix.nonzero()` of a csr matrix: (row indices, column indices) of the stored non-zeros, row-major -/
def Graph.nz (g : Graph) : List Nat × List Nat := (g.edgesD.map (·.1), g.edgesD.map (·.2))

/-- `scipy.sparse.triu(A)` -/
def Graph.triu (g : Graph) : Graph := ⟨g.n, fun i j => if i ≤ j then g.w i j else 0⟩

/-- `A[:, keep]` (the number of rows stays) -/
def Graph.selCols (g : Graph) (keep : List Nat) : Graph := ⟨g.n, fun i j => g.w i (keep.getD j 0)⟩

/-- `A[keep, :]` (`n` is the number of rows) -/
def Graph.selRows (g : Graph) (keep : List Nat) : Graph := ⟨keep.length, fun i j => g.w (keep.getD i 0) j⟩

/-- `A[A.nonzero()] = 1` -/
def Graph.binarize (g : Graph) : Graph := ⟨g.n, fun i j => if g.w i j != 0 then 1 else 0⟩

/-- `csr_matrix((n, m), dtype=int)` -/
def zeroGraph (n _m : Nat) : Graph := ⟨n, fun _ _ => 0⟩

/-- `csr_matrix(([1] * k, (rows, cols)), shape=(n, m))` : duplicates are summed -/
def csrOnes (k : Nat) (rows cols : List Nat) (n _m : Nat) : Graph :=
  ⟨n, fun i j => ((rows.zip cols).take k).count (i, j)⟩

/-- the smallest vertex of the weak component of `v` : the label `csgraph.connected_components` gives `v`, up to
the naming of the labels (only equality of labels is observed by the code) -/
def Graph.labelOf (g : Graph) (v : Nat) : Nat :=
  ((List.range g.n).find? fun u => (g.component v).contains u).getD 0

/-- `csgraph.connected_components(A, directed=True)` (weak connection) : (number of components, labels) -/
def Graph.componentLabels (g : Graph) : Nat × List Nat := (g.nComponents, (List.range g.n).map g.labelOf)

inductive MatKind where
  | ndarray | csr | other
deriving DecidableEq, Repr

/-- what a caller may hand to `Graph.__init__` : the kind of container, its shape, its entries -/
structure RawMat where
  kind : MatKind
  nrows : Nat
  ncols : Nat
  w : Nat → Nat → Nat
  /-- the sparse container may carry explicitly STORED zeros (entries scipy.csgraph reads as edges of weight 0) -/
  storedZeros : Bool := false

def RawMat.graph (m : RawMat) : Graph := ⟨m.nrows, m.w⟩
def RawMat.ofGraph (g : Graph) : RawMat := ⟨.csr, g.n, g.n, g.w, false⟩

/-- `(A != A.T).nnz` / `np.count_nonzero(A != A.T)` : the number of positions where the matrix differs from its transpose -/
def Graph.asymCount (g : Graph) : Nat :=
  ((List.range g.n).flatMap fun i => (List.range g.n).filter fun j => g.w i j != g.w j i).length

/-- `issparse(A)` -/
def RawMat.isSparse (m : RawMat) : Bool := m.kind != MatKind.ndarray

/-- `A.eliminate_zeros()` -/
def RawMat.eliminateZeros (m : RawMat) : RawMat := { m with storedZeros := false }

/-- the model graph of the matrix an object stores: it exists only when no stored zero is left (the model's entries ARE
the non-zeros; every theorem about edge queries vs csgraph-backed queries relies on it).  A constructor that forgets
`eliminate_zeros()` therefore no longer equals `graphInit`. -/
def RawMat.graphOf (m : RawMat) : Option Graph := if m.storedZeros then none else some m.graph

namespace Src

/-- `x.shape[0]` of a square matrix (the graph) and of a 1-D array (a list) -/
class Shape0 (α : Type) where
  shape0 : α → Nat

instance : Shape0 Graph := ⟨Graph.n⟩
instance {α : Type} : Shape0 (List α) := ⟨List.length⟩

def shape0 {α : Type} [Shape0 α] (x : α) : Nat := Shape0.shape0 x

@[simp] theorem shape0_graph (g : Graph) : shape0 g = g.n := rfl
@[simp] theorem shape0_list {α : Type} (l : List α) : shape0 l = l.length := rfl

/-- `l[i]` for an index known to the caller to be in range (`default` otherwise) -/
def pyGet {α : Type} [Inhabited α] (l : List α) (i : Nat) : α := l.getD i default

/-- `l[i].append(x)` on a list of lists -/
def appendAt {α : Type} (l : List (List α)) (i : Nat) (x : α) : List (List α) :=
  match l[i]? with
  | some row => l.set i (row ++ [x])
  | none => l

/-- one row `A[i, :]` / one column `A[:, j]` of the matrix as an object of its own (a hoisted temporary) -/
structure RowVec where
  n : Nat
  w : Nat → Nat

structure ColVec where
  n : Nat
  w : Nat → Nat

def rowVec (g : Graph) (i : Nat) : RowVec := ⟨g.n, fun j => g.w i j⟩
def colVec (g : Graph) (j : Nat) : ColVec := ⟨g.n, fun i => g.w i j⟩

/-- `x.nonzero()[0]` / `x.nonzero()[1]` : row / column indices of the stored non-zeros of a matrix, the positions of
the non-zeros of a column vector / a row vector -/
class PyNz0 (α : Type) where
  nz0 : α → List Nat
class PyNz1 (α : Type) where
  nz1 : α → List Nat

instance : PyNz0 Graph := ⟨fun g => g.nz.1⟩
instance : PyNz1 Graph := ⟨fun g => g.nz.2⟩
instance : PyNz1 RowVec := ⟨fun r => (List.range r.n).filter fun j => r.w j != 0⟩
instance : PyNz0 ColVec := ⟨fun c => (List.range c.n).filter fun i => c.w i != 0⟩

def nz0 {α : Type} [PyNz0 α] (x : α) : List Nat := PyNz0.nz0 x
def nz1 {α : Type} [PyNz1 α] (x : α) : List Nat := PyNz1.nz1 x

@[simp] theorem nz0_graph (g : Graph) : nz0 g = g.nz.1 := rfl
@[simp] theorem nz1_graph (g : Graph) : nz1 g = g.nz.2 := rfl
@[simp] theorem nz1_rowVec (g : Graph) (i : Nat) : nz1 (rowVec g i) = g.row i := rfl
@[simp] theorem nz0_colVec (g : Graph) (j : Nat) : nz0 (colVec g j) = g.col j := rfl

/-- truthiness of a container (`if back_edges:`, `not paths`): non-empty.  Scoped: only files that open `Src` see it. -/
scoped instance {α : Type} : CoeOut (List α) Bool := ⟨fun l => !l.isEmpty⟩

@[simp] theorem coe_list_bool {α : Type} (l : List α) : ((l : Bool)) = !l.isEmpty := rfl

/-- `bool(x)` of a list: non-empty -/
def pyBool {α : Type} (l : List α) : Bool := !l.isEmpty

/-- `np.nonzero(mask)[0]` -/
def nonzeroIdx (mask : List Bool) : List Nat := maskFilter (List.range mask.length) mask

/-- `x[k, :]` : rows of a matrix by index list, rows of a point array by Boolean mask -/
class PySelRows (α κ : Type) where
  sel : α → κ → α

instance : PySelRows Graph (List Nat) := ⟨Graph.selRows⟩
instance {α : Type} : PySelRows (List α) (List Bool) := ⟨maskFilter⟩

def pySelRows {α κ : Type} [PySelRows α κ] (x : α) (k : κ) : α := PySelRows.sel x k

@[simp] theorem pySelRows_graph (g : Graph) (k : List Nat) : pySelRows g k = g.selRows k := rfl
@[simp] theorem pySelRows_list {α : Type} (l : List α) (m : List Bool) : pySelRows l m = maskFilter l m := rfl

/-- `a == b` of numpy: two scalars, or an array against a scalar (elementwise) -/
class PyEq (α β : Type) (γ : outParam Type) where
  eq : α → β → γ

instance : PyEq Nat Nat Bool := ⟨fun a b => a == b⟩
instance : PyEq (List Nat) Nat (List Bool) := ⟨fun l b => l.map fun a => a == b⟩

def pyEq {α β γ : Type} [PyEq α β γ] (a : α) (b : β) : γ := PyEq.eq a b

@[simp] theorem pyEq_nat (a b : Nat) : pyEq a b = (a == b) := rfl
@[simp] theorem pyEq_list (l : List Nat) (b : Nat) : pyEq l b = l.map fun a => a == b := rfl

end Src

/-! ### the public entry points as coded (guards included) -/

/-- `if not skip_checks: self._check_vertex(v)` for every `v` of the list -/
def Graph.guard (g : Graph) (skip : Bool) (vs : List Nat) : Bool := skip || vs.all g.checkVertex

/-- `_check_vertex` on an integer argument -/
def Graph.checkVertexI (g : Graph) (v : Int) : Bool := decide (0 ≤ v ∧ v < (g.n : Int))

def Graph.isEdgeApi (g : Graph) (u v : Nat) (skip : Bool) : Option Bool :=
  if g.guard skip [u, v] then some (g.isEdge u v) else none

/-- `neighbours` / `children` -/
def Graph.rowApi (g : Graph) (v : Nat) (skip : Bool) : Option (List Nat) :=
  if g.guard skip [v] then some (g.row v) else none

/-- `parents` -/
def Graph.colApi (g : Graph) (v : Nat) (skip : Bool) : Option (List Nat) :=
  if g.guard skip [v] then some (g.col v) else none

/-- `is_leaf` : calls `self.children(vertex)` WITHOUT passing `skip_checks` on, so the vertex is checked in any case -/
def Graph.isLeafApi (g : Graph) (v : Nat) (_skip : Bool) : Option Bool :=
  if g.checkVertex v then some (g.isLeaf v) else none

/-- `parent` : `predecessors_list[vertex]` (for `v < n` this is `g.parent v`, `predList_get`) -/
def Graph.parentApi (g : Graph) (v : Nat) (skip : Bool) : Option (Option Nat) :=
  if g.guard skip [v] then some (g.predList.getD v none) else none

/-- `depth_of_vertex` : outer `none` = an exception (vertex check, `predecessors_list[None]`) or no termination -/
def Graph.depthApi (g : Graph) (root v : Nat) (skip : Bool) : Option Nat :=
  if g.guard skip [v] then g.depth root v else none

/-- every `depth_of_vertex(v)`, `v < n`, returns -/
def Graph.depthsDefined (g : Graph) (root : Nat) : Bool := (List.range g.n).all fun v => (g.depth root v).isSome

/-- `vertices_at_depth` : raises as soon as one `depth_of_vertex` does -/
def Graph.verticesAtDepthApi (g : Graph) (root d : Nat) : Option (List Nat) :=
  if g.depthsDefined root then some (g.verticesAtDepth root d) else none

/-- `n_vertices_at_depth` -/
def Graph.nVerticesAtDepthApi (g : Graph) (root d : Nat) : Option Nat :=
  if g.depthsDefined root then some (g.nVerticesAtDepth root d) else none

/-- `Graph.__init__` : container kind, then (unless `skip_checks`) non-empty, square, symmetric if undirected -/
def graphInit (directed : Bool) (m : RawMat) (skip : Bool) : Option Graph :=
  if m.kind = .other then none
  else if !skip && (m.nrows == 0 || m.nrows != m.ncols || (!directed && !m.graph.symmetricB)) then none
  else some m.graph

/-- `Tree.__init__` after `DirectedGraph.__init__` : the object state `(root_vertex, predecessors_list)` -/
def Graph.treeInit (g : Graph) (root : Nat) (skip : Bool) : Option (Nat × List (Option Nat)) :=
  if skip || g.treeCtorOk root then some (root, g.predList) else none

/-- `PointUndirectedGraph(points, A, skip_checks)` / `PointDirectedGraph(…)` : `_check_n_points`, then `Graph.__init__` -/
def pointGraphCtor {α : Type} (directed : Bool) (pts : List α) (g : Graph) (skip : Bool) : Option (Graph × List α) :=
  if skip then some (g, pts)
  else if pts.length != g.n then none
  else if g.n == 0 then none
  else if !directed && !g.symmetricB then none
  else some (g, pts)

/-- `PointTree(points, A, root_vertex, skip_checks)` -/
def pointTreeCtor {α : Type} (pts : List α) (g : Graph) (root : Nat) (skip : Bool) : Option (Graph × Nat × List α) :=
  if skip then some (g, root, pts)
  else if pts.length != g.n then none
  else if g.treeCtorOk root then some (g, root, pts) else none

end MenpoModel.C14
