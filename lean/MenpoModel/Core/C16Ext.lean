/-
C16 — which format and which compression the exporters and the importers pick for a file name.
Executable model, core Lean only.  Transcribed from

  menpo/io/output/base.py      export_pickle (`gzip_open if extension[-3:] == ".gz" else open`), `_export`
                               (every other exporter opens the file plainly)
  menpo/io/output/extensions.py  landmark_types, image_types, pickle_types, video_types   (extension → exporter)
  menpo/io/input/base.py       importer_for_filepath (first known join of the suffixes), import_pickle / import_image /
                               import_landmark_file / import_video (which table)
  menpo/io/input/extensions.py   image_landmark_types, image_types, pickle_types, ffmpeg_video_types (extension → importer)

The four tables are written down here with the *names of the callables*; `Generated/C16Tables.lean` is rewritten
from the live dictionaries on every run and `GenProps/C16.lean` obliges them to be these tables.
-/
import MenpoModel.Core.C16

namespace MenpoModel.C16

/-- extension → name of the exporter callable (`functools.partial` objects by the name of the wrapped function),
sorted by extension -/
def exporterTable : Kind → List (String × String)
  | .landmark => [(".ljson", "ljson_exporter"), (".pts", "pts_exporter")]
  | .image =>
    [(".bmp", "pil_exporter"), (".dcx", "pil_exporter"), (".dib", "pil_exporter"), (".eps", "pil_exporter"),
     (".gif", "pil_exporter"), (".im", "pil_exporter"), (".jpe", "pil_exporter"), (".jpeg", "pil_exporter"),
     (".jpg", "pil_exporter"), (".pbm", "pil_exporter"), (".pcd", "pil_exporter"), (".pcx", "pil_exporter"),
     (".pgm", "pil_exporter"), (".png", "pil_exporter"), (".ppm", "pil_exporter"), (".ps", "pil_exporter"),
     (".psd", "pil_exporter"), (".tif", "pil_exporter"), (".tiff", "pil_exporter"), (".xbm", "pil_exporter"),
     (".xpm", "pil_exporter")]
  | .pickle => [(".pkl", "pickle_exporter"), (".pkl.gz", "pickle_exporter")]
  | .video =>
    [(".avi", "ffmpeg_video_exporter"), (".gif", "ffmpeg_video_exporter"), (".mkv", "ffmpeg_video_exporter"),
     (".mov", "ffmpeg_video_exporter"), (".mp4", "ffmpeg_video_exporter"), (".mpeg", "ffmpeg_video_exporter"),
     (".mpg", "ffmpeg_video_exporter"), (".wmv", "ffmpeg_video_exporter")]

/-- extension → name of the importer callable, sorted by extension (the table `import_landmark_file`,
`import_image`, `import_pickle`, `import_video` hand to `_import`) -/
def importerTable : Kind → List (String × String)
  | .landmark =>
    [(".asf", "asf_importer"), (".ljson", "ljson_importer"), (".lm2", "lm2_importer"), (".pts", "pts_importer"),
     (".ptsx", "pts_importer")]
  | .image =>
    [(".abs", "abs_importer"), (".bmp", "pillow_importer"), (".dcx", "pillow_importer"), (".dib", "pillow_importer"),
     (".eps", "pillow_importer"), (".flo", "flo_importer"), (".gif", "ffmpeg_importer"), (".im", "pillow_importer"),
     (".jpe", "pillow_importer"), (".jpeg", "pillow_importer"), (".jpg", "pillow_importer"),
     (".jpg2", "pillow_importer"), (".jpx", "pillow_importer"), (".pbm", "pillow_importer"),
     (".pcd", "pillow_importer"), (".pcx", "pillow_importer"), (".pgm", "pillow_importer"),
     (".png", "pillow_importer"), (".ppm", "pillow_importer"), (".ps", "pillow_importer"),
     (".psd", "pillow_importer"), (".tif", "pillow_importer"), (".tiff", "pillow_importer"),
     (".xbm", "pillow_importer"), (".xpm", "pillow_importer")]
  | .pickle => [(".pkl", "pickle_importer"), (".pkl.gz", "pickle_gzip_importer")]
  | .video =>
    [(".avi", "ffmpeg_importer"), (".gif", "ffmpeg_importer"), (".mkv", "ffmpeg_importer"),
     (".mov", "ffmpeg_importer"), (".mp4", "ffmpeg_importer"), (".mpeg", "ffmpeg_importer"),
     (".mpg", "ffmpeg_importer"), (".wmv", "ffmpeg_importer")]

/-- the keys of the importer dictionary -/
def importExts (k : Kind) : List (List Char) := (importerTable k).map fun p => p.1.toList

/-- number of `.` in an extension (= number of suffixes it is the join of) -/
def dots (c : List Char) : Nat := c.count '.'

/-- `extension[-3:] == ".gz"` -/
def endsGz (e : List Char) : Bool := e.drop (e.length - 3) == ['.', 'g', 'z']

/-- what an export to a file called `name` does, for an exporter dictionary `ex` (extension → callable): the format
(the parsed extension; `none` = `ValueError`) and whether the bytes go through gzip.  Only `export_pickle` ever
compresses, and it decides on the *parsed* extension. -/
def exportDecisionT (ex : List (String × String)) (isPickle : Bool) (name : List Char) : Option (List Char × Bool) :=
  (parseExt (ex.map fun p => p.1.toList) name).map fun e => (e, isPickle && endsGz e)

/-- `importer_for_filepath` (first known join of the suffixes, longest first) followed by the dictionary lookup -/
def importerForT (im : List (String × String)) (name : List Char) : Option (List Char × String) :=
  match parseExt (im.map fun p => p.1.toList) name with
  | none => none
  | some e => (im.find? fun p => p.1.toList == e).map fun p => (e, p.2)

/-- what an import of a file called `name` does: the format and whether the bytes are read through gzip
(`pickle_gzip_importer` is the one importer that decompresses) -/
def importDecisionT (im : List (String × String)) (name : List Char) : Option (List Char × Bool) :=
  (importerForT im name).map fun r => (r.1, r.2 == "pickle_gzip_importer")

/-- the exporters of menpo: the extension is parsed against `knownExts` (the table `exportAt` uses) -/
def exportDecision (k : Kind) (name : List Char) : Option (List Char × Bool) :=
  (parseExt (knownExts k) name).map fun e => (e, k == .pickle && endsGz e)

def importerFor (k : Kind) (name : List Char) : Option (List Char × String) := importerForT (importerTable k) name

def importDecision (k : Kind) (name : List Char) : Option (List Char × Bool) := importDecisionT (importerTable k) name

/-! ### `export_landmark_file`: the check in front of `_export` -/

/-- `PurePath.suffix` (Python 3.12): from the last `.` on, unless that dot is the first or the last character -/
def pySuffix (name : List Char) : List Char :=
  let t := (name.reverse.takeWhile (· != '.')).length      -- characters after the last '.'
  if name.contains '.' ∧ 0 < t ∧ t + 1 < name.length then name.drop (name.length - t - 1) else []

/-- `_parse_and_validate_extension(filepath, extension, extensions_map)`: the first known suffix join; an explicit
extension (already `_normalize_extension`ed) must be exactly that -/
def parseAndValidate (known : List (List Char)) (userExt : Option (List Char)) (name : List Char) : Option (List Char) :=
  match parseExt known name with
  | none => none
  | some e => if userExt.isSome ∧ userExt ≠ some e then none else some e

/-- `export_landmark_file(obj, path, extension)`: an object without `n_points` (a dictionary / `LandmarkManager`:
`multi`) is refused unless the explicit extension, if any, is `.ljson` and `Path(fp).suffix` is `.ljson` LITERALLY
(this comparison is case-sensitive, the extension parser is not); then `_export`.  `none` = ValueError. -/
def exportLandmarkDecision (multi : Bool) (userExt : Option (List Char)) (name : List Char) : Option (List Char) :=
  if multi ∧ ((userExt.isSome ∧ userExt ≠ some ".ljson".toList) ∨ pySuffix name ≠ ".ljson".toList) then none
  else parseAndValidate (knownExts .landmark) userExt name

/-- the importer that reads what an exporter writes (the format pairs the round-trip clauses are about);
`.gif` is written by PIL and read through ffmpeg -/
def readerOf : String → List String
  | "ljson_exporter" => ["ljson_importer"]
  | "pts_exporter" => ["pts_importer"]
  | "pil_exporter" => ["pillow_importer", "ffmpeg_importer"]
  | "pickle_exporter" => ["pickle_importer", "pickle_gzip_importer"]
  | "ffmpeg_video_exporter" => ["ffmpeg_importer"]
  | _ => []

/-- what the agreement theorem needs of a pair of tables (decidable; `tables_ok` proves it of the model tables,
`GenProps.C16` of the regenerated live ones):
every exported extension has an importer; an extension only the importer knows is a single suffix (so it can never be
preferred over the exporter's choice); gzip on the way out ⇔ gzip on the way in; exporter and importer belong
together -/
def TablesOK (ex im : List (String × String)) (isPickle : Bool) : Bool :=
  ex.all (fun e => im.any fun i => i.1 == e.1) &&
  im.all (fun i => (ex.any fun e => e.1 == i.1) || dots i.1.toList ≤ 1) &&
  ex.all (fun e => im.all fun i => i.1 != e.1 ||
    ((i.2 == "pickle_gzip_importer") == (isPickle && endsGz e.1.toList) && (readerOf e.2).contains i.2)) &&
  im.all (fun i => isPickle || i.2 != "pickle_gzip_importer")

end MenpoModel.C16
