/-
C04 — transforms with a previous life: `pseudoinverse()` as a query on a mutable object (Mathlib-free).

The objects of menpo are mutable: `set_target`, `from_vector_inplace`, `set_h_matrix`, `set_rotation_matrix`,
`compose_before_inplace`, `compose_after_inplace` change an existing transform, and `pseudoinverse()` may be asked
for at any moment, any number of times.  The property quantifies over the transform *as it is now*, so the inverse has
to invert the CURRENT map and exchange the CURRENT source and target whatever happened before.

* `Live S A`        : an object = its current state plus whatever an earlier `pseudoinverse()` left on the instance
* `Live.query`      : the method.  With `writes = false` (what the table measured on the live classes says: the method
                      writes no instance attribute) the answer is computed from the current state; `writes = true` is the
                      behaviour a write makes possible: the first answer is kept on the instance and handed out again
* `Live.run`        : an operation list (`none` = query, `some m` = mutator) ↦ the list of answers
* `statesAtQueries` : the state the object is in at each query (the specification side)

Mutators of the homogeneous family (`Op`), as coded:
* `Targetable.set_target`         : `_target := T`, then `_sync_state_from_target` installs the matrix fitted to
                                    `(source, T)`; the fit is library code + C07's subject: the matrix is an argument
* `from_vector_inplace`, `set_h_matrix`, `set_rotation_matrix` : install a matrix; the alignment classes then re-sync
                                    their target from the state (`T = some (aligned source)`; classes that do not: `none`)
* `_compose_before_inplace`       : `h := t.h · self.h`     (`np.dot(transform.h_matrix, self.h_matrix)`)
* `_compose_after_inplace`        : `h := self.h · t.h`
Warps: `set_target` replaces the target points (`ThinPlateSplines._sync_state_from_target` rebuilds the coefficients,
`AbstractPWA._sync_state_from_target` the target vectors; both are functions of the state in the model already).

The tables at the end are what the model assumes of the live classes; `harness/extract_c04.py` regenerates them from
/repo on every run (`Generated/C04Tables.lean`) and `GenProps/C04.lean` compares.
-/
import MenpoModel.Core.C04Warp

namespace MenpoModel.C04

/-! ## live objects -/

structure Live (S A : Type) where
  st : S
  memo : Option A

def Live.fresh {S A : Type} (s : S) : Live S A := ⟨s, none⟩

def Live.query {S A : Type} (writes : Bool) (f : S → A) (o : Live S A) : Live S A × A :=
  match writes, o.memo with
  | true, some a => (o, a)
  | true, none => ({ o with memo := some (f o.st) }, f o.st)
  | false, _ => (o, f o.st)

/-- the answers of all queries of an operation list (`none` = `pseudoinverse()`, `some m` = mutator `m`) -/
def Live.run {S A M : Type} (writes : Bool) (f : S → A) (act : M → S → S) : Live S A → List (Option M) → List A
  | _, [] => []
  | o, none :: ops => (o.query writes f).2 :: Live.run writes f act (o.query writes f).1 ops
  | o, some m :: ops => Live.run writes f act { o with st := act m o.st } ops

/-- the state the object is in when each query is made -/
def statesAtQueries {S M : Type} (act : M → S → S) : S → List (Option M) → List S
  | _, [] => []
  | s, none :: ops => s :: statesAtQueries act s ops
  | s, some m :: ops => statesAtQueries act (act m s) ops

/-- the state after the whole list -/
def finalState {S M : Type} (act : M → S → S) : S → List (Option M) → S
  | s, [] => s
  | s, none :: ops => finalState act s ops
  | s, some m :: ops => finalState act (act m s) ops

/-! ## mutators of the homogeneous family -/

inductive Op (d : Nat) (α : Type) where
  | setTarget (T : α) (H : Mat (d + 1))
  | setState (H : Mat (d + 1)) (T : Option α)
  | composeBefore (M : Mat (d + 1)) (T : Option α)
  | composeAfter (M : Mat (d + 1)) (T : Option α)

/-- `_target := T` on an alignment (objects without end points have none to set) -/
def retarget {α : Type} (e : Option (α × α)) (T : Option α) : Option (α × α) :=
  match e, T with
  | some (s, _), some T => some (s, T)
  | e, _ => e

def HT.act {d : Nat} {α : Type} : Op d α → HT d α → HT d α
  | .setTarget T H, t => { t with h := H, ends := retarget t.ends (some T) }
  | .setState H T, t => { t with h := H, ends := retarget t.ends T }
  | .composeBefore M T, t => { t with h := M.mul t.h, ends := retarget t.ends T }
  | .composeAfter M T, t => { t with h := t.h.mul M, ends := retarget t.ends T }

/-- the matrix a mutator brings in -/
def Op.mat {d : Nat} {α : Type} : Op d α → Mat (d + 1)
  | .setTarget _ H | .setState H _ | .composeBefore H _ | .composeAfter H _ => H

/-! ## mutators of the warps -/

/-- `ThinPlateSplines.set_target`: new target landmarks; source and kernel stay -/
def TPS.setTarget {n : Nat} (T : Fin n → P2) (t : TPS n) : TPS n := { t with tgt := T }

/-- `AbstractPWA.set_target`: new target points; source mesh (points and trilist) stays -/
def PWAMesh.setTarget (T : List P2) (m : PWAMesh) : PWAMesh := { m with tgt := T }

/-! ## what the model assumes of the live classes (regenerated and compared on every run) -/

def Cls.name : Cls → String
  | .homogeneous => "Homogeneous" | .affine => "Affine" | .similarity => "Similarity" | .rotation => "Rotation"
  | .translation => "Translation" | .uniformScale => "UniformScale" | .nonUniformScale => "NonUniformScale"
  | .alignmentAffine => "AlignmentAffine" | .alignmentSimilarity => "AlignmentSimilarity"
  | .alignmentRotation => "AlignmentRotation" | .alignmentTranslation => "AlignmentTranslation"
  | .alignmentUniformScale => "AlignmentUniformScale"

def Cls.all : List Cls :=
  [.homogeneous, .affine, .similarity, .rotation, .translation, .uniformScale, .nonUniformScale, .alignmentAffine,
   .alignmentSimilarity, .alignmentRotation, .alignmentTranslation, .alignmentUniformScale]

def Impl.name : Impl → String
  | .homogeneous => "Homogeneous" | .homogFamilyAlignment => "HomogFamilyAlignment" | .translation => "Translation"
  | .uniformScale => "UniformScale" | .nonUniformScale => "NonUniformScale" | .rotation => "Rotation"

/-- one row of the method-resolution table: for a concrete class, the class whose `__dict__` supplies
`pseudoinverse`, `_h_matrix_pseudoinverse` (`-`: the class has none), `has_true_inverse`, and the value of the latter
on an instance -/
structure DispatchRow where
  cls : String
  pinv : String
  hmp : String
  hti : String
  trueInverse : Bool
  deriving DecidableEq, Repr

/-- the family rows follow `implOf`, the table `pinvH` is assembled from; the warps are listed outright -/
def expectedDispatch : List DispatchRow :=
  Cls.all.map (fun c => ⟨c.name, (implOf c).name, "Homogeneous", "Homogeneous", true⟩) ++
  [⟨"PythonPWA", "AbstractPWA", "-", "AbstractPWA", true⟩,
   ⟨"CachedPWA", "AbstractPWA", "-", "AbstractPWA", true⟩,
   ⟨"ThinPlateSplines", "ThinPlateSplines", "-", "ThinPlateSplines", false⟩]

/-- class ↦ the instance attributes `pseudoinverse()` rebinds, adds, removes or modifies in place -/
abbrev WriteTable := List (String × List String)

def classNames : List String :=
  Cls.all.map Cls.name ++ ["PythonPWA", "CachedPWA", "ThinPlateSplines"]

/-- no class writes anything: there is no memo -/
def expectedPinvWrites : WriteTable := classNames.map fun c => (c, [])

/-- does the table say `pseudoinverse()` of this class writes instance state?  (a class missing from the table counts
as writing: nothing was measured for it) -/
def writesOf (tbl : WriteTable) (c : String) : Bool :=
  match tbl.lookup c with
  | some [] => false
  | _ => true

end MenpoModel.C04
