/-
C16 — the vocabulary of the TRANSLATED export / import plumbing (harness/trans_c16.py writes
`Generated/C16Src*.lean` from the source text of the working tree on every run; `GenProps/C16Src*.lean` proves each
translated function equal to the specification given here, for all arguments).

Python values and their Lean types
  a `str` or `None`                      `OStr = Option (List Char)`
  what the user passes as `fp`           `Fp`: a `str`, a `pathlib.Path` (kept as the string it was built from), or a
                                         file-like object (`Handle`)
  extension dictionaries                 `List (String × String)` (extension, name of the callable), as `Core/C16Ext`
  an exporter / importer callable        `Option String` (its name; `None` while a loop is still searching)
  exceptions                             `Exc`
  functions that only compute            `Except Exc α`
  functions that touch the file system   `IOx α = PyX.W FSb Exc α` (state = the file system, exceptions keep the state)

Library code is modelled (executably, so that the harness compares every one of these with Python on generated
strings on every run): `os.path.expanduser`, `expandvars` (Core/C16.lean), `normpath`, `abspath`, `str(Path)`
(`pathStr`), `PurePath.suffixes` / `.suffix` / `.name`, `Path.exists`, `Path.open("wb")`, `gzip.open`.  The operating
system resolves a path string lexically (`resolve`: no symbolic links below the scratch root).
-/
import MenpoModel.Core.C16Ext
import MenpoModel.Core.C16PyX

namespace MenpoModel.C16
open PyX

inductive Exc where
  | overwriteError | valueError | attributeError | keyError | indexError | typeError
  | exporterError          -- whatever the exporter callable itself raises (an object it cannot write)
  | fuel                   -- a translated `while` loop ran out of fuel (proved never to happen)
  deriving DecidableEq, Repr

abbrev OStr := Option (List Char)

def ostr (s : String) : OStr := some s.toList

/-! ## 1. strings -/

/-- `extension[0] != c` (`None[0]` is a TypeError, `""[0]` an IndexError) -/
def firstCharIsNot (c : Char) : OStr → Except Exc Bool
  | none => .error .typeError
  | some [] => .error .indexError
  | some (a :: _) => .ok (a != c)

/-- `c + extension` -/
def strPrepend (c : Char) (x : OStr) : OStr := x.map fun s => c :: s

/-- `extension.lower()` -/
def strLower (x : OStr) : OStr := x.map fun s => s.map Char.toLower

/-- `"".join(parts)` -/
def strJoin (parts : List OStr) : OStr := some (parts.flatMap fun p => p.getD [])

/-- `extension[-3:]` -/
def strLast3 (x : OStr) : OStr := x.map fun e => e.drop (e.length - 3)

/-- `x.endswith(s)` -/
def strEndsWith (x s : OStr) : Bool :=
  match x, s with
  | some a, some b => decide (b.length ≤ a.length) && a.drop (a.length - b.length) == b
  | _, _ => false

/-- `extension[-3:] == ".gz"` -/
def strEndsGz (x : OStr) : Bool := match x with
  | none => false
  | some e => endsGz e

/-- `_normalize_extension` as a specification: `None` stays, a leading period is supplied, lower case -/
def normalizeExt : OStr → Except Exc OStr
  | none => .ok none
  | some [] => .error .indexError
  | some (c :: t) => .ok (some ((if c = '.' then c :: t else '.' :: c :: t).map Char.toLower))

/-! ## 2. paths as strings: `os.path.normpath`, `os.path.abspath`, `os.getcwd()` -/

/-- POSIX: exactly two leading slashes are kept, three or more are one -/
def initialSlashes : List Char → Nat
  | '/' :: '/' :: '/' :: _ => 1
  | '/' :: '/' :: _ => 2
  | '/' :: _ => 1
  | _ => 0

/-- one pass of the loop of `posixpath.normpath` (the component stack is kept reversed) -/
def relStep (rooted : Bool) (st : List Comp) (c : Comp) : List Comp :=
  if c = [] ∨ c = ['.'] then st
  else if c ≠ ['.', '.'] ∨ (rooted = false ∧ st = []) ∨ st.head? = some ['.', '.'] then c :: st
  else st.tail

def osNormpath (s : List Char) : List Char :=
  if s = [] then ['.'] else
    let k := initialSlashes s
    let comps := ((splitC '/' s).foldl (relStep (k != 0)) []).reverse
    let r := List.replicate k '/' ++ ['/'].intercalate comps
    if r = [] then ['.'] else r

/-- `os.getcwd()` for the working directory `cwd` -/
def renderPath (p : Path) : List Char := '/' :: ['/'].intercalate p

/-- `os.path.join(a, b)` -/
def joinPath (a b : List Char) : List Char :=
  match b with
  | '/' :: _ => b
  | _ => if a = [] ∨ a.getLast? = some '/' then a ++ b else a ++ '/' :: b

def osAbspath (cwd : Path) (s : List Char) : List Char :=
  match s with
  | '/' :: _ => osNormpath s
  | _ => osNormpath (joinPath (renderPath cwd) s)

/-- what the operating system does with a path string: relative to the working directory, lexically (no symbolic
links).  The result is the key of the file in the file-system model. -/
def resolve (cwd : Path) (s : List Char) : Path :=
  match s with
  | '/' :: _ => normAbs (splitC '/' s)
  | _ => normAbs (cwd ++ splitC '/' s)

/-- the parts of a `PurePath` below its root -/
def pathParts (s : List Char) : List Comp := (splitC '/' s).filter fun c => !(c == [] || c == ['.'])

/-! ## 3. `fp` -/

structure Handle where
  target : Option Path          -- the file the object writes to (`none`: a buffer in memory)
  name : Option (List Char)     -- its `.name` attribute, if it has one
  gz : Bool                     -- the bytes go through gzip
  deriving DecidableEq, Repr

inductive Fp where
  | str (s : List Char)
  | path (s : List Char)        -- `pathlib.Path(s)`
  | handle (h : Handle)
  deriving DecidableEq, Repr

namespace Fp

def isStr : Fp → Bool
  | .str _ => true
  | _ => false

def isPath : Fp → Bool
  | .path _ => true
  | _ => false

def isStrOrPath (x : Fp) : Bool := x.isStr || x.isPath

/-- `Path(x)` -/
def toPath : Fp → Fp
  | .str s => .path s
  | x => x

/-- `str(x)` -/
def toStr : Fp → List Char
  | .str s => s
  | .path s => pathStr s
  | .handle _ => []

/-- `PurePath.name` -/
def fileName (x : Fp) : List Char := (pathParts x.toStr).getLast?.getD []

/-- `PurePath.suffixes` -/
def suffixes (x : Fp) : List OStr := (MenpoModel.C16.suffixes x.fileName).map some

/-- `PurePath.suffix` -/
def suffix (x : Fp) : OStr := some (pySuffix x.fileName)

/-- `hasattr(x, "name")`: a `Path` has one, a `str` has not, a file-like object may -/
def hasName : Fp → Bool
  | .str _ => false
  | .path _ => true
  | .handle h => h.name.isSome

/-- `x.name` (a `str`) -/
def getName : Fp → Except Exc Fp
  | .str _ => .error .attributeError
  | .path s => .ok (.str (Fp.path s).fileName)
  | .handle h => match h.name with
    | some n => .ok (.str n)
    | none => .error .attributeError

/-- the file the operating system means by this path -/
def key (cwd : Path) (x : Fp) : Path := resolve cwd x.toStr

end Fp

/-! ## 4. extension dictionaries -/

/-- `x in extensions_map` -/
def mapHas (m : List (String × String)) : OStr → Bool
  | none => false
  | some e => m.any fun p => p.1.toList == e

/-- `extensions_map.get(x)` -/
def mapGet (m : List (String × String)) : OStr → Option String
  | none => none
  | some e => (m.find? fun p => p.1.toList == e).map fun p => p.2

/-- `extensions_map[x]` -/
def mapIndex (m : List (String × String)) (x : OStr) : Except Exc (Option String) :=
  match mapGet m x with
  | some c => .ok (some c)
  | none => .error .keyError

def mapKeys (m : List (String × String)) : List (List Char) := m.map fun p => p.1.toList

/-! ## 5. specifications of the pure functions -/

/-- `_norm_path`: the composition, in the order of the code -/
def normPathSpec (env : Env) (cwd : Path) (x : Fp) : Fp :=
  .path (osAbspath cwd (osNormpath (expandVars env (expandUser env x.toStr))))

/-- `_possible_extensions_from_filepath` -/
def possibleExts (x : Fp) : List OStr := (candidates (MenpoModel.C16.suffixes x.fileName)).map some

/-- `_parse_and_validate_extension(filepath, extension, extensions_map)`: the first known join of the suffixes; an
explicit extension, normalised, must be exactly that -/
def parseAndValidateSpec (x : Fp) (ext : OStr) (m : List (String × String)) : Except Exc OStr :=
  match parseExt (mapKeys m) x.fileName with
  | none => .error .valueError
  | some e =>
    match ext with
    | none => .ok (some e)
    | some _ => match normalizeExt ext with
      | .error err => .error err
      | .ok n => if n = some e then .ok (some e) else .error .valueError

/-- `importer_for_filepath(filepath, extensions_map)` -/
def importerForSpec (x : Fp) (m : List (String × String)) : Except Exc (Option String) :=
  match importerForT m x.fileName with
  | none => .error .valueError
  | some r => .ok (some r.2)

/-- `_enforce_only_paths_supported(file_path, exporter_name)` -/
def enforcePathsSpec (x : Fp) : Except Exc Fp :=
  match x with
  | .str s => .ok (.str s)
  | .path s => .ok (.path s)
  | .handle h => match h.name with
    | some n => .ok (.str n)
    | none => .error .valueError

end MenpoModel.C16
