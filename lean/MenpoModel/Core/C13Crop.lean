/-
C13 — executable model of `Image.crop` / `constrain_points_to_bounds`,
`extract_patches_with_slice`, `extract_patches_by_sampling`, `_centered_patch`, `set_patches`
(menpo/image/base.py, menpo/image/patches.py).  Core Lean only (no Mathlib).

The model follows the code branch for branch.  Two places where the code on the original tree
departs from the property are kept as an explicit `Variant` (`coded` = what the original tree
does, `repaired` = the proposed fix) so that the refutation of the coded behaviour and the
theorem for the repaired behaviour stand side by side (Lemmas/C13Base.lean, Props/C13.lean):
  * the raise-or-clip decision of `Image.crop`  (`or` where `and` is meant),
  * the literal channel count `3` in the reshape of `extract_patches_by_sampling`.
`scipy.ndimage.map_coordinates` is library code: the sampling-path model takes the sampler as
a parameter; the concrete samplers below (order 0/1, modes constant/nearest) are what the
driver instantiates it with and what the correspondence checks against scipy.
-/
import MenpoModel.Core.C13NDArr
import MenpoModel.Core.PyData

namespace MenpoModel.C13
open MenpoModel.PyData

inductive Err | boundary | value | index | zerodiv
deriving Repr, DecidableEq

inductive Variant | coded | repaired
deriving Repr, DecidableEq

instance {ε α : Type} [DecidableEq ε] [DecidableEq α] : DecidableEq (Except ε α) := fun a b =>
  match a, b with
  | .ok x, .ok y => if h : x = y then isTrue (by rw [h]) else isFalse (by intro h'; cases h'; exact h rfl)
  | .error x, .error y => if h : x = y then isTrue (by rw [h]) else isFalse (by intro h'; cases h'; exact h rfl)
  | .ok _, .error _ => isFalse (by intro h; cases h)
  | .error _, .ok _ => isFalse (by intro h; cases h)

/-! ### Image.crop -/

/-- `Image.constrain_points_to_bounds` on one coordinate:
`b[b < 0] = 0; over = (shape - b) < 0; b[over] = shape[over]` -/
def clampB (n : Nat) (x : Int) : Int :=
  let b := if x < 0 then 0 else x
  if (n : Int) - b < 0 then (n : Int) else b

/-- one image axis of a crop request: extent, `floor(min)`, `ceil(max)` -/
structure Axis where
  n : Nat
  lo : Int
  hi : Int
deriving Repr, DecidableEq

def Axis.loB (a : Axis) : Int := clampB a.n a.lo
def Axis.hiB (a : Axis) : Int := clampB a.n a.hi
/-- extent of the cropped axis: `(max_bounded - min_bounded).astype(int)` -/
def Axis.len (a : Axis) : Nat := (a.hiB - a.loB).toNat

def mkAxes : List Nat → List Rat → List Rat → List Axis
  | n :: s, a :: mn, b :: mx => ⟨n, a.floor, b.ceil⟩ :: mkAxes s mn mx
  | _, _, _ => []

/-- the `raise ImageBoundaryError` condition, as coded and as repaired -/
def raises (v : Variant) (constrain : Bool) (axes : List Axis) : Bool :=
  let minOK := axes.all fun a => a.loB == a.lo      -- `np.all(min_bounded == min_indices)`
  let maxOK := axes.all fun a => a.hiB == a.hi      -- `np.all(max_bounded == max_indices)`
  match v with
  | .coded => !(constrain || minOK || maxOK)
  | .repaired => !(constrain || (minOK && maxOK))

/-- the index decisions of `Image.crop`: either an error or the per-axis bounds actually used -/
def cropBounds (v : Variant) (shape : List Nat) (mn mx : List Rat) (constrain : Bool) :
    Except Err (List Axis) :=
  if ¬(mn.length = shape.length ∧ mx.length = shape.length) then .error .value
  else
    let axes := mkAxes shape mn mx
    if !(axes.all fun a => decide (a.hi > a.lo)) then .error .value
    else if raises v constrain axes then .error .boundary
    else .ok axes

/-- order-0 `map_coordinates`, `mode='constant'`: the index sampled, `none` = outside (fill) -/
def nearestIdxC : List Nat → List Rat → Option (List Nat)
  | [], [] => some []
  | n :: s, c :: p =>
    if c < 0 ∨ (((n : Int) - 1 : Int) : Rat) < c then none
    else (nearestIdxC s p).map ((c + 1/2).floor.toNat :: ·)
  | _, _ => none

/-- `map_coordinates(pixels[ch], pt, order=0, mode='constant', cval=cval)` -/
def sample0c {α : Type} (pix : NDArr α) (ch : Nat) (pt : List Rat) (cval : α) : α :=
  match nearestIdxC pix.shape.tail pt with
  | none => cval
  | some idx => pix.getD (ch :: idx) cval

/-- the point `Translation(min_bounded).apply` sends template index `p` to -/
def shiftPt : List Nat → List Axis → List Rat
  | i :: p, a :: as => ((((i : Int) + a.loB : Int)) : Rat) :: shiftPt p as
  | _, _ => []

/-- pixels of `warp_to_shape(new_shape, Translation(min_bounded), order=0)`:
index grid → translate → sample each channel (constant mode, fill `zero`) → reshape `(C,) + new_shape` -/
def cropPixels {α : Type} (pix : NDArr α) (axes : List Axis) (zero : α) : NDArr α :=
  ofFn (pix.shape.headD 0 :: axes.map Axis.len) fun idx =>
    match idx with
    | c :: p => sample0c pix c (shiftPt p axes) zero
    | [] => zero

/-- landmarks: `Translation(min_bounded).pseudoinverse()` applied to every point -/
def cropLandmarks (axes : List Axis) (lms : List (List Rat)) : List (List Rat) :=
  lms.map fun pt => List.zipWith (fun x (a : Axis) => x - (a.loB : Rat)) pt axes

/-- `Image.crop` on pixels with shape `C :: spatial` -/
def crop {α : Type} (v : Variant) (pix : NDArr α) (mn mx : List Rat) (constrain : Bool) (zero : α)
    (lms : List (List Rat)) : Except Err (NDArr α × List (List Rat)) :=
  match cropBounds v pix.shape.tail mn mx constrain with
  | .error e => .error e
  | .ok axes => .ok (cropPixels pix axes zero, cropLandmarks axes lms)

/-! ### patches.py -/

/-- `np.round` (half to even) followed by `.astype(int)` -/
def roundHalfEven (x : Rat) : Int :=
  let f := x.floor
  let d := x - (f : Rat)
  if d < 1/2 then f else if 1/2 < d then f + 1 else if f % 2 = 0 then f else f + 1

/-- python `int(x)` on a float: truncation toward zero -/
def truncZ (x : Rat) : Int := if 0 ≤ x then x.floor else x.ceil

/-- the pixel `set_patches` centres a patch on: `int(p)` as coded; `np.round(p)` (what extraction
does) in the repaired variant of notes/fixes/C13-set-patches-rounding.diff -/
def placeZ (v : Variant) (x : Rat) : Int :=
  match v with
  | .coded => truncZ x
  | .repaired => roundHalfEven x

/-- `(patch_shape % 2) / 2` -/
def halfPixel (ph : Nat) : Rat := ((ph % 2 : Nat) : Rat) / 2
/-- `patch_shape / 2` -/
def halfExt (ph : Nat) : Rat := (ph : Rat) / 2

/-- `np.clip(x, 0, n)` -/
def clip0 (n : Nat) (x : Int) : Int := if x < 0 then 0 else if (n : Int) < x then (n : Int) else x

/-- python `slice(start, stop)` normalised on an axis of length `len` -/
def pySliceN (len : Nat) (start stop : Int) : Nat × Nat :=
  ((adjBound len false start).toNat, (adjBound len false stop).toNat)

/-- one axis of `patches[…, t0:t1] = pixels[…, p0:p1]` -/
structure SlicePlan where
  s0 : Nat
  s1 : Nat
  p0 : Nat
  p1 : Nat
deriving Repr, DecidableEq

def SlicePlan.tlen (p : SlicePlan) : Nat := p.s1 - p.s0
def SlicePlan.slen (p : SlicePlan) : Nat := p.p1 - p.p0
/-- numpy assignment broadcasting: the source extent equals the target extent or is 1 -/
def SlicePlan.ok (p : SlicePlan) : Bool := p.slen == p.tlen || p.slen == 1
def SlicePlan.covers (p : SlicePlan) (r : Nat) : Bool := decide (p.s0 ≤ r) && decide (r < p.s1)
def SlicePlan.src (p : SlicePlan) (r : Nat) : Nat := if p.slen == 1 then p.p0 else p.p0 + (r - p.s0)

/-- the slice arithmetic of `extract_patches_with_slice` on one axis:
`pixel_bounds = clip(bounds, 0, n)`, `patch_bounds = pixel_bounds - bounds`,
`pix_slice = slice(pb[0], pb[1])`, `patch_slice = slice(patch_b[0], ph + patch_b[1])` -/
def axisPlan (n ph : Nat) (lo hi : Int) : SlicePlan :=
  let pb0 := clip0 n lo
  let pb1 := clip0 n hi
  let t := pySliceN ph (pb0 - lo) ((ph : Int) + (pb1 - hi))
  let s := pySliceN n pb0 pb1
  ⟨t.1, t.2, s.1, s.2⟩

abbrev Pt := Rat × Rat

/-- `bounds[i, j, :, axis]` of `extract_patches_with_slice` as the ORIGINAL tree computed them: both corners rounded
(half to even).  At a rounding tie with an odd extent the two are `ph ± 1` apart and the slice assignment cannot
broadcast (refuted by witness in Lemmas/C13Base.lean: `sliceBoundsCoded_tie`); kept for that refutation only. -/
def sliceBoundsCoded (ph : Nat) (ctr off : Rat) : Int × Int :=
  let c := ctr + halfPixel ph
  (roundHalfEven (c + off + -halfExt ph), roundHalfEven (c + off + halfExt ph))

/-- `bounds[i, j, :, axis]` of `extract_patches_with_slice` (notes/fixes/C13-slice-rounding-tie.diff): the low corner
is rounded, the high corner is the low corner plus the patch extent
(`bounds[:, :, 1, :] = bounds[:, :, 0, :] + patch_shape`) -/
def sliceBounds (ph : Nat) (ctr off : Rat) : Int × Int :=
  let c := ctr + halfPixel ph
  (roundHalfEven (c + off + -halfExt ph), roundHalfEven (c + off + -halfExt ph) + (ph : Int))

def slicePlans (H W ph pw : Nat) (ctr off : Pt) : SlicePlan × SlicePlan :=
  let br := sliceBounds ph ctr.1 off.1
  let bc := sliceBounds pw ctr.2 off.2
  (axisPlan H ph br.1 br.2, axisPlan W pw bc.1 bc.2)

def getPt (l : List Pt) (i : Nat) : Pt := l.getD i (0, 0)

/-- every `(i, j)` iteration's assignment `patches[i, j, :, rs, cs] = pixels[:, prs, pcs]` broadcasts -/
def plansOK (plan : Nat → Nat → SlicePlan × SlicePlan) : List Nat → Bool
  | [i, j] => (plan i j).1.ok && (plan i j).2.ok
  | _ => true

/-- element `[i, j, c, r, q]` of the patch array after the loop: written by iteration `(i, j)` if
covered by its target slice, otherwise still the `np.full` fill value -/
def sliceElem {α : Type} (pix : NDArr α) (plan : Nat → Nat → SlicePlan × SlicePlan) (cval : α) : List Nat → α
  | [i, j, c, r, q] =>
    if (plan i j).1.covers r && (plan i j).2.covers q then
      pix.getD [c, (plan i j).1.src r, (plan i j).2.src q] cval
    else cval
  | _ => cval

/-- `extract_patches_with_slice(pixels, centres, (ph, pw), offsets, cval)`.  The iterations of the
double loop write disjoint blocks `patches[i, j]`, so the result is given element-wise. -/
def extractSlice {α : Type} (pix : NDArr α) (centres : List Pt) (ph pw : Nat)
    (offsets : Option (List Pt)) (cval : α) : Except Err (NDArr α) :=
  match pix.shape with
  | [C, H, W] =>
    let offs := offsets.getD [(0, 0)]
    let n := centres.length
    let k := offs.length
    let plan := fun (i j : Nat) => slicePlans H W ph pw (getPt centres i) (getPt offs j)
    if (indices [n, k]).all (plansOK plan) then .ok (ofFn [n, k, C, ph, pw] (sliceElem pix plan cval))
    else .error .value
  | _ => .error .value

/-- `_centered_patch`: coordinate `a` of the centred sampling grid along an axis of extent `ph`
(`linspace(-ph/2, ph/2, ph, endpoint=False)[a] + (ph % 2)/2`) -/
def gridCoord (ph a : Nat) : Rat := -halfExt ph + (a : Rat) + halfPixel ph

/-- the location sampled for patch pixel `(a, b)` of centre `ctr`, offset `off` -/
def samplePt (ph pw : Nat) (ctr off : Pt) (a b : Nat) : Pt :=
  (gridCoord ph a + ctr.1 + off.1, gridCoord pw b + ctr.2 + off.2)

/-- the sampling location addressed by index `[a, b, i, j]` of the broadcast `(ph, pw, n, k)` grid -/
def samplePtAt (ph pw : Nat) (centres offs : List Pt) : List Nat → Pt
  | [a, b, i, j] => samplePt ph pw (getPt centres i) (getPt offs j) a b
  | _ => (0, 0)

/-- `extract_patches_by_sampling`; `sample c pt` stands for `map_coordinates(pixels[c], pt, …)`.
`points_to_sample` is the C-order flattening of the broadcast `(ph*pw, n, k, 2)` array, the
sampled `(C, N)` array is reshaped to `(LIT, ph, pw, n, k)` and transposed by `[3, 4, 0, 1, 2]`;
`LIT` is the literal `3` in the coded variant and the channel count in the repaired one. -/
def extractSampling {α : Type} (v : Variant) (sample : Nat → Pt → α) (C ph pw : Nat)
    (centres : List Pt) (offsets : Option (List Pt)) (dflt : α) : Except Err (NDArr α) :=
  let offs := offsets.getD [(0, 0)]
  let n := centres.length
  let k := offs.length
  let pts : List Pt := (indices [ph, pw, n, k]).map (samplePtAt ph pw centres offs)
  let sampled : NDArr α := ⟨[C, pts.length], (List.range C).flatMap fun c => pts.map (sample c)⟩
  let lit := match v with
    | .coded => 3
    | .repaired => C
  match reshape sampled [lit, ph, pw, n, k] with
  | none => .error .value
  | some flat => .ok (ofFn [n, k, lit, ph, pw] fun idx => match idx with
      | [i, j, c, r, q] => flat.getD [c, r, q, i, j] dflt
      | _ => dflt)

/-- `extract_patches_by_sampling(pixels, …, order=0, mode='constant', cval)` on a 2-D image -/
def extractSampling0c {α : Type} (v : Variant) (pix : NDArr α) (centres : List Pt) (ph pw : Nat)
    (offsets : Option (List Pt)) (cval : α) : Except Err (NDArr α) :=
  match pix.shape with
  | [C, _, _] => extractSampling v (fun c pt => sample0c pix c [pt.1, pt.2] cval) C ph pw centres offsets cval
  | _ => .error .value

/-- element `[c, r, q]` of the pixel array after `pixels[:, r0:r1, c0:c1] = patch` (numpy broadcasting
of an extent-1 axis included) -/
def setElem {α : Type} (patches cur : NDArr α) (i oi C' ph pw : Nat) (rs cs : Nat × Nat) (dflt : α) : List Nat → α
  | [c, r, q] =>
    if decide (rs.1 ≤ r) && decide (r < rs.2) && decide (cs.1 ≤ q) && decide (q < cs.2) then
      patches.getD [i, oi, if C' == 1 then 0 else c, if ph == 1 then 0 else r - rs.1,
                    if pw == 1 then 0 else q - cs.1] dflt
    else cur.getD [c, r, q] dflt
  | _ => dflt

/-- one iteration of the loop of `set_patches`: write patch `i` around `ctr` -/
def setOne {α : Type} (v : Variant) (patches : NDArr α) (cur : NDArr α) (i : Nat) (ctr : Pt) (offset : Int × Int)
    (oi : Nat) (dflt : α) : Except Err (NDArr α) :=
  match patches.shape, cur.shape with
  | [_, k, C', ph, pw], [C, H, W] =>
    if k ≤ oi then .error .index else
    let lr := ph / 2
    let lc := pw / 2
    let hr := lr + ph % 2
    let hc := lc + pw % 2
    let pr := placeZ v (ctr.1 + (offset.1 : Rat))
    let pc := placeZ v (ctr.2 + (offset.2 : Rat))
    let rs := pySliceN H (pr - (lr : Int)) (pr + (hr : Int))
    let cs := pySliceN W (pc - (lc : Int)) (pc + (hc : Int))
    let okC := C' == C || C' == 1
    let okR := ph == rs.2 - rs.1 || ph == 1
    let okQ := pw == cs.2 - cs.1 || pw == 1
    if okC && okR && okQ then .ok (ofFn [C, H, W] (setElem patches cur i oi C' ph pw rs cs dflt))
    else .error .value
  | _, _ => .error .value

def setLoop {α : Type} (v : Variant) (patches : NDArr α) (offset : Int × Int) (oi : Nat) (dflt : α) :
    List (Nat × Pt) → NDArr α → Except Err (NDArr α)
  | [], cur => .ok cur
  | (i, ctr) :: rest, cur =>
    match setOne v patches cur i ctr offset oi dflt with
    | .error e => .error e
    | .ok nxt => setLoop v patches offset oi dflt rest nxt

/-- `set_patches(patches, pixels, centres, offset, offset_index)` (returns the new pixel array) -/
def setPatches {α : Type} (v : Variant) (patches pix : NDArr α) (centres : List Pt) (offset : Int × Int) (oi : Nat)
    (dflt : α) : Except Err (NDArr α) :=
  match patches.shape, pix.shape with
  | [n, _, _, _, _], [_, _, _] =>
    setLoop v patches offset oi dflt ((List.range n).zip centres) pix
  | _, _ => .error .value

/-! ### concrete samplers (library behaviour of `scipy.ndimage.map_coordinates`, used by the driver) -/

inductive Mode | constant | nearest
deriving Repr, DecidableEq

def clampRat (n : Nat) (c : Rat) : Rat :=
  if c < 0 then 0 else if (((n : Int) - 1 : Int) : Rat) < c then (((n : Int) - 1 : Int) : Rat) else c

/-- multilinear corner list `(index, weight)` of order-1 interpolation, `none` = fill -/
def corners1 (m : Mode) : List Nat → List Rat → Option (List (List Nat × Rat))
  | [], [] => some [([], 1)]
  | n :: s, c :: p =>
    let c' := match m with
      | .constant => c
      | .nearest => clampRat n c
    if c' < 0 ∨ (((n : Int) - 1 : Int) : Rat) < c' then none
    else match corners1 m s p with
      | none => none
      | some rest =>
        let i0 := c'.floor.toNat
        let w := c' - (c'.floor : Rat)
        some (rest.flatMap fun iw =>
          (i0 :: iw.1, iw.2 * (1 - w)) :: (if w = 0 then [] else [((i0 + 1) :: iw.1, iw.2 * w)]))
  | _, _ => none

/-- `map_coordinates(pixels[ch], pt, order, mode, cval)` for order ∈ {0, 1}, on rational pixels -/
def sampleRat (order : Nat) (m : Mode) (pix : NDArr Rat) (ch : Nat) (pt : List Rat) (cval : Rat) : Rat :=
  if order = 0 then
    match m with
    | .constant => sample0c pix ch pt cval
    | .nearest => sample0c pix ch (List.zipWith clampRat pix.shape.tail pt) cval
  else
    match corners1 m pix.shape.tail pt with
    | none => cval
    | some cs => cs.foldl (fun acc iw => acc + iw.2 * pix.getD (ch :: iw.1) 0) 0

end MenpoModel.C13
