/-
State-machine model of `menpo.landmark.base.LandmarkManager` and the `Landmarkable.landmarks`
setter (C06).  Core Lean only.

A world is a store of shape objects (address ↦ shape value) plus the things that refer into it:
landmark managers (insertion-ordered `group name ↦ address of the stored shape`, the
`OrderedDict _landmark_groups`), landmarkable owners (an `n_dims` and the manager they hold) and
the shapes the *caller* holds (`exts`).  A shape is abstracted to `(class, n_dims, data)`; in-place
edits (`pc.points[...] += δ`, `_transform_inplace` with a translation) add `δ` to the data.

`value.copy()` of a shape is "allocate a cell with an equal value": that a shape's copy is equal
and shares nothing is the first half of C06 (`Props/C06.lean`, heap model).

Transcribed branch for branch from `menpo/landmark/base.py`:
`__setitem__` (None key → ValueError; `value.n_dims` read only when the manager is non-empty;
dimension check before the `isinstance(value, PointCloud)` check; then `value.copy()`),
`__getitem__` (None resolves only when there is exactly one group), `__delitem__`, `copy`,
`n_dims` (first group's), `Landmarkable.landmarks.setter` (dimension check, then `value.copy()`),
`_transform_inplace` (every group in place).
-/

namespace MenpoModel.C06.LM

structure Shape where
  cls : Nat
  dim : Nat
  data : List Int
deriving DecidableEq, Repr, Inhabited

/-- insertion-ordered groups: name id ↦ address of the owned shape -/
abbrev Mgr := List (Nat × Nat)

structure Owner where
  dim : Nat
  mgr : Nat
deriving DecidableEq, Repr, Inhabited

structure World where
  store : List Shape
  mgrs : List Mgr
  owners : List Owner
  exts : List Nat
deriving Repr, Inhabited

def World.empty : World := ⟨[], [], [], []⟩

inductive Err where
  | noneKey     -- ValueError: cannot set using the key None
  | dim         -- ValueError: dimensionality mismatch
  | notPC       -- ValueError: not a PointCloud subclass
  | attr        -- AttributeError: the value has no n_dims
  | ambiguous   -- ValueError: None key with ≠ 1 groups
  | missing     -- KeyError
  | bad         -- the request names a manager / owner / shape that does not exist (harness error)
deriving DecidableEq, Repr

/-- what is offered to `__setitem__` -/
inductive Arg where
  | ext (i : Nat)     -- the caller's i-th shape (a PointCloud subclass instance)
  | img (d : Nat)     -- not a PointCloud, but has `n_dims = d` (an Image)
  | raw               -- not a PointCloud, no `n_dims` (an ndarray)
deriving DecidableEq, Repr

/-- a way to name a manager -/
inductive MRef where
  | mgr (i : Nat)       -- a manager the caller holds
  | owner (o : Nat)     -- `owner.landmarks`
deriving DecidableEq, Repr

def World.resolve (w : World) : MRef → Option Nat
  | .mgr i => if i < w.mgrs.length then some i else none
  | .owner o => match w.owners[o]? with
    | some ow => if ow.mgr < w.mgrs.length then some ow.mgr else none
    | none => none

def Mgr.keys (m : Mgr) : List Nat := m.map (·.1)
def Mgr.addrs (m : Mgr) : List Nat := m.map (·.2)

/-- `LandmarkManager.n_dims`: the first group's, `None` when empty -/
def Mgr.nDims (st : List Shape) : Mgr → Option Nat
  | [] => none
  | (_, a) :: _ => (st[a]?).map (·.dim)

/-- `OrderedDict.__setitem__`: an existing key keeps its position -/
def Mgr.setKey (m : Mgr) (k a : Nat) : Mgr :=
  if m.any (·.1 == k) then m.map (fun p => if p.1 == k then (k, a) else p) else m ++ [(k, a)]

def Mgr.delKey (m : Mgr) (k : Nat) : Mgr := m.filter (·.1 != k)

/-- `lm[key] = value` on manager index `mi` -/
def setItem (w : World) (mi : Nat) (key : Option Nat) (arg : Arg) : Except Err World :=
  match w.mgrs[mi]? with
  | none => .error .bad
  | some m =>
    match key with
    | none => .error .noneKey
    | some k =>
      let nd := m.nDims w.store
      match arg with
      | .raw => match nd with
        | some _ => .error .attr
        | none => .error .notPC
      | .img d => match nd with
        | some n => if d ≠ n then .error .dim else .error .notPC
        | none => .error .notPC
      | .ext i =>
        match w.exts[i]? with
        | none => .error .bad
        | some a =>
          match w.store[a]? with
          | none => .error .bad
          | some s =>
            let stored : World :=
              { w with store := w.store ++ [s], mgrs := w.mgrs.set mi (m.setKey k w.store.length) }
            match nd with
            | some n => if s.dim ≠ n then .error .dim else .ok stored
            | none => .ok stored

/-- `lm[key]`: the address of the stored shape (the object itself, not a copy) -/
def getItem (w : World) (mi : Nat) (key : Option Nat) : Except Err Nat :=
  match w.mgrs[mi]? with
  | none => .error .bad
  | some m =>
    match key with
    | none => match m with
      | [(_, a)] => .ok a
      | _ => .error .ambiguous
    | some k => match m.lookup k with
      | some a => .ok a
      | none => .error .missing

/-- `del lm[key]` -/
def delItem (w : World) (mi : Nat) (key : Option Nat) : Except Err World :=
  match w.mgrs[mi]? with
  | none => .error .bad
  | some m =>
    match key with
    | none => .error .missing
    | some k =>
      if m.any (·.1 == k) then .ok { w with mgrs := w.mgrs.set mi (m.delKey k) } else .error .missing

/-- the loop of `LandmarkManager.copy`: every group is copied into a new cell -/
def copyGroups : List Shape → Mgr → List Shape × Mgr
  | st, [] => (st, [])
  | st, (k, a) :: t =>
    let r := copyGroups (st ++ [(st[a]?).getD default]) t
    (r.1, (k, st.length) :: r.2)

/-- `lm.copy()`: the new manager is appended; returns its index -/
def copyMgr (w : World) (mi : Nat) : Except Err (World × Nat) :=
  match w.mgrs[mi]? with
  | none => .error .bad
  | some m =>
    let r := copyGroups w.store m
    .ok ({ w with store := r.1, mgrs := w.mgrs ++ [r.2] }, w.mgrs.length)

/-- `owner.landmarks = lm` -/
def assign (w : World) (o mi : Nat) : Except Err World :=
  match w.owners[o]?, w.mgrs[mi]? with
  | some ow, some m =>
    match m.nDims w.store with
    | some n =>
      if n ≠ ow.dim then .error .dim else
        match copyMgr w mi with
        | .ok (w1, j) => .ok { w1 with owners := w1.owners.set o { ow with mgr := j } }
        | .error e => .error e
    | none =>
      match copyMgr w mi with
      | .ok (w1, j) => .ok { w1 with owners := w1.owners.set o { ow with mgr := j } }
      | .error e => .error e
  | _, _ => .error .bad

/-- `owner.copy()`: a new owner holding a copy of the manager -/
def copyOwner (w : World) (o : Nat) : Except Err World :=
  match w.owners[o]? with
  | none => .error .bad
  | some ow =>
    match copyMgr w ow.mgr with
    | .ok (w1, j) => .ok { w1 with owners := w1.owners ++ [{ ow with mgr := j }] }
    | .error e => .error e

def Shape.shift (s : Shape) (δ : Int) : Shape := { s with data := s.data.map (· + δ) }

/-- an in-place edit of the shape at address `a` -/
def mutateAt (w : World) (a : Nat) (δ : Int) : World :=
  match w.store[a]? with
  | some s => { w with store := w.store.set a (s.shift δ) }
  | none => w

/-- the caller edits its own i-th shape in place -/
def mutateExt (w : World) (i : Nat) (δ : Int) : Except Err World :=
  match w.exts[i]? with
  | some a => .ok (mutateAt w a δ)
  | none => .error .bad

/-- `lm[key].points[...] += δ` -/
def mutateGot (w : World) (mi : Nat) (key : Option Nat) (δ : Int) : Except Err World :=
  match getItem w mi key with
  | .ok a => .ok (mutateAt w a δ)
  | .error e => .error e

/-- `lm._transform_inplace(translation δ)`: every group, in place -/
def xformMgr (w : World) (mi : Nat) (δ : Int) : Except Err World :=
  match w.mgrs[mi]? with
  | none => .error .bad
  | some m => .ok (m.addrs.foldl (fun w a => mutateAt w a δ) w)

/-- `list(lm.items_matching(glob))`: `for k, v in self.items(): if fnmatch(k, glob): yield k, v`.
`sel` is the set of names `fnmatch` accepts for the glob (library code: a parameter) -/
def itemsMatching (w : World) (mi : Nat) (sel : List Nat) : List (Nat × Shape) :=
  (((w.mgrs[mi]?).getD []).filter fun p => sel.contains p.1).map fun p => (p.1, (w.store[p.2]?).getD default)

/-- `lm.n_groups` / `len(lm)` -/
def nGroups (w : World) (mi : Nat) : Nat := ((w.mgrs[mi]?).getD []).length
/-- `lm.has_landmarks` -/
def hasLandmarks (w : World) (mi : Nat) : Bool := nGroups w mi != 0
/-- `lm.n_dims` -/
def mgrNDims (w : World) (mi : Nat) : Option Nat := ((w.mgrs[mi]?).getD []).nDims w.store

def newMgr (w : World) : World := { w with mgrs := w.mgrs ++ [[]] }
def newOwner (w : World) (dim : Nat) : World :=
  { w with mgrs := w.mgrs ++ [[]], owners := w.owners ++ [⟨dim, w.mgrs.length⟩] }
def newExt (w : World) (s : Shape) : World :=
  { w with store := w.store ++ [s], exts := w.exts ++ [w.store.length] }

/-! ### operations of a history -/

inductive Op where
  | newMgr
  | newOwner (dim : Nat)
  | newExt (s : Shape)
  | set (r : MRef) (key : Option Nat) (arg : Arg)
  | get (r : MRef) (key : Option Nat)
  | del (r : MRef) (key : Option Nat)
  | keys (r : MRef)
  | copy (r : MRef)
  | assign (o : Nat) (r : MRef)
  | copyOwner (o : Nat)
  | mutExt (i : Nat) (δ : Int)
  | mutGot (r : MRef) (key : Option Nat) (δ : Int)
  | xform (r : MRef) (δ : Int)
  | items (r : MRef) (sel : List Nat)
  | count (r : MRef)
deriving Repr

inductive Reply where
  | ok
  | err (e : Err)
  | shape (s : Shape)
  | keys (ks : List Nat)
  | idx (i : Nat)
  | items (l : List (Nat × Shape))
  | count (n : Nat) (has : Bool) (nd : Option Nat)
deriving DecidableEq, Repr

def withRef (w : World) (r : MRef) (f : Nat → World × Reply) : World × Reply :=
  match w.resolve r with
  | some mi => f mi
  | none => (w, .err .bad)

def liftW (w : World) : Except Err World → World × Reply
  | .ok w' => (w', .ok)
  | .error e => (w, .err e)

/-- one step of a history; a refused operation leaves the world as it was -/
def step (w : World) : Op → World × Reply
  | .newMgr => (newMgr w, .idx w.mgrs.length)
  | .newOwner d => (newOwner w d, .idx w.owners.length)
  | .newExt s => (newExt w s, .idx w.exts.length)
  | .set r key arg => withRef w r fun mi => liftW w (setItem w mi key arg)
  | .get r key => withRef w r fun mi =>
      match getItem w mi key with
      | .ok a => (w, match w.store[a]? with | some s => .shape s | none => .err .bad)
      | .error e => (w, .err e)
  | .del r key => withRef w r fun mi => liftW w (delItem w mi key)
  | .keys r => withRef w r fun mi => (w, .keys ((w.mgrs[mi]?).getD []).keys)
  | .copy r => withRef w r fun mi =>
      match copyMgr w mi with
      | .ok (w', j) => (w', .idx j)
      | .error e => (w, .err e)
  | .assign o r => withRef w r fun mi => liftW w (assign w o mi)
  | .copyOwner o => match copyOwner w o with
      | .ok w' => (w', .idx w.owners.length)
      | .error e => (w, .err e)
  | .mutExt i δ => liftW w (mutateExt w i δ)
  | .mutGot r key δ => withRef w r fun mi => liftW w (mutateGot w mi key δ)
  | .xform r δ => withRef w r fun mi => liftW w (xformMgr w mi δ)
  | .items r sel => withRef w r fun mi => (w, .items (itemsMatching w mi sel))
  | .count r => withRef w r fun mi => (w, .count (nGroups w mi) (hasLandmarks w mi) (mgrNDims w mi))

def run (w : World) (ops : List Op) : World := ops.foldl (fun w op => (step w op).1) w

/-! ### abstract state: an ordered map from group names to shape *values* -/

abbrev OMap := List (Nat × Shape)

def absMgr (st : List Shape) (m : Mgr) : OMap := m.map fun p => (p.1, (st[p.2]?).getD default)

def absM (w : World) (mi : Nat) : OMap := absMgr w.store ((w.mgrs[mi]?).getD [])

def absExt (w : World) (i : Nat) : Option Shape := (w.exts[i]?).bind (w.store[·]?)

/-- the ordered-map specification (Python `OrderedDict` re-set semantics) -/
def OMap.set (l : OMap) (k : Nat) (s : Shape) : OMap :=
  if l.any (·.1 == k) then l.map (fun p => if p.1 == k then (k, s) else p) else l ++ [(k, s)]

def OMap.del (l : OMap) (k : Nat) : OMap := l.filter (·.1 != k)

end MenpoModel.C06.LM
