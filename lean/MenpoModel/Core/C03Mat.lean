/-
C03 — exact homogeneous matrices for the composition model (core Lean only, no Mathlib).

`Mat n` wraps a function `Fin n → Fin n → Rat` (`Lemmas/C03Mat.lean` reads it as Mathlib's
`Matrix (Fin n) (Fin n) ℚ` and transfers the algebra), generic in the dimension.  It is a structure
rather than a bare function type so that compiled code can hold a *materialised* matrix (see
`Mat.freeze`): a bare function-valued definition is eta-expanded by the compiler and would
recompute every product entry by entry, exponentially in the length of a program.
A `d`-dimensional homogeneous transform is a `Mat (d+1)`.

* `Mat.mul`            `np.dot(A, B)`
* `affApply`           `Affine._apply`      : `x·Lᵀ + t`, the bottom row is *ignored*
* `projApply`          `Homogeneous._apply` : homogenise, multiply, divide by the last coordinate
                       (`none` when that coordinate is 0, where numpy produces inf/nan)
* `mkAffine L t`       the matrix `[[L, t], [0, 1]]` the constructors of `Rotation`, `Translation`,
                       `UniformScale`, `NonUniformScale` build from their parameters
-/

namespace MenpoModel.C03

structure Mat (n : Nat) where
  get : Fin n → Fin n → Rat

structure Vec (n : Nat) where
  get : Fin n → Rat

instance {n : Nat} : CoeFun (Mat n) (fun _ => Fin n → Fin n → Rat) := ⟨Mat.get⟩
instance {n : Nat} : CoeFun (Vec n) (fun _ => Fin n → Rat) := ⟨Vec.get⟩

theorem Mat.ext {n : Nat} {A B : Mat n} (h : ∀ i j, A i j = B i j) : A = B := by
  cases A; cases B; congr; funext i j; exact h i j

theorem Vec.ext {n : Nat} {x y : Vec n} (h : ∀ i, x i = y i) : x = y := by
  cases x; cases y; congr; funext i; exact h i

/-- `∑ i, f i` over `Fin n` (core-only spelling; `Lemmas/C03Mat` shows it is `Finset.sum univ`) -/
def sumFin {n : Nat} (f : Fin n → Rat) : Rat := ((List.finRange n).map f).sum

/-- identity function on matrices that materialises the entries once (so that products of products
    are not recomputed entry by entry when the model is executed) -/
def Mat.freeze {n : Nat} (M : Mat n) : Mat n :=
  let v := Vector.ofFn fun i => Vector.ofFn fun j => M i j
  ⟨fun i j => v[i][j]⟩

theorem Mat.freeze_eq {n : Nat} (M : Mat n) : M.freeze = M := by
  cases M; simp [Mat.freeze]

def Vec.freeze {n : Nat} (x : Vec n) : Vec n :=
  let v := Vector.ofFn fun i => x i
  ⟨fun i => v[i]⟩

theorem Vec.freeze_eq {n : Nat} (x : Vec n) : x.freeze = x := by
  cases x; simp [Vec.freeze]

def Mat.one (n : Nat) : Mat n := ⟨fun i j => if i = j then 1 else 0⟩

/-- `np.dot(A, B)` -/
def Mat.mul {n : Nat} (A B : Mat n) : Mat n :=
  Mat.freeze ⟨fun i j => sumFin fun k => A i k * B k j⟩

def Mat.mulVec {n : Nat} (A : Mat n) (v : Vec n) : Vec n :=
  Vec.freeze ⟨fun i => sumFin fun k => A i k * v k⟩

def Mat.toLists {n : Nat} (M : Mat n) : List (List Rat) :=
  (List.finRange n).map fun i => (List.finRange n).map fun j => M i j

def Vec.toList {n : Nat} (x : Vec n) : List Rat := (List.finRange n).map fun i => x i

/-- row-major entries → matrix (entries beyond the list are 0) -/
def Mat.ofList (n : Nat) (l : List Rat) : Mat n :=
  let a := l.toArray
  ⟨fun i j => a.getD (i.val * n + j.val) 0⟩

def Vec.ofList (n : Nat) (l : List Rat) : Vec n :=
  let a := l.toArray
  ⟨fun i => a.getD i.val 0⟩

/-! ### the blocks of a homogeneous matrix -/

variable {d : Nat}

/-- `Affine.linear_component` : `h_matrix[:-1, :-1]` -/
def lin (M : Mat (d + 1)) : Mat d := ⟨fun i j => M i.castSucc j.castSucc⟩
/-- `Affine.translation_component` : `h_matrix[:-1, -1]` -/
def trans (M : Mat (d + 1)) : Vec d := ⟨fun i => M i.castSucc (Fin.last d)⟩
/-- the bottom row `h_matrix[-1, :]` -/
def bottom (M : Mat (d + 1)) : Vec (d + 1) := ⟨fun j => M (Fin.last d) j⟩

/-- `[[L, t], [0 … 0, 1]]` -/
def mkAffine (L : Mat d) (t : Vec d) : Mat (d + 1) := ⟨fun i j =>
  if hi : i.val < d then
    if hj : j.val < d then L ⟨i.val, hi⟩ ⟨j.val, hj⟩ else t ⟨i.val, hi⟩
  else
    if j.val < d then 0 else 1⟩

/-- `(x, 1)` -/
def homog (x : Vec d) : Vec (d + 1) := ⟨fun j => if hj : j.val < d then x ⟨j.val, hj⟩ else 1⟩

/-- `Affine._apply` : `np.dot(x, linear_component.T) + translation_component` -/
def affApply (M : Mat (d + 1)) (x : Vec d) : Vec d :=
  Vec.freeze ⟨fun i => (sumFin fun k => M i.castSucc k.castSucc * x k) + M i.castSucc (Fin.last d)⟩

/-- `Homogeneous._apply` : `h_y = h_x · Mᵀ ; (h_y / h_y[:, -1])[:, :-1]` -/
def projApply (M : Mat (d + 1)) (x : Vec d) : Option (Vec d) :=
  let y := M.mulVec (homog x)
  let w := y (Fin.last d)
  if w = 0 then none else some (Vec.freeze ⟨fun i => y i.castSucc / w⟩)

/-- the diagonal matrix of `np.fill_diagonal(eye, s)` restricted to the linear block -/
def diagMat (s : Vec d) : Mat d := ⟨fun i j => if i = j then s i else 0⟩

/-- `s · 1` -/
def scalarMat (d : Nat) (s : Rat) : Mat d := ⟨fun i j => if i = j then s else 0⟩

def zeroVec (d : Nat) : Vec d := ⟨fun _ => 0⟩

end MenpoModel.C03
