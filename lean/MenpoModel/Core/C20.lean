/-
C20 — convenience transform constructors (rotation.py, scale.py `Scale`, compositions.py, tcoords.py).
Executable model over core `Rat`; angles enter as a point `(c, s)` on the unit circle (`c = cos θ`,
`s = sin θ`: contract parameters, DESIGN §3.3).  Core Lean only.
-/

namespace MenpoModel.C20

/-! ### 2-D affine maps  `x' = a x + b y + tx,  y' = c x + d y + ty` (menpo's h_matrix rows) -/

@[ext] structure V2 where
  x : Rat
  y : Rat
deriving Repr, DecidableEq

@[ext] structure Aff2 where
  a : Rat
  b : Rat
  tx : Rat
  c : Rat
  d : Rat
  ty : Rat
deriving Repr, DecidableEq

def Aff2.apply (m : Aff2) (p : V2) : V2 := ⟨m.a * p.x + m.b * p.y + m.tx, m.c * p.x + m.d * p.y + m.ty⟩
/-- `g.comp f` = first `f` then `g` (h_matrix product `G·F`) -/
def Aff2.comp (g f : Aff2) : Aff2 :=
  ⟨g.a * f.a + g.b * f.c, g.a * f.b + g.b * f.d, g.a * f.tx + g.b * f.ty + g.tx,
   g.c * f.a + g.d * f.c, g.c * f.b + g.d * f.d, g.c * f.tx + g.d * f.ty + g.ty⟩
def Aff2.det (m : Aff2) : Rat := m.a * m.d - m.b * m.c
def transl2 (t : V2) : Aff2 := ⟨1, 0, t.x, 0, 1, t.y⟩
def V2.neg (p : V2) : V2 := ⟨-p.x, -p.y⟩
def V2.add (p q : V2) : V2 := ⟨p.x + q.x, p.y + q.y⟩

/-- `Rotation.init_from_2d_ccw_angle(θ)` with `c = cos θ`, `s = sin θ` -/
def rot2 (c s : Rat) : Aff2 := ⟨c, -s, 0, s, c, 0⟩
def uscale2 (k : Rat) : Aff2 := ⟨k, 0, 0, 0, k, 0⟩
/-- `Affine.init_from_2d_shear(φ, ψ)` with `tp = tan φ`, `ts = tan ψ` -/
def shear2 (tp ts : Rat) : Aff2 := ⟨1, tp, 0, ts, 1, 0⟩

/-- `transform_about_centre`: `to_origin.compose_before(t).compose_before(back_to_centre)` -/
def aboutCentre2 (ctr : V2) (t : Aff2) : Aff2 := (transl2 ctr).comp (t.comp (transl2 ctr.neg))

/-- `_axis_and_angle_of_rotation_2d` as coded: `angle = arccos((R e₀)·e₀)`, i.e. the reported angle
has cosine `c` and a non-negative sine: the model returns `(cos, sin)` of the reported angle. -/
def axisAngle2Coded (r : Aff2) : Rat × Rat := (r.a, if r.c < 0 then -r.c else r.c)
/-- what the property requires: the signed angle, `(cos, sin) = (R e₀)` -/
def axisAngle2Spec (r : Aff2) : Rat × Rat := (r.a, r.c)

/-! ### 3-D -/

@[ext] structure V3 where
  x : Rat
  y : Rat
  z : Rat
deriving Repr, DecidableEq

def V3.dot (p q : V3) : Rat := p.x * q.x + p.y * q.y + p.z * q.z
def V3.cross (p q : V3) : V3 := ⟨p.y * q.z - p.z * q.y, p.z * q.x - p.x * q.z, p.x * q.y - p.y * q.x⟩
def V3.smul (k : Rat) (p : V3) : V3 := ⟨k * p.x, k * p.y, k * p.z⟩
def V3.add (p q : V3) : V3 := ⟨p.x + q.x, p.y + q.y, p.z + q.z⟩
def V3.neg (p : V3) : V3 := ⟨-p.x, -p.y, -p.z⟩

/-- rows of a 3×3 linear map -/
@[ext] structure Lin3 where
  r0 : V3
  r1 : V3
  r2 : V3
deriving Repr, DecidableEq

def Lin3.apply (m : Lin3) (p : V3) : V3 := ⟨m.r0.dot p, m.r1.dot p, m.r2.dot p⟩
def Lin3.col0 (m : Lin3) : V3 := ⟨m.r0.x, m.r1.x, m.r2.x⟩
def Lin3.col1 (m : Lin3) : V3 := ⟨m.r0.y, m.r1.y, m.r2.y⟩
def Lin3.col2 (m : Lin3) : V3 := ⟨m.r0.z, m.r1.z, m.r2.z⟩
def Lin3.mul (g f : Lin3) : Lin3 :=
  ⟨⟨g.r0.dot f.col0, g.r0.dot f.col1, g.r0.dot f.col2⟩,
   ⟨g.r1.dot f.col0, g.r1.dot f.col1, g.r1.dot f.col2⟩,
   ⟨g.r2.dot f.col0, g.r2.dot f.col1, g.r2.dot f.col2⟩⟩
def Lin3.transpose (m : Lin3) : Lin3 := ⟨m.col0, m.col1, m.col2⟩
def Lin3.one : Lin3 := ⟨⟨1, 0, 0⟩, ⟨0, 1, 0⟩, ⟨0, 0, 1⟩⟩
def Lin3.det (m : Lin3) : Rat := m.r0.dot (m.r1.cross m.r2)

/-- `init_from_3d_ccw_angle_around_x/y/z` -/
def rot3x (c s : Rat) : Lin3 := ⟨⟨1, 0, 0⟩, ⟨0, c, -s⟩, ⟨0, s, c⟩⟩
def rot3y (c s : Rat) : Lin3 := ⟨⟨c, 0, s⟩, ⟨0, 1, 0⟩, ⟨-s, 0, c⟩⟩
def rot3z (c s : Rat) : Lin3 := ⟨⟨c, -s, 0⟩, ⟨s, c, 0⟩, ⟨0, 0, 1⟩⟩

/-- Rodrigues: the rotation by the angle with cosine `c`, sine `s` about the unit axis `a`,
as a function on vectors `v ↦ c v + s (a × v) + (1 − c)(a·v) a` -/
def rodrigues (a : V3) (c s : Rat) (v : V3) : V3 :=
  (V3.smul c v).add ((V3.smul s (a.cross v)).add (V3.smul ((1 - c) * a.dot v) a))

/-- what `_axis_and_angle_of_rotation_3d` computes from a rotation `R`, its unit axis `a` (eigenvector:
contract parameter) and a unit vector `p ⊥ a` (random perpendicular: contract parameter):
`cos = p·Rp`, and the sign of the angle is the sign of `a·(p × Rp)` -/
def axisAngle3 (R : V3 → V3) (a p : V3) : Rat × Rat := (p.dot (R p), a.dot (p.cross (R p)))

/-- 3-D affine = linear part + translation; `transform_about_centre` in 3-D -/
@[ext] structure Aff3 where
  l : Lin3
  t : V3
deriving Repr, DecidableEq
def Aff3.apply (m : Aff3) (p : V3) : V3 := (m.l.apply p).add m.t
def aboutCentre3 (ctr : V3) (m : Aff3) : Aff3 := ⟨m.l, ((m.l.apply ctr.neg).add m.t).add ctr⟩

/-! ### quaternions (`init_3d_from_quaternion`, `Rotation._from_vector_inplace` / `_as_vector`) -/

/-- matrix of the quaternion `(w, x, y, z)`, as coded: `p = q·sqrt(2/n)`, outer product, so every
entry is `δ − 2 q_i q_j / n` with `n = q·q` — rational, no square root needed -/
def quatToLin (w x y z : Rat) : Lin3 :=
  let n := w * w + x * x + y * y + z * z
  let k := 2 / n
  ⟨⟨1 - k * (y * y + z * z), k * (x * y - z * w), k * (x * z + y * w)⟩,
   ⟨k * (x * y + z * w), 1 - k * (x * x + z * z), k * (y * z - x * w)⟩,
   ⟨k * (x * z - y * w), k * (y * z + x * w), 1 - k * (x * x + y * y)⟩⟩

/-- the symmetric 4×4 matrix `K/3` of `_as_vector` applied to `(x, y, z, w)` (rows in the coded order) -/
def quatK (m : Lin3) (x y z w : Rat) : Rat × Rat × Rat × Rat :=
  let m00 := m.r0.x; let m01 := m.r0.y; let m02 := m.r0.z
  let m10 := m.r1.x; let m11 := m.r1.y; let m12 := m.r1.z
  let m20 := m.r2.x; let m21 := m.r2.y; let m22 := m.r2.z
  (((m00 - m11 - m22) * x + (m01 + m10) * y + (m02 + m20) * z + (m21 - m12) * w) / 3,
   ((m01 + m10) * x + (m11 - m00 - m22) * y + (m12 + m21) * z + (m02 - m20) * w) / 3,
   ((m02 + m20) * x + (m12 + m21) * y + (m22 - m00 - m11) * z + (m10 - m01) * w) / 3,
   ((m21 - m12) * x + (m02 - m20) * y + (m10 - m01) * z + (m00 + m11 + m22) * w) / 3)

/-! ### the `Scale` factory -/

inductive ScaleKind where
  | uniform (k : Rat) (nDims : Nat)
  | nonUniform (ks : List Rat)
deriving Repr, DecidableEq

/-- `Scale(scale_factor)` for an array argument (exactly-equal / clearly different factors;
the coded test is `np.allclose(factors, factors[0])`) ; `none` = ValueError (a zero factor) -/
def scaleFactory (ks : List Rat) : Option ScaleKind :=
  if ks.any (· == 0) then none
  else match ks with
    | [] => none
    | k :: _ => if ks.all (· == k) then some (.uniform k ks.length) else some (.nonUniform ks)

/-- `Scale(k, n_dims)` for a scalar argument -/
def scaleFactoryScalar (k : Rat) (n : Nat) : Option ScaleKind :=
  if k == 0 then none else some (.uniform k n)

/-! ### texture coordinates ↔ image coordinates -/

/-- `tcoords_to_image_coords((h, w))`: `(x, y) ↦ ((1 − y)(h − 1), x (w − 1))` built as coded from
`invert_unit_y`, `flip_xy_yx` and `Scale((h−1, w−1))` -/
def invertUnitY : Aff2 := ⟨1, 0, 0, 0, -1, 1⟩
def flipXY : Aff2 := ⟨0, 1, 0, 1, 0, 0⟩
def scale2 (kx ky : Rat) : Aff2 := ⟨kx, 0, 0, 0, ky, 0⟩
def tcoordsToImage (h w : Rat) : Aff2 := (scale2 (h - 1) (w - 1)).comp (flipXY.comp invertUnitY)

/-- inverse of an invertible 2-D affine map (adjugate / determinant), as `pseudoinverse` computes -/
def Aff2.inv (m : Aff2) : Aff2 :=
  let dt := m.det
  let a := m.d / dt; let b := -m.b / dt; let c := -m.c / dt; let d := m.a / dt
  ⟨a, b, -(a * m.tx + b * m.ty), c, d, -(c * m.tx + d * m.ty)⟩
def imageToTcoords (h w : Rat) : Aff2 := (tcoordsToImage h w).inv

end MenpoModel.C20
