/-
C17 — executable model of triangle-mesh masking and mesh geometry (core Lean only, no Mathlib).

Follows the code in /repo branch for branch:
  menpo/shape/adjacency.py      mask_adjacency_array, reindex_adjacency_array
  menpo/shape/mesh/base.py      TriMesh.from_mask, from_tri_mask, _isolated_mask, tri_areas,
                                edge_vectors, edge_indices, unique_edge_indices, boundary_tri_index
  menpo/shape/mesh/coloured.py  ColouredTriMesh.from_mask   (colours filtered with the same mask)
  menpo/shape/mesh/textured.py  TexturedTriMesh.from_mask   (tcoords filtered with the same mask)
  menpo/shape/mesh/normals.py   compute_face_normals, compute_vertex_normals

Scalars are exact rationals.  `sqrt` (3-D areas, edge lengths, normalisation) is a contract
parameter: the model returns the *squared* quantity / the un-normalised vector.
-/

namespace MenpoModel.C17

/-! ## index part -/

abbrev Tri := Nat × Nat × Nat

def Tri.verts (t : Tri) : List Nat := [t.1, t.2.1, t.2.2]
def Tri.map (f : Nat → Nat) (t : Tri) : Tri := (f t.1, f t.2.1, f t.2.2)

/-- `a[mask]` for a 1-D boolean mask of the same length -/
def maskFilter {α} : List α → List Bool → List α
  | x :: xs, b :: bs => if b then x :: maskFilter xs bs else maskFilter xs bs
  | _, _ => []

/-- number of `true` among the first `v` entries: the position of `v` among the surviving indices -/
def rank : List Bool → Nat → Nat
  | _, 0 => 0
  | [], _ => 0
  | b :: bs, v+1 => (if b then 1 else 0) + rank bs v

/-- `v ∈ np.nonzero(~mask)[0]` -/
def removed (m : List Bool) (v : Nat) : Bool := m[v]? == some false

/-- the row survives `~entries_to_remove.any(axis=1)` -/
def triAlive (m : List Bool) (t : Tri) : Bool := t.verts.all (fun v => !removed m v)

/-- `mask_adjacency_array(mask, trilist)` -/
def maskAdj (m : List Bool) (ts : List Tri) : List Tri := ts.filter (triAlive m)

/-- `v` occurs in the index array -/
def present (ts : List Tri) (v : Nat) : Bool := ts.any (fun t => t.verts.contains v)

def Tri.max (t : Tri) : Nat := Nat.max t.1 (Nat.max t.2.1 t.2.2)
def maxIdx (ts : List Tri) : Nat := ts.foldr (fun t a => Nat.max t.max a) 0

inductive Err | shape | empty | index
  deriving DecidableEq, Repr

/-- `reindex_adjacency_array`: `remap[unique] = arange(k)` then `remap[adj]`; every value read from
`remap` is one of `unique`, whose image is its rank among the values present.  `np.max` of an
empty array raises (ValueError): `Err.empty`. -/
def usedMask (ts : List Tri) : List Bool := (List.range (maxIdx ts + 1)).map (present ts)

def reindex (ts : List Tri) : Except Err (List Tri) :=
  if ts.isEmpty then .error .empty
  else .ok (ts.map (Tri.map (rank (usedMask ts))))

/-- `TriMesh._isolated_mask`: the user's mask minus the vertices that occur in no surviving row -/
def isolatedMask (m : List Bool) (ts : List Tri) : List Bool :=
  m.mapIdx (fun v b => b && present (maskAdj m ts) v)

/-- a mesh with its per-vertex arrays (`cols`/`tcs` are `[]` for classes that do not have them) -/
structure Mesh (P C T : Type) where
  pts : List P
  cols : List C
  tcs : List T
  tris : List Tri
  deriving Repr, DecidableEq

variable {P C T : Type}

/-- `from_mask` of TriMesh / ColouredTriMesh / TexturedTriMesh (the three bodies are the same code,
the subclasses additionally filter `colours` / `tcoords.points` with `isolated_mask`). -/
def fromMask (M : Mesh P C T) (m : List Bool) : Except Err (Mesh P C T) :=
  if m.length ≠ M.pts.length then .error .shape
  else if m.all id then .ok M
  else
    let iso := isolatedMask m M.tris
    match reindex (maskAdj iso M.tris) with
    | .error e => .error e
    | .ok ts' => .ok { pts := maskFilter M.pts iso, cols := maskFilter M.cols iso,
                       tcs := maskFilter M.tcs iso, tris := ts' }

/-- the point mask built by `from_tri_mask` -/
def triPointMask (n : Nat) (ts : List Tri) (tm : List Bool) : List Bool :=
  (List.range n).map (present (maskFilter ts tm))

/-- `from_tri_mask` (a boolean index of the wrong length raises IndexError) -/
def fromTriMask (M : Mesh P C T) (tm : List Bool) : Except Err (Mesh P C T) :=
  if tm.length ≠ M.tris.length then .error .index
  else fromMask M (triPointMask M.pts.length M.tris tm)

/-! ## edges, unique edges, boundary -/

abbrev Edge := Nat × Nat

/-- `edge_indices`: AB, BC, CA per triangle -/
def Tri.edges (t : Tri) : List Edge := [(t.1, t.2.1), (t.2.1, t.2.2), (t.2.2, t.1)]
def edgeIndices (ts : List Tri) : List Edge := ts.flatMap Tri.edges

/-- `sorted(edge)` / `np.sort(..)` along the pair -/
def sortEdge (e : Edge) : Edge := if e.1 ≤ e.2 then e else (e.2, e.1)

def sortedEdges (ts : List Tri) : List Edge := (edgeIndices ts).map sortEdge

/-- keep one copy of every value (`np.unique(..., return_index=True)` on the void view) -/
def dedup : List Edge → List Edge
  | [] => []
  | x :: xs => if xs.contains x then dedup xs else x :: dedup xs

/-- `unique_edge_indices` (as a duplicate-free list; numpy's order is documented as unspecified) -/
def uniqueEdges (ts : List Tri) : List Edge := dedup (sortedEdges ts)

/-- how many (triangle, side) slots carry the undirected edge `e` -/
def mult (ts : List Tri) (e : Edge) : Nat := (sortedEdges ts).count (sortEdge e)

/-- SPECIFICATION of `boundary_tri_index`: the triangle owns an edge carried by no other slot -/
def boundarySpec (ts : List Tri) : List Bool :=
  ts.map (fun t => t.edges.any (fun e => mult ts e == 1))

/-- (sorted edge, owning triangle) in the order the loop of `boundary_tri_index` sees them -/
def edgeSlots (ts : List Tri) : List (Edge × Nat) :=
  (ts.zipIdx).flatMap (fun p => p.1.edges.map (fun e => (sortEdge e, p.2)))

/-- one iteration of the loop of the ORIGINAL `boundary_tri_index`: toggle the dictionary entry -/
def toggleStep (d : List (Edge × Nat)) (x : Edge × Nat) : List (Edge × Nat) :=
  if d.any (fun y => y.1 == x.1) then d.filter (fun y => !(y.1 == x.1)) else d ++ [x]

/-- dictionary after the slots `newest :: … :: oldest` (structural on the reversed list) -/
def toggleAll : List (Edge × Nat) → List (Edge × Nat)
  | [] => []
  | x :: older => toggleStep (toggleAll older) x

/-- ORIGINAL `boundary_tri_index`: `mask[np.array(list(d.values()))] = True`; an empty value list is
a float array and indexing with it raises IndexError. -/
def codedDict (ts : List Tri) : List (Edge × Nat) := toggleAll (edgeSlots ts).reverse

def boundaryCoded (ts : List Tri) : Except Err (List Bool) :=
  let d := codedDict ts
  if d.isEmpty then .error .index
  else .ok ((List.range ts.length).map (fun t => d.any (fun y => y.2 == t)))

/-- key of a sorted edge as computed by the REPAIRED `boundary_tri_index` (`lo * n_points + hi`) -/
def edgeKey (n : Nat) (e : Edge) : Nat := (sortEdge e).1 * n + (sortEdge e).2

/-- REPAIRED `boundary_tri_index`: count the keys, flag the triangles with a key seen once -/
def boundaryCount (n : Nat) (ts : List Tri) : List Bool :=
  let keys := (edgeIndices ts).map (edgeKey n)
  ts.map (fun t => t.edges.any (fun e => keys.count (edgeKey n e) == 1))

/-! ## geometry over ℚ -/

def absQ (x : Rat) : Rat := if x < 0 then -x else x

@[ext] structure V2 where
  x : Rat
  y : Rat
  deriving DecidableEq, Repr

@[ext] structure V3 where
  x : Rat
  y : Rat
  z : Rat
  deriving DecidableEq, Repr

namespace V2
def sub (a b : V2) : V2 := ⟨a.x - b.x, a.y - b.y⟩
def add (a b : V2) : V2 := ⟨a.x + b.x, a.y + b.y⟩
def smul (s : Rat) (a : V2) : V2 := ⟨s * a.x, s * a.y⟩
def dot (a b : V2) : Rat := a.x * b.x + a.y * b.y
def normSq (a : V2) : Rat := dot a a
/-- `ij[0]*ik[1] - ij[1]*ik[0]` -/
def cross (a b : V2) : Rat := a.x * b.y - a.y * b.x
end V2

namespace V3
def sub (a b : V3) : V3 := ⟨a.x - b.x, a.y - b.y, a.z - b.z⟩
def add (a b : V3) : V3 := ⟨a.x + b.x, a.y + b.y, a.z + b.z⟩
def smul (s : Rat) (a : V3) : V3 := ⟨s * a.x, s * a.y, s * a.z⟩
def dot (a b : V3) : Rat := a.x * b.x + a.y * b.y + a.z * b.z
def normSq (a : V3) : Rat := dot a a
/-- `np.cross` on 3-vectors -/
def cross (a b : V3) : V3 := ⟨a.y * b.z - a.z * b.y, a.z * b.x - a.x * b.z, a.x * b.y - a.y * b.x⟩
def zero : V3 := ⟨0, 0, 0⟩
end V3

/-- 2×2 / 3×3 matrices, row major -/
structure M2 where
  a11 : Rat
  a12 : Rat
  a21 : Rat
  a22 : Rat
  deriving Repr

structure M3 where
  a11 : Rat
  a12 : Rat
  a13 : Rat
  a21 : Rat
  a22 : Rat
  a23 : Rat
  a31 : Rat
  a32 : Rat
  a33 : Rat
  deriving Repr

def M2.mulVec (A : M2) (v : V2) : V2 := ⟨A.a11 * v.x + A.a12 * v.y, A.a21 * v.x + A.a22 * v.y⟩
def M2.det (A : M2) : Rat := A.a11 * A.a22 - A.a12 * A.a21
def M2.scalar (s : Rat) : M2 := ⟨s, 0, 0, s⟩

def M3.mulVec (A : M3) (v : V3) : V3 :=
  ⟨A.a11 * v.x + A.a12 * v.y + A.a13 * v.z,
   A.a21 * v.x + A.a22 * v.y + A.a23 * v.z,
   A.a31 * v.x + A.a32 * v.y + A.a33 * v.z⟩
def M3.det (A : M3) : Rat :=
  A.a11 * (A.a22 * A.a33 - A.a23 * A.a32) - A.a12 * (A.a21 * A.a33 - A.a23 * A.a31)
    + A.a13 * (A.a21 * A.a32 - A.a22 * A.a31)
def M3.scalar (s : Rat) : M3 := ⟨s, 0, 0, 0, s, 0, 0, 0, s⟩

/-- `AᵀA = 1` (columns orthonormal): rotations and reflections -/
def M2.IsOrtho (A : M2) : Prop :=
  A.a11 * A.a11 + A.a21 * A.a21 = 1 ∧ A.a12 * A.a12 + A.a22 * A.a22 = 1 ∧
  A.a11 * A.a12 + A.a21 * A.a22 = 0

def M3.IsOrtho (A : M3) : Prop :=
  A.a11 * A.a11 + A.a21 * A.a21 + A.a31 * A.a31 = 1 ∧
  A.a12 * A.a12 + A.a22 * A.a22 + A.a32 * A.a32 = 1 ∧
  A.a13 * A.a13 + A.a23 * A.a23 + A.a33 * A.a33 = 1 ∧
  A.a11 * A.a12 + A.a21 * A.a22 + A.a31 * A.a32 = 0 ∧
  A.a11 * A.a13 + A.a21 * A.a23 + A.a31 * A.a33 = 0 ∧
  A.a12 * A.a13 + A.a22 * A.a23 + A.a32 * A.a33 = 0

instance (A : M2) : Decidable A.IsOrtho := by unfold M2.IsOrtho; exact inferInstance
instance (A : M3) : Decidable A.IsOrtho := by unfold M3.IsOrtho; exact inferInstance

/-- the affine map `p ↦ A p + t` (rotation, translation, uniform scale are instances) -/
def aff2 (A : M2) (t : V2) (p : V2) : V2 := V2.add (A.mulVec p) t
def aff3 (A : M3) (t : V3) (p : V3) : V3 := V3.add (A.mulVec p) t

/-- `tri_areas`, 2-D branch: `abs((ij0*ik1 - ij1*ik0) * 0.5)` — exact in ℚ -/
def area2 (a b c : V2) : Rat := absQ (V2.cross (V2.sub b a) (V2.sub c a) * (1/2))

/-- `np.cross(ij, ik)` of the 3-D branch; the area is `‖·‖ * 0.5` -/
def areaVec3 (a b c : V3) : V3 := V3.cross (V3.sub b a) (V3.sub c a)
/-- square of `tri_areas`, 3-D branch -/
def areaSq3 (a b c : V3) : Rat := V3.normSq (areaVec3 a b c) * (1/4)

/-- `edge_vectors`: `t1 - t0, t2 - t1, t2 - t0` -/
def edgeVecs2 (a b c : V2) : List V2 := [V2.sub b a, V2.sub c b, V2.sub c a]
def edgeVecs3 (a b c : V3) : List V3 := [V3.sub b a, V3.sub c b, V3.sub c a]
/-- squares of `edge_lengths` -/
def edgeSq2 (a b c : V2) : List Rat := (edgeVecs2 a b c).map V2.normSq
def edgeSq3 (a b c : V3) : List Rat := (edgeVecs3 a b c).map V3.normSq

/-- `compute_face_normals` before `_normalize`: `cross(b - a, c - a)` -/
def faceNormalRaw (a b c : V3) : V3 := V3.cross (V3.sub b a) (V3.sub c a)

/-- `compute_vertex_normals` before the final `_normalize`: the three `np.add.at` scatter-adds of the
(already normalised — contract parameter `fn`) face normals onto their corner vertices. -/
def vertexNormalSums (n : Nat) (ts : List Tri) (fn : List V3) : List V3 :=
  (List.range n).map (fun v =>
    ((ts.zip fn).foldl (fun acc p =>
      let k := p.1.verts.count v
      V3.add acc (V3.smul (k : Rat) p.2)) V3.zero))

/-! ## whole-mesh queries (what the public methods return; squared where the code takes a `sqrt`) -/

/-- `points[trilist]` for one row (a row indexing past the vertex array raises in numpy: `none`) -/
def getTri {α} (pts : List α) (t : Tri) : Option (α × α × α) :=
  match pts[t.1]?, pts[t.2.1]?, pts[t.2.2]? with
  | some a, some b, some c => some (a, b, c)
  | _, _, _ => none

/-- `points[trilist]`: the corner coordinates of every triangle -/
def triCorners {α} (pts : List α) (ts : List Tri) : List (α × α × α) := ts.filterMap (getTri pts)

/-- `tri_areas()` of a 2-D mesh -/
def meshAreas2 (pts : List V2) (ts : List Tri) : List Rat :=
  (triCorners pts ts).map (fun q => area2 q.1 q.2.1 q.2.2)
/-- squares of `tri_areas()` of a 3-D mesh -/
def meshAreasSq3 (pts : List V3) (ts : List Tri) : List Rat :=
  (triCorners pts ts).map (fun q => areaSq3 q.1 q.2.1 q.2.2)
/-- squares of `edge_lengths()` (AB, BC, CA per triangle, concatenated) -/
def meshEdgeSq2 (pts : List V2) (ts : List Tri) : List Rat :=
  (triCorners pts ts).flatMap (fun q => edgeSq2 q.1 q.2.1 q.2.2)
def meshEdgeSq3 (pts : List V3) (ts : List Tri) : List Rat :=
  (triCorners pts ts).flatMap (fun q => edgeSq3 q.1 q.2.1 q.2.2)
/-- `np.cross(b - a, c - a)` of `compute_face_normals`, one row per triangle -/
def meshFaceNormalsRaw (pts : List V3) (ts : List Tri) : List V3 :=
  (triCorners pts ts).map (fun q => faceNormalRaw q.1 q.2.1 q.2.2)

/-- squares of `unique_edge_lengths()`: `‖p[hi] − p[lo]‖²` for every unique edge `(lo, hi)` -/
def uniqueEdgeSq3 (pts : List V3) (ts : List Tri) : List Rat :=
  (uniqueEdges ts).filterMap (fun e => match pts[e.1]?, pts[e.2]? with
    | some a, some b => some (V3.normSq (V3.sub b a))
    | _, _ => none)
def uniqueEdgeSq2 (pts : List V2) (ts : List Tri) : List Rat :=
  (uniqueEdges ts).filterMap (fun e => match pts[e.1]?, pts[e.2]? with
    | some a, some b => some (V2.normSq (V2.sub b a))
    | _, _ => none)

/-- squared length of the undirected edge `e` in the vertex array (0 when an index is out of range) -/
def edgeSqAt3 (pts : List V3) (e : Edge) : Rat :=
  match pts[e.1]?, pts[e.2]? with
  | some a, some b => V3.normSq (V3.sub b a)
  | _, _ => 0

/-- `np.mean` of a non-empty 1-D array (`mean_tri_area`, `mean_edge_length`) -/
def meanQ (l : List Rat) : Rat := l.foldr (· + ·) 0 / (l.length : Rat)

/-! ## `_normalize`, `compute_face_normals`, `compute_vertex_normals` with the `sqrt` contract explicit -/

/-- the contract of `np.sqrt`: the value returned for `sqrt q` is the non-negative root -/
def IsRoot (r q : Rat) : Prop := 0 ≤ r ∧ r * r = q

/-- one row of `_normalize`: `nan_to_num(v / r)` with `r = sqrt (v·v)`; `0/0 = nan ↦ 0` -/
def normalize1 (r : Rat) (v : V3) : V3 := if r = 0 then V3.zero else V3.smul (1 / r) v

/-- `_normalize(v)`, the row norms `rs` being the results of `np.sqrt` -/
def normalizeRows (rs : List Rat) (vs : List V3) : List V3 := List.zipWith normalize1 rs vs

/-- `rs` are the square roots `_normalize` computes for the rows `vs` -/
def RootsOf : List Rat → List V3 → Prop
  | [], [] => True
  | r :: rs, v :: vs => IsRoot r (V3.normSq v) ∧ RootsOf rs vs
  | _, _ => False

/-- `compute_face_normals(points, trilist)` -/
def faceNormals (rs : List Rat) (pts : List V3) (ts : List Tri) : List V3 :=
  normalizeRows rs (meshFaceNormalsRaw pts ts)

/-- `np.add.at(acc, i, x)` for one index -/
def addAt (acc : List V3) (i : Nat) (x : V3) : List V3 := acc.modify i (fun a => V3.add a x)

/-- `np.add.at(acc, idx, vals)`: unbuffered, every occurrence of an index adds -/
def scatterAdd (acc : List V3) (idx : List Nat) (vals : List V3) : List V3 :=
  (idx.zip vals).foldl (fun a p => addAt a p.1 p.2) acc

/-- the three scatter-adds of `compute_vertex_normals`, as coded: column 0, then column 1, then
column 2 of the triangle list, each adding the face normals onto `np.zeros(points.shape)` -/
def vertexNormalSumsCoded (n : Nat) (ts : List Tri) (fn : List V3) : List V3 :=
  scatterAdd (scatterAdd (scatterAdd (List.replicate n V3.zero) (ts.map (fun t => t.1)) fn)
    (ts.map (fun t => t.2.1)) fn) (ts.map (fun t => t.2.2)) fn

/-- `compute_vertex_normals(points, trilist)`: `rs` = the roots taken for the face normals, `rs'` the
roots taken for the accumulated rows -/
def vertexNormals (rs rs' : List Rat) (pts : List V3) (ts : List Tri) : List V3 :=
  normalizeRows rs' (vertexNormalSumsCoded pts.length ts (faceNormals rs pts ts))

/-- sum of a list of vectors -/
def vsum (l : List V3) : V3 := l.foldr V3.add V3.zero

/-- SPECIFICATION of the accumulated vertex normal: the sum of the normals of the incident
triangles (a corner occurring `k` times in a row counts `k` times) -/
def incidentSum (ts : List Tri) (fn : List V3) (v : Nat) : V3 :=
  vsum ((ts.zip fn).map (fun p => V3.smul ((p.1.verts.count v : Nat) : Rat) p.2))

/-! ## `as_pointgraph`: the undirected graph on the vertices whose edges are the triangle sides -/

/-- `PointUndirectedGraph.edges` of `as_pointgraph()`: upper-triangular non-zeros of the symmetric
adjacency matrix built from AB, BC, CA of every triangle — as a duplicate-free list -/
def graphEdges (ts : List Tri) : List Edge := uniqueEdges ts

/-! ## `subsampled_grid_triangulation(shape, subsampling=1)` — the triangle list of `init_2d_grid` -/

/-- the cells `(i, j)` of an `r × c` grid of points in the order of `indices_grid[:-1, :-1].ravel()` -/
def gridCells (r c : Nat) : List (Nat × Nat) :=
  (List.range (r - 1)).flatMap (fun i => (List.range (c - 1)).map (fun j => (i, j)))
/-- bottom-left triangle of a cell: `[grid[i, j], grid[i+1, j], grid[i+1, j+1]]` (row-major indices) -/
def gridDown (c : Nat) (p : Nat × Nat) : Tri := (p.1 * c + p.2, (p.1 + 1) * c + p.2, (p.1 + 1) * c + p.2 + 1)
/-- top-right triangle of a cell: `[grid[i, j], grid[i+1, j+1], grid[i, j+1]]` -/
def gridUp (c : Nat) (p : Nat × Nat) : Tri := (p.1 * c + p.2, (p.1 + 1) * c + p.2 + 1, p.1 * c + p.2 + 1)
/-- `np.vstack([tri_down_left, tri_up_right])` -/
def gridTriangulation (r c : Nat) : List Tri :=
  (gridCells r c).map (gridDown c) ++ (gridCells r c).map (gridUp c)

/-! ## histories: objects with instance state under queries, masks and copies -/

/-- a mesh object: its arrays plus whatever an edge query may have left behind on the instance
(`None` on every object of the code in /repo: no query writes an attribute — `GenProps/C17`) -/
structure Obj (P C T : Type) where
  mesh : Mesh P C T
  memo : Option (List Edge)

/-- one call on the `i`-th object of the history -/
inductive HOp where
  | edges (i : Nat)                      -- `obj.edge_indices()`
  | bound (i : Nat)                      -- `obj.boundary_tri_index()`
  | mask (i : Nat) (m : List Bool)       -- `obj.from_mask(m)`: a NEW object (when it succeeds)
  | trimask (i : Nat) (m : List Bool)    -- `obj.from_tri_mask(m)`
  | copy (i : Nat)                       -- `obj.copy()`: a NEW object

/-- what the caller observes -/
inductive Obs (P C T : Type) where
  | edges (l : List Edge)
  | bits (l : List Bool)
  | made (M : Mesh P C T)                -- the arrays of the object just created
  | err (e : Err)
  | noobj
  deriving DecidableEq

/-- the edge list a query returns and the memo it leaves: with `memoise = false` (the code in
/repo) it is recomputed from `trilist` on every call; with `memoise = true` (a cache on the
instance that nothing invalidates) the first answer is kept -/
def edgesOf (memoise : Bool) (o : Obj P C T) : List Edge × Obj P C T :=
  if memoise then
    match o.memo with
    | some e => (e, o)
    | none => (edgeIndices o.mesh.tris, { o with memo := some (edgeIndices o.mesh.tris) })
  else (edgeIndices o.mesh.tris, o)

/-- `x.reshape(-1, 3)` -/
def chunks3 {α} : List α → List (List α)
  | a :: b :: c :: rest => [a, b, c] :: chunks3 rest
  | _ => []

/-- `boundary_tri_index` as coded, from whatever `self.edge_indices()` returns: key every edge,
count the keys, `lonely.reshape(-1, 3).any(axis=1)` -/
def boundFromEdges (n : Nat) (es : List Edge) : List Bool :=
  let keys := es.map (edgeKey n)
  (chunks3 keys).map (fun ch => ch.any (fun x => keys.count x == 1))

def boundOf (memoise : Bool) (o : Obj P C T) : List Bool × Obj P C T :=
  let r := edgesOf memoise o
  (boundFromEdges o.mesh.pts.length r.1, r.2)

/-- one call.  `from_mask` starts with `tm = self.copy()`, which carries EVERY instance attribute
(so also a memo) to the new object, and then rebinds `trilist` and the per-vertex arrays. -/
def stepH (memoise : Bool) (objs : List (Obj P C T)) : HOp → List (Obj P C T) × Obs P C T
  | .edges i => match objs[i]? with
    | none => (objs, .noobj)
    | some o => let (e, o') := edgesOf memoise o; (objs.set i o', .edges e)
  | .bound i => match objs[i]? with
    | none => (objs, .noobj)
    | some o => let (b, o') := boundOf memoise o; (objs.set i o', .bits b)
  | .mask i m => match objs[i]? with
    | none => (objs, .noobj)
    | some o => match fromMask o.mesh m with
      | .error e => (objs, .err e)
      | .ok R => (objs ++ [{ mesh := R, memo := o.memo }], .made R)
  | .trimask i m => match objs[i]? with
    | none => (objs, .noobj)
    | some o => match fromTriMask o.mesh m with
      | .error e => (objs, .err e)
      | .ok R => (objs ++ [{ mesh := R, memo := o.memo }], .made R)
  | .copy i => match objs[i]? with
    | none => (objs, .noobj)
    | some o => (objs ++ [o], .made o.mesh)

def runH (memoise : Bool) : List (Obj P C T) → List HOp → List (Obj P C T) × List (Obs P C T)
  | objs, [] => (objs, [])
  | objs, op :: ops =>
    let (objs', r) := stepH memoise objs op
    let (objs'', rs) := runH memoise objs' ops
    (objs'', r :: rs)

/-- SPECIFICATION of a history: objects are nothing but their arrays; every query is answered from
the arrays of the object asked, every mask / copy makes a new object and touches no other -/
def stepSpec (ms : List (Mesh P C T)) : HOp → List (Mesh P C T) × Obs P C T
  | .edges i => match ms[i]? with
    | none => (ms, .noobj)
    | some M => (ms, .edges (edgeIndices M.tris))
  | .bound i => match ms[i]? with
    | none => (ms, .noobj)
    | some M => (ms, .bits (boundaryCount M.pts.length M.tris))
  | .mask i m => match ms[i]? with
    | none => (ms, .noobj)
    | some M => match fromMask M m with
      | .error e => (ms, .err e)
      | .ok R => (ms ++ [R], .made R)
  | .trimask i m => match ms[i]? with
    | none => (ms, .noobj)
    | some M => match fromTriMask M m with
      | .error e => (ms, .err e)
      | .ok R => (ms ++ [R], .made R)
  | .copy i => match ms[i]? with
    | none => (ms, .noobj)
    | some M => (ms ++ [M], .made M)

def runSpec : List (Mesh P C T) → List HOp → List (Mesh P C T) × List (Obs P C T)
  | ms, [] => (ms, [])
  | ms, op :: ops =>
    let (ms', r) := stepSpec ms op
    let (ms'', rs) := runSpec ms' ops
    (ms'', r :: rs)

/-- a freshly constructed object -/
def Obj.fresh (M : Mesh P C T) : Obj P C T := { mesh := M, memo := none }

/-! ## instance state: which attributes a public query writes (regenerated table, GenProps/C17) -/

/-- (class, query, attributes written) -/
abbrev WriteTable := List (String × String × List String)

/-- the public queries of the three mesh classes (everything public except the declared mutator
`from_vector_inplace` and the viewers), alphabetical as the harness lists them -/
def triMeshQueries : List String :=
  ["as_pointgraph", "as_vector", "boundary_tri_index", "bounding_box", "bounds", "centre",
   "centre_of_bounds", "constrain_to_bounds", "copy", "distance_to", "edge_indices",
   "edge_lengths", "edge_vectors", "from_mask", "from_tri_mask", "from_vector", "h_points",
   "has_landmarks", "has_nan_values", "landmarks", "lms", "mean_edge_length", "mean_tri_area",
   "n_dims", "n_landmark_groups", "n_parameters", "n_points", "n_tris", "norm", "range", "tojson",
   "tri_areas", "tri_normals", "unique_edge_indices", "unique_edge_lengths", "unique_edge_vectors",
   "vertex_normals", "with_dims"]
def colouredQueries : List String :=
  ["as_pointgraph", "as_vector", "boundary_tri_index", "bounding_box", "bounds", "centre",
   "centre_of_bounds", "clip_texture", "constrain_to_bounds", "copy", "distance_to",
   "edge_indices", "edge_lengths", "edge_vectors", "from_mask", "from_tri_mask", "from_vector",
   "h_points", "has_landmarks", "has_nan_values", "landmarks", "lms", "mean_edge_length",
   "mean_tri_area", "n_channels", "n_dims", "n_landmark_groups", "n_parameters", "n_points",
   "n_tris", "norm", "range", "rescale_texture", "tojson", "tri_areas", "tri_normals",
   "unique_edge_indices", "unique_edge_lengths", "unique_edge_vectors", "vertex_normals",
   "with_dims"]
def texturedQueries : List String :=
  ["as_pointgraph", "as_vector", "boundary_tri_index", "bounding_box", "bounds", "centre",
   "centre_of_bounds", "clip_texture", "constrain_to_bounds", "copy", "distance_to",
   "edge_indices", "edge_lengths", "edge_vectors", "from_mask", "from_tri_mask", "from_vector",
   "h_points", "has_landmarks", "has_nan_values", "landmarks", "lms", "mean_edge_length",
   "mean_tri_area", "n_channels", "n_dims", "n_landmark_groups", "n_parameters", "n_points",
   "n_tris", "norm", "range", "rescale_texture", "tcoords_pixel_scaled", "tojson", "tri_areas",
   "tri_normals", "unique_edge_indices", "unique_edge_lengths", "unique_edge_vectors",
   "vertex_normals", "with_dims"]

/-- the only state a query may touch: the lazily created (empty) landmark manager -/
def lazyLandmarkQueries : List String := ["as_pointgraph", "landmarks", "n_landmark_groups", "tojson"]

def expectedRow (cls q : String) : String × String × List String :=
  (cls, q, if lazyLandmarkQueries.contains q then ["_landmarks"] else [])

/-- what the model assumes of menpo's mesh classes: no query writes `points`, `trilist`, `colours`,
`tcoords`, `texture` or adds an attribute (no memo on the instance) -/
def expectedQueryWrites : WriteTable :=
  triMeshQueries.map (expectedRow "TriMesh") ++ colouredQueries.map (expectedRow "ColouredTriMesh")
    ++ texturedQueries.map (expectedRow "TexturedTriMesh")

/-! ## dispatch and transcription fingerprints (regenerated tables, GenProps/C17) -/

/-- (class, [(method, class of the MRO that defines it)]) -/
abbrev SupplierTable := List (String × List (String × String))
/-- (function, names its body refers to) -/
abbrev NameTable := List (String × List String)

def suppliedMethods : List String :=
  ["_isolated_mask", "as_pointgraph", "boundary_tri_index", "copy", "edge_indices",
   "edge_lengths", "edge_vectors", "from_mask", "from_tri_mask", "mean_edge_length",
   "mean_tri_area", "tri_areas", "tri_normals", "unique_edge_indices", "unique_edge_lengths",
   "unique_edge_vectors", "vertex_normals"]

/-- what the model assumes about dispatch: every geometry query, `from_tri_mask` and `_isolated_mask`
are TriMesh's code for the three classes, `from_mask` is overridden by each subclass (the three bodies
modelled by `fromMask`), `copy` is Copyable's -/
def expectedSupplierOf (cls m : String) : String :=
  if m == "copy" then "Copyable" else if m == "from_mask" then cls else "TriMesh"

def expectedSuppliers : SupplierTable :=
  ["TriMesh", "ColouredTriMesh", "TexturedTriMesh"].map
    (fun c => (c, suppliedMethods.map (fun m => (m, expectedSupplierOf c m))))

/-- the bodies this file transcribes that are NOT translated from the source text (harness/trans_c17.py translates
every other anchored function on every run and GenProps/C17Src*.lean prove the translations equal to the definitions
of this file, which supersedes a fingerprint), fingerprinted by the names they refer to: a function that starts to
refer to something else no longer matches and the transcription has to be re-examined -/
def expectedMechanism : NameTable :=
  [("TriMesh.as_pointgraph",
     ["PointUndirectedGraph", "_convert_edges_to_symmetric_adjacency_matrix", "graph",
      "landmarks", "points", "shape", "trilist", "trilist_to_adjacency_array"]),
   ("subsampled_grid_triangulation",
     ["arange", "astype", "concatenate", "np", "prod", "ravel", "uint32", "vstack", "zeros"])]

/-- a mesh object answering queries from its state -/
structure Machine (S Q R : Type) where
  step : S → Q → S × R

def Machine.run {S Q R} (m : Machine S Q R) : S → List Q → S × List R
  | s, [] => (s, [])
  | s, q :: qs =>
    let (s', r) := m.step s q
    let (s'', rs) := m.run s' qs
    (s'', r :: rs)

end MenpoModel.C17
