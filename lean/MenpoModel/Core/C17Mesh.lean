/-
C17 — executable model of triangle-mesh masking and mesh geometry (core Lean only, no Mathlib).

Follows the code in /repo branch for branch:
  menpo/shape/adjacency.py      mask_adjacency_array, reindex_adjacency_array
  menpo/shape/mesh/base.py      TriMesh.from_mask, from_tri_mask, _isolated_mask, tri_areas,
                                edge_vectors, edge_indices, unique_edge_indices, boundary_tri_index
  menpo/shape/mesh/coloured.py  ColouredTriMesh.from_mask   (colours filtered with the same mask)
  menpo/shape/mesh/textured.py  TexturedTriMesh.from_mask   (tcoords filtered with the same mask)
  menpo/shape/mesh/normals.py   compute_face_normals, compute_vertex_normals

Scalars are exact rationals.  `sqrt` (3-D areas, edge lengths, normalisation) is a contract
parameter: the model returns the *squared* quantity / the un-normalised vector.
-/

namespace MenpoModel.C17

/-! ## index part -/

abbrev Tri := Nat × Nat × Nat

def Tri.verts (t : Tri) : List Nat := [t.1, t.2.1, t.2.2]
def Tri.map (f : Nat → Nat) (t : Tri) : Tri := (f t.1, f t.2.1, f t.2.2)

/-- `a[mask]` for a 1-D boolean mask of the same length -/
def maskFilter {α} : List α → List Bool → List α
  | x :: xs, b :: bs => if b then x :: maskFilter xs bs else maskFilter xs bs
  | _, _ => []

/-- number of `true` among the first `v` entries: the position of `v` among the surviving indices -/
def rank : List Bool → Nat → Nat
  | _, 0 => 0
  | [], _ => 0
  | b :: bs, v+1 => (if b then 1 else 0) + rank bs v

/-- `v ∈ np.nonzero(~mask)[0]` -/
def removed (m : List Bool) (v : Nat) : Bool := m[v]? == some false

/-- the row survives `~entries_to_remove.any(axis=1)` -/
def triAlive (m : List Bool) (t : Tri) : Bool := t.verts.all (fun v => !removed m v)

/-- `mask_adjacency_array(mask, trilist)` -/
def maskAdj (m : List Bool) (ts : List Tri) : List Tri := ts.filter (triAlive m)

/-- `v` occurs in the index array -/
def present (ts : List Tri) (v : Nat) : Bool := ts.any (fun t => t.verts.contains v)

def Tri.max (t : Tri) : Nat := Nat.max t.1 (Nat.max t.2.1 t.2.2)
def maxIdx (ts : List Tri) : Nat := ts.foldr (fun t a => Nat.max t.max a) 0

inductive Err | shape | empty | index
  deriving DecidableEq, Repr

/-- `reindex_adjacency_array`: `remap[unique] = arange(k)` then `remap[adj]`; every value read from
`remap` is one of `unique`, whose image is its rank among the values present.  `np.max` of an
empty array raises (ValueError): `Err.empty`. -/
def usedMask (ts : List Tri) : List Bool := (List.range (maxIdx ts + 1)).map (present ts)

def reindex (ts : List Tri) : Except Err (List Tri) :=
  if ts.isEmpty then .error .empty
  else .ok (ts.map (Tri.map (rank (usedMask ts))))

/-- `TriMesh._isolated_mask`: the user's mask minus the vertices that occur in no surviving row -/
def isolatedMask (m : List Bool) (ts : List Tri) : List Bool :=
  m.mapIdx (fun v b => b && present (maskAdj m ts) v)

/-- a mesh with its per-vertex arrays (`cols`/`tcs` are `[]` for classes that do not have them) -/
structure Mesh (P C T : Type) where
  pts : List P
  cols : List C
  tcs : List T
  tris : List Tri
  deriving Repr

variable {P C T : Type}

/-- `from_mask` of TriMesh / ColouredTriMesh / TexturedTriMesh (the three bodies are the same code,
the subclasses additionally filter `colours` / `tcoords.points` with `isolated_mask`). -/
def fromMask (M : Mesh P C T) (m : List Bool) : Except Err (Mesh P C T) :=
  if m.length ≠ M.pts.length then .error .shape
  else if m.all id then .ok M
  else
    let iso := isolatedMask m M.tris
    match reindex (maskAdj iso M.tris) with
    | .error e => .error e
    | .ok ts' => .ok { pts := maskFilter M.pts iso, cols := maskFilter M.cols iso,
                       tcs := maskFilter M.tcs iso, tris := ts' }

/-- the point mask built by `from_tri_mask` -/
def triPointMask (n : Nat) (ts : List Tri) (tm : List Bool) : List Bool :=
  (List.range n).map (present (maskFilter ts tm))

/-- `from_tri_mask` (a boolean index of the wrong length raises IndexError) -/
def fromTriMask (M : Mesh P C T) (tm : List Bool) : Except Err (Mesh P C T) :=
  if tm.length ≠ M.tris.length then .error .index
  else fromMask M (triPointMask M.pts.length M.tris tm)

/-! ## edges, unique edges, boundary -/

abbrev Edge := Nat × Nat

/-- `edge_indices`: AB, BC, CA per triangle -/
def Tri.edges (t : Tri) : List Edge := [(t.1, t.2.1), (t.2.1, t.2.2), (t.2.2, t.1)]
def edgeIndices (ts : List Tri) : List Edge := ts.flatMap Tri.edges

/-- `sorted(edge)` / `np.sort(..)` along the pair -/
def sortEdge (e : Edge) : Edge := if e.1 ≤ e.2 then e else (e.2, e.1)

def sortedEdges (ts : List Tri) : List Edge := (edgeIndices ts).map sortEdge

/-- keep one copy of every value (`np.unique(..., return_index=True)` on the void view) -/
def dedup : List Edge → List Edge
  | [] => []
  | x :: xs => if xs.contains x then dedup xs else x :: dedup xs

/-- `unique_edge_indices` (as a duplicate-free list; numpy's order is documented as unspecified) -/
def uniqueEdges (ts : List Tri) : List Edge := dedup (sortedEdges ts)

/-- how many (triangle, side) slots carry the undirected edge `e` -/
def mult (ts : List Tri) (e : Edge) : Nat := (sortedEdges ts).count (sortEdge e)

/-- SPECIFICATION of `boundary_tri_index`: the triangle owns an edge carried by no other slot -/
def boundarySpec (ts : List Tri) : List Bool :=
  ts.map (fun t => t.edges.any (fun e => mult ts e == 1))

/-- (sorted edge, owning triangle) in the order the loop of `boundary_tri_index` sees them -/
def edgeSlots (ts : List Tri) : List (Edge × Nat) :=
  (ts.zipIdx).flatMap (fun p => p.1.edges.map (fun e => (sortEdge e, p.2)))

/-- one iteration of the loop of the ORIGINAL `boundary_tri_index`: toggle the dictionary entry -/
def toggleStep (d : List (Edge × Nat)) (x : Edge × Nat) : List (Edge × Nat) :=
  if d.any (fun y => y.1 == x.1) then d.filter (fun y => !(y.1 == x.1)) else d ++ [x]

/-- dictionary after the slots `newest :: … :: oldest` (structural on the reversed list) -/
def toggleAll : List (Edge × Nat) → List (Edge × Nat)
  | [] => []
  | x :: older => toggleStep (toggleAll older) x

/-- ORIGINAL `boundary_tri_index`: `mask[np.array(list(d.values()))] = True`; an empty value list is
a float array and indexing with it raises IndexError. -/
def codedDict (ts : List Tri) : List (Edge × Nat) := toggleAll (edgeSlots ts).reverse

def boundaryCoded (ts : List Tri) : Except Err (List Bool) :=
  let d := codedDict ts
  if d.isEmpty then .error .index
  else .ok ((List.range ts.length).map (fun t => d.any (fun y => y.2 == t)))

/-- key of a sorted edge as computed by the REPAIRED `boundary_tri_index` (`lo * n_points + hi`) -/
def edgeKey (n : Nat) (e : Edge) : Nat := (sortEdge e).1 * n + (sortEdge e).2

/-- REPAIRED `boundary_tri_index`: count the keys, flag the triangles with a key seen once -/
def boundaryCount (n : Nat) (ts : List Tri) : List Bool :=
  let keys := (edgeIndices ts).map (edgeKey n)
  ts.map (fun t => t.edges.any (fun e => keys.count (edgeKey n e) == 1))

/-! ## geometry over ℚ -/

def absQ (x : Rat) : Rat := if x < 0 then -x else x

@[ext] structure V2 where
  x : Rat
  y : Rat
  deriving DecidableEq, Repr

@[ext] structure V3 where
  x : Rat
  y : Rat
  z : Rat
  deriving DecidableEq, Repr

namespace V2
def sub (a b : V2) : V2 := ⟨a.x - b.x, a.y - b.y⟩
def add (a b : V2) : V2 := ⟨a.x + b.x, a.y + b.y⟩
def smul (s : Rat) (a : V2) : V2 := ⟨s * a.x, s * a.y⟩
def dot (a b : V2) : Rat := a.x * b.x + a.y * b.y
def normSq (a : V2) : Rat := dot a a
/-- `ij[0]*ik[1] - ij[1]*ik[0]` -/
def cross (a b : V2) : Rat := a.x * b.y - a.y * b.x
end V2

namespace V3
def sub (a b : V3) : V3 := ⟨a.x - b.x, a.y - b.y, a.z - b.z⟩
def add (a b : V3) : V3 := ⟨a.x + b.x, a.y + b.y, a.z + b.z⟩
def smul (s : Rat) (a : V3) : V3 := ⟨s * a.x, s * a.y, s * a.z⟩
def dot (a b : V3) : Rat := a.x * b.x + a.y * b.y + a.z * b.z
def normSq (a : V3) : Rat := dot a a
/-- `np.cross` on 3-vectors -/
def cross (a b : V3) : V3 := ⟨a.y * b.z - a.z * b.y, a.z * b.x - a.x * b.z, a.x * b.y - a.y * b.x⟩
def zero : V3 := ⟨0, 0, 0⟩
end V3

/-- 2×2 / 3×3 matrices, row major -/
structure M2 where
  a11 : Rat
  a12 : Rat
  a21 : Rat
  a22 : Rat
  deriving Repr

structure M3 where
  a11 : Rat
  a12 : Rat
  a13 : Rat
  a21 : Rat
  a22 : Rat
  a23 : Rat
  a31 : Rat
  a32 : Rat
  a33 : Rat
  deriving Repr

def M2.mulVec (A : M2) (v : V2) : V2 := ⟨A.a11 * v.x + A.a12 * v.y, A.a21 * v.x + A.a22 * v.y⟩
def M2.det (A : M2) : Rat := A.a11 * A.a22 - A.a12 * A.a21
def M2.scalar (s : Rat) : M2 := ⟨s, 0, 0, s⟩

def M3.mulVec (A : M3) (v : V3) : V3 :=
  ⟨A.a11 * v.x + A.a12 * v.y + A.a13 * v.z,
   A.a21 * v.x + A.a22 * v.y + A.a23 * v.z,
   A.a31 * v.x + A.a32 * v.y + A.a33 * v.z⟩
def M3.det (A : M3) : Rat :=
  A.a11 * (A.a22 * A.a33 - A.a23 * A.a32) - A.a12 * (A.a21 * A.a33 - A.a23 * A.a31)
    + A.a13 * (A.a21 * A.a32 - A.a22 * A.a31)
def M3.scalar (s : Rat) : M3 := ⟨s, 0, 0, 0, s, 0, 0, 0, s⟩

/-- `AᵀA = 1` (columns orthonormal): rotations and reflections -/
def M2.IsOrtho (A : M2) : Prop :=
  A.a11 * A.a11 + A.a21 * A.a21 = 1 ∧ A.a12 * A.a12 + A.a22 * A.a22 = 1 ∧
  A.a11 * A.a12 + A.a21 * A.a22 = 0

def M3.IsOrtho (A : M3) : Prop :=
  A.a11 * A.a11 + A.a21 * A.a21 + A.a31 * A.a31 = 1 ∧
  A.a12 * A.a12 + A.a22 * A.a22 + A.a32 * A.a32 = 1 ∧
  A.a13 * A.a13 + A.a23 * A.a23 + A.a33 * A.a33 = 1 ∧
  A.a11 * A.a12 + A.a21 * A.a22 + A.a31 * A.a32 = 0 ∧
  A.a11 * A.a13 + A.a21 * A.a23 + A.a31 * A.a33 = 0 ∧
  A.a12 * A.a13 + A.a22 * A.a23 + A.a32 * A.a33 = 0

instance (A : M2) : Decidable A.IsOrtho := by unfold M2.IsOrtho; exact inferInstance
instance (A : M3) : Decidable A.IsOrtho := by unfold M3.IsOrtho; exact inferInstance

/-- the affine map `p ↦ A p + t` (rotation, translation, uniform scale are instances) -/
def aff2 (A : M2) (t : V2) (p : V2) : V2 := V2.add (A.mulVec p) t
def aff3 (A : M3) (t : V3) (p : V3) : V3 := V3.add (A.mulVec p) t

/-- `tri_areas`, 2-D branch: `abs((ij0*ik1 - ij1*ik0) * 0.5)` — exact in ℚ -/
def area2 (a b c : V2) : Rat := absQ (V2.cross (V2.sub b a) (V2.sub c a) * (1/2))

/-- `np.cross(ij, ik)` of the 3-D branch; the area is `‖·‖ * 0.5` -/
def areaVec3 (a b c : V3) : V3 := V3.cross (V3.sub b a) (V3.sub c a)
/-- square of `tri_areas`, 3-D branch -/
def areaSq3 (a b c : V3) : Rat := V3.normSq (areaVec3 a b c) * (1/4)

/-- `edge_vectors`: `t1 - t0, t2 - t1, t2 - t0` -/
def edgeVecs2 (a b c : V2) : List V2 := [V2.sub b a, V2.sub c b, V2.sub c a]
def edgeVecs3 (a b c : V3) : List V3 := [V3.sub b a, V3.sub c b, V3.sub c a]
/-- squares of `edge_lengths` -/
def edgeSq2 (a b c : V2) : List Rat := (edgeVecs2 a b c).map V2.normSq
def edgeSq3 (a b c : V3) : List Rat := (edgeVecs3 a b c).map V3.normSq

/-- `compute_face_normals` before `_normalize`: `cross(b - a, c - a)` -/
def faceNormalRaw (a b c : V3) : V3 := V3.cross (V3.sub b a) (V3.sub c a)

/-- `compute_vertex_normals` before the final `_normalize`: the three `np.add.at` scatter-adds of the
(already normalised — contract parameter `fn`) face normals onto their corner vertices. -/
def vertexNormalSums (n : Nat) (ts : List Tri) (fn : List V3) : List V3 :=
  (List.range n).map (fun v =>
    ((ts.zip fn).foldl (fun acc p =>
      let k := p.1.verts.count v
      V3.add acc (V3.smul (k : Rat) p.2)) V3.zero))

/-! ## per-mesh wrappers used by the driver -/

def getTri {α} (pts : List α) (t : Tri) : Option (α × α × α) :=
  match pts[t.1]?, pts[t.2.1]?, pts[t.2.2]? with
  | some a, some b, some c => some (a, b, c)
  | _, _, _ => none

end MenpoModel.C17
