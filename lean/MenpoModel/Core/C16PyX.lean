/-
C16 — generic Python vocabulary used by the files that harness/trans_c16.py (Translator16, an extension of
harness/py2lean2.py) writes: truthiness, `while` loops with fuel, exceptions (`Except`) with try/except, and a
state-and-exception monad `W` for code that reads and writes a "world" (here: the file system) and may raise.
Nothing in this file is specific to menpo; core Lean only.
-/
import MenpoModel.Core.PyLoop

namespace MenpoModel.C16.PyX

/-! ### truthiness (`if x:`, `while x and y:`, `a if x else b`) -/

class Truthy (α : Type) where
  truthy : α → Bool

export Truthy (truthy)

instance : Truthy Bool := ⟨id⟩
instance {α : Type} : Truthy (List α) := ⟨fun l => !l.isEmpty⟩
instance : Truthy Nat := ⟨fun n => n != 0⟩
instance : Truthy Int := ⟨fun n => n != 0⟩
/-- `None` is false, anything else is as true as it is itself (`Optional[str]`: `None` and `""` are false) -/
instance {α : Type} [Truthy α] : Truthy (Option α) := ⟨fun o => match o with | none => false | some a => truthy a⟩

@[simp] theorem truthy_bool (b : Bool) : truthy b = b := rfl
@[simp] theorem truthy_nil {α : Type} : truthy ([] : List α) = false := rfl
@[simp] theorem truthy_cons {α : Type} (a : α) (l : List α) : truthy (a :: l) = true := rfl
@[simp] theorem truthy_none {α : Type} [Truthy α] : truthy (none : Option α) = false := rfl
@[simp] theorem truthy_some {α : Type} [Truthy α] (a : α) : truthy (some a) = truthy a := rfl
theorem truthy_list {α : Type} (l : List α) : truthy l = !l.isEmpty := rfl

/-! ### `while cond: body` with fuel: `none` = the fuel ran out while the condition still held -/

def whileLoop {σ : Type} : Nat → σ → (σ → Bool) → (σ → σ) → Option σ
  | 0, s, cond, _ => if cond s then none else some s
  | fuel + 1, s, cond, body => if cond s then whileLoop fuel (body s) cond body else some s

/-- partial correctness: an invariant that the body keeps holds at the exit, where the condition is false -/
theorem whileLoop_some {σ : Type} (P : σ → Prop) (cond : σ → Bool) (body : σ → σ)
    (hstep : ∀ s, P s → cond s = true → P (body s)) :
    ∀ fuel s r, P s → whileLoop fuel s cond body = some r → P r ∧ cond r = false := by
  intro fuel
  induction fuel with
  | zero =>
    intro s r hP h
    unfold whileLoop at h
    split at h
    · simp at h
    · simp only [Option.some.injEq] at h; subst h; exact ⟨hP, by simp_all⟩
  | succ n ih =>
    intro s r hP h
    unfold whileLoop at h
    split at h
    · rename_i hc; exact ih _ _ (hstep s hP hc) h
    · simp only [Option.some.injEq] at h; subst h; exact ⟨hP, by simp_all⟩

/-- termination: with a measure that the body decreases (under the invariant) the fuel never runs out -/
theorem whileLoop_ne_none {σ : Type} (P : σ → Prop) (μ : σ → Nat) (cond : σ → Bool) (body : σ → σ)
    (hstep : ∀ s, P s → cond s = true → P (body s) ∧ μ (body s) < μ s) :
    ∀ fuel s, P s → μ s ≤ fuel → whileLoop fuel s cond body ≠ none := by
  intro fuel
  induction fuel with
  | zero =>
    intro s hP hμ h
    unfold whileLoop at h
    split at h
    · rename_i hc
      have := (hstep s hP hc).2
      omega
    · simp at h
  | succ n ih =>
    intro s hP hμ h
    unfold whileLoop at h
    split at h
    · rename_i hc
      obtain ⟨h1, h2⟩ := hstep s hP hc
      exact ih _ h1 (by omega) h
    · simp at h

/-! ### exceptions: plain `Except ε`, with the two combinators the translator emits -/

/-- `try: body  except …: handler` — `ok` continues after a body that finished, `err` receives the exception (the
result type is arbitrary: inside a loop body it is the loop state) -/
def tryE {ε α γ : Type} (body : Except ε α) (ok : α → γ) (err : ε → γ) : γ :=
  match body with
  | .ok a => ok a
  | .error e => err e

@[simp] theorem tryE_ok {ε α γ : Type} (a : α) (ok : α → γ) (err : ε → γ) :
    tryE (.ok a : Except ε α) ok err = ok a := rfl
@[simp] theorem tryE_error {ε α γ : Type} (e : ε) (ok : α → γ) (err : ε → γ) :
    tryE (.error e : Except ε α) ok err = err e := rfl

/-- what the body of a `try` hands to the code after it: it returned (`ret`) or fell off its end (`fell`, with the
variables it bound) -/
inductive TryOut (ρ σ : Type) where
  | ret (r : ρ)
  | fell (s : σ)

/-! ### `W`: a world that is read and written, plus exceptions.  A raised exception keeps the world as it was at
the moment of the raise (a file opened for writing stays truncated). -/

abbrev W (ω ε α : Type) := ω → Except ε α × ω

namespace W
variable {ω ε α β : Type}

def pure (a : α) : W ω ε α := fun w => (.ok a, w)
def throw (e : ε) : W ω ε α := fun w => (.error e, w)
def bind (m : W ω ε α) (f : α → W ω ε β) : W ω ε β := fun w =>
  match m w with
  | (.ok a, w') => f a w'
  | (.error e, w') => (.error e, w')
/-- a computation that may raise but neither reads nor writes the world -/
def lift (x : Except ε α) : W ω ε α := fun w => (x, w)
def get : W ω ε ω := fun w => (.ok w, w)
def set (w' : ω) : W ω ε Unit := fun _ => (.ok (), w')
def modify (f : ω → ω) : W ω ε Unit := fun w => (.ok (), f w)
def tryW (body : W ω ε α) (ok : α → W ω ε β) (err : ε → W ω ε β) : W ω ε β := fun w =>
  match body w with
  | (.ok a, w') => ok a w'
  | (.error e, w') => err e w'

@[simp] theorem pure_run (a : α) (w : ω) : (pure a : W ω ε α) w = (.ok a, w) := rfl
@[simp] theorem throw_run (e : ε) (w : ω) : (throw e : W ω ε α) w = (.error e, w) := rfl
@[simp] theorem lift_run (x : Except ε α) (w : ω) : (lift x : W ω ε α) w = (x, w) := rfl
@[simp] theorem get_run (w : ω) : (get : W ω ε ω) w = (.ok w, w) := rfl
@[simp] theorem set_run (w w' : ω) : (set w' : W ω ε Unit) w = (.ok (), w') := rfl
@[simp] theorem modify_run (f : ω → ω) (w : ω) : (modify f : W ω ε Unit) w = (.ok (), f w) := rfl
theorem bind_run (m : W ω ε α) (f : α → W ω ε β) (w : ω) :
    (m.bind f) w = match m w with
      | (.ok a, w') => f a w'
      | (.error e, w') => (.error e, w') := rfl
@[simp] theorem pure_bind (a : α) (f : α → W ω ε β) : (pure a : W ω ε α).bind f = f a := rfl
@[simp] theorem throw_bind (e : ε) (f : α → W ω ε β) : (throw e : W ω ε α).bind f = throw e := rfl
@[simp] theorem lift_ok_bind (a : α) (f : α → W ω ε β) : (lift (.ok a) : W ω ε α).bind f = f a := rfl
@[simp] theorem lift_error_bind (e : ε) (f : α → W ω ε β) : (lift (.error e) : W ω ε α).bind f = throw e := rfl
@[simp] theorem bind_pure_unit (m : W ω ε Unit) : (m.bind fun _ => pure ()) = m := by
  funext w
  simp only [bind_run]
  rcases m w with ⟨_ | _, w'⟩ <;> rfl
@[simp] theorem bind_pure (m : W ω ε α) : (m.bind fun a => pure a) = m := by
  funext w
  simp only [bind_run]
  rcases m w with ⟨_ | _, w'⟩ <;> rfl
theorem tryW_run (body : W ω ε α) (ok : α → W ω ε β) (err : ε → W ω ε β) (w : ω) :
    (tryW body ok err) w = match body w with
      | (.ok a, w') => ok a w'
      | (.error e, w') => err e w' := rfl

end W

end MenpoModel.C16.PyX
