/-
C01 — the vocabulary of the SOURCE-LEVEL model in 3-D (core Lean only, no Mathlib).

The n-D functions of menpo/image/base.py, masked.py, boolean.py, interpolation.py and compositions.py are translated a
second time FROM THE SAME SOURCE TEXT with the vocabulary of this file (`namespace Src3`: the same names as
`Core/C01Src.lean`, on vectors of length 3); `GenProps/C01Src3.lean` proves the translations equal to the 3-D plans of
`Core/C01Warp.lean` executed through the funnel.  Every interpolation order: `samplerOf3`.
-/
import MenpoModel.Core.C01Src

namespace MenpoModel.C01

instance : Add V3 := ⟨fun a b => ⟨a.x + b.x, a.y + b.y, a.z + b.z⟩⟩
instance : Sub V3 := ⟨fun a b => ⟨a.x - b.x, a.y - b.y, a.z - b.z⟩⟩
instance : Mul V3 := ⟨fun a b => ⟨a.x * b.x, a.y * b.y, a.z * b.z⟩⟩
instance : Div V3 := ⟨fun a b => ⟨a.x / b.x, a.y / b.y, a.z / b.z⟩⟩
instance : Neg V3 := ⟨fun a => ⟨-a.x, -a.y, -a.z⟩⟩
instance (n : Nat) : OfNat V3 n := ⟨⟨(n : Rat), (n : Rat), (n : Rat)⟩⟩
instance : HAdd V3 Rat V3 := ⟨fun a b => ⟨a.x + b, a.y + b, a.z + b⟩⟩
instance : HSub V3 Rat V3 := ⟨fun a b => ⟨a.x - b, a.y - b, a.z - b⟩⟩

@[simp] theorem V3.add_def (a b : V3) : a + b = ⟨a.x + b.x, a.y + b.y, a.z + b.z⟩ := rfl
@[simp] theorem V3.sub_def (a b : V3) : a - b = ⟨a.x - b.x, a.y - b.y, a.z - b.z⟩ := rfl
@[simp] theorem V3.mul_def (a b : V3) : a * b = ⟨a.x * b.x, a.y * b.y, a.z * b.z⟩ := rfl
@[simp] theorem V3.div_def (a b : V3) : a / b = ⟨a.x / b.x, a.y / b.y, a.z / b.z⟩ := rfl
@[simp] theorem V3.neg_def (a : V3) : -a = ⟨-a.x, -a.y, -a.z⟩ := rfl
@[simp] theorem V3.ofNat_def (n : Nat) : (OfNat.ofNat n : V3) = ⟨(n : Rat), (n : Rat), (n : Rat)⟩ := rfl
@[simp] theorem V3.hadd_def (a : V3) (b : Rat) : a + b = (⟨a.x + b, a.y + b, a.z + b⟩ : V3) := rfl
@[simp] theorem V3.hsub_def (a : V3) (b : Rat) : a - b = (⟨a.x - b, a.y - b, a.z - b⟩ : V3) := rfl

/-- the order dispatch of `map_coordinates` in 3-D: 0 and 1 are modelled, 2..5 are a contract parameter -/
abbrev Sampler3 := Img3 → V3 → Rat
def samplerOf3 (spl : Nat → Mode → Sampler3) (order : Nat) (m : Mode) : Sampler3 :=
  match order with
  | 0 => Img3.sample .nearest m
  | 1 => Img3.sample .linear m
  | k + 2 => spl (k + 2) m

def Plan3.effOrder (p : Plan3) (order : Nat) : Nat :=
  match p.order with
  | some .nearest => 0
  | some .linear => 1
  | none => order

/-- `pseudoinverse()` by supplying class, 3-D: the closed forms of the scales and of `Translation`, the matrix
inverse for the others -/
def pinvBy3 : PinvProvider → Aff3 → Aff3
  | .nonUniformScale, m => scale3 (1 / m.a00) (1 / m.a11) (1 / m.a22)
  | .uniformScale, m => scale3 (1 / m.a00) (1 / m.a00) (1 / m.a00)
  | .translation, m => transl3 ⟨-m.t0, -m.t1, -m.t2⟩
  | _, m => m.inv

namespace Src3

abbrev Vec := V3

structure IVec where
  x : Int
  y : Int
  z : Int
deriving Repr, DecidableEq

structure BVec where
  x : Bool
  y : Bool
  z : Bool
deriving Repr, DecidableEq

def IVec.toV (s : IVec) : V3 := ⟨(s.x : Rat), (s.y : Rat), (s.z : Rat)⟩
def IVec.get (s : IVec) (k : Int) : Int := if k = 0 then s.x else if k = 1 then s.y else s.z

def ndims : Int := 3
def vsize (_ : V3) : Int := 3
def vfloor (v : V3) : V3 := ⟨(v.x.floor : Rat), (v.y.floor : Rat), (v.z.floor : Rat)⟩
def vceil (v : V3) : V3 := ⟨(v.x.ceil : Rat), (v.y.ceil : Rat), (v.z.ceil : Rat)⟩
def vallGt (a b : V3) : Bool := decide (b.x < a.x) && decide (b.y < a.y) && decide (b.z < a.z)
def vallEq (a b : V3) : Bool := decide (a.x = b.x) && decide (a.y = b.y) && decide (a.z = b.z)
def vtrunc (v : V3) : IVec := ⟨Src.truncR v.x, Src.truncR v.y, Src.truncR v.z⟩
def vltZero (v : V3) : BVec := ⟨decide (v.x < 0), decide (v.y < 0), decide (v.z < 0)⟩
def vwhere (m : BVec) (s b : V3) : V3 :=
  ⟨if m.x then s.x else b.x, if m.y then s.y else b.y, if m.z then s.z else b.z⟩
/-- a FRESH array (`x.copy()`): only such a value may be updated in place by the translated statements — when the
source drops the copy, the in-place statement is applied to a caller's array, which no longer type-checks here -/
structure Owned (α : Type) where
  val : α
class AsVec (α : Type) where
  vec : α → V3
instance : AsVec V3 := ⟨id⟩
instance : AsVec (Owned V3) := ⟨Owned.val⟩
instance : HSub V3 (Owned V3) V3 := ⟨fun a b => a - b.val⟩
@[simp] theorem hsub_owned (a : V3) (b : Owned V3) : a - b = a - b.val := rfl
/-- `b[m] = s[m]` on an owned array -/
def Owned.vwhere (m : BVec) (s : V3) (b : Owned V3) : Owned V3 := ⟨Src3.vwhere m s b.val⟩
def vsum (v : V3) : Rat := v.x + v.y + v.z
def vmin (v : V3) : Rat := minL [v.x, v.y, v.z]
def vmax (v : V3) : Rat := maxL [v.x, v.y, v.z]
def vzip (a b : IVec) : List (Int × Int) := [(a.x, b.x), (a.y, b.y), (a.z, b.z)]
def Vec.set (v : V3) (i : Int) (x : Rat) : V3 :=
  if i = 0 then ⟨x, v.y, v.z⟩ else if i = 1 then ⟨v.x, x, v.z⟩ else ⟨v.x, v.y, x⟩

def roundVec (r : String) (v : V3) : IVec :=
  if r = "ceil" then ⟨v.x.ceil, v.y.ceil, v.z.ceil⟩
  else if r = "floor" then ⟨v.x.floor, v.y.floor, v.z.floor⟩
  else ⟨roundHalfEven v.x, roundHalfEven v.y, roundHalfEven v.z⟩

/-- a 3×3 numpy matrix (rows) -/
structure Mat where
  m00 : Rat
  m01 : Rat
  m02 : Rat
  m10 : Rat
  m11 : Rat
  m12 : Rat
  m20 : Rat
  m21 : Rat
  m22 : Rat
deriving Repr, DecidableEq

def Mat.eye : Mat := ⟨1, 0, 0, 0, 1, 0, 0, 0, 1⟩
def Mat.set (m : Mat) (i j : Int) (v : Rat) : Mat :=
  if i = 0 then (if j = 0 then { m with m00 := v } else if j = 1 then { m with m01 := v } else { m with m02 := v })
  else if i = 1 then (if j = 0 then { m with m10 := v } else if j = 1 then { m with m11 := v } else { m with m12 := v })
  else (if j = 0 then { m with m20 := v } else if j = 1 then { m with m21 := v } else { m with m22 := v })

class PyNum (α : Type) where
  num : α → Rat
instance : PyNum Rat := ⟨id⟩
instance : PyNum Bool := ⟨fun b => if b then 1 else 0⟩
instance : PyNum Int := ⟨fun i => (i : Rat)⟩
instance : PyNum Nat := ⟨fun n => (n : Rat)⟩

class PyRange (α : Type) where
  pyRange : α → List α
export PyRange (pyRange)
instance : PyRange Nat := ⟨List.range⟩
instance : PyRange Int := ⟨fun n => (List.range n.toNat).map Int.ofNat⟩

class PyIter (α : Type) (β : outParam Type) where
  iter : α → List β
instance {β : Type} : PyIter (List β) β := ⟨id⟩
instance : PyIter V3 Rat := ⟨fun v => [v.x, v.y, v.z]⟩

def pyRecip (x : Rat) : Except PyExc Rat := if x = 0 then .error .zeroDiv else .ok (1 / x)

/-! ## transform objects -/

inductive TObj
  | fam (pv : PinvProvider) (m : Aff3)
  | other (app pinvApp : V3 → V3)

def TObj.app : TObj → V3 → V3
  | .fam _ m => m.apply
  | .other a _ => a
def TObj.pinv : TObj → TObj
  | .fam pv m => .fam pv (pinvBy3 pv m)
  | .other a b => .other b a
def TObj.isHomogeneous : TObj → Bool
  | .fam _ _ => true
  | .other _ _ => false
def TObj.translation (t : V3) : TObj := .fam .translation (transl3 t)
def TObj.nonUniformScale (s : V3) : TObj := .fam .nonUniformScale (scale3 s.x s.y s.z)
def TObj.uniformScale (s : Rat) : TObj := .fam .uniformScale (scale3 s s s)
def TObj.rotation (m : Mat) : TObj :=
  .fam .rotation ⟨m.m00, m.m01, m.m02, 0, m.m10, m.m11, m.m12, 0, m.m20, m.m21, m.m22, 0⟩
def TObj.composeBefore (a b : TObj) : TObj :=
  match a, b with
  | .fam _ m, .fam _ n => .fam .homogeneous (n.comp m)
  | _, _ => .other (fun p => b.app (a.app p)) (fun p => a.pinv.app (b.pinv.app p))
def TObj.chain3 (x y z : TObj) : TObj :=
  .other (fun p => z.app (y.app (x.app p))) (fun p => x.pinv.app (y.pinv.app (z.pinv.app p)))
def TObj.applyVec (t : TObj) (v : V3) : V3 := t.app v
def TObj.applyList (t : TObj) (l : List V3) : List V3 := l.map t.app

/-! ## image objects -/

abbrev Spl := Nat → Mode → Sampler3

structure Pixels where
  n0 : Nat
  n1 : Nat
  n2 : Nat
  ch : List (Int → Int → Int → Rat)
  isBool : Bool

structure Obj where
  cls : ImgClass
  pix : Pixels
  mask : Option Img3
  lms : List V3
  path : Option String

abbrev PtArr := V3 → V3
structure Sampled where
  isBool : Bool
  vals : List (V3 → Rat)

inductive Ret
  | img (o : Obj)
  | pair (o : Obj) (t : TObj)

def Ret.obj : Ret → Obj
  | .img o => o
  | .pair o _ => o
def Ret.mapObj (f : Obj → Obj) : Ret → Ret
  | .img o => .img (f o)
  | .pair o t => .pair (f o) t

class ToRet (α : Type) where
  toRet : α → Ret
instance : ToRet Obj := ⟨Ret.img⟩
instance : ToRet (Obj × TObj) := ⟨fun p => Ret.pair p.1 p.2⟩

def pixelsOf (o : Obj) : Pixels := o.pix
def shapeOf (o : Obj) : IVec := ⟨(o.pix.n0 : Int), (o.pix.n1 : Int), (o.pix.n2 : Int)⟩
def nChannels (o : Obj) : Nat := o.pix.ch.length
def nChannelsP (p : Pixels) : Nat := p.ch.length
def channel (p : Pixels) (i : Nat) : Img3 := ⟨p.n0, p.n1, p.n2, p.ch.getD i (fun _ _ _ => 0)⟩
def hasLandmarks (o : Obj) : Bool := !o.lms.isEmpty
def landmarksOf (o : Obj) : List V3 := o.lms
def setLandmarks (o : Obj) (l : List V3) : Obj := { o with lms := l }
def mapLandmarks (o : Obj) (t : TObj) : Obj := { o with lms := o.lms.map t.app }
def lmGroup (o : Obj) (_g : Option String) : List V3 := o.lms
def hasPath (o : Obj) : Bool := o.path.isSome
def pathOf (o : Obj) : Option String := o.path
def setPath (o : Obj) (p : Option String) : Obj := { o with path := p }
def newImage (p : Pixels) : Obj := ⟨.image, p, none, [], none⟩
def newBoolean (p : Pixels) : Obj := ⟨.boolean, { p with isBool := true }, none, [], none⟩
def imgOfObj (o : Obj) : Img3 := ⟨o.pix.n0, o.pix.n1, o.pix.n2, o.pix.ch.headD (fun _ _ _ => 0)⟩
def maskObj (o : Obj) : Obj :=
  match o.mask with
  | some m => ⟨.boolean, ⟨m.n0, m.n1, m.n2, [m.px], true⟩, none, [], none⟩
  | none => ⟨.boolean, ⟨o.pix.n0, o.pix.n1, o.pix.n2, [fun _ _ _ => 1], true⟩, none, [], none⟩
def asMasked (w mask : Obj) : Obj := { w with cls := .masked, mask := some (imgOfObj mask) }
def setMask (w m : Obj) : Obj := { w with mask := some (imgOfObj m) }

def emptySampled (n : Nat) (isBool : Bool) : Sampled := ⟨isBool, List.replicate n (fun _ => 0)⟩
def setSampled (s : Sampled) (i : Nat) (v : V3 → Rat) : Sampled := { s with vals := s.vals.set i v }
def mapCoordinates (spl : Spl) (isBool : Bool) (im : Img3) (pts : PtArr) (mode : String) (order : Nat) (cval : Rat) :
    V3 → Rat :=
  fun p => samplerOf3 spl order (Src.effMode isBool mode cval) im (pts p)
def sampledAllTrue (_s : Sampled) : Bool := true
/-- `points.shape[0]`: how many points an array of points holds (only the length of the output buffer: unused) -/
def nPointsOf (_p : PtArr) : Nat := 0
def indicesForImageOfShape (_s : IVec) : PtArr := id
def applyPts (t : TObj) (pts : PtArr) (_batch : Option Nat) : PtArr := fun p => t.app (pts p)
def reshapeSampled (s : Sampled) (shape : IVec) : Pixels :=
  ⟨shape.x.toNat, shape.y.toNat, shape.z.toNat, s.vals.map (fun f i j k => f (gridPt3 i j k)), s.isBool⟩
def cv2Warp (p : Pixels) (_s : IVec) (_t : TObj) : Pixels := p

def pixelBlock (o : Obj) (block : List (Int × Int)) : Pixels :=
  let b0 := block.getD 0 (0, 0)
  let b1 := block.getD 1 (0, 0)
  let b2 := block.getD 2 (0, 0)
  ⟨(b0.2 - b0.1).toNat, (b1.2 - b1.1).toNat, (b2.2 - b2.1).toNat,
   o.pix.ch.map (fun f i j k => f (b0.1 + i) (b1.1 + j) (b2.1 + k)), o.pix.isBool⟩
def Ret.setPixels (r : Ret) (p : Pixels) : Ret := r.mapObj fun o => { o with pix := { o.pix with ch := p.ch } }
/-- `image.pixels[...] = values` on an image -/
def setPixelValues (o : Obj) (p : Pixels) : Obj := { o with pix := { o.pix with ch := p.ch } }
/-- the value returned by an operation with its image replaced (an update through the view `result[0]` / `result`) -/
def Ret.withObj : Ret → Obj → Ret
  | .img _, o => .img o
  | .pair _ t, o => .pair o t
@[simp] theorem Ret.withObj_setPixelValues (r : Ret) (p : Pixels) :
    r.withObj (setPixelValues r.obj p) = r.setPixels p := by
  cases r <;> rfl

/-- `PointCloud.bounds(boundary)` / `range()` of 3-D points -/
def boundsOf (pts : List V3) (boundary : Rat) : V3 × V3 :=
  (⟨minL (pts.map (·.x)) - boundary, minL (pts.map (·.y)) - boundary, minL (pts.map (·.z)) - boundary⟩,
   ⟨maxL (pts.map (·.x)) + boundary, maxL (pts.map (·.y)) + boundary, maxL (pts.map (·.z)) + boundary⟩)
def rangeOf (pts : List V3) : V3 :=
  let b := boundsOf pts 0
  ⟨b.2.x - b.1.x, b.2.y - b.1.y, b.2.z - b.1.z⟩

inductive ScaleArg
  | scalar (s : Rat)
  | seq (l : List Rat)
deriving Repr, DecidableEq

def pyLenScale : ScaleArg → Except PyExc Int
  | .scalar _ => .error .typeErr
  | .seq l => .ok (l.length : Int)
def ScaleArg.rep (x : ScaleArg) (n : Int) : ScaleArg :=
  match x with
  | .scalar s => .seq (List.replicate n.toNat s)
  | .seq l => .seq l
def ScaleArg.toVec : ScaleArg → V3
  | .scalar s => ⟨s, s, s⟩
  | .seq l => ⟨l.getD 0 0, l.getD 1 0, l.getD 2 0⟩
class ToScaleArg (α : Type) where
  conv : α → ScaleArg
instance : ToScaleArg Rat := ⟨ScaleArg.scalar⟩
instance : ToScaleArg V3 := ⟨fun v => .seq [v.x, v.y, v.z]⟩
instance : ToScaleArg ScaleArg := ⟨id⟩

end Src3
open Src3

/-! ## object-level semantics in 3-D -/

def samplePixels3 (spl : Spl) (p : Pixels) (pts : PtArr) (mode : String) (order : Nat) (cval : Rat) : Sampled :=
  ⟨p.isBool, p.ch.map fun f => fun q =>
    samplerOf3 spl order (Src.effMode p.isBool mode cval) ⟨p.n0, p.n1, p.n2, f⟩ (pts q)⟩

def warpPixels3 (spl : Spl) (o : Obj) (shape : IVec) (T : TObj) (order : Nat) (mode : String) (cval : Rat) : Pixels :=
  ⟨shape.x.toNat, shape.y.toNat, shape.z.toNat,
   o.pix.ch.map (fun f => fun i j k =>
     samplerOf3 spl (clsOrder o.cls order) (Src.effMode o.pix.isBool mode cval) ⟨o.pix.n0, o.pix.n1, o.pix.n2, f⟩
       (T.app (gridPt3 i j k))),
   o.pix.isBool⟩

def warpLms3 (o : Obj) (T : TObj) (wl : Bool) : List V3 := if wl then o.lms.map T.pinv.app else []

def imageWarp3 (spl : Spl) (o : Obj) (shape : IVec) (T : TObj) (wl : Bool) (order : Nat) (mode : String) (cval : Rat) :
    Obj :=
  ⟨.image, warpPixels3 spl o shape T order mode cval, none, warpLms3 o T wl, o.path⟩

def booleanWarp3 (spl : Spl) (o : Obj) (shape : IVec) (T : TObj) (wl : Bool) (mode : String) (cval : Rat) : Obj :=
  ⟨.boolean, { warpPixels3 spl o shape T 0 mode cval with isBool := true }, none, warpLms3 o T wl, o.path⟩

def maskedWarp3 (spl : Spl) (o : Obj) (shape : IVec) (T : TObj) (wl : Bool) (order : Nat) (mode : String) (cval : Rat) :
    Obj :=
  ⟨.masked, warpPixels3 spl o shape T order mode cval,
   some (imgOfObj (booleanWarp3 spl (maskObj o) shape T wl mode cval)), warpLms3 o T wl, o.path⟩

def warpObj3 (spl : Spl) (o : Obj) (shape : IVec) (T : TObj) (wl : Bool) (order : Nat) (mode : String) (cval : Rat) :
    Obj :=
  match o.cls with
  | .image => imageWarp3 spl o shape T wl order mode cval
  | .masked => maskedWarp3 spl o shape T wl order mode cval
  | .boolean => booleanWarp3 spl o shape T wl mode cval

def mkRet3 (rt : Bool) (o : Obj) (T : TObj) : Ret := if rt then .pair o T else .img o

/-- a 3-D plan executed on an object: the single `warp_to_shape` call of the operation -/
def Plan3.execObj (p : Plan3) (spl : Spl) (pv : PinvProvider) (o : Obj) (order : Nat) (wl : Bool) : Obj :=
  warpObj3 spl o ⟨(p.n0 : Int), (p.n1 : Int), (p.n2 : Int)⟩ (.fam pv p.T) wl (p.effOrder order) p.mode.pyName p.mode.pyCval

def Plan3.result (p : Plan3) (spl : Spl) (pv : PinvProvider) (o : Obj) (order : Nat) (wl rt : Bool) : Ret :=
  mkRet3 rt (p.execObj spl pv o order wl) (.fam pv p.T)

/-- `Image.crop` in 3-D: the warp, then the pixels overwritten by the block of the source -/
def Plan3.cropResult (p : Plan3) (spl : Spl) (o : Obj) (rt : Bool) : Ret :=
  (p.result spl .translation o 0 true rt).setPixels
    (pixelBlock o [(Src.truncR p.T.t0, Src.truncR p.T.t0 + (p.n0 : Int)), (Src.truncR p.T.t1, Src.truncR p.T.t1 + (p.n1 : Int)),
      (Src.truncR p.T.t2, Src.truncR p.T.t2 + (p.n2 : Int))])

end MenpoModel.C01
