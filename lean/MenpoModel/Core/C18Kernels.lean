/-
C18 — the numerical kernels of `menpo/feature/features.py` inside the model (exact over `Rat`):

  gradient          np.gradient(edge_order=1) per channel and per axis: central differences inside, one-sided at the
                    two borders; output channel order: all axis-0 gradients (one per channel), then all axis-1 …
  no_op             a copy
  igo / double igo  sin/cos of the gradient orientation `angle(g_y + i·g_x)`; the magnitude `|g_y + i·g_x|` (a square
                    root) is a CONTRACT PARAMETER `mag` (`mag² = g_y² + g_x²`, `mag ≥ 0`); the double angle channels are
                    `sin 2φ = 2 sin φ cos φ`, `cos 2φ = cos²φ − sin²φ`
  es                gradient / (magnitude + median magnitude), same contract parameter
  gaussian_filter   separable correlation along every axis with a symmetric kernel (centre weight `w0`, side weights
                    `ws`: CONTRACT PARAMETER, `w0 + 2·Σ ws = 1`), border mode 'reflect' (scipy's default)

2-D channels are lists of rows; an N-D variant of the gradient on flat data is kept for the correspondence on 3-D
images.  Core Lean only (no Mathlib).
-/
import MenpoModel.Core.C18Feature

namespace MenpoModel.C18

/-- one 2-D channel: rows of pixels -/
abbrev Chan2 := List (List Rat)
/-- pixel array `(C, H, W)` -/
abbrev Px := List Chan2

def elem (M : Chan2) (i j : Nat) : Rat := (M.getD i []).getD j 0

def tab (h w : Nat) (f : Nat → Nat → Rat) : Chan2 :=
  (List.range h).map fun i => (List.range w).map fun j => f i j

def nRows (M : Chan2) : Nat := M.length
def nCols (M : Chan2) : Nat := (M.headD []).length

/-- spatial shape `pixels.shape[1:]` -/
def sh2 (p : Px) : List Nat := [nRows (p.headD []), nCols (p.headD [])]

/-- every channel is an `h × w` table -/
def Rect (h w : Nat) (p : Px) : Prop := ∀ M ∈ p, M.length = h ∧ ∀ row ∈ M, row.length = w

/-! ## gradient -/

/-- `np.gradient(x, edge_order=1)[i]` for a sequence `x 0 … x (n-1)`, `n ≥ 2`, unit spacing -/
def gradAt (x : Nat → Rat) (n i : Nat) : Rat :=
  if i = 0 then x 1 - x 0
  else if i + 1 = n then x (n - 1) - x (n - 2)
  else (x (i + 1) - x (i - 1)) / 2

def grad1 (l : List Rat) : List Rat := (List.range l.length).map fun i => gradAt (fun k => l.getD k 0) l.length i

/-- along axis 0 (down the rows) -/
def gradY (M : Chan2) : Chan2 := tab (nRows M) (nCols M) fun i j => gradAt (fun k => elem M k j) (nRows M) i
/-- along axis 1 (along a row) -/
def gradX (M : Chan2) : Chan2 := tab (nRows M) (nCols M) fun i j => gradAt (fun k => elem M i k) (nCols M) j

/-- error codes of the array-level features (`Err.feature code`) -/
def codeTypeError : Nat := 10      -- gradient on uint8
def codeTooSmall : Nat := 11       -- np.gradient: fewer than 2 samples along an axis (ValueError)
def codeNot2D : Nat := 12          -- igo / es on a non 2-D image (ValueError)

/-- `menpo.feature.gradient` on a 2-D image: `[∂y c₀, ∂y c₁, …, ∂x c₀, ∂x c₁, …]` -/
def gradient2 (isU8 : Bool) (p : Px) : Except Err Px :=
  if isU8 then .error (.feature codeTypeError)
  else if nRows (p.headD []) < 2 ∨ nCols (p.headD []) < 2 then .error (.feature codeTooSmall)
  else .ok (p.map gradY ++ p.map gradX)

/-! ### N-D gradient on flat (C-order) data, for 3-D images -/

def gradAxisFlat (shape : List Nat) (data : List Rat) (d : Nat) : List Rat :=
  (List.range (prod shape)).map fun k =>
    let idx := unravel shape k
    gradAt (fun v => data.getD (ravel shape (idx.set d v)) 0) (shape.getD d 0) (idx.getD d 0)

/-- flat channels in, `n_dims · C` flat channels out, axis-major like the code -/
def gradientFlat (shape : List Nat) (chans : List (List Rat)) : Except Err (List (List Rat)) :=
  if shape.any (· < 2) then .error (.feature codeTooSmall)
  else .ok ((List.range shape.length).flatMap fun d => chans.map fun c => gradAxisFlat shape c d)

/-! ## no_op -/

def noOp {P : Type} (p : P) : Except Err P := .ok p

/-- buffer level: `pixels.copy()` allocates -/
def noOpS : SFeat := fun s i => .ok (s.alloc (s.read i))

/-! ## IGO -/

/-- `(sin φ, cos φ)` for `φ = np.angle(g_y + i·g_x)`; `np.angle(0) = 0` -/
def unitDir (mag : Rat → Rat → Rat) (gy gx : Rat) : Rat × Rat :=
  if gy = 0 ∧ gx = 0 then (0, 1) else (gx / mag gy gx, gy / mag gy gx)

def map2 (f : Rat → Rat → Rat) (A B : Chan2) : Chan2 :=
  List.zipWith (fun ra rb => List.zipWith f ra rb) A B

def sinC (mag : Rat → Rat → Rat) (gy gx : Chan2) : Chan2 := map2 (fun a b => (unitDir mag a b).1) gy gx
def cosC (mag : Rat → Rat → Rat) (gy gx : Chan2) : Chan2 := map2 (fun a b => (unitDir mag a b).2) gy gx
def sin2C (mag : Rat → Rat → Rat) (gy gx : Chan2) : Chan2 :=
  map2 (fun a b => 2 * (unitDir mag a b).1 * (unitDir mag a b).2) gy gx
def cos2C (mag : Rat → Rat → Rat) (gy gx : Chan2) : Chan2 :=
  map2 (fun a b => (unitDir mag a b).2 * (unitDir mag a b).2 - (unitDir mag a b).1 * (unitDir mag a b).1) gy gx

/-- `menpo.feature.igo`: `[sin φ (C channels), cos φ (C)]`, with double angles `[sin φ, sin 2φ, cos φ, cos 2φ]` -/
def igo2 (mag : Rat → Rat → Rat) (dbl : Bool) (p : Px) : Except Err Px :=
  match gradient2 false p with
  | .error e => .error e
  | .ok g =>
    let gy := g.take p.length
    let gx := g.drop p.length
    let s := List.zipWith (sinC mag) gy gx
    let c := List.zipWith (cosC mag) gy gx
    if dbl then .ok (s ++ List.zipWith (sin2C mag) gy gx ++ c ++ List.zipWith (cos2C mag) gy gx)
    else .ok (s ++ c)

/-- `igo` as exported: "IGOs only work on 2D images" (`len(pixels.shape) != 3` ⇒ ValueError) -/
def igoChecked (mag : Rat → Rat → Rat) (dbl : Bool) (nDims : Nat) (p : Px) : Except Err Px :=
  if nDims ≠ 2 then .error (.feature codeNot2D) else igo2 mag dbl p

/-! ## ES -/

def insertSorted (a : Rat) : List Rat → List Rat
  | [] => [a]
  | b :: t => if a ≤ b then a :: b :: t else b :: insertSorted a t

/-- insertion sort (structural, so that the kernel evaluates it) -/
def isort : List Rat → List Rat
  | [] => []
  | a :: t => insertSorted a (isort t)

/-- `np.median` of a non-empty list -/
def median (l : List Rat) : Rat :=
  let s := isort l
  let n := s.length
  if n % 2 = 1 then s.getD (n / 2) 0 else (s.getD (n / 2 - 1) 0 + s.getD (n / 2) 0) / 2

/-- a pixel of the ES image: `g / (|g| + median)`, `none` = NaN (`0/0`: the denominator vanishes only where the
gradient does) -/
def esPix (den g : Rat) : Option Rat := if den = 0 then none else some (g / den)

abbrev OChan2 := List (List (Option Rat))

def omap2 (f : Rat → Rat → Option Rat) (A B : Chan2) : OChan2 :=
  List.zipWith (fun ra rb => List.zipWith f ra rb) A B

/-- `menpo.feature.es`: `[g_y / (|g| + med) (C channels), g_x / (|g| + med) (C)]`, `med` = median of `|g|` over all
channels and pixels -/
def es2 (mag : Rat → Rat → Rat) (p : Px) : Except Err (List OChan2) :=
  match gradient2 false p with
  | .error e => .error e
  | .ok g =>
    let gy := g.take p.length
    let gx := g.drop p.length
    let mags := List.zipWith (map2 mag) gy gx
    let med := median (mags.flatten.flatten)
    .ok (List.zipWith (fun y x => omap2 (fun a b => esPix (mag a b + med) a) y x) gy gx ++
         List.zipWith (fun y x => omap2 (fun a b => esPix (mag a b + med) b) y x) gy gx)

/-- `es` as exported: "ES features only work on 2D images" -/
def esChecked (mag : Rat → Rat → Rat) (nDims : Nat) (p : Px) : Except Err (List OChan2) :=
  if nDims ≠ 2 then .error (.feature codeNot2D) else es2 mag p

/-! ## gaussian_filter -/

/-- scipy border mode 'reflect' (`d c b a | a b c d | d c b a`), any distance from the array -/
def refl (n : Nat) (m : Int) : Nat :=
  let p := (m % (2 * (n : Int))).toNat
  if p < n then p else 2 * n - 1 - p

/-- symmetric kernel: centre weight and the weights at distance 1, 2, … -/
structure Kern where
  w0 : Rat
  ws : List Rat
deriving Repr

def Kern.total (k : Kern) : Rat := k.w0 + 2 * k.ws.sum

/-- side part of the correlation: `Σ_{d ≥ d0} ws[d] · (x[i−d] + x[i+d])` -/
def sideSum (x : Nat → Rat) (n i : Nat) : Nat → List Rat → Rat
  | _, [] => 0
  | d, w :: ws => w * (x (refl n ((i : Int) - (d : Int))) + x (refl n ((i : Int) + (d : Int)))) + sideSum x n i (d + 1) ws

/-- `scipy.ndimage.correlate1d(x, kernel, mode='reflect')[i]` for a symmetric kernel -/
def corr1 (k : Kern) (x : Nat → Rat) (n i : Nat) : Rat := k.w0 * x i + sideSum x n i 1 k.ws

def filtY (k : Kern) (M : Chan2) : Chan2 := tab (nRows M) (nCols M) fun i j => corr1 k (fun r => elem M r j) (nRows M) i
def filtX (k : Kern) (M : Chan2) : Chan2 := tab (nRows M) (nCols M) fun i j => corr1 k (fun c => elem M i c) (nCols M) j

/-- `menpo.feature.gaussian_filter` on a 2-D image: every channel filtered along axis 0, then along axis 1
(`none` = the axis is skipped, `sigma ≤ 1e-15`) -/
def gauss2 (ky kx : Option Kern) (p : Px) : Except Err Px :=
  .ok (p.map fun M =>
    let M1 := match ky with | some k => filtY k M | none => M
    match kx with | some k => filtX k M1 | none => M1)

/-! ### N-D gaussian filter on flat (C-order) data, for 3-D images -/

def filtAxisFlat (k : Kern) (shape : List Nat) (data : List Rat) (d : Nat) : List Rat :=
  (List.range (prod shape)).map fun p =>
    let idx := unravel shape p
    corr1 k (fun v => data.getD (ravel shape (idx.set d v)) 0) (shape.getD d 0) (idx.getD d 0)

/-- every channel filtered along axis 0, 1, 2, … in turn (`none`: the axis is skipped) -/
def gaussFlat (ks : List (Option Kern)) (shape : List Nat) (chans : List (List Rat)) : List (List Rat) :=
  chans.map fun c =>
    (ks.zip (List.range ks.length)).foldl (fun acc kd => match kd.1 with
      | some k => filtAxisFlat k shape acc kd.2
      | none => acc) c

/-! ## DAISY: the shape law (the descriptor values themselves stay abstract) -/

def ceilDiv (a b : Nat) : Nat := (a + b - 1) / b

/-- spatial shape of the descriptor grid: `descs[:, ::step, ::step]` of the `(H − 2r) × (W − 2r)` grid of valid centres -/
def daisyShape (H W radius step : Nat) : List Nat :=
  [ceilDiv (H - 2 * radius) step, ceilDiv (W - 2 * radius) step]

/-- number of output channels (independent of the number of input channels: the strongest gradient over the
channels is used) -/
def daisyChannels (rings histograms orientations : Nat) : Nat := (rings * histograms + 1) * orientations

end MenpoModel.C18
