/-
C02 — the vocabulary of the SOURCE-TO-LEAN translation (harness/trans_c02.py, harness/py2lean2.py) and the
hand-written definitions the translated methods are proved equal to (GenProps/C02SrcV.lean).  Core Lean only.

Value level.  The methods translated from the source text of the working tree on every run are

  menpo/transform/base/__init__.py   Transform.apply, Transform._apply_batched,
                                      Transformable._transform, Transformable._transform_inplace
  menpo/shape/base.py                Shape._transform_inplace, Shape._transform_self_inplace
  menpo/shape/pointcloud.py          PointCloud._transform_self_inplace
  menpo/landmark/base.py             Landmarkable.has_landmarks, Landmarkable.landmarks (getter),
                                      LandmarkManager.n_groups, LandmarkManager._transform_inplace
  menpo/transform/base/composable.py TransformChain._apply
  menpo/transform/__init__.py        WithDims._apply
  menpo/transform/homogeneous/base.py    Homogeneous._apply
  menpo/transform/homogeneous/affine.py  Affine._apply, Affine.linear_component, Affine.translation_component

Each becomes one Lean definition `Generated.src…` whose calls of *other* methods go through parameters (open
recursion); `VMethods` collects them and `vApply` … resolve every method call through the method-resolution
table exactly as Python does (the table is regenerated from the live classes too).  `coreMethods` is the
hand-written record the theorems of Props/C02Src.lean are about; the obligation is `srcMethods = coreMethods`.

A transform's `_apply` / the closure `Transform.apply` hands to `_transform` is `Fn = Arr → Except Err Arr`: it may
raise (batch_size ≤ 0: ValueError; WithDims with an index out of range: IndexError).
-/
import MenpoModel.Core.C02Batch
import MenpoModel.Core.PyLoop

namespace MenpoModel.C02

/-- a transform's `_apply`, or the closure given to `_transform`: may raise -/
abbrev Fn := Arr → Except Err Arr

/-- a closure that never raises -/
def okFn (f : Arr → Arr) : Fn := fun x => .ok (f x)

/-! ### Python constructs -/

/-- `try: m  except <the exceptions p accepts>: handler` -/
def tryExcept {α : Type} (m : Except Err α) (p : Err → Bool) (handler : Except Err α) : Except Err α :=
  match m with
  | .error e => if p e then handler else .error e
  | .ok a => .ok a

/-- `for it in xs: state = body(state, it)` where the body may raise -/
def forLoopE {σ α : Type} (init : σ) (xs : List α) (f : σ → α → Except Err σ) : Except Err σ :=
  match xs with
  | [] => .ok init
  | x :: rest =>
    match f init x with
    | .ok s => forLoopE s rest f
    | .error e => .error e

/-- `[f(x) for x in xs]` where `f` may raise (the first failure ends it) -/
def mapME {α β : Type} (f : α → Except Err β) : List α → Except Err (List β)
  | [] => .ok []
  | x :: xs =>
    match f x with
    | .error e => .error e
    | .ok y =>
      match mapME f xs with
      | .error e => .error e
      | .ok ys => .ok (y :: ys)

/-- `reduce(lambda acc, it: body, xs, init)` where the body may raise -/
def reduceE {σ α : Type} (f : σ → α → Except Err σ) (xs : List α) (init : σ) : Except Err σ := forLoopE init xs f

def rangeUp : Nat → Int → Int → Int → List Int
  | 0, _, _, _ => []
  | n + 1, a, b, k => if a < b then a :: rangeUp n (a + k) b k else []

def rangeDown : Nat → Int → Int → Int → List Int
  | 0, _, _, _ => []
  | n + 1, a, b, k => if a > b then a :: rangeDown n (a + k) b k else []

/-- `range(a, b, k)`: ValueError for a zero step (`k = None` does not occur where it is used: TypeError, `unknown`) -/
def pyRange (a b : Int) (k : Option Int) : Except Err (List Int) :=
  match k with
  | none => .error .unknown
  | some k =>
    if k == 0 then .error .value
    else if k > 0 then .ok (rangeUp (b - a).toNat a b k)
    else .ok (rangeDown (a - b).toNat a b k)

/-- a slice bound as Python normalises it against length `n` -/
def normIdx (n i : Int) : Int :=
  let j := if i < 0 then i + n else i
  if j < 0 then 0 else if j > n then n else j

/-- `x[a:b]` -/
def pySlice {α : Type} (x : List α) (a b : Int) : List α :=
  let n : Int := x.length
  let lo := normIdx n a
  let hi := normIdx n b
  (x.drop lo.toNat).take (hi - lo).toNat

/-- `np.vstack(outputs)`: ValueError when there is nothing to stack -/
def npVstack (xs : List Arr) : Except Err Arr := if xs.isEmpty then .error .value else .ok xs.flatten

/-- `lo_ind + batch_size` where `batch_size` is an `int` or `None` (`None` does not reach the arithmetic) -/
scoped instance : HAdd Int (Option Int) Int := ⟨fun a b => a + b.getD 0⟩

theorem add_some (a k : Int) : (a + (some k : Option Int) : Int) = a + k := rfl

/-! ### Python values, value level -/

/-- a Python value as the translated methods see it -/
inductive PV where
  | shape (s : Shape)       -- an instance of one of the shape classes
  | manager (g : Groups)    -- a LandmarkManager (its `_landmark_groups`)
  | array (a : Arr)         -- an ndarray
  | none                    -- `None`

instance : Inhabited PV := ⟨.none⟩

def PV.cls : PV → Option Cls
  | .shape s => some (.shape s.cls)
  | .manager _ => some .LandmarkManager
  | _ => Option.none

/-- `self._landmarks` (value level: a shape without groups has `_landmarks = None`) -/
def Shape.lmAttr (s : Shape) : Option Groups := if s.lms.isNil then Option.none else some s.lms

/-- `self._landmarks = v` -/
def Shape.setLmAttr : Shape → Option Groups → Shape
  | .mk c p _ e, v => .mk c p (v.getD .nil) e

/-- `self.points = v` -/
def Shape.setPoints : Shape → Arr → Shape
  | .mk c _ l e, p => .mk c p l e

/-- the state of `self` after an in-place method of `self.landmarks` left the manager in state `g` -/
def Shape.withLandmarks : Shape → Groups → Shape
  | .mk c p _ e, g => .mk c p g e

def Groups.toList : Groups → List (String × Shape)
  | .nil => []
  | .cons n g r => (n, g) :: r.toList

def Groups.ofList : List (String × Shape) → Groups
  | [] => .nil
  | (n, g) :: r => .cons n g (Groups.ofList r)

/-- `len(self._landmark_groups)` -/
def Groups.len (g : Groups) : Int := g.toList.length

/-- `self._landmark_groups.values()` -/
def Groups.values (g : Groups) : List Shape := g.toList.map Prod.snd

def setSndAt {κ ν : Type} : List (κ × ν) → Nat → ν → List (κ × ν)
  | [], _, _ => []
  | (k, _) :: t, 0, v => (k, v) :: t
  | p :: t, i + 1, v => p :: setSndAt t i v

/-- the manager after the `i`-th value of `_landmark_groups` was left in state `s` by an in-place method -/
def Groups.setValueAt (g : Groups) (i : Nat) (s : Shape) : Groups := Groups.ofList (setSndAt g.toList i s)

/- the same traversal as `mapShape`, with a closure that may raise: the groups first (in order, each group's own
groups before its points), then the points — the order `Shape._transform_inplace` works in -/
mutual
def mapShapeE (f : Fn) : Shape → Except Err Shape
  | .mk c p l e =>
    match mapGroupsE f l with
    | .error er => .error er
    | .ok l' =>
      match f p with
      | .error er => .error er
      | .ok p' => .ok (.mk c p' l' e)
def mapGroupsE (f : Fn) : Groups → Except Err Groups
  | .nil => .ok .nil
  | .cons n g r =>
    match mapShapeE f g with
    | .error er => .error er
    | .ok g' =>
      match mapGroupsE f r with
      | .error er => .error er
      | .ok r' => .ok (.cons n g' r')
end

mutual
def Shape.depth : Shape → Nat
  | .mk _ _ l _ => l.depth + 1
def Groups.depth : Groups → Nat
  | .nil => 0
  | .cons _ g r => max g.depth r.depth
end

/-! ### `_apply_batched` with its error branches -/

/-- `Transform._apply_batched(x, batch_size)` for EVERY `batch_size`: `None`, positive, zero (`range` raises
ValueError) and negative (`range` is empty, `np.vstack([])` raises ValueError); an array without points is handed
to `_apply` whole whatever the batch size -/
def applyBatchedE (f : Fn) (batch : Option Int) (x : Arr) : Except Err Arr :=
  match batch with
  | none => f x
  | some k =>
    if x.isEmpty then f x
    else if k ≤ 0 then .error .value
    else (mapME f (chunks k.toNat x)).map List.flatten

/-- `TransformChain._apply` with members that may raise -/
def chainFnE (fs : List Fn) : Fn := fun x => forLoopE x fs (fun acc f => f acc)

/-! ### `WithDims._apply` with its error branches -/

/-- what `WithDims` may hold in `dims` -/
inductive Dims where
  | list (js : List Int)      -- a list / tuple / integer array of column indices, negative ones count from the end
  | single (j : Int)          -- one integer: numpy drops the axis, `_apply` puts it back
  | mask (bs : List Bool)     -- a boolean mask over the columns
deriving DecidableEq, Repr, Inhabited

/-- the result of numpy indexing: 2-D, or 1-D when the column index was a single integer -/
inductive NdArr where
  | d2 (a : Arr)
  | d1 (v : List Rat)
deriving Repr, Inhabited

/-- a column index as numpy normalises it against `w` columns: IndexError outside `[-w, w)` -/
def colIdx (w : Nat) (j : Int) : Except Err Nat :=
  if 0 ≤ j ∧ j < w then .ok j.toNat
  else if j < 0 ∧ -(w : Int) ≤ j then .ok (j + w).toNat
  else .error .index

def maskIdx : Nat → List Bool → List Nat
  | _, [] => []
  | i, b :: t => if b then i :: maskIdx (i + 1) t else maskIdx (i + 1) t

/-- the columns `dims` selects in a row of width `w` -/
def dimsCols (w : Nat) : Dims → Except Err (List Nat)
  | .list js => mapME (colIdx w) js
  | .single j => (colIdx w j).map fun i => [i]
  | .mask bs => if bs.length = w then .ok (maskIdx 0 bs) else .error .index

/-- `x[:, dims]` (an array without rows has no width in this model: nothing is checked, nothing selected) -/
def colIndex (x : Arr) (dims : Dims) : Except Err NdArr :=
  match x with
  | [] => match dims with
    | .single _ => .ok (.d1 [])
    | _ => .ok (.d2 [])
  | r0 :: _ =>
    match dimsCols r0.length dims with
    | .error e => .error e
    | .ok cols =>
      match dims with
      | .single _ => .ok (.d1 (x.map fun row => row.getD (cols.headD 0) 0))
      | _ => .ok (.d2 (x.map fun row => cols.map fun j => row.getD j 0))

def NdArr.ndim : NdArr → Int
  | .d2 _ => 2
  | .d1 _ => 1

/-- `y[:, None]` -/
def NdArr.newAxis : NdArr → NdArr
  | .d1 v => .d2 (v.map fun y => [y])
  | .d2 a => .d2 a

/-- `y.copy()` handed back as the `(n_points, n_dims)` array `_apply` must return -/
def NdArr.asArr : NdArr → Except Err Arr
  | .d2 a => .ok a
  | .d1 _ => .error .unknown

/-- `WithDims._apply` for every kind of `dims` -/
def withDimsE (dims : Dims) : Fn := fun x =>
  match colIndex x dims with
  | .error e => .error e
  | .ok y => (if y.ndim == 1 then y.newAxis else y).asArr

/-! ### the numpy kernels of the homogeneous family (plumbing only: which expression goes where) -/

/-- `np.hstack([x, np.ones([x.shape[0], 1])])` -/
def hstackOnes (x : Arr) : Arr := x.map fun r => r ++ [1]
/-- `a.dot(m.T)` / `np.dot(a, m.T)` -/
def dotT (a m : Arr) : Arr := a.map fun r => m.map fun mr => dotRow mr r
/-- `(h_y / h_y[:, -1][:, None])[:, :-1]` -/
def normLast (hy : Arr) : Arr := hy.map fun r => r.dropLast.map fun y => y / r.getLastD 1
/-- `m[:-1, :-1]` -/
def sliceLinear (m : Arr) : Arr := m.dropLast.map List.dropLast
/-- `m[:-1, -1]` -/
def sliceTranslation (m : Arr) : List Rat := m.dropLast.map fun r => r.getLastD 0
/-- `a + v` (a row vector broadcast over the rows) -/
def addRow (a : Arr) (v : List Rat) : Arr := a.map fun r => List.zipWith (· + ·) r v

/-! ### the translated methods as a record, and method resolution over it -/

/-- one entry per translated method; calls of other methods are parameters -/
structure VMethods where
  /-- `Landmarkable.has_landmarks` -/
  hasLandmarks : Shape → Bool
  /-- `Landmarkable.landmarks` (getter; that it creates an empty manager is not visible at value level) -/
  landmarks : Shape → Groups
  /-- `LandmarkManager.n_groups` -/
  nGroups : Groups → Int
  /-- `Shape._transform_inplace (callM: self.landmarks._transform_inplace, callSelf: self._transform_self_inplace)` -/
  shapeInplace : (Groups → Fn → Except Err (Groups × PV)) → (Shape → Fn → Except Err (Shape × PV)) →
    Shape → Fn → Except Err (Shape × PV)
  /-- `Shape._transform_self_inplace` -/
  shapeSelf : Shape → Fn → Except Err (Shape × PV)
  /-- `PointCloud._transform_self_inplace` -/
  pcSelf : Shape → Fn → Except Err (Shape × PV)
  /-- `LandmarkManager._transform_inplace (callS: group._transform_inplace)` -/
  lmInplace : (Shape → Fn → Except Err (Shape × PV)) → Groups → Fn → Except Err (Groups × PV)
  /-- `Transformable._transform_inplace` -/
  tInplace : PV → Fn → Except Err (PV × PV)
  /-- `Transformable._transform (callCopy: self.copy, callI: copy_of_self._transform_inplace)` -/
  transform : (PV → Except Err PV) → (PV → Fn → Except Err (PV × PV)) → PV → Fn → Except Err PV
  /-- `Transform._apply_batched (ap: self._apply)` -/
  applyBatched : Fn → Arr → Option Int → Except Err Arr
  /-- `Transform.apply (callT: x._transform, ap: self._apply)` -/
  apply : (PV → Fn → Except Err PV) → Fn → PV → Option Int → Except Err PV

/-- `self._apply_batched(x, batch_size)` on whatever `x` is: inside the closure an array; in the `except` arm of
`Transform.apply` the argument itself, which is an array when `x._transform` does not exist -/
class BatchArg (α : Type) where
  run : (Arr → Option Int → Except Err Arr) → α → Option Int → Except Err α

instance : BatchArg Arr := ⟨fun b x k => b x k⟩
instance : BatchArg PV := ⟨fun b x k =>
  match x with
  | .array a => (b a k).map PV.array
  | _ => .error .unknown⟩

/-- `x.copy()` at value level: the value itself, when the class resolves `copy` to an implementation the heap model
transcribes -/
def vCopy (d : Dispatch) (x : PV) : Except Err PV :=
  match x.cls with
  | Option.none => .error .attr
  | some c =>
    match supCopy d c with
    | some .Copyable => .ok x
    | some .LandmarkManager => .ok x
    | some .LabelledPointUndirectedGraph => .ok x
    | some .absent => .error .attr
    | Option.none => .error .attr
    | _ => .error .unknown

/-- `self._transform_self_inplace(transform)` on a shape -/
def vSelf (m : VMethods) (d : Dispatch) (s : Shape) (t : Fn) : Except Err (Shape × PV) :=
  match supSelf d (.shape s.cls) with
  | some .PointCloud => m.pcSelf s t
  | some .Shape => m.shapeSelf s t
  | some .absent => .error .attr
  | Option.none => .error .attr
  | _ => .error .unknown

/-- `manager._transform_inplace(transform)`; `recS` is `group._transform_inplace` -/
def vInplaceM (m : VMethods) (d : Dispatch) (recS : Shape → Fn → Except Err (Shape × PV)) (g : Groups) (t : Fn) :
    Except Err (Groups × PV) :=
  match supInplace d .LandmarkManager with
  | some .LandmarkManager => m.lmInplace recS g t
  | some .Transformable => (m.tInplace (.manager g) t).bind fun _ => .error .unknown
  | some .absent => .error .attr
  | Option.none => .error .attr
  | _ => .error .unknown

/-- `shape._transform_inplace(transform)` (fuel: nesting depth of landmark groups, Python's recursion limit) -/
def vInplaceS (m : VMethods) (d : Dispatch) : Nat → Shape → Fn → Except Err (Shape × PV)
  | 0, _, _ => .error .fuel
  | n + 1, s, t =>
    match supInplace d (.shape s.cls) with
    | some .Shape => m.shapeInplace (vInplaceM m d (vInplaceS m d n)) (vSelf m d) s t
    | some .Transformable => (m.tInplace (.shape s) t).bind fun _ => .error .unknown
    | some .absent => .error .attr
    | Option.none => .error .attr
    | _ => .error .unknown

/-- `x._transform_inplace(transform)` on any value -/
def vInplace (m : VMethods) (d : Dispatch) (fuel : Nat) (x : PV) (t : Fn) : Except Err (PV × PV) :=
  match x with
  | .shape s => (vInplaceS m d fuel s t).map fun r => (.shape r.1, r.2)
  | .manager g => (vInplaceM m d (vInplaceS m d fuel) g t).map fun r => (.manager r.1, r.2)
  | _ => .error .attr

/-- `x._transform(transform)` on any value: AttributeError when `x` is not Transformable (an array) -/
def vTransform (m : VMethods) (d : Dispatch) (fuel : Nat) (x : PV) (t : Fn) : Except Err PV :=
  match x.cls with
  | Option.none => .error .attr
  | some c =>
    match supTransform d c with
    | some .Transformable => m.transform (vCopy d) (vInplace m d fuel) x t
    | some .absent => .error .attr
    | Option.none => .error .attr
    | _ => .error .unknown

/-- `transform.apply(x, batch_size)` with `ap` the transform's `_apply` -/
def vApply (m : VMethods) (d : Dispatch) (fuel : Nat) (ap : Fn) (x : PV) (batch : Option Int) : Except Err PV :=
  m.apply (vTransform m d fuel) ap x batch

/-! ### the hand-written methods (what the theorems of Props/C02Src.lean are about) -/

def coreHasLandmarks (s : Shape) : Bool := !s.lms.isNil

def coreLmInplace (callS : Shape → Fn → Except Err (Shape × PV)) (g : Groups) (t : Fn) : Except Err (Groups × PV) :=
  (mapME (fun kv => (callS kv.2 t).map fun r => (kv.1, r.1)) g.toList).map fun l => (Groups.ofList l, .manager (Groups.ofList l))

def coreShapeInplace (callM : Groups → Fn → Except Err (Groups × PV)) (callSelf : Shape → Fn → Except Err (Shape × PV))
    (s : Shape) (t : Fn) : Except Err (Shape × PV) :=
  if s.lms.isNil then callSelf s t
  else
    match callM s.lms t with
    | .error e => .error e
    | .ok r => callSelf (s.withLandmarks r.1) t

def coreMethods : VMethods where
  hasLandmarks := coreHasLandmarks
  landmarks := Shape.lms
  nGroups := Groups.len
  shapeInplace := coreShapeInplace
  shapeSelf := fun s _ => .ok (s, .none)
  pcSelf := fun s t => (t s.points).map fun p => (s.setPoints p, .shape (s.setPoints p))
  lmInplace := coreLmInplace
  tInplace := fun _ _ => .error .notImpl
  transform := fun callCopy callI x t => (callCopy x).bind fun c => (callI c t).map Prod.fst
  applyBatched := fun ap x b => applyBatchedE ap b x
  apply := fun callT ap x b =>
    tryExcept (callT x fun a => applyBatchedE ap b a) (· == .attr) (BatchArg.run (fun a k => applyBatchedE ap k a) x b)

end MenpoModel.C02
