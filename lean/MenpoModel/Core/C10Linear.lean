/-
C10 — the linear-algebra side of `menpo.math.decomposition.pca` and of
`MeanLinearVectorModel` / `PCAVectorModel`, dimension generic, exact rationals.

Everything the code computes itself is a definition here (mean, centring, covariance or
Gram matrix with the `n - 1` normaliser, the symmetrisation, the Gram-path rescale
`U = diag w · V · X`, project / instance / reconstruct / project_out with the mean, the
active prefix of the components).  What the code obtains from LAPACK (`np.linalg.eigh`) and
`np.sqrt` is a *parameter with a contract* (`EigContract`, `w i ^ 2 * ((n - 1) * l i) = 1`);
the residuals of that contract are executable (`orthResidual`, `eigResidual`,
`sampleVariance`) so that the driver checks the factors the real code returns against the
exact covariance of the data (certificate checking, DESIGN §2.3a).

Mathlib is imported for `Matrix` only (one module at a time).
-/
import Mathlib.Data.Matrix.Mul
import Mathlib.Data.Matrix.Diagonal
import Mathlib.LinearAlgebra.Matrix.Trace
import Mathlib.Algebra.Order.Field.Rat
import Mathlib.Algebra.Order.Field.Basic

namespace MenpoModel.C10
open Matrix

variable {n d k k' : ℕ}
variable {K : Type} [Field K] [LinearOrder K] [IsStrictOrderedRing K]

/-- `np.mean(X, axis=0)` -/
def mean (X : Matrix (Fin n) (Fin d) K) : Fin d → K := fun j => (∑ i, X i j) / (n : K)

/-- the `m` of `pca`: the sample mean when `centre`, zeros otherwise -/
def pcaMean (centre : Bool) (X : Matrix (Fin n) (Fin d) K) : Fin d → K :=
  if centre then mean X else 0

/-- `X - m` (broadcast over rows) -/
def centred (X : Matrix (Fin n) (Fin d) K) (m : Fin d → K) : Matrix (Fin n) (Fin d) K :=
  Matrix.of fun i j => X i j - m j

/-- `np.dot(X.T, X) / (n - 1)`  (branch `d < n`) -/
def cov (Xc : Matrix (Fin n) (Fin d) K) : Matrix (Fin d) (Fin d) K :=
  ((n : K) - 1)⁻¹ • (Xcᵀ * Xc)

/-- `np.dot(X, X.T) / (n - 1)`  (branch `d ≥ n`) -/
def gram (Xc : Matrix (Fin n) (Fin d) K) : Matrix (Fin n) (Fin n) K :=
  ((n : K) - 1)⁻¹ • (Xc * Xcᵀ)

/-- `(C + C.T) / 2.0` -/
def symmetrize {a : ℕ} (C : Matrix (Fin a) (Fin a) K) : Matrix (Fin a) (Fin a) K :=
  (2 : K)⁻¹ • (C + Cᵀ)

/-- Gram path: `U = dot(V.T, X); U *= w[:, None]` with `V` given as rows (`k × n`) -/
def gramComponents (w : Fin k → K) (V : Matrix (Fin k) (Fin n) K) (Xc : Matrix (Fin n) (Fin d) K) :
    Matrix (Fin k) (Fin d) K :=
  diagonal w * (V * Xc)

/-- `MeanLinearVectorModel.project`: `np.dot(x - mean, components.T)` -/
def project (U : Matrix (Fin k) (Fin d) K) (m x : Fin d → K) : Fin k → K := (x - m) ᵥ* Uᵀ

/-- `instance` with full weights: `np.dot(weights, components) + mean` -/
def inst (U : Matrix (Fin k) (Fin d) K) (m : Fin d → K) (w : Fin k → K) : Fin d → K := w ᵥ* U + m

/-- `reconstruct = instance ∘ project` -/
def reconstruct (U : Matrix (Fin k) (Fin d) K) (m x : Fin d → K) : Fin d → K :=
  inst U m (project U m x)

/-- `MeanLinearVectorModel.project_out`: `(x - mean) - dot(project(x), components)` (the mean is
not added back) -/
def projectOut (U : Matrix (Fin k) (Fin d) K) (m x : Fin d → K) : Fin d → K :=
  (x - m) - (project U m x) ᵥ* U

/-- the active / trimmed prefix `_components[:k']` -/
def prefixRows (U : Matrix (Fin k) (Fin d) K) (h : k' ≤ k) : Matrix (Fin k') (Fin d) K :=
  U.submatrix (Fin.castLE h) id

/-- what `np.linalg.eigh` promises of the rows `U` (unit, mutually orthogonal) and values `l`
for the symmetric matrix `C`, after the code's own selection / transposition -/
structure EigContract (C : Matrix (Fin d) (Fin d) K) (U : Matrix (Fin k) (Fin d) K) (l : Fin k → K) :
    Prop where
  orth : U * Uᵀ = 1
  eig : U * C = diagonal l * U

/-! ### executable residuals of the contract and of the conclusions (certificate checking) -/

def orthResidual (U : Matrix (Fin k) (Fin d) K) : Matrix (Fin k) (Fin k) K := U * Uᵀ - 1

def eigResidual (C : Matrix (Fin d) (Fin d) K) (U : Matrix (Fin k) (Fin d) K) (l : Fin k → K) :
    Matrix (Fin k) (Fin d) K := U * C - diagonal l * U

/-- `(n-1)⁻¹ Σ_s ((x_s - m) · u_i)²` -/
def sampleVariance (Xc : Matrix (Fin n) (Fin d) K) (U : Matrix (Fin k) (Fin d) K) (i : Fin k) : K :=
  ((n : K) - 1)⁻¹ * ∑ s, ((Xc * Uᵀ) s i) ^ 2

/-- largest absolute entry -/
def maxAbsEntry {a b : ℕ} (M : Matrix (Fin a) (Fin b) K) : K :=
  (List.finRange a).foldl (fun acc i => (List.finRange b).foldl (fun acc j => max acc |M i j|) acc) 0

def maxAbsVec {a : ℕ} (v : Fin a → K) : K := (List.finRange a).foldl (fun acc i => max acc |v i|) 0

/-! ### evaluation helpers (provably identities)

A `Matrix` is a function, so the interpreter recomputes an entry on every access (and the compiler
eta-expands any definition returning one, so a `let` inside such a definition does not help).  The
driver therefore forces intermediate results into arrays (`toArr`, a data value, evaluated once) and
reads them back (`ofArr`); `ofArr (toArr M) = M`. -/

def toArr {a b : ℕ} (M : Matrix (Fin a) (Fin b) ℚ) : Array (Array ℚ) :=
  Array.ofFn fun i : Fin a => Array.ofFn fun j : Fin b => M i j

def ofArr (a b : ℕ) (arr : Array (Array ℚ)) : Matrix (Fin a) (Fin b) ℚ :=
  Matrix.of fun i j => (arr[i.val]!)[j.val]!

def vtoArr {a : ℕ} (v : Fin a → ℚ) : Array ℚ := Array.ofFn v

def vofArr (a : ℕ) (arr : Array ℚ) : Fin a → ℚ := fun j => arr[j.val]!

theorem materialize_eq {a b : ℕ} (M : Matrix (Fin a) (Fin b) ℚ) : ofArr a b (toArr M) = M := by
  ext i j
  simp [ofArr, toArr]

theorem vmaterialize_eq {a : ℕ} (v : Fin a → ℚ) : vofArr a (vtoArr v) = v := by
  ext j; simp [vofArr, vtoArr]

end MenpoModel.C10
