/-
C08 — which instance attributes `set_target` / `_sync_state_from_target` read and write, class by class.
Core Lean only.

`readsOf` / `writesOf` / `inPlaceOf` are the *model's* read and write sets (theorems `sync_reads_only`,
`sync_writes_only`, `hSync_cell_discipline` prove that the model's `sync` / `hSync` really read and write
exactly these).  The same sets are measured on live objects of every alignment class and option
combination on every run (`harness/c08.py: rw_table`, attribute read tracing + before/after digests) and
written to `Generated/C08RW.lean`; `GenProps/C08.lean` states, by `decide`, that the measured sets are the
model's.  What is measured: the *instance attributes of the alignment object* on ONE traced execution per
class and option combination (fixed data, three `set_target` calls).  An attribute that survives from
construction or from an earlier target and is read by the re-fit on that path shows up as a read outside
`readsOf`; a data-dependent read on another path, or state kept outside the instance dictionary (class
attribute, module global, state inside the held kernel / source mesh), is not seen by this table — such
state is the business of the fresh-construction oracle.
-/
import MenpoModel.Core.C08Retarget

namespace MenpoModel.C08

/-- the fields of the model object, plus the attributes of the real objects that have no counterpart in
the model because no re-fit touches them -/
inductive Fld where
  | target | source | rotation | allowMirror | kernel | minSV
  /-- `_h_matrix` -/
  | hmat
  /-- TPS: `l` (system matrix, built once from source and kernel) -/
  | tpsL
  /-- TPS: `coefficients` -/
  | tpsCoef
  /-- TPS: `v`, `y` (right-hand side scratch, rebuilt from the target before use) -/
  | tpsScratch
  /-- PWA: `ti`, `tij`, `tik` -/
  | pwaVec
  /-- construction-time attributes nothing in `set_target` reads or writes:
  TPS `k`, `p`; PWA `s`, `sij`, `sik`; the apply memo of `CachedPWA` -/
  | ctorOnly
  deriving DecidableEq, Repr

/-- Python attribute name ↦ field (`none`: an attribute the model does not know) -/
def pyFld : String → Option Fld
  | "_target" => some .target
  | "_source" => some .source
  | "rotation" => some .rotation
  | "allow_mirror" => some .allowMirror
  | "kernel" => some .kernel
  | "min_singular_val" => some .minSV
  | "_h_matrix" => some .hmat
  | "l" => some .tpsL
  | "coefficients" => some .tpsCoef
  | "v" => some .tpsScratch
  | "y" => some .tpsScratch
  | "ti" => some .pwaVec
  | "tij" => some .pwaVec
  | "tik" => some .pwaVec
  | "k" => some .ctorOnly
  | "p" => some .ctorOnly
  | "s" => some .ctorOnly
  | "sij" => some .ctorOnly
  | "sik" => some .ctorOnly
  | "_applied_points" => some .ctorOnly
  | "_iab" => some .ctorOnly
  | _ => none

/-- attributes read by `set_target` before it (re)binds them: the old target (its shape, by
`_verify_target`), and what the re-fit takes from the object -/
def readsOf : Cls → List Fld
  | .affine => [.target, .source]
  | .similarity => [.target, .source, .rotation, .allowMirror]
  | .rotation => [.target, .source, .allowMirror, .hmat]
  | .translation => [.target, .source, .hmat]
  | .uniformScale => [.target, .source, .hmat]
  | .tps => [.target, .minSV, .tpsL]
  | .pwa => [.target, .source]

/-- attributes whose value or identity changes -/
def writesOf : Cls → List Fld
  | .tps => [.target, .tpsCoef, .tpsScratch]
  | .pwa => [.target, .pwaVec]
  | _ => [.target, .hmat]

/-- written attributes that keep their identity (the ndarray is modified in place) -/
def inPlaceOf : Cls → List Fld
  | .rotation => [.hmat]
  | .translation => [.hmat]
  | .uniformScale => [.hmat]
  | _ => []

/-- one measured row: implementation class, model class, option label, attributes read before being
(re)bound, attributes changed, attributes changed in place, all instance attributes -/
structure RWRow where
  impl : String
  cls : Cls
  opts : String
  reads : List String
  writes : List String
  inPlace : List String
  attrs : List String

def fldsOf (l : List String) : List (Option Fld) := (l.map pyFld).eraseDups

def sameSet (a : List (Option Fld)) (b : List Fld) : Bool :=
  a.all (fun x => match x with | some f => b.contains f | none => false) && b.all (fun f => a.contains (some f))

/-- right-hand-side scratch (`v`, `y` of TPS) may be kept in attributes or in locals: not compared -/
def noScratch (l : List Fld) : List Fld := l.filter fun f => f != .tpsScratch
def noScratchO (l : List (Option Fld)) : List (Option Fld) := l.filter fun f => f != some .tpsScratch

/-- the measured row is what the model says: every attribute that is read or written is known (an attribute
the re-fit never touches may be anything); reads, writes (scratch apart) and in-place writes are exactly the
model's; whatever is read and also written is the target (whose old value is only verified against) or the
partially overwritten matrix of an in-place class; nothing marked construction-time-only is read or written -/
def RWRow.ok (r : RWRow) : Bool :=
  (r.reads ++ r.writes).all (fun a => (pyFld a).isSome) &&
  sameSet (fldsOf r.reads) (readsOf r.cls) &&
  sameSet (noScratchO (fldsOf r.writes)) (noScratch (writesOf r.cls)) &&
  sameSet (fldsOf r.inPlace) (inPlaceOf r.cls) &&
  r.reads.all (fun a => pyFld a != some .ctorOnly) && r.writes.all (fun a => pyFld a != some .ctorOnly) &&
  (r.reads.filter fun a => r.writes.contains a).all (fun a =>
    pyFld a == some .target || (inPlaceOf r.cls).any (fun f => pyFld a == some f))

/-- the model's own tables satisfy the side conditions the frame theorems need: the only field both read
and written, besides the target, is the partially overwritten matrix of an in-place class -/
theorem readsOf_writesOf_overlap : ∀ c : Cls,
    ((readsOf c).filter fun f => (writesOf c).contains f) = .target :: inPlaceOf c := by
  intro c; cases c <;> rfl

/-! ### what `copy()` shares (measured on live objects of every class on every run)

`hCopy` (Core/C08Heap.lean) transcribes the copy discipline: a homogeneous alignment's copy gets a NEW matrix cell and
keeps the references to the source and target `PointCloud`s; a TPS / PWA copy owns new source and target objects.  The
same three facts are measured with Python's `is` on `c = o.copy()` of live objects. -/

structure CopyRow where
  impl : String
  cls : Cls
  /-- `c._h_matrix is not o._h_matrix` (homogeneous classes; `true` where there is no matrix) -/
  ownMatrix : Bool
  /-- `c._source is o._source`, `c._target is o._target` -/
  sharesSource : Bool
  sharesTarget : Bool

def isHomCls : Cls → Bool
  | .tps => false
  | .pwa => false
  | _ => true

/-- what the independence of copies needs of the measured row: the copy owns its matrix (the in-place re-fits write
into it).  Whether the point-set *objects* are shared (`hCopy`: by the homogeneous classes only) is recorded and
compared by the correspondence, not demanded here: `set_target` re-binds `_target` and never writes a point set, so
either choice keeps copies independent -/
def CopyRow.ok (r : CopyRow) : Bool := r.ownMatrix

/-- the rows agree with `hCopy`'s choice (reported, not an obligation) -/
def CopyRow.asModel (r : CopyRow) : Bool :=
  (r.sharesSource == isHomCls r.cls) && (r.sharesTarget == isHomCls r.cls)

/-! ### which class supplies which method (regenerated from the live MROs)

`vEdit` / `hEdit` / `hCopy` transcribe, class by class, *which* implementation of `_set_h_matrix`,
`_from_vector_inplace`, `set_rotation_matrix`, `copy` … runs.  That resolution is measured on every run. -/

structure Dispatch where
  impl : String
  cls : Cls
  /-- (method, class whose `__dict__` supplies it; `-` = no such method) -/
  supplies : List (String × String)

def Dispatch.get (r : Dispatch) (m : String) : String :=
  match r.supplies.find? (fun p => p.1 == m) with
  | some p => p.2
  | none => "?"

def isHom : Cls → Bool
  | .tps => false
  | .pwa => false
  | _ => true

/-- the resolution the model's transcription relies on:
* `set_target`, `_verify_target`, `_sync_target_from_state` are `Targetable`'s and `_target_setter`,
  `_new_target_from_state` are `Alignment`'s for every class (one `setTarget` / `syncTarget` in the model);
* every class has its own re-fit (`sync` has a branch per class; the PWA classes share `AbstractPWA`'s);
* `copy` is `HomogFamilyAlignment`'s (shallow + own matrix) exactly for the homogeneous classes, `Copyable`'s
  (deep) for TPS / PWA (`hCopy`);
* only `AlignmentAffine` overrides `_set_h_matrix` (so only its compositions re-sync the target; the others go
  through `Affine._set_h_matrix`), compositions are `Homogeneous`'s;
* `_from_vector_inplace` is overridden (with a target re-sync) by similarity / translation / uniform scale,
  `set_rotation_matrix` by rotation (`vEdit`, kind `fromVector`);
* TPS / PWA have none of the parameter-edit methods. -/
def Dispatch.ok (r : Dispatch) : Bool :=
  r.get "set_target" == "Targetable" && r.get "_verify_target" == "Targetable" &&
  r.get "_sync_target_from_state" == "Targetable" && r.get "_target_setter" == "Alignment" &&
  r.get "_new_target_from_state" == "Alignment" &&
  (r.get "_sync_state_from_target" == r.impl || (r.cls == .pwa && r.get "_sync_state_from_target" == "AbstractPWA")) &&
  r.get "copy" == (if isHom r.cls then "HomogFamilyAlignment" else "Copyable") &&
  (if isHom r.cls then
    ((r.get "_set_h_matrix" == r.impl) == (r.cls == .affine)) &&
    (r.get "_set_h_matrix" == r.impl || r.get "_set_h_matrix" == "Affine") &&
    r.get "_compose_before_inplace" == "Homogeneous" && r.get "_compose_after_inplace" == "Homogeneous" &&
    ((r.get "_from_vector_inplace" == r.impl) ==
      (r.cls == .similarity || r.cls == .translation || r.cls == .uniformScale)) &&
    ((r.get "set_rotation_matrix" == r.impl) == (r.cls == .rotation)) &&
    (r.cls == .rotation || r.get "set_rotation_matrix" == "-")
  else
    r.get "_set_h_matrix" == "-" && r.get "_from_vector_inplace" == "-" && r.get "set_rotation_matrix" == "-" &&
    r.get "_compose_before_inplace" == "-" && r.get "_compose_after_inplace" == "-")

end MenpoModel.C08
